(* C19 — specification level.
   Property text: "no address is ever recorded as allocated to two live owners, every address returned to a
   caller is recorded as allocated to that caller's handle in its block, and the handle records agree with
   the block records".

   The oracle ok_trace reads ONLY what the implementation did (the sequence of datastore accesses with the
   values it wrote, and the results it returned to callers); it does not run the model.
     (a) every block ever written is well formed: each ordinal has at most one owner attribute, the free
         list has no duplicates and is exactly the set of ordinals without owner;
     (b) no stealing: a write never changes the owner of an allocated address; an address loses its owner only
         through a release operation that names it (or its handle); it gains an owner only through an assign
         operation, for that operation's handle; blocks are created free and deleted only when every address they
         still record is being released by the deleting operation;
     (c) every address returned by a completed assign was recorded for the caller's handle by a successful
         write of that same operation (or, with MaxAllocToHandlePerIPVersion, was read by that operation as already
         recorded for the handle in a written block), and is not recorded for anybody else when the call returns unless
         a release naming the address (by any client) ran while the operation was in progress;
     (d) whenever no operation is in flight and no client has crashed, for every handle and block
         handle.Block[b] = number of ordinals of b owned by the handle. *)
From Coq Require Import List NArith Bool Arith.
From Verif.Common Require Import Cas.
From Verif.C19 Require Import Model ModelV.
Import ListNotations.
Open Scope N_scope.

(* ------------------------------------------------------------------ observations *)
Inductive okind := OGet | OList | OCreate | OUpdate | ODelete.
Inductive ores := XOk | XNotFound | XExists | XConflict | XNone.

Record obs := {
  o_client : nat;
  o_fault : fault;
  o_kind : okind;
  o_key : option key;
  o_list : option lopt;
  o_val : option value;          (* value carried by a create/update request *)
  o_res : ores;                  (* how the datastore answered (XNone: crashed before the access) *)
  o_done : list result           (* results of the operations this client completed during this step *)
}.

Record case := {
  c_cfg : config;
  c_fx : bool;                          (* which claimAffineBlock the tree has (probed by the driver): see ModelV.v *)
  c_fy : bool;                          (* which releaseByHandle the tree has (probed by the driver): see ModelV.v *)
  c_clients : list (N * list op);       (* host, operations *)
  c_obs : list obs;
  c_final : list (key * value)          (* datastore contents at the end *)
}.

Definition ores_eqb (a b : ores) : bool :=
  match a, b with XOk, XOk | XNotFound, XNotFound | XExists, XExists | XConflict, XConflict | XNone, XNone => true | _, _ => false end.
Definition lopt_eqb (a b : lopt) : bool :=
  match a, b with LBlocks, LBlocks | LHandles, LHandles => true | LAffs x, LAffs y => N.eqb x y | _, _ => false end.

(* error classes the driver can tell apart *)
Definition err_class (e : err) : N :=
  match e with
  | ENone => 0 | ENotFound => 1 | EExists => 2 | EConflict => 3 | EBlockLimit => 4
  | EOutOfModel => 99
  | _ => 5
  end.
Definition result_eqb (a b : result) : bool :=
  match a, b with
  | ResIPs x e, ResIPs y f => list_eqb N.eqb x y && N.eqb (err_class e) (err_class f)
  | ResErr e, ResErr f => N.eqb (err_class e) (err_class f)
  | ResClaim a b e, ResClaim a' b' f => Bool.eqb a a' && Bool.eqb b b' && N.eqb (err_class e) (err_class f)
  | _, _ => false
  end.

(* ------------------------------------------------------------------ model side of the comparison *)
Definition req_matches (rq : Cas.req key value lopt) (o : obs) : bool :=
  match rq, o_kind o, o_key o, o_list o, o_val o with
  | RGet k, OGet, Some k', _, _ => key_eqb k k'
  | RList l, OList, _, Some l', _ => lopt_eqb l l'
  | RCreate k v, OCreate, Some k', _, Some v' => key_eqb k k' && value_eqb v v'
  | RUpdate k v _, OUpdate, Some k', _, Some v' => key_eqb k k' && value_eqb v v'
  | RDelete k _, ODelete, Some k', _, _ => key_eqb k k'
  | _, _, _, _, _ => false
  end.

Definition res_class (rs : Cas.resp key value) : ores :=
  match rs with
  | ROk _ | RListed _ => XOk
  | RNotFound => XNotFound
  | RExists => XExists
  | RConflict => XConflict
  end.

Definition client_step := @Cas.client_step key value lopt key_eqb key_ltb lmatch result.

Definition set_client (cls : list client) (i : nat) (c : client) : list client := set_nth_opt cls i c.

Definition model_step (cf : config) (fx fy : bool) (s : store) (cls : list client) (o : obs) : option (store * list client) :=
  match nth_error cls (o_client o) with
  | Some cl =>
    if cl_crashed cl then None else
    match cl_cur cl with
    | Some (Act rq k as p) =>
      if negb (req_matches rq o) then None else
      let '(s', cst, ob) := client_step s p (o_fault o) in
      let res_ok := match ob with
                    | None => ores_eqb (o_res o) XNone
                    | Some (_, rs) => ores_eqb (o_res o) (res_class rs)
                    end in
      if negb res_ok then None else
      match cst with
      | CCrashed =>
          match o_done o with
          | [] => Some (s', set_client cls (o_client o)
                         {| cl_host := cl_host cl; cl_cur := None; cl_todo := cl_todo cl; cl_crashed := true |})
          | _ => None
          end
      | CRun p' =>
          let '(cur, todo, done) := settle_w cf fx fy (S (length (cl_todo cl))) (cl_host cl) p' (cl_todo cl) [] in
          if list_eqb result_eqb done (o_done o)
          then Some (s', set_client cls (o_client o)
                      {| cl_host := cl_host cl; cl_cur := cur; cl_todo := todo; cl_crashed := false |})
          else None
      end
    | _ => None
    end
  | None => None
  end.

Fixpoint model_run (cf : config) (fx fy : bool) (s : store) (cls : list client) (os : list obs) : option (store * list client) :=
  match os with
  | [] => Some (s, cls)
  | o :: t => match model_step cf fx fy s cls o with
              | Some (s', cls') => model_run cf fx fy s' cls' t
              | None => None
              end
  end.

Definition store_dump (s : store) : list (key * value) := map (fun e => (e_key e, e_val e)) (st_ents s).

Definition model_agrees (c : case) : bool :=
  let cf := c_cfg c in
  match model_run cf (c_fx c) (c_fy c) init_store (map (fun hc => start_client_w cf (c_fx c) (c_fy c) (fst hc) (snd hc)) (c_clients c)) (c_obs c) with
  | Some (s, _) => list_eqb (fun a b => key_eqb (fst a) (fst b) && value_eqb (snd a) (snd b)) (store_dump s) (c_final c)
  | None => false
  end.

(* ------------------------------------------------------------------ the oracle *)
Fixpoint nodupb (l : list nat) : bool :=
  match l with [] => true | a :: t => negb (existsb (Nat.eqb a) t) && nodupb t end.

(* (a) *)
Definition wf_block_b (size : nat) (b : block) : bool :=
  Nat.eqb (length (bk_allocs b)) size
  && nodupb (bk_unalloc b)
  && forallb (fun o => Bool.eqb (match nth o (bk_allocs b) None with None => true | Some _ => false end)
                                (existsb (Nat.eqb o) (bk_unalloc b))) (seq 0 size)
  && forallb (fun o => Nat.ltb o size) (bk_unalloc b)
  && forallb (fun a => match a with Some i => Nat.ltb i (length (bk_attrs b)) | None => true end) (bk_allocs b).

Definition attr_opt_eqb (a b : option attr) : bool :=
  match a, b with Some x, Some y => attr_eqb x y | None, None => true | _, _ => false end.

Definition op_may_free (o : op) (addr : N) (owner : attr) : bool :=
  match o with
  | OpRelease opts _ =>
      existsb (fun p => N.eqb (fst p) addr &&
                        match snd p with None => true | Some h => optN_eqb (at_handle owner) (Some h) end) opts
  | OpReleaseByHandle h _ => optN_eqb (at_handle owner) (Some h)
  | _ => false
  end.
Definition op_may_take (o : op) (addr : N) (owner : attr) : bool :=
  match o with
  | OpAutoAssign h tag _ => attr_eqb owner {| at_handle := Some h; at_tag := tag |}
  | OpAssignIP h tag a => attr_eqb owner {| at_handle := Some h; at_tag := tag |} && N.eqb a addr
  | OpAutoAssignM h tag _ _ _ => attr_eqb owner {| at_handle := Some h; at_tag := tag |}
  | OpAssignIPM h tag a _ _ => attr_eqb owner {| at_handle := Some h; at_tag := tag |} && N.eqb a addr
  | _ => false
  end.

(* (b) for one successful block update old -> new performed while running operation o *)
Definition frame_ok (size : nat) (o : option op) (old new : block) : bool :=
  N.eqb (bk_cidr old) (bk_cidr new) &&
  forallb (fun i =>
    let addr := bk_cidr old + N.of_nat i in
    match owner_of old i, owner_of new i with
    | Some x, Some y => attr_eqb x y
    | Some x, None => match o with Some o => op_may_free o addr x | None => false end
    | None, Some y => match o with Some o => op_may_take o addr y | None => false end
    | None, None => true
    end) (seq 0 size).

Fixpoint dlookup (d : list (key * value)) (k : key) : option value :=
  match d with [] => None | (k', v) :: t => if key_eqb k' k then Some v else dlookup t k end.
Definition dremove (d : list (key * value)) (k : key) : list (key * value) :=
  filter (fun p => negb (key_eqb (fst p) k)) d.
Definition dset (d : list (key * value)) (k : key) (v : value) : list (key * value) := (k, v) :: dremove d k.

Definition count_in_block (b : block) (h : N) : N :=
  N.of_nat (length (filter (fun o => match owner_of b o with
                                     | Some x => optN_eqb (at_handle x) (Some h)
                                     | None => false end) (seq 0 (length (bk_allocs b))))).
Fixpoint hcount (m : list (N * N)) (c : N) : N :=
  match m with [] => 0 | (k, v) :: t => if N.eqb k c then v else hcount t c end.
Definition handle_count (d : list (key * value)) (h c : N) : N :=
  match dlookup d (KHandle h) with Some (VHandle m) => hcount m c | _ => 0 end.

(* (d) on one datastore state *)
Definition handles_agree (d : list (key * value)) : bool :=
  forallb (fun p =>
    match p with
    | (KBlock c, VBlock b) =>
        forallb (fun x => match at_handle x with
                          | Some h => N.eqb (count_in_block b h) (handle_count d h c)
                          | None => true end) (bk_attrs b)
    | (KHandle h, VHandle m) =>
        negb (match m with [] => true | _ => false end) &&
        forallb (fun cn => negb (N.eqb (snd cn) 0) &&
                           match dlookup d (KBlock (fst cn)) with
                           | Some (VBlock b) => N.eqb (count_in_block b h) (snd cn)
                           | _ => false end) m
    | _ => true
    end) d.

Record ostate := {
  os_store : list (key * value);
  os_opidx : list nat;            (* per client: index of the operation in progress *)
  os_inflight : list bool;        (* per client: has taken a step of its current operation *)
  os_crashed : bool;
  os_taken : list (list N);       (* per client: addresses its writes allocated during the current operation *)
  os_freed : list (list N);       (* per client: addresses that ANY write freed while its current operation was running
                                     (a release by somebody else ends this operation's claim on the address) *)
  os_seen : list (list N)         (* per client (MaxAlloc operations): addresses it has read as recorded for its handle in a
                                     written block during the current operation *)
}.

Definition cur_op (c : case) (st : ostate) (i : nat) : option op :=
  match nth_error (c_clients c) i with
  | Some (_, ops) => nth_error ops (nth i (os_opidx st) O)
  | None => None
  end.

Definition newly_freed (size : nat) (old : block) (new : option block) : list N :=
  map (fun i => bk_cidr old + N.of_nat i)
      (filter (fun i => match owner_of old i, (match new with Some b => owner_of b i | None => None end) with
                        | Some _, None => true | _, _ => false end) (seq 0 size)).

Definition newly_taken (size : nat) (old : option block) (new : block) : list N :=
  map (fun i => bk_cidr new + N.of_nat i)
      (filter (fun i => match (match old with Some b => owner_of b i | None => None end), owner_of new i with
                        | None, Some _ => true | _, _ => false end) (seq 0 size)).

Definition owner_at (cf : config) (d : list (key * value)) (a : N) : option attr :=
  match dlookup d (KBlock (block_of cf a)) with
  | Some (VBlock b) => owner_of b (ordinal_of b a)
  | _ => None
  end.

(* (c) for one completed operation *)
Definition returned_ok (cf : config) (st : ostate) (i : nat) (o : op) (r : result) : bool :=
  let taken := nth i (os_taken st) [] in
  let freed := nth i (os_freed st) [] in
  let chk (h : N) (a : N) :=
    existsb (N.eqb a) taken &&
    (existsb (N.eqb a) freed    (* released by somebody (frame clause: a release naming it) while this operation ran:
                                   whatever happened to the address afterwards is not this operation's doing *)
     || match owner_at cf (os_store st) a with
        | Some x => optN_eqb (at_handle x) (Some h)
        | None => true
        end) in
  let seen := nth i (os_seen st) [] in
  (* MaxAlloc: an address may also be one the handle already had, as read from a written block by this operation *)
  let chkm (h : N) (a : N) := chk h a || existsb (N.eqb a) seen in
  match o, r with
  | OpAutoAssign h _ _, ResIPs ips _ => forallb (chk h) ips
  | OpAssignIP h _ a, ResErr ENone => chk h a
  | OpAutoAssignM h _ _ _ _, ResIPs ips _ => forallb (chkm h) ips
  | OpAssignIPM h _ a _ _, ResErr ENone => chkm h a
  | _, _ => true
  end.

Definition op_m_handle (o : option op) : option N :=
  match o with
  | Some (OpAutoAssignM h _ _ _ _) | Some (OpAssignIPM h _ _ _ _) => Some h
  | _ => None
  end.
Definition owned_addrs (b : block) (h : N) : list N :=
  map (fun o => bk_cidr b + N.of_nat o)
      (filter (fun o => match owner_of b o with
                        | Some x => optN_eqb (at_handle x) (Some h)
                        | None => false end) (seq 0 (length (bk_allocs b)))).

Definition is_write (k : okind) : bool := match k with OCreate | OUpdate | ODelete => true | _ => false end.

Definition oracle_step (c : case) (st : ostate) (o : obs) : option ostate :=
  let cf := c_cfg c in
  let i := o_client o in
  let size := cf_bsize cf in
  let opn := cur_op c st i in
  let executed := is_write (o_kind o) && ores_eqb (o_res o) XOk in
  (* 1. the write itself *)
  let w : option (list (key * value) * list N * list N) :=
    if negb executed then Some (os_store st, [], []) else
    match o_key o with
    | None => None
    | Some k =>
      let old := dlookup (os_store st) k in
      match o_kind o, o_val o with
      | ODelete, _ =>
          match old with
          | Some (VBlock b) =>
              (* deleting a block frees whatever it still records: allowed only for addresses that the running
                 operation is releasing *)
              if forallb (fun i => match owner_of b i with
                                   | Some x => match opn with
                                               | Some o_ => op_may_free o_ (bk_cidr b + N.of_nat i) x
                                               | None => false end
                                   | None => true end) (seq 0 size)
              then Some (dremove (os_store st) k, [], newly_freed size b None) else None
          | Some _ => Some (dremove (os_store st) k, [], [])
          | None => None
          end
      | _, Some (VBlock nb) =>
          let oldb := match old with Some (VBlock b) => Some b | _ => None end in
          let okk := match k with KBlock c' => N.eqb c' (bk_cidr nb) | _ => false end in
          let fr := match oldb with
                    | Some b => frame_ok size opn b nb
                    | None => blk_empty nb
                    end in
          if okk && wf_block_b size nb && fr
          then Some (dset (os_store st) k (VBlock nb), newly_taken size oldb nb,
                     match oldb with Some b => newly_freed size b (Some nb) | None => [] end) else None
      | _, Some v => Some (dset (os_store st) k v, [], [])
      | _, None => None
      end
    end in
  match w with
  | None => None
  | Some (d, taken, freed) =>
    let st1 := {| os_store := d; os_opidx := os_opidx st;
                  os_inflight := set_nth_opt (os_inflight st) i true;
                  os_crashed := os_crashed st || match o_fault o with FCrashBefore | FCrashAfter => true | _ => false end;
                  os_taken := set_nth_opt (os_taken st) i (nth i (os_taken st) [] ++ taken);
                  os_freed := map (fun l => l ++ freed) (os_freed st);
                  os_seen :=
                    match o_kind o, o_key o, op_m_handle opn with
                    | OGet, Some (KBlock c'), Some h =>
                        match dlookup (os_store st) (KBlock c') with
                        | Some (VBlock b) => set_nth_opt (os_seen st) i (nth i (os_seen st) [] ++ owned_addrs b h)
                        | _ => os_seen st
                        end
                    | _, _, _ => os_seen st
                    end |} in
    (* 2. completed operations (one per step: every operation starts with an access) *)
    let st2 :=
      match o_done o with
      | [] => Some st1
      | r :: _ =>
          match opn with
          | Some op_ =>
              if returned_ok cf st1 i op_ r
              then Some {| os_store := d;
                           os_opidx := set_nth_opt (os_opidx st1) i (nth i (os_opidx st1) O + length (o_done o))%nat;
                           os_inflight := set_nth_opt (os_inflight st1) i false;
                           os_crashed := os_crashed st1;
                           os_taken := set_nth_opt (os_taken st1) i [];
                           os_freed := set_nth_opt (os_freed st1) i [];
                           os_seen := set_nth_opt (os_seen st1) i [] |}
              else None
          | None => None
          end
      end in
    (* 3. quiescent states *)
    match st2 with
    | None => None
    | Some s2 =>
        if negb (os_crashed s2) && negb (existsb (fun b => b) (os_inflight s2))
        then (if handles_agree (os_store s2) then Some s2 else None)
        else Some s2
    end
  end.

Fixpoint oracle_run (c : case) (st : ostate) (os : list obs) : bool :=
  match os with
  | [] => true
  | o :: t => match oracle_step c st o with Some st' => oracle_run c st' t | None => false end
  end.

Definition ok_trace (c : case) : bool :=
  let n := length (c_clients c) in
  oracle_run c {| os_store := []; os_opidx := repeat O n; os_inflight := repeat false n;
                  os_crashed := false; os_taken := repeat [] n; os_freed := repeat [] n; os_seen := repeat [] n |} (c_obs c).

Definition check_case (c : case) : bool * bool := (model_agrees c, ok_trace c).

(* debugging aid: index of the first observation the model cannot follow, with the request the model wanted *)
Fixpoint model_first_bad (cf : config) (fx fy : bool) (s : store) (cls : list client) (os : list obs) (i : nat)
  : option (nat * option (Cas.req key value lopt)) :=
  match os with
  | [] => None
  | o :: t => match model_step cf fx fy s cls o with
              | Some (s', cls') => model_first_bad cf fx fy s' cls' t (S i)
              | None => Some (i, match nth_error cls (o_client o) with
                                 | Some cl => match cl_cur cl with Some (Act rq _) => Some rq | _ => None end
                                 | None => None end)
              end
  end.
Definition first_bad (c : case) :=
  let cf := c_cfg c in
  model_first_bad cf (c_fx c) (c_fy c) init_store (map (fun hc => start_client_w cf (c_fx c) (c_fy c) (fst hc) (snd hc)) (c_clients c)) (c_obs c) 0.
Definition final_model (c : case) :=
  let cf := c_cfg c in
  match model_run cf (c_fx c) (c_fy c) init_store (map (fun hc => start_client_w cf (c_fx c) (c_fy c) (fst hc) (snd hc)) (c_clients c)) (c_obs c) with
  | Some (s, _) => store_dump s | None => [] end.
