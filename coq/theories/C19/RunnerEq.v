(* C19 — the two runners are the same semantics.
   The theorems of Props.v are about  Cas.sys_run  on clients whose program is  run_ops  (the operations chained
   with Cas.bind); the correspondence (Spec.model_run) steps clients kept as records {current program; remaining
   operations} and loads the next operation with settle_w.  mstep is Spec.model_step without the comparisons
   against the observed trace; model_step_mstep shows model_step is mstep whenever it succeeds; runners_agree shows
   that for EVERY event list mstep and Cas.sys_step produce the same datastore and matching client states. *)
From Coq Require Import List NArith Bool Arith Lia.
From Verif.Common Require Import Cas.
From Verif.C19 Require Import Model ModelV BlockLemmas Spec Proofs.
Import ListNotations.

Local Transparent Cas.bind.

Section RunnerEq.
  Variable cf : config.
  Variables fx fy : bool.
  Let RT := list (op * result).
  Notation run_ops_acc := (Proofs.run_ops_acc cf fx fy).
  Notation sys_step := (@Cas.sys_step key value lopt key_eqb key_ltb lmatch RT).
  Notation sys_run := (@Cas.sys_run key value lopt key_eqb key_ltb lmatch RT).
  Notation sys0 := (Proofs.sys0 cf fx fy).

  Definition mstep (st : store * list client) (ev : nat * fault) : store * list client :=
    let '(s, cls) := st in
    match nth_error cls (fst ev) with
    | Some cl =>
      if cl_crashed cl then st else
      match cl_cur cl with
      | Some (Act rq k as p) =>
        let '(s', cst, _) := client_step s p (snd ev) in
        match cst with
        | CCrashed => (s', set_client cls (fst ev)
                             {| cl_host := cl_host cl; cl_cur := None; cl_todo := cl_todo cl; cl_crashed := true |})
        | CRun p' =>
            let '(cur, todo, _) := settle_w cf fx fy (S (length (cl_todo cl))) (cl_host cl) p' (cl_todo cl) [] in
            (s', set_client cls (fst ev)
                   {| cl_host := cl_host cl; cl_cur := cur; cl_todo := todo; cl_crashed := false |})
        end
      | _ => st
      end
    | None => st
    end.

  Definition mrun (clients : list (N * list op)) (evs : list (nat * fault)) : store * list client :=
    fold_left mstep evs (init_store, map (fun hc => start_client_w cf fx fy (fst hc) (snd hc)) clients).

  (* the checked step of the correspondence is mstep whenever it accepts the observation *)
  Lemma model_step_mstep s cls o s' cls' :
    model_step cf fx fy s cls o = Some (s', cls') -> mstep (s, cls) (o_client o, o_fault o) = (s', cls').
  Proof.
    unfold model_step, mstep. cbn [fst snd].
    destruct (nth_error cls (o_client o)) as [cl|]; [|discriminate].
    destruct (cl_crashed cl); [discriminate|].
    destruct (cl_cur cl) as [[r|rq k]|]; try discriminate.
    destruct (negb (req_matches rq o)); [discriminate|].
    destruct (client_step s (Act rq k) (o_fault o)) as [[s1 cst] ob].
    match goal with |- (if negb ?c then _ else _) = _ -> _ => destruct c end; cbn [negb]; cbv iota; [|intros X; discriminate].
    destruct cst as [p'|].
    - destruct (settle_w cf fx fy (S (length (cl_todo cl))) (cl_host cl) p' (cl_todo cl) []) as [[cur todo] done]. cbv beta iota zeta.
      destruct (list_eqb result_eqb done (o_done o)); intros X; simpl in X; [|discriminate]. inversion X; reflexivity.
    - destruct (o_done o); intros X; simpl in X; [|discriminate]. inversion X; reflexivity.
  Qed.

  Lemma model_run_mrun os : forall s cls s' cls',
    model_run cf fx fy s cls os = Some (s', cls') ->
    fold_left mstep (map (fun o => (o_client o, o_fault o)) os) (s, cls) = (s', cls').
  Proof.
    induction os as [|o t IH]; intros s cls s' cls'.
    - simpl. intros X; inversion X; reflexivity.
    - intros X. cbn [model_run] in X.
      destruct (model_step cf fx fy s cls o) as [[s1 cls1]|] eqn:MS; [|discriminate].
      cbn [map fold_left]. rewrite (model_step_mstep _ _ _ _ _ MS). apply IH; exact X.
  Qed.

  (* ---------------------------------------------------------------- record clients vs. chained programs *)
  Definition REL (cl : client) (c : Cas.cstate key value lopt RT) : Prop :=
    if cl_crashed cl then c = CCrashed else
    match cl_cur cl with
    | None => exists l, c = CRun (Ret l)
    | Some p => (exists rq k, p = Act rq k) /\
                exists o acc, c = CRun (Cas.bind p (fun r => run_ops_acc (cl_host cl) (cl_todo cl) ((o, r) :: acc)))
    end.

  (* loading the next operations after an access = what Cas.bind computes *)
  Lemma settle_rel : forall todo fuel host p o acc done, (length todo < fuel)%nat ->
    let '(cur, todo', _) := settle_w cf fx fy fuel host p todo done in
    REL {| cl_host := host; cl_cur := cur; cl_todo := todo'; cl_crashed := false |}
        (CRun (Cas.bind p (fun r => run_ops_acc host todo ((o, r) :: acc)))).
  Proof.
    induction todo as [|o' t IH]; intros fuel host p o acc done LT.
    - destruct p as [r|rq k]; destruct fuel; simpl in *; try lia.
      + unfold REL; simpl. eexists; reflexivity.
      + unfold REL; simpl. split; [eauto|]. exists o, acc. reflexivity.
    - destruct p as [r|rq k].
      + destruct fuel as [|f]; simpl in LT; [lia|]. simpl.
        apply (IH f host (compile_w cf fx fy host o') o' ((o, r) :: acc) (done ++ [r])). lia.
      + destruct fuel; simpl; unfold REL; simpl; (split; [eauto|]); exists o, acc; reflexivity.
  Qed.

  Opaque settle_w.

  Lemma Forall2_nth2 {A B} (P : A -> B -> Prop) l1 l2 i : Forall2 P l1 l2 ->
    match nth_error l1 i, nth_error l2 i with
    | Some a, Some b => P a b
    | None, None => True
    | _, _ => False
    end.
  Proof. intros F; revert i; induction F as [|a b l1 l2 PA F IH]; intros [|i]; simpl; auto. apply IH. Qed.
  Lemma Forall2_set2 {A B} (P : A -> B -> Prop) l1 l2 i a b : Forall2 P l1 l2 -> P a b ->
    Forall2 P (set_nth_opt l1 i a) (Cas.set_nth l2 i b).
  Proof. intros F; revert i; induction F; intros [|i] PA; simpl; constructor; auto. Qed.

  Definition SIM (st : store * list client) (y : Cas.sys key value lopt RT) : Prop :=
    fst st = sy_store y /\ Forall2 REL (snd st) (sy_clients y).

  Lemma sim_step st y i f : SIM st y -> SIM (mstep st (i, f)) (sys_step y {| ev_client := i; ev_fault := f |}).
  Proof.
    destruct st as [s cls]. intros [ES F]. simpl in ES, F. subst s.
    unfold mstep, Cas.sys_step. simpl.
    destruct (nth_error cls i) as [cl|] eqn:NC; destruct (nth_error (sy_clients y) i) as [c|] eqn:NY;
      pose proof (Forall2_nth2 _ _ _ i F) as N; rewrite NC, NY in N; try contradiction.
    2:{ split; auto. }
    unfold REL in N. destruct (cl_crashed cl) eqn:CR.
    - subst c. split; auto.
    - destruct (cl_cur cl) as [p|] eqn:CU.
      + destruct N as ((rq & k & ->) & o & acc & ->).
        change (Cas.bind (Act rq k) (fun r => run_ops_acc (cl_host cl) (cl_todo cl) ((o, r) :: acc)))
          with (Act rq (fun rs => Cas.bind (k rs) (fun r => run_ops_acc (cl_host cl) (cl_todo cl) ((o, r) :: acc)))).
        unfold client_step. simpl.
        assert (RUNK : forall rs,
                  let '(cur, todo, _) := settle_w cf fx fy (S (length (cl_todo cl))) (cl_host cl) (k rs) (cl_todo cl) [] in
                  REL {| cl_host := cl_host cl; cl_cur := cur; cl_todo := todo; cl_crashed := false |}
                      (CRun (Cas.bind (k rs) (fun r => run_ops_acc (cl_host cl) (cl_todo cl) ((o, r) :: acc))))).
        { intros rs. apply settle_rel. lia. }
        destruct f; simpl.
        * destruct (Cas.exec key_eqb key_ltb lmatch (sy_store y) rq) as [s' rs] eqn:X. simpl.
          specialize (RUNK rs). destruct (settle_w _ _ _ _ _ (k rs) _ _) as [[cur todo] done].
          split; simpl; auto. apply Forall2_set2; auto.
        * destruct (Cas.is_cond_write rq); simpl.
          -- specialize (RUNK RConflict). destruct (settle_w _ _ _ _ _ (k RConflict) _ _) as [[cur todo] done].
             split; simpl; auto. apply Forall2_set2; auto.
          -- destruct (Cas.exec key_eqb key_ltb lmatch (sy_store y) rq) as [s' rs] eqn:X. simpl.
             specialize (RUNK rs). destruct (settle_w _ _ _ _ _ (k rs) _ _) as [[cur todo] done].
             split; simpl; auto. apply Forall2_set2; auto.
        * split; simpl; auto. apply Forall2_set2; auto. unfold REL; simpl. reflexivity.
        * destruct (Cas.exec key_eqb key_ltb lmatch (sy_store y) rq) as [s' rs] eqn:X. simpl.
          split; simpl; auto. apply Forall2_set2; auto. unfold REL; simpl. reflexivity.
      + destruct N as (l & ->). simpl. split; simpl; auto.
        replace cls with (set_nth_opt cls i cl).
        * apply Forall2_set2; auto. unfold REL. rewrite CR, CU. eauto.
        * clear - NC. revert i NC. induction cls as [|a t IH]; intros [|i] NC; simpl in *; try discriminate; auto.
          -- inversion NC; auto.
          -- rewrite IH; auto.
  Qed.

  Lemma sim0 clients : SIM (init_store, map (fun hc => start_client_w cf fx fy (fst hc) (snd hc)) clients) (sys0 clients).
  Proof.
    split; [reflexivity|]. simpl. induction clients as [|[host ops] t IH]; simpl; constructor; auto.
    unfold start_client_w, Proofs.run_ops. destruct ops as [|o ops].
    - unfold REL; simpl. eexists; reflexivity.
    - assert (LT : (length ops < length (o :: ops))%nat) by (simpl; lia).
      pose proof (settle_rel ops (length (o :: ops)) host (compile_w cf fx fy host o) o [] [] LT) as SR.
      destruct (settle_w cf fx fy (length (o :: ops)) host (compile_w cf fx fy host o) ops []) as [[cur todo] done].
      exact SR.
  Qed.

  Transparent settle_w.

  (* for every schedule: same datastore, matching clients *)
  Theorem runners_agree clients (evs : list (nat * fault)) :
    SIM (mrun clients evs)
        (sys_run (sys0 clients) (map (fun e => {| ev_client := fst e; ev_fault := snd e |}) evs)).
  Proof.
    unfold mrun, Cas.sys_run. generalize (sim0 clients).
    generalize (init_store, map (fun hc => start_client_w cf fx fy (fst hc) (snd hc)) clients) (sys0 clients).
    induction evs as [|[i f] t IH]; intros st y S; simpl; auto.
    apply IH. apply (sim_step st y i f S).
  Qed.

  (* in particular: whenever the correspondence run of a case accepts the observed trace, the datastore it
     compares with the implementation's is the datastore of the Cas system the theorems talk about *)
  Corollary model_run_is_sys_run clients os s' cls' :
    model_run cf fx fy init_store (map (fun hc => start_client_w cf fx fy (fst hc) (snd hc)) clients) os = Some (s', cls') ->
    SIM (s', cls') (sys_run (sys0 clients) (map (fun o => {| ev_client := o_client o; ev_fault := o_fault o |}) os)).
  Proof.
    intros MR. apply model_run_mrun in MR.
    pose proof (runners_agree clients (map (fun o => (o_client o, o_fault o)) os)) as RA.
    unfold mrun in RA. rewrite MR in RA. rewrite map_map in RA. exact RA.
  Qed.
End RunnerEq.
