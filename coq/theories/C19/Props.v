(* C19 — property theorems only.  Each is closed by `exact <lemma>` and followed by Print Assumptions.
   The system: any number of clients (host, list of operations), each running the model programs of Model.v
   against the CAS store of Common/Cas.v, for BOTH variants fx of claimAffineBlock (ModelV.v); a schedule is ANY list of events (client index, fault) where fault is
   nothing / an injected conflict on a conditional write / a crash before or after the access. *)
From Coq Require Import List NArith Bool Arith.
From Verif.Common Require Import Cas.
From Verif.C19 Require Import Model ModelV Spec BlockLemmas Count Debt Proofs Handles Quiescent Ledger RunnerEq.
Import ListNotations.

Notation sys_run := (@Cas.sys_run key value lopt key_eqb key_ltb lmatch (list (op * result))).
Notation sys_step := (@Cas.sys_step key value lopt key_eqb key_ltb lmatch (list (op * result))).

(* No address has two owners.  In every reachable datastore, for all interleavings, conflicts and crashes: a block
   is stored under its own CIDR (so an address belongs to one block), every ordinal has at most one owner, and the
   FIFO of free ordinals has no duplicates and contains only ordinals WITHOUT owner, so an owned address cannot be
   handed out again. *)
Theorem c19_single_owner : forall cf fx fy clients evs e c b,
  In e (st_ents (sy_store (sys_run (sys0 cf fx fy clients) evs))) -> e_key e = KBlock c -> e_val e = VBlock b ->
  bk_cidr b = c /\ NoDup (bk_unalloc b) /\
  (forall o, In o (bk_unalloc b) -> owner_of b o = None) /\
  (forall o x y, owner_of b o = Some x -> owner_of b o = Some y -> x = y).
Proof. exact reachable_blocks_single_owner. Qed.
Print Assumptions c19_single_owner.

(* ... and over time: every step of every execution is at most one create / update / delete, where an update
   transforms the CURRENT value of its key (Cas.effect), and for a block the new value keeps every owned address
   with the same owner or frees it: ownership never passes from one live owner to another. *)
Theorem c19_step_is_one_cas_transformation : forall cf fx fy clients evs ev,
  Cas.effect key_eqb key_ltb create_ok update_ok delete_ok
    (sy_store (sys_run (sys0 cf fx fy clients) evs)) (sy_store (sys_step (sys_run (sys0 cf fx fy clients) evs) ev)).
Proof. exact reachable_step_effect. Qed.
Print Assumptions c19_step_is_one_cas_transformation.

Theorem c19_no_steal : forall c b0 v, update_ok (KBlock c) (VBlock b0) v -> I_b b0 ->
  exists b1, v = VBlock b1 /\ bk_cidr b1 = bk_cidr b0 /\ I_b b1 /\
             forall o x, owner_of b0 o = Some x -> owner_of b1 o = Some x \/ owner_of b1 o = None.
Proof. exact block_update_no_steal. Qed.
Print Assumptions c19_no_steal.

(* Every address returned by a completed assign is recorded for that handle in a version of its block that was
   really written (H' is a history of the successful writes, consistent with the final datastore).  op_post covers
   AutoAssign / AssignIP with MaxAllocToHandlePerIPVersion too (OpAutoAssignM, OpAssignIPM: Presm, Paipm): the
   addresses reused through handleMaxAllocReached and AssignIP's "already assigned to this handle" shortcut are
   returned only if a written block version records them for the handle (recorded_h). *)
Theorem c19_returned_is_recorded : forall cf fx fy clients evs i l,
  nth_error (sy_clients (sys_run (sys0 cf fx fy clients) evs)) i = Some (CRun (Ret l)) ->
  exists H', Cas.store_hist (sy_store (sys_run (sys0 cf fx fy clients) evs)) H' /\ Cas.hist_ok VI H' /\
    Forall (fun p => op_post cf (fst p) H' (snd p)) l.
Proof. exact completed_results_recorded. Qed.
Print Assumptions c19_returned_is_recorded.

(* The counting protocol in isolation (Handles.v): increment handle by n -> CAS block adding exactly n -> else roll
   back n; CAS block releasing m -> decrement m; any number of clients, all interleavings, crashes.  (Kept as the
   readable abstract statement; the same facts are proved for the PROGRAMS below: c19_handle_agrees_quiescent and
   c19_handle_never_undercounts.) *)
Theorem c19_counting_protocol_agrees_quiescent : forall n s, preach n s ->
  Forall (fun p => p = PIdle) (p_clients s) -> forall h c, p_hcnt s h c = p_alloc s h c.
Proof. exact handle_agrees_quiescent. Qed.
Print Assumptions c19_counting_protocol_agrees_quiescent.

Theorem c19_counting_protocol_ledger : forall n s, preach n s ->
  forall h c, p_hcnt s h c = (p_alloc s h c + total_debt (p_clients s) h c)%nat.
Proof. exact handle_ledger. Qed.
Print Assumptions c19_counting_protocol_ledger.

(* same protocol, unconditional (crashes and abandoned roll-backs included): a handle never UNDER-counts, so
   every owned address stays reachable from its handle *)
Theorem c19_counting_protocol_never_undercounts : forall n s, preach n s ->
  forall h c, (p_alloc s h c <= p_hcnt s h c)%nat.
Proof. exact handle_never_undercounts. Qed.
Print Assumptions c19_counting_protocol_never_undercounts.

(* The faithful model of the UNFIXED code violates handle agreement at a quiescent state (concrete runs,
   replayed against the real code by the driver: see the report). *)
Theorem c19_handle_agrees_refuted_requested_count :
  exists clients evs, disagrees (cfgW true false false) clients evs = true.
Proof. exact (ex_intro _ w1_clients (ex_intro _ w1_sched w1_refutes)). Qed.
Print Assumptions c19_handle_agrees_refuted_requested_count.

Theorem c19_handle_agrees_refuted_assignip_conflict :
  exists clients evs, disagrees (cfgW false true false) clients evs = true.
Proof. exact (ex_intro _ w2_clients (ex_intro _ w2_sched w2_refutes)). Qed.
Print Assumptions c19_handle_agrees_refuted_assignip_conflict.

Theorem c19_handle_agrees_refuted_stale_handle_copy :
  exists clients evs, disagrees (cfgW false false true) clients evs = true.
Proof. exact (ex_intro _ w3_clients (ex_intro _ w3_sched w3_refutes)). Qed.
Print Assumptions c19_handle_agrees_refuted_stale_handle_copy.

(* Each address belongs to at most one block: two entries of a reachable datastore holding blocks with the same
   CIDR are the same entry (keys are unique and a block is stored under its own CIDR). *)
Theorem c19_one_block_per_address : forall cf fx fy clients evs e1 e2 c b1 b2,
  let s := sy_store (sys_run (sys0 cf fx fy clients) evs) in
  In e1 (st_ents s) -> In e2 (st_ents s) ->
  e_key e1 = KBlock c -> e_val e1 = VBlock b1 -> e_key e2 = KBlock (bk_cidr b2) -> e_val e2 = VBlock b2 ->
  bk_cidr b1 = bk_cidr b2 -> e1 = e2.
Proof. exact reachable_one_block_per_cidr. Qed.
Print Assumptions c19_one_block_per_address.

(* ------------------------------------------------------------------------------------------------------------
   T3 for the PROGRAMS (Debt.v, Ledger.v).  The fixed code: cf_count_requested = cf_aip_leak = cf_stale_cache =
   false and releaseByHandle returns on a not-found delete (fy = true); fx arbitrary.  hcnt_of s h c is
   handle h's count for block c in datastore s, alloc_of s h c the number of ordinals of block c owned by h.
   All operations of the model are covered, AutoAssign / AssignIP with MaxAllocToHandlePerIPVersion included.
   wf_op: the addresses of a ReleaseIPs lie at or above the block's first address (the model's domain).
   within_budget: no client is handed more than B conflict answers (injected or real) during the run and
   B + 2 <= cf_retries, so that no roll-back is abandoned after cf_retries attempts (the Go code gives up there).
   "No operation in flight, nobody crashed" = every client has completed its list of operations (any prefix of a
   longer list is such a list). *)
Theorem c19_handle_agrees_quiescent : forall cf fx,
  cf_count_requested cf = false -> cf_aip_leak cf = false -> cf_stale_cache cf = false -> cf_bsize cf <> O ->
  forall clients evs B,
  Forall (fun hc => Forall (wf_op cf) (snd hc)) clients -> within_budget cf fx clients evs B ->
  Forall (fun c => exists l, c = CRun (Ret l)) (sy_clients (sys_run (sys0 cf fx true clients) evs)) ->
  forall h c, hcnt_of (sy_store (sys_run (sys0 cf fx true clients) evs)) h c =
              alloc_of (sy_store (sys_run (sys0 cf fx true clients) evs)) h c.
Proof. exact agrees_when_all_completed. Qed.
Print Assumptions c19_handle_agrees_quiescent.

(* ... and in EVERY reachable state, with no bound on the number of conflicts (operations in flight, clients crashed,
   roll-backs abandoned after cf_retries attempts): a handle never counts fewer addresses of a block than the block
   records for it, so every recorded address stays reachable from its handle. *)
Theorem c19_handle_never_undercounts : forall cf fx,
  cf_count_requested cf = false -> cf_aip_leak cf = false -> cf_stale_cache cf = false -> cf_bsize cf <> O ->
  forall clients evs,
  Forall (fun hc => Forall (wf_op cf) (snd hc)) clients ->
  forall h c, (alloc_of (sy_store (sys_run (sys0 cf fx true clients) evs)) h c <=
               hcnt_of (sy_store (sys_run (sys0 cf fx true clients) evs)) h c)%N.
Proof. exact never_undercounts_all. Qed.
Print Assumptions c19_handle_never_undercounts.

(* The pinned releaseByHandle (fy = false) violates both: a run in which every client completes, the block records
   the address for handle 1 and the handle no longer exists (replayed on the real code: scripted case 3). *)
Theorem c19_handle_agrees_refuted_releasebyhandle_notfound : w4_outcome false = (true, 0%N, 1%N).
Proof. exact w4_refutes. Qed.
Print Assumptions c19_handle_agrees_refuted_releasebyhandle_notfound.

(* The runner of the correspondence (client records + settle_w, Spec.model_run) and the system the theorems are
   about (Cas.sys_run over run_ops) are the same semantics: for every event list they yield the same datastore and
   matching client states; hence whenever model_run accepts an observed trace, the datastore it compares with the
   implementation's final datastore is the one of the Cas system after those events. *)
Theorem c19_runners_agree : forall cf fx fy clients (evs : list (nat * fault)),
  SIM cf fx fy (mrun cf fx fy clients evs)
      (sys_run (sys0 cf fx fy clients) (map (fun e => {| ev_client := fst e; ev_fault := snd e |}) evs)).
Proof. exact runners_agree. Qed.
Print Assumptions c19_runners_agree.

Theorem c19_model_run_is_sys_run : forall cf fx fy clients os s' cls',
  model_run cf fx fy init_store (map (fun hc => start_client_w cf fx fy (fst hc) (snd hc)) clients) os = Some (s', cls') ->
  SIM cf fx fy (s', cls')
      (sys_run (sys0 cf fx fy clients) (map (fun o => {| ev_client := o_client o; ev_fault := o_fault o |}) os)).
Proof. exact model_run_is_sys_run. Qed.
Print Assumptions c19_model_run_is_sys_run.

(* ------------------------------------------------------------------------------------------------------------
   Model meets spec — PARTIAL.  The oracle Spec.ok_trace has four clauses; for EVERY run of the model (any
   clients, any schedule, conflicts, crashes, both variants fx; fy = true and the fixed flags for (d)) the
   corresponding statements are proved at the Prop level:
     (a) written blocks are well formed           <- c19_single_owner (FIFO duplicate-free, only un-owned ordinals,
                                                     valid attribute indexes), block stored under its CIDR
     (b) no write changes the owner of an address <- c19_step_is_one_cas_transformation + c19_no_steal
     (c) returned addresses are recorded          <- c19_returned_is_recorded (MaxAlloc shortcuts included)
     (d) handles agree when nobody is in flight   <- c19_handle_agrees_quiescent (+ c19_handle_never_undercounts)
   and the runner used by the correspondence is the system of these theorems (c19_model_run_is_sys_run).
   Missing for the boolean statement "ok_trace accepts every model trace":
     1. the converse half of wf_block_b: every ordinal without owner IS in the FIFO, and |Allocations| = block
        size for all versions (needs an invariant I_b' = I_b + those two, preserved by blk_auto_assign, blk_assign,
        free_ordinals, compact; I_b itself is imported by C20/C22 and was left unchanged);
     2. frame_ok's per-operation attribution (a freed address is named by the running release; a taken one
        carries the running assign's handle and attributes): a post-condition per program on the written value;
     3. boolean reflection of (a)-(c) along the observation list (os_taken / os_seen bookkeeping).
   Clause (d) IS proved as the boolean the oracle evaluates: c19_model_meets_spec_handles below.
   The conjunction below is what IS proved, packaged for one run. *)
Theorem c19_model_meets_spec_partial : forall cf fx clients evs,
  cf_count_requested cf = false -> cf_aip_leak cf = false -> cf_stale_cache cf = false -> cf_bsize cf <> O ->
  Forall (fun hc => Forall (wf_op cf) (snd hc)) clients ->
  let y := sys_run (sys0 cf fx true clients) evs in
  (* (a) *)
  (forall e c b, In e (st_ents (sy_store y)) -> e_key e = KBlock c -> e_val e = VBlock b ->
     bk_cidr b = c /\ NoDup (bk_unalloc b) /\ (forall o, In o (bk_unalloc b) -> owner_of b o = None)) /\
  (* (b) *)
  (forall ev, Cas.effect key_eqb key_ltb create_ok update_ok delete_ok (sy_store y) (sy_store (sys_step y ev))) /\
  (* (c) *)
  (forall i l, nth_error (sy_clients y) i = Some (CRun (Ret l)) ->
     exists H', Cas.store_hist (sy_store y) H' /\ Cas.hist_ok VI H' /\ Forall (fun p => op_post cf (fst p) H' (snd p)) l) /\
  (* (d) *)
  (forall h c, (alloc_of (sy_store y) h c <= hcnt_of (sy_store y) h c)%N) /\
  (forall B, within_budget cf fx clients evs B ->
     Forall (fun c => exists l, c = CRun (Ret l)) (sy_clients y) ->
     forall h c, hcnt_of (sy_store y) h c = alloc_of (sy_store y) h c).
Proof. exact model_meets_spec_partial. Qed.
Print Assumptions c19_model_meets_spec_partial.

(* Clause (d) of the oracle, exactly as evaluated by Spec.ok_trace: whenever every client has completed (within the
   retry budget), Spec.handles_agree accepts the model's datastore: every handle/block count pair agrees, no stored
   handle is empty or has a zero entry, every block a handle names exists. *)
Theorem c19_model_meets_spec_handles : forall cf fx,
  cf_count_requested cf = false -> cf_aip_leak cf = false -> cf_stale_cache cf = false -> cf_bsize cf <> O ->
  forall clients evs B,
  Forall (fun hc => Forall (wf_op cf) (snd hc)) clients -> within_budget cf fx clients evs B ->
  Forall (fun c => exists l, c = CRun (Ret l)) (sy_clients (sys_run (sys0 cf fx true clients) evs)) ->
  handles_agree (store_dump (sy_store (sys_run (sys0 cf fx true clients) evs))) = true.
Proof. exact oracle_handles_agree. Qed.
Print Assumptions c19_model_meets_spec_handles.
