(* C19 — executable model of Calico IPAM's datastore protocol (libcalico-go/lib/ipam).
   Definitions only (no proofs).  Reused by C20, C21, C22, C38.

   * block / handle / affinity values mirror model.AllocationBlock (Allocations, Unallocated FIFO,
     Attributes, SequenceNumber, per-ordinal sequence numbers), model.IPAMHandle (block -> count) and
     model.BlockAffinity (state).
   * every client operation (AutoAssign, AssignIP, ReleaseIPs on one block, ReleaseByHandle, ClaimAffinity and
     ReleaseAffinity of one block) is a
     Cas.prog: a tree whose nodes are exactly the datastore accesses the Go code performs on IPAM
     keys (blocks, affinities, handles), in the same order, with the same reactions to not-found /
     already-exists / conflict answers, and the same bounded retry loops.
   * Domain (stated, checked by the driver): one IPv4 pool that selects every node, no reservations,
     IPCooldownSeconds = 0 (a released address is reusable at once, so blockFromBackend's garbage
     collection is the identity on stored blocks and release = free + FIFO append), no
     MaxAllocToHandlePerIPVersion, no Windows reserved handle, blocks claimed less than a minute ago are never
     reclaimed, ReleaseIPs is called with addresses of a single block.
   * Inputs that the model does not compute: the pseudo-random start index of randomBlockGenerator per
     host (taken from the real function) and the iteration order of Go maps (a hint list, universally
     quantified in the theorems).
   * cf_count_requested / cf_aip_leak / cf_stale_cache select the behaviour of the UNFIXED code (handle incremented by
     the requested count; AssignIP retrying after a conflict without undoing its increment).  The
     correspondence runs with both false. *)
From Coq Require Import List NArith Bool Arith.
From Verif.Common Require Import Cas.
Import ListNotations.
Open Scope N_scope.

(* ------------------------------------------------------------------ values *)
Inductive key := KBlock (c : N) | KHandle (h : N) | KAff (host : N) (c : N).
Inductive lopt := LBlocks | LAffs (host : N) | LHandles.
Inductive affst := APending | AConfirmed | APendingDeletion.

Record attr := { at_handle : option N; at_tag : N }.

Record block := {
  bk_cidr : N;                       (* first address of the block *)
  bk_aff : option N;                 (* "host:<h>" affinity *)
  bk_allocs : list (option nat);     (* per ordinal: index into bk_attrs, or None = free *)
  bk_unalloc : list nat;             (* FIFO of free ordinals *)
  bk_attrs : list attr;
  bk_seq : N;                        (* SequenceNumber, relative to the value at creation *)
  bk_seqs : list (nat * N)           (* SequenceNumberForAllocation, sorted by ordinal *)
}.

Inductive value := VBlock (b : block) | VAff (s : affst) | VHandle (m : list (N * N)).

Definition key_eqb (a b : key) : bool :=
  match a, b with
  | KBlock x, KBlock y => N.eqb x y
  | KHandle x, KHandle y => N.eqb x y
  | KAff h x, KAff g y => N.eqb h g && N.eqb x y
  | _, _ => false
  end.
Definition key_rank (a : key) : N := match a with KBlock _ => 0 | KHandle _ => 1 | KAff _ _ => 2 end.
Definition key_ltb (a b : key) : bool :=
  match a, b with
  | KBlock x, KBlock y => N.ltb x y
  | KHandle x, KHandle y => N.ltb x y
  | KAff h x, KAff g y => N.ltb h g || (N.eqb h g && N.ltb x y)
  | _, _ => N.ltb (key_rank a) (key_rank b)
  end.
Definition lmatch (l : lopt) (k : key) : bool :=
  match l, k with
  | LBlocks, KBlock _ => true
  | LAffs h, KAff g _ => N.eqb h g
  | LHandles, KHandle _ => true
  | _, _ => false
  end.

Definition affst_eqb (a b : affst) : bool :=
  match a, b with APending, APending | AConfirmed, AConfirmed | APendingDeletion, APendingDeletion => true | _, _ => false end.
Definition optN_eqb (a b : option N) : bool :=
  match a, b with Some x, Some y => N.eqb x y | None, None => true | _, _ => false end.
Definition optnat_eqb (a b : option nat) : bool :=
  match a, b with Some x, Some y => Nat.eqb x y | None, None => true | _, _ => false end.
Definition attr_eqb (a b : attr) : bool := optN_eqb (at_handle a) (at_handle b) && N.eqb (at_tag a) (at_tag b).
Fixpoint list_eqb {A} (eq : A -> A -> bool) (l1 l2 : list A) : bool :=
  match l1, l2 with
  | [], [] => true
  | a :: t1, b :: t2 => eq a b && list_eqb eq t1 t2
  | _, _ => false
  end.
Definition block_eqb (a b : block) : bool :=
  N.eqb (bk_cidr a) (bk_cidr b) && optN_eqb (bk_aff a) (bk_aff b)
  && list_eqb optnat_eqb (bk_allocs a) (bk_allocs b) && list_eqb Nat.eqb (bk_unalloc a) (bk_unalloc b)
  && list_eqb attr_eqb (bk_attrs a) (bk_attrs b) && N.eqb (bk_seq a) (bk_seq b)
  && list_eqb (fun x y => Nat.eqb (fst x) (fst y) && N.eqb (snd x) (snd y)) (bk_seqs a) (bk_seqs b).
Definition value_eqb (a b : value) : bool :=
  match a, b with
  | VBlock x, VBlock y => block_eqb x y
  | VAff x, VAff y => affst_eqb x y
  | VHandle x, VHandle y => list_eqb (fun p q => N.eqb (fst p) (fst q) && N.eqb (snd p) (snd q)) x y
  | _, _ => false
  end.

(* ------------------------------------------------------------------ configuration *)
Record config := {
  cf_strict : bool;            (* IPAMConfig.StrictAffinity *)
  cf_autoalloc : bool;         (* IPAMConfig.AutoAllocateBlocks *)
  cf_maxblocks : nat;          (* effective per-host block limit (20 when unset) *)
  cf_pool_base : N;            (* first address of the pool *)
  cf_nblocks : nat;            (* blocks in the pool *)
  cf_bsize : nat;              (* addresses per block *)
  cf_retries : nat;            (* datastoreRetries = 100 *)
  cf_starts : list (N * nat);  (* host -> start index of randomBlockGenerator *)
  cf_count_requested : bool;   (* UNFIXED: assignFromExistingBlock increments the handle by the requested count *)
  cf_aip_leak : bool;          (* UNFIXED: AssignIP retries after a CAS conflict without decrementing the handle *)
  cf_stale_cache : bool        (* UNFIXED: decrementHandle gives up when the caller's (possibly stale) copy of the handle
                                  has no entry for the block, instead of re-reading the handle *)
}.

Definition block_cidr (cf : config) (i : nat) : N := cf_pool_base cf + N.of_nat (i * cf_bsize cf).
Definition in_pool (cf : config) (a : N) : bool :=
  N.leb (cf_pool_base cf) a && N.ltb a (cf_pool_base cf + N.of_nat (cf_nblocks cf * cf_bsize cf)).
Definition block_of (cf : config) (a : N) : N :=
  cf_pool_base cf + ((a - cf_pool_base cf) / N.of_nat (cf_bsize cf)) * N.of_nat (cf_bsize cf).

Fixpoint assoc_nat (l : list (N * nat)) (h : N) : nat :=
  match l with [] => O | (k, v) :: t => if N.eqb k h then v else assoc_nat t h end.

(* randomBlockGenerator: start, start+1, ..., n-1, 0, ..., start-1 *)
Definition gen_order (cf : config) (host : N) : list N :=
  let n := cf_nblocks cf in
  let s := assoc_nat (cf_starts cf) host in
  map (block_cidr cf) (seq s (n - s) ++ seq 0 (Nat.min s n)).

(* ------------------------------------------------------------------ block functions (ipam_block.go) *)
Definition new_block (cf : config) (c : N) (host : N) : block :=
  {| bk_cidr := c; bk_aff := Some host; bk_allocs := repeat None (cf_bsize cf);
     bk_unalloc := seq 0 (cf_bsize cf); bk_attrs := []; bk_seq := 0; bk_seqs := [] |}.

Definition num_free (b : block) : nat := length (bk_unalloc b).
Definition blk_empty (b : block) : bool := forallb (fun a => match a with None => true | Some _ => false end) (bk_allocs b).

Fixpoint set_nth_opt {A} (l : list A) (n : nat) (a : A) : list A :=
  match l, n with
  | [], _ => []
  | _ :: t, O => a :: t
  | h :: t, S n' => h :: set_nth_opt t n' a
  end.

Fixpoint find_attr (attrs : list attr) (a : attr) (i : nat) : option nat :=
  match attrs with
  | [] => None
  | x :: t => if attr_eqb x a then Some i else find_attr t a (S i)
  end.
(* findOrAddAttribute *)
Definition find_or_add_attr (attrs : list attr) (a : attr) : list attr * nat :=
  match find_attr attrs a 0 with
  | Some i => (attrs, i)
  | None => (attrs ++ [a], length attrs)
  end.

Fixpoint seqs_set (l : list (nat * N)) (o : nat) (s : N) : list (nat * N) :=
  match l with
  | [] => [(o, s)]
  | (o', s') :: t => if Nat.eqb o' o then (o, s) :: t
                     else if Nat.ltb o o' then (o, s) :: (o', s') :: t
                     else (o', s') :: seqs_set t o s
  end.
Definition seqs_del (l : list (nat * N)) (o : nat) : list (nat * N) :=
  filter (fun p => negb (Nat.eqb (fst p) o)) l.

Definition aff_check_ok (b : block) (aff_check : bool) (host : N) : bool :=
  match bk_aff b with
  | Some h => negb aff_check || N.eqb h host
  | None => negb aff_check
  end.

(* allocationBlock.autoAssign without reservations: take the first num ordinals of the FIFO *)
Definition blk_auto_assign (b : block) (num : nat) (h : N) (tag : N) (aff_check : bool) (host : N)
  : option (block * list N) :=
  if negb (aff_check_ok b aff_check host) then None else
  let take := firstn num (bk_unalloc b) in
  match take with
  | [] => Some (b, [])
  | _ =>
    let '(attrs, idx) := find_or_add_attr (bk_attrs b) {| at_handle := Some h; at_tag := tag |} in
    let allocs := fold_left (fun al o => set_nth_opt al o (Some idx)) take (bk_allocs b) in
    let seqs := fold_left (fun sq o => seqs_set sq o (bk_seq b)) take (bk_seqs b) in
    Some ({| bk_cidr := bk_cidr b; bk_aff := bk_aff b; bk_allocs := allocs;
             bk_unalloc := skipn num (bk_unalloc b); bk_attrs := attrs; bk_seq := bk_seq b; bk_seqs := seqs |},
          map (fun o => bk_cidr b + N.of_nat o) take)
  end.

Inductive err := ENone | ENotFound | EExists | EConflict | EOther
               | EClaimConflict | EStale | ENoFree | EBlockLimit | EMaxRetries | EOutOfModel | ENotEmpty.

Definition ordinal_of (b : block) (a : N) : nat := N.to_nat (a - bk_cidr b).

(* allocationBlock.assign *)
Definition blk_assign (b : block) (a : N) (h : N) (tag : N) (aff_check : bool) (host : N) : block + err :=
  if negb (aff_check_ok b aff_check host) then inr EOther else
  let o := ordinal_of b a in
  match nth o (bk_allocs b) None with
  | Some _ => inr EExists
  | None =>
    let '(attrs, idx) := find_or_add_attr (bk_attrs b) {| at_handle := Some h; at_tag := tag |} in
    inl {| bk_cidr := bk_cidr b; bk_aff := bk_aff b; bk_allocs := set_nth_opt (bk_allocs b) o (Some idx);
           bk_unalloc := filter (fun x => negb (Nat.eqb x o)) (bk_unalloc b); bk_attrs := attrs;
           bk_seq := bk_seq b; bk_seqs := seqs_set (bk_seqs b) o (bk_seq b) |}
  end.

(* garbageCollect's attribute compaction: drop unreferenced attributes, renumber *)
Definition attr_used (allocs : list (option nat)) (i : nat) : bool :=
  existsb (fun a => match a with Some j => Nat.eqb j i | None => false end) allocs.
Definition rank_used (allocs : list (option nat)) (i : nat) : nat :=
  length (filter (attr_used allocs) (seq 0 i)).
Definition compact (b : block) : block :=
  let used := attr_used (bk_allocs b) in
  let kept := map snd (filter (fun p => used (fst p)) (combine (seq 0 (length (bk_attrs b))) (bk_attrs b))) in
  {| bk_cidr := bk_cidr b; bk_aff := bk_aff b;
     bk_allocs := map (fun a => match a with Some j => Some (rank_used (bk_allocs b) j) | None => None end) (bk_allocs b);
     bk_unalloc := bk_unalloc b; bk_attrs := kept; bk_seq := bk_seq b; bk_seqs := bk_seqs b |}.

(* free the given ordinals (ascending), append them to the FIFO, forget their sequence numbers, compact *)
Definition free_ordinals (b : block) (ords : list nat) : block :=
  let ords := filter (fun o => existsb (Nat.eqb o) ords) (seq 0 (length (bk_allocs b))) in
  compact {| bk_cidr := bk_cidr b; bk_aff := bk_aff b;
             bk_allocs := fold_left (fun al o => set_nth_opt al o None) ords (bk_allocs b);
             bk_unalloc := bk_unalloc b ++ ords; bk_attrs := bk_attrs b; bk_seq := bk_seq b;
             bk_seqs := fold_left seqs_del ords (bk_seqs b) |}.

Definition owner_of (b : block) (o : nat) : option attr :=
  match nth o (bk_allocs b) None with
  | Some i => nth_error (bk_attrs b) i
  | None => None
  end.

Fixpoint dedup_N (l : list N) : list N :=
  match l with [] => [] | a :: t => if existsb (N.eqb a) t then dedup_N t else a :: dedup_N t end.

Fixpoint count_add (m : list (N * nat)) (h : N) : list (N * nat) :=
  match m with
  | [] => [(h, 1%nat)]
  | (k, n) :: t => if N.eqb k h then (k, S n) :: t
                   else if N.ltb h k then (h, 1%nat) :: (k, n) :: t
                   else (k, n) :: count_add t h
  end.

Fixpoint insert_sortedN (a : N) (l : list N) : list N :=
  match l with [] => [a] | b :: t => if N.leb a b then a :: l else b :: insert_sortedN a t end.
Definition sortN (l : list N) : list N := fold_right insert_sortedN [] l.

(* allocationBlock.release for addresses of this block; opts = (address, required handle or None).
   Result: new block, addresses that were not allocated (sorted), count of released addresses per handle. *)
Definition blk_release (b : block) (opts : list (N * option N)) : (block * list N * list (N * nat)) + err :=
  let addrs := dedup_N (map fst opts) in
  let req (a : N) : option N :=
    fold_left (fun acc p => if N.eqb (fst p) a then snd p else acc) opts None in
  let alloc := filter (fun a => match owner_of b (ordinal_of b a) with Some _ => true | None => false end) addrs in
  let unalloc := filter (fun a => match owner_of b (ordinal_of b a) with Some _ => false | None => true end) addrs in
  let bad := existsb (fun a => match req a, owner_of b (ordinal_of b a) with
                               | Some rh, Some at_ => negb (optN_eqb (at_handle at_) (Some rh))
                               | _, _ => false end) alloc in
  if bad then inr EConflict else
  let counts := fold_left (fun m a => match owner_of b (ordinal_of b a) with
                                      | Some at_ => match at_handle at_ with Some h => count_add m h | None => m end
                                      | None => m end) alloc [] in
  match alloc with
  | [] => inl (b, sortN unalloc, counts)
  | _ => inl (free_ordinals b (map (ordinal_of b) alloc), sortN unalloc, counts)
  end.

(* allocationBlock.releaseByHandle *)
Definition blk_release_by_handle (b : block) (h : N) : block * nat :=
  let ords := filter (fun o => match owner_of b o with
                               | Some at_ => optN_eqb (at_handle at_) (Some h)
                               | None => false end) (seq 0 (length (bk_allocs b))) in
  match ords with
  | [] => (b, O)
  | _ => (free_ordinals b ords, length ords)
  end.

Definition bump (b : block) : block :=
  {| bk_cidr := bk_cidr b; bk_aff := bk_aff b; bk_allocs := bk_allocs b; bk_unalloc := bk_unalloc b;
     bk_attrs := bk_attrs b; bk_seq := bk_seq b + 1; bk_seqs := bk_seqs b |}.

(* releaseBlockAffinity on a non-empty block: drop the affinity, keep every allocation *)
Definition clear_aff (b : block) : block :=
  {| bk_cidr := bk_cidr b; bk_aff := None; bk_allocs := bk_allocs b; bk_unalloc := bk_unalloc b;
     bk_attrs := bk_attrs b; bk_seq := bk_seq b; bk_seqs := bk_seqs b |}.

(* ------------------------------------------------------------------ handle functions (ipam_handle.go) *)
Fixpoint hinc (m : list (N * N)) (c : N) (n : N) : list (N * N) :=
  match m with
  | [] => [(c, n)]
  | (k, v) :: t => if N.eqb k c then (k, v + n) :: t
                   else if N.ltb c k then (c, n) :: (k, v) :: t
                   else (k, v) :: hinc t c n
  end.
Fixpoint hdec (m : list (N * N)) (c : N) (n : N) : option (list (N * N)) :=
  match m with
  | [] => None
  | (k, v) :: t => if N.eqb k c then
                     (if N.ltb v n then None else if N.eqb v n then Some t else Some ((k, v - n) :: t))
                   else match hdec t c n with Some t' => Some ((k, v) :: t') | None => None end
  end.

(* ------------------------------------------------------------------ programs *)
Definition prog := Cas.prog key value lopt.
Definition entry := Cas.entry key value.
Notation "x <- p ;; q" := (Cas.bind p (fun x => q)) (at level 61, p at next level, right associativity).

Definition res (A : Type) : Type := (A + err)%type.

Definition classify_werr (rs : Cas.resp key value) : err :=
  match rs with RNotFound => ENotFound | RExists => EExists | RConflict => EConflict | _ => EOther end.

Definition get_block (c : N) : prog (res (block * N)) :=
  Act (RGet (KBlock c)) (fun rs =>
    match rs with
    | ROk e => match e_val e with VBlock b => Ret (inl (b, e_rev e)) | _ => Ret (inr EOther) end
    | rs => Ret (inr (classify_werr rs))
    end).
(* blockReaderWriter.updateBlock: SequenceNumber++ then CAS *)
Definition update_block (c : N) (b : block) (rev : N) : prog (res (block * N)) :=
  let b' := bump b in
  Act (RUpdate (KBlock c) (VBlock b') rev) (fun rs =>
    match rs with ROk e => Ret (inl (b', e_rev e)) | rs => Ret (inr (classify_werr rs)) end).
Definition create_block (c : N) (b : block) : prog (res (block * N)) :=
  Act (RCreate (KBlock c) (VBlock b)) (fun rs =>
    match rs with ROk e => Ret (inl (b, e_rev e)) | rs => Ret (inr (classify_werr rs)) end).
Definition delete_block (c : N) (rev : N) : prog (res unit) :=
  Act (RDelete (KBlock c) rev) (fun rs =>
    match rs with ROk _ => Ret (inl tt) | rs => Ret (inr (classify_werr rs)) end).

Definition get_aff (host c : N) : prog (res (affst * N)) :=
  Act (RGet (KAff host c)) (fun rs =>
    match rs with
    | ROk e => match e_val e with VAff s => Ret (inl (s, e_rev e)) | _ => Ret (inr EOther) end
    | rs => Ret (inr (classify_werr rs))
    end).
Definition update_aff (host c : N) (s : affst) (rev : N) : prog (res N) :=
  Act (RUpdate (KAff host c) (VAff s) rev) (fun rs =>
    match rs with ROk e => Ret (inl (e_rev e)) | rs => Ret (inr (classify_werr rs)) end).
Definition create_aff (host c : N) (s : affst) : prog (res N) :=
  Act (RCreate (KAff host c) (VAff s)) (fun rs =>
    match rs with ROk e => Ret (inl (e_rev e)) | rs => Ret (inr (classify_werr rs)) end).
Definition delete_aff (host c : N) (rev : N) : prog (res unit) :=
  Act (RDelete (KAff host c) rev) (fun rs =>
    match rs with ROk _ => Ret (inl tt) | rs => Ret (inr (classify_werr rs)) end).

Definition hmap := list (N * N).
Definition get_handle (h : N) : prog (res (hmap * N)) :=
  Act (RGet (KHandle h)) (fun rs =>
    match rs with
    | ROk e => match e_val e with VHandle m => Ret (inl (m, e_rev e)) | _ => Ret (inr EOther) end
    | rs => Ret (inr (classify_werr rs))
    end).
Definition update_handle (h : N) (m : hmap) (rev : N) : prog (res unit) :=
  Act (RUpdate (KHandle h) (VHandle m) rev) (fun rs =>
    match rs with ROk _ => Ret (inl tt) | rs => Ret (inr (classify_werr rs)) end).
Definition create_handle (h : N) (m : hmap) : prog (res unit) :=
  Act (RCreate (KHandle h) (VHandle m)) (fun rs =>
    match rs with ROk _ => Ret (inl tt) | rs => Ret (inr (classify_werr rs)) end).
Definition delete_handle (h : N) (rev : N) : prog (res unit) :=
  Act (RDelete (KHandle h) rev) (fun rs =>
    match rs with ROk _ => Ret (inl tt) | rs => Ret (inr (classify_werr rs)) end).

(* ipamClient.incrementHandle *)
Fixpoint inc_handle (fuel : nat) (h c : N) (n : N) : prog (res unit) :=
  match fuel with
  | O => Ret (inr EMaxRetries)
  | S f =>
    r <- get_handle h ;;
    match r with
    | inr ENotFound =>
        w <- create_handle h (hinc [] c n) ;;
        match w with inl _ => Ret (inl tt) | inr _ => inc_handle f h c n end
    | inr e => Ret (inr e)
    | inl (m, rev) =>
        w <- update_handle h (hinc m c n) rev ;;
        match w with inl _ => Ret (inl tt) | inr _ => inc_handle f h c n end
    end
  end.

(* ipamClient.decrementHandle; cached = the KVPair handed in by the caller (used on the first try only) *)
Fixpoint dec_handle (stale_bug : bool) (fuel : nat) (h c : N) (n : N) (cached : option (hmap * N)) : prog (res unit) :=
  match fuel with
  | O => Ret (inr EMaxRetries)
  | S f =>
    r <- match cached with Some x => Ret (inl x) | None => get_handle h end ;;
    match r with
    | inr e => Ret (inr e)
    | inl (m, rev) =>
      match hdec m c n with
      | None => match cached with
                | Some _ => if stale_bug then Ret (inr EOther) else dec_handle stale_bug f h c n None
                | None => Ret (inr EOther)
                end
      | Some [] =>
          w <- delete_handle h rev ;;
          match w with
          | inl _ => Ret (inl tt)
          | inr EConflict => dec_handle stale_bug f h c n None
          | inr ENotFound => Ret (inl tt)
          | inr e => Ret (inr e)
          end
      | Some m' =>
          w <- update_handle h m' rev ;;
          match w with
          | inl _ => Ret (inl tt)
          | inr EConflict => dec_handle stale_bug f h c n None
          | inr e => Ret (inr e)
          end
      end
    end
  end.

Section Ops.
  Variable cf : config.
  Let R := cf_retries cf.

  (* ipamClient.assignFromExistingBlock *)
  Definition assign_from_block (bk : block * N) (c : N) (num : nat) (h tag : N) (host : N) (aff_check : bool)
    : prog (res (list N)) :=
    let '(b, rev) := bk in
    match blk_auto_assign b num h tag aff_check host with
    | None => Ret (inr EOther)
    | Some (b', ips) =>
      match ips with
      | [] => Ret (inl [])
      | _ =>
        let cnt := if cf_count_requested cf then N.of_nat num else N.of_nat (length ips) in
        i <- inc_handle R h c cnt ;;
        match i with
        | inr e => Ret (inr e)
        | inl _ =>
          w <- update_block c b' rev ;;
          match w with
          | inl _ => Ret (inl ips)
          | inr e => u_ <- dec_handle (cf_stale_cache cf) R h c cnt None ;; Ret (inr e)
          end
        end
      end
    end.

  (* blockReaderWriter.confirmAffinity *)
  Definition confirm_aff (host c : N) (rev : N) : prog (res N) :=
    w <- update_aff host c AConfirmed rev ;;
    match w with
    | inl rev' => Ret (inl rev')
    | inr e =>
        r <- get_aff host c ;;
        match r with
        | inl (AConfirmed, rev2) => Ret (inl rev2)
        | _ => Ret (inr e)
        end
    end.

  (* blockReaderWriter.claimAffineBlock *)
  Definition claim_affine_block (host c : N) (affrev : N) : prog (res (block * N)) :=
    w <- create_block c (new_block cf c host) ;;
    match w with
    | inl bk =>
        r <- confirm_aff host c affrev ;;
        match r with inr e => Ret (inr e) | inl _ => Ret (inl bk) end
    | inr EExists =>
        g <- get_block c ;;
        match g with
        | inr e => Ret (inr e)
        | inl (b, brev) =>
            if optN_eqb (bk_aff b) (Some host) then
              r <- confirm_aff host c affrev ;;
              match r with inr e => Ret (inr e) | inl _ => Ret (inl (b, brev)) end
            else
              u_ <- delete_aff host c affrev ;; Ret (inr EClaimConflict)
        end
    | inr e => Ret (inr e)
    end.

  (* blockReaderWriter.getPendingAffinity *)
  Definition get_pending_aff (host c : N) : prog (res (affst * N)) :=
    w <- create_aff host c APending ;;
    match w with
    | inl rev => Ret (inl (APending, rev))
    | inr EExists =>
        r <- get_aff host c ;;
        match r with
        | inr e => Ret (inr e)
        | inl (AConfirmed, rev) => Ret (inl (AConfirmed, rev))
        | inl (_, rev) =>
            u <- update_aff host c APending rev ;;
            match u with inl rev' => Ret (inl (APending, rev')) | inr e => Ret (inr e) end
        end
    | inr e => Ret (inr e)
    end.

  (* ipamClient.getBlockFromAffinity *)
  Definition get_block_from_aff (host c : N) (aff : affst * N) : prog (res (block * N)) :=
    let '(st, affrev) := aff in
    g <- get_block c ;;
    match g with
    | inr ENotFound =>
        u <- update_aff host c APending affrev ;;
        match u with
        | inr e => Ret (inr e)
        | inl rev' => claim_affine_block host c rev'
        end
    | inr e => Ret (inr e)
    | inl (b, brev) =>
        if negb (optN_eqb (bk_aff b) (Some host)) then
          d <- delete_aff host c affrev ;;
          match d with inr e => Ret (inr e) | inl _ => Ret (inr EStale) end
        else if affst_eqb st AConfirmed then Ret (inl (b, brev))
        else
          u <- update_aff host c APending affrev ;;
          match u with
          | inr e => Ret (inr e)
          | inl rev1 =>
              w <- update_block c b brev ;;
              match w with
              | inr e => Ret (inr e)
              | inl bk' =>
                  u2 <- update_aff host c AConfirmed rev1 ;;
                  match u2 with inr e => Ret (inr e) | inl _ => Ret (inl bk') end
              end
          end
    end.

  Fixpoint find_block_entry (es : list entry) (c : N) : option block :=
    match es with
    | [] => None
    | e :: t => match e_key e, e_val e with
                | KBlock c', VBlock b => if N.eqb c' c then Some b else find_block_entry t c
                | _, _ => find_block_entry t c
                end
    end.

  (* blockReaderWriter.findUsableBlock (blocks claimed less than a minute ago are never reclaimed) *)
  Definition find_usable (host : N) : prog (res N) :=
    Act (RList LBlocks) (fun rs =>
      match rs with
      | RListed es =>
          match find (fun c => match find_block_entry es c with
                               | None => true
                               | Some b => optN_eqb (bk_aff b) (Some host) && negb (Nat.eqb (num_free b) 0)
                               end) (gen_order cf host) with
          | Some c => Ret (inl c)
          | None => Ret (inr ENoFree)
          end
      | _ => Ret (inr EOther)
      end).

  (* findOrClaimBlock, first half: one existing affine block, with its CAS retry loop *)
  Fixpoint try_affine (fuel : nat) (host c : N) : prog (option (block * N)) :=
    match fuel with
    | O => Ret None
    | S f =>
      r <- get_aff host c ;;
      match r with
      | inr _ => Ret None
      | inl aff =>
          g <- get_block_from_aff host c aff ;;
          match g with
          | inr EConflict => try_affine f host c
          | inr _ => Ret None
          | inl (b, brev) => if Nat.leb 1 (num_free b) then Ret (Some (b, brev)) else Ret None
          end
      end
    end.

  Fixpoint scan_affine (rem : list N) (host : N) : prog (option (block * N * N) * list N) :=
    match rem with
    | [] => Ret (None, [])
    | c :: rest =>
        r <- try_affine R host c ;;
        match r with
        | Some bk => Ret (Some (bk, c), rest)
        | None => scan_affine rest host
        end
    end.

  Inductive claim_res := CRBlock (bk : block * N) | CRAgain | CRErr (e : err).

  Fixpoint claim_inner (fuel : nat) (host c : N) : prog claim_res :=
    match fuel with
    | O => Ret CRAgain
    | S f =>
      pa <- get_pending_aff host c ;;
      match pa with
      | inr EConflict => claim_inner f host c
      | inr e => Ret (CRErr e)
      | inl aff =>
          g <- get_block_from_aff host c aff ;;
          match g with
          | inr EConflict => claim_inner f host c
          | inr EClaimConflict => Ret CRAgain
          | inr EStale => Ret CRAgain
          | inr e => Ret (CRErr e)
          | inl (b, brev) => if Nat.leb 1 (num_free b) then Ret (CRBlock (b, brev)) else Ret (CRErr EOther)
          end
      end
    end.

  Fixpoint claim_outer (fuel : nat) (host : N) : prog (res (block * N * N)) :=
    match fuel with
    | O => Ret (inr EMaxRetries)
    | S f =>
      u <- find_usable host ;;
      match u with
      | inr e => Ret (inr e)
      | inl c =>
          r <- claim_inner R host c ;;
          match r with
          | CRBlock bk => Ret (inl (bk, c))
          | CRAgain => claim_outer f host
          | CRErr e => Ret (inr e)
          end
      end
    end.

  (* findOrClaimBlock: result, remaining affine blocks, newly claimed? *)
  Definition find_or_claim (rem : list N) (host : N) (allow_new : bool)
    : prog (res (block * N * N * bool) * list N) :=
    s <- scan_affine rem host ;;
    match s with
    | (Some (bk, c), rest) => Ret (inl (bk, c, false), rest)
    | (None, _) =>
        if negb allow_new then Ret (inr EBlockLimit, [])
        else if cf_autoalloc cf then
          r <- claim_outer R host ;;
          match r with
          | inl (bk, c) => Ret (inl (bk, c, true), [])
          | inr e => Ret (inr e, [])
          end
        else Ret (inr EOther, [])
    end.

  (* the CAS retry loop around assignFromExistingBlock inside autoAssign's affine phase *)
  Fixpoint assign_retry (fuel : nat) (bk : block * N) (c : N) (rem : nat) (h tag host : N) : prog (list N) :=
    match fuel with
    | O => Ret []
    | S f =>
      r <- assign_from_block bk c rem h tag host (cf_strict cf) ;;
      match r with
      | inl ips => Ret ips
      | inr EConflict =>
          g <- get_block c ;;
          match g with
          | inr _ => Ret []
          | inl bk' => assign_retry f bk' c rem h tag host
          end
      | inr _ => Ret []
      end
    end.

  (* non-affine phase: one block *)
  Fixpoint na_try (fuel : nat) (c : N) (rem : nat) (h tag host : N) : prog (list N) :=
    match fuel with
    | O => Ret []
    | S f =>
      g <- get_block c ;;
      match g with
      | inr _ => Ret []
      | inl bk =>
          r <- assign_from_block bk c rem h tag host false ;;
          match r with
          | inl ips => Ret ips
          | inr EConflict => na_try f c rem h tag host
          | inr _ => Ret []
          end
      end
    end.

  Fixpoint na_loop (order : list N) (ips : list N) (num : nat) (h tag host : N) : prog (list N) :=
    match order with
    | [] => Ret ips
    | c :: rest =>
        if Nat.leb num (length ips) then Ret ips
        else new <- na_try R c (num - length ips) h tag host ;; na_loop rest (ips ++ new) num h tag host
    end.

  Inductive result :=
  | ResIPs (ips : list N) (e : err)       (* AutoAssign: addresses in order; ReleaseIPs: not-allocated addresses, sorted *)
  | ResErr (e : err)                      (* AssignIP, ReleaseByHandle, ReleaseAffinity *)
  | ResClaim (claimed failed : bool) (e : err).   (* ClaimAffinity of one block *)

  (* ipamClient.autoAssign: outer loop over blocks *)
  Fixpoint aa_loop (fuel : nat) (ips : list N) (rem_aff : list N) (owned : nat) (num : nat) (h tag host : N)
    : prog result :=
    if Nat.leb num (length ips) then Ret (ResIPs ips ENone) else
    match fuel with
    | O => Ret (ResIPs ips EOutOfModel)
    | S f =>
      fc <- find_or_claim rem_aff host (Nat.ltb owned (cf_maxblocks cf)) ;;
      match fc with
      | (inr ENoFree, _) =>
          if negb (cf_strict cf) then
            ips' <- na_loop (gen_order cf host) ips num h tag host ;; Ret (ResIPs ips' ENone)
          else Ret (ResIPs ips ENone)
      | (inr e, _) => Ret (ResIPs ips e)
      | (inl (bk, c, newly), rem') =>
          new <- assign_retry R bk c (num - length ips) h tag host ;;
          aa_loop f (ips ++ new) rem' (if newly then S owned else owned) num h tag host
      end
    end.

  Fixpoint aff_cidrs (es : list entry) : list N :=
    match es with
    | [] => []
    | e :: t => match e_key e with KAff _ c => c :: aff_cidrs t | _ => aff_cidrs t end
    end.

  Definition auto_assign (host h tag : N) (num : nat) : prog result :=
    Act (RList (LAffs host)) (fun rs =>
      match rs with
      | RListed es =>
          let affs := filter (in_pool cf) (aff_cidrs es) in
          aa_loop (S (S (cf_nblocks cf + cf_nblocks cf))) [] affs (length affs) num h tag host
      | _ => Ret (ResIPs [] EOther)
      end).

  (* an error answer is never reported to the caller as success *)
  Definition nz (e : err) : err := match e with ENone => EOther | _ => e end.

  (* ipamClient.AssignIP *)
  Fixpoint assign_ip_loop (fuel : nat) (host h tag : N) (a : N) : prog result :=
    let c := block_of cf a in
    match fuel with
    | O => Ret (ResErr EMaxRetries)
    | S f =>
      let continue (bk : block * N) : prog result :=
        let '(b, brev) := bk in
        match blk_assign b a h tag (cf_strict cf) host with
        | inr e => Ret (ResErr (nz e))
        | inl b' =>
            i <- inc_handle R h c 1 ;;
            match i with
            | inr _ => Ret (ResErr EOther)
            | inl _ =>
                w <- update_block c b' brev ;;
                match w with
                | inl _ => Ret (ResErr ENone)
                | inr EConflict =>
                    if cf_aip_leak cf then assign_ip_loop f host h tag a
                    else u_ <- dec_handle (cf_stale_cache cf) R h c 1 None ;; assign_ip_loop f host h tag a
                | inr e => u_ <- dec_handle (cf_stale_cache cf) R h c 1 None ;; Ret (ResErr (nz e))
                end
            end
        end in
      g <- get_block c ;;
      match g with
      | inr ENotFound =>
          pa <- get_pending_aff host c ;;
          match pa with
          | inr EConflict => assign_ip_loop f host h tag a
          | inr e => Ret (ResErr (nz e))
          | inl (_, affrev) =>
              cb <- claim_affine_block host c affrev ;;
              match cb with
              | inr EConflict => assign_ip_loop f host h tag a
              | inr e => Ret (ResErr (nz e))
              | inl bk => continue bk
              end
          end
      | inr e => Ret (ResErr (nz e))
      | inl bk => continue bk
      end
    end.

  Definition assign_ip (host h tag a : N) : prog result := assign_ip_loop R host h tag a.

  (* order a list of keys by a hint (Go map iteration order): hinted keys first, in hint order *)
  Definition order_by {A} (hint : list N) (l : list (N * A)) : list (N * A) :=
    flat_map (fun k => filter (fun p => N.eqb (fst p) k) l) (dedup_N hint)
    ++ filter (fun p => negb (existsb (N.eqb (fst p)) hint)) l.

  Fixpoint find_cached (es : list entry) (h : N) : option (hmap * N) :=
    match es with
    | [] => None
    | e :: t => match e_key e, e_val e with
                | KHandle h', VHandle m => if N.eqb h' h then Some (m, e_rev e) else find_cached t h
                | _, _ => find_cached t h
                end
    end.

  Fixpoint dec_all (l : list (N * nat)) (c : N) (cache : list entry) : prog unit :=
    match l with
    | [] => Ret tt
    | (h, n) :: t => u_ <- dec_handle (cf_stale_cache cf) R h c (N.of_nat n) (find_cached cache h) ;; dec_all t c cache
    end.

  (* ipamClient.releaseIPsFromBlock *)
  Fixpoint release_loop (fuel : nat) (c : N) (opts : list (N * option N)) (hint : list N) (cache : list entry)
    : prog result :=
    match fuel with
    | O => Ret (ResIPs [] EMaxRetries)
    | S f =>
      g <- get_block c ;;
      match g with
      | inr ENotFound => Ret (ResIPs (sortN (map fst opts)) ENone)
      | inr e => Ret (ResIPs [] e)
      | inl (b, brev) =>
        match blk_release b opts with
        | inr e => Ret (ResIPs [] e)
        | inl (b', unalloc, counts) =>
          if Nat.eqb (length opts) (length unalloc) then Ret (ResIPs unalloc ENone)
          else
            w <- (if blk_empty b' && optN_eqb (bk_aff b') None
                  then delete_block c brev
                  else (u <- update_block c b' brev ;; match u with inl _ => Ret (inl tt) | inr e => Ret (inr e) end)) ;;
            match w with
            | inr EConflict => release_loop f c opts hint cache
            | inr e => Ret (ResIPs [] e)
            | inl _ => u_ <- dec_all (order_by hint counts) c cache ;; Ret (ResIPs unalloc ENone)
            end
        end
      end
    end.

  (* ipamClient.ReleaseIPs restricted to addresses of one block *)
  Definition release_ips (opts : list (N * option N)) (hint : list N) : prog result :=
    match opts with
    | [] => Ret (ResIPs [] ENone)
    | (a, _) :: _ =>
      let c := block_of cf a in
      if Nat.ltb 2 (length opts)
      then Act (RList LHandles) (fun rs =>
             match rs with
             | RListed es => release_loop R c opts hint es
             | _ => Ret (ResIPs [] EOther)
             end)
      else release_loop R c opts hint []
    end.

  (* ipamClient.releaseByHandle (one block) *)
  Fixpoint rbh_one (fuel : nat) (c h : N) : prog (res unit) :=
    match fuel with
    | O => Ret (inr EOutOfModel)
    | S f =>
      g <- get_block c ;;
      match g with
      | inr ENotFound => Ret (inl tt)
      | inr e => Ret (inr e)
      | inl (b, brev) =>
        let '(b', n) := blk_release_by_handle b h in
        match n with
        | O => Ret (inl tt)
        | _ =>
          let after : prog (res unit) := u_ <- dec_handle (cf_stale_cache cf) R h c (N.of_nat n) None ;; Ret (inl tt) in
          if blk_empty b' && optN_eqb (bk_aff b') None then
            w <- delete_block c brev ;;
            match w with
            | inr EConflict => rbh_one f c h
            | inr ENotFound => after
            | inl _ => after
            | inr e => Ret (inr e)
            end
          else
            w <- update_block c b' brev ;;
            match w with
            | inr EConflict => rbh_one f c h
            | inr e => Ret (inr e)
            | inl _ => after
            end
        end
      end
    end.

  Fixpoint rbh_blocks (cs : list N) (h : N) : prog result :=
    match cs with
    | [] => Ret (ResErr ENone)
    | c :: t =>
        r <- rbh_one R c h ;;
        match r with inr e => Ret (ResErr e) | inl _ => rbh_blocks t h end
    end.

  (* ipamClient.ReleaseByHandle *)
  Definition release_by_handle (h : N) (hint : list N) : prog result :=
    r <- get_handle h ;;
    match r with
    | inr e => Ret (ResErr e)
    | inl (m, _) => rbh_blocks (map fst (order_by hint m)) h
    end.

  (* blockReaderWriter.releaseBlockAffinity *)
  Definition release_block_affinity (host c : N) (require_empty : bool) : prog (res unit) :=
    a <- get_aff host c ;;
    match a with
    | inr e => Ret (inr e)
    | inl (_, affrev) =>
      g <- get_block c ;;
      match g with
      | inr e => Ret (inr e)
      | inl (b, brev) =>
        if match bk_aff b with Some h' => negb (N.eqb h' host) | None => false end then
          u_ <- delete_aff host c affrev ;; Ret (inr EClaimConflict)
        else if require_empty && negb (blk_empty b) then Ret (inr ENotEmpty)
        else
          u <- update_aff host c APendingDeletion affrev ;;
          match u with
          | inr e => Ret (inr e)
          | inl affrev' =>
            let finish : prog (res unit) :=
              d2 <- delete_aff host c affrev' ;;
              match d2 with
              | inl _ => Ret (inl tt)
              | inr ENotFound => Ret (inl tt)
              | inr e => Ret (inr e)
              end in
            if blk_empty b then
              d <- delete_block c brev ;;
              match d with
              | inl _ => finish
              | inr ENotFound => finish
              | inr e => Ret (inr e)
              end
            else
              w <- update_block c (clear_aff b) brev ;;
              match w with
              | inl _ => finish
              | inr e => Ret (inr e)
              end
          end
      end
    end.

  (* ipamClient.ReleaseAffinity for a CIDR that is exactly one block *)
  Fixpoint release_aff_loop (fuel : nat) (host c : N) (must_be_empty : bool) : prog result :=
    match fuel with
    | O => Ret (ResErr ENone)
    | S f =>
      r <- release_block_affinity host c must_be_empty ;;
      match r with
      | inl _ => Ret (ResErr ENone)
      | inr EClaimConflict => Ret (ResErr ENone)
      | inr ENotFound => Ret (ResErr ENone)
      | inr EConflict => release_aff_loop f host c must_be_empty
      | inr e => Ret (ResErr (nz e))
      end
    end.

  (* ipamClient.ClaimAffinity for a CIDR that is exactly one block *)
  Fixpoint claim_aff_loop (fuel : nat) (host c : N) : prog result :=
    match fuel with
    | O => Ret (ResClaim false false ENone)
    | S f =>
      pa <- get_pending_aff host c ;;
      match pa with
      | inr EConflict => claim_aff_loop f host c
      | inr e => Ret (ResClaim false false (nz e))
      | inl (_, affrev) =>
          cb <- claim_affine_block host c affrev ;;
          match cb with
          | inr EConflict => claim_aff_loop f host c
          | inr EClaimConflict => Ret (ResClaim false true ENone)
          | inr e => Ret (ResClaim false false (nz e))
          | inl _ => Ret (ResClaim true false ENone)
          end
      end
    end.

  (* ---------------------------------------------------------------- operations *)
  Inductive op :=
  | OpAutoAssign (h tag : N) (num : nat)
  | OpAssignIP (h tag : N) (a : N)
  | OpRelease (opts : list (N * option N)) (hint : list N)
  | OpReleaseByHandle (h : N) (hint : list N)
  | OpClaimAffinity (c : N)
  | OpReleaseAffinity (c : N) (must_be_empty : bool)
  (* with MaxAllocToHandlePerIPVersion = ma > 0 (programs in ModelV.v); hint: order in which IPsByHandle visits blocks *)
  | OpAutoAssignM (h tag : N) (num : nat) (ma : N) (hint : list N)
  | OpAssignIPM (h tag : N) (a : N) (ma : N) (hint : list N).

  Definition compile (host : N) (o : op) : prog result :=
    match o with
    | OpAutoAssign h tag num => auto_assign host h tag num
    | OpAssignIP h tag a => assign_ip host h tag a
    | OpRelease opts hint => release_ips opts hint
    | OpReleaseByHandle h hint => release_by_handle h hint
    | OpClaimAffinity c => claim_aff_loop R host c
    | OpReleaseAffinity c must => release_aff_loop R host c must
    | OpAutoAssignM _ _ _ _ _ | OpAssignIPM _ _ _ _ _ => Ret (ResErr EOutOfModel)   (* see ModelV.compile_w *)
    end.
End Ops.

(* ------------------------------------------------------------------ running clients under a schedule *)
Definition store := Cas.store key value.
Definition exec := @Cas.exec key value lopt key_eqb key_ltb lmatch.
Definition init_store : store := Cas.empty_store key value 1.

Record client := {
  cl_host : N;
  cl_cur : option (prog result);     (* None: all operations finished *)
  cl_todo : list op;
  cl_crashed : bool
}.

(* after an access: collect finished operations and load the next one *)
Fixpoint settle (cf : config) (fuel : nat) (host : N) (p : prog result) (todo : list op) (done : list result)
  : option (prog result) * list op * list result :=
  match p with
  | Act _ _ => (Some p, todo, done)
  | Ret r =>
      match todo, fuel with
      | o :: t, S f => settle cf f host (compile cf host o) t (done ++ [r])
      | _, _ => (None, todo, done ++ [r])
      end
  end.

Definition start_client (cf : config) (host : N) (ops : list op) : client :=
  match ops with
  | [] => {| cl_host := host; cl_cur := None; cl_todo := []; cl_crashed := false |}
  | o :: t =>
      let '(cur, todo, _) := settle cf (length ops) host (compile cf host o) t [] in
      {| cl_host := host; cl_cur := cur; cl_todo := todo; cl_crashed := false |}
  end.

Definition fault := Cas.fault.
