(* C19 — counting lemmas: how the handle maps (hinc / hdec) and the block functions (autoAssign, assign,
   release, releaseByHandle, compaction, ...) change  hcount m c  and  count_in_block b h.  Used by Debt.v. *)
From Coq Require Import List NArith Bool Arith Lia Permutation.
From Verif.Common Require Import Cas.
From Verif.C19 Require Import Model BlockLemmas Spec.
Import ListNotations.

(* ------------------------------------------------------------------ handle maps *)
Fixpoint hsorted (m : list (N * N)) : Prop :=
  match m with
  | [] => True
  | (k, _) :: t => (forall k' v', In (k', v') t -> (k < k')%N) /\ hsorted t
  end.

Lemma hcount_above m c : (forall k v, In (k, v) m -> (c < k)%N) -> hcount m c = 0%N.
Proof.
  induction m as [|[k v] t IH]; simpl; auto. intros A.
  assert (c < k)%N by (apply (A k v); auto).
  destruct (N.eqb k c) eqn:E; [apply N.eqb_eq in E; lia|]. apply IH. intros; eapply A; eauto.
Qed.

Lemma hinc_spec m c n : hsorted m ->
  hsorted (hinc m c n) /\ forall c', hcount (hinc m c n) c' = (hcount m c' + (if N.eqb c' c then n else 0))%N.
Proof.
  induction m as [|[k v] t IH]; simpl; intros S.
  - split; [split; auto; intros ? ? []|]. intros c'. rewrite (N.eqb_sym c c'). destruct (N.eqb c' c); lia.
  - destruct S as [A S]. destruct (N.eqb k c) eqn:E.
    + apply N.eqb_eq in E; subst k. split; [simpl; split; auto|].
      intros c'. simpl. rewrite (N.eqb_sym c c'). destruct (N.eqb c' c); lia.
    + apply N.eqb_neq in E. destruct (N.ltb c k) eqn:L.
      * apply N.ltb_lt in L. split.
        -- simpl. split; [|split; auto]. intros k' v' [X|X]; [inversion X; subst; auto|].
           specialize (A _ _ X). lia.
        -- intros c'. simpl. rewrite (N.eqb_sym c c'). destruct (N.eqb c' c) eqn:E'.
           ++ apply N.eqb_eq in E'; subst c'. destruct (N.eqb k c) eqn:E2; [apply N.eqb_eq in E2; lia|].
              rewrite hcount_above; [lia|]. intros k' v' X. specialize (A _ _ X). lia.
           ++ lia.
      * apply N.ltb_ge in L. destruct (IH S) as [S' HC]. split.
        -- simpl. split; auto. intros k' v' X.
           assert (In (k', v') t \/ k' = c).
           { clear - X. induction t as [|[k2 v2] t IH]; simpl in *.
             - destruct X as [X|[]]; inversion X; auto.
             - destruct (N.eqb k2 c) eqn:E.
               + apply N.eqb_eq in E; subst. destruct X as [X|X]; [inversion X; auto | auto].
               + destruct (N.ltb c k2).
                 * destruct X as [X|X]; [inversion X; auto | auto].
                 * destruct X as [X|X]; [auto|]. destruct (IH X); auto. }
           destruct H as [X' | EQk]; [eapply A; eauto | subst k'; lia].
        -- intros c'. simpl. rewrite HC. destruct (N.eqb k c') eqn:E3; auto.
           apply N.eqb_eq in E3; subst c'. destruct (N.eqb k c) eqn:E2; [apply N.eqb_eq in E2; congruence | lia].
Qed.

Lemma hdec_spec m c n : hsorted m -> (0 < n)%N -> (n <= hcount m c)%N ->
  exists m', hdec m c n = Some m' /\ hsorted m' /\
             forall c', hcount m' c' = (hcount m c' - (if N.eqb c' c then n else 0))%N.
Proof.
  induction m as [|[k v] t IH]; simpl; intros S P L; [lia|].
  destruct S as [A S]. destruct (N.eqb k c) eqn:E.
  - apply N.eqb_eq in E; subst k.
    destruct (N.ltb v n) eqn:LT; [apply N.ltb_lt in LT; lia|].
    destruct (N.eqb v n) eqn:EQ.
    + apply N.eqb_eq in EQ; subst v. exists t. split; auto. split; auto.
      intros c'. destruct (N.eqb c c') eqn:E'.
      * apply N.eqb_eq in E'; subst c'. rewrite N.eqb_refl. rewrite hcount_above; [lia|].
        intros; eapply A; eauto.
      * rewrite (N.eqb_sym c' c), E'. lia.
    + exists ((c, v - n)%N :: t). split; auto. split; [simpl; split; auto|].
      intros c'. simpl. rewrite (N.eqb_sym c' c). destruct (N.eqb c c'); lia.
  - destruct (IH S P L) as (m' & HD & S' & HC). rewrite HD. exists ((k, v) :: m'). split; auto. split.
    + simpl. split; auto. intros k' v' X.
      assert (In k' (map fst t)).
      { clear - HD X. revert m' HD X. induction t as [|[k2 v2] t IH]; simpl; intros m' HD X; [discriminate|].
        destruct (N.eqb k2 c).
        - destruct (N.ltb v2 n); [discriminate|]. destruct (N.eqb v2 n).
          + inversion HD; subst. right. apply (in_map fst) in X. exact X.
          + inversion HD; subst. destruct X as [X|X]; [inversion X; auto|]. right. apply (in_map fst) in X; exact X.
        - destruct (hdec t c n) eqn:HH; [|discriminate]. inversion HD; subst.
          destruct X as [X|X]; [inversion X; auto|]. right. eapply IH; eauto. }
      apply in_map_iff in H. destruct H as ([k2 v2] & <- & X2). eapply A; eauto.
    + intros c'. simpl. rewrite HC. destruct (N.eqb k c') eqn:E2; auto.
      apply N.eqb_eq in E2; subst c'. rewrite E. lia.
Qed.

Lemma hdec_Some_ge m c n m' : hdec m c n = Some m' -> (n <= hcount m c)%N.
Proof.
  revert m'; induction m as [|[k v] t IH]; simpl; intros m' HD; [discriminate|].
  destruct (N.eqb k c).
  - destruct (N.ltb v n) eqn:LT; [discriminate|]. apply N.ltb_ge in LT; auto.
  - destruct (hdec t c n) eqn:HH; [|discriminate]. eapply IH; eauto.
Qed.

(* ------------------------------------------------------------------ counting owned ordinals *)
Definition isown (b : block) (h : N) (o : nat) : bool :=
  match owner_of b o with Some x => optN_eqb (at_handle x) (Some h) | None => false end.

Lemma count_in_block_eq b h :
  count_in_block b h = N.of_nat (length (filter (isown b h) (seq 0 (length (bk_allocs b))))).
Proof. reflexivity. Qed.

Lemma perm_filter_length {A} (f : A -> bool) l1 l2 : Permutation l1 l2 -> length (filter f l1) = length (filter f l2).
Proof.
  induction 1; simpl; auto.
  - destruct (f x); simpl; auto.
  - destruct (f x), (f y); simpl; auto.
  - congruence.
Qed.

Lemma filter_split_len {A} (P Q : A -> bool) l :
  length (filter P l) = (length (filter P (filter Q l)) + length (filter (fun x => P x && negb (Q x)) l))%nat.
Proof.
  induction l as [|a l IH]; simpl; auto.
  destruct (Q a) eqn:EQ; simpl; destruct (P a) eqn:EP; simpl; lia.
Qed.

(* the counts of two predicates that differ only on a duplicate-free set S of indices below n *)
Lemma count_change (P P' : nat -> bool) (S : list nat) n :
  NoDup S -> (forall o, In o S -> (o < n)%nat) -> (forall o, ~ In o S -> P' o = P o) ->
  (length (filter P' (seq 0 n)) + length (filter P S) = length (filter P (seq 0 n)) + length (filter P' S))%nat.
Proof.
  intros ND LT SAME.
  set (inS := fun o => existsb (Nat.eqb o) S).
  rewrite (filter_split_len P' inS (seq 0 n)), (filter_split_len P inS (seq 0 n)).
  assert (PERM : Permutation (filter inS (seq 0 n)) S).
  { apply NoDup_Permutation; auto.
    - apply NoDup_filter, seq_NoDup.
    - intros o. rewrite filter_In, in_seq. unfold inS. rewrite existsb_eqb_In. split; [tauto|].
      intros X. split; auto. specialize (LT _ X). lia. }
  rewrite (perm_filter_length P' _ _ PERM), (perm_filter_length P _ _ PERM).
  assert (E : filter (fun x => P' x && negb (inS x)) (seq 0 n) = filter (fun x => P x && negb (inS x)) (seq 0 n)).
  { apply filter_ext_in. intros o _. destruct (inS o) eqn:I; simpl; [rewrite !andb_false_r; auto|].
    rewrite SAME; auto. intros X. apply existsb_eqb_In in X. unfold inS in I. congruence. }
  rewrite E. lia.
Qed.

Lemma count_ext b b' h : length (bk_allocs b') = length (bk_allocs b) ->
  (forall o, owner_of b' o = owner_of b o) -> count_in_block b' h = count_in_block b h.
Proof.
  intros L O. rewrite !count_in_block_eq, L. f_equal. f_equal. apply filter_ext. intros o. unfold isown. rewrite O; auto.
Qed.

Lemma count_bump b h : count_in_block (bump b) h = count_in_block b h.
Proof. reflexivity. Qed.
Lemma count_clear_aff b h : count_in_block (clear_aff b) h = count_in_block b h.
Proof. reflexivity. Qed.

Lemma count_empty b h : blk_empty b = true -> count_in_block b h = 0%N.
Proof.
  intros E. rewrite count_in_block_eq.
  assert (Z : forall l, filter (isown b h) l = []).
  { induction l as [|o l IH]; simpl; auto.
    assert (F : isown b h o = false).
    { unfold blk_empty in E. rewrite forallb_forall in E.
      unfold isown, owner_of. destruct (nth o (bk_allocs b) None) eqn:NO; auto.
      assert (IN : In (Some n) (bk_allocs b)).
      { rewrite <- NO. apply nth_In. destruct (Nat.lt_ge_cases o (length (bk_allocs b))); auto.
        rewrite nth_overflow in NO; [discriminate|auto]. }
      apply E in IN. discriminate. }
    rewrite F; auto. }
  rewrite Z; reflexivity.
Qed.

(* ------------------------------------------------------------------ owners after each block transformation *)
Definition inl_ (l : list nat) (o : nat) : bool := existsb (Nat.eqb o) l.

Lemma blk_auto_assign_owner b num h tag ac host b' ips :
  blk_auto_assign b num h tag ac host = Some (b', ips) -> I_b b ->
  let take := firstn num (bk_unalloc b) in
  length (bk_allocs b') = length (bk_allocs b) /\ length ips = length take /\
  (forall o, owner_of b' o = if inl_ take o then Some {| at_handle := Some h; at_tag := tag |} else owner_of b o).
Proof.
  unfold blk_auto_assign. destruct (negb (aff_check_ok b ac host)); [discriminate|].
  intros X (ND & FREE & VAL). simpl.
  destruct (firstn num (bk_unalloc b)) as [|o0 take'] eqn:TK.
  - inversion X; subst. repeat split; auto.
  - remember (o0 :: take') as take.
    destruct (find_or_add_attr (bk_attrs b) {| at_handle := Some h; at_tag := tag |}) as [attrs idx] eqn:FA.
    inversion X; subst b' ips; clear X.
    destruct (find_or_add_spec _ _ _ _ FA) as (NI & IL & OLD & LE).
    assert (TKIN : forall o, In o take -> In o (bk_unalloc b)).
    { intros o Hin. rewrite <- TK in Hin. eapply In_firstn; eauto. }
    simpl. split; [apply fold_set_length|]. split; [apply map_length|].
    intros o. unfold owner_of, inl_; simpl. rewrite nth_fold_set.
    destruct (existsb (Nat.eqb o) take) eqn:EX; simpl.
    + apply existsb_eqb_In in EX. destruct (FREE o (TKIN _ EX)) as [_ FL].
      apply Nat.ltb_lt in FL. rewrite FL. exact NI.
    + destruct (nth o (bk_allocs b) None) as [j|] eqn:NJ; auto. apply OLD. eapply VAL; eauto.
Qed.

Lemma filter_all_false {A} (f : A -> bool) l : (forall x, In x l -> f x = false) -> filter f l = [].
Proof. induction l as [|a l IH]; simpl; intros F; auto. rewrite F; auto. Qed.
Lemma filter_all_true {A} (f : A -> bool) l : (forall x, In x l -> f x = true) -> filter f l = l.
Proof. induction l as [|a l IH]; simpl; intros F; auto. rewrite F; auto. f_equal; auto. Qed.

Lemma blk_auto_assign_count b num h tag ac host b' ips h' :
  blk_auto_assign b num h tag ac host = Some (b', ips) -> I_b b ->
  count_in_block b' h' = (count_in_block b h' + (if N.eqb h' h then N.of_nat (length ips) else 0))%N.
Proof.
  intros AA IB. destruct (blk_auto_assign_owner _ _ _ _ _ _ _ _ AA IB) as (LEN & LI & OW).
  set (take := firstn num (bk_unalloc b)) in *.
  destruct IB as (ND & FREE & VAL).
  assert (NDT : NoDup take).
  { unfold take. clear - ND. revert num. induction (bk_unalloc b) as [|a l IH]; intros [|n]; simpl; try constructor.
    - inversion ND; subst. intros X. apply H1. eapply In_firstn; eauto.
    - inversion ND; auto. }
  assert (LT : forall o, In o take -> (o < length (bk_allocs b))%nat).
  { intros o X. apply In_firstn in X. apply FREE; auto. }
  pose proof (count_change (isown b h') (isown b' h') take (length (bk_allocs b)) NDT LT) as CC.
  rewrite !count_in_block_eq, LEN.
  assert (SAME : forall o, ~ In o take -> isown b' h' o = isown b h' o).
  { intros o NI. unfold isown. rewrite OW. unfold inl_.
    destruct (existsb (Nat.eqb o) take) eqn:E; auto. apply existsb_eqb_In in E; tauto. }
  specialize (CC SAME).
  assert (F0 : filter (isown b h') take = []).
  { apply filter_all_false. intros o X. unfold isown, owner_of.
    apply In_firstn in X. destruct (FREE o X) as [FN _]. rewrite FN; auto. }
  rewrite F0 in CC. simpl in CC.
  destruct (N.eqb h' h) eqn:E.
  - apply N.eqb_eq in E; subst h'.
    rewrite (filter_all_true (isown b' h) take) in CC; [rewrite LI; lia|].
    intros o X. unfold isown. rewrite OW. unfold inl_.
    assert (EX : existsb (Nat.eqb o) take = true) by (apply existsb_eqb_In; auto). rewrite EX. simpl. apply N.eqb_refl.
  - rewrite (filter_all_false (isown b' h') take) in CC; [simpl in CC; lia|].
    intros o X. unfold isown. rewrite OW. unfold inl_.
    assert (EX : existsb (Nat.eqb o) take = true) by (apply existsb_eqb_In; auto). rewrite EX. simpl.
    rewrite N.eqb_sym. exact E.
Qed.

Lemma blk_auto_assign_len b num h tag ac host b' ips :
  blk_auto_assign b num h tag ac host = Some (b', ips) -> length (bk_allocs b') = length (bk_allocs b).
Proof.
  unfold blk_auto_assign. destruct (negb (aff_check_ok b ac host)); [discriminate|].
  destruct (firstn num (bk_unalloc b)); [intros X; inversion X; auto|].
  destruct (find_or_add_attr _ _). intros X. injection X as X1 X2. subst b'. cbn [bk_allocs]. apply (fold_set_length (n :: l)).
Qed.

Lemma blk_assign_count b a h tag ac host b' h' :
  blk_assign b a h tag ac host = inl b' -> I_b b -> (ordinal_of b a < length (bk_allocs b))%nat ->
  length (bk_allocs b') = length (bk_allocs b) /\
  count_in_block b' h' = (count_in_block b h' + (if N.eqb h' h then 1 else 0))%N.
Proof.
  unfold blk_assign. destruct (negb (aff_check_ok b ac host)); [discriminate|].
  set (o := ordinal_of b a).
  destruct (nth o (bk_allocs b) None) eqn:NO; [discriminate|].
  destruct (find_or_add_attr (bk_attrs b) {| at_handle := Some h; at_tag := tag |}) as [attrs idx] eqn:FA.
  intros X (ND & FREE & VAL) LT; inversion X; subst b'; clear X.
  destruct (find_or_add_spec _ _ _ _ FA) as (NI & IL & OLD & LE).
  split; [apply set_nth_opt_length|].
  match goal with |- count_in_block ?B _ = _ => set (b' := B) end.
  assert (OW : forall o', owner_of b' o' = if Nat.eqb o o' then Some {| at_handle := Some h; at_tag := tag |} else owner_of b o').
  { intros o'. unfold owner_of, b'; simpl. rewrite nth_set_nth_opt.
    apply Nat.ltb_lt in LT. rewrite LT, andb_true_r. destruct (Nat.eqb o o'); auto.
    destruct (nth o' (bk_allocs b) None) as [j|] eqn:NJ; auto. apply OLD. eapply VAL; eauto. }
  assert (ND1 : NoDup [o]) by (constructor; [intros []|constructor]).
  assert (LT1 : forall x, In x [o] -> (x < length (bk_allocs b))%nat) by (intros x [<-|[]]; auto).
  pose proof (count_change (isown b h') (isown b' h') [o] (length (bk_allocs b)) ND1 LT1) as CC.
  assert (SAME : forall x, ~ In x [o] -> isown b' h' x = isown b h' x).
  { intros x NIx. unfold isown. rewrite OW. destruct (Nat.eqb o x) eqn:E; auto.
    apply Nat.eqb_eq in E. subst. simpl in NIx. tauto. }
  specialize (CC SAME). rewrite !count_in_block_eq.
  replace (length (bk_allocs b')) with (length (bk_allocs b)) by (symmetry; apply set_nth_opt_length).
  assert (F0 : filter (isown b h') [o] = []).
  { apply filter_all_false. intros x [<-|[]]. unfold isown, owner_of. rewrite NO. auto. }
  assert (F1 : length (filter (isown b' h') [o]) = if N.eqb h' h then 1%nat else 0%nat).
  { simpl. unfold isown. rewrite OW, Nat.eqb_refl. simpl. rewrite (N.eqb_sym h h'). destruct (N.eqb h' h); auto. }
  rewrite F0, F1 in CC. simpl in CC. destruct (N.eqb h' h); lia.
Qed.

Lemma free_ordinals_owner b ords : I_b b ->
  length (bk_allocs (free_ordinals b ords)) = length (bk_allocs b) /\
  forall o, owner_of (free_ordinals b ords) o =
            if inl_ ords o && Nat.ltb o (length (bk_allocs b)) then None else owner_of b o.
Proof.
  intros (ND & FREE & VAL). unfold free_ordinals.
  set (ords' := filter (fun o => existsb (Nat.eqb o) ords) (seq 0 (length (bk_allocs b)))).
  split; [simpl; rewrite map_length; apply fold_set_length|].
  intros o. rewrite owner_compact.
  - unfold owner_of; simpl. rewrite nth_fold_set.
    assert (E : existsb (Nat.eqb o) ords' = inl_ ords o && Nat.ltb o (length (bk_allocs b))).
    { unfold inl_. destruct (existsb (Nat.eqb o) ords') eqn:X.
      - apply existsb_eqb_In in X. apply filter_In in X. destruct X as [S E]. apply in_seq in S.
        rewrite E. symmetry. apply Nat.ltb_lt. lia.
      - destruct (existsb (Nat.eqb o) ords) eqn:Y; auto. destruct (Nat.ltb o (length (bk_allocs b))) eqn:Z; auto.
        exfalso. apply Nat.ltb_lt in Z.
        assert (In o ords') by (apply filter_In; split; [apply in_seq; lia | auto]).
        apply existsb_eqb_In in H. congruence. }
    rewrite E. destruct (inl_ ords o); simpl; auto.
    destruct (Nat.ltb o (length (bk_allocs b))); auto.
  - simpl. intros o' j. rewrite nth_fold_set.
    destruct (existsb (Nat.eqb o') ords' && Nat.ltb o' (length (bk_allocs b))); [discriminate|]. apply VAL.
Qed.

(* releasing: the count drops by the number of freed ordinals the handle owned *)
Lemma free_ordinals_count b ords h' : I_b b ->
  let S := filter (fun o => existsb (Nat.eqb o) ords) (seq 0 (length (bk_allocs b))) in
  (count_in_block (free_ordinals b ords) h' + N.of_nat (length (filter (isown b h') S)) = count_in_block b h')%N.
Proof.
  intros IB S. destruct (free_ordinals_owner b ords IB) as [LEN OW].
  assert (NDS : NoDup S) by (apply NoDup_filter, seq_NoDup).
  assert (LTS : forall o, In o S -> (o < length (bk_allocs b))%nat).
  { intros o X. apply filter_In in X. destruct X as [X _]. apply in_seq in X. lia. }
  pose proof (count_change (isown b h') (isown (free_ordinals b ords) h') S (length (bk_allocs b)) NDS LTS) as CC.
  assert (INS : forall o, In o S <-> inl_ ords o && Nat.ltb o (length (bk_allocs b)) = true).
  { intros o. unfold S, inl_. rewrite filter_In, in_seq, andb_true_iff, Nat.ltb_lt. split; [tauto|]. intros [A B]; split; auto; lia. }
  assert (SAME : forall o, ~ In o S -> isown (free_ordinals b ords) h' o = isown b h' o).
  { intros o NI. unfold isown. rewrite OW. destruct (inl_ ords o && Nat.ltb o (length (bk_allocs b))) eqn:E; auto.
    exfalso. apply NI, INS; auto. }
  specialize (CC SAME).
  rewrite (filter_all_false (isown (free_ordinals b ords) h') S) in CC.
  - rewrite !count_in_block_eq, LEN. simpl in CC. lia.
  - intros o X. unfold isown. rewrite OW. apply INS in X. rewrite X. auto.
Qed.

(* ------------------------------------------------------------------ per-handle counts of a release *)
Fixpoint hsum (m : list (N * nat)) (h : N) : N :=
  match m with [] => 0%N | (k, n) :: t => ((if N.eqb k h then N.of_nat n else 0) + hsum t h)%N end.

Lemma hsum_app l1 l2 h : hsum (l1 ++ l2) h = (hsum l1 h + hsum l2 h)%N.
Proof. induction l1 as [|[k n] t IH]; simpl; auto. rewrite IH. lia. Qed.

Lemma hsum_count_add m h h' : hsum (count_add m h) h' = (hsum m h' + (if N.eqb h h' then 1 else 0))%N.
Proof.
  induction m as [|[k n] t IH]; simpl.
  - destruct (N.eqb h h'); lia.
  - destruct (N.eqb k h) eqn:E.
    + apply N.eqb_eq in E; subst k. simpl. destruct (N.eqb h h'); lia.
    + destruct (N.ltb h k); simpl.
      * destruct (N.eqb h h'), (N.eqb k h'); lia.
      * rewrite IH. destruct (N.eqb h h'), (N.eqb k h'); lia.
Qed.

Lemma count_add_pos m h : Forall (fun p => (0 < snd p)%nat) m -> Forall (fun p => (0 < snd p)%nat) (count_add m h).
Proof.
  induction m as [|[k n] t IH]; simpl; intros F.
  - constructor; simpl; auto.
  - inversion F; subst. destruct (N.eqb k h); [constructor; simpl; auto; lia|].
    destruct (N.ltb h k); constructor; simpl; auto.
Qed.

Lemma hsum_filter_key (l : list (N * nat)) k h :
  hsum (filter (fun p => N.eqb (fst p) k) l) h = if N.eqb k h then hsum l h else 0%N.
Proof.
  induction l as [|[k2 n] t IH]; simpl; [destruct (N.eqb k h); auto|].
  destruct (N.eqb k2 k) eqn:E; simpl; rewrite IH.
  - apply N.eqb_eq in E; subst k2. destruct (N.eqb k h); lia.
  - destruct (N.eqb k h) eqn:E2; auto. apply N.eqb_eq in E2; subst h. rewrite E. lia.
Qed.

Lemma dedup_N_spec l : NoDup (dedup_N l) /\ forall x, In x (dedup_N l) <-> In x l.
Proof.
  induction l as [|a t [ND IN]]; simpl; [split; [constructor | tauto]|].
  destruct (existsb (N.eqb a) t) eqn:E.
  - split; auto. intros x. rewrite IN. split; auto. intros [<-|X]; auto.
    apply existsb_exists in E. destruct E as (y & Y & EQ). apply N.eqb_eq in EQ; subst; auto.
  - split.
    + constructor; auto. rewrite IN. intros X.
      assert (existsb (N.eqb a) t = true) by (apply existsb_exists; exists a; split; auto; apply N.eqb_refl). congruence.
    + intros x; simpl. rewrite IN. tauto.
Qed.

Lemma hsum_flat_map (l : list (N * nat)) ks h : NoDup ks ->
  hsum (flat_map (fun k => filter (fun p => N.eqb (fst p) k) l) ks) h = if existsb (N.eqb h) ks then hsum l h else 0%N.
Proof.
  induction ks as [|k t IH]; simpl; intros ND; auto.
  inversion ND; subst. rewrite hsum_app, hsum_filter_key, IH; auto.
  rewrite (N.eqb_sym h k). destruct (N.eqb k h) eqn:E; simpl; auto.
  apply N.eqb_eq in E; subst k.
  destruct (existsb (N.eqb h) t) eqn:X; [|lia].
  apply existsb_exists in X. destruct X as (y & Y & EQ). apply N.eqb_eq in EQ; subst. tauto.
Qed.

Lemma hsum_filter_notin (l : list (N * nat)) hint h :
  hsum (filter (fun p => negb (existsb (N.eqb (fst p)) hint)) l) h = if existsb (N.eqb h) hint then 0%N else hsum l h.
Proof.
  induction l as [|[k n] t IH]; simpl; [destruct (existsb (N.eqb h) hint); auto|].
  destruct (existsb (N.eqb k) hint) eqn:E; simpl; rewrite IH.
  - destruct (existsb (N.eqb h) hint) eqn:E2; auto. destruct (N.eqb k h) eqn:E3; [|lia].
    apply N.eqb_eq in E3; subst. congruence.
  - destruct (existsb (N.eqb h) hint) eqn:E2; auto. destruct (N.eqb k h) eqn:E3; [|lia].
    apply N.eqb_eq in E3; subst. congruence.
Qed.

Lemma hsum_order_by (l : list (N * nat)) hint h : hsum (order_by hint l) h = hsum l h.
Proof.
  unfold order_by. rewrite hsum_app, hsum_filter_notin.
  destruct (dedup_N_spec hint) as [ND IN]. rewrite hsum_flat_map; auto.
  assert (E : existsb (N.eqb h) (dedup_N hint) = existsb (N.eqb h) hint).
  { destruct (existsb (N.eqb h) hint) eqn:X.
    - apply existsb_exists in X. destruct X as (y & Y & EQ). apply existsb_exists. exists y. split; auto. apply IN; auto.
    - destruct (existsb (N.eqb h) (dedup_N hint)) eqn:Z; auto.
      apply existsb_exists in Z. destruct Z as (y & Y & EQ). apply IN in Y.
      assert (existsb (N.eqb h) hint = true) by (apply existsb_exists; eauto). congruence. }
  rewrite E. destruct (existsb (N.eqb h) hint); lia.
Qed.

Lemma order_by_pos (l : list (N * nat)) hint :
  Forall (fun p => (0 < snd p)%nat) l -> Forall (fun p => (0 < snd p)%nat) (order_by hint l).
Proof.
  intros F. rewrite Forall_forall in *. intros p X. unfold order_by in X. apply in_app_or in X.
  destruct X as [X|X].
  - apply in_flat_map in X. destruct X as (k & _ & X). apply filter_In in X. apply F; tauto.
  - apply filter_In in X. apply F; tauto.
Qed.

Lemma filter_map_len {A B} (f : B -> bool) (g : A -> B) l :
  length (filter f (map g l)) = length (filter (fun a => f (g a)) l).
Proof. induction l as [|a l IH]; simpl; auto. destruct (f (g a)); simpl; auto. Qed.

Lemma NoDup_map_inj_on {A B} (g : A -> B) l :
  (forall x y, In x l -> In y l -> g x = g y -> x = y) -> NoDup l -> NoDup (map g l).
Proof.
  induction l as [|a l IH]; simpl; intros INJ ND; [constructor|].
  inversion ND; subst. constructor.
  - intros X. apply in_map_iff in X. destruct X as (y & E & Y).
    assert (y = a) by (apply INJ; auto). subst; auto.
  - apply IH; auto.
Qed.

(* blk_release: the block loses, per handle, exactly the numbers listed in the returned counts *)
Lemma blk_release_count b opts b' un cnt h' :
  blk_release b opts = inl (b', un, cnt) -> I_b b ->
  (forall a, In a (map fst opts) -> (bk_cidr b <= a)%N) ->
  length (bk_allocs b') = length (bk_allocs b) /\
  Forall (fun p => (0 < snd p)%nat) cnt /\
  (count_in_block b' h' + hsum cnt h' = count_in_block b h')%N.
Proof.
  unfold blk_release. intros X IB GE.
  match type of X with context [if ?c then _ else _] => destruct c end; [discriminate|].
  set (addrs := dedup_N (map fst opts)) in *.
  set (isal := fun a => match owner_of b (ordinal_of b a) with Some _ => true | None => false end) in *.
  set (alloc := filter isal addrs) in *.
  set (step := fun (m : list (N * nat)) (a : N) =>
                 match owner_of b (ordinal_of b a) with
                 | Some at_ => match at_handle at_ with Some h => count_add m h | None => m end
                 | None => m end) in *.
  assert (CNT : forall l acc, hsum (fold_left step l acc) h' =
                  (hsum acc h' + N.of_nat (length (filter (fun a => isown b h' (ordinal_of b a)) l)))%N).
  { induction l as [|a l IH]; intros acc; simpl; [lia|]. rewrite IH. unfold step, isown.
    destruct (owner_of b (ordinal_of b a)) as [x|]; simpl; [|lia].
    destruct (at_handle x) as [hh|]; simpl; [|lia].
    rewrite hsum_count_add. destruct (N.eqb hh h'); simpl; lia. }
  assert (POS : forall l acc, Forall (fun p => (0 < snd p)%nat) acc -> Forall (fun p => (0 < snd p)%nat) (fold_left step l acc)).
  { induction l as [|a l IH]; intros acc F; simpl; auto. apply IH. unfold step.
    destruct (owner_of b (ordinal_of b a)) as [x|]; auto. destruct (at_handle x); auto. apply count_add_pos; auto. }
  destruct alloc as [|a0 al] eqn:AL.
  - inversion X; subst. split; auto. split; [constructor|]. simpl. lia.
  - rewrite <- AL in *. inversion X; subst b' un cnt; clear X.
    destruct (free_ordinals_owner b (map (ordinal_of b) alloc) IB) as [LEN _].
    split; auto. split; [apply POS; constructor|].
    rewrite CNT. simpl.
    pose proof (free_ordinals_count b (map (ordinal_of b) alloc) h' IB) as FC. cbv zeta in FC.
    set (S := filter (fun o => existsb (Nat.eqb o) (map (ordinal_of b) alloc)) (seq 0 (length (bk_allocs b)))) in *.
    assert (PERM : Permutation S (map (ordinal_of b) alloc)).
    { destruct (dedup_N_spec (map fst opts)) as [NDA INA].
      apply NoDup_Permutation.
      - apply NoDup_filter, seq_NoDup.
      - apply NoDup_map_inj_on; [|apply NoDup_filter; exact NDA].
        intros x y Hx Hy E. apply filter_In in Hx, Hy. destruct Hx as [Hx _], Hy as [Hy _].
        apply INA in Hx, Hy. apply GE in Hx, Hy. unfold ordinal_of in E. lia.
      - intros o. unfold S. rewrite filter_In, in_seq, existsb_eqb_In. split; [tauto|].
        intros Y. split; auto. apply in_map_iff in Y. destruct Y as (a & <- & Ya).
        apply filter_In in Ya. destruct Ya as [_ Ya]. unfold isal in Ya.
        destruct (owner_of b (ordinal_of b a)) eqn:OO; [|discriminate].
        destruct (owner_of_Some _ _ _ OO) as (j & NJ & _).
        destruct (Nat.lt_ge_cases (ordinal_of b a) (length (bk_allocs b))); [lia|].
        rewrite nth_overflow in NJ; [discriminate|auto]. }
    rewrite (perm_filter_length (isown b h') _ _ PERM), filter_map_len in FC. lia.
Qed.

Lemma blk_release_by_handle_count b h b' n h' :
  blk_release_by_handle b h = (b', n) -> I_b b ->
  length (bk_allocs b') = length (bk_allocs b) /\
  (count_in_block b' h' + (if N.eqb h' h then N.of_nat n else 0) = count_in_block b h')%N.
Proof.
  unfold blk_release_by_handle. intros X IB.
  set (ords := filter (fun o => match owner_of b o with
                               | Some at_ => optN_eqb (at_handle at_) (Some h)
                               | None => false end) (seq 0 (length (bk_allocs b)))) in *.
  assert (CNTH : count_in_block b h = N.of_nat (length ords)) by reflexivity.
  destruct ords as [|o0 ol] eqn:OL.
  - inversion X; subst. split; auto. destruct (N.eqb h' h) eqn:E; [|lia]. simpl. lia.
  - rewrite <- OL in *. inversion X; subst b' n; clear X.
    destruct (free_ordinals_owner b ords IB) as [LEN _]. split; auto.
    pose proof (free_ordinals_count b ords h' IB) as FC. cbv zeta in FC.
    assert (SE : filter (fun o => existsb (Nat.eqb o) ords) (seq 0 (length (bk_allocs b))) = ords).
    { unfold ords at 2. apply filter_ext_in. intros o _.
      fold (isown b h o). destruct (isown b h o) eqn:I.
      - apply existsb_eqb_In. unfold ords. apply filter_In. split; auto.
        destruct (Nat.lt_ge_cases o (length (bk_allocs b))); [apply in_seq; lia|].
        unfold isown, owner_of in I. rewrite nth_overflow in I; [discriminate|auto].
      - destruct (existsb (Nat.eqb o) ords) eqn:E; auto. apply existsb_eqb_In in E.
        apply filter_In in E. destruct E as [_ E]. fold (isown b h o) in E. congruence. }
    rewrite SE in FC.
    destruct (N.eqb h' h) eqn:E.
    + apply N.eqb_eq in E; subst h'. rewrite filter_all_true in FC; [lia|].
      intros o Y. apply filter_In in Y. destruct Y as [_ Y]. exact Y.
    + rewrite filter_all_false in FC; [simpl in FC; lia|].
      intros o Y. apply filter_In in Y. destruct Y as [_ Y]. unfold isown.
      destruct (owner_of b o) as [x|]; auto. apply optN_eqb_eq in Y.
      destruct (optN_eqb (at_handle x) (Some h')) eqn:Z; auto. apply optN_eqb_eq in Z. rewrite Y in Z. inversion Z; subst.
      rewrite N.eqb_refl in E; discriminate.
Qed.

(* ------------------------------------------------------------------ stored handles have no empty / zero entries *)
Definition hpos (m : list (N * N)) : Prop := Forall (fun p => (0 < snd p)%N) m.
Definition hgood (m : list (N * N)) : Prop := hsorted m /\ hpos m /\ m <> [].

Lemma hinc_pos m c n : hpos m -> (0 < n)%N -> hpos (hinc m c n) /\ hinc m c n <> [].
Proof.
  induction m as [|[k v] t IH]; simpl; intros P PN.
  - split; [constructor; simpl; auto|discriminate].
  - inversion P as [|? ? PV PT]; subst. simpl in PV.
    destruct (N.eqb k c); [split; [constructor; simpl; auto; lia | discriminate]|].
    destruct (N.ltb c k); [split; [constructor; simpl; auto | discriminate]|].
    destruct (IH PT PN) as [A _]. split; [constructor; auto | discriminate].
Qed.

Lemma hdec_pos m c n : forall m', hpos m -> hdec m c n = Some m' -> hpos m'.
Proof.
  induction m as [|[k v] t IH]; simpl; intros m' P HD; [discriminate|].
  inversion P as [|? ? PV PT]; subst. simpl in PV.
  destruct (N.eqb k c).
  - destruct (N.ltb v n) eqn:LT; [discriminate|]. apply N.ltb_ge in LT.
    destruct (N.eqb v n) eqn:EQ.
    + inversion HD; subst; auto.
    + apply N.eqb_neq in EQ. inversion HD; subst. constructor; [simpl; lia | exact PT].
  - destruct (hdec t c n) as [t'|] eqn:HH; [|discriminate]. inversion HD; subst.
    constructor; [exact PV | apply IH; auto].
Qed.
