(* C19 — lemmas about the block functions of Model.v: the block invariant I_b, the "frame" relation between
   two versions of a block (no address changes owner), and that every transformation the clients apply
   (autoAssign, assign, release, releaseByHandle, SequenceNumber bump) maintains both. *)
From Coq Require Import List NArith Bool Arith Lia.
From Verif.Common Require Import Cas.
From Verif.C19 Require Import Model.
Import ListNotations.

(* ------------------------------------------------------------------ generic list facts *)
Lemma set_nth_opt_length {A} (l : list A) n a : length (set_nth_opt l n a) = length l.
Proof. revert n; induction l; intros [|n]; simpl; auto. Qed.

Lemma nth_set_nth_opt {A} (l : list A) n a m d :
  nth m (set_nth_opt l n a) d = if Nat.eqb n m && Nat.ltb n (length l) then a else nth m l d.
Proof.
  revert n m; induction l as [|x l IH]; intros n m; simpl.
  - destruct n, m; simpl; auto; rewrite ?andb_false_r; auto.
  - destruct n, m; simpl; auto.
    rewrite IH. replace (Nat.ltb (S n) (S (length l))) with (Nat.ltb n (length l)); auto.
Qed.

Lemma fold_set_length {A} (ords : list nat) (v : A) l :
  length (fold_left (fun al o => set_nth_opt al o v) ords l) = length l.
Proof. revert l; induction ords; simpl; intros; auto. rewrite IHords, set_nth_opt_length; auto. Qed.

Lemma nth_fold_set {A} (ords : list nat) (v : A) l m d :
  nth m (fold_left (fun al o => set_nth_opt al o v) ords l) d =
  if existsb (Nat.eqb m) ords && Nat.ltb m (length l) then v else nth m l d.
Proof.
  revert l; induction ords as [|o ords IH]; simpl; intros l; auto.
  rewrite IH, set_nth_opt_length, nth_set_nth_opt.
  rewrite (Nat.eqb_sym m o).
  destruct (Nat.eqb o m) eqn:E; simpl.
  - apply Nat.eqb_eq in E; subst. destruct (Nat.ltb m (length l)) eqn:L; simpl.
    + rewrite andb_true_r. destruct (existsb (Nat.eqb m) ords); auto.
    + rewrite andb_false_r. auto.
  - auto.
Qed.

Lemma existsb_eqb_In m l : existsb (Nat.eqb m) l = true <-> In m l.
Proof.
  rewrite existsb_exists. split.
  - intros (x & Hin & E). apply Nat.eqb_eq in E; subst; auto.
  - intros Hin; exists m; split; auto. apply Nat.eqb_refl.
Qed.

Lemma NoDup_app_inv {A} (l1 l2 : list A) : NoDup (l1 ++ l2) ->
  NoDup l2 /\ (forall x, In x l1 -> In x l2 -> False).
Proof.
  induction l1 as [|a l1 IH]; simpl; intros ND.
  - split; auto.
  - inversion ND as [|? ? NI ND']; subst. destruct (IH ND') as [N2 D]. split; auto.
    intros x [->|X1] X2.
    + apply NI. apply in_or_app; auto.
    + eapply D; eauto.
Qed.

Lemma NoDup_firstn_skipn {A} (l : list A) n :
  NoDup l -> NoDup (skipn n l) /\ (forall x, In x (firstn n l) -> In x (skipn n l) -> False).
Proof.
  intros ND. rewrite <- (firstn_skipn n l) in ND. apply NoDup_app_inv; auto.
Qed.

Lemma NoDup_app {A} (l1 l2 : list A) : NoDup l1 -> NoDup l2 -> (forall x, In x l1 -> In x l2 -> False) -> NoDup (l1 ++ l2).
Proof.
  induction l1 as [|a l1 IH]; simpl; intros N1 N2 D; auto.
  inversion N1 as [|? ? NI N1']; subst. constructor.
  - intros X. apply in_app_or in X. destruct X; auto. eapply D; eauto.
  - apply IH; auto. intros x X1 X2. eapply D; eauto.
Qed.

Lemma In_skipn {A} (l : list A) n x : In x (skipn n l) -> In x l.
Proof. intros. rewrite <- (firstn_skipn n l). apply in_or_app; auto. Qed.
Lemma In_firstn {A} (l : list A) n x : In x (firstn n l) -> In x l.
Proof. intros. rewrite <- (firstn_skipn n l). apply in_or_app; auto. Qed.

(* ------------------------------------------------------------------ decidable equalities *)
Lemma optN_eqb_eq a b : optN_eqb a b = true <-> a = b.
Proof.
  destruct a, b; simpl; split; intros; try discriminate; auto.
  - apply N.eqb_eq in H; subst; auto.
  - inversion H; apply N.eqb_refl.
Qed.
Lemma attr_eqb_eq a b : attr_eqb a b = true <-> a = b.
Proof.
  destruct a, b; unfold attr_eqb; simpl. rewrite andb_true_iff, optN_eqb_eq, N.eqb_eq.
  split; [intros [-> ->]; auto | intros X; inversion X; auto].
Qed.
Lemma key_eqb_eq a b : key_eqb a b = true <-> a = b.
Proof.
  destruct a, b; simpl; try (split; intros; discriminate).
  - rewrite N.eqb_eq; split; [intros ->|intros X; inversion X]; auto.
  - rewrite N.eqb_eq; split; [intros ->|intros X; inversion X]; auto.
  - rewrite andb_true_iff, !N.eqb_eq; split; [intros [-> ->]|intros X; inversion X]; auto.
Qed.

(* ------------------------------------------------------------------ the block invariant and frame *)
Definition I_b (b : block) : Prop :=
  NoDup (bk_unalloc b) /\
  (forall o, In o (bk_unalloc b) -> nth o (bk_allocs b) None = None /\ (o < length (bk_allocs b))%nat) /\
  (forall o j, nth o (bk_allocs b) None = Some j -> (j < length (bk_attrs b))%nat).

(* no address changes owner: an owned address keeps its owner or becomes free *)
Definition frame (b0 b1 : block) : Prop :=
  forall o x, owner_of b0 o = Some x -> owner_of b1 o = Some x \/ owner_of b1 o = None.

Definition btrans (b0 b1 : block) : Prop :=
  bk_cidr b1 = bk_cidr b0 /\ (I_b b0 -> I_b b1 /\ frame b0 b1).

Lemma btrans_refl b : btrans b b.
Proof. split; [reflexivity|]. intros IB; split; [exact IB|]. intros o x OW; left; exact OW. Qed.

Lemma owner_bump b o : owner_of (bump b) o = owner_of b o.
Proof. reflexivity. Qed.

Lemma btrans_bump b0 b1 : btrans b0 b1 -> btrans b0 (bump b1).
Proof.
  intros [C T]; split; [exact C|]. intros I0. destruct (T I0) as [I1 F]. split; [exact I1 | exact F].
Qed.

(* findOrAddAttribute *)
Lemma find_attr_spec attrs a i0 i : find_attr attrs a i0 = Some i ->
  (i0 <= i)%nat /\ nth_error attrs (i - i0) = Some a.
Proof.
  revert i0; induction attrs as [|x t IH]; simpl; intros i0; [discriminate|].
  destruct (attr_eqb x a) eqn:E.
  - intros X; inversion X; subst. apply attr_eqb_eq in E; subst. split; auto. rewrite Nat.sub_diag; auto.
  - intros X. destruct (IH _ X) as [L N]. split; [lia|].
    replace (i - i0)%nat with (S (i - S i0)) by lia. auto.
Qed.

Lemma find_or_add_spec attrs a attrs' idx : find_or_add_attr attrs a = (attrs', idx) ->
  nth_error attrs' idx = Some a /\ (idx < length attrs')%nat /\
  (forall j, (j < length attrs)%nat -> nth_error attrs' j = nth_error attrs j) /\
  (length attrs <= length attrs')%nat.
Proof.
  unfold find_or_add_attr. destruct (find_attr attrs a 0) eqn:E; intros X; inversion X; subst.
  - destruct (find_attr_spec _ _ _ _ E) as [_ N]. rewrite Nat.sub_0_r in N.
    repeat split; auto. apply nth_error_Some; congruence.
  - repeat split.
    + rewrite nth_error_app2; auto. rewrite Nat.sub_diag; auto.
    + rewrite app_length; simpl; lia.
    + intros j L. apply nth_error_app1; auto.
    + rewrite app_length; lia.
Qed.

Lemma owner_of_Some b o x : owner_of b o = Some x ->
  exists j, nth o (bk_allocs b) None = Some j /\ nth_error (bk_attrs b) j = Some x.
Proof. unfold owner_of. destruct (nth o (bk_allocs b) None); [eauto | discriminate]. Qed.

(* autoAssign *)
Lemma blk_auto_assign_trans b num h tag ac host b' ips :
  blk_auto_assign b num h tag ac host = Some (b', ips) ->
  btrans b b' /\
  (I_b b -> forall a, In a ips -> exists o, a = (bk_cidr b' + N.of_nat o)%N /\
                          owner_of b' o = Some {| at_handle := Some h; at_tag := tag |}).
Proof.
  unfold blk_auto_assign. destruct (negb (aff_check_ok b ac host)); [discriminate|].
  destruct (firstn num (bk_unalloc b)) as [|o0 take'] eqn:TK.
  - intros X; inversion X; subst. split; [apply btrans_refl|]. intros _ a [].
  - remember (o0 :: take') as take.
    destruct (find_or_add_attr (bk_attrs b) {| at_handle := Some h; at_tag := tag |}) as [attrs idx] eqn:FA.
    intros X; inversion X; subst b' ips; clear X.
    destruct (find_or_add_spec _ _ _ _ FA) as (NI & IL & OLD & LE).
    assert (TKIN : forall o, In o take -> In o (bk_unalloc b)).
    { intros o Hin. rewrite <- TK in Hin. eapply In_firstn; eauto. }
    split.
    + split; [reflexivity|]. intros (ND & FREE & VAL).
      destruct (NoDup_firstn_skipn _ num ND) as [ND' DISJ]. rewrite TK in DISJ.
      split.
      * split; [|split]; simpl.
        -- auto.
        -- intros o Hin. rewrite nth_fold_set, fold_set_length.
           destruct (FREE o (In_skipn _ _ _ Hin)) as [FN FL]. split; auto.
           destruct (existsb (Nat.eqb o) take) eqn:EX; simpl; auto.
           apply existsb_eqb_In in EX. exfalso; eapply DISJ; eauto.
        -- intros o j. rewrite nth_fold_set.
           destruct (existsb (Nat.eqb o) take && Nat.ltb o (length (bk_allocs b))) eqn:EX.
           ++ intros X; inversion X; subst; auto.
           ++ intros X. apply VAL in X. lia.
      * intros o x OW. destruct (owner_of_Some _ _ _ OW) as (j & NJ & AJ).
        left. unfold owner_of; simpl. rewrite nth_fold_set.
        destruct (existsb (Nat.eqb o) take) eqn:EX; simpl.
        -- apply existsb_eqb_In in EX. destruct (FREE o (TKIN _ EX)) as [FN _]. congruence.
        -- rewrite NJ. rewrite OLD; auto. eapply VAL; eauto.
    + intros (ND & FREE & VAL) a Hin. apply in_map_iff in Hin. destruct Hin as (o & <- & Hin).
      exists o; split; auto. unfold owner_of; simpl. rewrite nth_fold_set.
      destruct (FREE o (TKIN _ Hin)) as [_ FL].
      assert (EX : existsb (Nat.eqb o) take = true) by (apply existsb_eqb_In; auto).
      rewrite EX. apply Nat.ltb_lt in FL. rewrite FL. simpl. auto.
Qed.

(* assign *)
Lemma blk_assign_trans b a h tag ac host b' :
  blk_assign b a h tag ac host = inl b' ->
  btrans b b' /\ owner_of b' (ordinal_of b a) = Some {| at_handle := Some h; at_tag := tag |} \/
  btrans b b' /\ (length (bk_allocs b) <= ordinal_of b a)%nat.
Proof.
  unfold blk_assign. destruct (negb (aff_check_ok b ac host)); [discriminate|].
  set (o := ordinal_of b a).
  destruct (nth o (bk_allocs b) None) eqn:NO; [discriminate|].
  destruct (find_or_add_attr (bk_attrs b) {| at_handle := Some h; at_tag := tag |}) as [attrs idx] eqn:FA.
  intros X; inversion X; subst b'; clear X.
  destruct (find_or_add_spec _ _ _ _ FA) as (NI & IL & OLD & LE).
  assert (BT : btrans b {| bk_cidr := bk_cidr b; bk_aff := bk_aff b;
                           bk_allocs := set_nth_opt (bk_allocs b) o (Some idx);
                           bk_unalloc := filter (fun x : nat => negb (Nat.eqb x o)) (bk_unalloc b);
                           bk_attrs := attrs; bk_seq := bk_seq b;
                           bk_seqs := seqs_set (bk_seqs b) o (bk_seq b) |}).
  { split; [reflexivity|]. intros (ND & FREE & VAL). split.
    - split; [|split]; simpl.
      + apply NoDup_filter; auto.
      + intros o' Hin. apply filter_In in Hin. destruct Hin as [Hin NE].
        rewrite nth_set_nth_opt, set_nth_opt_length.
        destruct (FREE _ Hin) as [FN FL]. split; auto.
        destruct (Nat.eqb o o') eqn:E; simpl; auto.
        apply Nat.eqb_eq in E; subst. rewrite Nat.eqb_refl in NE; discriminate.
      + intros o' j. rewrite nth_set_nth_opt.
        destruct (Nat.eqb o o' && Nat.ltb o (length (bk_allocs b))).
        * intros X; inversion X; subst; auto.
        * intros X; apply VAL in X; lia.
    - intros o' x OW. destruct (owner_of_Some _ _ _ OW) as (j & NJ & AJ).
      left. unfold owner_of; simpl. rewrite nth_set_nth_opt.
      destruct (Nat.eqb o o') eqn:E; simpl.
      + apply Nat.eqb_eq in E; subst. congruence.
      + rewrite NJ. rewrite OLD; auto. eapply VAL; eauto. }
  destruct (Nat.ltb o (length (bk_allocs b))) eqn:L.
  - left. split; auto. unfold owner_of; simpl. rewrite nth_set_nth_opt, Nat.eqb_refl, L. simpl. auto.
  - right. split; auto. apply Nat.ltb_ge in L; auto.
Qed.

(* attribute compaction keeps every owner *)
Lemma kept_nth (used : nat -> bool) : forall (l : list attr) s j,
  used (s + j)%nat = true -> (j < length l)%nat ->
  nth_error (map snd (filter (fun p => used (fst p)) (combine (seq s (length l)) l)))
            (length (filter used (seq s j))) = nth_error l j.
Proof.
  induction l as [|a l IH]; intros s j U L; simpl in L; [lia|].
  simpl. destruct j as [|j].
  - simpl. rewrite Nat.add_0_r in U. rewrite U. simpl. auto.
  - simpl. destruct (used s) eqn:US; simpl.
    + apply IH; [|lia]. replace (S s + j)%nat with (s + S j)%nat by lia; auto.
    + apply IH; [|lia]. replace (S s + j)%nat with (s + S j)%nat by lia; auto.
Qed.

Lemma attr_used_nth allocs o j : nth o allocs None = Some j -> attr_used allocs j = true.
Proof.
  intros N. unfold attr_used. apply existsb_exists. exists (Some j). split.
  - assert (o < length allocs)%nat.
    { destruct (Nat.lt_ge_cases o (length allocs)); auto. rewrite nth_overflow in N; [discriminate|auto]. }
    rewrite <- N. apply nth_In; auto.
  - apply Nat.eqb_refl.
Qed.

Lemma owner_compact b o :
  (forall o j, nth o (bk_allocs b) None = Some j -> (j < length (bk_attrs b))%nat) ->
  owner_of (compact b) o = owner_of b o.
Proof.
  intros VAL. unfold owner_of, compact; simpl.
  rewrite (map_nth (fun a => match a with Some j => Some (rank_used (bk_allocs b) j) | None => None end)
             (bk_allocs b) None o).
  destruct (nth o (bk_allocs b) None) as [j|] eqn:N; auto.
  unfold rank_used. apply (kept_nth (attr_used (bk_allocs b)) (bk_attrs b) 0 j).
  - simpl. eapply attr_used_nth; eauto.
  - eapply VAL; eauto.
Qed.

Lemma I_b_compact b : I_b b -> I_b (compact b).
Proof.
  intros (ND & FREE & VAL). split; [|split]; simpl; auto.
  - intros o Hin. destruct (FREE o Hin) as [FN FL]. rewrite map_length. split; auto.
    rewrite (map_nth (fun a => match a with Some j => Some (rank_used (bk_allocs b) j) | None => None end)
               (bk_allocs b) None o). rewrite FN; auto.
  - intros o j'.
    rewrite (map_nth (fun a => match a with Some j => Some (rank_used (bk_allocs b) j) | None => None end)
               (bk_allocs b) None o).
    destruct (nth o (bk_allocs b) None) as [j|] eqn:N; [|discriminate].
    intros X; inversion X; subst j'; clear X.
    apply nth_error_Some. unfold rank_used.
    rewrite (kept_nth (attr_used (bk_allocs b)) (bk_attrs b) 0 j).
    + apply nth_error_Some. eapply VAL; eauto.
    + simpl. eapply attr_used_nth; eauto.
    + eapply VAL; eauto.
Qed.

(* release of ordinals that are all allocated *)
Lemma free_ordinals_trans b ords :
  (forall o, In o ords -> nth o (bk_allocs b) None <> None) ->
  btrans b (free_ordinals b ords).
Proof.
  intros ALLOC. split; [reflexivity|]. intros IB. destruct IB as (ND & FREE & VAL).
  unfold free_ordinals.
  set (ords' := filter (fun o => existsb (Nat.eqb o) ords) (seq 0 (length (bk_allocs b)))).
  set (mid := {| bk_cidr := bk_cidr b; bk_aff := bk_aff b;
                 bk_allocs := fold_left (fun al o => set_nth_opt al o None) ords' (bk_allocs b);
                 bk_unalloc := bk_unalloc b ++ ords'; bk_attrs := bk_attrs b; bk_seq := bk_seq b;
                 bk_seqs := fold_left seqs_del ords' (bk_seqs b) |}).
  assert (O'IN : forall o, In o ords' -> In o ords /\ (o < length (bk_allocs b))%nat).
  { intros o Hin. apply filter_In in Hin. destruct Hin as [S E]. apply in_seq in S.
    split; [|lia]. apply existsb_eqb_In in E; auto. }
  assert (IM : I_b mid).
  { split; [|split]; simpl.
    - apply NoDup_app; auto.
      + apply NoDup_filter. apply seq_NoDup.
      + intros o H1 H2. destruct (O'IN _ H2) as [H3 _]. destruct (FREE _ H1) as [FN _].
        apply (ALLOC _ H3); auto.
    - intros o Hin. rewrite nth_fold_set, fold_set_length. apply in_app_or in Hin. destruct Hin as [Hin|Hin].
      + destruct (FREE _ Hin) as [FN FL]. split; auto.
        destruct (existsb (Nat.eqb o) ords' && Nat.ltb o (length (bk_allocs b))); auto.
      + destruct (O'IN _ Hin) as [_ L]. split; auto.
        assert (EX : existsb (Nat.eqb o) ords' = true) by (apply existsb_eqb_In; auto).
        rewrite EX. apply Nat.ltb_lt in L. rewrite L. auto.
    - intros o j. rewrite nth_fold_set.
      destruct (existsb (Nat.eqb o) ords' && Nat.ltb o (length (bk_allocs b))); [discriminate|].
      apply VAL. }
  split; [apply I_b_compact; auto|].
  intros o x OW. rewrite owner_compact by (destruct IM as (_ & _ & V); exact V).
  unfold owner_of, mid; simpl. rewrite nth_fold_set.
  destruct (existsb (Nat.eqb o) ords' && Nat.ltb o (length (bk_allocs b))); auto.
Qed.


Lemma blk_release_trans b opts b' un cnt : blk_release b opts = inl (b', un, cnt) -> btrans b b'.
Proof.
  unfold blk_release.
  match goal with |- context [if ?c then _ else _] => destruct c end; [discriminate|].
  match goal with |- context [match ?l with [] => _ | _ :: _ => _ end] => destruct l as [|a0 al] eqn:AL end.
  - intros X; inversion X; subst. apply btrans_refl.
  - intros X; inversion X; subst. apply free_ordinals_trans.
    intros o Hin. change (In o (map (ordinal_of b) (a0 :: al))) in Hin.
    apply in_map_iff in Hin. destruct Hin as (a & <- & Hin).
    rewrite <- AL in Hin. apply filter_In in Hin. destruct Hin as [_ OW].
    destruct (owner_of b (ordinal_of b a)) eqn:OO; [|discriminate].
    destruct (owner_of_Some _ _ _ OO) as (j & NJ & _). congruence.
Qed.

Lemma blk_release_by_handle_trans b h b' n : blk_release_by_handle b h = (b', n) -> btrans b b'.
Proof.
  unfold blk_release_by_handle.
  match goal with |- context [match ?l with [] => _ | _ :: _ => _ end] => destruct l as [|a0 al] eqn:AL end.
  - intros X; inversion X; subst. apply btrans_refl.
  - intros X; inversion X; subst. apply free_ordinals_trans.
    intros o Hin. rewrite <- AL in Hin. apply filter_In in Hin. destruct Hin as [_ OW].
    destruct (owner_of b o) eqn:OO; [|discriminate].
    destruct (owner_of_Some _ _ _ OO) as (j & NJ & _). congruence.
Qed.

Lemma btrans_clear_aff b : btrans b (clear_aff b).
Proof. split; [reflexivity|]. intros IB. split; [exact IB|]. intros o x OW. left. exact OW. Qed.
