(* C19 — running the model under an explicit schedule (client index, fault) and looking at quiescent states;
   used to exhibit, by computation, runs of the UNFIXED behaviours in which the handle records and the block
   records disagree although no operation is in flight and nobody crashed. *)
From Coq Require Import List NArith Bool Arith.
From Verif.Common Require Import Cas.
From Verif.C19 Require Import Model Spec.
Import ListNotations.
Open Scope N_scope.

Record rclient := {
  rc_host : N; rc_cur : option (prog result); rc_todo : list op; rc_inflight : bool; rc_crashed : bool;
  rc_results : list result
}.

Definition rstart (cf : config) (hc : N * list op) : rclient :=
  match snd hc with
  | [] => {| rc_host := fst hc; rc_cur := None; rc_todo := []; rc_inflight := false; rc_crashed := false; rc_results := [] |}
  | o :: t => {| rc_host := fst hc; rc_cur := Some (compile cf (fst hc) o); rc_todo := t;
                 rc_inflight := false; rc_crashed := false; rc_results := [] |}
  end.

Definition rstep (cf : config) (st : store * list rclient) (ev : nat * fault) : store * list rclient :=
  let '(s, cls) := st in
  match nth_error cls (fst ev) with
  | Some cl =>
    if rc_crashed cl then st else
    match rc_cur cl with
    | Some (Act rq k as p) =>
      let '(s', cst, _) := client_step s p (snd ev) in
      match cst with
      | CCrashed => (s', set_nth_opt cls (fst ev)
                       {| rc_host := rc_host cl; rc_cur := None; rc_todo := rc_todo cl; rc_inflight := true;
                          rc_crashed := true; rc_results := rc_results cl |})
      | CRun p' =>
          let '(cur, todo, done) := settle cf (S (length (rc_todo cl))) (rc_host cl) p' (rc_todo cl) [] in
          (s', set_nth_opt cls (fst ev)
                 {| rc_host := rc_host cl; rc_cur := cur; rc_todo := todo;
                    rc_inflight := match done with [] => true | _ => false end;
                    rc_crashed := false; rc_results := rc_results cl ++ done |})
      end
    | _ => st
    end
  | None => st
  end.

Definition run_sched (cf : config) (clients : list (N * list op)) (evs : list (nat * fault)) : store * list rclient :=
  fold_left (rstep cf) evs (init_store, map (rstart cf) clients).

Definition quiescent (cls : list rclient) : bool :=
  forallb (fun c => negb (rc_inflight c) && negb (rc_crashed c)) cls.

(* the run ends in a quiescent state whose handle records disagree with the block records *)
Definition disagrees (cf : config) (clients : list (N * list op)) (evs : list (nat * fault)) : bool :=
  let '(s, cls) := run_sched cf clients evs in
  quiescent cls && negb (handles_agree (store_dump s)).
Definition agrees (cf : config) (clients : list (N * list op)) (evs : list (nat * fault)) : bool :=
  let '(s, cls) := run_sched cf clients evs in
  quiescent cls && handles_agree (store_dump s).

Definition cfgW (b1 b2 b3 : bool) : config :=
  {| cf_strict := false; cf_autoalloc := true; cf_maxblocks := 20; cf_pool_base := 167772160; cf_nblocks := 2;
     cf_bsize := 2; cf_retries := 100; cf_starts := [(0, 0%nat)];
     cf_count_requested := b1; cf_aip_leak := b2; cf_stale_cache := b3 |}.

(* W1: one client asks for 3 addresses; the first block has 2 free.  Unfixed: the handle is incremented by the
   requested 3 for the first block. *)
Definition w1_clients : list (N * list op) := [(0, [OpAutoAssign 1 1 3])].
Definition w1_sched : list (nat * fault) := repeat (0%nat, FNone) 60.

(* W2: one client, AssignIP; the block update (7th access) hits a write conflict and is retried. *)
Definition w2_clients : list (N * list op) := [(0, [OpAssignIP 1 1 167772160])].
Definition w2_sched : list (nat * fault) := repeat (0%nat, FNone) 6 ++ [(0%nat, FConflict)] ++ repeat (0%nat, FNone) 30.

(* W3: client 2 lists the handles for a 3-address release, then client 1 assigns the address with a handle that
   already exists, then client 2 releases it and decrements using its stale copy of the handle. *)
Definition w3_clients : list (N * list op) :=
  [(0, [OpAutoAssign 1 1 2]); (0, [OpAutoAssign 1 1 1]);
   (0, [OpRelease [(167772162, None); (167772162, None); (167772162, None)] []])].
Definition w3_sched : list (nat * fault) :=
  repeat (0%nat, FNone) 60 ++ [(2%nat, FNone)] ++ repeat (1%nat, FNone) 60 ++ repeat (2%nat, FNone) 60.

Lemma w1_refutes : disagrees (cfgW true false false) w1_clients w1_sched = true.
Proof. vm_compute. reflexivity. Qed.
Lemma w2_refutes : disagrees (cfgW false true false) w2_clients w2_sched = true.
Proof. vm_compute. reflexivity. Qed.
Lemma w3_refutes : disagrees (cfgW false false true) w3_clients w3_sched = true.
Proof. vm_compute. reflexivity. Qed.
Lemma w123_fixed : agrees (cfgW false false false) w1_clients w1_sched = true /\
                   agrees (cfgW false false false) w2_clients w2_sched = true /\
                   agrees (cfgW false false false) w3_clients w3_sched = true.
Proof. vm_compute. auto. Qed.

(* non-vacuity: in the fixed model the W1 request is fully served from two blocks and the run is quiescent *)
Example w1_fixed_result :
  map rc_results (snd (run_sched (cfgW false false false) w1_clients w1_sched))
  = [[ResIPs [167772160; 167772161; 167772162] ENone]].
Proof. vm_compute. reflexivity. Qed.
