(* C19 — the handle/block counting protocol (increment handle -> CAS block -> roll back on failure;
   CAS block -> decrement handle on release), abstracted to counters, for any number of clients, any
   interleaving and crashes.

   alloc h c  = number of ordinals of block c owned by handle h (changed only by a successful block CAS)
   hcnt  h c  = handle h's recorded count for block c          (changed only by a successful handle CAS)
   Every client is in one of these protocol states:
     PIdle                      between operations, or in an operation that has not touched the counters
     PInc h c n                 has incremented hcnt h c by n and is about to CAS the block
     POwe l                     owes the decrements listed in l (after a failed block CAS, or after a
                                successful release CAS)
     PDead l                    crashed (or gave up retrying) while owing l
   Theorem handle_ledger: in every reachable state  hcnt h c = alloc h c + sum of all clients' debts,
   hence (handle_agrees_quiescent) when every client is PIdle the handle records equal the block records,
   and (decrement_never_underflows) an owed decrement can always be applied.

   The step PInc h c n --cas_ok--> PIdle adds exactly n to alloc: that is the FIXED code (increment by the
   number of addresses actually taken).  Model.v with cf_count_requested / cf_aip_leak / cf_stale_cache = true
   does not follow this protocol; Props.v refutes handle agreement for each of them by a concrete run. *)
From Coq Require Import List NArith Bool Arith Lia.
Import ListNotations.

Definition ctr := N -> N -> nat.
Definition cadd (f : ctr) (h c : N) (n : nat) : ctr :=
  fun h' c' => if (N.eqb h' h && N.eqb c' c)%bool then (f h' c' + n)%nat else f h' c'.
Definition csub (f : ctr) (h c : N) (n : nat) : ctr :=
  fun h' c' => if (N.eqb h' h && N.eqb c' c)%bool then (f h' c' - n)%nat else f h' c'.

Definition owed := list (N * N * nat).
Fixpoint owed_at (l : owed) (h c : N) : nat :=
  match l with
  | [] => O
  | (h', c', n) :: t => if (N.eqb h h' && N.eqb c c')%bool then (n + owed_at t h c)%nat else owed_at t h c
  end.

Inductive pstate := PIdle | PInc (h c : N) (n : nat) | POwe (l : owed) | PDead (l : owed).

Definition debt (p : pstate) (h c : N) : nat :=
  match p with
  | PIdle => O
  | PInc h' c' n => if (N.eqb h h' && N.eqb c c')%bool then n else O
  | POwe l | PDead l => owed_at l h c
  end.

Record pst := { p_alloc : ctr; p_hcnt : ctr; p_clients : list pstate }.

Fixpoint set_nth {A} (l : list A) (n : nat) (a : A) : list A :=
  match l, n with
  | [], _ => []
  | _ :: t, O => a :: t
  | x :: t, S n' => x :: set_nth t n' a
  end.

Fixpoint total_debt (ps : list pstate) (h c : N) : nat :=
  match ps with [] => O | p :: t => (debt p h c + total_debt t h c)%nat end.

Fixpoint release_all (f : ctr) (l : owed) : ctr :=
  match l with [] => f | (h, c, n) :: t => release_all (csub f h c n) t end.
Fixpoint can_release (f : ctr) (l : owed) : Prop :=
  match l with [] => True | (h, c, n) :: t => (n <= f h c)%nat /\ can_release (csub f h c n) t end.

Inductive pstep : pst -> pst -> Prop :=
| s_inc s i h c n : nth_error (p_clients s) i = Some PIdle ->
    pstep s {| p_alloc := p_alloc s; p_hcnt := cadd (p_hcnt s) h c n; p_clients := set_nth (p_clients s) i (PInc h c n) |}
| s_cas_ok s i h c n : nth_error (p_clients s) i = Some (PInc h c n) ->
    pstep s {| p_alloc := cadd (p_alloc s) h c n; p_hcnt := p_hcnt s; p_clients := set_nth (p_clients s) i PIdle |}
| s_cas_fail s i h c n : nth_error (p_clients s) i = Some (PInc h c n) ->
    pstep s {| p_alloc := p_alloc s; p_hcnt := p_hcnt s; p_clients := set_nth (p_clients s) i (POwe [(h, c, n)]) |}
| s_dec s i h c n l : nth_error (p_clients s) i = Some (POwe ((h, c, n) :: l)) ->
    pstep s {| p_alloc := p_alloc s; p_hcnt := csub (p_hcnt s) h c n;
               p_clients := set_nth (p_clients s) i (match l with [] => PIdle | _ => POwe l end) |}
| s_release_ok s i l : nth_error (p_clients s) i = Some PIdle -> can_release (p_alloc s) l ->
    pstep s {| p_alloc := release_all (p_alloc s) l; p_hcnt := p_hcnt s;
               p_clients := set_nth (p_clients s) i (match l with [] => PIdle | _ => POwe l end) |}
| s_crash s i p : nth_error (p_clients s) i = Some p ->
    pstep s {| p_alloc := p_alloc s; p_hcnt := p_hcnt s;
               p_clients := set_nth (p_clients s) i (PDead (match p with
                                                            | PIdle => [] | PInc h c n => [(h, c, n)]
                                                            | POwe l | PDead l => l end)) |}.

Inductive preach (n : nat) : pst -> Prop :=
| r_init : preach n {| p_alloc := fun _ _ => O; p_hcnt := fun _ _ => O; p_clients := repeat PIdle n |}
| r_step s s' : preach n s -> pstep s s' -> preach n s'.

Definition ledger (s : pst) : Prop :=
  forall h c, p_hcnt s h c = (p_alloc s h c + total_debt (p_clients s) h c)%nat.

Lemma total_debt_set ps i p p' h c : nth_error ps i = Some p ->
  exists rest, total_debt ps h c = (debt p h c + rest)%nat /\
               total_debt (set_nth ps i p') h c = (debt p' h c + rest)%nat.
Proof.
  revert i; induction ps as [|q t IH]; intros [|i] NE; simpl in *; try discriminate.
  - inversion NE; subst. exists (total_debt t h c). split; auto.
  - destruct (IH _ NE) as (rest & A & B). exists (debt q h c + rest)%nat. rewrite A, B. split; lia.
Qed.

Lemma release_all_spec l : forall f h c, can_release f l ->
  (f h c = release_all f l h c + owed_at l h c)%nat.
Proof.
  induction l as [|[[h' c'] n] t IH]; intros f h c CR; simpl in *; [lia|].
  destruct CR as [LE CR]. pose proof (IH _ h c CR) as X.
  assert (CS : csub f h' c' n h c = if (N.eqb h h' && N.eqb c c')%bool then (f h c - n)%nat else f h c) by reflexivity.
  rewrite CS in X. clear CS. revert X.
  destruct (N.eqb h h' && N.eqb c c')%bool eqn:E; intros X.
  - apply andb_true_iff in E. destruct E as [E1 E2]. apply N.eqb_eq in E1, E2. subst. lia.
  - lia.
Qed.

Lemma debt_owe_or_idle l h c : debt (match l with [] => PIdle | _ => POwe l end) h c = owed_at l h c.
Proof. destruct l; reflexivity. Qed.

Lemma pstep_ledger s s' : ledger s -> pstep s s' -> ledger s'.
Proof.
  intros L ST h' c'. specialize (L h' c'). inversion ST; subst; simpl.
  - destruct (total_debt_set _ _ _ (PInc h c n) h' c' H) as (rest & A & B). rewrite B. rewrite A in L.
    unfold cadd. simpl in *. destruct (N.eqb h' h && N.eqb c' c)%bool; lia.
  - destruct (total_debt_set _ _ _ PIdle h' c' H) as (rest & A & B). rewrite B. rewrite A in L.
    unfold cadd. simpl in *. destruct (N.eqb h' h && N.eqb c' c)%bool; lia.
  - destruct (total_debt_set _ _ _ (POwe [(h, c, n)]) h' c' H) as (rest & A & B). rewrite B. rewrite A in L.
    simpl in *. destruct (N.eqb h' h && N.eqb c' c)%bool; lia.
  - destruct (total_debt_set _ _ _ (match l with [] => PIdle | _ => POwe l end) h' c' H) as (rest & A & B).
    rewrite B, debt_owe_or_idle. rewrite A in L. unfold csub. simpl in *.
    destruct (N.eqb h' h && N.eqb c' c)%bool; lia.
  - destruct (total_debt_set _ _ _ (match l with [] => PIdle | _ => POwe l end) h' c' H) as (rest & A & B).
    rewrite B, debt_owe_or_idle. rewrite A in L. simpl in *.
    pose proof (release_all_spec l _ h' c' H0). lia.
  - destruct (total_debt_set _ _ _ (PDead (match p with PIdle => [] | PInc h c n => [(h, c, n)]
                                                   | POwe l | PDead l => l end)) h' c' H) as (rest & A & B).
    rewrite B. rewrite A in L. destruct p; simpl in *; try lia.
    destruct (N.eqb h' h && N.eqb c' c)%bool; lia.
Qed.

Theorem handle_ledger n s : preach n s -> ledger s.
Proof.
  induction 1.
  - intros h c; simpl. induction n; simpl; auto.
  - eapply pstep_ledger; eauto.
Qed.

Lemma total_debt_idle ps h c : Forall (fun p => p = PIdle) ps -> total_debt ps h c = O.
Proof. induction 1; simpl; auto. subst; simpl; auto. Qed.

(* when no operation is in flight and no client has crashed, handle records equal block records *)
Theorem handle_agrees_quiescent n s : preach n s -> Forall (fun p => p = PIdle) (p_clients s) ->
  forall h c, p_hcnt s h c = p_alloc s h c.
Proof.
  intros R Q h c. rewrite (handle_ledger n s R h c), (total_debt_idle _ h c Q). lia.
Qed.

(* an owed decrement never finds the handle short *)
Theorem decrement_never_underflows n s i h c k l : preach n s ->
  nth_error (p_clients s) i = Some (POwe ((h, c, k) :: l)) -> (k <= p_hcnt s h c)%nat.
Proof.
  intros R NE. pose proof (handle_ledger n s R h c) as L.
  destruct (total_debt_set _ _ _ PIdle h c NE) as (rest & A & _). rewrite A in L. simpl in L.
  rewrite !N.eqb_refl in L. simpl in L. lia.
Qed.

(* at every moment, crashes included, a handle's count for a block is at least the number of ordinals of the
   block the handle owns: an owned address is always reachable from its handle (ReleaseByHandle finds it) *)
Theorem handle_never_undercounts n s : preach n s -> forall h c, (p_alloc s h c <= p_hcnt s h c)%nat.
Proof. intros R h c. rewrite (handle_ledger n s R h c). lia. Qed.

(* non-vacuity: two clients; client 0 increments and allocates 2, client 1 increments, fails its CAS, and has
   not yet rolled back: the ledger holds with a non-zero debt *)
Example ledger_example :
  exists s, preach 2 s /\ p_hcnt s 1%N 7%N = 3%nat /\ p_alloc s 1%N 7%N = 2%nat /\
            total_debt (p_clients s) 1%N 7%N = 1%nat.
Proof.
  eexists. split.
  - eapply r_step; [eapply r_step; [eapply r_step; [eapply r_step; [apply r_init|]|]|]|].
    + apply (s_inc _ 0 1%N 7%N 2). reflexivity.
    + apply (s_cas_ok _ 0 1%N 7%N 2). reflexivity.
    + apply (s_inc _ 1 1%N 7%N 1). reflexivity.
    + apply (s_cas_fail _ 1 1%N 7%N 1). reflexivity.
  - simpl. repeat split; reflexivity.
Qed.
