(* C19 — the ledger theorem for the system of Proofs.v (any number of clients running the programs of the fixed
   code, every interleaving, injected conflicts, crashes):
       handle.Block[c] = #ordinals of c owned by the handle + sum of the clients' debts
   hence handles never under-count, and when every client has completed its operations (and met fewer than
   cf_retries - 1 conflicts, so that no roll-back was abandoned) handle records equal block records. *)
From Coq Require Import List NArith Bool Arith Lia.
From Verif.Common Require Import Cas.
From Verif.C19 Require Import Model ModelV BlockLemmas Spec Count Debt Proofs.
Import ListNotations.

Notation lookup := (@Cas.lookup key value key_eqb).
Notation insert := (@Cas.insert key value key_eqb key_ltb).
Notation remove := (@Cas.remove key value key_eqb).

(* ------------------------------------------------------------------ lookups after insert / remove *)
Lemma key_eqb_refl k : key_eqb k k = true.
Proof. apply key_eqb_eq; auto. Qed.
Lemma key_eqb_neq a b : a <> b -> key_eqb a b = false.
Proof. intros NE. destruct (key_eqb a b) eqn:E; auto. apply key_eqb_eq in E; congruence. Qed.

Lemma lookup_replace es n k : lookup es (e_key n) <> None ->
  lookup (Cas.replace key_eqb es n) k = if key_eqb (e_key n) k then Some n else lookup es k.
Proof.
  induction es as [|a es IH]; simpl; [congruence|].
  destruct (key_eqb (e_key a) (e_key n)) eqn:E; simpl.
  - intros _. apply key_eqb_eq in E. rewrite E. destruct (key_eqb (e_key n) k); auto.
  - intros X. rewrite (IH X). destruct (key_eqb (e_key a) k) eqn:E2; auto.
    destruct (key_eqb (e_key n) k) eqn:E3; auto.
    apply key_eqb_eq in E2, E3. assert (X2 : e_key a = e_key n) by congruence. apply key_eqb_eq in X2. congruence.
Qed.

Lemma lookup_sinsert es n k : lookup es (e_key n) = None ->
  lookup (Cas.sinsert key_ltb es n) k = if key_eqb (e_key n) k then Some n else lookup es k.
Proof.
  induction es as [|a es IH]; simpl; auto.
  destruct (key_eqb (e_key a) (e_key n)) eqn:E; [discriminate|]. intros X.
  destruct (key_ltb (e_key n) (e_key a)); simpl; auto.
  rewrite (IH X). destruct (key_eqb (e_key a) k) eqn:E2; auto.
  destruct (key_eqb (e_key n) k) eqn:E3; auto.
  apply key_eqb_eq in E2, E3. assert (X2 : e_key a = e_key n) by congruence. apply key_eqb_eq in X2. congruence.
Qed.

Lemma lookup_insert es n k : lookup (insert es n) k = if key_eqb (e_key n) k then Some n else lookup es k.
Proof.
  unfold Cas.insert. destruct (lookup es (e_key n)) eqn:E.
  - apply lookup_replace. congruence.
  - apply lookup_sinsert; auto.
Qed.

Lemma lookup_In_key es k e : lookup es k = Some e -> In e es /\ e_key e = k.
Proof.
  induction es as [|a es IH]; simpl; [discriminate|].
  destruct (key_eqb (e_key a) k) eqn:E.
  - intros X; inversion X; subst. split; auto. apply key_eqb_eq; auto.
  - intros X; destruct (IH X); auto.
Qed.

Lemma lookup_remove es k k' : NoDup (map (@e_key key value) es) ->
  lookup (remove es k) k' = if key_eqb k k' then None else lookup es k'.
Proof.
  induction es as [|a es IH]; simpl; intros ND; [destruct (key_eqb k k'); auto|].
  inversion ND; subst. destruct (key_eqb (e_key a) k) eqn:E.
  - apply key_eqb_eq in E. subst k. destruct (key_eqb (e_key a) k') eqn:E2; auto.
    apply key_eqb_eq in E2. subst k'.
    destruct (lookup es (e_key a)) eqn:L; auto. apply lookup_In_key in L. destruct L as [L1 L2].
    exfalso. apply H1. rewrite <- L2. apply in_map; auto.
  - simpl. rewrite IH; auto. destruct (key_eqb (e_key a) k') eqn:E2; auto.
    destruct (key_eqb k k') eqn:E3; auto. apply key_eqb_eq in E2, E3. assert (X2 : e_key a = k) by congruence. apply key_eqb_eq in X2. congruence.
Qed.

(* ------------------------------------------------------------------ the two counts read off a store *)
Definition hcnt_of (s : store) (h c : N) : N :=
  match lookup (st_ents s) (KHandle h) with
  | Some e => match e_val e with VHandle m => hcount m c | _ => 0%N end
  | None => 0%N
  end.
Definition alloc_of (s : store) (h c : N) : N :=
  match lookup (st_ents s) (KBlock c) with
  | Some e => match e_val e with VBlock b => count_in_block b h | _ => 0%N end
  | None => 0%N
  end.

Fixpoint dsum (ds : list ctr) (h c : N) : N :=
  match ds with [] => 0%N | d :: t => (d h c + dsum t h c)%N end.

Definition ledger (s : store) (ds : list ctr) : Prop :=
  forall h c, hcnt_of s h c = (alloc_of s h c + dsum ds h c)%N.

Lemma dsum_set (ds : list ctr) i d d' h c : nth_error ds i = Some d ->
  exists rest, dsum ds h c = (d h c + rest)%N /\ dsum (set_nth_opt ds i d') h c = (d' h c + rest)%N.
Proof.
  revert i; induction ds as [|q t IH]; intros [|i] NE; simpl in *; try discriminate.
  - inversion NE; subst. exists (dsum t h c). split; auto.
  - destruct (IH _ NE) as (rest & A & B). exists (q h c + rest)%N. rewrite A, B. split; lia.
Qed.

Section Ledger.
  Variable cf : config.
  Variable fx : bool.
  Hypothesis F1 : cf_count_requested cf = false.
  Hypothesis F2 : cf_aip_leak cf = false.
  Hypothesis F3 : cf_stale_cache cf = false.
  Hypothesis BS : cf_bsize cf <> O.

  Notation hext := (@Cas.hext key value).
  Notation hist_ok2 := (@Cas.hist_ok key value (VI2 cf)).
  Notation justified2 := (@Cas.justified key value lopt (create_ok2 cf) update_ok2 delete_ok2).
  Notation store_hist := (@Cas.store_hist key value).
  Notation exec := (@Cas.exec key value lopt key_eqb key_ltb lmatch).

  (* what one executed request does to the two counts, against the debt step the program logic chose *)
  Lemma exec_ledger s H rq d d' :
    store_hist s H -> NoDup (Cas.keys s) -> justified2 H rq ->
    dstep H d rq (snd (exec s rq)) d' ->
    forall h c, (hcnt_of (fst (exec s rq)) h c + alloc_of s h c + d h c =
                 hcnt_of s h c + alloc_of (fst (exec s rq)) h c + d' h c)%N.
  Proof.
    intros [SE SB] ND J DS h c.
    assert (KNOWN : forall k e0, lookup (st_ents s) k = Some e0 -> H (e_rev e0) = Some (k, e_val e0)).
    { intros k e0 L. apply lookup_In_key in L. destruct L as [IN EK]. destruct (SE _ IN) as [EI _].
      unfold Cas.entry_in in EI. rewrite EK in EI. exact EI. }
    destruct rq as [k|l|k v|k v rev|k rev]; simpl in *.
    - destruct (lookup (st_ents s) k); simpl in DS; subst; lia.
    - subst; lia.
    - destruct (lookup (st_ents s) k) eqn:L; simpl in *; [subst; lia|].
      unfold hcnt_of, alloc_of. simpl. rewrite !lookup_insert. simpl.
      destruct k as [c0|h0|host0 c0]; simpl in *.
      + destruct v as [b| |]; simpl in *; try contradiction. destruct DS as [D1 D2].
        destruct (N.eqb c0 c) eqn:E.
        * apply N.eqb_eq in E; subst c0. simpl. unfold alloc_of in *. rewrite L. specialize (D1 h). lia.
        * rewrite (D2 h c) by (intros ->; rewrite N.eqb_refl in E; discriminate). lia.
      + destruct v as [|s0|m]; simpl in *; try contradiction. destruct DS as [D1 D2].
        destruct (N.eqb h0 h) eqn:E.
        * apply N.eqb_eq in E; subst h0. simpl. rewrite L. specialize (D1 c). simpl in D1. lia.
        * rewrite (D2 h c) by (intros ->; rewrite N.eqb_refl in E; discriminate). lia.
      + subst. lia.
    - destruct (lookup (st_ents s) k) as [e0|] eqn:L; simpl in *; [|subst; lia].
      destruct (N.eqb (e_rev e0) rev) eqn:Q; simpl in *; [|subst; lia].
      apply N.eqb_eq in Q. subst rev. pose proof (KNOWN _ _ L) as KN.
      unfold hcnt_of, alloc_of. simpl. rewrite !lookup_insert. simpl.
      destruct k as [c0|h0|host0 c0]; simpl in *.
      + destruct v as [b| |]; simpl in *;
          try (exfalso; destruct J as [J|(v0 & _ & J)]; [specialize (J (VAff APending)); exact J | destruct v0; exact J]).
        destruct DS as (b0 & HB & D1 & D2). rewrite KN in HB. inversion HB as [EV].
        destruct (N.eqb c0 c) eqn:E.
        * apply N.eqb_eq in E; subst c0. simpl. rewrite L, EV. specialize (D1 h). lia.
        * rewrite (D2 h c) by (intros ->; rewrite N.eqb_refl in E; discriminate). lia.
      + destruct v as [|s0|m]; simpl in *;
          try (exfalso; destruct J as [J|(v0 & _ & J)]; [specialize (J (VAff APending)); exact J | exact J]).
        destruct DS as (m0 & HB & D1 & D2). rewrite KN in HB. inversion HB as [EV].
        destruct (N.eqb h0 h) eqn:E.
        * apply N.eqb_eq in E; subst h0. simpl. rewrite L, EV. specialize (D1 c). lia.
        * rewrite (D2 h c) by (intros ->; rewrite N.eqb_refl in E; discriminate). lia.
      + subst. lia.
    - destruct (lookup (st_ents s) k) as [e0|] eqn:L; simpl in *; [|subst; lia].
      destruct (N.eqb (e_rev e0) rev) eqn:Q; simpl in *; [|subst; lia].
      apply N.eqb_eq in Q. subst rev. pose proof (KNOWN _ _ L) as KN.
      unfold hcnt_of, alloc_of. simpl. rewrite !lookup_remove by exact ND. simpl.
      destruct k as [c0|h0|host0 c0]; simpl in *.
      + destruct DS as (b0 & HB & D1 & D2). rewrite KN in HB. inversion HB as [EV].
        destruct (N.eqb c0 c) eqn:E.
        * apply N.eqb_eq in E; subst c0. rewrite L, EV. specialize (D1 h). lia.
        * rewrite (D2 h c) by (intros ->; rewrite N.eqb_refl in E; discriminate). lia.
      + destruct DS as (m0 & HB & D1 & D2). rewrite KN in HB. inversion HB as [EV].
        destruct (N.eqb h0 h) eqn:E.
        * apply N.eqb_eq in E; subst h0. rewrite L, EV. specialize (D1 c). simpl in D1. lia.
        * rewrite (D2 h c) by (intros ->; rewrite N.eqb_refl in E; discriminate). lia.
      + subst. lia.
  Qed.

  (* ---------------------------------------------------------------- clients *)
  Notation sD := (Debt.safeD cf).
  Let RT := list (op * result).
  Notation run_ops := (Proofs.run_ops cf fx true).

  Lemma d_run_ops_acc host ops : forall acc nb d H, Forall (wf_op cf) ops -> (nb + 2 <= cf_retries cf)%nat ->
    sD nb d H (Proofs.run_ops_acc cf fx true host ops acc) (Pdq d).
  Proof.
    induction ops as [|o t IH]; intros acc nb d H WF BUD; simpl.
    - intros ? ?; reflexivity.
    - inversion WF as [|? ? WO WT]; subst.
      eapply safeD_bind; [apply (d_compile cf fx F1 F2 F3 BS); auto|].
      cbv beta. intros nb1 d1 H1 r LE1 E1 P1.
      eapply (safeD_weaken cf _ _ _ _ (Pdq d1)); [|apply IH; [auto | lia]].
      intros nb2 d2 H3 l P2 h c. rewrite (P2 h c). apply P1.
  Qed.
  Lemma d_run_ops host ops : forall nb d H, Forall (wf_op cf) ops -> (nb + 2 <= cf_retries cf)%nat ->
    sD nb d H (run_ops host ops) (Pdq d).
  Proof. intros. apply d_run_ops_acc; auto. Qed.

  Definition cstate := Cas.cstate key value lopt RT.
  Definition sysT := Cas.sys key value lopt RT.
  Notation sys_step := (@Cas.sys_step key value lopt key_eqb key_ltb lmatch RT).
  Notation sys_run := (@Cas.sys_run key value lopt key_eqb key_ltb lmatch RT).
  Notation cstep := (@Cas.client_step key value lopt key_eqb key_ltb lmatch RT).

  Section Inv.
  (* what a client's program guarantees when it returns; two instances below *)
  Variable Qc : nat -> ctr -> hist -> RT -> Prop.
  Hypothesis Qc_mono : forall nb d H H' r, hext H H' -> Qc nb d H r -> Qc nb d H' r.

  Definition client_ok (H : hist) (g : nat * ctr) (c : cstate) : Prop :=
    match c with CRun p => sD (fst g) (snd g) H p Qc | CCrashed => True end.

  Definition INV (y : sysT) (gs : list (nat * ctr)) (H : hist) : Prop :=
    store_hist (sy_store y) H /\ hist_ok2 H /\ NoDup (Cas.keys (sy_store y)) /\
    ledger (sy_store y) (map snd gs) /\ Forall2 (client_ok H) gs (sy_clients y).

  (* does this event hand a conflict answer to its client? *)
  Definition conf_of (y : sysT) (ev : Cas.event) : bool :=
    match nth_error (sy_clients y) (ev_client ev) with
    | Some (CRun p) => match snd (cstep (sy_store y) p (ev_fault ev)) with
                       | Some (_, RConflict) => true | _ => false end
    | _ => false
    end.
  Fixpoint seen (y : sysT) (evs : list Cas.event) (i : nat) : nat :=
    match evs with
    | [] => O
    | ev :: t => ((if Nat.eqb (ev_client ev) i && conf_of y ev then 1 else 0) + seen (sys_step y ev) t i)%nat
    end.

  Lemma Forall2_nth {A B} (P : A -> B -> Prop) l1 l2 i b : Forall2 P l1 l2 -> nth_error l2 i = Some b ->
    exists a, nth_error l1 i = Some a /\ P a b.
  Proof.
    intros F; revert i; induction F; intros [|i] NE; simpl in *; try discriminate.
    - inversion NE; subst; eauto.
    - eauto.
  Qed.
  Lemma Forall2_set {A B} (P : A -> B -> Prop) l1 l2 i a b : Forall2 P l1 l2 -> P a b ->
    Forall2 P (set_nth_opt l1 i a) (Cas.set_nth l2 i b).
  Proof.
    intros F; revert i; induction F; intros [|i] PA; simpl; constructor; auto.
  Qed.
  Lemma Forall2_impl {A B} (P Q : A -> B -> Prop) l1 l2 : (forall a b, P a b -> Q a b) -> Forall2 P l1 l2 -> Forall2 Q l1 l2.
  Proof. intros I F; induction F; constructor; auto. Qed.

  Lemma client_ok_mono H H' g c : hext H H' -> client_ok H g c -> client_ok H' g c.
  Proof.
    destruct c; simpl; auto. intros E S. eapply safeD_mono; eauto.
  Qed.

  Lemma nth_error_map_snd (gs : list (nat * ctr)) i g : nth_error gs i = Some g -> nth_error (map snd gs) i = Some (snd g).
  Proof. intros X. rewrite nth_error_map, X. reflexivity. Qed.
  Lemma map_snd_set (gs : list (nat * ctr)) i g : map snd (set_nth_opt gs i g) = set_nth_opt (map snd gs) i (snd g).
  Proof. revert i; induction gs as [|a t IH]; intros [|i]; simpl; auto. rewrite IH; auto. Qed.

  Lemma ledger_debt_le s ds i d : ledger s ds -> nth_error ds i = Some d -> forall h c, (d h c <= hcnt_of s h c)%N.
  Proof.
    intros L NE h c. destruct (dsum_set ds i d d h c NE) as (rest & A & _). rewrite (L h c), A. lia.
  Qed.

  (* one executed request of client i keeps store/history consistency, key uniqueness and the ledger, and
     answers within what env_ok promises *)
  Lemma exec_inv s H rq ds i d :
    store_hist s H -> hist_ok2 H -> NoDup (Cas.keys s) -> ledger s ds -> nth_error ds i = Some d ->
    justified2 H rq ->
    let s' := fst (exec s rq) in let rs := snd (exec s rq) in
    env_ok d rq rs /\
    exists H', hext H H' /\ store_hist s' H' /\ hist_ok2 H' /\ NoDup (Cas.keys s') /\ Cas.resp_ok H' rq rs /\
      forall d', dstep H d rq rs d' -> ledger s' (set_nth_opt ds i d').
  Proof.
    intros SH HO ND L NE J s' rs.
    destruct (@Cas.exec_ok key value lopt key_eqb key_ltb lmatch key_eqb_eq (create_ok2 cf) update_ok2 delete_ok2 (VI2 cf)
                (vi_create2 cf) (vi_update2 cf) s H rq SH HO J) as (_ & H' & E & SH' & HO' & OK).
    split.
    - pose proof (ledger_debt_le _ _ _ _ L NE) as DLE.
      unfold rs. split.
      + destruct rq as [k|l|k v|k v rev|k rev]; simpl; auto.
        * destruct (lookup (st_ents s) k); simpl; auto.
        * destruct (lookup (st_ents s) k); simpl; auto.
        * destruct (lookup (st_ents s) k) as [e0|]; simpl; auto. destruct (N.eqb (e_rev e0) rev); simpl; auto.
        * destruct (lookup (st_ents s) k) as [e0|]; simpl; auto. destruct (N.eqb (e_rev e0) rev); simpl; auto.
      + destruct rq as [k|l|k v|k v rev|k rev]; simpl; auto.
        * destruct k as [c0|h0|host0 c0]; simpl; auto.
          destruct (lookup (st_ents s) (KHandle h0)) as [e0|] eqn:LK; simpl.
          -- intros m EV c. specialize (DLE h0 c). unfold hcnt_of in DLE. rewrite LK, EV in DLE. exact DLE.
          -- intros c. specialize (DLE h0 c). unfold hcnt_of in DLE. rewrite LK in DLE. lia.
        * destruct k as [c0|h0|host0 c0]; simpl; auto.
          destruct (lookup (st_ents s) (KHandle h0)) as [e0|] eqn:LK; simpl.
          -- destruct (N.eqb (e_rev e0) rev); simpl; auto.
          -- intros c. specialize (DLE h0 c). unfold hcnt_of in DLE. rewrite LK in DLE. lia.
        * destruct k as [c0|h0|host0 c0]; simpl; auto.
          destruct (lookup (st_ents s) (KHandle h0)) as [e0|] eqn:LK; simpl.
          -- destruct (N.eqb (e_rev e0) rev); simpl; auto.
          -- intros c. specialize (DLE h0 c). unfold hcnt_of in DLE. rewrite LK in DLE. lia.
    - exists H'. split; auto. split; auto. split; auto. split; [apply Cas.exec_keys_nodup; [exact key_eqb_eq | exact ND]|].
      split; auto. intros d' DS h c.
      pose proof (exec_ledger s H rq d d' SH ND J DS h c) as EL. fold s' in EL.
      destruct (dsum_set ds i d d' h c NE) as (rest & A & B). rewrite B. pose proof (L h c) as LL. rewrite A in LL. lia.
  Qed.

  Lemma nth_set_eq {A} (l : list A) i a a0 : nth_error l i = Some a0 -> nth_error (set_nth_opt l i a) i = Some a.
  Proof. revert i; induction l as [|x t IH]; intros [|i] X; simpl in *; try discriminate; auto. Qed.
  Lemma nth_set_neq {A} (l : list A) i j a : j <> i -> nth_error (set_nth_opt l i a) j = nth_error l j.
  Proof. revert i j; induction l as [|x t IH]; intros [|i] [|j] X; simpl; auto; congruence. Qed.

  Lemma ledger_same s ds i d : ledger s ds -> nth_error ds i = Some d -> ledger s (set_nth_opt ds i d).
  Proof.
    intros L NE h c. destruct (dsum_set ds i d d h c NE) as (rest & A & B). rewrite B, <- A. apply L.
  Qed.

  Definition budget_ok (gs gs' : list (nat * ctr)) (i : nat) (conf : bool) : Prop :=
    length gs' = length gs /\
    forall j g g', nth_error gs j = Some g -> nth_error gs' j = Some g' ->
      (fst g <= fst g' + (if Nat.eqb i j && conf then 1 else 0))%nat.

  Lemma budget_set (gs : list (nat * ctr)) i g nb' (d' : ctr) (conf : bool) : nth_error gs i = Some g ->
    (fst g <= nb' + (if conf then 1 else 0))%nat -> budget_ok gs (set_nth_opt gs i (nb', d')) i conf.
  Proof.
    intros NE LE. split; [apply set_nth_opt_length|].
    intros j g0 g' A B. destruct (Nat.eq_dec j i) as [->|NEQ].
    - rewrite (nth_set_eq _ _ _ _ NE) in B. inversion B; subst. rewrite NE in A. inversion A; subst.
      rewrite Nat.eqb_refl. simpl. exact LE.
    - rewrite nth_set_neq in B by exact NEQ. rewrite A in B. inversion B; subst. lia.
  Qed.

  Lemma inv_step y gs H ev : INV y gs H ->
    (conf_of y ev = true -> forall g, nth_error gs (ev_client ev) = Some g -> (0 < fst g)%nat) ->
    exists gs' H', hext H H' /\ INV (sys_step y ev) gs' H' /\ budget_ok gs gs' (ev_client ev) (conf_of y ev).
  Proof.
    intros (SH & HO & ND & L & F) NBH. set (i := ev_client ev) in *.
    assert (STAY : exists gs' H', hext H H' /\ INV y gs' H' /\ budget_ok gs gs' i (conf_of y ev)).
    { exists gs, H. split; [apply Cas.hext_refl|].
      split; [split; [exact SH | split; [exact HO | split; [exact ND | split; [exact L | exact F]]]]|].
      split; auto. intros j g g' A B. rewrite A in B. inversion B; subst. lia. }
    unfold Cas.sys_step, conf_of in *. fold i in NBH |- *.
    destruct (nth_error (sy_clients y) i) as [[p|]|] eqn:NC; try (pose proof NC as NC'; unfold i in NC'; rewrite NC' in STAY; exact STAY).
    destruct (Forall2_nth _ _ _ _ _ F NC) as (g & NG & CK). simpl in CK. destruct g as [nb d]. simpl in *.
    pose proof (nth_error_map_snd _ _ _ NG) as ND1. simpl in ND1.
    (* common conclusion: new store s1, history H1, client state c1, ghost (nb1, d1) *)
    assert (FIN : forall (s1 : store) (H1 : hist) (c1 : cstate) (nb1 : nat) (d1 : ctr) (conf : bool),
              hext H H1 -> store_hist s1 H1 -> hist_ok2 H1 -> NoDup (Cas.keys s1) ->
              ledger s1 (set_nth_opt (map snd gs) i d1) -> client_ok H1 (nb1, d1) c1 ->
              (nb <= nb1 + (if conf then 1 else 0))%nat ->
              exists gs' H', hext H H' /\
                INV {| sy_store := s1; sy_clients := Cas.set_nth (sy_clients y) i c1 |} gs' H' /\
                budget_ok gs gs' i conf).
    { intros s1 H1 c1 nb1 d1 conf E1 SH1 HO1 ND1' L1 CK1 LE1.
      exists (set_nth_opt gs i (nb1, d1)), H1. split; auto. split.
      - split; auto. split; auto. split; auto. split; [rewrite map_snd_set; exact L1|].
        apply Forall2_set; auto. eapply Forall2_impl; [|exact F]. intros a b. apply client_ok_mono; auto.
      - apply (budget_set gs i (nb, d) nb1 d1 conf NG). exact LE1. }
    destruct p as [r|rq k]; simpl.
    - apply (FIN (sy_store y) H (CRun (Ret r)) nb d false); auto using Cas.hext_refl.
      + apply ledger_same; auto.
      + simpl. lia.
    - destruct CK as [J C].
      destruct (exec_inv (sy_store y) H rq (map snd gs) i d SH HO ND L ND1 J) as (EN & H1 & E1 & SH1 & HO1 & ND1' & OK1 & LD).
      (* the access is executed and answered by the store *)
      assert (EXE : forall crash : bool,
                (is_conf (snd (exec (sy_store y) rq)) = true -> (0 < nb)%nat) ->
                exists gs' H', hext H H' /\
                  INV {| sy_store := fst (exec (sy_store y) rq);
                         sy_clients := Cas.set_nth (sy_clients y) i
                                         (if crash then CCrashed else CRun (k (snd (exec (sy_store y) rq)))) |} gs' H' /\
                  budget_ok gs gs' i (is_conf (snd (exec (sy_store y) rq)))).
      { intros crash NB. destruct (C H1 _ E1 HO1 OK1 EN NB) as (d' & DS & S').
        apply (FIN _ H1 _ (if is_conf (snd (exec (sy_store y) rq)) then pred nb else nb) d'); auto.
        - destruct crash; simpl; auto.
        - destruct (is_conf (snd (exec (sy_store y) rq))) eqn:IC; [specialize (NB eq_refl)|]; lia. }
      assert (ICF : forall rs : Cas.resp key value, is_conf rs = match rs with RConflict => true | _ => false end) by (intros []; reflexivity).
      destruct (ev_fault ev) eqn:FT; simpl in *.
      + destruct (exec (sy_store y) rq) as [s' rs] eqn:X. simpl in *.
        rewrite <- ICF. apply (EXE false). intros IC. apply (NBH (eq_trans (eq_sym (ICF rs)) IC) (nb, d) NG).
      + destruct (Cas.is_cond_write rq) eqn:W; simpl in *.
        * assert (ENC : env_ok d rq RConflict).
          { split; [destruct rq; simpl in *; auto; discriminate|]. destruct (req_handle rq); auto. }
          destruct (C H RConflict (Cas.hext_refl H) HO I ENC (fun _ => NBH eq_refl (nb, d) NG)) as (d' & DS & S').
          simpl in DS. subst d'.
          apply (FIN (sy_store y) H _ (pred nb) d true); auto using Cas.hext_refl.
          -- apply ledger_same; auto.
          -- pose proof (NBH eq_refl (nb, d) NG). simpl in *. lia.
        * destruct (exec (sy_store y) rq) as [s' rs] eqn:X. simpl in *.
          rewrite <- ICF. apply (EXE false). intros IC. apply (NBH (eq_trans (eq_sym (ICF rs)) IC) (nb, d) NG).
      + apply (FIN (sy_store y) H CCrashed nb d false); auto using Cas.hext_refl.
        * apply ledger_same; auto.
        * simpl; auto.
        * lia.
      + destruct (exec (sy_store y) rq) as [s' rs] eqn:X. simpl in *.
        rewrite <- ICF. apply (EXE true). intros IC. apply (NBH (eq_trans (eq_sym (ICF rs)) IC) (nb, d) NG).
  Qed.

  Lemma Forall2_length2 {A B} (P : A -> B -> Prop) l1 l2 : Forall2 P l1 l2 -> length l1 = length l2.
  Proof. induction 1; simpl; auto. Qed.

  Lemma inv_run evs : forall y gs H, INV y gs H ->
    (forall j g, nth_error gs j = Some g -> (seen y evs j <= fst g)%nat) ->
    exists gs' H', INV (sys_run y evs) gs' H'.
  Proof.
    induction evs as [|ev t IH]; intros y gs H I0 BUD; simpl; [eauto|].
    destruct (inv_step y gs H ev I0) as (gs1 & H1 & E1 & I1 & LEN & BO).
    { intros CF g NG. specialize (BUD _ _ NG). simpl in BUD. rewrite Nat.eqb_refl, CF in BUD. simpl in BUD. lia. }
    apply (IH _ gs1 H1 I1).
    intros j g' NG'.
    destruct (nth_error gs j) as [g|] eqn:NG.
    - specialize (BUD _ _ NG). simpl in BUD. specialize (BO _ _ _ NG NG'). lia.
    - exfalso. apply nth_error_None in NG. assert (j < length gs1)%nat by (apply nth_error_Some; congruence). lia.
  Qed.

  End Inv.

  (* ---------------------------------------------------------------- the theorems *)
  Notation sys0 := (Proofs.sys0 cf fx true).

  Lemma PdqM : forall nb d (H H' : hist) (r : RT), hext H H' -> Pdq dzero nb d H r -> Pdq dzero nb d H' r.
  Proof. intros ? ? ? ? ? _ X; exact X. Qed.

  Lemma dsum_zero (l : list (nat * ctr)) h c : Forall (fun g => snd g = dzero) l -> dsum (map snd l) h c = 0%N.
  Proof. induction 1 as [|g t E F IH]; simpl; auto. rewrite E, IH. reflexivity. Qed.

  Lemma inv0 clients B : Forall (fun hc => Forall (wf_op cf) (snd hc)) clients -> (B + 2 <= cf_retries cf)%nat ->
    INV (Pdq dzero) (sys0 clients) (map (fun _ => (B, dzero)) clients) (fun _ => None).
  Proof.
    intros WF BUD. split; [|split; [|split; [|split]]].
    - split; simpl; [intros e []|intros r kv X; discriminate].
    - intros r k v X; discriminate.
    - simpl. constructor.
    - intros h c. unfold hcnt_of, alloc_of. simpl. rewrite dsum_zero; auto.
      apply Forall_forall. intros g X. apply in_map_iff in X. destruct X as (x & <- & _). reflexivity.
    - simpl. induction clients as [|[host ops] t IH]; simpl; constructor.
      + simpl. inversion WF; subst. apply d_run_ops; auto.
      + apply IH. inversion WF; auto.
  Qed.

  (* the budget hypothesis: no client is handed more than B conflict answers, B + 2 <= cf_retries *)
  Definition within_budget (clients : list (N * list op)) (evs : list Cas.event) (B : nat) : Prop :=
    (B + 2 <= cf_retries cf)%nat /\ forall i, (seen (sys0 clients) evs i <= B)%nat.

  Theorem ledger_reachable clients evs B :
    Forall (fun hc => Forall (wf_op cf) (snd hc)) clients -> within_budget clients evs B ->
    exists gs H, INV (Pdq dzero) (sys_run (sys0 clients) evs) gs H.
  Proof.
    intros WF [BUD SEEN]. apply (inv_run (Pdq dzero) PdqM evs _ _ _ (inv0 clients B WF BUD)).
    intros j g NG. rewrite nth_error_map in NG. destruct (nth_error clients j); simpl in NG; [|discriminate].
    inversion NG; subst. simpl. apply SEEN.
  Qed.

  (* handles never under-count *)
  Theorem never_undercounts clients evs B :
    Forall (fun hc => Forall (wf_op cf) (snd hc)) clients -> within_budget clients evs B ->
    forall h c, (alloc_of (sy_store (sys_run (sys0 clients) evs)) h c <= hcnt_of (sy_store (sys_run (sys0 clients) evs)) h c)%N.
  Proof.
    intros WF WB h c. destruct (ledger_reachable clients evs B WF WB) as (gs & H & (_ & _ & _ & L & _)).
    rewrite (L h c). lia.
  Qed.

  Lemma dsum_all_zero (ds : list ctr) h c : Forall (fun d => forall h c, d h c = 0%N) ds -> dsum ds h c = 0%N.
  Proof. induction 1 as [|d t E F IH]; simpl; auto. rewrite E, IH. reflexivity. Qed.

  (* when every client has completed its operations, handle records equal block records *)
  Theorem agrees_when_all_completed clients evs B :
    Forall (fun hc => Forall (wf_op cf) (snd hc)) clients -> within_budget clients evs B ->
    Forall (fun c => exists l, c = CRun (Ret l)) (sy_clients (sys_run (sys0 clients) evs)) ->
    forall h c, hcnt_of (sy_store (sys_run (sys0 clients) evs)) h c = alloc_of (sy_store (sys_run (sys0 clients) evs)) h c.
  Proof.
    intros WF WB DONE h c. destruct (ledger_reachable clients evs B WF WB) as (gs & H & (_ & _ & _ & L & F)).
    rewrite (L h c), dsum_all_zero; [lia|].
    clear L. revert DONE. induction F as [|g cst gs' cs' CK F IH]; intros DONE; simpl; constructor.
    - inversion DONE as [|? ? (l & ->) _]; subst. simpl in CK. exact CK.
    - apply IH. inversion DONE; auto.
  Qed.

  (* ---------------------------------------------------------------- without any bound on conflicts *)
  Lemma u_run_ops_acc host ops : forall acc nb d H, Forall (wf_op cf) ops ->
    sD nb d H (Proofs.run_ops_acc cf fx true host ops acc) PT.
  Proof.
    induction ops as [|o t IH]; intros acc nb d H WF; simpl; [exact I|].
    inversion WF as [|? ? WO WT]; subst.
    eapply safeD_bind; [apply (u_compile cf fx F1 F2 F3 BS); auto|].
    cbv beta. intros nb1 d1 H1 r LE1 E1 P1. apply IH; auto.
  Qed.

  Lemma PTM : forall nb d (H H' : hist) (r : RT), hext H H' -> @PT RT nb d H r -> @PT RT nb d H' r.
  Proof. intros; exact I. Qed.

  Lemma inv0u clients B : Forall (fun hc => Forall (wf_op cf) (snd hc)) clients ->
    INV PT (sys0 clients) (map (fun _ => (B, dzero)) clients) (fun _ => None).
  Proof.
    intros WF. split; [|split; [|split; [|split]]].
    - split; simpl; [intros e []|intros r kv X; discriminate].
    - intros r k v X; discriminate.
    - simpl. constructor.
    - intros h c. unfold hcnt_of, alloc_of. simpl. rewrite dsum_zero; auto.
      apply Forall_forall. intros g X. apply in_map_iff in X. destruct X as (x & <- & _). reflexivity.
    - simpl. induction clients as [|[host ops] t IH]; simpl; constructor.
      + simpl. inversion WF; subst. apply u_run_ops_acc; auto.
      + apply IH. inversion WF; auto.
  Qed.

  Lemma seen_le_length evs : forall y i, (seen y evs i <= length evs)%nat.
  Proof.
    induction evs as [|ev t IH]; intros y i; simpl; auto.
    specialize (IH (sys_step y ev) i). destruct (Nat.eqb (ev_client ev) i && conf_of y ev); lia.
  Qed.

  (* in EVERY reachable state (any interleaving, any number of conflicts, crashes): handles never under-count *)
  Theorem never_undercounts_all clients evs :
    Forall (fun hc => Forall (wf_op cf) (snd hc)) clients ->
    forall h c, (alloc_of (sy_store (sys_run (sys0 clients) evs)) h c <= hcnt_of (sy_store (sys_run (sys0 clients) evs)) h c)%N.
  Proof.
    intros WF h c.
    destruct (inv_run PT PTM evs _ _ _ (inv0u clients (length evs) WF)) as (gs & H & (_ & _ & _ & L & _)).
    - intros j g NG. rewrite nth_error_map in NG. destruct (nth_error clients j); simpl in NG; [|discriminate].
      inversion NG; subst. simpl. apply seen_le_length.
    - rewrite (L h c). lia.
  Qed.
End Ledger.

(* ------------------------------------------------------------------ concrete runs *)
Definition ev_ (i : nat) : Cas.event := {| ev_client := i; ev_fault := FNone |}.
Definition cfgF : config :=
  {| cf_strict := false; cf_autoalloc := true; cf_maxblocks := 20; cf_pool_base := 167772160; cf_nblocks := 2;
     cf_bsize := 2; cf_retries := 100; cf_starts := [(0%N, 0%nat)];
     cf_count_requested := false; cf_aip_leak := false; cf_stale_cache := false |}.

(* W4: the releaseByHandle not-found race (see the driver's scripted case 3) *)
Definition w4_clients : list (N * list op) :=
  [(0%N, [OpAssignIP 1 1 167772160; OpReleaseAffinity 167772160 false]);
   (0%N, [OpReleaseByHandle 1 []]);
   (0%N, [OpRelease [(167772160%N, None)] []]);
   (0%N, [OpAssignIP 1 1 167772160])].
Definition w4_sched : list Cas.event :=
  repeat (ev_ 0) 40 ++ repeat (ev_ 1) 2 ++ repeat (ev_ 2) 20 ++ [ev_ 1] ++ repeat (ev_ 3) 20 ++ repeat (ev_ 1) 20.

Definition completedb (c : Cas.cstate key value lopt (list (op * result))) : bool :=
  match c with CRun (Ret _) => true | _ => false end.

Definition w4_outcome (fy : bool) :=
  let y := @Cas.sys_run key value lopt key_eqb key_ltb lmatch (list (op * result)) (Proofs.sys0 cfgF false fy w4_clients) w4_sched in
  (forallb completedb (sy_clients y), hcnt_of (sy_store y) 1 167772160, alloc_of (sy_store y) 1 167772160).

(* unfixed releaseByHandle: everybody has completed, the block records the address for handle 1, the handle is gone *)
Lemma w4_refutes : w4_outcome false = (true, 0%N, 1%N).
Proof. vm_compute. reflexivity. Qed.
(* fixed: the handle still counts the address *)
Lemma w4_fixed : w4_outcome true = (true, 1%N, 1%N).
Proof. vm_compute. reflexivity. Qed.

(* ------------------------------------------------------------------ what is proved about one model run, in one place *)
Lemma model_meets_spec_partial : forall cf fx clients evs,
  cf_count_requested cf = false -> cf_aip_leak cf = false -> cf_stale_cache cf = false -> cf_bsize cf <> O ->
  Forall (fun hc => Forall (wf_op cf) (snd hc)) clients ->
  let y := @Cas.sys_run key value lopt key_eqb key_ltb lmatch (list (op * result)) (Proofs.sys0 cf fx true clients) evs in
  (forall e c b, In e (st_ents (sy_store y)) -> e_key e = KBlock c -> e_val e = VBlock b ->
     bk_cidr b = c /\ NoDup (bk_unalloc b) /\ (forall o, In o (bk_unalloc b) -> owner_of b o = None)) /\
  (forall ev, Cas.effect key_eqb key_ltb create_ok update_ok delete_ok (sy_store y)
                (sy_store (@Cas.sys_step key value lopt key_eqb key_ltb lmatch (list (op * result)) y ev))) /\
  (forall i l, nth_error (sy_clients y) i = Some (CRun (Ret l)) ->
     exists H', Cas.store_hist (sy_store y) H' /\ Cas.hist_ok VI H' /\ Forall (fun p => op_post cf (fst p) H' (snd p)) l) /\
  (forall h c, (alloc_of (sy_store y) h c <= hcnt_of (sy_store y) h c)%N) /\
  (forall B, within_budget cf fx clients evs B ->
     Forall (fun c => exists l, c = CRun (Ret l)) (sy_clients y) ->
     forall h c, hcnt_of (sy_store y) h c = alloc_of (sy_store y) h c).
Proof.
  intros cf fx clients evs F1 F2 F3 BS WF y. split; [|split; [|split; [|split]]].
  - intros e c b Hin EK EV.
    destruct (reachable_blocks_single_owner cf fx true clients evs e c b Hin EK EV) as (A & B & C & _). auto.
  - intros ev. apply reachable_step_effect.
  - intros i l NE. apply (completed_results_recorded cf fx true clients evs i l NE).
  - apply never_undercounts_all; auto.
  - intros B WB DONE. eapply agrees_when_all_completed; eauto.
Qed.

(* ------------------------------------------------------------------ clause (d) of the oracle, as the boolean it is *)
Lemma dlookup_dump (es : list (Cas.entry key value)) k :
  dlookup (map (fun e => (e_key e, e_val e)) es) k = option_map (@e_val key value) (lookup es k).
Proof. induction es as [|e t IH]; simpl; auto. destruct (key_eqb (e_key e) k); auto. Qed.

Lemma lookup_of_In (es : list (Cas.entry key value)) e : NoDup (map (@e_key key value) es) -> In e es -> lookup es (e_key e) = Some e.
Proof.
  induction es as [|a t IH]; simpl; intros ND X; [contradiction|].
  destruct X as [->|IN]; [rewrite key_eqb_refl; auto|].
  inversion ND; subst. destruct (key_eqb (e_key a) (e_key e)) eqn:E; auto.
  apply key_eqb_eq in E. exfalso. apply H1. rewrite E. apply in_map; auto.
Qed.

Lemma hcount_In m c n : hsorted m -> In (c, n) m -> hcount m c = n.
Proof.
  induction m as [|[k v] t IH]; simpl; intros S IN; [contradiction|]. destruct S as [A S].
  destruct IN as [X|X].
  - inversion X; subst. rewrite N.eqb_refl. reflexivity.
  - destruct (N.eqb k c) eqn:E; [apply N.eqb_eq in E; subst; specialize (A _ _ X); lia | apply IH; auto].
Qed.

Lemma handles_agree_reflect cf (s : store) :
  NoDup (Cas.keys s) ->
  (forall e, In e (st_ents s) -> VI2 cf (e_key e) (e_val e)) ->
  (forall h c, hcnt_of s h c = alloc_of s h c) ->
  handles_agree (store_dump s) = true.
Proof.
  intros ND VAL AG. unfold handles_agree, store_dump.
  assert (HC : forall h c, handle_count (map (fun e => (e_key e, e_val e)) (st_ents s)) h c = hcnt_of s h c).
  { intros h c. unfold handle_count, hcnt_of. rewrite dlookup_dump. destruct (lookup (st_ents s) (KHandle h)); reflexivity. }
  apply forallb_forall. intros [k v] IN. apply in_map_iff in IN. destruct IN as (e & EQ & IN). inversion EQ; subst k v.
  pose proof (VAL e IN) as V. pose proof (lookup_of_In _ e ND IN) as LK.
  destruct (e_key e) as [c|h|host c] eqn:EK; destruct (e_val e) as [b|st|m] eqn:EV; simpl in V; try contradiction; auto.
  - apply forallb_forall. intros x XIN. destruct (at_handle x) as [h|] eqn:AH; auto.
    apply N.eqb_eq. rewrite HC, AG. unfold alloc_of. rewrite LK, EV. reflexivity.
  - destruct V as (SM & PM & NE). apply andb_true_iff. split; [destruct m; [congruence | reflexivity]|].
    apply forallb_forall. intros [c n] CIN. simpl.
    pose proof (hcount_In m c n SM CIN) as HN.
    assert (PN : (0 < n)%N) by (unfold hpos in PM; rewrite Forall_forall in PM; apply (PM _ CIN)).
    apply andb_true_iff. split; [destruct (N.eqb n 0) eqn:Z; auto; apply N.eqb_eq in Z; lia|].
    pose proof (AG h c) as A. unfold hcnt_of in A. rewrite LK, EV, HN in A.
    rewrite dlookup_dump. unfold alloc_of in A.
    destruct (lookup (st_ents s) (KBlock c)) as [eb|]; simpl; [|lia].
    destruct (e_val eb) as [b|st2|m2]; try lia. apply N.eqb_eq. lia.
Qed.

Section LedgerBool.
  Variable cf : config.
  Variable fx : bool.
  Hypothesis F1 : cf_count_requested cf = false.
  Hypothesis F2 : cf_aip_leak cf = false.
  Hypothesis F3 : cf_stale_cache cf = false.
  Hypothesis BS : cf_bsize cf <> O.

  (* when every client has completed, the oracle's handles_agree accepts the model's datastore *)
  Theorem oracle_handles_agree clients evs B :
    Forall (fun hc => Forall (wf_op cf) (snd hc)) clients -> within_budget cf fx clients evs B ->
    Forall (fun c => exists l, c = CRun (Ret l))
           (sy_clients (@Cas.sys_run key value lopt key_eqb key_ltb lmatch (list (op * result)) (Proofs.sys0 cf fx true clients) evs)) ->
    handles_agree (store_dump (sy_store (@Cas.sys_run key value lopt key_eqb key_ltb lmatch (list (op * result)) (Proofs.sys0 cf fx true clients) evs))) = true.
  Proof.
    intros WF WB DONE.
    destruct (ledger_reachable cf fx F1 F2 F3 BS clients evs B WF WB) as (gs & H & (SH & HO & ND & _ & _)).
    apply (handles_agree_reflect cf); auto.
    - intros e IN. destruct SH as [SE _]. destruct (SE _ IN) as [EI _]. eapply HO; eauto.
    - eapply agrees_when_all_completed; eauto.
  Qed.
End LedgerBool.
