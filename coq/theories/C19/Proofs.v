(* C19 — proofs.  Every client operation of Model.v is "safe" in the sense of Common/Cas.v: whatever the
   datastore answers (hence: whatever the other clients do, whichever conflicts are injected), each conditional
   write of a block carries a revision whose value the client has read, and the value it writes is obtained from
   THAT value by a transformation that maintains the block invariant and never changes the owner of an
   allocated address.  Results returned by assign operations are recorded in a version of the block that
   was written to the datastore. *)
From Coq Require Import List NArith Bool Arith Lia.
From Verif.Common Require Import Cas.
From Verif.C19 Require Import Model ModelV BlockLemmas.
Import ListNotations.

(* ------------------------------------------------------------------ instantiation of the CAS framework *)
Definition VI (k : key) (v : value) : Prop :=
  match k, v with
  | KBlock c, VBlock b => I_b b /\ bk_cidr b = c
  | KBlock _, _ => False
  | _, _ => True
  end.
Definition create_ok := VI.
Definition update_ok (k : key) (v0 v : value) : Prop :=
  match k with
  | KBlock _ => match v0, v with VBlock b0, VBlock b1 => btrans b0 b1 | _, _ => False end
  | _ => True
  end.
Definition delete_ok (k : key) (v : value) : Prop := True.

Lemma vi_create k v : create_ok k v -> VI k v.
Proof. auto. Qed.
Lemma vi_update k v0 v : update_ok k v0 v -> VI k v0 -> VI k v.
Proof.
  destruct k; simpl; auto. destruct v0, v; simpl; try tauto.
  intros [C T] [I0 E]. destruct (T I0). split; auto. congruence.
Qed.

Definition hist := Cas.hist key value.
Notation safe := (@Cas.safeQ key value lopt create_ok update_ok delete_ok VI).
Notation hext := (@Cas.hext key value).
Notation hist_ok := (@Cas.hist_ok key value VI).

Definition known (H : hist) (c : N) (b : block) (rev : N) : Prop :=
  H rev = Some (KBlock c, VBlock b) /\ I_b b /\ bk_cidr b = c.

Lemma known_mono H H' c b rev : hext H H' -> known H c b rev -> known H' c b rev.
Proof. intros E (A & B & C). split; auto. Qed.

(* address a is recorded for (handle h, attributes tag) in a version of its block that was written *)
Definition recorded (H : hist) (h tag a : N) : Prop :=
  exists rev c b o, H rev = Some (KBlock c, VBlock b) /\ a = (bk_cidr b + N.of_nat o)%N /\
                    owner_of b o = Some {| at_handle := Some h; at_tag := tag |}.

Lemma recorded_mono H H' h tag a : hext H H' -> recorded H h tag a -> recorded H' h tag a.
Proof. intros E (rev & c & b & o & A & B & C). exists rev, c, b, o. auto. Qed.

Lemma Forall_recorded_mono H H' h tag l : hext H H' -> Forall (recorded H h tag) l -> Forall (recorded H' h tag) l.
Proof. intros E F. eapply Forall_impl; [|apply F]. intros a. apply recorded_mono; auto. Qed.

Definition Pblk (c : N) (H : hist) (r : res (block * N)) : Prop :=
  match r with inl (b, rev) => known H c b rev | inr _ => True end.
Definition Ptrue {A} (H : hist) (r : A) : Prop := True.

Lemma safe_ret {A} H (r : A) (Q : hist -> A -> Prop) : Q H r -> safe H (Ret r) Q.
Proof. auto. Qed.

Lemma safe_act {A} H rq (k : Cas.resp key value -> Cas.prog key value lopt A) (Q : hist -> A -> Prop) :
  Cas.justified create_ok update_ok delete_ok H rq ->
  (forall H' rs, hext H H' -> hist_ok H' -> Cas.resp_ok H' rq rs -> safe H' (k rs) Q) ->
  safe H (Act rq k) Q.
Proof. intros J C. simpl. split; auto. Qed.

(* ------------------------------------------------------------------ primitives *)
Lemma safe_get_block H c : safe H (get_block c) (Pblk c).
Proof.
  simpl. split; auto. intros H' rs E HO OK. destruct rs; simpl; auto.
  destruct (e_val e) eqn:EV; simpl; auto.
  destruct OK as [EI EK]. unfold entry_in in EI. rewrite EK, EV in EI.
  split; auto. apply HO in EI. exact EI.
Qed.

Lemma safe_update_block H c b0 b' rev :
  known H c b0 rev -> btrans b0 b' ->
  safe H (update_block c b' rev)
       (fun H' r => match r with inl (b2, rev') => known H' c b2 rev' /\ b2 = bump b' | inr _ => True end).
Proof.
  intros (KH & I0 & C0) BT. simpl. split.
  - right. exists (VBlock b0). split; [exact KH|]. simpl. apply btrans_bump; exact BT.
  - intros H' rs E HO OK. destruct rs; simpl; auto.
    destruct OK as [EI [EK EV]]. unfold entry_in in EI. rewrite EK, EV in EI.
    split; auto. split; auto. apply HO in EI. exact EI.
Qed.

Lemma safe_create_block H c b : I_b b -> bk_cidr b = c -> safe H (create_block c b) (Pblk c).
Proof.
  intros IB CB. simpl. split; [split; auto|].
  intros H' rs E HO OK. destruct rs; simpl; auto.
  destruct OK as [EI [EK EV]]. unfold entry_in in EI. rewrite EK, EV in EI. split; auto.
Qed.

Lemma safe_delete_block H c rev : safe H (delete_block c rev) Ptrue.
Proof. simpl. split; [left; intros; exact I|]. intros H' rs E HO OK. destruct rs; simpl; exact I. Qed.

Lemma safe_get_aff H host c : safe H (get_aff host c) Ptrue.
Proof. simpl. split; auto. intros H' rs E HO OK. destruct rs; simpl; try exact I. destruct (e_val e); exact I. Qed.
Lemma safe_update_aff H host c s rev : safe H (update_aff host c s rev) Ptrue.
Proof. simpl. split; [left; intros; exact I|]. intros H' rs E HO OK. destruct rs; exact I. Qed.
Lemma safe_create_aff H host c s : safe H (create_aff host c s) Ptrue.
Proof. simpl. split; [exact I|]. intros H' rs E HO OK. destruct rs; exact I. Qed.
Lemma safe_delete_aff H host c rev : safe H (delete_aff host c rev) Ptrue.
Proof. simpl. split; [left; intros; exact I|]. intros H' rs E HO OK. destruct rs; exact I. Qed.

Lemma safe_get_handle H h : safe H (get_handle h) Ptrue.
Proof. simpl. split; auto. intros H' rs E HO OK. destruct rs; simpl; try exact I. destruct (e_val e); exact I. Qed.
Lemma safe_update_handle H h m rev : safe H (update_handle h m rev) Ptrue.
Proof. simpl. split; [left; intros; exact I|]. intros H' rs E HO OK. destruct rs; exact I. Qed.
Lemma safe_create_handle H h m : safe H (create_handle h m) Ptrue.
Proof. simpl. split; [exact I|]. intros H' rs E HO OK. destruct rs; exact I. Qed.
Lemma safe_delete_handle H h rev : safe H (delete_handle h rev) Ptrue.
Proof. simpl. split; [left; intros; exact I|]. intros H' rs E HO OK. destruct rs; exact I. Qed.

Global Opaque get_block update_block create_block delete_block get_aff update_aff create_aff delete_aff
       get_handle update_handle create_handle delete_handle.

(* ------------------------------------------------------------------ composite programs *)
Global Opaque Cas.bind.

Ltac sb L := eapply (@Cas.safeQ_bind key value lopt create_ok update_ok delete_ok VI);
             [ eapply L | cbv beta; intros ?H ?r ?E ?P ].
Ltac dif := match goal with |- Cas.safeQ _ _ _ _ _ (if ?c then _ else _) _ => destruct c end.
Ltac sret := cbv iota; apply safe_ret; first [exact I | unfold Ptrue; simpl; auto].

Lemma inc_handle_safe fuel : forall h c n H, safe H (inc_handle fuel h c n) Ptrue.
Proof.
  induction fuel as [|f IH]; intros h c n H; simpl; [exact I|].
  sb safe_get_handle. destruct r as [[m rev]|e].
  - sb safe_update_handle. destruct r; [sret | apply IH].
  - destruct e; try sret. sb safe_create_handle. destruct r; [sret | apply IH].
Qed.

Lemma dec_handle_safe sb_ fuel : forall h c n cached H, safe H (dec_handle sb_ fuel h c n cached) Ptrue.
Proof.
  induction fuel as [|f IH]; intros h c n cached H; simpl; [exact I|].
  eapply (@Cas.safeQ_bind key value lopt create_ok update_ok delete_ok VI) with (P := Ptrue).
  { destruct cached; [sret | apply safe_get_handle]. }
  cbv beta; intros H0 r E P. destruct r as [[m rev]|e]; [|sret].
  destruct (hdec m c n) as [[|x m']|].
  - sb safe_delete_handle. destruct r as [u|e]; [sret|]. destruct e; try sret. apply IH.
  - sb safe_update_handle. destruct r as [u|e]; [sret|]. destruct e; try sret. apply IH.
  - destruct cached; [|sret]. destruct sb_; [sret | apply IH].
Qed.

Section OpsSafe.
  Variable cf : config.
  Variable fx : bool.   (* variant of claimAffineBlock, see ModelV.v: everything below holds for both *)
  Variable fy : bool.   (* variant of releaseByHandle, see ModelV.v: likewise *)

  Definition Pips (h tag : N) (H : hist) (r : res (list N)) : Prop :=
    match r with inl ips => Forall (recorded H h tag) ips | inr _ => True end.

  Lemma assign_from_block_safe H b rev c num h tag host ac :
    known H c b rev -> safe H (assign_from_block cf (b, rev) c num h tag host ac) (Pips h tag).
  Proof.
    intros KN. unfold assign_from_block.
    destruct (blk_auto_assign b num h tag ac host) as [[b' ips]|] eqn:AA; [|sret].
    destruct ips as [|a0 ips']; [sret; constructor|].
    remember (a0 :: ips') as ips.
    destruct (blk_auto_assign_trans _ _ _ _ _ _ _ _ AA) as [BT REC].
    sb inc_handle_safe. destruct r as [u|e]; [|sret].
    sb safe_update_block; [eapply known_mono; eauto | exact BT |].
    destruct r as [[b2 rev2]|e].
    - sret. destruct P0 as [(KH & I2 & C2) ->].
      destruct KN as (_ & I0 & _).
      apply Forall_forall. intros a Hin. destruct (REC I0 a Hin) as (o & EA & OW).
      exists rev2, c, (bump b'), o. auto.
    - sb dec_handle_safe. sret.
  Qed.

  Lemma confirm_aff_safe H host c rev : safe H (confirm_aff host c rev) Ptrue.
  Proof.
    unfold confirm_aff. sb safe_update_aff. destruct r; [sret|].
    sb safe_get_aff. destruct r as [[[| |] rev2]|]; sret.
  Qed.

  Lemma get_pending_aff_safe H host c : safe H (get_pending_aff host c) Ptrue.
  Proof.
    unfold get_pending_aff. sb safe_create_aff. destruct r as [rev|e]; [sret|].
    destruct e; try sret. sb safe_get_aff. destruct r as [[st rev]|e]; [|sret].
    destruct st; try sret; (sb safe_update_aff; destruct r; sret).
  Qed.

  Lemma I_b_new_block c host : I_b (new_block cf c host).
  Proof.
    split; [|split]; simpl.
    - apply seq_NoDup.
    - intros o Hin. apply in_seq in Hin. rewrite repeat_length. split; [|lia].
      apply nth_repeat.
    - intros o j. rewrite nth_repeat. discriminate.
  Qed.

  Lemma claim_affine_block_safe H host c affrev : safe H (claim_affine_block_v cf fx host c affrev) (Pblk c).
  Proof.
    unfold claim_affine_block_v. sb safe_create_block; [apply I_b_new_block | reflexivity |].
    destruct r as [[b rev]|e].
    - sb confirm_aff_safe. destruct r; sret. eapply known_mono; eauto.
    - destruct e; try sret. sb safe_get_block. destruct r as [[b rev]|e]; [|sret].
      destruct (optN_eqb (bk_aff b) (Some host)).
      + destruct fx.
        * sb safe_update_block; [exact P0 | apply btrans_refl |].
          destruct r as [[b2 rev2]|e]; [|sret].
          sb confirm_aff_safe. destruct r; sret. destruct P1 as [KN _]. eapply known_mono; eauto.
        * sb confirm_aff_safe. destruct r; sret. eapply known_mono; eauto.
      + sb safe_delete_aff. sret.
  Qed.

  Lemma get_block_from_aff_safe H host c aff : safe H (get_block_from_aff_v cf fx host c aff) (Pblk c).
  Proof.
    unfold get_block_from_aff_v. destruct aff as [st affrev].
    sb safe_get_block. destruct r as [[b brev]|e].
    - destruct (negb (optN_eqb (bk_aff b) (Some host))).
      + sb safe_delete_aff. destruct r; sret.
      + destruct (affst_eqb st AConfirmed); [sret|].
        sb safe_update_aff. destruct r as [rev1|e]; [|sret].
        sb safe_update_block; [eapply known_mono; eauto | apply btrans_refl |].
        destruct r as [[b2 rev2]|e]; [|sret].
        sb safe_update_aff. destruct r; sret. destruct P1 as [KN _]. eapply known_mono; eauto.
    - destruct e; try sret. sb safe_update_aff. destruct r as [rev'|e]; [|sret].
      apply claim_affine_block_safe.
  Qed.

  Lemma find_usable_safe H host : safe H (find_usable cf host) Ptrue.
  Proof.
    unfold find_usable. apply safe_act; [exact I|]. intros H' rs E HO OK.
    destruct rs; try sret. destruct (find _ _); sret.
  Qed.

  Definition Popt (c : N) (H : hist) (r : option (block * N)) : Prop :=
    match r with Some (b, rev) => known H c b rev | None => True end.

  Lemma try_affine_safe fuel : forall H host c, safe H (try_affine_v cf fx fuel host c) (Popt c).
  Proof.
    induction fuel as [|f IH]; intros H host c; simpl; [exact I|].
    sb safe_get_aff. destruct r as [aff|e]; [|sret].
    sb get_block_from_aff_safe. destruct r as [[b brev]|e].
    - dif; sret.
    - destruct e; try sret. apply IH.
  Qed.

  Definition Pscan (H : hist) (r : option (block * N * N) * list N) : Prop :=
    match fst r with Some (b, rev, c) => known H c b rev | None => True end.

  Lemma scan_affine_safe rem : forall H host, safe H (scan_affine_v cf fx rem host) Pscan.
  Proof.
    induction rem as [|c rest IH]; intros H host; simpl; [exact I|].
    sb try_affine_safe. destruct r as [[b rev]|]; [sret | apply IH].
  Qed.

  Definition Pclaim (c : N) (H : hist) (r : claim_res) : Prop :=
    match r with CRBlock (b, rev) => known H c b rev | _ => True end.

  Lemma claim_inner_safe fuel : forall H host c, safe H (claim_inner_v cf fx fuel host c) (Pclaim c).
  Proof.
    induction fuel as [|f IH]; intros H host c; simpl; [exact I|].
    sb get_pending_aff_safe. destruct r as [aff|e].
    - sb get_block_from_aff_safe. destruct r as [[b brev]|e].
      + dif; sret.
      + destruct e; try sret. apply IH.
    - destruct e; try sret. apply IH.
  Qed.

  Definition Pclaimed (H : hist) (r : res (block * N * N)) : Prop :=
    match r with inl (b, rev, c) => known H c b rev | inr _ => True end.

  Lemma claim_outer_safe fuel : forall H host, safe H (claim_outer_v cf fx fuel host) Pclaimed.
  Proof.
    induction fuel as [|f IH]; intros H host; simpl; [exact I|].
    sb find_usable_safe. destruct r as [c|e]; [|sret].
    sb claim_inner_safe. destruct r as [[b rev]| |e]; [sret | apply IH | sret].
  Qed.

  Definition Pfc (H : hist) (r : res (block * N * N * bool) * list N) : Prop :=
    match fst r with inl (b, rev, c, _) => known H c b rev | inr _ => True end.

  Lemma find_or_claim_safe H rem host allow : safe H (find_or_claim_v cf fx rem host allow) Pfc.
  Proof.
    unfold find_or_claim_v. sb scan_affine_safe. destruct r as [[[[b rev] c]|] rest].
    - sret.
    - destruct (negb allow); [sret|]. destruct (cf_autoalloc cf); [|sret].
      sb claim_outer_safe. destruct r as [[[b rev] c]|e]; sret.
  Qed.

  Definition Plist (h tag : N) (H : hist) (ips : list N) : Prop := Forall (recorded H h tag) ips.

  Lemma assign_retry_safe fuel : forall H b rev c rem h tag host,
    known H c b rev -> safe H (assign_retry cf fuel (b, rev) c rem h tag host) (Plist h tag).
  Proof.
    induction fuel as [|f IH]; intros H b rev c rem h tag host KN; simpl; [constructor|].
    sb assign_from_block_safe; [exact KN|]. destruct r as [ips|e]; [sret|].
    destruct e; try (sret; constructor).
    sb safe_get_block. destruct r as [[b' rev']|e]; [|sret; constructor].
    apply IH. exact P0.
  Qed.

  Lemma na_try_safe fuel : forall H c rem h tag host, safe H (na_try cf fuel c rem h tag host) (Plist h tag).
  Proof.
    induction fuel as [|f IH]; intros H c rem h tag host; simpl; [constructor|].
    sb safe_get_block. destruct r as [[b rev]|e]; [|sret; constructor].
    sb assign_from_block_safe; [exact P|]. destruct r as [ips|e]; [sret|].
    destruct e; try (sret; constructor). apply IH.
  Qed.

  Lemma na_loop_safe order : forall H ips num h tag host,
    Forall (recorded H h tag) ips -> safe H (na_loop cf order ips num h tag host) (Plist h tag).
  Proof.
    induction order as [|c rest IH]; intros H ips num h tag host F; simpl; [exact F|].
    dif; [sret|].
    sb na_try_safe. apply IH. apply Forall_app. split; [eapply Forall_recorded_mono; eauto | exact P].
  Qed.

  Definition Pres (h tag : N) (H : hist) (r : result) : Prop :=
    match r with ResIPs ips _ => Forall (recorded H h tag) ips | _ => True end.

  Lemma aa_loop_safe fuel : forall H ips rem_aff owned num h tag host,
    Forall (recorded H h tag) ips -> safe H (aa_loop_v cf fx fuel ips rem_aff owned num h tag host) (Pres h tag).
  Proof.
    induction fuel as [|f IH]; intros H ips rem_aff owned num h tag host F; simpl.
    - dif; sret.
    - dif; [sret|].
      sb find_or_claim_safe. destruct r as [[[[[b rev] c] newly]|e] rem'].
      + sb assign_retry_safe; [exact P|]. apply IH. apply Forall_app.
        split; [|exact P0]. eapply Forall_recorded_mono; [|exact F].
        eapply (@Cas.hext_trans key value); eauto.
      + assert (F0 : Forall (recorded H0 h tag) ips) by (eapply Forall_recorded_mono; eauto).
        destruct e; try sret.
        destruct (negb (cf_strict cf)); [|sret].
        sb na_loop_safe; [exact F0|]. sret.
  Qed.

  Lemma auto_assign_safe H host h tag num : safe H (auto_assign_v cf fx host h tag num) (Pres h tag).
  Proof.
    unfold auto_assign_v. apply safe_act; [exact I|]. intros H' rs E HO OK.
    destruct rs; try (sret; constructor). apply aa_loop_safe. constructor.
  Qed.

  (* AssignIP: the address is recorded for the handle in a written version of its block (unless the ordinal
     lies outside the block's allocation array, which cannot happen for an address of the block) *)
  Definition recorded_at (H : hist) (h tag a : N) : Prop :=
    exists rev b, H rev = Some (KBlock (block_of cf a), VBlock b) /\
      (owner_of b (ordinal_of b a) = Some {| at_handle := Some h; at_tag := tag |} \/
       (length (bk_allocs b) <= ordinal_of b a)%nat).

  Definition Paip (h tag a : N) (H : hist) (r : result) : Prop :=
    match r with ResErr ENone => recorded_at H h tag a | _ => True end.

  Lemma assign_ip_cont_safe fuel
    (IH : forall H host h tag a, safe H (assign_ip_loop_v cf fx fuel host h tag a) (Paip h tag a)) :
    forall H host h tag a b brev, known H (block_of cf a) b brev ->
    safe H (match blk_assign b a h tag (cf_strict cf) host with
            | inr e => Ret (ResErr (nz e))
            | inl b' =>
                i <- inc_handle (cf_retries cf) h (block_of cf a) 1 ;;
                match i with
                | inr _ => Ret (ResErr EOther)
                | inl _ =>
                    w <- update_block (block_of cf a) b' brev ;;
                    match w with
                    | inl _ => Ret (ResErr ENone)
                    | inr EConflict =>
                        if cf_aip_leak cf then assign_ip_loop_v cf fx fuel host h tag a
                        else u_ <- dec_handle (cf_stale_cache cf) (cf_retries cf) h (block_of cf a) 1 None ;;
                             assign_ip_loop_v cf fx fuel host h tag a
                    | inr e => u_ <- dec_handle (cf_stale_cache cf) (cf_retries cf) h (block_of cf a) 1 None ;;
                               Ret (ResErr (nz e))
                    end
                end
            end) (Paip h tag a).
  Proof.
    intros H host h tag a b brev KN.
    destruct (blk_assign b a h tag (cf_strict cf) host) as [b'|e] eqn:BA; [|destruct e; sret].
    assert (BT : btrans b b') by (destruct (blk_assign_trans _ _ _ _ _ _ _ BA) as [[X _]|[X _]]; exact X).
    sb inc_handle_safe. destruct r as [u|e]; [|sret].
    sb safe_update_block; [eapply known_mono; eauto | exact BT |].
    destruct r as [[b2 rev2]|e].
    - sret. destruct P0 as [(KH & _ & _) ->]. exists rev2, (bump b'). split; [exact KH|].
      destruct (blk_assign_trans _ _ _ _ _ _ _ BA) as [[_ OW]|[_ L]].
      + left. replace (ordinal_of (bump b') a) with (ordinal_of b a).
        * exact OW.
        * unfold ordinal_of. simpl. destruct BT as [C _]. rewrite C. reflexivity.
      + right. destruct BT as [C _]. unfold ordinal_of in *. simpl. rewrite C.
        assert (LEN : length (bk_allocs b') = length (bk_allocs b)).
        { clear - BA. unfold blk_assign in BA. destruct (negb (aff_check_ok b (cf_strict cf) host)); [discriminate|].
          destruct (nth (ordinal_of b a) (bk_allocs b) None); [discriminate|].
          destruct (find_or_add_attr _ _). inversion BA; subst; simpl. apply set_nth_opt_length. }
        rewrite LEN. exact L.
    - destruct e; try (sb dec_handle_safe; sret).
      dif; [apply IH | sb dec_handle_safe; apply IH].
  Qed.

  Lemma assign_ip_loop_safe fuel : forall H host h tag a, safe H (assign_ip_loop_v cf fx fuel host h tag a) (Paip h tag a).
  Proof.
    induction fuel as [|f IH]; intros H host h tag a; simpl; [exact I|].
    sb safe_get_block. destruct r as [[b brev]|e].
    - apply (assign_ip_cont_safe f IH); exact P.
    - destruct e; try sret.
      sb get_pending_aff_safe. destruct r as [[st affrev]|e].
      + sb claim_affine_block_safe. destruct r as [[b brev]|e].
        * apply (assign_ip_cont_safe f IH); exact P1.
        * destruct e; try sret. apply IH.
      + destruct e; try sret. apply IH.
  Qed.

  Lemma dec_all_safe l : forall H c cache, safe H (dec_all cf l c cache) Ptrue.
  Proof.
    induction l as [|[h n] t IH]; intros H c cache; simpl; [exact I|].
    sb dec_handle_safe. apply IH.
  Qed.

  Lemma release_loop_safe fuel : forall H c opts hint cache, safe H (release_loop cf fuel c opts hint cache) Ptrue.
  Proof.
    induction fuel as [|f IH]; intros H c opts hint cache; simpl; [exact I|].
    sb safe_get_block. destruct r as [[b brev]|e]; [|destruct e; sret].
    destruct (blk_release b opts) as [[[b' un] cnt]|e] eqn:BR; [|sret].
    dif; [sret|].
    eapply (@Cas.safeQ_bind key value lopt create_ok update_ok delete_ok VI) with (P := Ptrue).
    { dif; [apply safe_delete_block|].
      sb safe_update_block; [exact P | eapply blk_release_trans; eauto |]. destruct r; sret. }
    cbv beta; intros H1 r E1 P1. destruct r as [u|e].
    - sb dec_all_safe. sret.
    - destruct e; try sret. apply IH.
  Qed.

  Lemma release_ips_safe H opts hint : safe H (release_ips cf opts hint) Ptrue.
  Proof.
    unfold release_ips. destruct opts as [|[a oh] t]; [sret|].
    dif; [|apply release_loop_safe].
    apply safe_act; [exact I|]. intros H' rs E HO OK. destruct rs; try sret. apply release_loop_safe.
  Qed.

  Lemma rbh_one_safe fuel : forall H c h, safe H (rbh_one_w cf fy fuel c h) Ptrue.
  Proof.
    induction fuel as [|f IH]; intros H c h; simpl; [exact I|].
    sb safe_get_block. destruct r as [[b brev]|e]; [|destruct e; sret].
    destruct (blk_release_by_handle b h) as [b' n] eqn:BR.
    destruct n as [|n]; [sret|].
    dif.
    - sb safe_delete_block. destruct r as [u|e]; [sb dec_handle_safe; sret|].
      destruct e; try sret; [destruct fy; [sret | sb dec_handle_safe; sret] | apply IH].
    - sb safe_update_block; [exact P | eapply blk_release_by_handle_trans; eauto |].
      destruct r as [[b2 rev2]|e]; [sb dec_handle_safe; sret|].
      destruct e; try sret. apply IH.
  Qed.

  Lemma rbh_blocks_safe cs : forall H h, safe H (rbh_blocks_w cf fy cs h) Ptrue.
  Proof.
    induction cs as [|c t IH]; intros H h; simpl; [exact I|].
    sb rbh_one_safe. destruct r; [apply IH | sret].
  Qed.

  Lemma release_by_handle_safe H h hint : safe H (release_by_handle_w cf fy h hint) Ptrue.
  Proof.
    unfold release_by_handle_w. sb safe_get_handle. destruct r as [[m rev]|e]; [apply rbh_blocks_safe | sret].
  Qed.

  Lemma release_block_affinity_safe H host c must : safe H (release_block_affinity host c must) Ptrue.
  Proof.
    unfold release_block_affinity. sb safe_get_aff. destruct r as [[st affrev]|e]; [|sret].
    sb safe_get_block. destruct r as [[b brev]|e]; [|sret].
    dif; [sb safe_delete_aff; sret|].
    dif; [sret|].
    sb safe_update_aff. destruct r as [affrev'|e]; [|sret].
    assert (FIN : forall H', safe H' (d2 <- delete_aff host c affrev' ;;
                                      match d2 with
                                      | inl _ => Ret (inl tt)
                                      | inr ENotFound => Ret (inl tt)
                                      | inr e => Ret (inr e)
                                      end) (@Ptrue (res unit))).
    { intros H'. sb safe_delete_aff. destruct r as [u|e]; [sret|]. destruct e; sret. }
    dif.
    - sb safe_delete_block. destruct r as [u|e]; [apply FIN|]. destruct e; try sret. apply FIN.
    - sb safe_update_block; [eapply known_mono; eauto | apply btrans_clear_aff |].
      destruct r as [[b2 rev2]|e]; [apply FIN | sret].
  Qed.

  Lemma release_aff_loop_safe fuel : forall H host c must, safe H (release_aff_loop fuel host c must) Ptrue.
  Proof.
    induction fuel as [|f IH]; intros H host c must; simpl; [exact I|].
    sb release_block_affinity_safe. destruct r as [u|e]; [sret|]. destruct e; try sret. apply IH.
  Qed.

  Lemma claim_aff_loop_safe fuel : forall H host c, safe H (claim_aff_loop_v cf fx fuel host c) Ptrue.
  Proof.
    induction fuel as [|f IH]; intros H host c; simpl; [exact I|].
    sb get_pending_aff_safe. destruct r as [[st affrev]|e].
    - sb claim_affine_block_safe. destruct r as [[b brev]|e]; [sret|]. destruct e; try sret. apply IH.
    - destruct e; try sret. apply IH.
  Qed.

  (* ---------------------------------------------------------------- MaxAllocToHandlePerIPVersion *)
  (* address a is recorded for handle h (whatever the attributes) in a version of its block that was written *)
  Definition recorded_h (H : hist) (h a : N) : Prop :=
    exists rev c b o x, H rev = Some (KBlock c, VBlock b) /\ owner_of b o = Some x /\ at_handle x = Some h /\
                        (a = (bk_cidr b + N.of_nat o)%N \/ o = ordinal_of b a).
  Lemma recorded_h_mono H H' h a : hext H H' -> recorded_h H h a -> recorded_h H' h a.
  Proof. intros E (rev & c & b & o & x & A & B). exists rev, c, b, o, x. split; auto. Qed.
  Lemma Forall_recorded_h_mono H H' h l : hext H H' -> Forall (recorded_h H h) l -> Forall (recorded_h H' h) l.
  Proof. intros E F. eapply Forall_impl; [|apply F]. intros a. apply recorded_h_mono; auto. Qed.
  Lemma recorded_recorded_h H h tag a : recorded H h tag a -> recorded_h H h a.
  Proof. intros (rev & c & b & o & A & B & C). exists rev, c, b, o, {| at_handle := Some h; at_tag := tag |}. auto. Qed.

  Lemma ips_of_recorded H c b rev h : known H c b rev -> Forall (recorded_h H h) (ips_of b h).
  Proof.
    intros (KH & _). apply Forall_forall. intros a X. unfold ips_of in X. apply in_map_iff in X.
    destruct X as (o & <- & X). apply filter_In in X. destruct X as [_ X].
    destruct (owner_of b o) as [x|] eqn:OO; [|discriminate]. apply optN_eqb_eq in X.
    exists rev, c, b, o, x. auto.
  Qed.

  Lemma inc_handle_m_safe fuel : forall h c n ma H, safe H (inc_handle_m fuel h c n ma) Ptrue.
  Proof.
    induction fuel as [|f IH]; intros h c n ma H; simpl; [exact I|].
    sb safe_get_handle. destruct r as [[m rev]|e].
    - dif; [sret|]. sb safe_update_handle. destruct r; [sret | apply IH].
    - destruct e; try sret. dif; [sret|]. sb safe_create_handle. destruct r; [sret | apply IH].
  Qed.

  Lemma ibh_blocks_safe cs : forall h acc H, Forall (recorded_h H h) acc ->
    safe H (ibh_blocks cs h acc) (fun H' l => Forall (recorded_h H' h) l).
  Proof.
    induction cs as [|c t IH]; intros h acc H F; simpl; [exact F|].
    sb safe_get_block. destruct r as [[b rev]|e].
    - apply IH. apply Forall_app. split; [eapply Forall_recorded_h_mono; eauto | eapply ips_of_recorded; eauto].
    - apply IH. eapply Forall_recorded_h_mono; eauto.
  Qed.

  Definition Pmax (h : N) (H : hist) (r : option (list N)) : Prop :=
    match r with Some ips => Forall (recorded_h H h) ips | None => True end.

  Lemma handle_max_safe H h num hint : safe H (handle_max h num hint) (Pmax h).
  Proof.
    unfold handle_max, ips_by_handle.
    eapply (@Cas.safeQ_bind key value lopt create_ok update_ok delete_ok VI) with
      (P := fun H' (r : res (list N)) => match r with inl l => Forall (recorded_h H' h) l | inr _ => True end).
    - sb safe_get_handle. destruct r as [[m rev]|e]; [|sret].
      sb ibh_blocks_safe; [constructor|]. sret.
    - cbv beta. intros H' r E P. destruct r as [ips|e]; [|sret]. dif; [|sret].
      sret. clear - P. revert num. induction P; intros [|n]; simpl; constructor; auto.
  Qed.

  Definition Pafm (h : N) (H : hist) (r : afm) : Prop :=
    match r with AOk ips => Forall (recorded_h H h) ips | _ => True end.

  Lemma assign_from_block_m_safe H b rev c num h tag host ac ma :
    known H c b rev -> safe H (assign_from_block_m cf (b, rev) c num h tag host ac ma) (Pafm h).
  Proof.
    intros KN. unfold assign_from_block_m.
    destruct (blk_auto_assign b num h tag ac host) as [[b' ips]|] eqn:AA; [|sret].
    destruct ips as [|a0 ips']; [sret; constructor|].
    remember (a0 :: ips') as ips.
    destruct (blk_auto_assign_trans _ _ _ _ _ _ _ _ AA) as [BT REC].
    sb inc_handle_m_safe. destruct r as [|e|]; try sret.
    sb safe_update_block; [eapply known_mono; eauto | exact BT |].
    destruct r as [[b2 rev2]|e].
    - sret. destruct P0 as [(KH & I2 & C2) ->].
      destruct KN as (_ & I0 & _).
      apply Forall_forall. intros a Hin. destruct (REC I0 a Hin) as (o & EA & OW).
      exists rev2, c, (bump b'), o, {| at_handle := Some h; at_tag := tag |}. auto.
    - sb dec_handle_safe. sret.
  Qed.

  Definition Plh (h : N) (H : hist) (l : list N) : Prop := Forall (recorded_h H h) l.

  Lemma assign_retry_m_safe fuel : forall H b rev c rem num h tag host ma hint,
    known H c b rev -> safe H (assign_retry_m cf fuel (b, rev) c rem num h tag host ma hint) (Plh h).
  Proof.
    induction fuel as [|f IH]; intros H b rev c rem num h tag host ma hint KN; simpl; [constructor|].
    sb assign_from_block_m_safe; [exact KN|]. destruct r as [ips|e|].
    - sret.
    - destruct e; try (sret; constructor).
      sb safe_get_block. destruct r as [[b' rev']|e]; [|sret; constructor]. apply IH. exact P0.
    - sb handle_max_safe. destruct r as [ips|]; [sret|].
      sb safe_get_block. destruct r as [[b' rev']|e]; [|sret; constructor]. apply IH. exact P1.
  Qed.

  Lemma na_try_m_safe fuel : forall H c rem num h tag host ma hint,
    safe H (na_try_m cf fuel c rem num h tag host ma hint) (fun H' r => Forall (recorded_h H' h) (fst r)).
  Proof.
    induction fuel as [|f IH]; intros H c rem num h tag host ma hint; simpl; [constructor|].
    sb safe_get_block. destruct r as [[b rev]|e]; [|sret; constructor].
    sb assign_from_block_m_safe; [exact P|]. destruct r as [ips|e|].
    - sret.
    - destruct e; try (sret; constructor). apply IH.
    - sb handle_max_safe. destruct r as [ips|]; [sret | apply IH].
  Qed.

  Lemma na_loop_m_safe order : forall H ips num h tag host ma hint,
    Forall (recorded_h H h) ips -> safe H (na_loop_m cf order ips num h tag host ma hint) (Plh h).
  Proof.
    induction order as [|c rest IH]; intros H ips num h tag host ma hint F; simpl; [exact F|].
    dif; [sret|].
    sb na_try_m_safe.
    assert (FA : Forall (recorded_h H0 h) (ips ++ fst r)).
    { apply Forall_app. split; [eapply Forall_recorded_h_mono; eauto | exact P]. }
    dif; [sret | apply IH; exact FA].
  Qed.

  Definition Presm (h : N) (H : hist) (r : result) : Prop :=
    match r with ResIPs ips _ => Forall (recorded_h H h) ips | _ => True end.

  Lemma aa_loop_m_safe fuel : forall H ips rem_aff owned num h tag host ma hint,
    Forall (recorded_h H h) ips -> safe H (aa_loop_m cf fx fuel ips rem_aff owned num h tag host ma hint) (Presm h).
  Proof.
    induction fuel as [|f IH]; intros H ips rem_aff owned num h tag host ma hint F; simpl.
    - dif; sret.
    - dif; [sret|].
      sb find_or_claim_safe. destruct r as [[[[[b rev] c] newly]|e] rem'].
      + sb assign_retry_m_safe; [exact P|]. apply IH. apply Forall_app.
        split; [|exact P0]. eapply Forall_recorded_h_mono; [|exact F].
        eapply (@Cas.hext_trans key value); eauto.
      + assert (F0 : Forall (recorded_h H0 h) ips) by (eapply Forall_recorded_h_mono; eauto).
        destruct e; try sret.
        dif; [|sret].
        sb na_loop_m_safe; [exact F0|]. sret.
  Qed.

  Lemma auto_assign_m_safe H host h tag num ma hint : safe H (auto_assign_m cf fx host h tag num ma hint) (Presm h).
  Proof.
    unfold auto_assign_m. apply safe_act; [exact I|]. intros H' rs E HO OK.
    destruct rs; try (sret; constructor). apply aa_loop_m_safe. constructor.
  Qed.

  (* AssignIP with MaxAlloc: success only if the address is recorded for the handle in a written block version
     (or the ordinal lies outside the allocation array, impossible for an address of the block) *)
  Definition Paipm (h a : N) (H : hist) (r : result) : Prop :=
    match r with
    | ResErr ENone => recorded_h H h a \/
                      exists rev b, H rev = Some (KBlock (block_of cf a), VBlock b) /\ (length (bk_allocs b) <= ordinal_of b a)%nat
    | _ => True
    end.

  Lemma assign_ip_loop_m_safe fuel : forall H host h tag a ma hint,
    safe H (assign_ip_loop_m cf fx fuel host h tag a ma hint) (Paipm h a).
  Proof.
    induction fuel as [|f IH]; intros H host h tag a ma hint; simpl; [exact I|].
    set (c := block_of cf a).
    assert (CONT : forall H1 b brev, known H1 c b brev ->
      safe H1
        (match blk_assign b a h tag (cf_strict cf) host with
         | inr EExists =>
             match owner_of b (ordinal_of b a) with
             | Some x => if optN_eqb (at_handle x) (Some h) then Ret (ResErr ENone) else Ret (ResErr EExists)
             | None => Ret (ResErr EExists)
             end
         | inr e => Ret (ResErr (nz e))
         | inl b' =>
             i <- inc_handle_m (cf_retries cf) h c 1 ma ;;
             match i with
             | IMax =>
                 hm <- handle_max h 1 hint ;;
                 match hm with
                 | None => assign_ip_loop_m cf fx f host h tag a ma hint
                 | Some ips => if existsb (N.eqb a) ips then Ret (ResErr ENone) else Ret (ResErr EOther)
                 end
             | IErr _ => Ret (ResErr EOther)
             | IOk =>
                 w <- update_block c b' brev ;;
                 match w with
                 | inl _ => Ret (ResErr ENone)
                 | inr EConflict => u_ <- dec_handle false (cf_retries cf) h c 1 None ;; assign_ip_loop_m cf fx f host h tag a ma hint
                 | inr e => u_ <- dec_handle false (cf_retries cf) h c 1 None ;; Ret (ResErr (nz e))
                 end
             end
         end) (Paipm h a)).
    { intros H1 b brev KN.
      destruct (blk_assign b a h tag (cf_strict cf) host) as [b'|e] eqn:BA.
      - assert (BT : btrans b b') by (destruct (blk_assign_trans _ _ _ _ _ _ _ BA) as [[X _]|[X _]]; exact X).
        sb inc_handle_m_safe. destruct r as [|e|].
        + sb safe_update_block; [eapply known_mono; eauto | exact BT |].
          destruct r as [[b2 rev2]|e].
          * sret. destruct P0 as [(KH & _ & _) ->].
            destruct (blk_assign_trans _ _ _ _ _ _ _ BA) as [[_ OW]|[_ L]].
            -- left. exists rev2, c, (bump b'), (ordinal_of b a), {| at_handle := Some h; at_tag := tag |}.
               split; [exact KH|]. split; [exact OW|]. split; [reflexivity|]. right.
               unfold ordinal_of. simpl. destruct BT as [C _]. rewrite C. reflexivity.
            -- right. exists rev2, (bump b'). split; [exact KH|].
               destruct BT as [C _]. unfold ordinal_of in *. simpl. rewrite C.
               assert (LEN : length (bk_allocs b') = length (bk_allocs b)).
               { clear - BA. unfold blk_assign in BA. destruct (negb (aff_check_ok b (cf_strict cf) host)); [discriminate|].
                 destruct (nth (ordinal_of b a) (bk_allocs b) None); [discriminate|].
                 destruct (find_or_add_attr _ _). inversion BA; subst; simpl. apply set_nth_opt_length. }
               rewrite LEN. exact L.
          * destruct e; try (sb dec_handle_safe; sret). sb dec_handle_safe. apply IH.
        + sret.
        + sb handle_max_safe. destruct r as [ips|]; [|apply IH].
          destruct (existsb (N.eqb a) ips) eqn:EX; [|sret].
          sret. left. apply existsb_exists in EX. destruct EX as (y & Y & EQ). apply N.eqb_eq in EQ. subst y.
          simpl in P0. rewrite Forall_forall in P0. apply P0; auto.
      - destruct e; try sret.
        destruct (owner_of b (ordinal_of b a)) as [x|] eqn:OO; [|sret].
        destruct (optN_eqb (at_handle x) (Some h)) eqn:EH; [|sret].
        sret. left. apply optN_eqb_eq in EH. destruct KN as (KH & _).
        exists brev, c, b, (ordinal_of b a), x. auto. }
    sb safe_get_block. destruct r as [[b brev]|e].
    - apply CONT; exact P.
    - destruct e; try sret.
      sb get_pending_aff_safe. destruct r as [[st affrev]|e].
      + sb claim_affine_block_safe. destruct r as [[b brev]|e].
        * apply CONT; exact P1.
        * destruct e; try sret. apply IH.
      + destruct e; try sret. apply IH.
  Qed.

  (* what a completed operation guarantees about its result *)
  Definition op_post (o : op) (H : hist) (r : result) : Prop :=
    match o with
    | OpAutoAssign h tag _ => Pres h tag H r
    | OpAssignIP h tag a => Paip h tag a H r
    | OpAutoAssignM h _ _ _ _ => Presm h H r
    | OpAssignIPM h _ a _ _ => Paipm h a H r
    | _ => True
    end.

  Theorem compile_safe H host o : safe H (compile_w cf fx fy host o) (op_post o).
  Proof.
    destruct o; unfold compile_w; cbv beta iota.
    - apply auto_assign_safe.
    - apply assign_ip_loop_safe.
    - apply release_ips_safe.
    - apply release_by_handle_safe.
    - apply claim_aff_loop_safe.
    - apply release_aff_loop_safe.
    - apply auto_assign_m_safe.
    - apply assign_ip_loop_m_safe.
  Qed.

  (* a client = its operations in sequence; it returns every (operation, result) pair (acc: the pairs of the
     operations completed so far, most recent first) *)
  Fixpoint run_ops_acc (host : N) (ops : list op) (acc : list (op * result)) : prog (list (op * result)) :=
    match ops with
    | [] => Ret (rev acc)
    | o :: t => Cas.bind (compile_w cf fx fy host o) (fun r => run_ops_acc host t ((o, r) :: acc))
    end.
  Definition run_ops (host : N) (ops : list op) : prog (list (op * result)) := run_ops_acc host ops [].

  Definition Qclient (H : hist) (l : list (op * result)) : Prop :=
    Forall (fun p => op_post (fst p) H (snd p)) l.

  Lemma recorded_at_mono H H' h tag a : hext H H' -> recorded_at H h tag a -> recorded_at H' h tag a.
  Proof. intros E (rev & b & A & B). exists rev, b. auto. Qed.

  Lemma op_post_mono o H H' r : hext H H' -> op_post o H r -> op_post o H' r.
  Proof.
    intros E. destruct o; simpl; auto.
    - destruct r; simpl; auto. apply Forall_recorded_mono; auto.
    - destruct r; simpl; auto. destruct e; auto. apply recorded_at_mono; auto.
    - destruct r; simpl; auto. apply Forall_recorded_h_mono; auto.
    - destruct r; simpl; auto. destruct e; auto. intros [X|(rev & b & A & B)]; [left; eapply recorded_h_mono; eauto | right; exists rev, b; auto].
  Qed.

  Lemma Qclient_mono : Cas.Qmono Qclient.
  Proof.
    intros H H' l E F. eapply Forall_impl; [|apply F]. intros [o r]. apply op_post_mono; auto.
  Qed.

  Lemma run_ops_acc_safe host ops : forall acc H, Qclient H acc -> safe H (run_ops_acc host ops acc) Qclient.
  Proof.
    induction ops as [|o t IH]; intros acc H QA; simpl.
    - unfold Qclient in *. apply Forall_rev. exact QA.
    - sb compile_safe. apply IH. constructor; [exact P|].
      eapply Qclient_mono; eauto.
  Qed.
  Lemma run_ops_safe host ops : forall H, safe H (run_ops host ops) Qclient.
  Proof. intros H. apply run_ops_acc_safe. constructor. Qed.

  (* ---------------------------------------------------------------- the system: any number of clients *)
  Definition sys0 (clients : list (N * list op)) : Cas.sys key value lopt (list (op * result)) :=
    {| sy_store := init_store;
       sy_clients := map (fun hc => CRun (run_ops (fst hc) (snd hc))) clients |}.

  Definition hist0 : hist := fun _ => None.

  Notation sys_ok := (@Cas.sys_ok key value lopt create_ok update_ok delete_ok VI (list (op * result)) Qclient).
  Notation sys_run := (@Cas.sys_run key value lopt key_eqb key_ltb lmatch (list (op * result))).
  Notation sys_step := (@Cas.sys_step key value lopt key_eqb key_ltb lmatch (list (op * result))).

  Lemma sys0_ok clients : sys_ok (sys0 clients) hist0.
  Proof.
    split; [|split].
    - split; simpl; [intros e []|intros r kv X; discriminate].
    - intros r k v X; discriminate.
    - simpl. apply Forall_forall. intros c Hin. apply in_map_iff in Hin. destruct Hin as ([host ops] & <- & _).
      simpl. apply run_ops_safe.
  Qed.

  (* T1: in every reachable datastore, every block is stored under its own CIDR and satisfies the block
     invariant: the FIFO of free ordinals has no duplicates and holds only ordinals that have no owner, so an
     address that has an owner can never be handed out again before it is released; and each ordinal has at
     most one owner attribute (owner_of is a function of the block). *)
  Lemma reachable_blocks_wf clients evs e :
    In e (st_ents (sy_store (sys_run (sys0 clients) evs))) ->
    match e_key e, e_val e with
    | KBlock c, VBlock b => I_b b /\ bk_cidr b = c
    | KBlock _, _ => False
    | _, _ => True
    end.
  Proof.
    intros Hin.
    apply (@Cas.safe_system_values key value lopt key_eqb key_ltb lmatch key_eqb_eq
             create_ok update_ok delete_ok VI vi_create vi_update (list (op * result)) Qclient Qclient_mono
             (sys0 clients) hist0 evs e (sys0_ok clients) Hin).
  Qed.

  (* T1, temporal half: every step of every execution changes the datastore by at most one allowed
     transformation of the CURRENT value of one key; for a block that transformation keeps the invariant and
     never changes the owner of an allocated address (it keeps its owner or becomes free). *)
  Lemma reachable_step_effect clients evs ev :
    Cas.effect key_eqb key_ltb create_ok update_ok delete_ok
      (sy_store (sys_run (sys0 clients) evs)) (sy_store (sys_step (sys_run (sys0 clients) evs) ev)).
  Proof.
    apply (@Cas.safe_system_steps key value lopt key_eqb key_ltb lmatch key_eqb_eq
             create_ok update_ok delete_ok VI vi_create vi_update (list (op * result)) Qclient Qclient_mono
             (sys0 clients) hist0 evs ev (sys0_ok clients)).
  Qed.

  Lemma block_update_no_steal c b0 v : update_ok (KBlock c) (VBlock b0) v -> I_b b0 ->
    exists b1, v = VBlock b1 /\ bk_cidr b1 = bk_cidr b0 /\ I_b b1 /\
               forall o x, owner_of b0 o = Some x -> owner_of b1 o = Some x \/ owner_of b1 o = None.
  Proof.
    simpl. destruct v as [b1| |]; try tauto. intros [C T] I0. destruct (T I0) as [I1 F].
    exists b1. split; [reflexivity|]. split; [exact C|]. split; [exact I1 | exact F].
  Qed.

  (* T2: when a client has completed its operations, every address returned by each of its AutoAssign calls
     is recorded, for the caller's handle and attributes, in a version of its block that was really written
     to the datastore (H' is a history of the writes that happened, consistent with the final store). *)
  Lemma completed_results_recorded clients evs i l :
    nth_error (sy_clients (sys_run (sys0 clients) evs)) i = Some (CRun (Ret l)) ->
    exists H', Cas.store_hist (sy_store (sys_run (sys0 clients) evs)) H' /\ hist_ok H' /\
      Forall (fun p => op_post (fst p) H' (snd p)) l.
  Proof.
    intros NE.
    destruct (@Cas.safe_system_results key value lopt key_eqb key_ltb lmatch key_eqb_eq
             create_ok update_ok delete_ok VI vi_create vi_update (list (op * result)) Qclient Qclient_mono
             (sys0 clients) hist0 evs i l (sys0_ok clients) NE) as (H' & _ & SH & HO & Q).
    exists H'. auto.
  Qed.
End OpsSafe.

(* spelled-out form of the block invariant for the statement of c19_single_owner *)
Lemma reachable_blocks_single_owner cf fx fy clients evs e c b :
  In e (st_ents (sy_store (@Cas.sys_run key value lopt key_eqb key_ltb lmatch (list (op * result)) (sys0 cf fx fy clients) evs))) ->
  e_key e = KBlock c -> e_val e = VBlock b ->
  bk_cidr b = c /\ NoDup (bk_unalloc b) /\
  (forall o, In o (bk_unalloc b) -> owner_of b o = None) /\
  (forall o x y, owner_of b o = Some x -> owner_of b o = Some y -> x = y).
Proof.
  intros Hin EK EV. pose proof (reachable_blocks_wf cf fx fy clients evs e Hin) as W. rewrite EK, EV in W.
  destruct W as [(ND & FREE & _) C]. split; auto. split; auto. split.
  - intros o Ho. destruct (FREE o Ho) as [FN _]. unfold owner_of. rewrite FN. reflexivity.
  - intros o x y A B. congruence.
Qed.

(* each block CIDR (hence each address) is held by at most one entry of any reachable datastore *)
Lemma reachable_one_block_per_cidr cf fx fy clients evs e1 e2 c b1 b2 :
  let s := sy_store (@Cas.sys_run key value lopt key_eqb key_ltb lmatch (list (op * result)) (sys0 cf fx fy clients) evs) in
  In e1 (st_ents s) -> In e2 (st_ents s) ->
  e_key e1 = KBlock c -> e_val e1 = VBlock b1 -> e_key e2 = KBlock (bk_cidr b2) -> e_val e2 = VBlock b2 ->
  bk_cidr b1 = bk_cidr b2 -> e1 = e2.
Proof.
  intros s H1 H2 K1 V1 K2 V2 EQ.
  pose proof (reachable_blocks_wf cf fx fy clients evs e1 H1) as W1. rewrite K1, V1 in W1. destruct W1 as [_ C1].
  eapply (@Cas.NoDup_keys_inj key value); eauto.
  - apply (@Cas.sys_run_keys key value lopt key_eqb key_ltb lmatch key_eqb_eq (list (op * result))).
    simpl. constructor.
  - rewrite K1, K2. congruence.
Qed.
