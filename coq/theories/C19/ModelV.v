(* C19 — the client programs that contain claimAffineBlock, re-stated with a variant flag [fx] (the rest of the
   model is Model.v, whose definitions are left untouched because C20 and C22 build on them):
     fx = false : claimAffineBlock, on "the block already exists and is affine to this host", confirms the affinity
                  at once (the pinned code);
     fx = true  : it first writes the block back (SequenceNumber++, compare-and-swap) and returns the new version
                  (fixes/C22-claim-existing-block-bumps-revision.patch: one more datastore access on that path).
   The driver probes which variant the tree under test has and passes it in every case (c_fx); every theorem of
   Props.v is stated for all fx.  With fx = false each program below is, textually, the program of Model.v. *)
From Coq Require Import List NArith Bool Arith.
From Verif.Common Require Import Cas.
From Verif.C19 Require Import Model.
Import ListNotations.
Open Scope N_scope.

Section OpsV.
  Variable cf : config.
  Variable fx : bool.
  Let R := cf_retries cf.

  (* blockReaderWriter.claimAffineBlock *)
  Definition claim_affine_block_v (host c : N) (affrev : N) : prog (res (block * N)) :=
    w <- create_block c (new_block cf c host) ;;
    match w with
    | inl bk =>
        r <- confirm_aff host c affrev ;;
        match r with inr e => Ret (inr e) | inl _ => Ret (inl bk) end
    | inr EExists =>
        g <- get_block c ;;
        match g with
        | inr e => Ret (inr e)
        | inl (b, brev) =>
            if optN_eqb (bk_aff b) (Some host) then
              if fx then
                (* fixes/C22-claim-existing-block-bumps-revision.patch: CAS the block (SequenceNumber++) first *)
                u <- update_block c b brev ;;
                match u with
                | inr e => Ret (inr e)
                | inl bk' =>
                    r <- confirm_aff host c affrev ;;
                    match r with inr e => Ret (inr e) | inl _ => Ret (inl bk') end
                end
              else
                r <- confirm_aff host c affrev ;;
                match r with inr e => Ret (inr e) | inl _ => Ret (inl (b, brev)) end
            else
              u_ <- delete_aff host c affrev ;; Ret (inr EClaimConflict)
        end
    | inr e => Ret (inr e)
    end.


  (* ipamClient.getBlockFromAffinity *)
  Definition get_block_from_aff_v (host c : N) (aff : affst * N) : prog (res (block * N)) :=
    let '(st, affrev) := aff in
    g <- get_block c ;;
    match g with
    | inr ENotFound =>
        u <- update_aff host c APending affrev ;;
        match u with
        | inr e => Ret (inr e)
        | inl rev' => claim_affine_block_v host c rev'
        end
    | inr e => Ret (inr e)
    | inl (b, brev) =>
        if negb (optN_eqb (bk_aff b) (Some host)) then
          d <- delete_aff host c affrev ;;
          match d with inr e => Ret (inr e) | inl _ => Ret (inr EStale) end
        else if affst_eqb st AConfirmed then Ret (inl (b, brev))
        else
          u <- update_aff host c APending affrev ;;
          match u with
          | inr e => Ret (inr e)
          | inl rev1 =>
              w <- update_block c b brev ;;
              match w with
              | inr e => Ret (inr e)
              | inl bk' =>
                  u2 <- update_aff host c AConfirmed rev1 ;;
                  match u2 with inr e => Ret (inr e) | inl _ => Ret (inl bk') end
              end
          end
    end.


  (* findOrClaimBlock, first half: one existing affine block, with its CAS retry loop *)
  Fixpoint try_affine_v (fuel : nat) (host c : N) : prog (option (block * N)) :=
    match fuel with
    | O => Ret None
    | S f =>
      r <- get_aff host c ;;
      match r with
      | inr _ => Ret None
      | inl aff =>
          g <- get_block_from_aff_v host c aff ;;
          match g with
          | inr EConflict => try_affine_v f host c
          | inr _ => Ret None
          | inl (b, brev) => if Nat.leb 1 (num_free b) then Ret (Some (b, brev)) else Ret None
          end
      end
    end.

  Fixpoint scan_affine_v (rem : list N) (host : N) : prog (option (block * N * N) * list N) :=
    match rem with
    | [] => Ret (None, [])
    | c :: rest =>
        r <- try_affine_v R host c ;;
        match r with
        | Some bk => Ret (Some (bk, c), rest)
        | None => scan_affine_v rest host
        end
    end.


  Fixpoint claim_inner_v (fuel : nat) (host c : N) : prog claim_res :=
    match fuel with
    | O => Ret CRAgain
    | S f =>
      pa <- get_pending_aff host c ;;
      match pa with
      | inr EConflict => claim_inner_v f host c
      | inr e => Ret (CRErr e)
      | inl aff =>
          g <- get_block_from_aff_v host c aff ;;
          match g with
          | inr EConflict => claim_inner_v f host c
          | inr EClaimConflict => Ret CRAgain
          | inr EStale => Ret CRAgain
          | inr e => Ret (CRErr e)
          | inl (b, brev) => if Nat.leb 1 (num_free b) then Ret (CRBlock (b, brev)) else Ret (CRErr EOther)
          end
      end
    end.

  Fixpoint claim_outer_v (fuel : nat) (host : N) : prog (res (block * N * N)) :=
    match fuel with
    | O => Ret (inr EMaxRetries)
    | S f =>
      u <- find_usable cf host ;;
      match u with
      | inr e => Ret (inr e)
      | inl c =>
          r <- claim_inner_v R host c ;;
          match r with
          | CRBlock bk => Ret (inl (bk, c))
          | CRAgain => claim_outer_v f host
          | CRErr e => Ret (inr e)
          end
      end
    end.

  (* findOrClaimBlock: result, remaining affine blocks, newly claimed? *)
  Definition find_or_claim_v (rem : list N) (host : N) (allow_new : bool)
    : prog (res (block * N * N * bool) * list N) :=
    s <- scan_affine_v rem host ;;
    match s with
    | (Some (bk, c), rest) => Ret (inl (bk, c, false), rest)
    | (None, _) =>
        if negb allow_new then Ret (inr EBlockLimit, [])
        else if cf_autoalloc cf then
          r <- claim_outer_v R host ;;
          match r with
          | inl (bk, c) => Ret (inl (bk, c, true), [])
          | inr e => Ret (inr e, [])
          end
        else Ret (inr EOther, [])
    end.


  (* ipamClient.autoAssign: outer loop over blocks *)
  Fixpoint aa_loop_v (fuel : nat) (ips : list N) (rem_aff : list N) (owned : nat) (num : nat) (h tag host : N)
    : prog result :=
    if Nat.leb num (length ips) then Ret (ResIPs ips ENone) else
    match fuel with
    | O => Ret (ResIPs ips EOutOfModel)
    | S f =>
      fc <- find_or_claim_v rem_aff host (Nat.ltb owned (cf_maxblocks cf)) ;;
      match fc with
      | (inr ENoFree, _) =>
          if negb (cf_strict cf) then
            ips' <- na_loop cf (gen_order cf host) ips num h tag host ;; Ret (ResIPs ips' ENone)
          else Ret (ResIPs ips ENone)
      | (inr e, _) => Ret (ResIPs ips e)
      | (inl (bk, c, newly), rem') =>
          new <- assign_retry cf R bk c (num - length ips) h tag host ;;
          aa_loop_v f (ips ++ new) rem' (if newly then S owned else owned) num h tag host
      end
    end.


  Definition auto_assign_v (host h tag : N) (num : nat) : prog result :=
    Act (RList (LAffs host)) (fun rs =>
      match rs with
      | RListed es =>
          let affs := filter (in_pool cf) (aff_cidrs es) in
          aa_loop_v (S (S (cf_nblocks cf + cf_nblocks cf))) [] affs (length affs) num h tag host
      | _ => Ret (ResIPs [] EOther)
      end).


  (* ipamClient.AssignIP *)
  Fixpoint assign_ip_loop_v (fuel : nat) (host h tag : N) (a : N) : prog result :=
    let c := block_of cf a in
    match fuel with
    | O => Ret (ResErr EMaxRetries)
    | S f =>
      let continue (bk : block * N) : prog result :=
        let '(b, brev) := bk in
        match blk_assign b a h tag (cf_strict cf) host with
        | inr e => Ret (ResErr (nz e))
        | inl b' =>
            i <- inc_handle R h c 1 ;;
            match i with
            | inr _ => Ret (ResErr EOther)
            | inl _ =>
                w <- update_block c b' brev ;;
                match w with
                | inl _ => Ret (ResErr ENone)
                | inr EConflict =>
                    if cf_aip_leak cf then assign_ip_loop_v f host h tag a
                    else u_ <- dec_handle (cf_stale_cache cf) R h c 1 None ;; assign_ip_loop_v f host h tag a
                | inr e => u_ <- dec_handle (cf_stale_cache cf) R h c 1 None ;; Ret (ResErr (nz e))
                end
            end
        end in
      g <- get_block c ;;
      match g with
      | inr ENotFound =>
          pa <- get_pending_aff host c ;;
          match pa with
          | inr EConflict => assign_ip_loop_v f host h tag a
          | inr e => Ret (ResErr (nz e))
          | inl (_, affrev) =>
              cb <- claim_affine_block_v host c affrev ;;
              match cb with
              | inr EConflict => assign_ip_loop_v f host h tag a
              | inr e => Ret (ResErr (nz e))
              | inl bk => continue bk
              end
          end
      | inr e => Ret (ResErr (nz e))
      | inl bk => continue bk
      end
    end.

  Definition assign_ip_v (host h tag a : N) : prog result := assign_ip_loop_v R host h tag a.


  (* ipamClient.ClaimAffinity for a CIDR that is exactly one block *)
  Fixpoint claim_aff_loop_v (fuel : nat) (host c : N) : prog result :=
    match fuel with
    | O => Ret (ResClaim false false ENone)
    | S f =>
      pa <- get_pending_aff host c ;;
      match pa with
      | inr EConflict => claim_aff_loop_v f host c
      | inr e => Ret (ResClaim false false (nz e))
      | inl (_, affrev) =>
          cb <- claim_affine_block_v host c affrev ;;
          match cb with
          | inr EConflict => claim_aff_loop_v f host c
          | inr EClaimConflict => Ret (ResClaim false true ENone)
          | inr e => Ret (ResClaim false false (nz e))
          | inl _ => Ret (ResClaim true false ENone)
          end
      end
    end.


  Definition compile_v (host : N) (o : op) : prog result :=
    match o with
    | OpAutoAssign h tag num => auto_assign_v host h tag num
    | OpAssignIP h tag a => assign_ip_v host h tag a
    | OpRelease opts hint => release_ips cf opts hint
    | OpReleaseByHandle h hint => release_by_handle cf h hint
    | OpClaimAffinity c => claim_aff_loop_v R host c
    | OpReleaseAffinity c must => release_aff_loop R host c must
    | OpAutoAssignM _ _ _ _ _ | OpAssignIPM _ _ _ _ _ => Ret (ResErr EOutOfModel)   (* see compile_w *)
    end.
End OpsV.

(* after an access: collect finished operations and load the next one *)
Fixpoint settle_v (cf : config) (fx : bool) (fuel : nat) (host : N) (p : prog result) (todo : list op) (done : list result)
  : option (prog result) * list op * list result :=
  match p with
  | Act _ _ => (Some p, todo, done)
  | Ret r =>
      match todo, fuel with
      | o :: t, S f => settle_v cf fx f host (compile_v cf fx host o) t (done ++ [r])
      | _, _ => (None, todo, done ++ [r])
      end
  end.

Definition start_client_v (cf : config) (fx : bool) (host : N) (ops : list op) : client :=
  match ops with
  | [] => {| cl_host := host; cl_cur := None; cl_todo := []; cl_crashed := false |}
  | o :: t =>
      let '(cur, todo, _) := settle_v cf fx (length ops) host (compile_v cf fx host o) t [] in
      {| cl_host := host; cl_cur := cur; cl_todo := todo; cl_crashed := false |}
  end.

(* ------------------------------------------------------------------------------------------------------------
   MaxAllocToHandlePerIPVersion (ma > 0): incrementHandle refuses to go beyond ma addresses per handle
   (ErrMaxAllocReached, nothing written); the caller then looks for addresses the handle already has
   (handleMaxAllocReached -> IPsByHandle) and either reuses them (idempotent success), or retries ("a concurrent
   operation on the same handle is in progress"), or fails.  AssignIP also has the shortcut "address already
   assigned, and to this very handle -> success".  Programs of the fixed code only (handle incremented by the
   number of addresses taken; AssignIP rolls back before retrying).  hint = the order in which IPsByHandle visited
   the blocks of the handle (Go map iteration). *)
Section OpsM.
  Variable cf : config.
  Variable fx : bool.
  Let R := cf_retries cf.

  Definition htotal (m : hmap) : N := fold_right (fun p acc => (snd p + acc)%N) 0%N m.

  Definition ips_of (b : block) (h : N) : list N :=
    map (fun o => (bk_cidr b + N.of_nat o)%N)
        (filter (fun o => match owner_of b o with
                          | Some x => optN_eqb (at_handle x) (Some h)
                          | None => false end) (seq 0 (length (bk_allocs b)))).

  Inductive inc_res := IOk | IErr (e : err) | IMax.

  (* ipamClient.incrementHandle with maxAlloc > 0 *)
  Fixpoint inc_handle_m (fuel : nat) (h c : N) (n : N) (ma : N) : prog inc_res :=
    match fuel with
    | O => Ret (IErr EMaxRetries)
    | S f =>
      r <- get_handle h ;;
      match r with
      | inr ENotFound =>
          if N.ltb ma n then Ret IMax else
          w <- create_handle h (hinc [] c n) ;;
          match w with inl _ => Ret IOk | inr _ => inc_handle_m f h c n ma end
      | inr e => Ret (IErr e)
      | inl (m, rev) =>
          if N.ltb ma (htotal m + n) then Ret IMax else
          w <- update_handle h (hinc m c n) rev ;;
          match w with inl _ => Ret IOk | inr _ => inc_handle_m f h c n ma end
      end
    end.

  (* ipamClient.IPsByHandle *)
  Fixpoint ibh_blocks (cs : list N) (h : N) (acc : list N) : prog (list N) :=
    match cs with
    | [] => Ret acc
    | c :: t =>
        g <- get_block c ;;
        match g with
        | inr _ => ibh_blocks t h acc
        | inl (b, _) => ibh_blocks t h (acc ++ ips_of b h)
        end
    end.
  Definition ips_by_handle (h : N) (hint : list N) : prog (res (list N)) :=
    r <- get_handle h ;;
    match r with
    | inr e => Ret (inr e)
    | inl (m, _) => l <- ibh_blocks (map fst (order_by hint m)) h [] ;; Ret (inl l)
    end.

  (* ipamClient.handleMaxAllocReached: Some ips = enough existing addresses, reuse exactly num of them; None = retry *)
  Definition handle_max (h : N) (num : nat) (hint : list N) : prog (option (list N)) :=
    r <- ips_by_handle h hint ;;
    match r with
    | inr _ => Ret None
    | inl ips => if Nat.leb num (length ips) then Ret (Some (firstn num ips)) else Ret None
    end.

  Inductive afm := AOk (ips : list N) | AErr (e : err) | AMax.

  (* ipamClient.assignFromExistingBlock with maxAlloc *)
  Definition assign_from_block_m (bk : block * N) (c : N) (num : nat) (h tag : N) (host : N) (aff_check : bool) (ma : N)
    : prog afm :=
    let '(b, rev) := bk in
    match blk_auto_assign b num h tag aff_check host with
    | None => Ret (AErr EOther)
    | Some (b', ips) =>
      match ips with
      | [] => Ret (AOk [])
      | _ =>
        let cnt := N.of_nat (length ips) in
        i <- inc_handle_m R h c cnt ma ;;
        match i with
        | IMax => Ret AMax
        | IErr e => Ret (AErr e)
        | IOk =>
          w <- update_block c b' rev ;;
          match w with
          | inl _ => Ret (AOk ips)
          | inr e => u_ <- dec_handle false R h c cnt None ;; Ret (AErr e)
          end
        end
      end
    end.

  (* affine phase: the retry loop around one block; result = addresses to append *)
  Fixpoint assign_retry_m (fuel : nat) (bk : block * N) (c : N) (rem num : nat) (h tag host : N) (ma : N) (hint : list N)
    : prog (list N) :=
    match fuel with
    | O => Ret []
    | S f =>
      r <- assign_from_block_m bk c rem h tag host (cf_strict cf) ma ;;
      match r with
      | AOk ips => Ret ips
      | AErr EConflict =>
          g <- get_block c ;;
          match g with inr _ => Ret [] | inl bk' => assign_retry_m f bk' c rem num h tag host ma hint end
      | AMax =>
          hm <- handle_max h num hint ;;
          match hm with
          | Some ips => Ret ips
          | None =>
              g <- get_block c ;;
              match g with inr _ => Ret [] | inl bk' => assign_retry_m f bk' c rem num h tag host ma hint end
          end
      | AErr _ => Ret []
      end
    end.

  (* non-affine phase: one block; the flag says "enough existing addresses were found: stop looking" *)
  Fixpoint na_try_m (fuel : nat) (c : N) (rem num : nat) (h tag host : N) (ma : N) (hint : list N) : prog (list N * bool) :=
    match fuel with
    | O => Ret ([], false)
    | S f =>
      g <- get_block c ;;
      match g with
      | inr _ => Ret ([], false)
      | inl bk =>
          r <- assign_from_block_m bk c rem h tag host false ma ;;
          match r with
          | AOk ips => Ret (ips, false)
          | AErr EConflict => na_try_m f c rem num h tag host ma hint
          | AMax =>
              hm <- handle_max h num hint ;;
              match hm with
              | Some ips => Ret (ips, true)
              | None => na_try_m f c rem num h tag host ma hint
              end
          | AErr _ => Ret ([], false)
          end
      end
    end.

  Fixpoint na_loop_m (order : list N) (ips : list N) (num : nat) (h tag host : N) (ma : N) (hint : list N) : prog (list N) :=
    match order with
    | [] => Ret ips
    | c :: rest =>
        if Nat.leb num (length ips) then Ret ips
        else nf <- na_try_m R c (num - length ips) num h tag host ma hint ;;
             if snd nf then Ret (ips ++ fst nf) else na_loop_m rest (ips ++ fst nf) num h tag host ma hint
    end.

  Fixpoint aa_loop_m (fuel : nat) (ips : list N) (rem_aff : list N) (owned : nat) (num : nat) (h tag host : N)
           (ma : N) (hint : list N) : prog result :=
    if Nat.leb num (length ips) then Ret (ResIPs ips ENone) else
    match fuel with
    | O => Ret (ResIPs ips EOutOfModel)
    | S f =>
      fc <- find_or_claim_v cf fx rem_aff host (Nat.ltb owned (cf_maxblocks cf)) ;;
      match fc with
      | (inr ENoFree, _) =>
          if negb (cf_strict cf) then
            ips' <- na_loop_m (gen_order cf host) ips num h tag host ma hint ;; Ret (ResIPs ips' ENone)
          else Ret (ResIPs ips ENone)
      | (inr e, _) => Ret (ResIPs ips e)
      | (inl (bk, c, newly), rem') =>
          new <- assign_retry_m R bk c (num - length ips) num h tag host ma hint ;;
          aa_loop_m f (ips ++ new) rem' (if newly then S owned else owned) num h tag host ma hint
      end
    end.

  Definition auto_assign_m (host h tag : N) (num : nat) (ma : N) (hint : list N) : prog result :=
    Act (RList (LAffs host)) (fun rs =>
      match rs with
      | RListed es =>
          let affs := filter (in_pool cf) (aff_cidrs es) in
          aa_loop_m 64 [] affs (length affs) num h tag host ma hint
      | _ => Ret (ResIPs [] EOther)
      end).

  (* ipamClient.AssignIP with a handle and MaxAllocToHandlePerIPVersion > 0 *)
  Fixpoint assign_ip_loop_m (fuel : nat) (host h tag : N) (a : N) (ma : N) (hint : list N) : prog result :=
    let c := block_of cf a in
    match fuel with
    | O => Ret (ResErr EMaxRetries)
    | S f =>
      let continue (bk : block * N) : prog result :=
        let '(b, brev) := bk in
        match blk_assign b a h tag (cf_strict cf) host with
        | inr EExists =>
            (* already assigned: success iff it is assigned to this very handle *)
            match owner_of b (ordinal_of b a) with
            | Some x => if optN_eqb (at_handle x) (Some h) then Ret (ResErr ENone) else Ret (ResErr EExists)
            | None => Ret (ResErr EExists)
            end
        | inr e => Ret (ResErr (nz e))
        | inl b' =>
            i <- inc_handle_m R h c 1 ma ;;
            match i with
            | IMax =>
                hm <- handle_max h 1 hint ;;
                match hm with
                | None => assign_ip_loop_m f host h tag a ma hint
                | Some ips => if existsb (N.eqb a) ips then Ret (ResErr ENone) else Ret (ResErr EOther)
                end
            | IErr _ => Ret (ResErr EOther)
            | IOk =>
                w <- update_block c b' brev ;;
                match w with
                | inl _ => Ret (ResErr ENone)
                | inr EConflict => u_ <- dec_handle false R h c 1 None ;; assign_ip_loop_m f host h tag a ma hint
                | inr e => u_ <- dec_handle false R h c 1 None ;; Ret (ResErr (nz e))
                end
            end
        end in
      g <- get_block c ;;
      match g with
      | inr ENotFound =>
          pa <- get_pending_aff host c ;;
          match pa with
          | inr EConflict => assign_ip_loop_m f host h tag a ma hint
          | inr e => Ret (ResErr (nz e))
          | inl (_, affrev) =>
              cb <- claim_affine_block_v cf fx host c affrev ;;
              match cb with
              | inr EConflict => assign_ip_loop_m f host h tag a ma hint
              | inr e => Ret (ResErr (nz e))
              | inl bk => continue bk
              end
          end
      | inr e => Ret (ResErr (nz e))
      | inl bk => continue bk
      end
    end.
End OpsM.

(* A second variant flag, for releaseByHandle (fixes/C19-releasebyhandle-notfound-no-decrement.patch):
     fy = false : when the compare-and-delete of the emptied non-affine block answers "not found", releaseByHandle
                  goes on and decrements the handle although it released nothing (the pinned code);
     fy = true  : it returns at once.
   The driver probes the tree for fy as it does for fx. *)
Section OpsW.
  Variable cf : config.
  Variable fx fy : bool.
  Let R := cf_retries cf.

  (* ipamClient.releaseByHandle (one block) *)
  Fixpoint rbh_one_w (fuel : nat) (c h : N) : prog (res unit) :=
    match fuel with
    | O => Ret (inr EOutOfModel)
    | S f =>
      g <- get_block c ;;
      match g with
      | inr ENotFound => Ret (inl tt)
      | inr e => Ret (inr e)
      | inl (b, brev) =>
        let '(b', n) := blk_release_by_handle b h in
        match n with
        | O => Ret (inl tt)
        | _ =>
          let after : prog (res unit) := u_ <- dec_handle (cf_stale_cache cf) R h c (N.of_nat n) None ;; Ret (inl tt) in
          if blk_empty b' && optN_eqb (bk_aff b') None then
            w <- delete_block c brev ;;
            match w with
            | inr EConflict => rbh_one_w f c h
            | inr ENotFound => if fy then Ret (inl tt) else after
            | inl _ => after
            | inr e => Ret (inr e)
            end
          else
            w <- update_block c b' brev ;;
            match w with
            | inr EConflict => rbh_one_w f c h
            | inr e => Ret (inr e)
            | inl _ => after
            end
        end
      end
    end.

  Fixpoint rbh_blocks_w (cs : list N) (h : N) : prog result :=
    match cs with
    | [] => Ret (ResErr ENone)
    | c :: t =>
        r <- rbh_one_w R c h ;;
        match r with inr e => Ret (ResErr e) | inl _ => rbh_blocks_w t h end
    end.

  (* ipamClient.ReleaseByHandle *)
  Definition release_by_handle_w (h : N) (hint : list N) : prog result :=
    r <- get_handle h ;;
    match r with
    | inr e => Ret (ResErr e)
    | inl (m, _) => rbh_blocks_w (map fst (order_by hint m)) h
    end.


  Definition compile_w (host : N) (o : op) : prog result :=
    match o with
    | OpAutoAssign h tag num => auto_assign_v cf fx host h tag num
    | OpAssignIP h tag a => assign_ip_v cf fx host h tag a
    | OpRelease opts hint => release_ips cf opts hint
    | OpReleaseByHandle h hint => release_by_handle_w h hint
    | OpClaimAffinity c => claim_aff_loop_v cf fx R host c
    | OpReleaseAffinity c must => release_aff_loop R host c must
    | OpAutoAssignM h tag num ma hint => auto_assign_m cf fx host h tag num ma hint
    | OpAssignIPM h tag a ma hint => assign_ip_loop_m cf fx R host h tag a ma hint
    end.
End OpsW.

Fixpoint settle_w (cf : config) (fx fy : bool) (fuel : nat) (host : N) (p : prog result) (todo : list op) (done : list result)
  : option (prog result) * list op * list result :=
  match p with
  | Act _ _ => (Some p, todo, done)
  | Ret r =>
      match todo, fuel with
      | o :: t, S f => settle_w cf fx fy f host (compile_w cf fx fy host o) t (done ++ [r])
      | _, _ => (None, todo, done ++ [r])
      end
  end.

Definition start_client_w (cf : config) (fx fy : bool) (host : N) (ops : list op) : client :=
  match ops with
  | [] => {| cl_host := host; cl_cur := None; cl_todo := []; cl_crashed := false |}
  | o :: t =>
      let '(cur, todo, _) := settle_w cf fx fy (length ops) host (compile_w cf fx fy host o) t [] in
      {| cl_host := host; cl_cur := cur; cl_todo := todo; cl_crashed := false |}
  end.
