(* C45 — strings, ring entries and the order the ring sorts by (definitions used by Model.v), plus the
   totality of that order, which is all the standard library's merge sort needs to be instantiated.
   slices.SortFunc is modelled by Coq's stdlib merge sort ESort.sort (fast enough for rings of thousands
   of virtual nodes); isort (insertion sort) is the reference used in the theorems; both give the same
   list because a sorted permutation is unique (Order.sorted_perm_unique). *)
From Coq Require Import List NArith ZArith Arith Bool Orders Sorting.Mergesort.
Import ListNotations.
Open Scope N_scope.

Definition key := list N.
Definition two64 : N := 18446744073709551616.

(* Go string comparison: bytewise lexicographic *)
Fixpoint bytes_cmp (a b : list N) : comparison :=
  match a, b with
  | [], [] => Eq
  | [], _ :: _ => Lt
  | _ :: _, [] => Gt
  | x :: a', y :: b' => match N.compare x y with Eq => bytes_cmp a' b' | c => c end
  end.
Fixpoint key_eqb (a b : list N) : bool :=
  match a, b with
  | [], [] => true
  | x :: a', y :: b' => N.eqb x y && key_eqb a' b'
  | _, _ => false
  end.

Record entry := mkE { e_hash : N; e_key : key }.

(* the comparator passed to slices.SortFunc *)
Definition entry_cmp (a b : entry) : comparison :=
  match N.compare (e_hash a) (e_hash b) with
  | Eq => bytes_cmp (e_key a) (e_key b)
  | c => c
  end.
Definition entry_leb (a b : entry) : bool :=
  match entry_cmp a b with Gt => false | _ => true end.

Fixpoint ins_sorted (e : entry) (l : list entry) : list entry :=
  match l with
  | [] => [e]
  | x :: l' => if entry_leb e x then e :: l else x :: ins_sorted e l'
  end.
Definition isort (l : list entry) : list entry := fold_right ins_sorted [] l.

Lemma bytes_cmp_antisym : forall a b, bytes_cmp b a = CompOpp (bytes_cmp a b).
Proof.
  induction a as [|x a IH]; destruct b as [|y b]; simpl; auto.
  rewrite (N.compare_antisym x y). destruct (N.compare x y); simpl; auto.
Qed.

Lemma entry_cmp_antisym : forall a b, entry_cmp b a = CompOpp (entry_cmp a b).
Proof.
  intros [h1 k1] [h2 k2]. unfold entry_cmp. simpl.
  rewrite (N.compare_antisym h1 h2). destruct (N.compare h1 h2); simpl; auto.
  apply bytes_cmp_antisym.
Qed.

Module EntryOrder <: TotalLeBool.
  Definition t := entry.
  Definition leb := entry_leb.
  Theorem leb_total : forall a b, leb a b = true \/ leb b a = true.
  Proof.
    intros. unfold leb, entry_leb. rewrite (entry_cmp_antisym a b).
    destruct (entry_cmp a b); simpl; auto.
  Qed.
End EntryOrder.
Module ESort := Sort EntryOrder.
