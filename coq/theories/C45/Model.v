(* C45 — executable model of lib/datastructures/hashring/hashring.go (Ring[V]).
   Hand-written; tied to the Go code by the correspondence run (harness/C45).

   Go strings are lists of bytes (list N).  uint64 values are N, truncated mod 2^64 where the
   code computes in uint64.  The hash function is a Section variable: every definition and every
   theorem is for ANY hash (also colliding ones).  Go maps (members, deletedKeys) are association
   lists / duplicate-free lists; the only place the code iterates over a map
   (`for k := range r.deletedKeys { delete(r.members, k) }`) has an order-independent effect, so no
   iteration order parameter is needed.  slices.SortFunc is modelled by merge sort (Ord.ESort; the
   comparator is a total order in which only identical entries compare equal, so every correct
   sort gives the same slice: Proofs.sorted_perm_unique); slices.BinarySearchFunc is modelled as the
   bisection loop of the Go standard library.  Index-out-of-range panics are an explicit result. *)
From Coq Require Import List NArith ZArith Arith Bool.
From Verif.C45 Require Export Ord.
Import ListNotations.
Open Scope N_scope.

(* slices.BinarySearchFunc(es, p, cmp(e.hash, p)): the loop of the standard library.
   fuel = len+1 iterations is more than the loop can take (Proofs.search_first_ge). *)
Fixpoint bisect (fuel : nat) (es : list entry) (p : N) (i j : nat) : nat :=
  match fuel with
  | O => i
  | S f =>
      if Nat.ltb i j then
        let h := Nat.div2 (i + j) in
        match nth_error es h with
        | Some e => if N.ltb (e_hash e) p then bisect f es p (S h) j else bisect f es p i h
        | None => i
        end
      else i
  end.
Definition search (es : list entry) (p : N) : nat := bisect (S (length es)) es p 0 (length es).

(* little-endian uint32 *)
Definition le32 (i : N) : list N :=
  [i mod 256; (i / 256) mod 256; (i / 65536) mod 256; (i / 16777216) mod 256].

(* set of strings as duplicate-free list (deletedKeys) *)
Definition smem (k : key) (s : list key) : bool := existsb (key_eqb k) s.
Definition sadd (k : key) (s : list key) : list key := if smem k s then s else k :: s.
Definition sdel (k : key) (s : list key) : list key := filter (fun x => negb (key_eqb k x)) s.

Section Ring.
  Variable hash : list N -> N.     (* Hash func([]byte) uint64; result taken mod 2^64 *)
  Variable V : Type.
  Variable zeroV : V.              (* Go zero value of V *)

  (* saltedHash(key, i) = hash(key ++ [0] ++ LE32(uint32(i))) *)
  Definition salted (k : key) (i : nat) : N :=
    hash (k ++ 0 :: le32 (N.of_nat i mod 4294967296)) mod two64.

  (* map[string]V as association list with unique keys *)
  Fixpoint mget (m : list (key * V)) (k : key) : option V :=
    match m with
    | [] => None
    | (k', v) :: m' => if key_eqb k k' then Some v else mget m' k
    end.
  Fixpoint mset (m : list (key * V)) (k : key) (v : V) : list (key * V) :=
    match m with
    | [] => [(k, v)]
    | (k', v') :: m' => if key_eqb k k' then (k', v) :: m' else (k', v') :: mset m' k v
    end.
  Definition mhas (m : list (key * V)) (k : key) : bool :=
    match mget m k with Some _ => true | None => false end.

  Record ring := mkR {
    r_replicas : nat; r_probes : nat;
    r_members : list (key * V);
    r_deleted : list key;
    r_entries : list entry;
    r_sorted : bool }.

  (* New (replicas, probes >= 1 is the stated domain; New panics otherwise) *)
  Definition new (replicas probes : nat) : ring :=
    mkR replicas probes [] [] [] false.

  Definition vnodes (replicas : nat) (k : key) : list entry :=
    map (fun i => mkE (salted k i) k) (seq 0 replicas).

  Definition insert (r : ring) (k : key) (v : V) : ring :=
    if smem k (r_deleted r) then
      mkR (r_replicas r) (r_probes r) (mset (r_members r) k v) (sdel k (r_deleted r)) (r_entries r) (r_sorted r)
    else if mhas (r_members r) k then
      mkR (r_replicas r) (r_probes r) (mset (r_members r) k v) (r_deleted r) (r_entries r) (r_sorted r)
    else
      mkR (r_replicas r) (r_probes r) (mset (r_members r) k v) (r_deleted r)
          (r_entries r ++ vnodes (r_replicas r) k) false.

  Definition remove (r : ring) (k : key) : ring :=
    if mhas (r_members r) k then
      mkR (r_replicas r) (r_probes r) (r_members r) (sadd k (r_deleted r)) (r_entries r) (r_sorted r)
    else r.

  (* Len: len(members) - len(deletedKeys), Go int *)
  Definition len (r : ring) : Z :=
    (Z.of_nat (length (r_members r)) - Z.of_nat (length (r_deleted r)))%Z.

  (* the sweep inside Lookup: slices.DeleteFunc (stable) + delete from members + clear *)
  Definition sweep (r : ring) : ring :=
    mkR (r_replicas r) (r_probes r)
        (filter (fun kv => negb (smem (fst kv) (r_deleted r))) (r_members r))
        []
        (filter (fun e => negb (smem (e_key e) (r_deleted r))) (r_entries r))
        (r_sorted r).

  Definition sort_entries (r : ring) : ring :=
    mkR (r_replicas r) (r_probes r) (r_members r) (r_deleted r) (ESort.sort (r_entries r)) true.

  Inductive lres := LNone | LSome (v : V) | LPanic.

  (* one iteration of the probe loop; None = index out of range *)
  Definition probe_step (es : list entry) (k : key) (acc : option (N * nat)) (i : nat) : option (N * nat) :=
    match acc with
    | None => None
    | Some (bd, bi) =>
        let p := salted k i in
        let idx0 := search es p in
        let idx := if Nat.eqb idx0 (length es) then 0%nat else idx0 in
        match nth_error es idx with
        | None => None
        | Some e =>
            let d := (e_hash e + two64 - p) mod two64 in     (* uint64 subtraction *)
            if N.ltb d bd then Some (d, idx) else Some (bd, bi)
        end
    end.

  (* the key of the winning entry, None = panic *)
  Definition pick_key (probes : nat) (es : list entry) (k : key) : option key :=
    match fold_left (probe_step es k) (seq 0 probes) (Some (two64 - 1, 0%nat)) with
    | None => None
    | Some (_, bi) => match nth_error es bi with Some e => Some (e_key e) | None => None end
    end.

  Definition prepare (r : ring) : ring :=
    let r1 := match r_deleted r with [] => r | _ :: _ => sweep r end in
    if r_sorted r1 then r1 else sort_entries r1.

  Definition lookup (r : ring) (k : key) : ring * lres :=
    if Z.eqb (len r) 0 then (r, LNone)
    else
      let r2 := prepare r in
      (r2, match pick_key (r_probes r2) (r_entries r2) k with
           | None => LPanic
           | Some ok => LSome (match mget (r_members r2) ok with Some v => v | None => zeroV end)
           end).

  (* histories *)
  Inductive op := OInsert (k : key) (v : V) | ORemove (k : key) | OLookup (k : key) | OLen.
  Inductive out := UUnit | ULen (z : Z) | ULook (res : lres).

  Definition step (r : ring) (o : op) : ring * out :=
    match o with
    | OInsert k v => (insert r k v, UUnit)
    | ORemove k => (remove r k, UUnit)
    | OLookup k => let (r', res) := lookup r k in (r', ULook res)
    | OLen => (r, ULen (len r))
    end.

  Fixpoint run (r : ring) (ops : list op) : ring * list out :=
    match ops with
    | [] => (r, [])
    | o :: ops' =>
        let (r1, u) := step r o in
        let (r2, us) := run r1 ops' in
        (r2, u :: us)
    end.

  (* a ring built fresh from a list of members *)
  Definition fresh (replicas probes : nat) (ms : list (key * V)) : ring :=
    fold_left (fun r kv => insert r (fst kv) (snd kv)) ms (new replicas probes).
End Ring.

Arguments LNone {V}.
Arguments LSome {V} v.
Arguments LPanic {V}.
Arguments OInsert {V} k v.
Arguments ORemove {V} k.
Arguments OLookup {V} k.
Arguments OLen {V}.
Arguments UUnit {V}.
Arguments ULen {V} z.
Arguments ULook {V} res.

(* hash given as data: the (input bytes -> output) pairs the real hash produced in one run *)
Fixpoint tbl_hash (tbl : list (list N * N)) (b : list N) : N :=
  match tbl with
  | [] => 0
  | (b', h) :: tbl' => if key_eqb b b' then h else tbl_hash tbl' b
  end.

(* ---- felix/dataplane/linux/proxy_neigh_mgr.go: how the manager feeds and asks its ring -------------
   OnUpdate for proto.HostMetadataUpdate / proto.HostMetadataRemove, the dirty flag, CompleteDeferredWork's
   reset of it, and selectNodeForIP.  The ring is New[string](WithReplicas(100)) (default hash, 1 probe)
   and stores value = hostname.  Everything else the manager does (pools, services, interfaces, ARP/NDP
   listeners) is not modelled. *)
Inductive hmsg := HUpdate (host v4 v6 : list N) | HRemove (host : list N).

Section Caller.
  Variable hash : list N -> N.

  Record pnm := mkP { p_v6 : bool; p_host : key; p_ring : ring key; p_dirty : bool }.

  Definition pnm_new (v6 : bool) (host : key) : pnm := mkP v6 host (new key 100 1) false.

  Definition pnm_update (m : pnm) (msg : hmsg) : pnm :=
    match msg with
    | HUpdate h a4 a6 =>
        match (if p_v6 m then a6 else a4) with
        | [] => m                                   (* no address of this manager's family: skipped *)
        | _ :: _ =>
            let before := len key (p_ring m) in
            let r' := insert hash key (p_ring m) h h in
            mkP (p_v6 m) (p_host m) r' (p_dirty m || negb (Z.eqb (len key r') before))
        end
    | HRemove h =>
        let before := len key (p_ring m) in
        let r' := remove key (p_ring m) h in
        mkP (p_v6 m) (p_host m) r' (p_dirty m || negb (Z.eqb (len key r') before))
    end.

  (* CompleteDeferredWork, as far as this state goes (no listeners, nothing desired): dirty := false *)
  Definition pnm_complete (m : pnm) : pnm := mkP (p_v6 m) (p_host m) (p_ring m) false.

  (* selectNodeForIP: owner, ok := nodeRing.Lookup(ip); selected := ok && owner == hostname *)
  Definition pnm_select (m : pnm) (ip : key) : pnm * bool :=
    let (r', res) := lookup hash key [] (p_ring m) ip in
    (mkP (p_v6 m) (p_host m) r' (p_dirty m),
     match res with LSome o => key_eqb o (p_host m) | _ => false end).
End Caller.
