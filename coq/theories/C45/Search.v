(* C45 — the bisection loop (slices.BinarySearchFunc) on the sorted table finds the first entry whose
   hash is >= the probe; in particular the model's fuel always suffices and its `None`/out-of-fuel
   branches are never taken on a ring state reachable by the API. *)
From Coq Require Import List NArith ZArith Arith Bool Lia Sorted Permutation ZifyN ZifyNat ZifyBool.
From Verif.C45 Require Import Model Order Proofs Spec Link.
Import ListNotations.
Ltac Zify.zify_post_hook ::= Z.div_mod_to_equations.

(* linear-scan specification of the search *)
Fixpoint first_ge (l : list entry) (p : N) : nat :=
  match l with
  | [] => 0
  | e :: l' => if N.ltb (e_hash e) p then S (first_ge l' p) else 0
  end.

Definition hsorted (es : list entry) : Prop :=
  forall x y ex ey, (x <= y)%nat -> nth_error es x = Some ex -> nth_error es y = Some ey ->
                    (e_hash ex <= e_hash ey)%N.

Lemma sorted_hsorted : forall es, StronglySorted entry_le es -> hsorted es.
Proof.
  induction es as [|a es IH]; intros S x y ex ey Hxy Hx Hy.
  - destruct x; discriminate.
  - inversion S as [|? ? S' F]; subst.
    destruct x as [|x]; destruct y as [|y]; simpl in *; try lia.
    + inversion Hx; inversion Hy; subst. lia.
    + inversion Hx; subst. apply entry_le_hash. rewrite Forall_forall in F. apply F. eapply nth_error_In; eauto.
    + eapply (IH S' x y); eauto. lia.
Qed.

Lemma bisect_spec : forall fuel es p i j, hsorted es ->
  (i <= j)%nat -> (j <= length es)%nat -> (j - i < fuel)%nat ->
  (forall x e, (x < i)%nat -> nth_error es x = Some e -> (e_hash e < p)%N) ->
  (forall x e, (j <= x)%nat -> nth_error es x = Some e -> (p <= e_hash e)%N) ->
  let r := bisect fuel es p i j in
  (forall x e, (x < r)%nat -> nth_error es x = Some e -> (e_hash e < p)%N) /\
  (forall x e, (r <= x)%nat -> nth_error es x = Some e -> (p <= e_hash e)%N).
Proof.
  induction fuel as [|f IH]; intros es p i j HS Hij Hj Hf Hlo Hhi; [lia|].
  cbn [bisect]. destruct (Nat.ltb i j) eqn:L.
  - apply Nat.ltb_lt in L.
    assert (i <= Nat.div2 (i + j) < j)%nat as Hh by (rewrite Nat.div2_div; lia).
    destruct (nth_error es (Nat.div2 (i + j))) as [e|] eqn:Hn; [|apply nth_error_None in Hn; lia].
    destruct (N.ltb (e_hash e) p) eqn:C.
    + apply N.ltb_lt in C. apply IH; auto; try lia.
      intros x ex Hx Hex.
      assert (e_hash ex <= e_hash e)%N by (eapply (HS x (Nat.div2 (i + j))); eauto; lia). lia.
    + apply N.ltb_ge in C. apply IH; auto; try lia.
      intros x ex Hx Hex.
      assert (e_hash e <= e_hash ex)%N by (eapply (HS (Nat.div2 (i + j)) x); eauto; lia). lia.
  - apply Nat.ltb_ge in L. assert (i = j) by lia. subst. split; auto.
Qed.

Lemma first_ge_spec : forall es p,
  (first_ge es p <= length es)%nat /\
  (forall x e, (x < first_ge es p)%nat -> nth_error es x = Some e -> (e_hash e < p)%N) /\
  (forall e, nth_error es (first_ge es p) = Some e -> (p <= e_hash e)%N).
Proof.
  induction es as [|a es IH]; intro p; simpl.
  - repeat split; auto; intros; try lia; try discriminate.
  - destruct (N.ltb (e_hash a) p) eqn:C.
    + apply N.ltb_lt in C. destruct (IH p) as [A [B D]]. repeat split; try lia.
      * intros x e Hx He. destruct x as [|x]; simpl in He. inversion He; subst; auto. eapply B; eauto. lia.
      * intros e He. simpl in He. auto.
    + apply N.ltb_ge in C. repeat split; try lia. intros e He. simpl in He. inversion He; subst. auto.
Qed.

Theorem search_first_ge : forall es p, StronglySorted entry_le es -> search es p = first_ge es p.
Proof.
  intros es p S. unfold search.
  pose proof (sorted_hsorted es S) as HS.
  pose proof (bisect_bounds (Datatypes.S (length es)) es p 0 (length es)) as HB.
  destruct (bisect_spec (Datatypes.S (length es)) es p 0 (length es) HS) as [A B]; try lia.
  { intros x e Hx He. assert (x < length es)%nat by (apply nth_error_Some; congruence). lia. }
  destruct (first_ge_spec es p) as [F1 [F2 F3]].
  set (r := bisect (Datatypes.S (length es)) es p 0 (length es)) in *.
  destruct (Nat.lt_trichotomy r (first_ge es p)) as [H|[H|H]]; auto; exfalso.
  - destruct (nth_error es r) as [e|] eqn:Hn; [|apply nth_error_None in Hn; lia].
    pose proof (F2 r e H Hn). pose proof (B r e (le_n _) Hn). lia.
  - destruct (nth_error es (first_ge es p)) as [e|] eqn:Hn; [|apply nth_error_None in Hn; lia].
    pose proof (A _ e H Hn). pose proof (F3 e eq_refl). lia.
Qed.

(* on every ring reachable through the API, the table Lookup searches is sorted *)
Corollary search_on_prepared : forall (hash : list N -> N) (V : Type) (r : ring V) p, Inv hash V r ->
  search (r_entries V (prepare V r)) p = first_ge (r_entries V (prepare V r)) p.
Proof. intros. apply search_first_ge. apply (prepare_spec hash V r H). Qed.

Lemma search_after_history : forall (h : list N -> N) (R P : nat), (1 <= R)%nat ->
  forall (ops : list (op val)) (p : N),
  search (r_entries val (prepare val (ring_after h R P ops))) p
  = first_ge (r_entries val (prepare val (ring_after h R P ops))) p.
Proof. intros h R P HR ops p. exact (search_on_prepared h val _ p (inv_after h R P HR ops)). Qed.
