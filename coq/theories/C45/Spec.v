(* C45 — specification level: what the property text says.
   "The ring returns one owner from the current members, and the owner depends only on the current
   member set, not on the order or history of insertions and removals."

   The member set is the obvious finite map obtained by folding the history (sm_of); nothing here
   looks at hashes, virtual nodes or ring internals.  The oracle ok_trace is applied to the
   IMPLEMENTATION's own observations: at every Lookup the driver reports the result of the ring under
   test (which has lived through the whole history) and the result of the same Lookup on a ring built
   fresh (real code, shuffled insertion order) from the members the driver believes are current. *)
From Coq Require Import List NArith ZArith Arith Bool FMapPositive.
From Verif.C45 Require Import Model.
Import ListNotations.
Open Scope N_scope.

Definition val := list N.
Definition smap := list (key * val).

(* the abstract member map after a history *)
Definition sm_del (k : key) (m : smap) : smap := filter (fun kv => negb (key_eqb k (fst kv))) m.
Definition sm_set (k : key) (v : val) (m : smap) : smap := (k, v) :: sm_del k m.
Fixpoint sm_get (m : smap) (k : key) : option val :=
  match m with
  | [] => None
  | (k', v) :: m' => if key_eqb k k' then Some v else sm_get m' k
  end.
Definition sm_step (m : smap) (o : op val) : smap :=
  match o with
  | OInsert k v => sm_set k v m
  | ORemove k => sm_del k m
  | _ => m
  end.
Definition sm_of (ops : list (op val)) : smap := fold_left sm_step ops [].

(* --- the property, as predicates on a lookup function ------------------------------------- *)

(* the answer is a current member's current (= latest stored) value, or "none" iff there is no member *)
Definition owner_ok (m : smap) (res : lres val) : Prop :=
  match res with
  | LNone => m = []
  | LSome v => exists k, sm_get m k = Some v
  | LPanic => False
  end.

(* two member maps are the same set of (name, value) bindings *)
Definition same_members (m1 m2 : smap) : Prop := forall k, sm_get m1 k = sm_get m2 k.

(* --- boolean oracle over an observed trace ------------------------------------------------ *)

Definition lres_eqb (a b : lres val) : bool :=
  match a, b with
  | LNone, LNone => true
  | LSome x, LSome y => key_eqb x y
  | LPanic, LPanic => true
  | _, _ => false
  end.

Definition pair_eqb (a b : key * val) : bool := key_eqb (fst a) (fst b) && key_eqb (snd a) (snd b).
Definition sub_members (m1 m2 : smap) : bool := forallb (fun kv => existsb (pair_eqb kv) m2) m1.
Fixpoint nodup_keys (m : smap) : bool :=
  match m with
  | [] => true
  | (k, _) :: m' => negb (existsb (fun kv => key_eqb k (fst kv)) m') && nodup_keys m'
  end.
(* fm enumerates exactly the bindings of m, each name once *)
Definition enumerates (fm m : smap) : bool :=
  nodup_keys fm && sub_members fm m && sub_members m fm.

Definition owner_okb (m : smap) (res : lres val) : bool :=
  match res with
  | LNone => match m with [] => true | _ => false end
  | LSome v => existsb (fun kv => key_eqb (snd kv) v) m
  | LPanic => false
  end.

(* what the driver observed for one operation *)
Inductive obs :=
| BUnit
| BLen (z : Z)
| BLook (res fresh_res : lres val) (fresh_members : smap).

Fixpoint ok_trace_from (m : smap) (ops : list (op val)) (os : list obs) : bool :=
  match ops, os with
  | [], [] => true
  | o :: ops', b :: os' =>
      match o, b with
      | OInsert _ _, BUnit | ORemove _, BUnit => ok_trace_from (sm_step m o) ops' os'
      | OLen, BLen z => Z.eqb z (Z.of_nat (length m)) && ok_trace_from m ops' os'
      | OLookup _, BLook res fres fm =>
          enumerates fm m           (* the fresh ring was built from exactly the current members *)
          && owner_okb m res        (* one owner, a current member with its latest value; none iff empty *)
          && lres_eqb res fres      (* history does not matter: same answer as the fresh ring *)
          && ok_trace_from m ops' os'
      | _, _ => false
      end
  | _, _ => false
  end.
Definition ok_trace (ops : list (op val)) (os : list obs) : bool := ok_trace_from [] ops os.

(* --- one correspondence case, as written by the Go harness -------------------------------- *)
Record case := {
  c_replicas : nat; c_probes : nat;
  c_tbl : list (list N * N);          (* every (input, output) of the hash function during the run ... *)
  c_gtbl : list (key * list N);       (* ... those of the form saltedHash(key, i), i = 0,1,2,.., grouped by key (large rings) *)
  c_ops : list (op val);
  c_obs : list obs }.

Definition zero_val : val := [].

(* the model's observations for the same history, fresh rings built from the same member lists.
   Consecutive Lookups that come with the same member list reuse the fresh ring (and its sorted table)
   instead of rebuilding it: `cache` holds the last member list and the fresh ring after its last Lookup. *)
Fixpoint smap_eqb (a b : smap) : bool :=
  match a, b with
  | [], [] => true
  | x :: a', y :: b' => pair_eqb x y && smap_eqb a' b'
  | _, _ => false
  end.
Definition fresh_cached (h : list N -> N) (rp pp : nat) (cache : option (smap * ring val)) (fm : smap) : ring val :=
  match cache with
  | Some (fm', fr) => if smap_eqb fm fm' then fr else fresh h val rp pp fm
  | None => fresh h val rp pp fm
  end.
Fixpoint model_obs (h : list N -> N) (rp pp : nat) (cache : option (smap * ring val)) (r : ring val)
                   (ops : list (op val)) (os : list obs) : list obs :=
  match ops with
  | [] => []
  | o :: ops' =>
      let (r1, u) := step h val zero_val r o in
      let (b, cache') :=
        match u with
        | UUnit => (BUnit, cache)
        | ULen z => (BLen z, cache)
        | ULook res =>
            match o, os with
            | OLookup k, BLook _ _ fm :: _ =>
                let (fr', fres) := lookup h val zero_val (fresh_cached h rp pp cache fm) k in
                (BLook res fres fm, Some (fm, fr'))
            | _, _ => (BLook res LPanic [], cache)
            end
        end in
      b :: model_obs h rp pp cache' r1 ops' (tl os)
  end.

Definition obs_eqb (a b : obs) : bool :=
  match a, b with
  | BUnit, BUnit => true
  | BLen x, BLen y => Z.eqb x y
  | BLook r1 f1 _, BLook r2 f2 _ => lres_eqb r1 r2 && lres_eqb f1 f2
  | _, _ => false
  end.
Fixpoint obs_list_eqb (a b : list obs) : bool :=
  match a, b with
  | [], [] => true
  | x :: a', y :: b' => obs_eqb x y && obs_list_eqb a' b'
  | _, _ => false
  end.

(* the recorded hash as a finite map: byte string -> 1-prefixed base-256 positive -> value *)
Definition enc_bytes (b : list N) : positive :=
  fold_left (fun acc x => match x with N0 => acc~0~0~0~0~0~0~0~0 | Npos p => (acc * 256 + p) end)%positive b 1%positive.
Definition add_group (m : PositiveMap.t N) (g : key * list N) : PositiveMap.t N :=
  snd (fold_left (fun im hv => (S (fst im),
                                PositiveMap.add (enc_bytes (fst g ++ 0 :: le32 (N.of_nat (fst im)))) hv (snd im)))
                 (snd g) (O, m)).
Definition tbl_map (tbl : list (list N * N)) (gtbl : list (key * list N)) : PositiveMap.t N :=
  fold_left add_group gtbl
    (fold_left (fun m e => PositiveMap.add (enc_bytes (fst e)) (snd e) m) tbl (PositiveMap.empty N)).
(* member lists in which every value is the member's own name (what proxy_neigh_mgr.go stores) *)
Definition self_map (ks : list key) : smap := map (fun k => (k, k)) ks.
Definition map_hash (m : PositiveMap.t N) (b : list N) : N :=
  match PositiveMap.find (enc_bytes b) m with Some v => v | None => 0 end.

Definition check_case (c : case) : bool * bool :=
  let m := tbl_map (c_tbl c) (c_gtbl c) in
  let h := map_hash m in
  (obs_list_eqb (model_obs h (c_replicas c) (c_probes c) None (new val (c_replicas c) (c_probes c)) (c_ops c) (c_obs c))
                (c_obs c),
   ok_trace (c_ops c) (c_obs c)).

(* the model's ring after a history started from New(replicas, probes), and its answer to a Lookup *)
Definition ring_after (h : list N -> N) (rp pp : nat) (ops : list (op val)) : ring val :=
  fst (run h val zero_val (new val rp pp) ops).
Definition answer (h : list N -> N) (rp pp : nat) (ops : list (op val)) (k : key) : lres val :=
  snd (lookup h val zero_val (ring_after h rp pp ops) k).
(* the same question asked of a ring built fresh by inserting the bindings fm in the given order *)
Definition fresh_answer (h : list N -> N) (rp pp : nat) (fm : smap) (k : key) : lres val :=
  snd (lookup h val zero_val (fresh h val rp pp fm) k).
(* no operation of the history touches member k *)
Definition untouched (k : key) (ops : list (op val)) : Prop :=
  forall o, In o ops -> match o with OInsert k' _ | ORemove k' => k' <> k | _ => True end.

(* the member lists from which the observed fresh rings were built are right (the part of ok_trace that
   does not concern the ring under test); used to state that the oracle accepts every model run *)
Fixpoint fms_ok (m : smap) (ops : list (op val)) (os : list obs) : bool :=
  match ops with
  | [] => true
  | o :: ops' =>
      match o with
      | OLookup _ => match os with BLook _ _ fm :: _ => enumerates fm m | _ => false end
      | _ => true
      end && fms_ok (sm_step m o) ops' (tl os)
  end.

(* ====== the caller: one proxy-neighbour manager per node (Model.pnm) ================================= *)
Inductive nop := NMsg (m : hmsg) | NSelect (ip : key) | NComplete.
Inductive nobs := NODirty (d : bool) | NOSel (b : bool).

(* what a message means for the member set of a manager of the given IP family *)
Definition rops_of_msg (v6 : bool) (m : hmsg) : list (op val) :=
  match m with
  | HUpdate h a4 a6 => match (if v6 then a6 else a4) with [] => [] | _ :: _ => [OInsert h h] end
  | HRemove h => [ORemove h]
  end.
Definition rops_of (v6 : bool) (o : nop) : list (op val) :=
  match o with NMsg m => rops_of_msg v6 m | NSelect ip => [OLookup ip] | NComplete => [] end.
(* the hosts (with an address of the family) a node knows after its message history *)
Definition hosts_after (v6 : bool) (ops : list nop) : smap := sm_of (flat_map (rops_of v6) ops).

(* the model node after a history, its observations, and its answer to "do I own ip?" *)
Definition node_step (h : list N -> N) (m : pnm) (o : nop) : pnm * nobs :=
  match o with
  | NMsg msg => let m' := pnm_update h m msg in (m', NODirty (p_dirty m'))
  | NSelect ip => let (m', b) := pnm_select h m ip in (m', NOSel b)
  | NComplete => let m' := pnm_complete m in (m', NODirty (p_dirty m'))
  end.
Fixpoint node_run (h : list N -> N) (m : pnm) (ops : list nop) : pnm * list nobs :=
  match ops with
  | [] => (m, [])
  | o :: ops' => let (m1, b) := node_step h m o in let (m2, bs) := node_run h m1 ops' in (m2, b :: bs)
  end.
Definition node_after (h : list N -> N) (v6 : bool) (host : key) (ops : list nop) : pnm :=
  fst (node_run h (pnm_new v6 host) ops).
Definition node_selects (h : list N -> N) (v6 : bool) (host : key) (ops : list nop) (ip : key) : bool :=
  snd (pnm_select h (node_after h v6 host ops) ip).
Fixpoint node_finals (h : list N -> N) (m : pnm) (ips : list key) : list bool :=
  match ips with
  | [] => []
  | ip :: ips' => let (m', b) := pnm_select h m ip in b :: node_finals h m' ips'
  end.

Record node := { n_v6 : bool; n_host : key; n_ops : list nop; n_obs : list nobs; n_final : list bool }.
Record ncase := { nc_gtbl : list (key * list N); nc_ips : list key; nc_nodes : list node }.

(* oracle, per node: a change of the member set must raise dirty (else the node would not re-elect);
   CompleteDeferredWork clears it; a node that answers "mine" is itself a current member *)
Definition has_host (S : smap) (k : key) : bool := existsb (fun kv => key_eqb k (fst kv)) S.
Fixpoint ok_node_trace (v6 : bool) (host : key) (S : smap) (ops : list nop) (os : list nobs) : bool :=
  match ops, os with
  | [], [] => true
  | o :: ops', b :: os' =>
      let S' := fold_left sm_step (rops_of v6 o) S in
      match o, b with
      | NMsg _, NODirty d => (Nat.eqb (length S') (length S) || d) && ok_node_trace v6 host S' ops' os'
      | NSelect _, NOSel sel => (negb sel || has_host S host) && ok_node_trace v6 host S' ops' os'
      | NComplete, NODirty d => negb d && ok_node_trace v6 host S' ops' os'
      | _, _ => false
      end
  | _, _ => false
  end.

(* oracle, across nodes: among the nodes of one family whose final member sets are the same, for every
   address at most one hostname answers "mine", it is a member, and if every member is one of those
   nodes (and there is a member) then somebody does answer *)
Definition same_group (a b : node) : bool :=
  Bool.eqb (n_v6 a) (n_v6 b) && enumerates (hosts_after (n_v6 a) (n_ops a)) (hosts_after (n_v6 b) (n_ops b)).
Definition ok_group (ns : list node) (nips : nat) (a : node) : bool :=
  let S := hosts_after (n_v6 a) (n_ops a) in
  let g := filter (same_group a) ns in
  let all_here := forallb (fun kv => existsb (fun n => key_eqb (fst kv) (n_host n)) g) S in
  forallb (fun j =>
      let sel := filter (fun n => nth j (n_final n) false) g in
      forallb (fun x => forallb (fun y => key_eqb (n_host x) (n_host y)) sel) sel
      && forallb (fun x => has_host S (n_host x)) sel
      && (negb all_here || match S with [] => true | _ :: _ => match sel with [] => false | _ :: _ => true end end))
    (seq 0 nips).
Definition ok_nodes (c : ncase) : bool :=
  forallb (fun n => ok_node_trace (n_v6 n) (n_host n) [] (n_ops n) (n_obs n)
                    && Nat.eqb (length (n_final n)) (length (nc_ips c))
                    && ok_group (nc_nodes c) (length (nc_ips c)) n) (nc_nodes c).

Definition nobs_eqb (a b : nobs) : bool :=
  match a, b with
  | NODirty x, NODirty y => Bool.eqb x y
  | NOSel x, NOSel y => Bool.eqb x y
  | _, _ => false
  end.
Fixpoint list_eqb {A : Type} (eqb : A -> A -> bool) (a b : list A) : bool :=
  match a, b with
  | [], [] => true
  | x :: a', y :: b' => eqb x y && list_eqb eqb a' b'
  | _, _ => false
  end.
Definition check_ncase (c : ncase) : bool * bool :=
  let h := map_hash (tbl_map [] (nc_gtbl c)) in
  (forallb (fun n =>
      let (m, os) := node_run h (pnm_new (n_v6 n) (n_host n)) (n_ops n) in
      list_eqb nobs_eqb os (n_obs n) && list_eqb Bool.eqb (node_finals h m (nc_ips c)) (n_final n)) (nc_nodes c),
   ok_nodes c).

(* what the driver emits: a ring case or a nodes case *)
Inductive acase := CRing (c : case) | CNodes (c : ncase).
Definition check_any (c : acase) : bool * bool :=
  match c with CRing c => check_case c | CNodes c => check_ncase c end.
