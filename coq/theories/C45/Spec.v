(* C45 — specification level: what the property text says.
   "The ring returns one owner from the current members, and the owner depends only on the current
   member set, not on the order or history of insertions and removals."

   The member set is the obvious finite map obtained by folding the history (sm_of); nothing here
   looks at hashes, virtual nodes or ring internals.  The oracle ok_trace is applied to the
   IMPLEMENTATION's own observations: at every Lookup the driver reports the result of the ring under
   test (which has lived through the whole history) and the result of the same Lookup on a ring built
   fresh (real code, shuffled insertion order) from the members the driver believes are current. *)
From Coq Require Import List NArith ZArith Arith Bool FMapPositive.
From Verif.C45 Require Import Model.
Import ListNotations.
Open Scope N_scope.

Definition val := list N.
Definition smap := list (key * val).

(* the abstract member map after a history *)
Definition sm_del (k : key) (m : smap) : smap := filter (fun kv => negb (key_eqb k (fst kv))) m.
Definition sm_set (k : key) (v : val) (m : smap) : smap := (k, v) :: sm_del k m.
Fixpoint sm_get (m : smap) (k : key) : option val :=
  match m with
  | [] => None
  | (k', v) :: m' => if key_eqb k k' then Some v else sm_get m' k
  end.
Definition sm_step (m : smap) (o : op val) : smap :=
  match o with
  | OInsert k v => sm_set k v m
  | ORemove k => sm_del k m
  | _ => m
  end.
Definition sm_of (ops : list (op val)) : smap := fold_left sm_step ops [].

(* --- the property, as predicates on a lookup function ------------------------------------- *)

(* the answer is a current member's current (= latest stored) value, or "none" iff there is no member *)
Definition owner_ok (m : smap) (res : lres val) : Prop :=
  match res with
  | LNone => m = []
  | LSome v => exists k, sm_get m k = Some v
  | LPanic => False
  end.

(* two member maps are the same set of (name, value) bindings *)
Definition same_members (m1 m2 : smap) : Prop := forall k, sm_get m1 k = sm_get m2 k.

(* --- boolean oracle over an observed trace ------------------------------------------------ *)

Definition lres_eqb (a b : lres val) : bool :=
  match a, b with
  | LNone, LNone => true
  | LSome x, LSome y => key_eqb x y
  | LPanic, LPanic => true
  | _, _ => false
  end.

Definition pair_eqb (a b : key * val) : bool := key_eqb (fst a) (fst b) && key_eqb (snd a) (snd b).
Definition sub_members (m1 m2 : smap) : bool := forallb (fun kv => existsb (pair_eqb kv) m2) m1.
Fixpoint nodup_keys (m : smap) : bool :=
  match m with
  | [] => true
  | (k, _) :: m' => negb (existsb (fun kv => key_eqb k (fst kv)) m') && nodup_keys m'
  end.
(* fm enumerates exactly the bindings of m, each name once *)
Definition enumerates (fm m : smap) : bool :=
  nodup_keys fm && sub_members fm m && sub_members m fm.

Definition owner_okb (m : smap) (res : lres val) : bool :=
  match res with
  | LNone => match m with [] => true | _ => false end
  | LSome v => existsb (fun kv => key_eqb (snd kv) v) m
  | LPanic => false
  end.

(* what the driver observed for one operation *)
Inductive obs :=
| BUnit
| BLen (z : Z)
| BLook (res fresh_res : lres val) (fresh_members : smap).

Fixpoint ok_trace_from (m : smap) (ops : list (op val)) (os : list obs) : bool :=
  match ops, os with
  | [], [] => true
  | o :: ops', b :: os' =>
      match o, b with
      | OInsert _ _, BUnit | ORemove _, BUnit => ok_trace_from (sm_step m o) ops' os'
      | OLen, BLen z => Z.eqb z (Z.of_nat (length m)) && ok_trace_from m ops' os'
      | OLookup _, BLook res fres fm =>
          enumerates fm m           (* the fresh ring was built from exactly the current members *)
          && owner_okb m res        (* one owner, a current member with its latest value; none iff empty *)
          && lres_eqb res fres      (* history does not matter: same answer as the fresh ring *)
          && ok_trace_from m ops' os'
      | _, _ => false
      end
  | _, _ => false
  end.
Definition ok_trace (ops : list (op val)) (os : list obs) : bool := ok_trace_from [] ops os.

(* --- one correspondence case, as written by the Go harness -------------------------------- *)
Record case := {
  c_replicas : nat; c_probes : nat;
  c_tbl : list (list N * N);          (* every (input, output) of the hash function during the run ... *)
  c_gtbl : list (key * list N);       (* ... those of the form saltedHash(key, i), i = 0,1,2,.., grouped by key (large rings) *)
  c_ops : list (op val);
  c_obs : list obs }.

Definition zero_val : val := [].

(* the model's observations for the same history, fresh rings built from the same member lists.
   Consecutive Lookups that come with the same member list reuse the fresh ring (and its sorted table)
   instead of rebuilding it: `cache` holds the last member list and the fresh ring after its last Lookup. *)
Fixpoint smap_eqb (a b : smap) : bool :=
  match a, b with
  | [], [] => true
  | x :: a', y :: b' => pair_eqb x y && smap_eqb a' b'
  | _, _ => false
  end.
Definition fresh_cached (h : list N -> N) (rp pp : nat) (cache : option (smap * ring val)) (fm : smap) : ring val :=
  match cache with
  | Some (fm', fr) => if smap_eqb fm fm' then fr else fresh h val rp pp fm
  | None => fresh h val rp pp fm
  end.
Fixpoint model_obs (h : list N -> N) (rp pp : nat) (cache : option (smap * ring val)) (r : ring val)
                   (ops : list (op val)) (os : list obs) : list obs :=
  match ops with
  | [] => []
  | o :: ops' =>
      let (r1, u) := step h val zero_val r o in
      let (b, cache') :=
        match u with
        | UUnit => (BUnit, cache)
        | ULen z => (BLen z, cache)
        | ULook res =>
            match o, os with
            | OLookup k, BLook _ _ fm :: _ =>
                let (fr', fres) := lookup h val zero_val (fresh_cached h rp pp cache fm) k in
                (BLook res fres fm, Some (fm, fr'))
            | _, _ => (BLook res LPanic [], cache)
            end
        end in
      b :: model_obs h rp pp cache' r1 ops' (tl os)
  end.

Definition obs_eqb (a b : obs) : bool :=
  match a, b with
  | BUnit, BUnit => true
  | BLen x, BLen y => Z.eqb x y
  | BLook r1 f1 _, BLook r2 f2 _ => lres_eqb r1 r2 && lres_eqb f1 f2
  | _, _ => false
  end.
Fixpoint obs_list_eqb (a b : list obs) : bool :=
  match a, b with
  | [], [] => true
  | x :: a', y :: b' => obs_eqb x y && obs_list_eqb a' b'
  | _, _ => false
  end.

(* the recorded hash as a finite map: byte string -> 1-prefixed base-256 positive -> value *)
Definition enc_bytes (b : list N) : positive :=
  fold_left (fun acc x => match x with N0 => acc~0~0~0~0~0~0~0~0 | Npos p => (acc * 256 + p) end)%positive b 1%positive.
Definition add_group (m : PositiveMap.t N) (g : key * list N) : PositiveMap.t N :=
  snd (fold_left (fun im hv => (S (fst im),
                                PositiveMap.add (enc_bytes (fst g ++ 0 :: le32 (N.of_nat (fst im)))) hv (snd im)))
                 (snd g) (O, m)).
Definition tbl_map (tbl : list (list N * N)) (gtbl : list (key * list N)) : PositiveMap.t N :=
  fold_left add_group gtbl
    (fold_left (fun m e => PositiveMap.add (enc_bytes (fst e)) (snd e) m) tbl (PositiveMap.empty N)).
(* member lists in which every value is the member's own name (what proxy_neigh_mgr.go stores) *)
Definition self_map (ks : list key) : smap := map (fun k => (k, k)) ks.
Definition map_hash (m : PositiveMap.t N) (b : list N) : N :=
  match PositiveMap.find (enc_bytes b) m with Some v => v | None => 0 end.

Definition check_case (c : case) : bool * bool :=
  let m := tbl_map (c_tbl c) (c_gtbl c) in
  let h := map_hash m in
  (obs_list_eqb (model_obs h (c_replicas c) (c_probes c) None (new val (c_replicas c) (c_probes c)) (c_ops c) (c_obs c))
                (c_obs c),
   ok_trace (c_ops c) (c_obs c)).

(* the model's ring after a history started from New(replicas, probes), and its answer to a Lookup *)
Definition ring_after (h : list N -> N) (rp pp : nat) (ops : list (op val)) : ring val :=
  fst (run h val zero_val (new val rp pp) ops).
Definition answer (h : list N -> N) (rp pp : nat) (ops : list (op val)) (k : key) : lres val :=
  snd (lookup h val zero_val (ring_after h rp pp ops) k).
(* the same question asked of a ring built fresh by inserting the bindings fm in the given order *)
Definition fresh_answer (h : list N -> N) (rp pp : nat) (fm : smap) (k : key) : lres val :=
  snd (lookup h val zero_val (fresh h val rp pp fm) k).
(* no operation of the history touches member k *)
Definition untouched (k : key) (ops : list (op val)) : Prop :=
  forall o, In o ops -> match o with OInsert k' _ | ORemove k' => k' <> k | _ => True end.

(* the member lists from which the observed fresh rings were built are right (the part of ok_trace that
   does not concern the ring under test); used to state that the oracle accepts every model run *)
Fixpoint fms_ok (m : smap) (ops : list (op val)) (os : list obs) : bool :=
  match ops with
  | [] => true
  | o :: ops' =>
      match o with
      | OLookup _ => match os with BLook _ _ fm :: _ => enumerates fm m | _ => false end
      | _ => true
      end && fms_ok (sm_step m o) ops' (tl os)
  end.
