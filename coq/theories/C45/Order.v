(* C45 — the order used by the ring's sort, sorting facts, uniqueness of a sorted permutation. *)
From Coq Require Import List NArith ZArith Arith Bool Lia Sorted Permutation Orders Sorting.Mergesort ZifyN ZifyNat ZifyBool.
From Verif.C45 Require Import Model.
Import ListNotations.

(* ---------- string equality / comparison ---------- *)
Lemma key_eqb_refl : forall a, key_eqb a a = true.
Proof. induction a; simpl; auto. rewrite N.eqb_refl. auto. Qed.

Lemma key_eqb_eq : forall a b, key_eqb a b = true <-> a = b.
Proof.
  induction a as [|x a IH]; destruct b as [|y b]; simpl; split; intro H; try discriminate; auto.
  - apply andb_true_iff in H. destruct H as [H1 H2]. apply N.eqb_eq in H1. apply IH in H2. congruence.
  - inversion H; subst. rewrite N.eqb_refl. simpl. apply key_eqb_refl.
Qed.

Lemma key_eqb_neq : forall a b, key_eqb a b = false <-> a <> b.
Proof.
  intros. split; intro H.
  - intro E. apply key_eqb_eq in E. congruence.
  - destruct (key_eqb a b) eqn:E; auto. apply key_eqb_eq in E. contradiction.
Qed.

Lemma key_eqb_sym : forall a b, key_eqb a b = key_eqb b a.
Proof.
  intros. destruct (key_eqb a b) eqn:E.
  - apply key_eqb_eq in E. subst. symmetry. apply key_eqb_refl.
  - symmetry. apply key_eqb_neq. apply key_eqb_neq in E. auto.
Qed.

Lemma bytes_cmp_eq : forall a b, bytes_cmp a b = Eq -> a = b.
Proof.
  induction a as [|x a IH]; destruct b as [|y b]; simpl; intro H; try discriminate; auto.
  destruct (N.compare x y) eqn:C; try discriminate.
  apply N.compare_eq in C. apply IH in H. congruence.
Qed.

Lemma bytes_cmp_refl : forall a, bytes_cmp a a = Eq.
Proof. induction a; simpl; auto. rewrite N.compare_refl. auto. Qed.


Lemma bytes_cmp_lt_trans : forall a b c, bytes_cmp a b = Lt -> bytes_cmp b c = Lt -> bytes_cmp a c = Lt.
Proof.
  induction a as [|x a IH]; destruct b as [|y b]; destruct c as [|z c]; simpl; intros H1 H2; try discriminate; auto.
  destruct (N.compare x y) eqn:C1; try discriminate.
  - apply N.compare_eq in C1. subst y.
    destruct (N.compare x z) eqn:C2; try discriminate; auto. eapply IH; eauto.
  - destruct (N.compare y z) eqn:C2; try discriminate.
    + apply N.compare_eq in C2. subst z. rewrite C1. auto.
    + assert (N.compare x z = Lt) as ->; auto.
      apply N.compare_lt_iff. apply N.compare_lt_iff in C1. apply N.compare_lt_iff in C2. eapply N.lt_trans; eauto.
Qed.

(* ---------- the entry comparator ---------- *)
Lemma entry_cmp_eq : forall a b, entry_cmp a b = Eq -> a = b.
Proof.
  intros [h1 k1] [h2 k2]. unfold entry_cmp. simpl.
  destruct (N.compare h1 h2) eqn:C; try discriminate.
  intro H. apply N.compare_eq in C. apply bytes_cmp_eq in H. congruence.
Qed.


Lemma entry_cmp_lt_trans : forall a b c, entry_cmp a b = Lt -> entry_cmp b c = Lt -> entry_cmp a c = Lt.
Proof.
  intros [h1 k1] [h2 k2] [h3 k3]. unfold entry_cmp. simpl.
  destruct (N.compare h1 h2) eqn:C1; try discriminate.
  - apply N.compare_eq in C1. subst h2.
    destruct (N.compare h1 h3) eqn:C2; try discriminate; auto. apply bytes_cmp_lt_trans.
  - destruct (N.compare h2 h3) eqn:C2; try discriminate.
    + apply N.compare_eq in C2. subst h3. rewrite C1. auto.
    + intros _ _. assert (N.compare h1 h3 = Lt) as ->; auto.
      apply N.compare_lt_iff. apply N.compare_lt_iff in C1. apply N.compare_lt_iff in C2. eapply N.lt_trans; eauto.
Qed.

Definition entry_le (a b : entry) : Prop := entry_leb a b = true.

Lemma entry_le_total : forall a b, entry_le a b \/ entry_le b a.
Proof.
  intros. unfold entry_le, entry_leb. rewrite (entry_cmp_antisym a b).
  destruct (entry_cmp a b); simpl; auto.
Qed.

Lemma entry_le_antisym : forall a b, entry_le a b -> entry_le b a -> a = b.
Proof.
  intros a b. unfold entry_le, entry_leb. rewrite (entry_cmp_antisym a b).
  destruct (entry_cmp a b) eqn:C; simpl; try discriminate.
  intros. apply entry_cmp_eq; auto.
Qed.

Lemma entry_le_trans : forall a b c, entry_le a b -> entry_le b c -> entry_le a c.
Proof.
  intros a b c. unfold entry_le, entry_leb.
  destruct (entry_cmp a b) eqn:C1; try discriminate; destruct (entry_cmp b c) eqn:C2; try discriminate; intros _ _.
  - apply entry_cmp_eq in C1. subst. rewrite C2. auto.
  - apply entry_cmp_eq in C1. subst. rewrite C2. auto.
  - apply entry_cmp_eq in C2. subst. rewrite C1. auto.
  - rewrite (entry_cmp_lt_trans _ _ _ C1 C2). auto.
Qed.

Lemma entry_le_hash : forall a b, entry_le a b -> (e_hash a <= e_hash b)%N.
Proof.
  intros [h1 k1] [h2 k2]. unfold entry_le, entry_leb, entry_cmp. cbn [e_hash e_key].
  intro H. apply N.compare_le_iff. intro C. rewrite C in H. discriminate.
Qed.

(* ---------- insertion sort ---------- *)
Lemma ins_sorted_perm : forall e l, Permutation (ins_sorted e l) (e :: l).
Proof.
  induction l as [|x l IH]; simpl; auto.
  destruct (entry_leb e x); auto.
  rewrite IH. apply perm_swap.
Qed.

Lemma isort_perm : forall l, Permutation (isort l) l.
Proof.
  induction l as [|x l IH]; simpl; auto.
  unfold isort in *. simpl. rewrite ins_sorted_perm. auto.
Qed.

Lemma ins_sorted_sorted : forall e l, StronglySorted entry_le l -> StronglySorted entry_le (ins_sorted e l).
Proof.
  induction l as [|x l IH]; simpl; intro S.
  - constructor; auto.
  - inversion S as [|? ? S' F]; subst.
    destruct (entry_leb e x) eqn:L.
    + constructor; auto. constructor; auto.
      eapply Forall_impl; [|exact F]. intros y Hy. eapply entry_le_trans; eauto.
    + constructor; auto.
      assert (entry_le x e) as Lx by (destruct (entry_le_total e x) as [H|H]; auto; unfold entry_le in H; congruence).
      apply Forall_forall. intros y Hy.
      apply (Permutation_in _ (ins_sorted_perm e l)) in Hy. destruct Hy as [->|Hy]; auto.
      rewrite Forall_forall in F. auto.
Qed.

Lemma isort_sorted : forall l, StronglySorted entry_le (isort l).
Proof.
  induction l as [|x l IH]; unfold isort in *; simpl.
  - constructor.
  - apply ins_sorted_sorted. auto.
Qed.

(* two sorted lists with the same elements are the same list: the sorted slice does not depend on
   the sorting algorithm or on the order the entries were appended in *)
Lemma sorted_perm_unique : forall l1 l2,
  StronglySorted entry_le l1 -> StronglySorted entry_le l2 -> Permutation l1 l2 -> l1 = l2.
Proof.
  induction l1 as [|a l1 IH]; intros l2 S1 S2 P.
  - apply Permutation_nil in P. auto.
  - destruct l2 as [|b l2]; [apply Permutation_sym, Permutation_nil in P; discriminate|].
    inversion S1 as [|? ? S1' F1]; subst. inversion S2 as [|? ? S2' F2]; subst.
    assert (a = b) as ->.
    { rewrite Forall_forall in F1, F2.
      assert (In a (b :: l2)) as Ha by (eapply Permutation_in; [exact P|left; auto]).
      assert (In b (a :: l1)) as Hb by (eapply Permutation_in; [apply Permutation_sym; exact P|left; auto]).
      destruct Ha as [->|Ha]; auto. destruct Hb as [->|Hb]; auto.
      apply entry_le_antisym; auto. }
    f_equal. apply IH; auto. eapply Permutation_cons_inv; eauto.
Qed.

Lemma sorted_filter : forall f l, StronglySorted entry_le l -> StronglySorted entry_le (filter f l).
Proof.
  induction l as [|x l IH]; simpl; intro S; auto.
  inversion S as [|? ? S' F]; subst.
  destruct (f x); auto. constructor; auto.
  rewrite Forall_forall in *. intros y Hy. apply filter_In in Hy. destruct Hy. auto.
Qed.

(* the model's sort (stdlib merge sort) *)
Lemma msort_perm : forall l, Permutation (ESort.sort l) l.
Proof. intro l. symmetry. apply ESort.Permuted_sort. Qed.

Lemma msort_sorted : forall l, StronglySorted entry_le (ESort.sort l).
Proof.
  intro l. apply (ESort.StronglySorted_sort l).
  intros a b c H1 H2. unfold is_true in *. eapply entry_le_trans; eauto.
Qed.

Lemma msort_isort : forall l, ESort.sort l = isort l.
Proof.
  intro l. apply sorted_perm_unique; auto using msort_sorted, isort_sorted.
  rewrite msort_perm, isort_perm. auto.
Qed.
