(* C45 — what the winner is: the entry at the smallest clockwise distance from any of the probes. *)
From Coq Require Import List NArith ZArith Arith Bool Lia Sorted Permutation ZifyN ZifyNat ZifyBool.
From Verif.C45 Require Import Model Order Proofs Search Spec Link.
Import ListNotations.
Ltac Zify.zify_post_hook ::= Z.div_mod_to_equations.

(* clockwise distance on the 2^64 ring from probe position p to entry e (uint64 subtraction) *)
Definition cdist (p : N) (e : entry) : N := (e_hash e + two64 - p) mod two64.

Lemma cdist_lt : forall p e, (cdist p e < two64)%N.
Proof. intros. unfold cdist, two64. lia. Qed.

Lemma In_nth_error' : forall (A : Type) (l : list A) x, In x l -> exists n, nth_error l n = Some x.
Proof.
  induction l as [|a l IH]; intros x H; [contradiction|]. destruct H as [->|H].
  - exists 0%nat. auto.
  - destruct (IH x H) as [n Hn]. exists (S n). auto.
Qed.

(* one probe: bisection + wrap-around selects an entry at minimal clockwise distance *)
Lemma probe_choice : forall es p, StronglySorted entry_le es -> es <> [] ->
  (forall e, In e es -> (e_hash e < two64)%N) -> (p < two64)%N ->
  exists e, nth_error es (if Nat.eqb (search es p) (length es) then 0%nat else search es p) = Some e
            /\ forall e', In e' es -> (cdist p e <= cdist p e')%N.
Proof.
  intros es p S Hne Hh Hp. rewrite (search_first_ge es p S).
  pose proof (sorted_hsorted es S) as HS.
  destruct (first_ge_spec es p) as [F1 [F2 F3]].
  destruct (Nat.eqb (first_ge es p) (length es)) eqn:E.
  - apply Nat.eqb_eq in E. destruct es as [|e0 es']; [congruence|]. exists e0. split; auto.
    intros e' He'. destruct (In_nth_error' _ _ _ He') as [y Hy].
    assert (y < length (e0 :: es'))%nat as Hyl by (apply nth_error_Some; congruence).
    assert (e_hash e' < p)%N by (eapply F2; eauto; lia).
    assert (e_hash e0 < p)%N by (eapply (F2 0%nat); eauto; simpl in *; lia).
    assert (e_hash e0 <= e_hash e')%N by (eapply (HS 0%nat y); eauto; lia).
    unfold cdist, two64 in *. lia.
  - apply Nat.eqb_neq in E.
    destruct (nth_error es (first_ge es p)) as [e|] eqn:Hn; [|apply nth_error_None in Hn; lia].
    exists e. split; auto. pose proof (F3 e eq_refl) as Hpe.
    assert (e_hash e < two64)%N as Hel by (apply Hh; eapply nth_error_In; eauto).
    intros e' He'. destruct (In_nth_error' _ _ _ He') as [y Hy].
    pose proof (Hh e' He') as Hel'.
    destruct (Nat.lt_ge_cases y (first_ge es p)) as [Hlt|Hge].
    + assert (e_hash e' < p)%N by (eapply F2; eauto). unfold cdist, two64 in *. lia.
    + assert (e_hash e <= e_hash e')%N by (eapply (HS (first_ge es p) y); eauto). unfold cdist, two64 in *. lia.
Qed.

Section N.
  Variable hash : list N -> N.

  Lemma salted_lt : forall k i, (salted hash k i < two64)%N.
  Proof. intros. unfold salted, two64. lia. Qed.

  (* state of the probe loop after the probes in `done` *)
  Definition loop_inv (es : list entry) (k : key) (done : list nat) (bd : N) (bi : nat) : Prop :=
    (forall i e', In i done -> In e' es -> (bd <= cdist (salted hash k i) e')%N)
    /\ ((exists i e, In i done /\ nth_error es bi = Some e /\ cdist (salted hash k i) e = bd)
        \/ (bd = two64 - 1 /\ bi = 0%nat))%N.

  Lemma probe_fold_nearest : forall es k, StronglySorted entry_le es -> es <> [] ->
    (forall e, In e es -> (e_hash e < two64)%N) ->
    forall todo done bd bi, loop_inv es k done bd bi ->
    exists bd' bi', fold_left (probe_step hash es k) todo (Some (bd, bi)) = Some (bd', bi')
                    /\ loop_inv es k (done ++ todo) bd' bi'.
  Proof.
    intros es k S Hne Hh. induction todo as [|i todo IH]; intros done bd bi [A B].
    - exists bd, bi. rewrite app_nil_r. split; auto. split; auto.
    - cbn [fold_left probe_step].
      destruct (probe_choice es (salted hash k i) S Hne Hh (salted_lt k i)) as [e [Hn Hmin]].
      rewrite Hn. fold (cdist (salted hash k i) e).
      replace (done ++ i :: todo) with ((done ++ [i]) ++ todo) by (rewrite <- app_assoc; auto).
      destruct (N.ltb (cdist (salted hash k i) e) bd) eqn:C; apply IH.
      + apply N.ltb_lt in C. split.
        * intros j e' Hj He'. apply in_app_or in Hj. destruct Hj as [Hj|[<-|[]]].
          -- specialize (A j e' Hj He'). lia.
          -- apply Hmin. auto.
        * left. exists i, e. split; auto. apply in_or_app. right. left. auto.
      + apply N.ltb_ge in C. split.
        * intros j e' Hj He'. apply in_app_or in Hj. destruct Hj as [Hj|[<-|[]]]; auto.
          specialize (Hmin e' He'). lia.
        * destruct B as [[j [e0 [Hj [Hn0 Hd]]]]|B]; auto.
          left. exists j, e0. split; auto. apply in_or_app. auto.
  Qed.

  (* The member whose virtual node is nearest (clockwise) to any probe wins: the selected entry e and
     some probe i realise the minimum of the clockwise distance over all probes and all entries. *)
  Theorem pick_nearest : forall P es k, (1 <= P)%nat -> StronglySorted entry_le es -> es <> [] ->
    (forall e, In e es -> (e_hash e < two64)%N) ->
    exists e i, In e es /\ (i < P)%nat /\ pick_key hash P es k = Some (e_key e)
      /\ forall j e', (j < P)%nat -> In e' es ->
           (cdist (salted hash k i) e <= cdist (salted hash k j) e')%N.
  Proof.
    intros P es k HP S Hne Hh. unfold pick_key.
    destruct (probe_fold_nearest es k S Hne Hh (seq 0 P) [] (two64 - 1)%N 0%nat) as [bd [bi [-> [A B]]]].
    { split; [intros ? ? []|]. right. auto. }
    simpl app in *.
    assert (forall j, (j < P)%nat <-> In j (seq 0 P)) as Hseq by (intro j; rewrite in_seq; lia).
    destruct B as [[i [e [Hi [Hn Hd]]]]|[Hbd Hbi]].
    - rewrite Hn. exists e, i. split; [eapply nth_error_In; eauto|]. split; [apply Hseq; auto|]. split; auto.
      intros j e' Hj He'. rewrite Hd. apply A; auto. apply Hseq. auto.
    - subst bi. destruct es as [|e0 es']; [congruence|]. cbn [nth_error].
      exists e0, 0%nat. split; [left; auto|]. split; [lia|]. split; auto.
      intros j e' Hj He'.
      assert (bd <= cdist (salted hash k 0) e0)%N by (apply A; [apply Hseq; lia|left; auto]).
      pose proof (cdist_lt (salted hash k 0) e0).
      assert (bd <= cdist (salted hash k j) e')%N by (apply A; auto; apply Hseq; auto).
      unfold two64 in *. lia.
  Qed.

  Lemma canon_hash_lt : forall R ks e, In e (canon hash R ks) -> (e_hash e < two64)%N.
  Proof.
    intros R ks e H. unfold canon in H. apply (Permutation_in _ (isort_perm _)) in H.
    apply in_flat_map in H. destruct H as [k [_ He]]. unfold vnodes in He.
    apply in_map_iff in He. destruct He as [i [<- _]]. simpl. apply salted_lt.
  Qed.

  Lemma canon_In_iff : forall R ks e, In e (canon hash R ks) <->
    exists k a, In k ks /\ (a < R)%nat /\ e = mkE (salted hash k a) k.
  Proof.
    intros R ks e. unfold canon. split.
    - intro H. apply (Permutation_in _ (isort_perm _)) in H. apply in_flat_map in H.
      destruct H as [k [Hk He]]. unfold vnodes in He. apply in_map_iff in He. destruct He as [a [<- Ha]].
      apply in_seq in Ha. exists k, a. repeat split; auto. lia.
    - intros [k [a [Hk [Ha ->]]]]. apply (Permutation_in _ (Permutation_sym (isort_perm _))).
      apply in_flat_map. exists k. split; auto. unfold vnodes. apply in_map_iff. exists a. split; auto.
      apply in_seq. lia.
  Qed.
End N.

(* clockwise distance between two positions of the 2^64 ring *)
Definition ring_dist (from to : N) : N := (to + two64 - from) mod two64.

Lemma owner_is_nearest : forall (h : list N -> N) (R P : nat), (1 <= R)%nat -> (1 <= P)%nat ->
  forall (ops : list (op val)) (q ok : key),
  owner_key h val (ring_after h R P ops) q = Some ok ->
  sm_get (sm_of ops) ok <> None /\
  exists a i, (a < R)%nat /\ (i < P)%nat /\
    forall m b j, sm_get (sm_of ops) m <> None -> (b < R)%nat -> (j < P)%nat ->
      (ring_dist (salted h q i) (salted h ok a) <= ring_dist (salted h q j) (salted h m b))%N.
Proof.
  intros h R P HR HP ops q ok HO. unfold owner_key in HO.
  destruct (params_after h R P ops) as [ER EP]. rewrite ER, EP in HO.
  set (r := ring_after h R P ops) in *.
  assert (forall k, In k (lkeys val r) <-> sm_get (sm_of ops) k <> None) as HK.
  { intro k. rewrite (lkeys_In h). unfold r. rewrite live_after; auto. tauto. }
  destruct (lkeys val r) as [|k0 ks] eqn:E; [discriminate|]. rewrite <- E in *.
  assert (canon h R (lkeys val r) <> []) as Hne by (apply canon_nonempty; auto; rewrite E; discriminate).
  destruct (pick_nearest h P (canon h R (lkeys val r)) q HP (isort_sorted _) Hne (canon_hash_lt h R _))
    as [e [i [He [Hi [Hp Hmin]]]]].
  rewrite Hp in HO. inversion HO; subst ok. clear HO.
  apply canon_In_iff in He. destruct He as [k [a [Hk [Ha ->]]]]. cbn [e_key].
  split; [apply HK; auto|]. exists a, i. split; auto. split; auto.
  intros m b j Hm Hb Hj.
  assert (In (mkE (salted h m b) m) (canon h R (lkeys val r))) as Hin.
  { apply canon_In_iff. exists m, b. split; auto. apply HK. auto. }
  specialize (Hmin j _ Hj Hin). unfold cdist in Hmin. cbn [e_hash] in Hmin. exact Hmin.
Qed.
