(* C45 — property theorems only.  `h` is the hash function: ANY function from byte strings to numbers
   (the model reduces it mod 2^64); nothing is assumed about collisions or distribution.
   answer h R P ops k  = what Lookup(k) returns on the model ring after New(R,P) and the history ops
   sm_of ops           = the abstract member map (name -> latest value) after the history (Spec.v). *)
From Coq Require Import List NArith ZArith Arith Bool.
From Verif.C45 Require Import Model Spec Proofs Link.
Import ListNotations.

(* One owner from the current members: after any history, Lookup answers with the (latest) value of a
   current member; it answers "none" only when there is no member; it never panics. *)
Theorem c45_owner_in_members : forall (h : list N -> N) (R P : nat), (1 <= R)%nat ->
  forall (ops : list (op val)) (k : key), owner_ok (sm_of ops) (answer h R P ops k).
Proof. exact owner_in_members. Qed.
Print Assumptions c45_owner_in_members.

(* The owner depends only on the current member set: two histories (of inserts, updates, removes,
   lookups that sweep and sort, Len calls) that end with the same members give the same answer. *)
Theorem c45_history_independent : forall (h : list N -> N) (R P : nat), (1 <= R)%nat ->
  forall ops1 ops2 : list (op val), same_members (sm_of ops1) (sm_of ops2) ->
  forall k, answer h R P ops1 k = answer h R P ops2 k.
Proof. exact history_independent. Qed.
Print Assumptions c45_history_independent.
