(* C45 — property theorems only.  `h` is the hash function: ANY function from byte strings to numbers
   (the model reduces it mod 2^64); nothing is assumed about collisions or distribution.
     answer h R P ops k    what Lookup(k) returns on the model ring after New(R,P) and the history ops
     fresh_answer h R P fm k   the same on a ring built by inserting the bindings fm, in that order
     sm_of ops             the abstract member map (name -> latest value) after the history (Spec.v)
     ring_after h R P ops  the model ring itself; live = its visible member map; owner_key = the member
                           whose virtual node wins the probe loop (Proofs.v).
   R >= 1 is New's precondition (it panics otherwise); probes may be anything. *)
From Coq Require Import List NArith ZArith Arith Bool.
From Verif.C45 Require Import Model Spec Proofs Link Search Nearest Caller.
Import ListNotations.

(* One owner from the current members: after any history, Lookup answers with the (latest) value of a
   current member; it answers "none" only when there is no member; it never panics. *)
Theorem c45_owner_in_members : forall (h : list N -> N) (R P : nat), (1 <= R)%nat ->
  forall (ops : list (op val)) (k : key), owner_ok (sm_of ops) (answer h R P ops k).
Proof. exact owner_in_members. Qed.
Print Assumptions c45_owner_in_members.

(* The owner depends only on the current member set: two histories (of inserts, updates, removes,
   lookups that sweep and sort, Len calls) that end with the same members give the same answer. *)
Theorem c45_history_independent : forall (h : list N -> N) (R P : nat), (1 <= R)%nat ->
  forall ops1 ops2 : list (op val), same_members (sm_of ops1) (sm_of ops2) ->
  forall k, answer h R P ops1 k = answer h R P ops2 k.
Proof. exact history_independent. Qed.
Print Assumptions c45_history_independent.

(* ... in particular the same answer as a ring built fresh from the final member set, whatever order
   its members are inserted in. *)
Theorem c45_equals_fresh : forall (h : list N -> N) (R P : nat), (1 <= R)%nat ->
  forall (ops : list (op val)) (fm : smap),
  nodup_keys fm = true -> same_members fm (sm_of ops) ->
  forall k, answer h R P ops k = fresh_answer h R P fm k.
Proof. exact equals_fresh. Qed.
Print Assumptions c45_equals_fresh.

(* The ring's visible member map is exactly the abstract one (deferred removals are invisible). *)
Theorem c45_members_refine : forall (h : list N -> N) (R P : nat), (1 <= R)%nat ->
  forall (ops : list (op val)) (k : key), live val (ring_after h R P ops) k = sm_get (sm_of ops) k.
Proof. exact live_after. Qed.
Print Assumptions c45_members_refine.

(* The value stored for a member is the latest: after Insert k v and any operations that do not touch k,
   the ring holds v for k, and a Lookup won by k returns v. *)
Theorem c45_value_is_latest : forall (h : list N -> N) (R P : nat), (1 <= R)%nat ->
  forall (ops : list (op val)) (k : key) (v : val) (ops' : list (op val)), untouched k ops' ->
  live val (ring_after h R P (ops ++ OInsert k v :: ops')) k = Some v.
Proof. exact value_is_latest. Qed.
Print Assumptions c45_value_is_latest.

Theorem c45_owner_value_is_latest : forall (h : list N -> N) (R P : nat), (1 <= R)%nat ->
  forall (ops : list (op val)) (k : key) (v : val) (ops' : list (op val)) (q : key), untouched k ops' ->
  owner_key h val (ring_after h R P (ops ++ OInsert k v :: ops')) q = Some k ->
  answer h R P (ops ++ OInsert k v :: ops') q = LSome v.
Proof. exact owner_value_is_latest. Qed.
Print Assumptions c45_owner_value_is_latest.

(* The specification oracle accepts every run of the model (given fresh-ring member lists that are right). *)
Theorem c45_model_meets_spec : forall (h : list N -> N) (R P : nat), (1 <= R)%nat ->
  forall (ops : list (op val)) (os : list obs), fms_ok [] ops os = true ->
  ok_trace ops (model_obs h R P None (new val R P) ops os) = true.
Proof. exact model_meets_spec. Qed.
Print Assumptions c45_model_meets_spec.


(* Faithfulness of the model's bisection (slices.BinarySearchFunc with fuel len+1): on the table that
   Lookup searches after any history it returns the index of the first entry whose hash is >= the probe
   (len when there is none), so the fuel never runs out and no out-of-range branch is taken. *)
Theorem c45_search_is_first_ge : forall (h : list N -> N) (R P : nat), (1 <= R)%nat ->
  forall (ops : list (op val)) (p : N),
  search (r_entries val (prepare val (ring_after h R P ops))) p
  = first_ge (r_entries val (prepare val (ring_after h R P ops))) p.
Proof. exact search_after_history. Qed.
Print Assumptions c45_search_is_first_ge.


(* What the owner is (consistent hashing with virtual nodes and multi-probe): the winning member ok is a
   current member, and one of its R virtual nodes is at the smallest clockwise distance from one of the P
   probes of the key, among all virtual nodes of all current members and all probes. *)
Theorem c45_owner_is_nearest : forall (h : list N -> N) (R P : nat), (1 <= R)%nat -> (1 <= P)%nat ->
  forall (ops : list (op val)) (q ok : key),
  owner_key h val (ring_after h R P ops) q = Some ok ->
  sm_get (sm_of ops) ok <> None /\
  exists a i, (a < R)%nat /\ (i < P)%nat /\
    forall m b j, sm_get (sm_of ops) m <> None -> (b < R)%nat -> (j < P)%nat ->
      (ring_dist (salted h q i) (salted h ok a) <= ring_dist (salted h q j) (salted h m b))%N.
Proof. exact owner_is_nearest. Qed.
Print Assumptions c45_owner_is_nearest.


(* ---- the caller, felix/dataplane/linux/proxy_neigh_mgr.go (Model.pnm): one manager per cluster node ----
     node_selects h v6 host ops ip   what selectNodeForIP(ip) returns on the manager of node `host` (IP family
                                     v6) after the history ops of HostMetadataUpdate/Remove messages,
                                     earlier selectNodeForIP calls and CompleteDeferredWork calls
     hosts_after v6 ops              the hosts with an address of that family the node then knows (Spec.v) *)

(* Every node elects the same owner: for any address there is ONE owner o, a current member (none iff there
   is no member), such that every node knowing the same hosts - whatever its hostname, message order, repeats,
   flaps, earlier lookups - answers "mine" exactly when its hostname is o. *)
Theorem c45_nodes_elect_one_owner : forall (h : list N -> N) (v6 : bool) (ops : list nop) (ip : key),
  exists o : option key,
    (o = None <-> hosts_after v6 ops = []) /\
    (forall x, o = Some x -> sm_get (hosts_after v6 ops) x = Some x) /\
    forall host' ops', same_members (hosts_after v6 ops') (hosts_after v6 ops) ->
      node_selects h v6 host' ops' ip = match o with Some x => key_eqb x host' | None => false end.
Proof. exact nodes_elect_one_owner. Qed.
Print Assumptions c45_nodes_elect_one_owner.

(* ... so two nodes with the same view never both answer neighbour discovery for one address. *)
Theorem c45_nodes_never_both : forall (h : list N -> N) (v6 : bool) (host1 host2 : key) (ops1 ops2 : list nop) (ip : key),
  same_members (hosts_after v6 ops1) (hosts_after v6 ops2) ->
  node_selects h v6 host1 ops1 ip = true -> node_selects h v6 host2 ops2 ip = true -> host1 = host2.
Proof. exact nodes_never_both. Qed.
Print Assumptions c45_nodes_never_both.

(* A message raises the manager's dirty flag (which makes it re-elect) exactly when it changes the member set. *)
Theorem c45_dirty_tracks_membership : forall (h : list N -> N) (v6 : bool) (host : key) (ops : list nop) (msg : hmsg),
  p_dirty (node_after h v6 host (ops ++ [NMsg msg])) =
  p_dirty (node_after h v6 host ops)
  || negb (Nat.eqb (length (hosts_after v6 (ops ++ [NMsg msg]))) (length (hosts_after v6 ops))).
Proof. exact dirty_tracks_membership. Qed.
Print Assumptions c45_dirty_tracks_membership.


(* The oracle for node cases (per node: dirty raised by every membership change and cleared by
   CompleteDeferredWork, "mine" only from a member; across the nodes that know the same hosts: at most one
   hostname answers, it is a member, and somebody answers when every member is one of them) accepts every
   collection of model nodes, for any families, hostnames (even duplicate) and histories. *)
Theorem c45_nodes_model_meets_spec : forall (h : list N -> N) (gtbl : list (key * list N)) (ips : list key)
  (ds : list (bool * key * list nop)),
  ok_nodes (Build_ncase gtbl ips (map (mk_node h ips) ds)) = true.
Proof. exact nodes_model_meets_spec. Qed.
Print Assumptions c45_nodes_model_meets_spec.

(* ---- the hypotheses are satisfiable by non-trivial states (a maximally colliding hash: the length) ---- *)
Definition ex_hash (b : list N) : N := N.of_nat (length b).
Definition ex_ops1 : list (op val) :=
  [OInsert [1] [10]; OInsert [2] [20]; OLookup [7]; ORemove [1]; OInsert [3;3] [30]; OInsert [1] [11]; ORemove [2]]%N.
Definition ex_ops2 : list (op val) := [OInsert [3;3] [30]; OInsert [1] [11]]%N.

Example ex_same_members : forall k, sm_get (sm_of ex_ops1) k = sm_get (sm_of ex_ops2) k.
Proof.
  intro k. unfold ex_ops1, ex_ops2, sm_of. rewrite !sm_get_fold. simpl.
  destruct (key_eqb k [2%N]) eqn:E2; destruct (key_eqb k [1%N]) eqn:E1; destruct (key_eqb k [3%N;3%N]) eqn:E3; auto;
    apply Order.key_eqb_eq in E2; try apply Order.key_eqb_eq in E1; try apply Order.key_eqb_eq in E3; congruence.
Qed.
Example ex_answers :   (* [9;9;9] hashes past every virtual node and wraps around to member [1] *)
  answer ex_hash 2 2 ex_ops1 [9;9;9]%N = LSome [11]%N /\ answer ex_hash 2 2 ex_ops2 [9;9;9]%N = LSome [11]%N
  /\ answer ex_hash 2 2 ex_ops1 [9;9]%N = LSome [30]%N /\ answer ex_hash 2 2 ex_ops2 [9;9]%N = LSome [30]%N
  /\ fresh_answer ex_hash 2 2 [([1], [11]); ([3;3], [30])]%N [9;9]%N = LSome [30]%N
  /\ owner_key ex_hash val (ring_after ex_hash 2 2 ex_ops1) []%N = Some [1]%N.
Proof. vm_compute. repeat split. Qed.
Example ex_untouched : untouched [1]%N [ORemove [2]%N].
Proof. intros o [<-|[]]. discriminate. Qed.
Example ex_fms_ok : fms_ok [] ex_ops1 [BUnit; BUnit; BLook LNone LNone [([2], [20]); ([1], [10])]%N; BUnit; BUnit; BUnit; BUnit] = true.
Proof. vm_compute. reflexivity. Qed.

Definition ex_nops1 : list nop := [NMsg (HUpdate [1] [4] []); NMsg (HUpdate [2] [4] [6]); NSelect [9]; NMsg (HUpdate [3] [] [6]); NMsg (HRemove [2]); NMsg (HUpdate [2] [4] [6])]%N.
Definition ex_nops2 : list nop := [NMsg (HUpdate [2] [4] [6]); NComplete; NMsg (HUpdate [1] [4] [])]%N.
Example ex_nodes :   (* same two v4 hosts via different histories; exactly node [1] owns [9;9], node [2] owns [] *)
  hosts_after false ex_nops1 = [([2], [2]); ([1], [1])]%N /\ hosts_after false ex_nops2 = [([1], [1]); ([2], [2])]%N
  /\ node_selects ex_hash false [1]%N ex_nops1 [9;9]%N = true /\ node_selects ex_hash false [2]%N ex_nops2 [9;9]%N = false
  /\ node_selects ex_hash false [2]%N ex_nops1 []%N = node_selects ex_hash false [2]%N ex_nops2 []%N
  /\ p_dirty (node_after ex_hash false [1]%N ex_nops2) = true.
Proof. vm_compute. repeat split. Qed.
