(* C45 — property theorems only. *)
From Coq Require Import List NArith ZArith Arith Bool.
From Verif.C45 Require Import Model Spec Proofs.
Import ListNotations.

Theorem c45_key_eqb_refl : forall a, key_eqb a a = true.
Proof. exact key_eqb_refl. Qed.
Print Assumptions c45_key_eqb_refl.
