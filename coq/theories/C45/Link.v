(* C45 — connecting the ring model (Proofs.v) with the specification's member map (Spec.v). *)
From Coq Require Import List NArith ZArith Arith Bool Lia Sorted Permutation.
From Verif.C45 Require Import Model Order Proofs Spec.
Import ListNotations.

Lemma sm_get_mget : forall m k, sm_get m k = mget val m k.
Proof. induction m as [|[k' v] m IH]; simpl; intro k; auto; rewrite IH; auto. Qed.

Lemma sm_get_del : forall k0 m k, sm_get (sm_del k0 m) k = if key_eqb k k0 then None else sm_get m k.
Proof.
  intros. rewrite !sm_get_mget. unfold sm_del.
  rewrite (mget_filter val (fun x => negb (key_eqb k0 x))). rewrite (key_eqb_sym k0 k).
  destruct (key_eqb k k0); auto.
Qed.

Lemma sm_get_step : forall m o k, sm_get (sm_step m o) k = fstep val (sm_get m) o k.
Proof.
  intros m o k. destruct o as [k0 v|k0| |]; simpl; auto.
  - rewrite sm_get_del. destruct (key_eqb k k0); auto.
  - apply sm_get_del.
Qed.

Lemma fold_fstep_ext : forall ops (f g : key -> option val), (forall x, f x = g x) ->
  forall k, fold_left (fun a o => fstep val a o) ops f k = fold_left (fun a o => fstep val a o) ops g k.
Proof.
  induction ops as [|o ops IH]; intros f g H k; simpl; auto.
  apply IH. intro x. unfold fstep. destruct o; rewrite ?H; auto.
Qed.

Lemma sm_get_fold : forall ops m k,
  sm_get (fold_left sm_step ops m) k = fold_left (fun a o => fstep val a o) ops (sm_get m) k.
Proof.
  induction ops as [|o ops IH]; intros m k; simpl; auto.
  rewrite IH. apply fold_fstep_ext. intro x. apply sm_get_step.
Qed.

Section L.
  Variable h : list N -> N.
  Variables R P : nat.
  Hypothesis HR : (1 <= R)%nat.

  Lemma inv_after : forall ops, Inv h val (ring_after h R P ops).
  Proof. intros. unfold ring_after. apply inv_run. apply inv_new. auto. Qed.

  Lemma params_after : forall ops,
    r_replicas val (ring_after h R P ops) = R /\ r_probes val (ring_after h R P ops) = P.
  Proof. intros. unfold ring_after. apply (run_params h val zero_val ops (new val R P)). Qed.

  (* the ring stores exactly the abstract member map (value = latest insert) *)
  Lemma live_after : forall ops k, live val (ring_after h R P ops) k = sm_get (sm_of ops) k.
  Proof.
    intros. unfold ring_after, sm_of. rewrite sm_get_fold.
    apply live_run. apply inv_new; auto. intro x. reflexivity.
  Qed.

  Lemma sm_all_none : forall m : smap, (forall k, sm_get m k = None) -> m = [].
  Proof.
    intros [|[k v] m] H; auto. specialize (H k). simpl in H. rewrite key_eqb_refl in H. discriminate.
  Qed.

  Lemma owner_in_members : forall ops k, owner_ok (sm_of ops) (answer h R P ops k).
  Proof.
    intros. unfold answer.
    destruct (lookup_owner h val zero_val (ring_after h R P ops) k (inv_after ops)) as [[-> HN]|[ok [v [HL ->]]]]; simpl.
    - apply sm_all_none. intro x. rewrite <- live_after. auto.
    - exists ok. rewrite <- live_after. auto.
  Qed.

  Lemma history_independent : forall ops1 ops2, same_members (sm_of ops1) (sm_of ops2) ->
    forall k, answer h R P ops1 k = answer h R P ops2 k.
  Proof.
    intros ops1 ops2 HS k. unfold answer.
    apply lookup_live_ext; auto using inv_after.
    - destruct (params_after ops1), (params_after ops2). congruence.
    - destruct (params_after ops1), (params_after ops2). congruence.
    - intro x. rewrite !live_after. apply HS.
  Qed.
End L.

(* ---------- fresh rings ---------- *)
Definition ins_ops (fm : smap) : list (op val) := map (fun kv => OInsert (fst kv) (snd kv)) fm.

Lemma existsb_key_none : forall (fm : smap) k,
  existsb (fun kv => key_eqb k (fst kv)) fm = false -> sm_get fm k = None.
Proof.
  induction fm as [|[k1 v1] fm IH]; simpl; intros k H; auto.
  apply orb_false_iff in H. destruct H as [H1 H2]. rewrite H1. auto.
Qed.

Lemma nodup_get_fold : forall (fm : smap) f, nodup_keys fm = true ->
  forall k, fold_left (fun a o => fstep val a o) (ins_ops fm) f k
            = match sm_get fm k with Some v => Some v | None => f k end.
Proof.
  induction fm as [|[k1 v1] fm IH]; intros f ND k; simpl; auto.
  simpl in ND. apply andb_true_iff in ND. destruct ND as [N1 N2]. apply negb_true_iff in N1.
  rewrite (IH _ N2). simpl.
  destruct (key_eqb k k1) eqn:E; auto.
  apply key_eqb_eq in E. subst. rewrite (existsb_key_none _ _ N1). auto.
Qed.

Lemma sm_of_ins_ops : forall fm, nodup_keys fm = true -> same_members (sm_of (ins_ops fm)) fm.
Proof.
  intros fm ND k. unfold sm_of. rewrite sm_get_fold, nodup_get_fold; auto.
  simpl. destruct (sm_get fm k); auto.
Qed.

Lemma fresh_answer_answer : forall h R P fm k, fresh_answer h R P fm k = answer h R P (ins_ops fm) k.
Proof. intros. unfold fresh_answer, answer, ring_after, ins_ops. rewrite (fresh_run h val zero_val). auto. Qed.

Lemma equals_fresh : forall h R P, (1 <= R)%nat -> forall ops fm,
  nodup_keys fm = true -> same_members fm (sm_of ops) ->
  forall k, answer h R P ops k = fresh_answer h R P fm k.
Proof.
  intros h R P HR ops fm ND HS k. rewrite fresh_answer_answer.
  apply history_independent; auto.
  intro x. rewrite (sm_of_ins_ops fm ND x). symmetry. apply HS.
Qed.

(* ---------- the boolean checks of the oracle ---------- *)
Lemma nodup_keys_NoDup : forall m : smap, nodup_keys m = true <-> NoDup (keys val m).
Proof.
  induction m as [|[k v] m IH]; simpl.
  - split; auto. constructor.
  - rewrite andb_true_iff, negb_true_iff, IH. split.
    + intros [H1 H2]. constructor; auto. intro HI. apply in_map_iff in HI. destruct HI as [[k' v'] [E HI]].
      simpl in E. subst. assert (existsb (fun kv => key_eqb k (fst kv)) m = true); [|congruence].
      apply existsb_exists. exists (k, v'). split; auto. apply key_eqb_refl.
    + intro H. inversion H; subst. split; auto.
      destruct (existsb (fun kv => key_eqb k (fst kv)) m) eqn:E; auto.
      apply existsb_exists in E. destruct E as [[k' v'] [HI E]]. simpl in E. apply key_eqb_eq in E. subst.
      exfalso. apply H2. apply in_map_iff. exists (k', v'). auto.
Qed.

Lemma sm_get_Some_In : forall (m : smap) k v, sm_get m k = Some v -> In (k, v) m.
Proof.
  induction m as [|[k1 v1] m IH]; simpl; intros k v H; [discriminate|].
  destruct (key_eqb k k1) eqn:E; auto.
  apply key_eqb_eq in E. inversion H. subst. auto.
Qed.

Lemma sm_get_In : forall (m : smap) k v, NoDup (keys val m) -> In (k, v) m -> sm_get m k = Some v.
Proof.
  induction m as [|[k1 v1] m IH]; simpl; intros k v ND H; [contradiction|].
  inversion ND; subst. destruct H as [H|H].
  - inversion H; subst. rewrite key_eqb_refl. auto.
  - destruct (key_eqb k k1) eqn:E; auto.
    apply key_eqb_eq in E. subst. exfalso. apply H2. apply in_map_iff. exists (k1, v). auto.
Qed.

Lemma sub_members_In : forall m1 m2 : smap, sub_members m1 m2 = true -> forall kv, In kv m1 -> In kv m2.
Proof.
  unfold sub_members. intros m1 m2 H kv HI. rewrite forallb_forall in H. apply H in HI.
  apply existsb_exists in HI. destruct HI as [[k' v'] [HI E]]. destruct kv as [k v].
  unfold pair_eqb in E. simpl in E. apply andb_true_iff in E. destruct E as [E1 E2].
  apply key_eqb_eq in E1. apply key_eqb_eq in E2. subst. auto.
Qed.

Lemma enumerates_same : forall fm m : smap, NoDup (keys val m) -> enumerates fm m = true ->
  nodup_keys fm = true /\ same_members fm m.
Proof.
  intros fm m NDm H. unfold enumerates in H. apply andb_true_iff in H. destruct H as [H S2].
  apply andb_true_iff in H. destruct H as [ND S1]. split; auto.
  pose proof (proj1 (nodup_keys_NoDup fm) ND) as NDf.
  intro k. destruct (sm_get fm k) as [v|] eqn:G.
  - symmetry. apply sm_get_In; auto. eapply sub_members_In; eauto. apply sm_get_Some_In. auto.
  - destruct (sm_get m k) as [v|] eqn:G2; auto.
    apply sm_get_Some_In in G2. eapply sub_members_In in G2; eauto.
    apply sm_get_In in G2; auto. congruence.
Qed.

Lemma keys_sm_step_NoDup : forall m o, NoDup (keys val m) -> NoDup (keys val (sm_step m o)).
Proof.
  intros m o ND. destruct o as [k v|k| |]; simpl; auto.
  - unfold sm_set. simpl. constructor.
    + unfold sm_del. rewrite (keys_filter val (fun x => negb (key_eqb k x))). rewrite filter_In.
      rewrite key_eqb_refl. simpl. intros [_ H]. discriminate.
    + unfold sm_del. rewrite (keys_filter val (fun x => negb (key_eqb k x))). apply NoDup_filter'. auto.
  - unfold sm_del. rewrite (keys_filter val (fun x => negb (key_eqb k x))). apply NoDup_filter'. auto.
Qed.

Lemma keys_sm_of_NoDup : forall ops, NoDup (keys val (sm_of ops)).
Proof.
  intro ops. unfold sm_of. assert (NoDup (keys val [])) as H by constructor. revert H. generalize (@nil (key * val)).
  induction ops as [|o ops IH]; intros m H; simpl; auto.
  apply IH. apply keys_sm_step_NoDup. auto.
Qed.

Lemma equals_fresh_enum : forall h R P, (1 <= R)%nat -> forall ops fm,
  enumerates fm (sm_of ops) = true ->
  forall k, answer h R P ops k = fresh_answer h R P fm k.
Proof.
  intros h R P HR ops fm E k.
  destruct (enumerates_same fm (sm_of ops) (keys_sm_of_NoDup ops) E) as [ND HS].
  apply equals_fresh; auto.
Qed.

(* ---------- the value kept for a member is the one of its latest Insert ---------- *)
Lemma sm_get_untouched : forall ops' (m : smap) k, untouched k ops' ->
  sm_get (fold_left sm_step ops' m) k = sm_get m k.
Proof.
  induction ops' as [|o ops' IH]; intros m k U; simpl; auto.
  rewrite IH.
  - rewrite sm_get_step. assert (In o (o :: ops')) as HI by (left; auto). apply U in HI.
    destruct o as [k0 v|k0| |]; simpl; auto.
    + destruct (key_eqb k k0) eqn:E; auto. apply key_eqb_eq in E. congruence.
    + destruct (key_eqb k k0) eqn:E; auto. apply key_eqb_eq in E. congruence.
  - intros o' HI. apply U. right. auto.
Qed.

Lemma latest_binding : forall ops k v ops', untouched k ops' ->
  sm_get (sm_of (ops ++ OInsert k v :: ops')) k = Some v.
Proof.
  intros. unfold sm_of. rewrite fold_left_app. simpl. rewrite sm_get_untouched; auto.
  simpl. rewrite key_eqb_refl. auto.
Qed.

Lemma value_is_latest : forall h R P, (1 <= R)%nat -> forall ops k v ops', untouched k ops' ->
  live val (ring_after h R P (ops ++ OInsert k v :: ops')) k = Some v.
Proof. intros. rewrite live_after; auto. apply latest_binding. auto. Qed.

(* ---------- the oracle accepts every run of the model ---------- *)
Lemma lres_eqb_refl : forall a, lres_eqb a a = true.
Proof. destruct a; simpl; auto. apply key_eqb_refl. Qed.

Lemma length_live : forall h (r : ring val) (m : smap), Inv h val r -> NoDup (keys val m) ->
  (forall k, live val r k = sm_get m k) -> len val r = Z.of_nat (length m).
Proof.
  intros h r m I ND HL. rewrite (len_lkeys h val r I).
  f_equal. replace (length m) with (length (keys val m)) by (unfold keys; apply map_length).
  apply Permutation_length. apply NoDup_Permutation; [exact (lkeys_NoDup h val r I) | exact ND | ].
  intro k. rewrite (lkeys_In h), HL, sm_get_mget. apply mget_keys.
Qed.

Section M.
  Variable h : list N -> N.
  Variables R P : nat.
  Hypothesis HR : (1 <= R)%nat.

  Lemma live_fresh : forall fm, nodup_keys fm = true ->
    Inv h val (fresh h val R P fm) /\ r_replicas val (fresh h val R P fm) = R /\ r_probes val (fresh h val R P fm) = P
    /\ forall k, live val (fresh h val R P fm) k = sm_get fm k.
  Proof.
    intros fm ND. rewrite (fresh_run h val zero_val). fold (ins_ops fm). fold (ring_after h R P (ins_ops fm)).
    destruct (params_after h R P (ins_ops fm)) as [A B].
    repeat match goal with |- _ /\ _ => split end; auto using inv_after.
    intro k. rewrite live_after; auto. apply sm_of_ins_ops. auto.
  Qed.

  Definition cache_ok (c : option (smap * ring val)) : Prop :=
    match c with
    | None => True
    | Some (fm', fr) => Inv h val fr /\ r_replicas val fr = R /\ r_probes val fr = P
                        /\ forall k, live val fr k = sm_get fm' k
    end.

  Lemma smap_eqb_eq : forall a b, smap_eqb a b = true -> a = b.
  Proof.
    induction a as [|[k v] a IH]; destruct b as [|[k' v'] b]; simpl; intro H; try discriminate; auto.
    apply andb_true_iff in H. destruct H as [H1 H2]. unfold pair_eqb in H1. simpl in H1.
    apply andb_true_iff in H1. destruct H1 as [E1 E2]. apply key_eqb_eq in E1. apply key_eqb_eq in E2.
    rewrite (IH b H2). congruence.
  Qed.

  Lemma fresh_cached_ok : forall c fm, cache_ok c -> nodup_keys fm = true ->
    Inv h val (fresh_cached h R P c fm) /\ r_replicas val (fresh_cached h R P c fm) = R
    /\ r_probes val (fresh_cached h R P c fm) = P
    /\ forall k, live val (fresh_cached h R P c fm) k = sm_get fm k.
  Proof.
    intros c fm HC ND. unfold fresh_cached. destruct c as [[fm' fr]|]; [|apply live_fresh; auto].
    destruct (smap_eqb fm fm') eqn:E; [|apply live_fresh; auto].
    apply smap_eqb_eq in E. subst. exact HC.
  Qed.

  Lemma model_meets_spec_gen : forall ops (r : ring val) (m : smap) os c,
    Inv h val r -> r_replicas val r = R -> r_probes val r = P ->
    (forall k, live val r k = sm_get m k) -> NoDup (keys val m) -> cache_ok c ->
    fms_ok m ops os = true ->
    ok_trace_from m ops (model_obs h R P c r ops os) = true.
  Proof.
    induction ops as [|o ops IH]; intros r m os c I ER EP HL ND HC HF; [reflexivity|].
    cbn [fms_ok] in HF. apply andb_true_iff in HF. destruct HF as [HF1 HF2].
    pose proof (inv_step h val zero_val r o I) as I'.
    destruct (step_params h val zero_val r o) as [ER' EP'].
    assert (forall k, live val (fst (step h val zero_val r o)) k = sm_get (sm_step m o) k) as HL'.
    { intro k. rewrite live_step; auto. rewrite sm_get_step. unfold fstep. destruct o; rewrite ?HL; auto. }
    pose proof (keys_sm_step_NoDup m o ND) as ND'.
    assert (forall c', cache_ok c' ->
            ok_trace_from (sm_step m o) ops (model_obs h R P c' (fst (step h val zero_val r o)) ops (tl os)) = true) as Htl.
    { intros c' HC'. apply IH; auto; try congruence. }
    clear IH. cbn [model_obs].
    destruct o as [k v|k|k|].
    - cbn [step fst] in *. cbn [ok_trace_from]. apply Htl; auto.
    - cbn [step fst] in *. cbn [ok_trace_from]. apply Htl; auto.
    - cbn [step] in *. destruct (lookup h val zero_val r k) as [r' res] eqn:EL. cbn [fst] in *.
      destruct os as [|[| |ores ofres fm] os']; try discriminate.
      destruct (enumerates_same fm m ND HF1) as [NDf HS].
      destruct (fresh_cached_ok c fm HC NDf) as [If [Rf [Pf Lf]]].
      destruct (lookup h val zero_val (fresh_cached h R P c fm) k) as [fr' fres] eqn:EF.
      cbn [tl] in *. cbn [ok_trace_from]. cbn [sm_step] in Htl. rewrite HF1.
      rewrite Htl.
      2:{ pose proof (inv_step h val zero_val _ (OLookup k) If) as I2.
          destruct (step_params h val zero_val (fresh_cached h R P c fm) (OLookup k)) as [R2 P2].
          pose proof (fun x => live_step h val zero_val (fresh_cached h R P c fm) (OLookup k) x If) as L2.
          cbn [step] in I2, R2, P2, L2. rewrite EF in I2, R2, P2, L2. cbn [fst fstep] in I2, R2, P2, L2.
          cbn [cache_ok]. repeat match goal with |- _ /\ _ => split end; auto; try congruence;
            try (intro x; rewrite L2; apply Lf). }
      assert (res = fres) as <-.
      { replace res with (snd (lookup h val zero_val r k)) by (rewrite EL; auto).
        replace fres with (snd (lookup h val zero_val (fresh_cached h R P c fm) k)) by (rewrite EF; auto).
        apply lookup_live_ext; auto; try congruence; intro x; rewrite HL, Lf; symmetry; apply HS. }
      rewrite lres_eqb_refl.
      assert (owner_okb m res = true) as ->; auto.
      replace res with (snd (lookup h val zero_val r k)) by (rewrite EL; auto).
      destruct (lookup_owner h val zero_val r k I) as [[-> HN]|[ok [v [HLv ->]]]]; simpl.
      + rewrite (sm_all_none m); auto. intro x. rewrite <- HL. auto.
      + apply existsb_exists. exists (ok, v). split; [|apply key_eqb_refl].
        apply sm_get_Some_In. rewrite <- HL. auto.
    - cbn [step fst] in *. cbn [ok_trace_from]. cbn [sm_step] in Htl. rewrite Htl; auto.
      rewrite (length_live h r m I ND HL). rewrite Z.eqb_refl. auto.
  Qed.

  Lemma model_meets_spec : forall ops os, fms_ok [] ops os = true ->
    ok_trace ops (model_obs h R P None (new val R P) ops os) = true.
  Proof.
    intros. unfold ok_trace. apply model_meets_spec_gen; auto.
    - apply inv_new; auto.
    - constructor.
    - exact Logic.I.
  Qed.
End M.

Lemma owner_value_is_latest : forall h R P, (1 <= R)%nat -> forall ops k v ops' q, untouched k ops' ->
  owner_key h val (ring_after h R P (ops ++ OInsert k v :: ops')) q = Some k ->
  answer h R P (ops ++ OInsert k v :: ops') q = LSome v.
Proof.
  intros h R P HR ops k v ops' q U HO. unfold answer.
  pose proof (lookup_by_owner h val zero_val _ q (inv_after h R P HR (ops ++ OInsert k v :: ops'))) as H.
  rewrite HO in H. destruct H as [v' [HL ->]].
  rewrite (value_is_latest h R P HR ops k v ops' U) in HL. congruence.
Qed.
