(* C45 — the proxy-neighbour manager on top of the ring: every node elects the same owner. *)
From Coq Require Import List NArith ZArith Arith Bool Lia Sorted Permutation ZifyNat ZifyBool.
From Verif.C45 Require Import Model Order Proofs Spec Link.
Import ListNotations.

Lemma one_le_100 : (1 <= 100)%nat.
Proof. lia. Qed.

Section C.
  Variable h : list N -> N.

  Notation run := (run h val zero_val).

  Lemma run_nil : forall r, fst (run r []) = r.
  Proof. reflexivity. Qed.

  Lemma run_app : forall a b r, fst (run r (a ++ b)) = fst (run (fst (run r a)) b).
  Proof.
    induction a as [|o a IH]; intros b r; [reflexivity|].
    simpl app. rewrite !(run_cons h val zero_val). apply IH.
  Qed.

  Lemma node_step_ring : forall m o,
    p_ring (fst (node_step h m o)) = fst (run (p_ring m) (rops_of (p_v6 m) o))
    /\ p_v6 (fst (node_step h m o)) = p_v6 m /\ p_host (fst (node_step h m o)) = p_host m.
  Proof.
    intros m o. destruct o as [[hst a4 a6|hst]|ip|]; cbn [node_step rops_of rops_of_msg].
    - unfold pnm_update. destruct (if p_v6 m then a6 else a4); cbn [fst p_ring p_v6 p_host]; auto.
    - cbn [fst pnm_update p_ring p_v6 p_host]. auto.
    - unfold pnm_select. rewrite (run_cons h val zero_val). cbn [step].
      destruct (lookup h key [] (p_ring m) ip) as [r' res] eqn:E.
      change (lookup h val zero_val (p_ring m) ip) with (lookup h key [] (p_ring m) ip). rewrite E.
      cbn [fst p_ring p_v6 p_host]. auto.
    - cbn [fst pnm_complete p_ring p_v6 p_host]. auto.
  Qed.

  Lemma node_run_cons : forall m o ops, fst (node_run h m (o :: ops)) = fst (node_run h (fst (node_step h m o)) ops).
  Proof. intros. simpl. destruct (node_step h m o) as [m1 b]. simpl. destruct (node_run h m1 ops). auto. Qed.

  Lemma node_run_ring : forall ops m,
    p_ring (fst (node_run h m ops)) = fst (run (p_ring m) (flat_map (rops_of (p_v6 m)) ops))
    /\ p_v6 (fst (node_run h m ops)) = p_v6 m /\ p_host (fst (node_run h m ops)) = p_host m.
  Proof.
    induction ops as [|o ops IH]; intro m; [simpl; auto|].
    rewrite node_run_cons. destruct (node_step_ring m o) as [A [B C]].
    destruct (IH (fst (node_step h m o))) as [A' [B' C']].
    cbn [flat_map]. rewrite run_app, <- A, <- B. rewrite A', B', C'. auto.
  Qed.

  Lemma node_after_ring : forall v6 host ops,
    p_ring (node_after h v6 host ops) = ring_after h 100 1 (flat_map (rops_of v6) ops)
    /\ p_v6 (node_after h v6 host ops) = v6 /\ p_host (node_after h v6 host ops) = host.
  Proof. intros. unfold node_after. apply (node_run_ring ops (pnm_new v6 host)). Qed.

  (* selectNodeForIP on a node = "the ring's answer is my hostname" *)
  Lemma select_answer : forall v6 host ops ip,
    node_selects h v6 host ops ip =
    match answer h 100 1 (flat_map (rops_of v6) ops) ip with LSome o => key_eqb o host | _ => false end.
  Proof.
    intros. unfold node_selects, pnm_select, answer.
    destruct (node_after_ring v6 host ops) as [A [B C]]. rewrite A, C.
    change (lookup h key [] (ring_after h 100 1 (flat_map (rops_of v6) ops)) ip)
      with (lookup h val zero_val (ring_after h 100 1 (flat_map (rops_of v6) ops)) ip).
    destruct (lookup h val zero_val (ring_after h 100 1 (flat_map (rops_of v6) ops)) ip) as [r' res]. auto.
  Qed.

  (* the manager stores value = hostname *)
  Definition self_op (o : op val) : Prop := match o with OInsert k v => v = k | _ => True end.

  Lemma self_rops : forall v6 ops, Forall self_op (flat_map (rops_of v6) ops).
  Proof.
    induction ops as [|o ops IH]; simpl; [constructor|]. apply Forall_app. split; auto.
    destruct o as [[hst a4 a6|hst]|ip|]; simpl; repeat constructor.
    destruct (if v6 then a6 else a4); repeat constructor.
  Qed.

  Lemma self_fold : forall ops (f : key -> option val), (forall k v, f k = Some v -> v = k) -> Forall self_op ops ->
    forall k v, fold_left (fun a o => fstep val a o) ops f k = Some v -> v = k.
  Proof.
    induction ops as [|o ops IH]; intros f Hf HS k v; simpl; auto.
    inversion HS; subst. apply IH; auto.
    intros k' v'. unfold fstep. destruct o as [k0 v0|k0| |]; auto.
    - destruct (key_eqb k' k0) eqn:E; auto. intro H. inversion H; subst. simpl in H1. subst.
      apply key_eqb_eq in E. auto.
    - destruct (key_eqb k' k0); auto. discriminate.
  Qed.

  Lemma hosts_self : forall v6 ops k v, sm_get (hosts_after v6 ops) k = Some v -> v = k.
  Proof.
    intros v6 ops k v H. unfold hosts_after, sm_of in H. rewrite sm_get_fold in H.
    eapply self_fold; eauto using self_rops. intros; discriminate.
  Qed.

  (* Every node elects the same owner: for any address there is one owner o, a current member (or none iff
     there is no member), such that EVERY node that knows the same hosts, whatever its own hostname, the
     order its messages arrived in, its repeats, flaps, earlier selections and reconciles, answers
     "the address is mine" exactly when its hostname is o. *)
  Theorem nodes_elect_one_owner : forall v6 ops ip, exists o : option key,
    (o = None <-> hosts_after v6 ops = []) /\
    (forall x, o = Some x -> sm_get (hosts_after v6 ops) x = Some x) /\
    forall host' ops', same_members (hosts_after v6 ops') (hosts_after v6 ops) ->
      node_selects h v6 host' ops' ip = match o with Some x => key_eqb x host' | None => false end.
  Proof.
    intros v6 ops ip.
    pose proof (owner_in_members h 100 1 one_le_100 (flat_map (rops_of v6) ops) ip) as HO.
    assert (forall host' ops', same_members (hosts_after v6 ops') (hosts_after v6 ops) ->
            node_selects h v6 host' ops' ip =
            match answer h 100 1 (flat_map (rops_of v6) ops) ip with LSome o => key_eqb o host' | _ => false end) as HS.
    { intros host' ops' HM. rewrite select_answer.
      rewrite (history_independent h 100 1 one_le_100 _ (flat_map (rops_of v6) ops) HM). auto. }
    fold (hosts_after v6 ops) in HO.
    destruct (answer h 100 1 (flat_map (rops_of v6) ops) ip) as [|v|]; simpl in HO.
    - exists None. split; [tauto|]. split; [discriminate|]. exact HS.
    - destruct HO as [k Hk]. pose proof (hosts_self _ _ _ _ Hk). subst k.
      exists (Some v). split; [|split].
      + split; [discriminate|]. intro E. rewrite E in Hk. discriminate.
      + intros x Hx. inversion Hx; subst. auto.
      + exact HS.
    - contradiction.
  Qed.

  Corollary nodes_never_both : forall v6 host1 host2 ops1 ops2 ip,
    same_members (hosts_after v6 ops1) (hosts_after v6 ops2) ->
    node_selects h v6 host1 ops1 ip = true -> node_selects h v6 host2 ops2 ip = true -> host1 = host2.
  Proof.
    intros v6 host1 host2 ops1 ops2 ip HM S1 S2.
    destruct (nodes_elect_one_owner v6 ops2 ip) as [o [_ [_ H]]].
    rewrite (H host1 ops1 HM) in S1. rewrite (H host2 ops2 (fun k => eq_refl)) in S2.
    destruct o as [x|]; try discriminate. apply key_eqb_eq in S1. apply key_eqb_eq in S2. congruence.
  Qed.

  (* the dirty flag is raised exactly by messages that change the member set *)
  Lemma len_node : forall v6 host ops,
    len key (p_ring (node_after h v6 host ops)) = Z.of_nat (length (hosts_after v6 ops)).
  Proof.
    intros. destruct (node_after_ring v6 host ops) as [A _]. rewrite A.
    apply (length_live h). apply inv_after. lia. apply keys_sm_of_NoDup.
    intro k. apply live_after. lia.
  Qed.

  Lemma node_after_snoc : forall v6 host ops o,
    node_after h v6 host (ops ++ [o]) = fst (node_step h (node_after h v6 host ops) o).
  Proof.
    intros. unfold node_after. generalize (pnm_new v6 host). induction ops as [|o' ops IH]; intro m.
    - simpl. destruct (node_step h m o). auto.
    - simpl app. rewrite !node_run_cons. apply IH.
  Qed.

  Theorem dirty_tracks_membership : forall v6 host ops msg,
    p_dirty (node_after h v6 host (ops ++ [NMsg msg])) =
    p_dirty (node_after h v6 host ops)
    || negb (Nat.eqb (length (hosts_after v6 (ops ++ [NMsg msg]))) (length (hosts_after v6 ops))).
  Proof.
    intros v6 host ops msg.
    pose proof (len_node v6 host (ops ++ [NMsg msg])) as L1. pose proof (len_node v6 host ops) as L0.
    rewrite node_after_snoc in *. cbn [node_step fst] in *.
    destruct (node_after_ring v6 host ops) as [_ [B _]].
    assert (forall a b : nat, Z.eqb (Z.of_nat a) (Z.of_nat b) = Nat.eqb a b) as HZ.
    { intros a b. destruct (Nat.eqb a b) eqn:E; [apply Nat.eqb_eq in E; subst; apply Z.eqb_refl|].
      apply Nat.eqb_neq in E. apply Z.eqb_neq. lia. }
    destruct msg as [hst a4 a6|hst]; unfold pnm_update in *.
    - rewrite B in *. destruct (if v6 then a6 else a4) eqn:EA.
      + rewrite L0 in L1. apply Nat2Z.inj in L1. rewrite <- L1, Nat.eqb_refl. simpl. rewrite orb_false_r. auto.
      + cbn [p_dirty p_ring] in *. rewrite L1, L0, HZ. auto.
    - cbn [p_dirty p_ring] in *. rewrite L1, L0, HZ. auto.
  Qed.
End C.

(* ---- the per-node oracle accepts every run of the model node ---- *)
Section T.
  Variable h : list N -> N.

  Lemma hosts_after_snoc : forall v6 pre o,
    hosts_after v6 (pre ++ [o]) = fold_left sm_step (rops_of v6 o) (hosts_after v6 pre).
  Proof.
    intros. unfold hosts_after, sm_of. rewrite flat_map_app, fold_left_app. simpl. rewrite app_nil_r. auto.
  Qed.

  Lemma node_run_from : forall m o ops,
    snd (node_run h m (o :: ops)) = snd (node_step h m o) :: snd (node_run h (fst (node_step h m o)) ops).
  Proof. intros. simpl. destruct (node_step h m o) as [m1 b]. simpl. destruct (node_run h m1 ops). auto. Qed.

  Lemma has_host_get : forall (S : smap) k v, sm_get S k = Some v -> has_host S k = true.
  Proof.
    intros S k v H. apply sm_get_Some_In in H. unfold has_host. apply existsb_exists.
    exists (k, v). split; auto. apply key_eqb_refl.
  Qed.

  Lemma node_trace_ok_gen : forall v6 host ops pre,
    ok_node_trace v6 host (hosts_after v6 pre) ops (snd (node_run h (node_after h v6 host pre) ops)) = true.
  Proof.
    induction ops as [|o ops IH]; intro pre; [reflexivity|].
    rewrite node_run_from. rewrite <- (node_after_snoc h v6 host pre o).
    cbn [ok_node_trace]. rewrite <- hosts_after_snoc. specialize (IH (pre ++ [o])).
    destruct o as [msg|ip|]; cbn [node_step snd].
    - rewrite IH, andb_true_r.
      pose proof (dirty_tracks_membership h v6 host pre msg) as D.
      rewrite (node_after_snoc h v6 host pre (NMsg msg)) in D. cbn [node_step fst] in D. rewrite D.
      destruct (Nat.eqb (length (hosts_after v6 (pre ++ [NMsg msg]))) (length (hosts_after v6 pre))); simpl; auto.
      apply orb_true_r.
    - destruct (pnm_select h (node_after h v6 host pre) ip) as [m' b] eqn:E. cbn [snd].
      rewrite IH, andb_true_r.
      assert (b = node_selects h v6 host pre ip) as -> by (unfold node_selects; rewrite E; auto).
      destruct (node_selects h v6 host pre ip) eqn:SEL; simpl; auto.
      destruct (nodes_elect_one_owner h v6 pre ip) as [o [_ [HM HS]]].
      rewrite (HS host pre (fun k => eq_refl)) in SEL. destruct o as [x|]; [|discriminate].
      apply key_eqb_eq in SEL. subst. eapply has_host_get. apply HM. auto.
    - rewrite IH. reflexivity.
  Qed.

  Theorem node_trace_ok : forall v6 host ops,
    ok_node_trace v6 host [] ops (snd (node_run h (pnm_new v6 host) ops)) = true.
  Proof. intros. apply (node_trace_ok_gen v6 host ops []). Qed.
End T.

(* ---- the cross-node oracle accepts every collection of model nodes ---- *)
Section G.
  Variable h : list N -> N.

  Definition mk_node (ips : list key) (d : bool * key * list nop) : node :=
    let '(v6, host, ops) := d in
    Build_node v6 host ops (snd (node_run h (pnm_new v6 host) ops)) (node_finals h (node_after h v6 host ops) ips).

  Lemma Forall2_impl' : forall (A B : Type) (R Q : A -> B -> Prop), (forall a b, R a b -> Q a b) ->
    forall l1 l2, Forall2 R l1 l2 -> Forall2 Q l1 l2.
  Proof. induction 2; constructor; auto. Qed.

  Lemma hosts_after_select : forall v6 ops ip, hosts_after v6 (ops ++ [NSelect ip]) = hosts_after v6 ops.
  Proof. intros. rewrite hosts_after_snoc. reflexivity. Qed.

  Lemma finals_spec : forall v6 host ips ops,
    Forall2 (fun ip b => exists ops', hosts_after v6 ops' = hosts_after v6 ops /\ b = node_selects h v6 host ops' ip)
            ips (node_finals h (node_after h v6 host ops) ips).
  Proof.
    induction ips as [|ip ips IH]; intro ops; cbn [node_finals]; [constructor|].
    destruct (pnm_select h (node_after h v6 host ops) ip) as [m' b] eqn:E.
    assert (m' = node_after h v6 host (ops ++ [NSelect ip])) as ->.
    { rewrite node_after_snoc. cbn [node_step]. rewrite E. auto. }
    constructor.
    - exists ops. split; auto. unfold node_selects. rewrite E. auto.
    - eapply Forall2_impl'; [|apply IH]. intros x y [ops' [H1 H2]]. exists ops'. split; auto.
      rewrite H1. apply hosts_after_select.
  Qed.

  Lemma Forall2_nth' : forall (A B : Type) (R : A -> B -> Prop) l1 l2, Forall2 R l1 l2 ->
    forall j d1 d2, (j < length l1)%nat -> R (nth j l1 d1) (nth j l2 d2).
  Proof.
    induction 1; intros j d1 d2 Hj; simpl in *; [lia|]. destruct j; auto. apply IHForall2. lia.
  Qed.

  Lemma finals_length : forall ips m, length (node_finals h m ips) = length ips.
  Proof.
    induction ips as [|ip ips IH]; intro m; cbn [node_finals]; auto.
    destruct (pnm_select h m ip). simpl. rewrite IH. auto.
  Qed.

  Lemma same_members_sym : forall a b, same_members a b -> same_members b a.
  Proof. intros a b H k. symmetry. apply H. Qed.

  (* inside a group, a model node's j-th final answer is "the owner (as seen from a) is me" *)
  Lemma group_final : forall ips d a j (o : option key),
    (j < length ips)%nat ->
    same_group a (mk_node ips d) = true ->
    (forall host' ops', same_members (hosts_after (n_v6 a) ops') (hosts_after (n_v6 a) (n_ops a)) ->
       node_selects h (n_v6 a) host' ops' (nth j ips []) = match o with Some x => key_eqb x host' | None => false end) ->
    nth j (n_final (mk_node ips d)) false = match o with Some x => key_eqb x (n_host (mk_node ips d)) | None => false end.
  Proof.
    intros ips [[v6 host] ops] a j o Hj SG HO. unfold mk_node in *. cbn [n_final n_host n_v6 n_ops] in *.
    unfold same_group in SG. cbn [n_v6 n_ops] in SG. apply andb_true_iff in SG. destruct SG as [EV EN].
    apply Bool.eqb_prop in EV. subst v6.
    destruct (enumerates_same _ _ (keys_sm_of_NoDup _) EN) as [_ HM].
    destruct (Forall2_nth' _ _ _ _ _ (finals_spec (n_v6 a) host ips ops) j [] false Hj) as [ops' [H1 ->]].
    apply HO. rewrite H1. apply same_members_sym. exact HM.
  Qed.

  Theorem nodes_model_meets_spec : forall gtbl ips ds,
    ok_nodes (Build_ncase gtbl ips (map (mk_node ips) ds)) = true.
  Proof.
    intros gtbl ips ds. unfold ok_nodes. cbn [nc_nodes nc_ips]. apply forallb_forall. intros a Ha.
    assert (exists d, a = mk_node ips d) as [da Eda] by (apply in_map_iff in Ha; destruct Ha as [d [E _]]; eauto).
    apply andb_true_iff. split; [apply andb_true_iff; split|].
    - subst a. destruct da as [[v6 host] ops]. cbn [mk_node n_v6 n_host n_ops n_obs]. apply node_trace_ok.
    - subst a. destruct da as [[v6 host] ops]. cbn [mk_node n_final]. rewrite finals_length. apply Nat.eqb_refl.
    - unfold ok_group. apply forallb_forall. intros j Hj. apply in_seq in Hj.
      set (S := hosts_after (n_v6 a) (n_ops a)).
      set (g := filter (same_group a) (map (mk_node ips) ds)).
      destruct (nodes_elect_one_owner h (n_v6 a) (n_ops a) (nth j ips [])) as [o [HN [HM HO]]]. fold S in HN, HM.
      assert (forall x, In x g -> nth j (n_final x) false = match o with Some y => key_eqb y (n_host x) | None => false end) as HF.
      { intros x Hx. apply filter_In in Hx. destruct Hx as [Hx SG]. apply in_map_iff in Hx. destruct Hx as [d [<- _]].
        apply (group_final ips d a j o); [lia | exact SG | exact HO]. }
      set (sel := filter (fun n => nth j (n_final n) false) g).
      assert (forall x, In x sel -> In x g /\ exists y, o = Some y /\ n_host x = y) as HS.
      { intros x Hx. apply filter_In in Hx. destruct Hx as [Hg Hf]. split; auto.
        rewrite (HF x Hg) in Hf. destruct o as [y|]; [|discriminate]. apply key_eqb_eq in Hf. eauto. }
      apply andb_true_iff. split; [apply andb_true_iff; split|].
      + apply forallb_forall. intros x Hx. apply forallb_forall. intros y Hy.
        destruct (HS x Hx) as [_ [u [E1 E2]]]. destruct (HS y Hy) as [_ [w [E3 E4]]].
        apply key_eqb_eq. congruence.
      + apply forallb_forall. intros x Hx. destruct (HS x Hx) as [_ [u [E1 E2]]].
        eapply has_host_get. rewrite E2. apply HM. exact E1.
      + destruct (forallb (fun kv => existsb (fun n => key_eqb (fst kv) (n_host n)) g) S) eqn:AH; simpl; auto.
        destruct S as [|kv S'] eqn:ES; auto.
        destruct o as [y|]; [|exfalso; assert (@None key = None) as E by auto; apply HN in E; discriminate].
        pose proof (HM y eq_refl) as Gy. apply sm_get_Some_In in Gy.
        rewrite forallb_forall in AH. apply AH in Gy. cbn [fst] in Gy.
        apply existsb_exists in Gy. destruct Gy as [n [Hn En]].
        assert (In n sel) as Hsel.
        { apply filter_In. split; auto. rewrite (HF n Hn). exact En. }
        destruct sel; [contradiction|auto].
  Qed.
End G.
