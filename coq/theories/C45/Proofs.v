(* C45 — proofs. *)
From Coq Require Import List NArith ZArith Arith Bool Lia.
From Verif.C45 Require Import Model Spec.
Import ListNotations.

Lemma key_eqb_refl : forall a, key_eqb a a = true.
Proof. induction a; simpl; auto. rewrite N.eqb_refl. auto. Qed.
