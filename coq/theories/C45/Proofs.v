(* C45 — invariant of the ring, refinement to the abstract member map, characterisation of Lookup. *)
From Coq Require Import List NArith ZArith Arith Bool Lia Sorted Permutation ZifyN ZifyNat ZifyBool.
From Verif.C45 Require Import Model Order.
Import ListNotations.
Ltac Zify.zify_post_hook ::= Z.div_mod_to_equations.

(* ---------- sets of strings ---------- *)
Lemma smem_In : forall k s, smem k s = true <-> In k s.
Proof.
  unfold smem. intros. rewrite existsb_exists. split.
  - intros [x [Hx E]]. apply key_eqb_eq in E. subst. auto.
  - intro. exists k. split; auto. apply key_eqb_refl.
Qed.

Lemma smem_nIn : forall k s, smem k s = false <-> ~ In k s.
Proof.
  intros. rewrite <- smem_In. destruct (smem k s); intuition congruence.
Qed.

Lemma sdel_In : forall x k s, In x (sdel k s) <-> In x s /\ x <> k.
Proof.
  intros. unfold sdel. rewrite filter_In. rewrite negb_true_iff, key_eqb_neq.
  split; intros [A B]; split; auto.
Qed.

Lemma sadd_In : forall x k s, In x (sadd k s) <-> x = k \/ In x s.
Proof.
  intros. unfold sadd. destruct (smem k s) eqn:E.
  - apply smem_In in E. split; auto. intros [->|H]; auto.
  - simpl. split; intros [H|H]; auto.
Qed.

Lemma NoDup_filter' : forall (A : Type) (f : A -> bool) l, NoDup l -> NoDup (filter f l).
Proof.
  induction l as [|x l IH]; simpl; intro H; auto.
  inversion H; subst. destruct (f x); auto. constructor; auto.
  rewrite filter_In. tauto.
Qed.

Lemma sadd_NoDup : forall k s, NoDup s -> NoDup (sadd k s).
Proof.
  intros. unfold sadd. destruct (smem k s) eqn:E; auto.
  constructor; auto. apply smem_nIn. auto.
Qed.

Lemma bool_eq_iff : forall a b : bool, (a = true <-> b = true) -> a = b.
Proof. intros [] [] [H1 H2]; auto. symmetry; auto. Qed.

Lemma smem_sdel : forall k k0 d, smem k (sdel k0 d) = negb (key_eqb k k0) && smem k d.
Proof.
  intros. apply bool_eq_iff. rewrite andb_true_iff, negb_true_iff, key_eqb_neq, !smem_In, sdel_In. tauto.
Qed.

Lemma smem_sadd : forall k k0 d, smem k (sadd k0 d) = key_eqb k k0 || smem k d.
Proof.
  intros. apply bool_eq_iff. rewrite orb_true_iff, key_eqb_eq, !smem_In, sadd_In. tauto.
Qed.

Lemma Permutation_filter' : forall (A : Type) (f : A -> bool) l l',
  Permutation l l' -> Permutation (filter f l) (filter f l').
Proof.
  induction 1; simpl; auto.
  - destruct (f x); auto.
  - destruct (f x), (f y); auto. apply perm_swap.
  - eapply Permutation_trans; eauto.
Qed.

Lemma bisect_bounds : forall fuel es p i j,
  (i <= j)%nat -> (j <= length es)%nat ->
  (i <= bisect fuel es p i j <= j)%nat.
Proof.
  induction fuel as [|f IH]; intros es p i j Hij Hj; simpl; [lia|].
  destruct (Nat.ltb i j) eqn:L; [|lia].
  apply Nat.ltb_lt in L.
  assert (i <= Nat.div2 (i + j) < j)%nat as Hh by (rewrite Nat.div2_div; lia).
  destruct (nth_error es (Nat.div2 (i + j))) as [e|]; [|lia].
  destruct (N.ltb (e_hash e) p).
  - specialize (IH es p (S (Nat.div2 (i + j))) j). lia.
  - specialize (IH es p i (Nat.div2 (i + j))). lia.
Qed.

Lemma search_le : forall es p, (search es p <= length es)%nat.
Proof. intros. unfold search. pose proof (bisect_bounds (S (length es)) es p 0 (length es)). lia. Qed.

Section P.
  Variable hash : list N -> N.
  Variable V : Type.
  Variable zeroV : V.

  Notation ring := (ring V).
  Notation insert := (insert hash V).
  Notation remove := (remove V).
  Notation lookup := (lookup hash V zeroV).
  Notation step := (step hash V zeroV).
  Notation run := (run hash V zeroV).
  Notation vnodes := (vnodes hash).
  Notation pick_key := (pick_key hash).
  Notation mget := (mget V).
  Notation mset := (mset V).
  Notation mhas := (mhas V).

  Definition keys (m : list (key * V)) : list key := map fst m.

  (* ---------- association lists ---------- *)
  Lemma mget_keys : forall m k, mget m k <> None <-> In k (keys m).
  Proof.
    induction m as [|[k' v] m IH]; simpl; intro k.
    - split; auto.
    - destruct (key_eqb k k') eqn:E.
      + apply key_eqb_eq in E. subst. split; auto. discriminate.
      + apply key_eqb_neq in E. rewrite IH. split; auto. intros [H|H]; auto. congruence.
  Qed.

  Lemma mget_none : forall m k, mget m k = None <-> ~ In k (keys m).
  Proof.
    intros. rewrite <- mget_keys. destruct (mget m k); intuition congruence.
  Qed.

  Lemma mget_mset : forall m k v k', mget (mset m k v) k' = if key_eqb k' k then Some v else mget m k'.
  Proof.
    induction m as [|[k0 v0] m IH]; simpl; intros k v k'; auto.
    destruct (key_eqb k k0) eqn:E; simpl.
    - apply key_eqb_eq in E. subst. destruct (key_eqb k' k0); auto.
    - rewrite IH. destruct (key_eqb k' k0) eqn:E2; auto.
      apply key_eqb_eq in E2. subst. rewrite key_eqb_sym, E. auto.
  Qed.

  Lemma keys_mset_has : forall m k v, In k (keys m) -> keys (mset m k v) = keys m.
  Proof.
    induction m as [|[k0 v0] m IH]; simpl; intros k v H; [contradiction|].
    destruct (key_eqb k k0) eqn:E; simpl; auto.
    f_equal. apply IH. destruct H as [H|H]; auto. subst. rewrite key_eqb_refl in E. discriminate.
  Qed.

  Lemma keys_mset_new : forall m k v, ~ In k (keys m) -> keys (mset m k v) = keys m ++ [k].
  Proof.
    induction m as [|[k0 v0] m IH]; simpl; intros k v H; auto.
    destruct (key_eqb k k0) eqn:E; simpl.
    - apply key_eqb_eq in E. subst. tauto.
    - f_equal. apply IH. tauto.
  Qed.

  Lemma mget_filter : forall (f : key -> bool) m k,
    mget (filter (fun kv => f (fst kv)) m) k = if f k then mget m k else None.
  Proof.
    induction m as [|[k0 v0] m IH]; simpl; intro k.
    - destruct (f k); auto.
    - destruct (f k0) eqn:F; simpl; rewrite IH.
      + destruct (key_eqb k k0) eqn:E; auto. apply key_eqb_eq in E. subst. rewrite F. auto.
      + destruct (key_eqb k k0) eqn:E; auto. apply key_eqb_eq in E. subst. rewrite F. auto.
  Qed.

  Lemma keys_filter : forall (f : key -> bool) m,
    keys (filter (fun kv => f (fst kv)) m) = filter f (keys m).
  Proof.
    induction m as [|[k0 v0] m IH]; simpl; auto.
    destruct (f k0); simpl; rewrite IH; auto.
  Qed.

  (* ---------- virtual nodes ---------- *)
  Lemma vnodes_key : forall R k e, In e (vnodes R k) -> e_key e = k.
  Proof. unfold Model.vnodes. intros R k e H. apply in_map_iff in H. destruct H as [i [<- _]]. auto. Qed.

  Lemma filter_vnodes : forall (f : key -> bool) R k,
    filter (fun e => f (e_key e)) (vnodes R k) = if f k then vnodes R k else [].
  Proof.
    intros. unfold Model.vnodes. induction (seq 0 R) as [|i l IH]; simpl.
    - destruct (f k); auto.
    - rewrite IH. destruct (f k); auto.
  Qed.

  Lemma filter_flat_vnodes : forall (f : key -> bool) R ks,
    filter (fun e => f (e_key e)) (flat_map (vnodes R) ks) = flat_map (vnodes R) (filter f ks).
  Proof.
    induction ks as [|k ks IH]; simpl; auto.
    rewrite filter_app, IH, filter_vnodes. destruct (f k); auto.
  Qed.

  Lemma vnodes_nonempty : forall R k, (1 <= R)%nat -> vnodes R k <> [].
  Proof. intros R k H. unfold Model.vnodes. destruct R; [lia|]. simpl. discriminate. Qed.

  Definition canon (R : nat) (ks : list key) : list entry := isort (flat_map (vnodes R) ks).

  Lemma canon_perm : forall R ks ks', Permutation ks ks' -> canon R ks = canon R ks'.
  Proof.
    intros. unfold canon. apply sorted_perm_unique; try apply isort_sorted.
    rewrite !isort_perm. apply Permutation_flat_map. auto.
  Qed.

  Lemma canon_In : forall R ks e, In e (canon R ks) -> In (e_key e) ks.
  Proof.
    intros R ks e H. unfold canon in H. apply (Permutation_in _ (isort_perm _)) in H.
    apply in_flat_map in H. destruct H as [k [Hk He]]. apply vnodes_key in He. subst. auto.
  Qed.

  Lemma canon_nonempty : forall R ks, (1 <= R)%nat -> ks <> [] -> canon R ks <> [].
  Proof.
    intros R ks HR Hks E. destruct ks as [|k ks]; [congruence|].
    assert (Permutation (flat_map (vnodes R) (k :: ks)) []) as P by (rewrite <- E; symmetry; apply isort_perm).
    apply Permutation_sym, Permutation_nil in P. simpl in P. apply app_eq_nil in P. destruct P as [P _].
    eapply vnodes_nonempty; eauto.
  Qed.

  (* ---------- the probe loop never indexes out of range on a non-empty table ---------- *)
  Lemma probe_fold_ok : forall es k is bd bi,
    (bi < length es)%nat ->
    exists bd' bi', fold_left (probe_step hash es k) is (Some (bd, bi)) = Some (bd', bi') /\ (bi' < length es)%nat.
  Proof.
    induction is as [|i is IH]; intros bd bi Hbi; simpl.
    - eauto.
    - pose proof (search_le es (salted hash k i)) as Hs.
      remember (if Nat.eqb (search es (salted hash k i)) (length es) then 0%nat else search es (salted hash k i)) as idx.
      assert (idx < length es)%nat as Hidx.
      { subst idx. destruct (Nat.eqb (search es (salted hash k i)) (length es)) eqn:E; [lia|].
        apply Nat.eqb_neq in E. lia. }
      destruct (nth_error es idx) as [e|] eqn:Hn; [|apply nth_error_None in Hn; lia].
      destruct (N.ltb ((e_hash e + two64 - salted hash k i) mod two64) bd); apply IH; auto.
  Qed.

  Lemma pick_key_ok : forall P es k, es <> [] -> exists e, In e es /\ pick_key P es k = Some (e_key e).
  Proof.
    intros P es k Hne. unfold Model.pick_key.
    assert (0 < length es)%nat as H0 by (destruct es; [congruence|simpl; lia]).
    destruct (probe_fold_ok es k (seq 0 P) (two64 - 1)%N 0%nat H0) as [bd' [bi' [-> Hb]]].
    destruct (nth_error es bi') as [e|] eqn:Hn; [|apply nth_error_None in Hn; lia].
    exists e. split; auto. eapply nth_error_In; eauto.
  Qed.

  (* ---------- abstraction and invariant ---------- *)
  Definition live (r : ring) (k : key) : option V :=
    if smem k (r_deleted V r) then None else mget (r_members V r) k.
  Definition lkeys (r : ring) : list key :=
    filter (fun k => negb (smem k (r_deleted V r))) (keys (r_members V r)).

  Record Inv (r : ring) : Prop := {
    i_nd : NoDup (keys (r_members V r));
    i_ndd : NoDup (r_deleted V r);
    i_incl : incl (r_deleted V r) (keys (r_members V r));
    i_perm : Permutation (r_entries V r) (flat_map (vnodes (r_replicas V r)) (keys (r_members V r)));
    i_sorted : r_sorted V r = true -> StronglySorted entry_le (r_entries V r);
    i_R : (1 <= r_replicas V r)%nat }.

  Lemma lkeys_In : forall r k, In k (lkeys r) <-> live r k <> None.
  Proof.
    intros. unfold lkeys, live. rewrite filter_In, negb_true_iff, <- mget_keys.
    destruct (smem k (r_deleted V r)); split; try tauto; try congruence. intros [_ H]; congruence.
  Qed.

  Lemma lkeys_NoDup : forall r, Inv r -> NoDup (lkeys r).
  Proof. intros r I. apply NoDup_filter'. apply I. Qed.

  Lemma inv_new : forall R P, (1 <= R)%nat -> Inv (new V R P).
  Proof.
    intros. constructor; simpl; auto.
    - constructor.
    - constructor.
    - intros ? [].
    - discriminate.
  Qed.

  Lemma inv_insert : forall r k v, Inv r -> Inv (insert r k v).
  Proof.
    intros r k v I. destruct I as [nd ndd inc perm srt HR]. unfold Model.insert.
    destruct (smem k (r_deleted V r)) eqn:D.
    - apply smem_In in D. assert (In k (keys (r_members V r))) as Hk by auto.
      constructor; simpl; rewrite ?keys_mset_has; auto.
      + apply NoDup_filter'. auto.
      + intros x Hx. apply sdel_In in Hx. apply inc. tauto.
    - unfold Model.mhas. destruct (mget (r_members V r) k) eqn:G.
      + assert (In k (keys (r_members V r))) as Hk by (apply mget_keys; congruence).
        constructor; simpl; rewrite ?keys_mset_has; auto.
      + assert (~ In k (keys (r_members V r))) as Hk by (apply mget_none; auto).
        constructor; simpl; rewrite ?keys_mset_new; auto.
        * eapply Permutation_NoDup; [apply Permutation_cons_append|]. constructor; auto.
        * apply incl_appl. auto.
        * rewrite flat_map_app. simpl. rewrite app_nil_r. apply Permutation_app; auto.
        * discriminate.
  Qed.

  Lemma inv_remove : forall r k, Inv r -> Inv (remove r k).
  Proof.
    intros r k I. unfold Model.remove, Model.mhas. destruct (mget (r_members V r) k) eqn:G; auto.
    destruct I as [nd ndd inc perm srt HR].
    constructor; simpl; auto.
    - apply sadd_NoDup. auto.
    - intros x Hx. apply sadd_In in Hx. destruct Hx as [->|Hx]; auto. apply mget_keys. congruence.
  Qed.

  Lemma inv_sweep : forall r, Inv r -> Inv (sweep V r).
  Proof.
    intros r I. destruct I as [nd ndd inc perm srt HR].
    constructor; simpl; auto.
    - rewrite (keys_filter (fun k => negb (smem k (r_deleted V r)))). apply NoDup_filter'. auto.
    - constructor.
    - intros ? [].
    - rewrite (keys_filter (fun k => negb (smem k (r_deleted V r)))).
      rewrite <- filter_flat_vnodes. apply Permutation_filter'. auto.
    - intro S. apply sorted_filter. auto.
  Qed.

  Lemma inv_sort : forall r, Inv r -> Inv (sort_entries V r).
  Proof.
    intros r I. destruct I as [nd ndd inc perm srt HR].
    constructor; simpl; auto.
    - rewrite msort_perm. auto.
    - intros _. apply msort_sorted.
  Qed.

  Lemma live_sweep : forall r k, live (sweep V r) k = live r k.
  Proof.
    intros. unfold live. simpl.
    rewrite (mget_filter (fun k => negb (smem k (r_deleted V r)))).
    destruct (smem k (r_deleted V r)); auto.
  Qed.

  Lemma prepare_spec : forall r, Inv r ->
    Inv (prepare V r) /\ r_deleted V (prepare V r) = [] /\ StronglySorted entry_le (r_entries V (prepare V r))
    /\ (forall k, live (prepare V r) k = live r k)
    /\ r_replicas V (prepare V r) = r_replicas V r /\ r_probes V (prepare V r) = r_probes V r.
  Proof.
    intros r I. unfold Model.prepare.
    set (r1 := match r_deleted V r with [] => r | _ :: _ => sweep V r end).
    assert (Inv r1 /\ r_deleted V r1 = [] /\ (forall k, live r1 k = live r k)
            /\ r_replicas V r1 = r_replicas V r /\ r_probes V r1 = r_probes V r) as [I1 [D1 [L1 [R1 P1]]]].
    { subst r1. destruct (r_deleted V r) eqn:D.
      - repeat match goal with |- _ /\ _ => split end; auto.
      - repeat match goal with |- _ /\ _ => split end; auto using inv_sweep, live_sweep. }
    clearbody r1. destruct (r_sorted V r1) eqn:S.
    - repeat match goal with |- _ /\ _ => split end; auto. apply I1. auto.
    - repeat match goal with |- _ /\ _ => split end; auto using inv_sort. simpl. apply msort_sorted.
  Qed.

  (* Len() = 0 exactly when there is no live member *)
  Lemma len_zero : forall r, Inv r -> (len V r = 0%Z <-> forall k, live r k = None).
  Proof.
    intros r I. destruct I as [nd ndd inc perm srt HR]. unfold Model.len, live.
    assert (length (r_members V r) = length (keys (r_members V r))) as EL by (unfold keys; rewrite map_length; auto).
    pose proof (NoDup_incl_length ndd inc) as L1.
    split.
    - intros HZ k.
      assert (incl (keys (r_members V r)) (r_deleted V r)) as inc2 by (apply NoDup_length_incl; auto; lia).
      destruct (smem k (r_deleted V r)) eqn:D; auto.
      apply mget_none. intro Hk. apply inc2 in Hk. apply smem_In in Hk. congruence.
    - intros HL.
      assert (incl (keys (r_members V r)) (r_deleted V r)) as inc2.
      { intros k Hk. specialize (HL k). destruct (smem k (r_deleted V r)) eqn:D.
        - apply smem_In; auto.
        - apply mget_keys in Hk. contradiction. }
      pose proof (NoDup_incl_length nd inc2). lia.
  Qed.

  Lemma entries_canon : forall r ks, Inv r -> r_deleted V r = [] -> StronglySorted entry_le (r_entries V r) ->
    NoDup ks -> (forall k, In k ks <-> live r k <> None) ->
    r_entries V r = canon (r_replicas V r) ks.
  Proof.
    intros r ks I D S ND HIn. unfold canon.
    apply sorted_perm_unique; auto using isort_sorted.
    rewrite isort_perm. rewrite (i_perm _ I). apply Permutation_flat_map.
    apply NoDup_Permutation; auto. apply I.
    intro k. rewrite HIn. unfold live. rewrite D. simpl. symmetry. apply mget_keys.
  Qed.

  (* Lookup as a function of (replicas, probes, member map): nothing else of the ring's state matters *)
  Definition ideal_lookup (R P : nat) (f : key -> option V) (ks : list key) (k : key) : lres V :=
    match ks with
    | [] => LNone
    | _ :: _ =>
        match pick_key P (canon R ks) k with
        | None => LPanic
        | Some ok => LSome (match f ok with Some v => v | None => zeroV end)
        end
    end.

  Lemma lookup_ideal : forall r ks k, Inv r -> NoDup ks -> (forall k, In k ks <-> live r k <> None) ->
    snd (lookup r k) = ideal_lookup (r_replicas V r) (r_probes V r) (live r) ks k.
  Proof.
    intros r ks k I ND HIn. unfold Model.lookup.
    destruct (Z.eqb (len V r) 0) eqn:Z0.
    - apply Z.eqb_eq in Z0. rewrite (len_zero r I) in Z0.
      destruct ks as [|k0 ks]; simpl; auto.
      exfalso. apply (HIn k0); simpl; auto.
    - apply Z.eqb_neq in Z0.
      assert (ks <> []) as Hne.
      { intro E. subst. apply Z0. apply len_zero; auto. intro k'.
        destruct (live r k') eqn:L; auto. exfalso. apply (HIn k'). congruence. }
      destruct (prepare_spec r I) as [I2 [D2 [S2 [L2 [R2 P2]]]]].
      simpl.
      assert (r_entries V (prepare V r) = canon (r_replicas V r) ks) as ->.
      { rewrite <- R2. apply entries_canon; auto. intro k'. rewrite L2. auto. }
      rewrite P2. unfold ideal_lookup. destruct ks as [|k0 ks]; [congruence|].
      destruct (pick_key (r_probes V r) (canon (r_replicas V r) (k0 :: ks)) k) as [ok|]; auto.
      f_equal. specialize (L2 ok). unfold live in L2 at 1. rewrite D2 in L2. simpl in L2. rewrite L2. auto.
  Qed.

  Lemma ideal_lookup_ext : forall R P f g ks k, (forall x, f x = g x) ->
    ideal_lookup R P f ks k = ideal_lookup R P g ks k.
  Proof.
    intros. unfold ideal_lookup. destruct ks; auto. destruct (pick_key _ _ _); auto. rewrite H. auto.
  Qed.

  (* history independence, state form: two reachable rings with the same live members answer alike *)
  Lemma lookup_live_ext : forall ra rb k, Inv ra -> Inv rb ->
    r_replicas V ra = r_replicas V rb -> r_probes V ra = r_probes V rb ->
    (forall x, live ra x = live rb x) ->
    snd (lookup ra k) = snd (lookup rb k).
  Proof.
    intros ra rb k Ia Ib HR HP HL.
    rewrite (lookup_ideal ra (lkeys ra) k Ia (lkeys_NoDup ra Ia) (lkeys_In ra)).
    rewrite (lookup_ideal rb (lkeys ra) k Ib (lkeys_NoDup ra Ia)).
    - rewrite HR, HP. apply ideal_lookup_ext. auto.
    - intro x. rewrite <- HL. apply lkeys_In.
  Qed.

  (* the owner is a live member and the answer is its stored value; none iff no live member; no panic *)
  Lemma lookup_owner : forall r k, Inv r ->
    (snd (lookup r k) = LNone /\ forall x, live r x = None)
    \/ (exists ok v, live r ok = Some v /\ snd (lookup r k) = LSome v).
  Proof.
    intros r k I.
    rewrite (lookup_ideal r (lkeys r) k I (lkeys_NoDup r I) (lkeys_In r)).
    unfold ideal_lookup. destruct (lkeys r) as [|k0 ks] eqn:E.
    - left. split; auto. intro x. destruct (live r x) eqn:L; auto.
      exfalso. assert (In x (lkeys r)) as H by (apply lkeys_In; congruence). rewrite E in H. contradiction.
    - right. rewrite <- E.
      assert (canon (r_replicas V r) (lkeys r) <> []) as Hne.
      { apply canon_nonempty. apply I. rewrite E. discriminate. }
      destruct (pick_key_ok (r_probes V r) _ k Hne) as [e [He ->]].
      apply canon_In in He. apply lkeys_In in He.
      destruct (live r (e_key e)) as [v|] eqn:L; [|congruence].
      exists (e_key e), v. auto.
  Qed.



  (* which member wins: the key of the entry the probe loop selects on the canonical table *)
  Definition owner_key (r : ring) (k : key) : option key :=
    match lkeys r with
    | [] => None
    | _ :: _ => pick_key (r_probes V r) (canon (r_replicas V r) (lkeys r)) k
    end.

  Lemma lookup_by_owner : forall r k, Inv r ->
    match owner_key r k with
    | None => snd (lookup r k) = LNone /\ forall x, live r x = None
    | Some ok => exists v, live r ok = Some v /\ snd (lookup r k) = LSome v
    end.
  Proof.
    intros r k I. unfold owner_key.
    rewrite (lookup_ideal r (lkeys r) k I (lkeys_NoDup r I) (lkeys_In r)).
    unfold ideal_lookup. destruct (lkeys r) as [|k0 ks] eqn:E.
    - split; auto. intro x. destruct (live r x) eqn:L; auto.
      exfalso. assert (In x (lkeys r)) as H by (apply lkeys_In; congruence). rewrite E in H. contradiction.
    - rewrite <- E.
      assert (canon (r_replicas V r) (lkeys r) <> []) as Hne.
      { apply canon_nonempty. apply I. rewrite E. discriminate. }
      destruct (pick_key_ok (r_probes V r) _ k Hne) as [e [He ->]].
      apply canon_In in He. apply lkeys_In in He.
      destruct (live r (e_key e)) as [v|] eqn:L; [|congruence].
      exists v. auto.
  Qed.

  (* Len() counts the live members *)
  Lemma filter_partition_length : forall (A : Type) (f : A -> bool) l,
    (length (filter f l) + length (filter (fun x => negb (f x)) l) = length l)%nat.
  Proof. induction l as [|x l IH]; simpl; auto. destruct (f x); simpl; lia. Qed.

  Lemma len_lkeys : forall r, Inv r -> len V r = Z.of_nat (length (lkeys r)).
  Proof.
    intros r I. destruct I as [nd ndd inc perm srt HR]. unfold Model.len, lkeys.
    pose proof (filter_partition_length _ (fun k => negb (smem k (r_deleted V r))) (keys (r_members V r))) as HP.
    assert (length (filter (fun x => negb (negb (smem x (r_deleted V r)))) (keys (r_members V r)))
            = length (r_deleted V r)) as HD.
    { apply Permutation_length. apply NoDup_Permutation; auto using NoDup_filter'.
      intro x. rewrite filter_In, negb_involutive, smem_In. split; [tauto|]. intro H. split; auto. }
    assert (length (r_members V r) = length (keys (r_members V r))) as EL by (unfold keys; rewrite map_length; auto).
    lia.
  Qed.

  (* ---------- steps and histories ---------- *)
  Definition fstep (f : key -> option V) (o : op V) (k : key) : option V :=
    match o with
    | OInsert k0 v => if key_eqb k k0 then Some v else f k
    | ORemove k0 => if key_eqb k k0 then None else f k
    | _ => f k
    end.

  Lemma lookup_fst : forall r k, fst (lookup r k) = r \/ fst (lookup r k) = prepare V r.
  Proof. intros. unfold Model.lookup. destruct (Z.eqb (len V r) 0); simpl; auto. Qed.

  Lemma inv_step : forall r o, Inv r -> Inv (fst (step r o)).
  Proof.
    intros r o I. destruct o; simpl; auto using inv_insert, inv_remove.
    destruct (lookup r k) as [r' res] eqn:E. simpl.
    destruct (lookup_fst r k) as [H|H]; rewrite E in H; simpl in H; subst; auto.
    apply prepare_spec. auto.
  Qed.

  Lemma step_params : forall r o, r_replicas V (fst (step r o)) = r_replicas V r /\ r_probes V (fst (step r o)) = r_probes V r.
  Proof.
    intros r o. destruct o; simpl; auto.
    - unfold Model.insert. destruct (smem k (r_deleted V r)); simpl; auto. destruct (mhas (r_members V r) k); simpl; auto.
    - unfold Model.remove. destruct (mhas (r_members V r) k); simpl; auto.
    - destruct (lookup r k) as [r' res] eqn:E. simpl.
      unfold Model.lookup in E. destruct (Z.eqb (len V r) 0); inversion E; subst; auto.
      unfold Model.prepare. destruct (r_deleted V r); simpl; destruct (r_sorted V r); simpl; auto.
  Qed.

  Lemma live_step : forall r o k, Inv r -> live (fst (step r o)) k = fstep (live r) o k.
  Proof.
    intros r o k I. destruct o as [k0 v|k0|q|]; simpl; auto.
    - unfold Model.insert, live. destruct (smem k0 (r_deleted V r)) eqn:D; simpl.
      + rewrite smem_sdel, mget_mset. destruct (key_eqb k k0) eqn:E; simpl; auto.
      + unfold Model.mhas. destruct (mget (r_members V r) k0) eqn:G; simpl; rewrite mget_mset;
          destruct (key_eqb k k0) eqn:E; auto; apply key_eqb_eq in E; subst; rewrite D; auto.
    - unfold Model.remove, live, Model.mhas. destruct (mget (r_members V r) k0) eqn:G; simpl.
      + rewrite smem_sadd. destruct (key_eqb k k0); simpl; auto.
      + destruct (key_eqb k k0) eqn:E; auto. apply key_eqb_eq in E. subst. rewrite G.
        destruct (smem k0 (r_deleted V r)); auto.
    - destruct (lookup r q) as [r' res] eqn:E. simpl.
      destruct (lookup_fst r q) as [H|H]; rewrite E in H; simpl in H; subst; auto.
      apply prepare_spec. auto.
  Qed.

  Lemma run_cons : forall r o ops, fst (run r (o :: ops)) = fst (run (fst (step r o)) ops).
  Proof.
    intros. simpl. destruct (step r o) as [r1 u]. simpl. destruct (run r1 ops). auto.
  Qed.

  Lemma inv_run : forall ops r, Inv r -> Inv (fst (run r ops)).
  Proof.
    induction ops as [|o ops IH]; intros r I; auto.
    rewrite run_cons. apply IH. apply inv_step. auto.
  Qed.

  Lemma run_params : forall ops r, r_replicas V (fst (run r ops)) = r_replicas V r /\ r_probes V (fst (run r ops)) = r_probes V r.
  Proof.
    induction ops as [|o ops IH]; intros r; auto.
    rewrite run_cons. destruct (IH (fst (step r o))) as [A B]. destruct (step_params r o) as [C D]. split; congruence.
  Qed.

  Lemma live_run : forall ops r f, Inv r -> (forall k, live r k = f k) ->
    forall k, live (fst (run r ops)) k = fold_left (fun g o => fstep g o) ops f k.
  Proof.
    induction ops as [|o ops IH]; intros r f I HL k; simpl fold_left; auto.
    rewrite run_cons. apply IH. apply inv_step; auto.
    intro x. rewrite live_step; auto. unfold fstep. destruct o; rewrite ?HL; auto.
  Qed.

  Lemma live_new : forall R P k, live (new V R P) k = None.
  Proof. intros. reflexivity. Qed.

  Lemma fresh_run : forall R P ms,
    fresh hash V R P ms = fst (run (new V R P) (map (fun kv => OInsert (fst kv) (snd kv)) ms)).
  Proof.
    intros. unfold fresh. generalize (new V R P).
    induction ms as [|[k v] ms IH]; intro r; auto.
    simpl fold_left. rewrite IH. simpl map. rewrite run_cons. auto.
  Qed.
End P.
