(* C34 - AuthorizeTierOperation: source-independent part of the model.
   The shape of the method - which closure is started by which `go` statement, which variables of the enclosing
   function each closure writes and reads, which of them receive the results of a.Authorize, the decision
   expression evaluated after wg.Wait() - is TRANSLATED from authorizer.go on every run (Gen.v, value G : gen).
   Here: the closures' writes as steps, interleavings of the closures, the final store, the returned verdict. *)
From Coq Require Import List String Bool.
Import ListNotations.
Open Scope string_scope.

(* k8s.io/apiserver/pkg/authorization/authorizer: DecisionDeny = 0 (zero value), DecisionAllow, DecisionNoOpinion *)
Inductive decision := Deny | Allow | NoOpinion.
Definition dec_eqb (a b : decision) : bool :=
  match a, b with Deny, Deny | Allow, Allow | NoOpinion, NoOpinion => true | _, _ => false end.

(* the three questions put to the underlying authorizer *)
Inductive query := QGetTier | QPolicy | QWildcard.
Definition query_eqb (a b : query) : bool :=
  match a, b with QGetTier, QGetTier | QPolicy, QPolicy | QWildcard, QWildcard => true | _, _ => false end.

Record closure := {
  cl_id : nat;                       (* 1, 2, 3: order of the `go` statements *)
  cl_line : nat;
  cl_query : query;                  (* which question its attrs literal asks *)
  cl_done : bool;                    (* starts with `defer wg.Done()` *)
  cl_writes : list string;           (* variables of the enclosing function it assigns *)
  cl_reads : list string;            (* ... it reads *)
  cl_assigns : list (string * nat)   (* outer variable <- result #i of a.Authorize (0 decision, 1 reason, 2 err) *)
}.

(* statements of the parent goroutine that run while the first sg_after closures are already running *)
Record segment := { sg_after : nat; sg_writes : list string; sg_reads : list string }.

(* boolean expression over decision variables: the condition of `if ... { return nil }` after wg.Wait() *)
Inductive bexpr :=
| BAnd (a b : bexpr) | BOr (a b : bexpr) | BNot (a : bexpr)
| BIs (x : string) (d : decision).        (* x == k8sauth.Decision<d> *)

Fixpoint eval (e : bexpr) (s : string -> decision) : bool :=
  match e with
  | BAnd a b => andb (eval a s) (eval b s)
  | BOr a b => orb (eval a s) (eval b s)
  | BNot a => negb (eval a s)
  | BIs x d => dec_eqb (s x) d
  end.

Fixpoint vars (e : bexpr) : list string :=
  match e with
  | BAnd a b | BOr a b => vars a ++ vars b
  | BNot a => vars a
  | BIs x _ => [x]
  end.

Record gen := {
  g_closures : list closure;
  g_segments : list segment;
  g_sync : list string;              (* variables that are synchronisation primitives (wg) *)
  g_wg_add : nat;
  g_allowed : bexpr;                 (* the condition of `if ... { return nil }` after wg.Wait() *)
  g_post_reads : list string
}.

(* ---- what the underlying authorizer answers to a question: any decision, with or without an error *)
Record answer := { a_dec : decision; a_err : bool }.

Inductive value := VDec (d : decision) | VErr (e : option query) | VReason (q : query).
Inductive step := Write (g : nat) (x : string) (v : value).

Definition store := string -> value.
(* before the goroutines start: decisions hold their zero value, err is nil (the method returned otherwise) *)
Definition init : store := fun x => if String.eqb x "err" then VErr None else VDec Deny.

Definition exec (s : store) (st : step) : store :=
  match st with Write _ x v => fun y => if String.eqb y x then v else s y end.
Definition run (tr : list step) (s : store) : store := fold_left exec tr s.

(* the writes of one closure to variables of the enclosing function, in program order *)
Definition program (ans : query -> answer) (c : closure) : list step :=
  map (fun xi : string * nat =>
         let a := ans (cl_query c) in
         Write (cl_id c) (fst xi)
           match snd xi with
           | 0 => VDec (a_dec a)
           | 1 => VReason (cl_query c)
           | _ => VErr (if a_err a then Some (cl_query c) else None)
           end) (cl_assigns c).

Definition programs (g : gen) (ans : query -> answer) : list (list step) := map (program ans) (g_closures g).

(* every way the goroutines' steps can be ordered (each goroutine's own order is kept) *)
Inductive Interleave {A : Type} : list (list A) -> list A -> Prop :=
| il_done : forall ps, Forall (fun p => p = []) ps -> Interleave ps []
| il_step : forall ps1 a p ps2 tr,
    Interleave (ps1 ++ p :: ps2) tr -> Interleave (ps1 ++ (a :: p) :: ps2) (a :: tr).

Definition as_decision (v : value) : decision := match v with VDec d => d | _ => Deny end.

(* what AuthorizeTierOperation returns after wg.Wait(): true = nil (allowed), false = Forbidden *)
Definition verdict (g : gen) (final : store) : bool := eval (g_allowed g) (fun x => as_decision (final x)).

(* one particular schedule: closure 1, then 2, then 3 *)
Definition sequential (g : gen) (ans : query -> answer) : list step := List.concat (programs g ans).

(* ---- data races: two concurrent parties touch the same non-synchronisation variable, at least one writing *)
Definition mem (s : string) (l : list string) : bool := existsb (String.eqb s) l.
Definition inter (a b : list string) : list string := filter (fun x => mem x b) a.
Definition minus (a b : list string) : list string := filter (fun x => negb (mem x b)) a.

Definition conflict_vars (sync w1 r1 w2 r2 : list string) : list string :=
  minus (inter w1 (w2 ++ r2) ++ inter w2 r1) sync.

(* (variable, first party, second party): parties are closure ids; the parent's segment after k closures is 100 + k *)
Definition closure_conflicts (g : gen) : list (string * nat * nat) :=
  flat_map (fun c1 => flat_map (fun c2 =>
     if Nat.ltb (cl_id c1) (cl_id c2)
     then map (fun x => (x, cl_id c1, cl_id c2)) (conflict_vars (g_sync g) (cl_writes c1) (cl_reads c1) (cl_writes c2) (cl_reads c2))
     else []) (g_closures g)) (g_closures g).

Definition segment_conflicts (g : gen) : list (string * nat * nat) :=
  flat_map (fun sg => flat_map (fun c =>
     if Nat.leb (cl_id c) (sg_after sg)
     then map (fun x => (x, cl_id c, 100 + sg_after sg)) (conflict_vars (g_sync g) (cl_writes c) (cl_reads c) (sg_writes sg) (sg_reads sg))
     else []) (g_closures g)) (g_segments g).

Definition conflicts (g : gen) : list (string * nat * nat) := closure_conflicts g ++ segment_conflicts g.
