(* C34 - the property: a request on a tiered policy is allowed exactly when the user may GET the tier and may
   perform the operation either on the policy's name or on the tier's wildcard - whatever the authorizer answers
   (any decision, with or without error) and however the three concurrent checks interleave. *)
From Coq Require Import List String Bool.
From Verif.C34 Require Import Model.
Import ListNotations.
Open Scope string_scope.

Definition spec_allowed (get pol wild : decision) : bool :=
  andb (dec_eqb get Allow) (orb (dec_eqb pol Allow) (dec_eqb wild Allow)).

Definition spec_allowed_ans (ans : query -> answer) : bool :=
  spec_allowed (a_dec (ans QGetTier)) (a_dec (ans QPolicy)) (a_dec (ans QWildcard)).

(* ------------------------------------------------------------------ correspondence cases *)
Record case := {
  c_get : answer; c_pol : answer; c_wild : answer;     (* scripted answers *)
  c_shape : nat;                                       (* request shape (resource kind, verb, named or not), for the record *)
  o_allowed : bool;                                    (* AuthorizeTierOperation returned nil *)
  o_forbidden : bool;                                  (* ... or a Forbidden status error *)
  o_asked : nat * nat * nat;                           (* how often each of the three expected questions was asked *)
  o_unexpected : nat                                   (* questions that are none of: get tier / verb on tier.<res> <name> / verb on tier.<res> <tier>.* *)
}.

Definition ans_of (c : case) : query -> answer :=
  fun q => match q with QGetTier => c_get c | QPolicy => c_pol c | QWildcard => c_wild c end.

Definition model_agrees (g : gen) (c : case) : bool :=
  Bool.eqb (verdict g (run (sequential g (ans_of c)) init)) (o_allowed c).

Definition ok_case (c : case) : bool :=
  andb (andb (Bool.eqb (o_allowed c) (spec_allowed_ans (ans_of c)))
             (Bool.eqb (o_forbidden c) (negb (o_allowed c))))
       (andb (match o_asked c with (1, 1, 1) => true | _ => false end)
             (Nat.eqb (o_unexpected c) 0)).

Definition check_case (g : gen) (c : case) : bool * bool := (model_agrees g c, ok_case c).
