(* C34 - source-independent lemmas: the final value of a variable written by at most one step of all the
   goroutines together does not depend on the interleaving. *)
From Coq Require Import List String Bool Permutation Lia.
From Verif.C34 Require Import Model Spec.
Import ListNotations.
Open Scope string_scope.

Lemma concat_all_nil {A} (ps : list (list A)) : Forall (fun p => p = []) ps -> List.concat ps = [].
Proof. induction 1; simpl; [reflexivity | subst; simpl; assumption]. Qed.

Lemma interleave_perm {A} (ps : list (list A)) tr : Interleave ps tr -> Permutation tr (List.concat ps).
Proof.
  induction 1 as [ps H | ps1 a p ps2 tr H IH].
  - rewrite concat_all_nil by assumption; constructor.
  - rewrite concat_app in *; simpl in *.
    apply Permutation_cons_app; assumption.
Qed.

Lemma perm_filter {A} (f : A -> bool) l l' : Permutation l l' -> Permutation (filter f l) (filter f l').
Proof.
  induction 1; simpl.
  - constructor.
  - destruct (f x); [constructor|]; assumption.
  - destruct (f x), (f y); try (apply Permutation_refl); constructor.
  - eapply Permutation_trans; eassumption.
Qed.

Definition writes_to (x : string) (st : step) : bool := match st with Write _ y _ => String.eqb x y end.

Definition last_write (x : string) (tr : list step) (d : value) : value :=
  fold_left (fun acc st => match st with Write _ y v => if String.eqb x y then v else acc end) tr d.

Lemma run_lookup tr : forall s x, run tr s x = last_write x tr (s x).
Proof.
  induction tr as [|[g y v] tr IH]; intros s x; [reflexivity|].
  unfold run, last_write in *; simpl. rewrite IH; simpl. reflexivity.
Qed.

Lemma last_write_filter x tr : forall d, last_write x tr d = last_write x (filter (writes_to x) tr) d.
Proof.
  induction tr as [|[g y v] tr IH]; intros d; [reflexivity|].
  unfold last_write in *; simpl. destruct (String.eqb x y) eqn:E; simpl; [rewrite E|]; apply IH.
Qed.

Lemma short_perm_eq {A} (l l' : list A) : Permutation l l' -> List.length l <= 1 -> l = l'.
Proof.
  intros H Hl. destruct l as [|a [|b l]]; simpl in Hl; try lia.
  - apply Permutation_nil in H; subst; reflexivity.
  - apply Permutation_length_1_inv in H; subst; reflexivity.
Qed.

(* a variable written at most once by all goroutines together ends with the same value under every interleaving *)
Lemma single_writer_final ps tr s x :
  Interleave ps tr -> List.length (filter (writes_to x) (List.concat ps)) <= 1 ->
  run tr s x = run (List.concat ps) s x.
Proof.
  intros Hil Hlen. rewrite !run_lookup, (last_write_filter x tr), (last_write_filter x (List.concat ps)).
  assert (E : filter (writes_to x) (List.concat ps) = filter (writes_to x) tr).
  { apply short_perm_eq; [|assumption]. apply perm_filter, Permutation_sym, interleave_perm; assumption. }
  rewrite E; reflexivity.
Qed.

Lemma eval_agree e : forall s s', (forall x, In x (vars e) -> s x = s' x) -> eval e s = eval e s'.
Proof.
  induction e as [a IHa b IHb | a IHa b IHb | a IHa | x d]; intros s s' H; simpl in *.
  - rewrite (IHa s s'), (IHb s s'); [reflexivity | |]; intros; apply H; apply in_or_app; auto.
  - rewrite (IHa s s'), (IHb s s'); [reflexivity | |]; intros; apply H; apply in_or_app; auto.
  - rewrite (IHa s s'); [reflexivity|]; assumption.
  - rewrite H by (left; reflexivity); reflexivity.
Qed.

(* the number of writes to x does not depend on the answers *)
Definition single_writer_b (g : gen) : bool :=
  forallb (fun x => Nat.leb (List.length (filter (fun xi => String.eqb x (fst xi)) (flat_map cl_assigns (g_closures g)))) 1) (vars (g_allowed g)).

Lemma writes_count g ans x :
  List.length (filter (writes_to x) (List.concat (programs g ans))) =
  List.length (filter (fun xi : string * nat => String.eqb x (fst xi)) (flat_map cl_assigns (g_closures g))).
Proof.
  unfold programs. induction (g_closures g) as [|c cs IH]; [reflexivity|].
  simpl. rewrite !filter_app, !app_length, IH. f_equal.
  unfold program. induction (cl_assigns c) as [|[y i] l IHl]; [reflexivity|].
  simpl. destruct (String.eqb x y); simpl; rewrite IHl; reflexivity.
Qed.

(* the verdict is the same under every interleaving, provided every variable the decision expression reads is
   assigned by at most one a.Authorize result *)
Lemma verdict_schedule_independent g ans tr :
  single_writer_b g = true -> Interleave (programs g ans) tr ->
  verdict g (run tr init) = verdict g (run (sequential g ans) init).
Proof.
  intros Hs Hil. unfold verdict. apply eval_agree. intros x Hx.
  unfold single_writer_b in Hs. rewrite forallb_forall in Hs. specialize (Hs x Hx). apply PeanoNat.Nat.leb_le in Hs.
  unfold sequential. rewrite (single_writer_final (programs g ans) tr init x Hil); [reflexivity|].
  rewrite writes_count; assumption.
Qed.

(* interleavings exist: the sequential one is one of them *)
Lemma interleave_nil_thread {A} (ps : list (list A)) tr : Interleave ps tr -> Interleave ([] :: ps) tr.
Proof.
  induction 1 as [ps H | ps1 a p ps2 tr H IH].
  - constructor. constructor; [reflexivity | assumption].
  - apply (il_step ([] :: ps1) a p ps2). exact IH.
Qed.

Lemma interleave_sequential {A} (ps : list (list A)) : Interleave ps (List.concat ps).
Proof.
  induction ps as [|p ps IH]; [constructor; constructor|].
  simpl. induction p as [|a p IHp].
  - simpl. apply interleave_nil_thread; assumption.
  - simpl. apply (il_step [] a p ps). assumption.
Qed.
