(* C21 — the cooldown over histories of transactions, with block deletion at the client level. *)
From Coq Require Import List NArith ZArith Bool Arith Lia.
From Verif.C21 Require Import Model Proofs ProofsRelease ProofsHist ProofsInv.
Import ListNotations.
Open Scope N_scope.

(* what a transaction writes, if it writes *)
Definition op_result (cd : Z) (t : N) (b : block) (op : top) : block :=
  let b1 := gc cd t b in
  match op with
  | TAuto h tag num rsv => fst (blk_auto_assign b1 num h tag rsv)
  | TAssign o h tag => fst (blk_assign b1 o h tag)
  | TRelease rs => fst (blk_release cd t b1 rs)
  | TRbh h => fst (blk_release_by_handle cd t b1 h None)
  | TGC => b1
  end.

Lemma txn_shape cd t b op : fst (txn cd t b op) = None \/ fst (txn cd t b op) = Some (persist (op_result cd t b op)).
Proof.
  unfold txn, op_result. destruct op as [h tag num rsv|o h tag|rs|h|].
  - destruct (Nat.leb 1 (num_free (gc cd t b) rsv)); auto.
    destruct (blk_auto_assign (gc cd t b) num h tag rsv) as [b2 ords]. destruct ords; auto.
  - destruct (blk_assign (gc cd t b) o h tag) as [b2 e]. destruct e; auto.
  - destruct (blk_release cd t (gc cd t b) rs) as [b2 r]. destruct r; auto.
    destruct (Nat.eqb (length rs) (length unalloc)); auto.
  - destruct (blk_release_by_handle cd t (gc cd t b) h None) as [b2 n]. destruct n; auto.
  - destruct (block_eqb (gc cd t b) b); auto.
Qed.

Lemma txn_block_shape cd t b op : txn_block cd t b op = b \/ txn_block cd t b op = persist (op_result cd t b op).
Proof. unfold txn_block. destruct (txn_shape cd t b op) as [E|E]; rewrite E; auto. Qed.

(* ------------------------------------------------------------------ shapes of release / releaseByHandle *)
Lemma live_alloc b o : is_live b o = true -> nth o (bk_allocs b) None <> None.
Proof. unfold is_live, state_of, owner_of. intros H E. rewrite E in H. discriminate. Qed.

Lemma release_shape cd t b p : valid b ->
  fst (blk_release_ord cd t b p) = b \/
  exists ords, fst (blk_release_ord cd t b p) = gc cd t (mark_released b t ords true) /\
               forall o, In o ords -> is_live b o = true.
Proof.
  intros V. pose proof (release_effect cd t b p V) as RE. unfold blk_release_ord in *.
  destruct (scan b p [] [] []) as [[[un ords] cnt]|c]; simpl; auto.
  destruct RE as (_ & _ & EO & _ & _).
  destruct ords as [|o0 ol] eqn:EOL; simpl; auto. rewrite <- EOL in *. right. exists ords. split; auto.
  intros o IN. rewrite EO in IN. apply in_map_iff in IN. destruct IN as (r & RO & IN).
  apply filter_In in IN. destruct IN as [_ REL]. unfold is_rel in REL.
  destruct (classify b r) eqn:C; try discriminate.
  destruct (classify_rel_inv b r h C) as (_ & _ & (tag & ST) & _). unfold is_live. rewrite <- RO, ST. auto.
Qed.

Lemma owned_alloc b o h : owned_by b o h -> nth o (bk_allocs b) None <> None.
Proof. intros (x & OW & _) E. unfold owner_of in OW. rewrite E in OW. discriminate. Qed.

Lemma rbh_shape cd t b h sq :
  fst (blk_release_by_handle cd t b h sq) = b \/ fst (blk_release_by_handle cd t b h sq) = gc cd t b \/
  fst (blk_release_by_handle cd t b h sq) = gc cd t (mark_released b t (rbh_ords b h sq) false).
Proof.
  unfold blk_release_by_handle. destruct (handle_idxs (bk_attrs b) h); simpl; auto.
  destruct (rbh_ords b h sq); simpl; auto.
Qed.

Lemma inv_op_result cd t b op : inv b -> inv (op_result cd t b op).
Proof.
  intros I. pose proof (inv_gc cd t b I) as I1. unfold op_result. destruct op as [h tag num rsv|o h tag|rs|h|]; auto.
  - apply inv_auto; auto.
  - apply inv_assign; auto.
  - unfold blk_release. destruct (release_shape cd t (gc cd t b) (dedup_last rs) (inv_valid _ I1)) as [E|(ords & E & L)]; rewrite E; auto.
    apply inv_gc, inv_mark; auto. intros o IN. apply live_alloc; auto.
  - destruct (rbh_shape cd t (gc cd t b) h None) as [E|[E|E]]; rewrite E; auto.
    + apply inv_gc; auto.
    + apply inv_gc, inv_mark; auto. intros o IN. apply rbh_ords_spec in IN. destruct IN as (_ & OW & _).
      eapply owned_alloc; eauto.
Qed.

Theorem inv_txn cd t b op : inv b -> inv (txn_block cd t b op).
Proof.
  intros I. destruct (txn_block_shape cd t b op) as [E|E]; rewrite E; auto.
  apply inv_persist, inv_op_result; auto.
Qed.

(* ------------------------------------------------------------------ an ordinal in cooldown stays in cooldown *)
Lemma cooling_owner b o r : state_of b o = Cooling r ->
  exists x, owner_of b o = Some x /\ at_rel x = Some r /\ In x (bk_attrs b).
Proof.
  unfold state_of. destruct (owner_of b o) as [x|] eqn:OW; [|discriminate].
  destruct (at_rel x) as [r'|] eqn:R; [|discriminate]. intros X; inversion X; subst.
  exists x. repeat split; auto. unfold owner_of in OW. destruct (nth o (bk_allocs b) None); [|discriminate].
  eapply nth_error_In; eauto.
Qed.

Lemma op_keeps_cooling cd t b op o r : inv b -> state_of b o = Cooling r -> cooled cd t r = false ->
  state_of (op_result cd t b op) o = Cooling r.
Proof.
  intros I ST NC. pose proof (inv_gc cd t b I) as I1.
  assert (ST1 : state_of (gc cd t b) o = Cooling r).
  { rewrite state_gc by (apply inv_valid; auto). rewrite ST. simpl. rewrite NC. auto. }
  unfold op_result. destruct op as [h tag num rsv|o' h tag|rs|h|]; auto.
  - apply state_auto; auto.
  - apply state_assign; auto.
  - unfold blk_release. pose proof (release_effect cd t (gc cd t b) (dedup_last rs) (inv_valid _ I1)) as RE.
    destruct (scan (gc cd t b) (dedup_last rs) [] [] []) as [[[un ords] cnt]|c].
    + destruct RE as (_ & _ & EO & _ & HS). rewrite HS. destruct ords as [|o0 ol] eqn:EOL; auto. rewrite <- EOL in *.
      destruct (memb o ords) eqn:M.
      * exfalso. apply memb_In in M. rewrite EO in M. apply in_map_iff in M. destruct M as (q & RO & IN).
        apply filter_In in IN. destruct IN as [_ REL]. unfold is_rel in REL.
        destruct (classify (gc cd t b) q) eqn:C; try discriminate.
        destruct (classify_rel_inv _ q h C) as (_ & _ & (tag & ST') & _). rewrite RO, ST1 in ST'. discriminate.
      * simpl. rewrite ST1. simpl. rewrite NC. auto.
    + destruct RE as [RE _]. rewrite RE. auto.
  - rewrite rbh_effect by (apply inv_valid; auto).
    destruct (memb o (rbh_ords (gc cd t b) h None)) eqn:M.
    + exfalso. apply memb_In, rbh_ords_spec in M. destruct M as (_ & (x & OW & H) & _).
      destruct (cooling_owner _ _ _ ST1) as (y & OW' & R & IN). rewrite OW in OW'. inversion OW'; subst y.
      rewrite (inv_cool _ I1 x IN) in H; [discriminate|]. rewrite R. discriminate.
    + destruct (handle_idxs (bk_attrs (gc cd t b)) h); auto. rewrite ST1. simpl. rewrite NC. auto.
Qed.

Lemma trunc_s_le r : trunc_s r <= r.
Proof. unfold trunc_s, second. pose proof (N.mul_div_le r 1000000000). lia. Qed.
Lemma trunc_s_idem r : trunc_s (trunc_s r) = trunc_s r.
Proof. unfold trunc_s, second. rewrite N.div_mul by lia. auto. Qed.
Lemma cooled_mono cd t r r' : r' <= r -> cooled cd t r = true -> cooled cd t r' = true.
Proof.
  unfold cooled. destruct (cd <? 0)%Z; auto. intros L H. apply N.ltb_lt in H. apply N.ltb_lt. lia.
Qed.

(* "same release stamp up to the datastore's one-second precision" *)
Definition same_stamp (r r' : N) : Prop := r' = r \/ r' = trunc_s r.

(* one transaction, any operation, any client: an ordinal in cooldown (stamp r) that the transaction's clock does not
   find cooled down (NOT trunc_s r + cooldown < t) is still in cooldown afterwards, with the same stamp up to truncation *)
Theorem txn_keeps_cooling cd t b op o r : inv b -> state_of b o = Cooling r -> cooled cd t (trunc_s r) = false ->
  exists r', state_of (txn_block cd t b op) o = Cooling r' /\ trunc_s r' = trunc_s r.
Proof.
  intros I ST NC.
  assert (NC' : cooled cd t r = false).
  { destruct (cooled cd t r) eqn:E; auto. rewrite (cooled_mono cd t r (trunc_s r) (trunc_s_le r) E) in NC. discriminate. }
  destruct (txn_block_shape cd t b op) as [E|E]; rewrite E.
  - exists r; auto.
  - exists (trunc_s r). rewrite state_persist, (op_keeps_cooling cd t b op o r I ST NC'). split; auto. apply trunc_s_idem.
Qed.

(* history level: released with stamp r; as long as no transaction of the history runs at a clock reading t with
   trunc_s r + cooldown < t (under that transaction's cooldown setting), the ordinal is still in cooldown: it is not in
   the Unallocated queue, so it cannot be handed out, whatever the clients do, including garbage collection at
   arbitrary times *)
Theorem cooldown_history hist : forall b o r, inv b -> state_of b o = Cooling r ->
  (forall x, In x hist -> cooled (tx_cd x) (tx_t x) (trunc_s r) = false) ->
  inv (run hist b) /\ exists r', state_of (run hist b) o = Cooling r' /\ trunc_s r' = trunc_s r.
Proof.
  induction hist as [|x hist IH]; intros b o r I ST NC; simpl.
  - split; auto. exists r; auto.
  - destruct (txn_keeps_cooling (tx_cd x) (tx_t x) b (tx_op x) o r I ST (NC x (or_introl eq_refl))) as (r1 & ST1 & TR1).
    destruct (IH _ o r1 (inv_txn _ _ _ _ I) ST1) as (I2 & r2 & ST2 & TR2).
    + intros y IN. rewrite TR1. apply NC; simpl; auto.
    + split; auto. exists r2. split; auto. congruence.
Qed.

(* consequences for an ordinal in cooldown: not in the queue, not handed out by the next transaction *)
Lemma cooling_not_queued b o r : inv b -> state_of b o = Cooling r -> ~ In o (bk_unalloc b).
Proof.
  intros I ST IN. apply (inv_free _ I) in IN. unfold state_of, owner_of in ST. rewrite IN in ST. discriminate.
Qed.

(* a release stamps the current time *)
Lemma release_stamps cd t b p o : valid b -> is_live b o = true ->
  is_live (fst (blk_release_ord cd t b p)) o = true \/
  state_of (fst (blk_release_ord cd t b p)) o = gcst cd t (Cooling t).
Proof.
  intros V L. pose proof (release_effect cd t b p V) as RE.
  destruct (scan b p [] [] []) as [[[un ords] cnt]|c].
  - destruct RE as (_ & _ & _ & _ & HS). unfold is_live. rewrite HS.
    destruct ords; [left; auto|]. destruct (memb o (n :: ords) && Nat.ltb o (bsize b)); auto.
    left. unfold is_live in L. destruct (state_of b o); try discriminate. auto.
  - destruct RE as [RE _]. rewrite RE. auto.
Qed.
