(* C21 — lemmas about the block functions of Model.v. *)
From Coq Require Import List NArith ZArith Bool Arith Lia.
From Verif.C21 Require Import Model.
Import ListNotations.
Open Scope N_scope.

(* ------------------------------------------------------------------ generic list facts *)
Lemma set_nth_length {A} (l : list A) n a : length (set_nth l n a) = length l.
Proof. revert n; induction l; intros [|n]; simpl; auto. Qed.

Lemma nth_set_nth {A} (l : list A) n a m d :
  nth m (set_nth l n a) d = if Nat.eqb n m && Nat.ltb n (length l) then a else nth m l d.
Proof.
  revert n m; induction l as [|x l IH]; intros n m; simpl.
  - destruct n, m; simpl; auto; rewrite ?andb_false_r; auto.
  - destruct n, m; simpl; auto.
    rewrite IH. replace (Nat.ltb (S n) (S (length l))) with (Nat.ltb n (length l)); auto.
Qed.

Lemma fold_set_length {A} (ords : list nat) (v : A) l :
  length (fold_left (fun al o => set_nth al o v) ords l) = length l.
Proof. revert l; induction ords; simpl; intros; auto. rewrite IHords, set_nth_length; auto. Qed.

Lemma nth_fold_set {A} (ords : list nat) (v : A) l m d :
  nth m (fold_left (fun al o => set_nth al o v) ords l) d =
  if memb m ords && Nat.ltb m (length l) then v else nth m l d.
Proof.
  unfold memb. revert l; induction ords as [|o ords IH]; simpl; intros l; auto.
  rewrite IH, set_nth_length, nth_set_nth.
  rewrite (Nat.eqb_sym m o).
  destruct (Nat.eqb o m) eqn:E; simpl.
  - apply Nat.eqb_eq in E; subst. destruct (Nat.ltb m (length l)) eqn:L; simpl.
    + rewrite andb_true_r. destruct (existsb (Nat.eqb m) ords); auto.
    + rewrite andb_false_r. auto.
  - auto.
Qed.

Lemma memb_In m l : memb m l = true <-> In m l.
Proof.
  unfold memb. rewrite existsb_exists. split.
  - intros (x & Hin & E). apply Nat.eqb_eq in E; subst; auto.
  - intros Hin; exists m; split; auto. apply Nat.eqb_refl.
Qed.

Lemma optN_eqb_eq a b : optN_eqb a b = true <-> a = b.
Proof.
  destruct a, b; simpl; split; intros H; try discriminate; auto.
  - apply N.eqb_eq in H; subst; auto.
  - inversion H; apply N.eqb_refl.
Qed.

Lemma nth_map_fix {A} (f : A -> A) (l : list A) (d : A) o : f d = d -> nth o (map f l) d = f (nth o l d).
Proof. intros H. rewrite <- H at 1. apply map_nth. Qed.

(* ------------------------------------------------------------------ per-ordinal sequence numbers *)
Lemma seqs_get_set l o s o' : seqs_get (seqs_set l o s) o' = if Nat.eqb o o' then s else seqs_get l o'.
Proof.
  induction l as [|[k v] l IH]; simpl.
  - destruct (Nat.eqb o o'); auto.
  - destruct (Nat.eqb k o) eqn:E1.
    + apply Nat.eqb_eq in E1; subst. simpl. destruct (Nat.eqb o o'); auto.
    + destruct (Nat.ltb o k) eqn:E2; simpl.
      * destruct (Nat.eqb o o') eqn:E3; auto.
      * rewrite IH. destruct (Nat.eqb k o') eqn:E4; auto.
        apply Nat.eqb_eq in E4; subst. rewrite Nat.eqb_sym, E1; auto.
Qed.

Lemma seqs_get_fold_set ords s l o' :
  seqs_get (fold_left (fun sq o => seqs_set sq o s) ords l) o' = if memb o' ords then s else seqs_get l o'.
Proof.
  unfold memb. revert l; induction ords as [|o ords IH]; simpl; intros l; auto.
  rewrite IH, seqs_get_set. rewrite (Nat.eqb_sym o' o).
  destruct (existsb (Nat.eqb o') ords); destruct (Nat.eqb o o'); auto.
Qed.

Lemma seqs_get_del l o o' : seqs_get (seqs_del l o) o' = if Nat.eqb o o' then 0 else seqs_get l o'.
Proof.
  unfold seqs_del. induction l as [|[k v] l IH]; simpl.
  - destruct (Nat.eqb o o'); auto.
  - destruct (Nat.eqb k o) eqn:E1; simpl.
    + apply Nat.eqb_eq in E1; subst. rewrite IH. destruct (Nat.eqb o o'); auto.
    + rewrite IH. destruct (Nat.eqb k o') eqn:E2; auto.
      apply Nat.eqb_eq in E2; subst. rewrite Nat.eqb_sym, E1. auto.
Qed.

(* ------------------------------------------------------------------ validity: attribute indices are in range *)
Definition valid (b : block) : Prop :=
  forall o j, nth o (bk_allocs b) None = Some j -> (j < length (bk_attrs b))%nat.

(* what garbage collection at time t does to a state *)
Definition gcst (cd : Z) (t : N) (s : ostate) : ostate :=
  match s with Cooling r => if cooled cd t r then Free else Cooling r | s => s end.

Lemma state_gc_free cd t b o : state_of (gc_free cd t b) o = gcst cd t (state_of b o).
Proof.
  unfold state_of, owner_of, gc_free; simpl.
  rewrite nth_map_fix by reflexivity.
  destruct (nth o (bk_allocs b) None) as [i|] eqn:N; simpl; auto.
  destruct (nth_error (bk_attrs b) i) as [x|] eqn:X; simpl.
  - destruct (at_rel x) as [r|] eqn:R; simpl.
    + destruct (cooled cd t r) eqn:C; simpl; auto. rewrite X, R. auto.
    + rewrite X, R. auto.
  - rewrite X. auto.
Qed.

Lemma valid_gc_free cd t b : valid b -> valid (gc_free cd t b).
Proof.
  intros V o j. unfold gc_free; simpl.
  rewrite nth_map_fix by reflexivity. destruct (is_cold cd t (bk_attrs b) (nth o (bk_allocs b) None)); [discriminate|].
  apply V.
Qed.

(* attribute compaction keeps every owner *)
Lemma kept_nth (used : nat -> bool) : forall (l : list attr) s j,
  used (s + j)%nat = true -> (j < length l)%nat ->
  nth_error (map snd (filter (fun p => used (fst p)) (combine (seq s (length l)) l)))
            (length (filter used (seq s j))) = nth_error l j.
Proof.
  induction l as [|a l IH]; intros s j U L; simpl in L; [lia|].
  simpl. destruct j as [|j].
  - simpl. rewrite Nat.add_0_r in U. rewrite U. simpl. auto.
  - simpl. destruct (used s) eqn:US; simpl.
    + apply IH; [|lia]. replace (S s + j)%nat with (s + S j)%nat by lia; auto.
    + apply IH; [|lia]. replace (S s + j)%nat with (s + S j)%nat by lia; auto.
Qed.

Lemma attr_used_nth allocs o j : nth o allocs None = Some j -> attr_used allocs j = true.
Proof.
  intros N. unfold attr_used. apply existsb_exists. exists (Some j). split.
  - assert (o < length allocs)%nat.
    { destruct (Nat.lt_ge_cases o (length allocs)); auto. rewrite nth_overflow in N; [discriminate|auto]. }
    rewrite <- N. apply nth_In; auto.
  - apply Nat.eqb_refl.
Qed.

Lemma owner_compact b o : valid b -> owner_of (compact b) o = owner_of b o.
Proof.
  intros VAL. unfold owner_of, compact; simpl.
  rewrite nth_map_fix by reflexivity.
  destruct (nth o (bk_allocs b) None) as [j|] eqn:N; auto.
  unfold rank_used. apply (kept_nth (attr_used (bk_allocs b)) (bk_attrs b) 0 j).
  - simpl. eapply attr_used_nth; eauto.
  - eapply VAL; eauto.
Qed.

Lemma state_compact b o : valid b -> state_of (compact b) o = state_of b o.
Proof. intros V. unfold state_of. rewrite owner_compact; auto. Qed.

Lemma valid_compact b : valid b -> valid (compact b).
Proof.
  intros V o j. unfold compact; simpl.
  rewrite nth_map_fix by reflexivity.
  destruct (nth o (bk_allocs b) None) as [i|] eqn:N; [|discriminate].
  intros X; inversion X; subst. unfold rank_used.
  apply nth_error_Some.
  rewrite (kept_nth (attr_used (bk_allocs b)) (bk_attrs b) 0 i).
  - apply nth_error_Some. eapply V; eauto.
  - simpl. eapply attr_used_nth; eauto.
  - eapply V; eauto.
Qed.

Lemma state_gc cd t b o : valid b -> state_of (gc cd t b) o = gcst cd t (state_of b o).
Proof. intros V. unfold gc. rewrite state_compact, state_gc_free; auto. apply valid_gc_free; auto. Qed.

Lemma valid_gc cd t b : valid b -> valid (gc cd t b).
Proof. intros V. apply valid_compact, valid_gc_free; auto. Qed.

Lemma unalloc_gc cd t b : bk_unalloc (gc cd t b) = bk_unalloc b ++ cold_ords cd t b.
Proof. reflexivity. Qed.

Lemma seq_gc cd t b : bk_seq (gc cd t b) = bk_seq b.
Proof. reflexivity. Qed.

Lemma bsize_gc cd t b : bsize (gc cd t b) = bsize b.
Proof. unfold bsize, gc, compact, gc_free; simpl. rewrite !map_length. auto. Qed.

Lemma In_firstn {A} (l : list A) n x : In x (firstn n l) -> In x l.
Proof. revert n; induction l; intros [|n]; simpl; auto; try tauto. intros [H|H]; eauto. Qed.

(* ------------------------------------------------------------------ FIFO: autoAssign takes the head of the queue *)
Definition nonres (rsv : list nat) (o : nat) : bool := negb (memb o rsv).

Lemma take_free_spec rsv : forall un num,
  fst (take_free rsv num un) = firstn num (filter (nonres rsv) un).
Proof.
  induction un as [|o un IH]; intros num; simpl.
  - destruct num; auto.
  - destruct num as [|n].
    + simpl. auto.
    + unfold nonres at 1. destruct (memb o rsv) eqn:M; simpl.
      * specialize (IH (S n)). destruct (take_free rsv (S n) un); simpl in *; auto.
      * specialize (IH n). destruct (take_free rsv n un); simpl in *. f_equal; auto.
Qed.

(* what stays behind is the queue without the ordinals taken, order preserved *)
Fixpoint minus_first (un taken : list nat) : list nat :=
  match un, taken with
  | o :: rest, x :: tk => if Nat.eqb o x then minus_first rest tk else o :: minus_first rest taken
  | _, _ => un
  end.
Lemma take_free_rest rsv : forall un num,
  snd (take_free rsv num un) = minus_first un (fst (take_free rsv num un)).
Proof.
  induction un as [|o un IH]; intros num; simpl; auto.
  destruct num as [|n]; simpl; auto.
  destruct (memb o rsv) eqn:M.
  - specialize (IH (S n)). destruct (take_free rsv (S n) un) as [tk rm] eqn:E; simpl in *.
    destruct tk as [|x tk]; simpl.
    + f_equal. rewrite IH. destruct un; auto.
    + destruct (Nat.eqb o x) eqn:Eq.
      * (* x is not reserved (it was taken) but o is: impossible *)
        apply Nat.eqb_eq in Eq; subst x.
        assert (In o (firstn (S n) (filter (nonres rsv) un))).
        { rewrite <- (take_free_spec rsv un (S n)), E. simpl; auto. }
        apply In_firstn in H. apply filter_In in H. destruct H as [_ H]. unfold nonres in H. rewrite M in H. discriminate.
      * f_equal; auto.
  - specialize (IH n). destruct (take_free rsv n un) as [tk rm] eqn:E; simpl in *.
    rewrite Nat.eqb_refl. auto.
Qed.
