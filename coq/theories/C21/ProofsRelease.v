(* C21 — release / releaseByHandle: who can lose an address, and how requests are answered. *)
From Coq Require Import List NArith ZArith Bool Arith Lia.
From Verif.C21 Require Import Model Proofs.
Import ListNotations.
Open Scope N_scope.

Definition bad_class (c : rclass) : Prop := match c with CBadSeq | CBadHandle | COut => True | _ => False end.
Definition is_un (b : block) (r : req) : bool := match classify b r with CUnalloc => true | _ => false end.
Definition is_rel (b : block) (r : req) : bool := match classify b r with CRel _ => true | _ => false end.

(* ------------------------------------------------------------------ classification of one request *)
Lemma classify_stale b r s :
  (rq_ord r < bsize b)%nat -> rq_seq r = Some s -> s <> seq_of b (rq_ord r) -> classify b r = CBadSeq.
Proof.
  intros L S NE. unfold classify. apply Nat.leb_gt in L. rewrite L, S.
  destruct (N.eqb s (seq_of b (rq_ord r))) eqn:E; simpl; auto. apply N.eqb_eq in E. contradiction.
Qed.

Definition seq_matches (b : block) (r : req) : Prop :=
  rq_seq r = None \/ rq_seq r = Some (seq_of b (rq_ord r)).

Lemma seq_matches_test b r : seq_matches b r ->
  match rq_seq r with Some s => negb (N.eqb s (seq_of b (rq_ord r))) | None => false end = false.
Proof. intros [H|H]; rewrite H; auto. rewrite N.eqb_refl. auto. Qed.

Lemma classify_wrong_handle b r oh tag h :
  (rq_ord r < bsize b)%nat -> seq_matches b r -> state_of b (rq_ord r) = Live oh tag ->
  rq_handle r = Some h -> oh <> Some h -> classify b r = CBadHandle.
Proof.
  intros L S ST H NE. unfold classify. apply Nat.leb_gt in L. rewrite L, (seq_matches_test _ _ S), ST, H.
  destruct (optN_eqb oh (Some h)) eqn:E; auto. apply optN_eqb_eq in E. contradiction.
Qed.

Lemma classify_not_live b r :
  (rq_ord r < bsize b)%nat -> seq_matches b r -> is_live b (rq_ord r) = false -> classify b r = CUnalloc.
Proof.
  intros L S NL. unfold classify. apply Nat.leb_gt in L. rewrite L, (seq_matches_test _ _ S).
  unfold is_live in NL. destruct (state_of b (rq_ord r)); auto. discriminate.
Qed.

Lemma classify_rel_inv b r oh : classify b r = CRel oh ->
  (rq_ord r < bsize b)%nat /\ seq_matches b r /\ (exists tag, state_of b (rq_ord r) = Live oh tag)
  /\ (rq_handle r = None \/ rq_handle r = oh).
Proof.
  unfold classify. destruct (Nat.leb (bsize b) (rq_ord r)) eqn:L; [discriminate|]. apply Nat.leb_gt in L.
  destruct (rq_seq r) as [s|] eqn:S.
  - destruct (N.eqb s (seq_of b (rq_ord r))) eqn:E; simpl; [|discriminate]. apply N.eqb_eq in E; subst s.
    destruct (state_of b (rq_ord r)) eqn:ST; try discriminate.
    destruct (rq_handle r) as [h'|] eqn:H.
    + destruct (optN_eqb h (Some h')) eqn:E2; [|discriminate]. apply optN_eqb_eq in E2.
      intros X; inversion X; subst. repeat split; auto. right; auto. eauto.
    + intros X; inversion X; subst. repeat split; auto. right; auto. eauto.
  - simpl. destruct (state_of b (rq_ord r)) eqn:ST; try discriminate.
    destruct (rq_handle r) as [h'|] eqn:H.
    + destruct (optN_eqb h (Some h')) eqn:E2; [|discriminate]. apply optN_eqb_eq in E2.
      intros X; inversion X; subst. repeat split; auto. left; auto. eauto.
    + intros X; inversion X; subst. repeat split; auto. left; auto. eauto.
Qed.

Lemma classify_un_inv b r : classify b r = CUnalloc -> is_live b (rq_ord r) = false /\ seq_matches b r.
Proof.
  unfold classify, is_live. destruct (Nat.leb (bsize b) (rq_ord r)) eqn:L; [discriminate|].
  destruct (rq_seq r) as [s|] eqn:S.
  - destruct (N.eqb s (seq_of b (rq_ord r))) eqn:E; simpl; [|discriminate]. apply N.eqb_eq in E; subst s.
    destruct (state_of b (rq_ord r)).
    + intros _; split; auto; right; auto.
    + destruct (rq_handle r) as [h'|]; [destruct (optN_eqb h (Some h'))|]; discriminate.
    + intros _; split; auto; right; auto.
  - simpl. destruct (state_of b (rq_ord r)).
    + intros _; split; auto; left; auto.
    + destruct (rq_handle r) as [h'|]; [destruct (optN_eqb h (Some h'))|]; discriminate.
    + intros _; split; auto; left; auto.
Qed.

(* ------------------------------------------------------------------ the loop over the request *)
(* any bad entry anywhere in the request makes the whole request fail, whatever the processing order *)
Lemma scan_err b : forall rs un ords cnt r,
  In r rs -> bad_class (classify b r) -> exists c, scan b rs un ords cnt = inr c /\ bad_class c.
Proof.
  induction rs as [|x rs IH]; intros un ords cnt r IN BAD; [destruct IN|].
  simpl. destruct (classify b x) eqn:C; try (eexists; split; [reflexivity|exact I]).
  - destruct IN as [->|IN]; [rewrite C in BAD; destruct BAD|]. eapply IH; eauto.
  - destruct IN as [->|IN]; [rewrite C in BAD; destruct BAD|]. eapply IH; eauto.
Qed.

Lemma scan_ok b : forall rs un ords cnt,
  (forall r, In r rs -> ~ bad_class (classify b r)) ->
  exists cnt', scan b rs un ords cnt
               = inl (un ++ map rq_ord (filter (is_un b) rs), ords ++ map rq_ord (filter (is_rel b) rs), cnt').
Proof.
  induction rs as [|x rs IH]; intros un ords cnt OK; simpl.
  - exists cnt. rewrite !app_nil_r. auto.
  - assert (OK' : forall r, In r rs -> ~ bad_class (classify b r)) by (intros; apply OK; simpl; auto).
    specialize (OK x (or_introl eq_refl)).
    unfold is_un at 1, is_rel at 1.
    destruct (classify b x) eqn:C; simpl in OK; try tauto.
    + destruct (IH (un ++ [rq_ord x]) ords cnt OK') as [c' E]. exists c'. rewrite E. simpl. rewrite <- app_assoc. auto.
    + destruct (IH un (ords ++ [rq_ord x]) (match h with Some h0 => count_add cnt h0 | None => cnt end) OK') as [c' E].
      exists c'. rewrite E. simpl. rewrite <- app_assoc. auto.
Qed.

Lemma scan_inl_no_bad b : forall rs un ords cnt res,
  scan b rs un ords cnt = inl res -> forall r, In r rs -> ~ bad_class (classify b r).
Proof.
  intros rs un ords cnt res E r IN BAD.
  destruct (scan_err b rs un ords cnt r IN BAD) as (c & E' & _). congruence.
Qed.

Lemma scan_inr_bad b : forall rs un ords cnt c, scan b rs un ords cnt = inr c -> bad_class c.
Proof.
  induction rs as [|x rs IH]; simpl; intros un ords cnt c; [discriminate|].
  destruct (classify b x) eqn:C; try (intros X; inversion X; exact I); apply IH.
Qed.

(* ------------------------------------------------------------------ marking ordinals as released *)
Lemma valid_mark b t ords rs : valid b -> valid (mark_released b t ords rs).
Proof.
  intros V o j. unfold mark_released; simpl. rewrite nth_fold_set, app_length. simpl.
  destruct (memb o ords && Nat.ltb o (length (bk_allocs b))).
  - intros X; inversion X; lia.
  - intros X. apply V in X. lia.
Qed.

Lemma state_mark b t ords rs o : valid b ->
  state_of (mark_released b t ords rs) o
  = if memb o ords && Nat.ltb o (bsize b) then Cooling t else state_of b o.
Proof.
  intros V. unfold state_of, owner_of, mark_released, bsize; simpl. rewrite nth_fold_set.
  destruct (memb o ords && Nat.ltb o (length (bk_allocs b))).
  - rewrite nth_error_app2 by lia. rewrite Nat.sub_diag. simpl. auto.
  - destruct (nth o (bk_allocs b) None) as [j|] eqn:N; auto.
    rewrite nth_error_app1; auto. eapply V; eauto.
Qed.

Lemma bsize_mark b t ords rs : bsize (mark_released b t ords rs) = bsize b.
Proof. unfold bsize, mark_released; simpl. apply fold_set_length. Qed.

(* ------------------------------------------------------------------ release *)
(* the state of every ordinal after blk_release_ord, for every processing order p *)
Theorem release_effect cd t b p : valid b ->
  match scan b p [] [] [] with
  | inr c => blk_release_ord cd t b p = (b, RRErr c) /\ bad_class c
  | inl (un, ords, cnt) =>
      snd (blk_release_ord cd t b p) = RROk un cnt /\
      un = map rq_ord (filter (is_un b) p) /\ ords = map rq_ord (filter (is_rel b) p) /\
      (ords = [] -> fst (blk_release_ord cd t b p) = b) /\
      forall o, state_of (fst (blk_release_ord cd t b p)) o =
                match ords with
                | [] => state_of b o
                | _ => gcst cd t (if memb o ords && Nat.ltb o (bsize b) then Cooling t else state_of b o)
                end
  end.
Proof.
  intros V. unfold blk_release_ord.
  destruct (scan b p [] [] []) as [[[un ords] cnt]|c] eqn:E.
  - destruct (scan_ok b p [] [] [] (scan_inl_no_bad _ _ _ _ _ _ E)) as [c' E'].
    rewrite E in E'. inversion E'; subst. simpl.
    destruct (map rq_ord (filter (is_rel b) p)) as [|o0 ol] eqn:EO; simpl.
    + repeat split; auto.
    + repeat split; auto; try discriminate.
      intros o. rewrite state_gc by (apply valid_mark; auto). rewrite state_mark; auto.
  - split; auto. eapply scan_inr_bad; eauto.
Qed.

(* stale sequence number: the whole request fails and the block is returned untouched *)
Theorem stale_seq_rejected cd t b p r s : valid b ->
  In r p -> (rq_ord r < bsize b)%nat -> rq_seq r = Some s -> s <> seq_of b (rq_ord r) ->
  exists c, blk_release_ord cd t b p = (b, RRErr c) /\ bad_class c.
Proof.
  intros V IN L S NE. pose proof (release_effect cd t b p V) as H.
  destruct (scan_err b p [] [] [] r IN) as (c & E & B).
  { rewrite (classify_stale b r s); simpl; auto. }
  rewrite E in H. exists c. tauto.
Qed.

Theorem wrong_handle_rejected cd t b p r oh tag h : valid b ->
  In r p -> (rq_ord r < bsize b)%nat -> state_of b (rq_ord r) = Live oh tag -> rq_handle r = Some h -> oh <> Some h ->
  exists c, blk_release_ord cd t b p = (b, RRErr c) /\ bad_class c.
Proof.
  intros V IN L ST H NE. pose proof (release_effect cd t b p V) as HE.
  assert (BAD : bad_class (classify b r)).
  { destruct (rq_seq r) as [s|] eqn:S.
    - destruct (N.eq_dec s (seq_of b (rq_ord r))) as [->|NE2].
      + rewrite (classify_wrong_handle b r oh tag h); simpl; auto. right; auto.
      + rewrite (classify_stale b r s); simpl; auto.
    - rewrite (classify_wrong_handle b r oh tag h); simpl; auto. left; auto. }
  destruct (scan_err b p [] [] [] r IN BAD) as (c & E & B).
  rewrite E in HE. exists c. tauto.
Qed.

(* positive form: the ONLY way a live address loses its owner in a release is an entry naming it whose handle
   (if given) is the owner's and whose sequence number (if given) is the stored one *)
Theorem release_only_named cd t b p o oh tag : valid b ->
  state_of b o = Live oh tag ->
  state_of (fst (blk_release_ord cd t b p)) o = Live oh tag
  \/ exists r, In r p /\ rq_ord r = o /\ seq_matches b r /\ (rq_handle r = None \/ rq_handle r = oh).
Proof.
  intros V ST. pose proof (release_effect cd t b p V) as H.
  destruct (scan b p [] [] []) as [[[un ords] cnt]|c] eqn:E.
  - destruct H as (_ & _ & EO & _ & HS). rewrite HS.
    destruct ords as [|o0 ol] eqn:EOL; [left; auto|]. rewrite <- EOL in *.
    destruct (memb o ords && Nat.ltb o (bsize b)) eqn:M.
    + right. apply andb_true_iff in M. destruct M as [M _]. apply memb_In in M. rewrite EO in M.
      apply in_map_iff in M. destruct M as (r & RO & IN). apply filter_In in IN. destruct IN as [IN REL].
      unfold is_rel in REL. destruct (classify b r) eqn:C; try discriminate.
      destruct (classify_rel_inv b r h C) as (L & SM & (tag' & ST') & HH).
      exists r. repeat split; auto. rewrite RO, ST in ST'. inversion ST'; subst. auto.
    + left. rewrite ST. auto.
  - destruct H as [H _]. rewrite H. left; auto.
Qed.

(* releasing addresses that are not live (free or cooling): nothing changes, all are reported as not allocated *)
Theorem release_idempotent cd t b p : valid b ->
  (forall r, In r p -> (rq_ord r < bsize b)%nat /\ seq_matches b r /\ is_live b (rq_ord r) = false) ->
  blk_release_ord cd t b p = (b, RROk (map rq_ord p) []).
Proof.
  intros V ALL. unfold blk_release_ord.
  assert (G : forall un, scan b p un [] [] = inl (un ++ map rq_ord p, [], [])).
  { clear V. induction p as [|x p IH]; intros un; simpl; [rewrite app_nil_r; auto|].
    destruct (ALL x (or_introl eq_refl)) as (L & S & NL).
    rewrite (classify_not_live b x L S NL). rewrite IH.
    - rewrite <- app_assoc. auto.
    - intros; apply ALL; simpl; auto. }
  rewrite G. auto.
Qed.

(* entries for addresses that are not live do not influence what happens to the others *)
Theorem release_unalloc_irrelevant cd t b p r : valid b ->
  classify b r = CUnalloc ->
  fst (blk_release_ord cd t b (r :: p)) = fst (blk_release_ord cd t b p).
Proof.
  intros V C. unfold blk_release_ord. simpl. rewrite C.
  assert (G : forall un un' ords cnt,
            match scan b p un ords cnt, scan b p un' ords cnt with
            | inl (_, o1, c1), inl (_, o2, c2) => o1 = o2 /\ c1 = c2
            | inr c1, inr c2 => c1 = c2
            | _, _ => False end).
  { clear. induction p as [|x p IH]; intros; simpl; auto.
    destruct (classify b x); auto; apply IH. }
  specialize (G [rq_ord r] [] [] []).
  destruct (scan b p [rq_ord r] [] []) as [[[u1 o1] c1]|e1]; destruct (scan b p [] [] []) as [[[u2 o2] c2]|e2];
    try tauto.
  destruct G; subst. destruct o2; auto.
Qed.

(* ------------------------------------------------------------------ releaseByHandle *)
Lemma In_combine_seq {A} (l : list A) : forall s i x,
  In (i, x) (combine (seq s (length l)) l) <-> (s <= i)%nat /\ nth_error l (i - s) = Some x.
Proof.
  induction l as [|a l IH]; intros s i x; simpl.
  - split; [tauto|]. intros [_ H]. destruct (i - s)%nat; discriminate.
  - rewrite IH. split.
    + intros [H|[L H]].
      * inversion H; subst. rewrite Nat.sub_diag. auto.
      * split; [lia|]. replace (i - s)%nat with (S (i - S s)) by lia. auto.
    + intros [L H]. destruct (Nat.eq_dec s i) as [->|NE].
      * rewrite Nat.sub_diag in H. simpl in H. inversion H; auto.
      * right. split; [lia|]. replace (i - s)%nat with (S (i - S s)) in H by lia. auto.
Qed.

Lemma handle_idxs_spec attrs h i :
  In i (handle_idxs attrs h) <-> exists x, nth_error attrs i = Some x /\ at_handle x = Some h.
Proof.
  unfold handle_idxs. rewrite in_map_iff. split.
  - intros ([j x] & E & IN). simpl in E; subst j. apply filter_In in IN. destruct IN as [IN H].
    apply In_combine_seq in IN. destruct IN as [_ N]. rewrite Nat.sub_0_r in N. simpl in H.
    apply optN_eqb_eq in H. eauto.
  - intros (x & N & H). exists (i, x). split; auto. apply filter_In. split.
    + apply In_combine_seq. rewrite Nat.sub_0_r. split; [lia|auto].
    + simpl. apply optN_eqb_eq. auto.
Qed.

Definition owned_by (b : block) (o : nat) (h : N) : Prop :=
  exists x, owner_of b o = Some x /\ at_handle x = Some h.

Lemma rbh_ords_spec b h sq o :
  In o (rbh_ords b h sq) <->
  (o < bsize b)%nat /\ owned_by b o h /\ match sq with Some s => s = seq_of b o | None => True end.
Proof.
  unfold rbh_ords. rewrite filter_In, in_seq. unfold owned_by, owner_of. split.
  - intros [L H]. destruct (nth o (bk_allocs b) None) as [i|]; [|discriminate].
    apply andb_true_iff in H. destruct H as [M S]. apply memb_In, handle_idxs_spec in M.
    split; [lia|]. split; auto. destruct sq; auto. apply N.eqb_eq in S; auto.
  - intros (L & (x & OW & H) & S). split; [lia|].
    destruct (nth o (bk_allocs b) None) as [i|]; [|discriminate].
    apply andb_true_iff. split.
    + apply memb_In, handle_idxs_spec. eauto.
    + destruct sq; auto. subst. apply N.eqb_refl.
Qed.

Lemma rbh_ords_nil b h sq : handle_idxs (bk_attrs b) h = [] -> rbh_ords b h sq = [].
Proof.
  intros HI. unfold rbh_ords. rewrite HI. induction (seq 0 (bsize b)); simpl; auto.
  destruct (nth a (bk_allocs b) None); simpl; auto.
Qed.

(* release by handle: exactly the addresses whose owner attribute carries the handle (and, if a sequence number
   is given, that number) are released; every other ordinal only sees garbage collection *)
Theorem rbh_effect cd t b h sq o : valid b ->
  state_of (fst (blk_release_by_handle cd t b h sq)) o =
    if memb o (rbh_ords b h sq) then gcst cd t (Cooling t)
    else match handle_idxs (bk_attrs b) h with [] => state_of b o | _ => gcst cd t (state_of b o) end.
Proof.
  intros V. unfold blk_release_by_handle.
  destruct (handle_idxs (bk_attrs b) h) as [|i0 il] eqn:HI.
  - simpl. rewrite (rbh_ords_nil b h sq HI). auto.
  - simpl. destruct (rbh_ords b h sq) as [|o0 ol] eqn:RO.
    + simpl. rewrite state_gc; auto.
    + rewrite state_gc by (apply valid_mark; auto). rewrite state_mark; auto. rewrite <- RO.
      destruct (memb o (rbh_ords b h sq)) eqn:M; simpl; auto.
      apply memb_In, rbh_ords_spec in M. destruct M as (L & _). apply Nat.ltb_lt in L. unfold bsize in *. rewrite L. auto.
Qed.

Theorem rbh_count cd t b h sq : snd (blk_release_by_handle cd t b h sq) = length (rbh_ords b h sq).
Proof.
  unfold blk_release_by_handle. destruct (handle_idxs (bk_attrs b) h) eqn:HI; simpl; auto.
  rewrite (rbh_ords_nil b h sq HI). auto.
Qed.
