(* C21 — sequence numbers (ABA), the way into the Unallocated queue (cooldown), over transactions and histories. *)
From Coq Require Import List NArith ZArith Bool Arith Lia.
From Verif.C21 Require Import Model Proofs ProofsRelease.
Import ListNotations.
Open Scope N_scope.

(* ------------------------------------------------------------------ SequenceNumber of the block *)
Lemma seq_auto b num h tag rsv : bk_seq (fst (blk_auto_assign b num h tag rsv)) = bk_seq b.
Proof.
  unfold blk_auto_assign. destruct (take_free rsv num (bk_unalloc b)) as [tk rm].
  destruct tk; simpl; auto. destruct (find_or_add_attr (bk_attrs b) (live_attr h tag)); simpl; auto.
Qed.
Lemma seq_assign b o h tag : bk_seq (fst (blk_assign b o h tag)) = bk_seq b.
Proof.
  unfold blk_assign. destruct (Nat.leb (bsize b) o); simpl; auto.
  destruct (nth o (bk_allocs b) None); simpl; auto.
  destruct (find_or_add_attr (bk_attrs b) (live_attr h tag)); simpl; auto.
Qed.
Lemma seq_release cd t b p : bk_seq (fst (blk_release_ord cd t b p)) = bk_seq b.
Proof.
  unfold blk_release_ord. destruct (scan b p [] [] []) as [[[un ords] cnt]|c]; simpl; auto.
  destruct ords; simpl; auto.
Qed.
Lemma seq_rbh cd t b h sq : bk_seq (fst (blk_release_by_handle cd t b h sq)) = bk_seq b.
Proof.
  unfold blk_release_by_handle. destruct (handle_idxs (bk_attrs b) h); simpl; auto.
  destruct (rbh_ords b h sq); simpl; auto.
Qed.
Lemma seq_persist b : bk_seq (persist b) = bk_seq b + 1.
Proof. reflexivity. Qed.
Lemma seq_of_persist b o : seq_of (persist b) o = seq_of b o.
Proof. reflexivity. Qed.

(* every transaction that writes increases the block's SequenceNumber by exactly one *)
Theorem txn_seq_written cd t b op b' : fst (txn cd t b op) = Some b' -> bk_seq b' = bk_seq b + 1.
Proof.
  unfold txn. destruct op as [h tag num rsv|o h tag|rs|h|].
  - destruct (Nat.leb 1 (num_free (gc cd t b) rsv)); [|discriminate].
    pose proof (seq_auto (gc cd t b) num h tag rsv) as S.
    destruct (blk_auto_assign (gc cd t b) num h tag rsv) as [b2 ords]. destruct ords; [discriminate|].
    cbn [fst]. intros X; inversion X; subst. rewrite seq_persist. cbn [fst] in S. rewrite S. auto.
  - pose proof (seq_assign (gc cd t b) o h tag) as S.
    destruct (blk_assign (gc cd t b) o h tag) as [b2 e]. destruct e; try discriminate.
    cbn [fst]. intros X; inversion X; subst. rewrite seq_persist. cbn [fst] in S. rewrite S; auto.
  - unfold blk_release. pose proof (seq_release cd t (gc cd t b) (dedup_last rs)) as S.
    destruct (blk_release_ord cd t (gc cd t b) (dedup_last rs)) as [b2 r]. destruct r; [|discriminate].
    destruct (Nat.eqb (length rs) (length unalloc)); [discriminate|].
    cbn [fst]. intros X; inversion X; subst. rewrite seq_persist. cbn [fst] in S. rewrite S; auto.
  - pose proof (seq_rbh cd t (gc cd t b) h None) as S.
    destruct (blk_release_by_handle cd t (gc cd t b) h None) as [b2 n]. destruct n; [discriminate|].
    cbn [fst]. intros X; inversion X; subst. rewrite seq_persist. cbn [fst] in S. rewrite S; auto.
  - destruct (block_eqb (gc cd t b) b); [discriminate|].
    cbn [fst]. intros X; inversion X; subst. rewrite seq_persist. auto.
Qed.

Lemma txn_seq_mono cd t b op : bk_seq b <= bk_seq (txn_block cd t b op).
Proof.
  unfold txn_block. destruct (fst (txn cd t b op)) eqn:E; [|lia].
  apply txn_seq_written in E. lia.
Qed.

(* histories of transactions on one stored block: any clients, any clock readings, any cooldown settings *)
Record tx := { tx_cd : Z; tx_t : N; tx_op : top }.
Fixpoint run (hist : list tx) (b : block) : block :=
  match hist with [] => b | x :: rest => run rest (txn_block (tx_cd x) (tx_t x) b (tx_op x)) end.

Lemma run_seq_mono hist : forall b, bk_seq b <= bk_seq (run hist b).
Proof.
  induction hist as [|x hist IH]; intros b; simpl; [lia|].
  pose proof (txn_seq_mono (tx_cd x) (tx_t x) b (tx_op x)). specialize (IH (txn_block (tx_cd x) (tx_t x) b (tx_op x))). lia.
Qed.

(* a transaction hands out ordinal o *)
Definition hands_out (cd : Z) (t : N) (b : block) (op : top) (o : nat) (b' : block) : Prop :=
  match op with
  | TAuto h tag num rsv => exists ords, txn cd t b op = (Some b', ResAuto ords) /\ In o ords
  | TAssign o' h tag => o' = o /\ txn cd t b op = (Some b', ResErr ENone)
  | _ => False
  end.

(* the ordinal handed out carries the SequenceNumber the block had when it was read *)
Theorem handout_seq cd t b op o b' : hands_out cd t b op o b' -> seq_of b' o = bk_seq b /\ bk_seq b' = bk_seq b + 1.
Proof.
  intros H. destruct op as [h tag num rsv|o' h tag|rs|h|]; unfold hands_out in H; try tauto.
  - destruct H as (ords & E & IN). split; [|apply (txn_seq_written cd t b (TAuto h tag num rsv)); rewrite E; auto].
    unfold txn in E. destruct (Nat.leb 1 (num_free (gc cd t b) rsv)); [|discriminate].
    unfold blk_auto_assign in E.
    destruct (take_free rsv num (bk_unalloc (gc cd t b))) as [tk rm].
    destruct tk as [|x tk]; [discriminate|].
    destruct (find_or_add_attr (bk_attrs (gc cd t b)) (live_attr h tag)) as [attrs idx].
    inversion E; subst. rewrite seq_of_persist. unfold seq_of; simpl bk_seqs.
    rewrite seqs_get_fold_set, seqs_get_set.
    destruct (memb o tk) eqn:M; [reflexivity|].
    destruct IN as [->|IN]; [rewrite Nat.eqb_refl; reflexivity|].
    apply memb_In in IN. congruence.
  - destruct H as [-> E]. split; [|apply (txn_seq_written cd t b (TAssign o h tag)); rewrite E; auto].
    unfold txn in E. unfold blk_assign in E.
    destruct (Nat.leb (bsize (gc cd t b)) o); [discriminate|].
    destruct (nth o (bk_allocs (gc cd t b)) None); [discriminate|].
    destruct (find_or_add_attr (bk_attrs (gc cd t b)) (live_attr h tag)) as [attrs idx].
    inversion E; subst. rewrite seq_of_persist. unfold seq_of; simpl. rewrite seqs_get_set, Nat.eqb_refl. reflexivity.
Qed.

(* ABA: allocate -> (any history: releases, garbage collection, other allocations, by any client) -> reallocate
   gives the address a strictly larger sequence number *)
Theorem aba_strict cd1 t1 b op1 o b1 hist cd2 t2 op2 b3 :
  hands_out cd1 t1 b op1 o b1 ->
  hands_out cd2 t2 (run hist b1) op2 o b3 ->
  seq_of b1 o < seq_of b3 o.
Proof.
  intros H1 H2. apply handout_seq in H1. apply handout_seq in H2.
  destruct H1 as [S1 B1], H2 as [S2 _]. rewrite S1, S2.
  pose proof (run_seq_mono hist b1). lia.
Qed.

(* ------------------------------------------------------------------ the only way into the Unallocated queue *)
Lemma cold_ords_spec cd t b o : In o (cold_ords cd t b) -> exists r, state_of b o = Cooling r /\ cooled cd t r = true.
Proof.
  unfold cold_ords. rewrite filter_In. intros [_ C]. unfold is_cold in C. unfold state_of, owner_of.
  destruct (nth o (bk_allocs b) None) as [i|]; [|discriminate].
  destruct (nth_error (bk_attrs b) i) as [x|]; [|discriminate].
  destruct (at_rel x) as [r|]; [|discriminate]. eauto.
Qed.

Lemma take_free_rest_incl rsv : forall un num x, In x (snd (take_free rsv num un)) -> In x un.
Proof.
  induction un as [|o un IH]; intros num x; simpl; auto.
  destruct num as [|n]; simpl; auto.
  destruct (memb o rsv).
  - specialize (IH (S n) x). destruct (take_free rsv (S n) un); simpl in *. intros [H|H]; auto.
  - specialize (IH n x). destruct (take_free rsv n un); simpl in *. auto.
Qed.
Lemma take_free_taken_incl rsv : forall un num x, In x (fst (take_free rsv num un)) -> In x un.
Proof. intros un num x. rewrite take_free_spec. intros H. apply In_firstn in H. apply filter_In in H. tauto. Qed.

Lemma remove_first_incl o : forall l x, In x (remove_first o l) -> In x l.
Proof. induction l as [|a l IH]; simpl; auto. intros x. destruct (Nat.eqb a o); simpl; auto. intros [H|H]; auto. Qed.

Lemma unalloc_auto b num h tag rsv x :
  In x (bk_unalloc (fst (blk_auto_assign b num h tag rsv))) -> In x (bk_unalloc b).
Proof.
  unfold blk_auto_assign. pose proof (take_free_rest_incl rsv (bk_unalloc b) num x) as I.
  destruct (take_free rsv num (bk_unalloc b)) as [tk rm]. destruct tk; simpl; auto.
  destruct (find_or_add_attr (bk_attrs b) (live_attr h tag)); simpl; auto.
Qed.
(* autoAssign hands out only members of the queue *)
Lemma auto_from_queue b num h tag rsv x : In x (snd (blk_auto_assign b num h tag rsv)) -> In x (bk_unalloc b).
Proof.
  unfold blk_auto_assign. pose proof (take_free_taken_incl rsv (bk_unalloc b) num x) as I.
  destruct (take_free rsv num (bk_unalloc b)) as [tk rm]. destruct tk; simpl; [tauto|].
  destruct (find_or_add_attr (bk_attrs b) (live_attr h tag)); simpl; auto.
Qed.
Lemma unalloc_assign b o h tag x : In x (bk_unalloc (fst (blk_assign b o h tag))) -> In x (bk_unalloc b).
Proof.
  unfold blk_assign. destruct (Nat.leb (bsize b) o); simpl; auto.
  destruct (nth o (bk_allocs b) None); simpl; auto.
  destruct (find_or_add_attr (bk_attrs b) (live_attr h tag)); simpl. apply remove_first_incl.
Qed.

(* origin of a member of the queue after a release on block b at time t:
   it was in the queue, or it was in cooldown with a stamp r whose cooldown has passed (r + cd < t),
   or it was live, is released by this very call, and the configured cooldown is negative *)
Definition origin (cd : Z) (t : N) (b : block) (x : nat) : Prop :=
  In x (bk_unalloc b)
  \/ (exists r, state_of b x = Cooling r /\ cooled cd t r = true)
  \/ (is_live b x = true /\ (cd < 0)%Z).

Lemma cooled_self cd t : cooled cd t t = true -> (cd < 0)%Z.
Proof. unfold cooled. destruct (cd <? 0)%Z eqn:E; [intros _; apply Z.ltb_lt; auto|]. intros H. apply N.ltb_lt in H. lia. Qed.

Lemma origin_mark cd t b ords rs x : valid b ->
  (forall o, In o ords -> is_live b o = true) ->
  In x (bk_unalloc (gc cd t (mark_released b t ords rs))) -> origin cd t b x.
Proof.
  intros V LIVE. rewrite unalloc_gc. intros H. apply in_app_or in H. destruct H as [H|H]; [left; auto|].
  apply cold_ords_spec in H. destruct H as (r & ST & C). rewrite state_mark in ST by auto.
  destruct (memb x ords && Nat.ltb x (bsize b)) eqn:M.
  - inversion ST; subst r. right; right. apply andb_true_iff in M. destruct M as [M _]. apply memb_In in M.
    split; auto. apply cooled_self in C; auto.
  - right; left; eauto.
Qed.

Lemma unalloc_release cd t b p x : valid b ->
  In x (bk_unalloc (fst (blk_release_ord cd t b p))) -> origin cd t b x.
Proof.
  intros V. pose proof (release_effect cd t b p V) as RE. unfold blk_release_ord in *.
  destruct (scan b p [] [] []) as [[[un ords] cnt]|c]; simpl; [|left; auto].
  destruct RE as (_ & _ & EO & _ & _).
  destruct ords as [|o0 ol] eqn:EOL; simpl; [left; auto|]. rewrite <- EOL in *.
  apply origin_mark; auto.
  intros o IN. rewrite EO in IN. apply in_map_iff in IN. destruct IN as (r & RO & IN).
  apply filter_In in IN. destruct IN as [_ REL]. unfold is_rel in REL.
  destruct (classify b r) eqn:C; try discriminate.
  destruct (classify_rel_inv b r h C) as (_ & _ & (tag & ST) & _). unfold is_live. rewrite <- RO, ST. auto.
Qed.

Lemma unalloc_rbh cd t b h sq x : valid b ->
  In x (bk_unalloc (fst (blk_release_by_handle cd t b h sq))) ->
  origin cd t b x \/ (exists r, state_of b x = Cooling r /\ owned_by b x h).
Proof.
  intros V. unfold blk_release_by_handle.
  destruct (handle_idxs (bk_attrs b) h) eqn:HI; cbn [fst]; [left; left; auto|].
  destruct (rbh_ords b h sq) as [|o0 ol] eqn:RO.
  - rewrite unalloc_gc. intros H. apply in_app_or in H. destruct H as [H|H]; [left; left; auto|].
    apply cold_ords_spec in H. left; right; left; auto.
  - rewrite <- RO. rewrite unalloc_gc. intros H. apply in_app_or in H. destruct H as [H|H]; [left; left; auto|].
    apply cold_ords_spec in H. destruct H as (r & ST & C). rewrite state_mark in ST by auto.
    destruct (memb x (rbh_ords b h sq) && Nat.ltb x (bsize b)) eqn:M.
    + inversion ST; subst r. apply andb_true_iff in M. destruct M as [M _]. apply memb_In, rbh_ords_spec in M.
      destruct M as (_ & OW & _). apply cooled_self in C.
      destruct (state_of b x) eqn:SX.
      * exfalso. destruct OW as (a & OWN & _). unfold state_of in SX. rewrite OWN in SX. destruct (at_rel a); discriminate.
      * left; right; right. unfold is_live. rewrite SX. auto.
      * right. eauto.
    + left; right; left; eauto.
Qed.
