(* C21 — client level: a stale / wrong-handle entry fails exactly its own block's part of a ReleaseIPs call. *)
From Coq Require Import List NArith ZArith Bool Arith Lia.
From Verif.C21 Require Import Model Proofs ProofsRelease ProofsHist ProofsInv ProofsCool.
Import ListNotations.
Open Scope N_scope.

Lemma dedup_last_In_last (q : req) : forall rs, In q (dedup_last rs) -> In q rs.
Proof.
  induction rs as [|x rs IH]; simpl; auto.
  destruct (existsb (fun r' => Nat.eqb (rq_ord r') (rq_ord x)) rs); simpl; intros H; auto. destruct H; auto.
Qed.

Definition localise (bs i : nat) (rs : list req) : list req :=
  map (fun r => {| rq_ord := (rq_ord r - i * bs)%nat; rq_handle := rq_handle r; rq_seq := rq_seq r |}) rs.

(* releaseIPsFromBlock: if the effective (de-duplicated) request for block j contains an entry that is stale or names a
   wrong handle with respect to the block as read (after blockFromBackend's GC), nothing is written: the store is
   unchanged, no address of that block is reported released, the block's part is reported as failed. *)
Theorem release_block_rejects bs cd t st j rs b q :
  get_block st j = Some b -> inv b ->
  In q (dedup_last (localise bs j rs)) -> (rq_ord q < bsize b)%nat ->
  bad_class (classify (gc cd t b) q) ->
  release_block bs cd t st j rs = (st, ([], false)).
Proof.
  intros G I IN L BAD. unfold release_block. rewrite G. fold (localise bs j rs).
  unfold txn, blk_release.
  pose proof (release_effect cd t (gc cd t b) (dedup_last (localise bs j rs)) (valid_gc cd t b (inv_valid _ I))) as RE.
  destruct (scan_err (gc cd t b) (dedup_last (localise bs j rs)) [] [] [] q IN BAD) as (c & E & BC).
  rewrite E in RE. destruct RE as [RE _]. rewrite RE.
  destruct c; simpl in BC; try tauto; reflexivity.
Qed.

(* ------------------------------------------------------------------ ReleaseByHandle through the client *)
Local Arguments txn : simpl never.
Local Arguments gc : simpl never.
Local Arguments persist : simpl never.
Local Arguments blk_empty : simpl never.

Lemma get_put_block' st j x i :
  get_block (put_block st j x) i = if Nat.eqb j i && Nat.ltb j (length (cs_blocks st)) then x else get_block st i.
Proof. unfold get_block, put_block; simpl. apply nth_set_nth. Qed.

Lemma get_store_after_other st j b' i : j <> i -> get_block (store_after st j b') i = get_block st i.
Proof.
  intros NE. unfold store_after. destruct (negb (get_aff st j) && blk_empty b'); rewrite get_put_block';
    (destruct (Nat.eqb j i) eqn:E; [apply Nat.eqb_eq in E; contradiction|auto]).
Qed.

Lemma rbh_loop_other cd t blks : forall st h i, ~ In i blks -> get_block (rbh_loop cd t blks st h) i = get_block st i.
Proof.
  induction blks as [|j blks IH]; intros st h i NI; simpl; auto.
  assert (j <> i /\ ~ In i blks) as [NE NI'] by (simpl in NI; tauto).
  destruct (get_block st j) as [b0|]; [|apply IH; auto].
  destruct (txn cd t b0 (TRbh h)) as [[b'|] res]; [|apply IH; auto].
  destruct res; try (apply IH; auto). rewrite IH by auto.
  change (get_block (store_after st j b') i = get_block st i). apply get_store_after_other; auto.
Qed.

(* what the handle's block looks like after the call: gone, or none of the handle's addresses is live any more *)
Definition handle_cleared (cd : Z) (t : N) (b : block) (h : N) (slot : option block) : Prop :=
  match slot with
  | None => True
  | Some b' => forall o, owned_by (gc cd t b) o h -> is_live b' o = false
  end.

Lemma rbh_one_clears cd t st j h b : get_block st j = Some b -> inv b -> (j < length (cs_blocks st))%nat ->
  handle_cleared cd t b h
    (get_block (match txn cd t b (TRbh h) with
                | (Some b', ResCount n) => put_handles (store_after st j b') (hs_dec (cs_handles st) h j (N.of_nat n))
                | _ => st end) j).
Proof.
  intros G I L. pose proof (inv_gc cd t b I) as I1.
  assert (OWN : forall o, owned_by (gc cd t b) o h -> In o (rbh_ords (gc cd t b) h None)).
  { intros o OW. apply rbh_ords_spec. repeat split; auto.
    pose proof (owned_alloc _ _ _ OW) as NZ. unfold bsize.
    destruct (Nat.lt_ge_cases o (length (bk_allocs (gc cd t b)))); auto. rewrite nth_overflow in NZ; [congruence|auto]. }
  unfold txn. pose proof (rbh_count cd t (gc cd t b) h None) as CNT.
  pose proof (fun o => rbh_effect cd t (gc cd t b) h None o (inv_valid _ I1)) as EFF.
  destruct (blk_release_by_handle cd t (gc cd t b) h None) as [b2 n]. simpl in CNT, EFF.
  destruct n as [|n].
  - (* nothing to release: the handle owns nothing in the block *)
    rewrite G. simpl. intros o OW. apply OWN in OW. destruct (rbh_ords (gc cd t b) h None); [destruct OW|discriminate].
  - unfold handle_cleared.
    assert (E : get_block (put_handles (store_after st j (persist b2)) (hs_dec (cs_handles st) h j (N.of_nat (S n)))) j
                = (if negb (get_aff st j) && blk_empty (persist b2) then None else Some (persist b2))).
    { change (get_block (store_after st j (persist b2)) j = (if negb (get_aff st j) && blk_empty (persist b2) then None else Some (persist b2))).
      unfold store_after. apply Nat.ltb_lt in L.
      destruct (negb (get_aff st j) && blk_empty (persist b2)); rewrite get_put_block', Nat.eqb_refl, L; auto. }
    rewrite E. destruct (negb (get_aff st j) && blk_empty (persist b2)); auto.
    intros o OW. apply OWN, memb_In in OW. unfold is_live. rewrite state_persist, EFF, OW.
    unfold gcst. destruct (cooled cd t t); auto.
Qed.

Theorem rbh_client_exact cd t blks : forall st h j b,
  NoDup blks -> In j blks -> get_block st j = Some b -> inv b -> (j < length (cs_blocks st))%nat ->
  handle_cleared cd t b h (get_block (rbh_loop cd t blks st h) j).
Proof.
  induction blks as [|j' blks IH]; intros st h j b ND IN G I L; [destruct IN|].
  inversion ND as [|? ? NI ND']; subst. simpl.
  destruct (Nat.eq_dec j' j) as [->|NE].
  - (* our block is processed now; the rest of the loop does not touch it *)
    rewrite G. pose proof (rbh_one_clears cd t st j h b G I L) as ONE.
    destruct (txn cd t b (TRbh h)) as [[b'|] res].
    + destruct res; try (rewrite rbh_loop_other by auto; exact ONE).
    + rewrite rbh_loop_other by auto. exact ONE.
  - destruct IN as [->|IN]; [contradiction|].
    destruct (get_block st j') as [b0|] eqn:G0; [|apply IH; auto].
    destruct (txn cd t b0 (TRbh h)) as [[b'|] res]; [|apply IH; auto].
    destruct res; try (apply IH; assumption).
    apply IH; auto.
    + change (get_block (store_after st j' b') j = Some b). rewrite get_store_after_other; auto.
    + change (j < length (cs_blocks (store_after st j' b')))%nat. unfold store_after.
      destruct (negb (get_aff st j') && blk_empty b'); simpl; rewrite set_nth_length; auto.
Qed.
