(* C21 — client level (cstep): the cooldown survives every client call, including the calls that delete blocks. *)
From Coq Require Import List NArith ZArith Bool Arith Lia.
From Verif.C21 Require Import Model Proofs ProofsRelease ProofsHist ProofsInv ProofsCool.
Import ListNotations.
Open Scope N_scope.

Local Arguments txn : simpl never.
Local Arguments gc : simpl never.
Local Arguments persist : simpl never.
Local Arguments blk_empty : simpl never.

Section ClientProofs.
  Variable bs : nat.
  Variable rsv : list nat.
  Variable strict autoalloc : bool.
  Variable epoch : N.
  Variable cd : Z.
  Variable t : N.
  Variable i o : nat.       (* the block slot and ordinal we follow *)
  Variable r : N.           (* its release stamp *)
  Hypothesis NC : cooled cd t (trunc_s r) = false.

  Definition cooling_at (st : cstate) : Prop :=
    exists b r', get_block st i = Some b /\ inv b /\ state_of b o = Cooling r' /\ trunc_s r' = trunc_s r.

  Lemma get_put_block st j x :
    get_block (put_block st j x) i = if Nat.eqb j i && Nat.ltb j (length (cs_blocks st)) then x else get_block st i.
  Proof. unfold get_block, put_block; simpl. apply nth_set_nth. Qed.

  Lemma cooling_not_empty b r' : state_of b o = Cooling r' -> blk_empty b = false.
  Proof.
    intros ST. unfold blk_empty. apply not_true_is_false. intros F. rewrite forallb_forall in F.
    unfold state_of, owner_of in ST. destruct (nth o (bk_allocs b) None) as [j|] eqn:N; [|discriminate].
    assert (IN : In (Some j) (bk_allocs b)).
    { rewrite <- N. apply nth_In. destruct (Nat.lt_ge_cases o (length (bk_allocs b))); auto.
      rewrite nth_overflow in N; [discriminate|auto]. }
    specialize (F _ IN). discriminate.
  Qed.

  (* writing the result of a transaction into slot j *)
  Lemma cooling_put st j b0 op b' : cooling_at st -> get_block st j = Some b0 ->
    fst (txn cd t b0 op) = Some b' -> cooling_at (put_block st j (Some b')).
  Proof.
    intros (b & r' & G & I & ST & TR) G0 E. unfold cooling_at. rewrite get_put_block.
    destruct (Nat.eqb j i && Nat.ltb j (length (cs_blocks st))) eqn:C.
    - apply andb_true_iff in C. destruct C as [C _]. apply Nat.eqb_eq in C; subst j.
      rewrite G in G0. inversion G0; subst b0.
      assert (B' : b' = txn_block cd t b op) by (unfold txn_block; rewrite E; auto).
      destruct (txn_keeps_cooling cd t b op o r' I ST) as (r2 & ST2 & TR2); [rewrite TR; auto|].
      exists b', r2. rewrite B'. split; [reflexivity|]. split; [apply inv_txn; auto|]. split; [exact ST2|]. rewrite TR2. exact TR.
    - exists b, r'. auto.
  Qed.

  Lemma cooling_store_after st j b0 op b' : cooling_at st -> get_block st j = Some b0 ->
    fst (txn cd t b0 op) = Some b' -> cooling_at (store_after st j b').
  Proof.
    intros CA G0 E. pose proof (cooling_put st j b0 op b' CA G0 E) as P.
    unfold store_after. destruct (negb (get_aff st j) && blk_empty b') eqn:D; auto.
    (* deletion: only possible for a slot other than ours *)
    destruct CA as (b & r' & G & I & ST & TR). unfold cooling_at. rewrite get_put_block.
    destruct (Nat.eqb j i && Nat.ltb j (length (cs_blocks st))) eqn:C; [|exists b, r'; auto].
    exfalso. destruct P as (b2 & r2 & G2 & _ & ST2 & _). rewrite get_put_block, C in G2. inversion G2; subst b2.
    apply andb_true_iff in D. destruct D as [_ D]. rewrite (cooling_not_empty _ _ ST2) in D. discriminate.
  Qed.

  Lemma cooling_handles st hs : cooling_at st -> cooling_at (put_handles st hs).
  Proof. auto. Qed.
  Lemma cooling_aff st j a : cooling_at st -> cooling_at (put_aff st j a).
  Proof. auto. Qed.

  Lemma auto_loop_keeps idxs : forall st h tag num got,
    cooling_at st -> cooling_at (fst (auto_loop bs rsv cd t idxs st h tag num got)).
  Proof.
    induction idxs as [|j idxs IH]; intros st h tag num got CA; simpl; auto.
    destruct (Nat.leb num (length got)); auto.
    destruct (get_aff st j); [|apply IH; auto].
    destruct (get_block st j) as [b0|] eqn:G0; [|apply IH; auto].
    destruct (txn cd t b0 (TAuto (Some h) tag (num - length got) (blk_rsv bs rsv j))) as [[b'|] res] eqn:E; [|apply IH; auto].
    destruct res; try (apply IH; exact CA). apply IH. apply cooling_handles.
    eapply cooling_put; eauto. rewrite E. auto.
  Qed.

  Lemma release_block_keeps st j rs : cooling_at st -> cooling_at (fst (release_block bs cd t st j rs)).
  Proof.
    intros CA. unfold release_block. destruct (get_block st j) as [b0|] eqn:G0; auto.
    match goal with |- context [txn cd t b0 ?op] => destruct (txn cd t b0 op) as [[b'|] res] eqn:E end.
    - destruct res; auto. destruct e; auto; simpl; apply cooling_handles; eapply cooling_store_after; eauto; rewrite E; auto.
    - destruct res; auto. destruct e; auto.
  Qed.

  Lemma release_loop_keeps idxs : forall st rs un rel e,
    cooling_at st -> cooling_at (fst (release_loop bs cd t idxs st rs un rel e)).
  Proof.
    induction idxs as [|j idxs IH]; intros st rs un rel e CA; simpl; auto.
    destruct (filter (fun q => Nat.eqb (rq_ord q / bs) j) rs) as [|q0 ql] eqn:M; [apply IH; auto|].
    rewrite <- M. pose proof (release_block_keeps st j (filter (fun q => Nat.eqb (rq_ord q / bs) j) rs) CA) as K.
    destruct (release_block bs cd t st j (filter (fun q => Nat.eqb (rq_ord q / bs) j) rs)) as [st' [u ok]].
    apply IH. auto.
  Qed.

  Lemma rbh_loop_keeps blks : forall st h, cooling_at st -> cooling_at (rbh_loop cd t blks st h).
  Proof.
    induction blks as [|j blks IH]; intros st h CA; simpl; auto.
    destruct (get_block st j) as [b0|] eqn:G0; [|apply IH; auto].
    destruct (txn cd t b0 (TRbh h)) as [[b'|] res] eqn:E; [|apply IH; auto].
    destruct res; try (apply IH; exact CA). apply IH. apply cooling_handles.
    eapply cooling_store_after; eauto. rewrite E; auto.
  Qed.

  (* Every client call - AutoAssign, AssignIP, multi-block ReleaseIPs, ReleaseByHandle, GarbageCollectColdIPs,
     ReleaseAffinity with or without mustBeEmpty - made at a clock reading that does not find the address cooled down
     leaves the block in existence and the address in cooldown.  In particular no deletion path forgets the record. *)
  Theorem cstep_keeps_cooling st op : cooling_at st ->
    cooling_at (fst (cstep bs rsv strict autoalloc epoch cd t st op)).
  Proof.
    intros CA. destruct op as [h tag num|h tag a|rs|h|j|j must]; simpl.
    - pose proof (auto_loop_keeps (seq 0 (length (cs_blocks st))) st h tag num [] CA) as K.
      destruct (auto_loop bs rsv cd t (seq 0 (length (cs_blocks st))) st h tag num []); auto.
    - destruct (get_block st (a / bs)) as [b0|] eqn:G0.
      + destruct (negb (get_aff st (a / bs)) && strict); auto.
        destruct (txn cd t b0 (TAssign (a - a / bs * bs) (Some h) tag)) as [[b'|] res] eqn:E.
        * simpl. apply cooling_handles. eapply cooling_put; eauto. rewrite E; auto.
        * destruct res; auto.
      + destruct (txn cd t (new_block bs (epoch + t)) (TAssign (a - a / bs * bs) (Some h) tag)) as [[b'|] res] eqn:E; auto.
        simpl. apply cooling_handles, cooling_aff.
        (* the slot being created is not ours: ours holds a block *)
        destruct CA as (b & r' & G & I & ST & TR). unfold cooling_at. rewrite get_put_block.
        destruct (Nat.eqb (a / bs) i && Nat.ltb (a / bs) (length (cs_blocks st))) eqn:C; [|exists b, r'; auto].
        apply andb_true_iff in C. destruct C as [C _]. apply Nat.eqb_eq in C. rewrite C in G0. congruence.
    - apply release_loop_keeps; auto.
    - destruct (hs_get (cs_handles st) h); auto. simpl. apply rbh_loop_keeps; auto.
    - destruct (get_block st j) as [b0|] eqn:G0; auto.
      destruct (txn cd t b0 TGC) as [[b'|] res] eqn:E; auto. simpl. eapply cooling_put; eauto. rewrite E; auto.
    - destruct (get_aff st j); auto. destruct (get_block st j) as [b0|] eqn:G0; auto.
      destruct (must && negb (blk_empty (gc cd t b0))); auto.
      destruct CA as (b & r' & G & I & ST & TR).
      assert (NC' : cooled cd t r' = false).
      { destruct (cooled cd t r') eqn:E; auto.
        pose proof (cooled_mono cd t r' (trunc_s r') (trunc_s_le r') E) as M. rewrite TR in M. congruence. }
      destruct (Nat.eqb j i && Nat.ltb j (length (cs_blocks st))) eqn:C.
      + assert (j = i) by (apply andb_true_iff in C; destruct C as [C _]; apply Nat.eqb_eq; auto). subst j.
        rewrite G in G0. inversion G0; subst b0.
        assert (ST1 : state_of (gc cd t b) o = Cooling r').
        { rewrite state_gc by (apply inv_valid; auto). rewrite ST. simpl. rewrite NC'. auto. }
        rewrite (cooling_not_empty _ _ ST1). simpl. apply cooling_aff. unfold cooling_at. rewrite get_put_block, C.
        exists (persist (gc cd t b)), (trunc_s r').
        split; [reflexivity|]. split; [apply inv_persist, inv_gc; auto|].
        split; [rewrite state_persist, ST1; auto|]. rewrite trunc_s_idem. auto.
      + destruct (blk_empty (gc cd t b0)); simpl; apply cooling_aff; unfold cooling_at; rewrite get_put_block, C;
          exists b, r'; auto.
  Qed.
End ClientProofs.

(* histories of client calls, each with its own clock reading and cooldown setting *)
Record cx := { cx_cd : Z; cx_t : N; cx_op : cop }.
Fixpoint crun (bs : nat) (rsv : list nat) (strict autoalloc : bool) (epoch : N) (h : list cx) (st : cstate) : cstate :=
  match h with
  | [] => st
  | x :: rest => crun bs rsv strict autoalloc epoch rest (fst (cstep bs rsv strict autoalloc epoch (cx_cd x) (cx_t x) st (cx_op x)))
  end.

Theorem client_cooldown_history bs rsv strict autoalloc epoch i o r : forall h st,
  cooling_at i o r st ->
  (forall x, In x h -> cooled (cx_cd x) (cx_t x) (trunc_s r) = false) ->
  cooling_at i o r (crun bs rsv strict autoalloc epoch h st).
Proof.
  induction h as [|x h IH]; intros st CA NC; simpl; auto.
  apply IH.
  - apply cstep_keeps_cooling; auto. apply NC; simpl; auto.
  - intros y IN. apply NC; simpl; auto.
Qed.
