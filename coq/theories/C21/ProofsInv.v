(* C21 — block invariant and the history-level cooldown theorem.
   inv b : attribute indices in range; Unallocated lists exactly free ordinals... (only "lists free ordinals, without
   duplicates" is needed here); cooldown attributes carry no handle. *)
From Coq Require Import List NArith ZArith Bool Arith Lia.
From Verif.C21 Require Import Model Proofs ProofsRelease ProofsHist.
Import ListNotations.
Open Scope N_scope.

Definition unalloc_free (b : block) : Prop := forall o, In o (bk_unalloc b) -> nth o (bk_allocs b) None = None.
Definition cool_nohandle (b : block) : Prop :=
  forall x, In x (bk_attrs b) -> at_rel x <> None -> at_handle x = None.
Record inv (b : block) : Prop := {
  inv_valid : valid b;
  inv_free : unalloc_free b;
  inv_nodup : NoDup (bk_unalloc b);
  inv_cool : cool_nohandle b
}.

Lemma inv_new size seq0 : inv (new_block size seq0).
Proof.
  split.
  - intros o j. unfold new_block; simpl. rewrite nth_repeat. discriminate.
  - intros o _. unfold new_block; simpl. apply nth_repeat.
  - apply seq_NoDup.
  - intros x [].
Qed.

Lemma NoDup_app_intro {A} (l1 l2 : list A) :
  NoDup l1 -> NoDup l2 -> (forall x, In x l1 -> In x l2 -> False) -> NoDup (l1 ++ l2).
Proof.
  induction l1 as [|a l1 IH]; simpl; intros N1 N2 D; auto. inversion N1; subst. constructor.
  - intros H. apply in_app_or in H. destruct H as [H|H]; [auto | eapply D; eauto].
  - apply IH; auto. intros; eapply D; eauto.
Qed.

(* ------------------------------------------------------------------ garbage collection *)
Lemma cold_not_free cd t b o : In o (cold_ords cd t b) -> nth o (bk_allocs b) None <> None.
Proof.
  unfold cold_ords. rewrite filter_In. intros [_ C] E. rewrite E in C. discriminate.
Qed.

Lemma kept_incl (used : nat -> bool) : forall (l : list attr) s x,
  In x (map snd (filter (fun p => used (fst p)) (combine (seq s (length l)) l))) -> In x l.
Proof.
  induction l as [|a l IH]; intros s x; simpl; auto.
  destruct (used s); simpl; intros H.
  - destruct H as [H|H]; auto. right. eapply IH; eauto.
  - right. eapply IH; eauto.
Qed.

Lemma inv_gc cd t b : inv b -> inv (gc cd t b).
Proof.
  intros [V U ND C]. split.
  - apply valid_gc; auto.
  - intros o IN. rewrite unalloc_gc in IN. unfold gc, compact, gc_free; simpl.
    rewrite nth_map_fix by reflexivity. rewrite nth_map_fix by reflexivity.
    apply in_app_or in IN. destruct IN as [IN|IN].
    + rewrite (U o IN). reflexivity.
    + unfold cold_ords in IN. apply filter_In in IN. destruct IN as [_ CO]. rewrite CO. reflexivity.
  - rewrite unalloc_gc. apply NoDup_app_intro.
    + auto.
    + unfold cold_ords. apply NoDup_filter, seq_NoDup.
    + intros x I1 I2. apply cold_not_free in I2. apply I2, U; auto.
  - intros x IN. unfold gc, compact in IN; simpl in IN. apply kept_incl in IN. apply C; auto.
Qed.

(* ------------------------------------------------------------------ findOrAddAttribute *)
Lemma find_attr_bound attrs a : forall i0 i, find_attr attrs a i0 = Some i -> (i0 <= i < i0 + length attrs)%nat.
Proof.
  induction attrs as [|x l IH]; simpl; intros i0 i; [discriminate|].
  destruct (attr_eqb x a).
  - intros X; inversion X; lia.
  - intros X. apply IH in X. lia.
Qed.

Lemma find_or_add_shape attrs a attrs' idx : find_or_add_attr attrs a = (attrs', idx) ->
  (attrs' = attrs \/ attrs' = attrs ++ [a]) /\ (idx < length attrs')%nat.
Proof.
  unfold find_or_add_attr. destruct (find_attr attrs a 0) eqn:E; intros X; inversion X; subst.
  - split; auto. apply find_attr_bound in E. lia.
  - split; auto. rewrite app_length; simpl; lia.
Qed.

Lemma prefix_nth_error (attrs attrs' : list attr) a j :
  (attrs' = attrs \/ attrs' = attrs ++ [a]) -> (j < length attrs)%nat -> nth_error attrs' j = nth_error attrs j.
Proof. intros [->| ->] L; auto. apply nth_error_app1; auto. Qed.

(* ------------------------------------------------------------------ take_free on a duplicate-free queue *)
Lemma take_free_disjoint rsv : forall un num x,
  NoDup un -> In x (fst (take_free rsv num un)) -> In x (snd (take_free rsv num un)) -> False.
Proof.
  induction un as [|o un IH]; intros num x ND; simpl; [tauto|].
  inversion ND as [|? ? NI ND']; subst.
  destruct num as [|n]; simpl; [tauto|].
  destruct (memb o rsv).
  - pose proof (take_free_taken_incl rsv un (S n) x) as TI.
    specialize (IH (S n) x ND'). destruct (take_free rsv (S n) un) as [tk rm]; simpl in *.
    intros I1 [->|I2]; auto.
  - pose proof (take_free_rest_incl rsv un n x) as RI.
    specialize (IH n x ND'). destruct (take_free rsv n un) as [tk rm]; simpl in *.
    intros [->|I1] I2; auto.
Qed.

Lemma take_free_rest_nodup rsv : forall un num, NoDup un -> NoDup (snd (take_free rsv num un)).
Proof.
  induction un as [|o un IH]; intros num ND; simpl; [constructor|].
  inversion ND as [|? ? NI ND']; subst.
  destruct num as [|n]; simpl; auto.
  destruct (memb o rsv).
  - pose proof (take_free_rest_incl rsv un (S n) o) as RI.
    specialize (IH (S n) ND'). destruct (take_free rsv (S n) un) as [tk rm]; simpl in *. constructor; auto.
  - specialize (IH n ND'). destruct (take_free rsv n un) as [tk rm]; simpl in *. auto.
Qed.

(* ------------------------------------------------------------------ autoAssign *)
Lemma inv_auto b num h tag rsv : inv b -> inv (fst (blk_auto_assign b num h tag rsv)).
Proof.
  intros [V U ND C]. unfold blk_auto_assign.
  pose proof (take_free_disjoint rsv (bk_unalloc b) num) as DJ.
  pose proof (take_free_rest_nodup rsv (bk_unalloc b) num ND) as RN.
  pose proof (take_free_rest_incl rsv (bk_unalloc b) num) as RI.
  destruct (take_free rsv num (bk_unalloc b)) as [tk rm]. simpl in *.
  destruct tk as [|x0 tk0] eqn:ETK; [split; auto|]. rewrite <- ETK in *.
  destruct (find_or_add_attr (bk_attrs b) (live_attr h tag)) as [attrs idx] eqn:FA.
  destruct (find_or_add_shape _ _ _ _ FA) as [SH LT]. simpl.
  split; unfold valid, unalloc_free, cool_nohandle; simpl.
  - intros o j. rewrite nth_fold_set.
    destruct (memb o tk && Nat.ltb o (length (bk_allocs b))).
    + intros X; inversion X; subst; auto.
    + intros X. apply V in X. destruct SH as [->| ->]; auto. rewrite app_length; lia.
  - intros o IN. rewrite nth_fold_set.
    destruct (memb o tk) eqn:M; simpl.
    + exfalso. apply memb_In in M. eapply DJ; eauto.
    + apply U, RI; auto.
  - auto.
  - intros x IN. destruct SH as [->| ->]; [apply C; auto|].
    apply in_app_or in IN. destruct IN as [IN|[<-|[]]]; [apply C; auto|]. simpl. tauto.
Qed.

Lemma state_auto b num h tag rsv o r : inv b -> state_of b o = Cooling r ->
  state_of (fst (blk_auto_assign b num h tag rsv)) o = Cooling r.
Proof.
  intros [V U ND C] ST. unfold blk_auto_assign.
  pose proof (take_free_taken_incl rsv (bk_unalloc b) num o) as TI.
  destruct (take_free rsv num (bk_unalloc b)) as [tk rm]. simpl in *.
  destruct tk as [|x0 tk0] eqn:ETK; auto. rewrite <- ETK in *.
  destruct (find_or_add_attr (bk_attrs b) (live_attr h tag)) as [attrs idx] eqn:FA.
  destruct (find_or_add_shape _ _ _ _ FA) as [SH LT]. simpl.
  unfold state_of, owner_of in *; simpl. rewrite nth_fold_set.
  destruct (memb o tk) eqn:M; simpl.
  - apply memb_In in M. rewrite (U o (TI M)) in ST. discriminate.
  - destruct (nth o (bk_allocs b) None) as [j|] eqn:N; auto.
    rewrite (prefix_nth_error _ _ _ _ SH); auto. eapply V; eauto.
Qed.

(* ------------------------------------------------------------------ assign *)
Lemma remove_first_spec o : forall l x, NoDup l -> In x (remove_first o l) -> x <> o /\ In x l.
Proof.
  induction l as [|a l IH]; simpl; intros x ND; [tauto|].
  inversion ND as [|? ? NI ND']; subst.
  destruct (Nat.eqb a o) eqn:E.
  - apply Nat.eqb_eq in E; subst. intros IN. split; auto. intros ->. contradiction.
  - intros [->|IN]; [split; auto; apply Nat.eqb_neq; auto|]. destruct (IH x ND' IN). auto.
Qed.
Lemma remove_first_nodup o : forall l, NoDup l -> NoDup (remove_first o l).
Proof.
  induction l as [|a l IH]; simpl; intros ND; auto.
  inversion ND as [|? ? NI ND']; subst.
  destruct (Nat.eqb a o); auto. constructor; auto. intros IN. apply remove_first_incl in IN. contradiction.
Qed.

Lemma inv_assign b o h tag : inv b -> inv (fst (blk_assign b o h tag)).
Proof.
  intros [V U ND C]. unfold blk_assign.
  destruct (Nat.leb (bsize b) o); [split; auto|].
  destruct (nth o (bk_allocs b) None) eqn:NO; [split; auto|].
  destruct (find_or_add_attr (bk_attrs b) (live_attr h tag)) as [attrs idx] eqn:FA.
  destruct (find_or_add_shape _ _ _ _ FA) as [SH LT]. simpl.
  split; unfold valid, unalloc_free, cool_nohandle; simpl.
  - intros o' j. rewrite nth_set_nth.
    destruct (Nat.eqb o o' && Nat.ltb o (length (bk_allocs b))).
    + intros X; inversion X; subst; auto.
    + intros X. apply V in X. destruct SH as [->| ->]; auto. rewrite app_length; lia.
  - intros x IN. destruct (remove_first_spec o _ x ND IN) as [NE IN']. rewrite nth_set_nth.
    destruct (Nat.eqb o x) eqn:E; [apply Nat.eqb_eq in E; congruence|]. simpl. auto.
  - apply remove_first_nodup; auto.
  - intros x IN. destruct SH as [->| ->]; [apply C; auto|].
    apply in_app_or in IN. destruct IN as [IN|[<-|[]]]; [apply C; auto|]. simpl. tauto.
Qed.

Lemma state_assign b o' h tag o r : inv b -> state_of b o = Cooling r ->
  state_of (fst (blk_assign b o' h tag)) o = Cooling r.
Proof.
  intros [V U ND C] ST. unfold blk_assign.
  destruct (Nat.leb (bsize b) o'); auto.
  destruct (nth o' (bk_allocs b) None) eqn:NO; auto.
  destruct (find_or_add_attr (bk_attrs b) (live_attr h tag)) as [attrs idx] eqn:FA.
  destruct (find_or_add_shape _ _ _ _ FA) as [SH LT]. simpl.
  unfold state_of, owner_of in *; simpl. rewrite nth_set_nth.
  destruct (Nat.eqb o' o) eqn:E; simpl.
  - apply Nat.eqb_eq in E; subst. rewrite NO in ST. discriminate.
  - destruct (nth o (bk_allocs b) None) as [j|] eqn:N; auto.
    rewrite (prefix_nth_error _ _ _ _ SH); auto. eapply V; eauto.
Qed.

(* ------------------------------------------------------------------ marking, persistence *)
Lemma inv_mark b t ords rs : inv b -> (forall o, In o ords -> nth o (bk_allocs b) None <> None) ->
  inv (mark_released b t ords rs).
Proof.
  intros [V U ND C] LIVE. split.
  - apply valid_mark; auto.
  - intros o IN. unfold mark_released; simpl. rewrite nth_fold_set.
    destruct (memb o ords) eqn:M; simpl; [|apply U; auto].
    apply memb_In in M. exfalso. apply (LIVE o M), U; auto.
  - auto.
  - intros x IN. unfold mark_released in IN; simpl in IN.
    apply in_app_or in IN. destruct IN as [IN|[<-|[]]]; [apply C; auto|]. auto.
Qed.

Lemma owner_ser b o : owner_of (ser b) o = option_map ser_attr (owner_of b o).
Proof.
  unfold owner_of, ser; simpl. destruct (nth o (bk_allocs b) None); auto. apply nth_error_map.
Qed.
Lemma state_persist b o :
  state_of (persist b) o = match state_of b o with Cooling r => Cooling (trunc_s r) | s => s end.
Proof.
  unfold persist, state_of. rewrite owner_ser. unfold owner_of, bump; simpl.
  destruct (nth o (bk_allocs b) None); auto.
  destruct (nth_error (bk_attrs b) n) as [x|]; simpl; auto. destruct (at_rel x); auto.
Qed.
Lemma inv_persist b : inv b -> inv (persist b).
Proof.
  intros [V U ND C]. split.
  - intros o j X. unfold persist, ser, bump in *; simpl in *. rewrite map_length. eapply V; eauto.
  - exact U.
  - exact ND.
  - intros x IN. unfold persist, ser, bump in IN; simpl in IN. apply in_map_iff in IN.
    destruct IN as (y & <- & IN). simpl. intros R. apply C; auto. destruct (at_rel y); [discriminate | exact R].
Qed.
