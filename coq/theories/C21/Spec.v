(* C21 — specification level.
   Property text: "A release that names a stale sequence number or a different handle never frees the address,
   releasing an already released address is a harmless no-op, a released address is not handed out again until
   its cooldown has passed, freed addresses are reused longest-free first, and release by handle frees exactly
   that handle's addresses."

   The oracle ok_step reads ONLY what the implementation showed: the block before the operation, the operation
   with its arguments, the clock, the configured cooldown, the block after the operation and the returned lists.
   It does not run the model.  Per operation and block it demands:
     (wf)    the block is well formed: Unallocated has no duplicates and is exactly the set of free ordinals, a free
             ordinal has no sequence number;
     (auth)  an address that was LIVE (owned) stays owned by the same handle with the same sequence number unless the
             operation is a release naming it whose handle (if given) is the owner and whose sequence number (if
             given) is the stored one, or a release-by-handle of the owner's handle; a released address is stamped
             with the time of the release (to the datastore's one-second precision once written);
     (rej)   a release request containing a stale sequence number or a wrong handle for a live address fails as a
             whole with a conflict error and changes nothing in the block; a request without such an entry does
             not fail;
     (idem)  a successful release reports exactly the requested addresses that were not live (free or cooling) as
             "not allocated", and does nothing to them;
     (cool)  an address in cooldown, released at r, leaves that state (becomes free or owned) only in an operation
             whose clock t satisfies r + cooldown < t (or when the configured cooldown is negative);
     (fifo)  Unallocated afterwards = (Unallocated before ++ the ordinals freed by this operation, ascending) minus the
             ordinals handed out, order preserved; auto-assign hands out exactly the first eligible (= not reserved)
             ordinals of that list, in that order;
     (byh)   release by handle turns every address of that handle (with the given sequence number, if any) non-live
             and reports their number;
     (seq)   the block SequenceNumber never decreases and grows by one with every write; a newly handed out ordinal
             carries the SequenceNumber current at the hand-out, which is >= (> when every operation is a datastore
             transaction) every number the ordinal carried in an earlier allocation. *)
From Coq Require Import List NArith ZArith Bool Arith.
From Verif.C21 Require Import Model.
Import ListNotations.
Open Scope N_scope.

(* ------------------------------------------------------------------ observations *)
Record bobs := { bo_t : N; bo_cd : Z; bo_op : bop; bo_blk : block; bo_res : bres }.
Record cobs := { co_t : N; co_cd : Z; co_op : cop; co_blocks : list (option block); co_affs : list bool;
                 co_handles : list (N * hmap); co_res : cres }.
Inductive case :=
| BlockCase (size : nat) (seq0 : N) (obs : list bobs)
| ClientCase (bs : nat) (rsv : list nat) (strict autoalloc : bool) (epoch : N) (init : list (option block)) (obs : list cobs).

Definition cnt_eqb (x y : N * nat) : bool := N.eqb (fst x) (fst y) && Nat.eqb (snd x) (snd y).
Definition bres_eqb (a b : bres) : bool :=
  match a, b with
  | ResAuto x, ResAuto y => list_eqb Nat.eqb x y
  | ResErr e, ResErr f => err_eqb e f
  | ResRel u c e, ResRel u' c' e' => list_eqb Nat.eqb u u' && list_eqb cnt_eqb c c' && err_eqb e e'
  | ResCount n, ResCount m => Nat.eqb n m
  | ResChanged c, ResChanged d => Bool.eqb c d
  | ResNone, ResNone => true
  | _, _ => false
  end.
Definition cres_eqb (a b : cres) : bool :=
  match a, b with
  | CResIPs x e, CResIPs y f => list_eqb Nat.eqb x y && err_eqb e f
  | CResErr e, CResErr f => err_eqb e f
  | CResRel u r e, CResRel u' r' e' => list_eqb Nat.eqb u u' && list_eqb Nat.eqb r r' && err_eqb e e'
  | _, _ => false
  end.
Definition hm_eqb (x y : nat * N) : bool := Nat.eqb (fst x) (fst y) && N.eqb (snd x) (snd y).
Definition hs_eqb (x y : N * hmap) : bool := N.eqb (fst x) (fst y) && list_eqb hm_eqb (snd x) (snd y).

(* ------------------------------------------------------------------ model side of the comparison *)
Fixpoint block_run (b : block) (os : list bobs) (i : nat) : option nat :=
  match os with
  | [] => None
  | o :: rest =>
      let '(b', r) := bstep (bo_cd o) (bo_t o) b (bo_op o) in
      if block_eqb b' (bo_blk o) && bres_eqb r (bo_res o) then block_run b' rest (S i) else Some i
  end.
Definition oblock_eqb (a b : option block) : bool :=
  match a, b with Some x, Some y => block_eqb x y | None, None => true | _, _ => false end.
Fixpoint client_run (bs : nat) (rsv : list nat) (strict autoalloc : bool) (epoch : N) (st : cstate) (os : list cobs) (i : nat)
  : option nat :=
  match os with
  | [] => None
  | o :: rest =>
      let '(st', r) := cstep bs rsv strict autoalloc epoch (co_cd o) (co_t o) st (co_op o) in
      if list_eqb oblock_eqb (cs_blocks st') (co_blocks o) && list_eqb Bool.eqb (cs_aff st') (co_affs o)
         && list_eqb hs_eqb (cs_handles st') (co_handles o) && cres_eqb r (co_res o)
      then client_run bs rsv strict autoalloc epoch st' rest (S i) else Some i
  end.
(* index of the first operation after which model and implementation differ *)
Definition first_bad (c : case) : option nat :=
  match c with
  | BlockCase size seq0 obs => block_run (new_block size seq0) obs 0
  | ClientCase bs rsv strict autoalloc epoch init obs =>
      client_run bs rsv strict autoalloc epoch {| cs_blocks := init; cs_aff := map (fun _ => true) init; cs_handles := [] |} obs 0
  end.
Definition model_agrees (c : case) : bool := match first_bad c with None => true | Some _ => false end.

(* ------------------------------------------------------------------ the oracle *)
Fixpoint nodupb (l : list nat) : bool :=
  match l with [] => true | a :: t => negb (memb a t) && nodupb t end.

Definition wf_block_b (b : block) : bool :=
  let n := bsize b in
  nodupb (bk_unalloc b)
  && forallb (fun o => Nat.ltb o n) (bk_unalloc b)
  && forallb (fun o => Bool.eqb (match state_of b o with Free => true | _ => false end) (memb o (bk_unalloc b))
                       && (match nth o (bk_allocs b) None with
                           | Some i => Nat.ltb i (length (bk_attrs b))
                           | None => N.eqb (seq_of b o) 0
                           end)) (seq 0 n).

(* what the operation was, as far as one block is concerned *)
Inductive okind :=
| KAuto (h : option N) (tag : N) (rsv : list nat) (got : list nat)
| KAssign (o : nat) (h : option N) (tag : N) (e : err)
| KRelease (rs : list req) (res : option (list nat))      (* Some: not-allocated ordinals (sorted); None: failed *)
| KRbh (h : N) (sq : option N) (n : option nat)
| KGC
| KRelAff            (* releaseBlockAffinity: garbage collection, the affinity is cleared or the block deleted *)
| KPersist
| KNone.

Definition ostate_eqb (a b : ostate) : bool :=
  match a, b with
  | Free, Free => true
  | Live h t, Live h' t' => optN_eqb h h' && N.eqb t t'
  | Cooling r, Cooling r' => N.eqb r r'
  | _, _ => false
  end.

Section Step.
  Variable txnmode : bool.   (* true: the operation is a datastore transaction (read, blockFromBackend's GC, op, write) *)
  Variable cd : Z.
  Variable t : N.
  Variable pb nb : block.
  Variable k : okind.

  (* the state / sequence number the operation itself sees: in a transaction the block is garbage collected first *)
  Definition pre_freed (o : nat) : bool :=
    txnmode && match state_of pb o with Cooling r => cooled cd t r | _ => false end.
  Definition pre_state (o : nat) : ostate := if pre_freed o then Free else state_of pb o.
  Definition pre_seq (o : nat) : N := if pre_freed o then 0 else seq_of pb o.

  Definition eff_reqs : list req := match k with KRelease rs _ => dedup_last rs | _ => [] end.

  Definition req_stale (r : req) : bool :=
    match rq_seq r with Some s => negb (N.eqb s (pre_seq (rq_ord r))) | None => false end.
  Definition req_wrong_handle (r : req) : bool :=
    match pre_state (rq_ord r), rq_handle r with
    | Live oh _, Some h => negb (optN_eqb oh (Some h))
    | _, _ => false
    end.
  Definition req_bad (r : req) : bool :=
    Nat.leb (bsize pb) (rq_ord r) || req_stale r || req_wrong_handle r.

  (* may this operation take ordinal o away from its owner oh (stored sequence number s)? *)
  Definition may_free (o : nat) (oh : option N) (s : N) : bool :=
    match k with
    | KRelease _ (Some _) =>
        existsb (fun r => Nat.eqb (rq_ord r) o
                          && match rq_handle r with Some h => optN_eqb oh (Some h) | None => true end
                          && match rq_seq r with Some s' => N.eqb s' s | None => true end) eff_reqs
    | KRbh h sq _ => optN_eqb oh (Some h) && match sq with Some s' => N.eqb s' s | None => true end
    | _ => false
    end.
  Definition may_take (o : nat) (h : option N) (tag : N) : bool :=
    match k with
    | KAuto h' tag' _ got => memb o got && optN_eqb h h' && N.eqb tag tag'
    | KAssign o' h' tag' ENone => Nat.eqb o o' && optN_eqb h h' && N.eqb tag tag'
    | _ => false
    end.
  Definition stamp_ok (r : N) : bool := if txnmode then N.eqb r (trunc_s t) else N.eqb r t.
  Definition gc_possible : bool := match k with KPersist | KNone | KAuto _ _ _ _ | KAssign _ _ _ _ => txnmode | _ => true end.

  (* (auth) (cool) (seq) for one ordinal *)
  Definition ord_ok (o : nat) : bool :=
    match state_of pb o, state_of nb o with
    | Free, Free => true
    | Free, Live h tag => may_take o h tag && N.eqb (seq_of nb o) (bk_seq pb)
    | Free, Cooling _ => false
    | Live h tag, Live h' tag' =>
        optN_eqb h h' && N.eqb tag tag'
        && (N.eqb (seq_of nb o) (seq_of pb o)
            || match k with KAssign o' _ _ EExists => negb txnmode && Nat.eqb o o' | _ => false end)
    | Live h _, Cooling r => may_free o h (seq_of pb o) && stamp_ok r
    | Live h _, Free => may_free o h (seq_of pb o) && cooled cd t t
    | Cooling r, Cooling r' => N.eqb r' r || N.eqb r' (trunc_s r)
    | Cooling r, Free => cooled cd t r && gc_possible
    | Cooling r, Live h tag => cooled cd t r && gc_possible && may_take o h tag && N.eqb (seq_of nb o) (bk_seq pb)
    end.

  Definition ords : list nat := seq 0 (bsize pb).
  (* ordinals freed by this operation, in the order garbage collection appends them: one ascending pass; in a
     transaction the pass of blockFromBackend (cooled-down ordinals) precedes the pass that follows the release *)
  Definition freed_cool : list nat :=
    filter (fun o => match state_of pb o, state_of nb o with
                     | Cooling _, Free | Cooling _, Live _ _ => true
                     | _, _ => false end) ords.
  Definition freed_live : list nat :=
    filter (fun o => match state_of pb o, state_of nb o with Live _ _, Free => true | _, _ => false end) ords.
  Definition freed : list nat :=
    if txnmode then freed_cool ++ freed_live else sort_nat (freed_cool ++ freed_live).
  Definition taken : list nat :=
    filter (fun o => match state_of pb o, state_of nb o with
                     | Free, Live _ _ | Cooling _, Live _ _ => true
                     | _, _ => false end) ords.
  Definition elig : list nat := bk_unalloc pb ++ freed.

  Definition fifo_ok : bool :=
    list_eqb Nat.eqb (bk_unalloc nb) (filter (fun o => negb (memb o taken)) elig)
    && match k with
       | KAuto _ _ rsv got =>
           list_eqb Nat.eqb got (firstn (length got) (filter (fun o => negb (memb o rsv)) elig))
           && list_eqb Nat.eqb (sort_nat got) taken
       | _ => true
       end.

  Definition result_ok : bool :=
    match k with
    | KRelease rs res =>
        let bad := existsb req_bad eff_reqs in
        match res with
        | None => bad && block_eqb nb pb
        | Some un =>
            negb bad
            && list_eqb Nat.eqb un
                 (sort_nat (map rq_ord (filter (fun r => match pre_state (rq_ord r) with Live _ _ => false | _ => true end) eff_reqs)))
            && forallb (fun r => negb (is_live nb (rq_ord r))) eff_reqs
        end
    | KRbh h sq n =>
        let mine := filter (fun o => match pre_state o with
                                     | Live oh _ => optN_eqb oh (Some h)
                                                    && match sq with Some s => N.eqb s (pre_seq o) | None => true end
                                     | _ => false end) ords in
        forallb (fun o => negb (is_live nb o)) mine
        && match n with Some n' => Nat.eqb n' (length mine) | None => true end
    | KAssign o h tag e =>
        match e with
        | ENone => match state_of nb o with Live h' tag' => optN_eqb h h' && N.eqb tag tag' | _ => false end
        | EExists => match pre_state o with Free => false | _ => true end
        | _ => true
        end
    | KNone => block_eqb nb pb
    | _ => true
    end.

  Definition seq_ok : bool :=
    if txnmode then (if block_eqb nb pb then true else N.eqb (bk_seq nb) (bk_seq pb + 1))
    else match k with KPersist => N.eqb (bk_seq nb) (bk_seq pb + 1) | _ => N.eqb (bk_seq nb) (bk_seq pb) end.

  Definition ok_step : bool :=
    Nat.eqb (bsize nb) (bsize pb) && wf_block_b nb && forallb ord_ok ords && fifo_ok && result_ok && seq_ok.

  (* ordinals newly handed out by this step, with their sequence number *)
  Definition new_allocs : list (nat * N) := map (fun o => (o, seq_of nb o)) taken.
End Step.

(* (seq), history part: hist o = largest sequence number an allocation of o ever carried *)
Definition hist_ok (strict : bool) (hist : list (nat * N)) (news : list (nat * N)) : bool :=
  forallb (fun p => match find (fun q => Nat.eqb (fst q) (fst p)) hist with
                    | Some q => if strict then N.ltb (snd q) (snd p) else N.leb (snd q) (snd p)
                    | None => true end) news.
Definition hist_upd (hist news : list (nat * N)) : list (nat * N) :=
  fold_left (fun h p => seqs_set h (fst p) (snd p)) news hist.

Definition bkind (o : bop) (r : bres) : okind :=
  match o, r with
  | BAuto h tag _ rsv, ResAuto got => KAuto h tag rsv got
  | BAssign o h tag, ResErr e => KAssign o h tag e
  | BRelease rs, ResRel un _ ENone => KRelease rs (Some un)
  | BRelease rs, ResRel _ _ _ => KRelease rs None
  | BRbh h sq, ResCount n => KRbh h sq (Some n)
  | BGC, _ => KGC
  | BPersist, _ => KPersist
  | _, _ => KNone
  end.

Fixpoint block_oracle (pb : block) (hist : list (nat * N)) (os : list bobs) : bool :=
  match os with
  | [] => true
  | o :: rest =>
      let k := bkind (bo_op o) (bo_res o) in
      let nb := bo_blk o in
      let news := new_allocs pb nb in
      ok_step false (bo_cd o) (bo_t o) pb nb k
      && hist_ok false hist news
      && match bo_op o, bo_res o with
         | BAuto _ _ num _, ResAuto got => Nat.leb (length got) num
         | BGC, ResChanged c => Bool.eqb c (negb (block_eqb nb pb))
         | _, _ => true
         end
      && block_oracle nb (hist_upd hist news) rest
  end.

(* client stream: one client call, seen from block i (ordinals are pool offsets minus i*bs) *)
Section ClientKind.
  Variable bs : nat.
  Variable rsv : list nat.
  Definition in_blk (i a : nat) : bool := Nat.eqb (a / bs) i.
  Definition loc (i a : nat) : nat := (a - i * bs)%nat.
  Definition ckind (i : nat) (o : cop) (r : cres) : okind :=
    match o, r with
    | CAuto h tag _, CResIPs got _ =>
        KAuto (Some h) tag (map (loc i) (filter (in_blk i) rsv)) (map (loc i) (filter (in_blk i) got))
    | CAssignIP h tag a, CResErr e => if in_blk i a then KAssign (loc i a) (Some h) tag e else KNone
    | CRelease rs, CResRel un rel _ =>
        let mine := filter (fun r => in_blk i (rq_ord r)) rs in
        match mine with
        | [] => KNone
        | r0 :: _ =>
            KRelease (map (fun r => {| rq_ord := loc i (rq_ord r); rq_handle := rq_handle r; rq_seq := rq_seq r |}) mine)
                     (if memb (rq_ord r0) rel then Some (map (loc i) (filter (in_blk i) un)) else None)
        end
    | CRbh h, CResErr ENone => KRbh h None None
    | CRbh h, CResErr ENotFound => KRbh h None (Some O)
    | CGC j, _ => if Nat.eqb i j then KGC else KNone
    | CRelAff j _, CResErr ENone => if Nat.eqb i j then KRelAff else KNone
    | _, _ => KNone
    end.
End ClientKind.

Fixpoint zip3 {A B C} (l1 : list A) (l2 : list B) (l3 : list C) : list (A * B * C) :=
  match l1, l2, l3 with
  | a :: t1, b :: t2, c :: t3 => (a, b, c) :: zip3 t1 t2 t3
  | _, _, _ => []
  end.

(* one block slot across one client call.  A block may disappear only when nothing in it is live or still cooling
   down (the cooldown record lives in the block); a block may appear only freshly created (all free) by the very
   call that assigns an address in it. *)
Definition slot_ok (bs : nat) (cd : Z) (t : N) (k : okind) (hist : list (nat * N)) (pb nb : option block) : bool :=
  match pb, nb with
  | Some p, Some n => ok_step true cd t p n k && hist_ok true hist (new_allocs p n)
  | Some p, None =>
      let v := new_block (bsize p) 0 in
      match k with
      | KRelease _ (Some _) | KRbh _ _ _ | KRelAff => forallb (ord_ok true cd t p v k) (ords p) && result_ok true cd t p v k
      | _ => false
      end
  | None, Some n =>
      let p := new_block bs (bk_seq n - 1) in
      match k with
      | KAssign _ _ _ ENone => Nat.eqb (bsize n) bs && ok_step true cd t p n k && hist_ok true hist (new_allocs p n)
      | _ => false
      end
  | None, None => true
  end.
Definition slot_hist (bs : nat) (hist : list (nat * N)) (pb nb : option block) : list (nat * N) :=
  match pb, nb with
  | Some p, Some n => hist_upd hist (new_allocs p n)
  | None, Some n => hist_upd hist (new_allocs (new_block bs (bk_seq n - 1)) n)
  | _, _ => hist
  end.

Fixpoint client_oracle (bs : nat) (rsv : list nat) (pbs : list (option block)) (hists : list (list (nat * N))) (os : list cobs) : bool :=
  match os with
  | [] => true
  | o :: rest =>
      let nbs := co_blocks o in
      let idx := seq 0 (length pbs) in
      Nat.eqb (length nbs) (length pbs)
      && forallb (fun x => let '(i, pb, nb) := x in
                           slot_ok bs (co_cd o) (co_t o) (ckind bs rsv i (co_op o) (co_res o)) (nth i hists []) pb nb)
                 (zip3 idx pbs nbs)
      && match co_op o, co_res o with
         | CAuto _ _ num, CResIPs got e => Nat.leb (length got) num
         | CRelease rs, CResRel un rel e =>
             (* the error is reported iff some block's request failed; released = options of the blocks that did not fail *)
             Bool.eqb (err_eqb e ENone) (forallb (fun r => memb (rq_ord r) rel) rs)
             && forallb (fun a => existsb (fun r => Nat.eqb (rq_ord r) a) rs) rel
             && forallb (fun a => memb a rel) un
         | _, _ => true
         end
      && client_oracle bs rsv nbs
           (map (fun x => let '(i, pb, nb) := x in slot_hist bs (nth i hists []) pb nb) (zip3 idx pbs nbs)) rest
  end.

Definition ok_trace (c : case) : bool :=
  match c with
  | BlockCase size seq0 obs => block_oracle (new_block size seq0) [] obs
  | ClientCase bs rsv _ _ _ init obs =>
      forallb (fun b => match b with Some b' => wf_block_b b' | None => true end) init
      && client_oracle bs rsv init (map (fun _ => []) init) obs
  end.

Definition check_case (c : case) : bool * bool := (model_agrees c, ok_trace c).
