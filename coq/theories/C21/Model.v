(* C21 — executable model of IPAM release / cooldown / FIFO reuse / block deletion (libcalico-go/lib/ipam/ipam_block.go, ipam.go).
   Definitions only (no proofs).

   * block mirrors model.AllocationBlock: Allocations (per ordinal: index into Attributes), Unallocated (FIFO of
     free ordinals), Attributes (handle, owner attributes, ReleasedAt), SequenceNumber and
     SequenceNumberForAllocation.  An ordinal is FREE (no attribute), LIVE (attribute without ReleasedAt) or
     COOLING (attribute with ReleasedAt = the time of the release).
   * the clock is an explicit parameter t of every operation (nanoseconds since the start of the run); the
     configured IPCooldownSeconds is an explicit parameter cd (a Z: negative = no cooldown at all).
     release / releaseByHandle read the clock twice (stamp, then garbage collection); both reads are t.
   * block operations: new_block, blk_auto_assign (FIFO over Unallocated skipping reserved ordinals), blk_assign,
     blk_release (ReleaseOptions = address, optional handle, optional sequence number; Go map iteration order of
     the de-duplicated request is the order of the list handed in), blk_release_by_handle, gc (garbageCollect:
     cooled-down ordinals are freed in ordinal order and APPENDED to Unallocated, unused attributes are compacted),
     bump (updateBlock: SequenceNumber++), ser (what a datastore round trip does to a block: metav1.Time is
     serialised with one-second precision, so ReleasedAt is truncated to whole seconds).
   * txn: what one client call does to one stored block: read -> gc (blockFromBackend) -> operation -> if the
     operation decides to write: bump, serialise.  A compare-and-swap write is atomic, so the history of a stored
     block under any number of concurrent clients is a sequence of txn's (with each client's own clock reading).
   * client level (sequential, domain of the correspondence run): one IPv4 pool, one host owning every block of
     the pool (affinities claimed up front), IP reservations as a set of addresses, handles as in C19. *)
From Coq Require Import List NArith ZArith Bool Arith.
Import ListNotations.
Open Scope N_scope.

(* ------------------------------------------------------------------ values *)
Record attr := { at_handle : option N; at_tag : N; at_rel : option N }.

Record block := {
  bk_allocs : list (option nat);     (* per ordinal: index into bk_attrs, or None = free *)
  bk_unalloc : list nat;             (* FIFO of free ordinals *)
  bk_attrs : list attr;
  bk_seq : N;                        (* SequenceNumber *)
  bk_seqs : list (nat * N)           (* SequenceNumberForAllocation, sorted by ordinal *)
}.

Definition optN_eqb (a b : option N) : bool :=
  match a, b with Some x, Some y => N.eqb x y | None, None => true | _, _ => false end.
Definition optnat_eqb (a b : option nat) : bool :=
  match a, b with Some x, Some y => Nat.eqb x y | None, None => true | _, _ => false end.
Definition attr_eqb (a b : attr) : bool :=
  optN_eqb (at_handle a) (at_handle b) && N.eqb (at_tag a) (at_tag b) && optN_eqb (at_rel a) (at_rel b).
Fixpoint list_eqb {A} (eq : A -> A -> bool) (l1 l2 : list A) : bool :=
  match l1, l2 with
  | [], [] => true
  | a :: t1, b :: t2 => eq a b && list_eqb eq t1 t2
  | _, _ => false
  end.
Definition seqp_eqb (x y : nat * N) : bool := Nat.eqb (fst x) (fst y) && N.eqb (snd x) (snd y).
Definition block_eqb (a b : block) : bool :=
  list_eqb optnat_eqb (bk_allocs a) (bk_allocs b) && list_eqb Nat.eqb (bk_unalloc a) (bk_unalloc b)
  && list_eqb attr_eqb (bk_attrs a) (bk_attrs b) && N.eqb (bk_seq a) (bk_seq b)
  && list_eqb seqp_eqb (bk_seqs a) (bk_seqs b).

Definition bsize (b : block) : nat := length (bk_allocs b).

(* ------------------------------------------------------------------ time *)
Definition second : N := 1000000000.
Definition cd_ns (cd : Z) : N := Z.to_N cd * second.
(* garbageCollect: ReleasedAt.Before(now - cooldown); a negative cooldown frees at once *)
Definition cooled (cd : Z) (t r : N) : bool := if (cd <? 0)%Z then true else (r + cd_ns cd <? t).
Definition trunc_s (r : N) : N := (r / second) * second.

(* ------------------------------------------------------------------ small list helpers *)
Fixpoint set_nth {A} (l : list A) (n : nat) (a : A) : list A :=
  match l, n with
  | [], _ => []
  | _ :: t, O => a :: t
  | h :: t, S n' => h :: set_nth t n' a
  end.
Fixpoint mapi {A B} (f : nat -> A -> B) (i : nat) (l : list A) : list B :=
  match l with [] => [] | a :: t => f i a :: mapi f (S i) t end.
Fixpoint remove_first (o : nat) (l : list nat) : list nat :=
  match l with [] => [] | x :: t => if Nat.eqb x o then t else x :: remove_first o t end.
Definition memb (o : nat) (l : list nat) : bool := existsb (Nat.eqb o) l.

Fixpoint seqs_get (l : list (nat * N)) (o : nat) : N :=
  match l with [] => 0 | (o', s) :: t => if Nat.eqb o' o then s else seqs_get t o end.
Fixpoint seqs_set (l : list (nat * N)) (o : nat) (s : N) : list (nat * N) :=
  match l with
  | [] => [(o, s)]
  | (o', s') :: t => if Nat.eqb o' o then (o, s) :: t
                     else if Nat.ltb o o' then (o, s) :: (o', s') :: t
                     else (o', s') :: seqs_set t o s
  end.
Definition seqs_del (l : list (nat * N)) (o : nat) : list (nat * N) :=
  filter (fun p => negb (Nat.eqb (fst p) o)) l.

Fixpoint insert_sorted (a : nat) (l : list nat) : list nat :=
  match l with [] => [a] | b :: t => if Nat.leb a b then a :: l else b :: insert_sorted a t end.
Definition sort_nat (l : list nat) : list nat := fold_right insert_sorted [] l.

(* ------------------------------------------------------------------ ordinal states *)
Definition owner_of (b : block) (o : nat) : option attr :=
  match nth o (bk_allocs b) None with
  | Some i => nth_error (bk_attrs b) i
  | None => None
  end.
Inductive ostate := Free | Live (h : option N) (tag : N) | Cooling (r : N).
Definition state_of (b : block) (o : nat) : ostate :=
  match owner_of b o with
  | None => Free
  | Some a => match at_rel a with Some r => Cooling r | None => Live (at_handle a) (at_tag a) end
  end.
Definition is_live (b : block) (o : nat) : bool := match state_of b o with Live _ _ => true | _ => false end.
Definition seq_of (b : block) (o : nat) : N := seqs_get (bk_seqs b) o.

(* ------------------------------------------------------------------ newBlock *)
Definition new_block (size : nat) (seq0 : N) : block :=
  {| bk_allocs := repeat None size; bk_unalloc := seq 0 size; bk_attrs := []; bk_seq := seq0; bk_seqs := [] |}.

(* ------------------------------------------------------------------ findOrAddAttribute *)
Fixpoint find_attr (attrs : list attr) (a : attr) (i : nat) : option nat :=
  match attrs with
  | [] => None
  | x :: t => if attr_eqb x a then Some i else find_attr t a (S i)
  end.
Definition find_or_add_attr (attrs : list attr) (a : attr) : list attr * nat :=
  match find_attr attrs a 0 with
  | Some i => (attrs, i)
  | None => (attrs ++ [a], length attrs)
  end.

(* ------------------------------------------------------------------ garbageCollect *)
Definition is_cold (cd : Z) (t : N) (attrs : list attr) (a : option nat) : bool :=
  match a with
  | Some i => match nth_error attrs i with
              | Some x => match at_rel x with Some r => cooled cd t r | None => false end
              | None => false
              end
  | None => false
  end.
Definition cold_ords (cd : Z) (t : N) (b : block) : list nat :=
  filter (fun o => is_cold cd t (bk_attrs b) (nth o (bk_allocs b) None)) (seq 0 (bsize b)).

(* first half: free the cooled-down ordinals, in ordinal order, appending them to the FIFO *)
Definition gc_free (cd : Z) (t : N) (b : block) : block :=
  let cold := cold_ords cd t b in
  {| bk_allocs := map (fun a => if is_cold cd t (bk_attrs b) a then None else a) (bk_allocs b);
     bk_unalloc := bk_unalloc b ++ cold;
     bk_attrs := bk_attrs b;
     bk_seq := bk_seq b;
     bk_seqs := fold_left seqs_del cold (bk_seqs b) |}.

(* second half: drop unreferenced attributes, renumber *)
Definition attr_used (allocs : list (option nat)) (i : nat) : bool :=
  existsb (fun a => match a with Some j => Nat.eqb j i | None => false end) allocs.
Definition rank_used (allocs : list (option nat)) (i : nat) : nat :=
  length (filter (attr_used allocs) (seq 0 i)).
Definition compact (b : block) : block :=
  let used := attr_used (bk_allocs b) in
  let kept := map snd (filter (fun p => used (fst p)) (combine (seq 0 (length (bk_attrs b))) (bk_attrs b))) in
  {| bk_allocs := map (fun a => match a with Some j => Some (rank_used (bk_allocs b) j) | None => None end) (bk_allocs b);
     bk_unalloc := bk_unalloc b; bk_attrs := kept; bk_seq := bk_seq b; bk_seqs := bk_seqs b |}.

Definition gc (cd : Z) (t : N) (b : block) : block := compact (gc_free cd t b).

(* ------------------------------------------------------------------ autoAssign *)
(* walk the FIFO: take the first num ordinals that are not reserved; everything else stays, in order *)
Fixpoint take_free (rsv : list nat) (num : nat) (un : list nat) : list nat * list nat :=
  match un with
  | [] => ([], [])
  | o :: rest =>
      match num with
      | O => ([], un)
      | S n' => if memb o rsv
                then let '(tk, rm) := take_free rsv num rest in (tk, o :: rm)
                else let '(tk, rm) := take_free rsv n' rest in (o :: tk, rm)
      end
  end.

Definition live_attr (h : option N) (tag : N) : attr := {| at_handle := h; at_tag := tag; at_rel := None |}.

Definition blk_auto_assign (b : block) (num : nat) (h : option N) (tag : N) (rsv : list nat) : block * list nat :=
  let '(taken, rest) := take_free rsv num (bk_unalloc b) in
  match taken with
  | [] => (b, [])
  | _ =>
    let '(attrs, idx) := find_or_add_attr (bk_attrs b) (live_attr h tag) in
    ({| bk_allocs := fold_left (fun al o => set_nth al o (Some idx)) taken (bk_allocs b);
        bk_unalloc := rest; bk_attrs := attrs; bk_seq := bk_seq b;
        bk_seqs := fold_left (fun sq o => seqs_set sq o (bk_seq b)) taken (bk_seqs b) |}, taken)
  end.

Definition num_free (b : block) (rsv : list nat) : nat :=
  length (filter (fun o => negb (memb o rsv)) (bk_unalloc b)).

(* ------------------------------------------------------------------ assign *)
Inductive err := ENone | ENotFound | EExists | EConflict | EOther.
Definition err_eqb (a b : err) : bool :=
  match a, b with
  | ENone, ENone | ENotFound, ENotFound | EExists, EExists | EConflict, EConflict | EOther, EOther => true
  | _, _ => false
  end.

(* the sequence number of the ordinal is (re)stamped BEFORE the "already allocated" test, as in the code; the
   client never writes the block when assign fails *)
Definition blk_assign (b : block) (o : nat) (h : option N) (tag : N) : block * err :=
  if Nat.leb (bsize b) o then (b, EOther) else
  let sq := seqs_set (bk_seqs b) o (bk_seq b) in
  match nth o (bk_allocs b) None with
  | Some _ => ({| bk_allocs := bk_allocs b; bk_unalloc := bk_unalloc b; bk_attrs := bk_attrs b;
                  bk_seq := bk_seq b; bk_seqs := sq |}, EExists)
  | None =>
    let '(attrs, idx) := find_or_add_attr (bk_attrs b) (live_attr h tag) in
    ({| bk_allocs := set_nth (bk_allocs b) o (Some idx); bk_unalloc := remove_first o (bk_unalloc b);
        bk_attrs := attrs; bk_seq := bk_seq b; bk_seqs := sq |}, ENone)
  end.

(* ------------------------------------------------------------------ release *)
Record req := { rq_ord : nat; rq_handle : option N; rq_seq : option N }.

(* uniqueAddresses[opt.Address] = opt : the last request for an address wins *)
Fixpoint dedup_last (rs : list req) : list req :=
  match rs with
  | [] => []
  | r :: t => if existsb (fun r' => Nat.eqb (rq_ord r') (rq_ord r)) t then dedup_last t else r :: dedup_last t
  end.

Inductive rclass := CBadSeq | CBadHandle | COut | CUnalloc | CRel (h : option N).

Definition classify (b : block) (r : req) : rclass :=
  let o := rq_ord r in
  if Nat.leb (bsize b) o then COut else
  if match rq_seq r with Some s => negb (N.eqb s (seq_of b o)) | None => false end then CBadSeq else
  match state_of b o with
  | Free | Cooling _ => CUnalloc
  | Live oh _ =>
      match rq_handle r with
      | Some h => if optN_eqb oh (Some h) then CRel oh else CBadHandle
      | None => CRel oh
      end
  end.

Fixpoint count_add (m : list (N * nat)) (h : N) : list (N * nat) :=
  match m with
  | [] => [(h, 1%nat)]
  | (k, n) :: t => if N.eqb k h then (k, S n) :: t
                   else if N.ltb h k then (h, 1%nat) :: (k, n) :: t
                   else (k, n) :: count_add t h
  end.

(* the loop over the de-duplicated request, in the order given: first error wins *)
Fixpoint scan (b : block) (rs : list req) (un ords : list nat) (cnt : list (N * nat))
  : (list nat * list nat * list (N * nat)) + rclass :=
  match rs with
  | [] => inl (un, ords, cnt)
  | r :: t =>
      match classify b r with
      | CUnalloc => scan b t (un ++ [rq_ord r]) ords cnt
      | CRel oh => scan b t un (ords ++ [rq_ord r]) (match oh with Some h => count_add cnt h | None => cnt end)
      | c => inr c
      end
  end.

Definition cool_attr (t : N) : attr := {| at_handle := None; at_tag := 0; at_rel := Some t |}.

(* addCooldownAttribute + redirect the ordinals to it; restamp says whether the per-ordinal sequence number is set
   to the block's current one (release does, releaseByHandle does not) *)
Definition mark_released (b : block) (t : N) (ords : list nat) (restamp : bool) : block :=
  let idx := length (bk_attrs b) in
  {| bk_allocs := fold_left (fun al o => set_nth al o (Some idx)) ords (bk_allocs b);
     bk_unalloc := bk_unalloc b;
     bk_attrs := bk_attrs b ++ [cool_attr t];
     bk_seq := bk_seq b;
     bk_seqs := if restamp then fold_left (fun sq o => seqs_set sq o (bk_seq b)) ords (bk_seqs b) else bk_seqs b |}.

Inductive rresult :=
| RROk (unalloc : list nat) (counts : list (N * nat))     (* not-allocated ordinals, released count per handle *)
| RRErr (c : rclass).

(* rs: the de-duplicated request in processing order *)
Definition blk_release_ord (cd : Z) (t : N) (b : block) (rs : list req) : block * rresult :=
  match scan b rs [] [] [] with
  | inr c => (b, RRErr c)
  | inl (un, [], cnt) => (b, RROk un cnt)
  | inl (un, ords, cnt) => (gc cd t (mark_released b t ords true), RROk un cnt)
  end.
Definition blk_release (cd : Z) (t : N) (b : block) (rs : list req) : block * rresult :=
  blk_release_ord cd t b (dedup_last rs).

(* ------------------------------------------------------------------ releaseByHandle *)
Definition handle_idxs (attrs : list attr) (h : N) : list nat :=
  map fst (filter (fun p => optN_eqb (at_handle (snd p)) (Some h)) (combine (seq 0 (length attrs)) attrs)).

Definition rbh_ords (b : block) (h : N) (sq : option N) : list nat :=
  let idxs := handle_idxs (bk_attrs b) h in
  filter (fun o => match nth o (bk_allocs b) None with
                   | Some i => memb i idxs && match sq with Some s => N.eqb s (seq_of b o) | None => true end
                   | None => false
                   end) (seq 0 (bsize b)).

Definition blk_release_by_handle (cd : Z) (t : N) (b : block) (h : N) (sq : option N) : block * nat :=
  match handle_idxs (bk_attrs b) h with
  | [] => (b, O)
  | _ =>
    let ords := rbh_ords b h sq in
    (gc cd t (match ords with [] => b | _ => mark_released b t ords false end), length ords)
  end.

(* ------------------------------------------------------------------ persistence *)
Definition bump (b : block) : block :=
  {| bk_allocs := bk_allocs b; bk_unalloc := bk_unalloc b; bk_attrs := bk_attrs b; bk_seq := bk_seq b + 1;
     bk_seqs := bk_seqs b |}.
Definition ser_attr (a : attr) : attr :=
  {| at_handle := at_handle a; at_tag := at_tag a;
     at_rel := match at_rel a with Some r => Some (trunc_s r) | None => None end |}.
Definition ser (b : block) : block :=
  {| bk_allocs := bk_allocs b; bk_unalloc := bk_unalloc b; bk_attrs := map ser_attr (bk_attrs b); bk_seq := bk_seq b;
     bk_seqs := bk_seqs b |}.
(* updateBlock followed by the next read *)
Definition persist (b : block) : block := ser (bump b).

(* ------------------------------------------------------------------ block-level operations (driver stream 1) *)
Inductive bop :=
| BAuto (h : option N) (tag : N) (num : nat) (rsv : list nat)
| BAssign (o : nat) (h : option N) (tag : N)
| BRelease (rs : list req)
| BRbh (h : N) (sq : option N)
| BGC
| BPersist.

Inductive bres :=
| ResAuto (ords : list nat)
| ResErr (e : err)
| ResRel (unalloc : list nat) (counts : list (N * nat)) (e : err)
| ResCount (n : nat)
| ResChanged (c : bool)
| ResNone.

Definition rclass_err (c : rclass) : err := match c with CBadSeq | CBadHandle => EConflict | _ => EOther end.

Definition bstep (cd : Z) (t : N) (b : block) (o : bop) : block * bres :=
  match o with
  | BAuto h tag num rsv => let '(b', ords) := blk_auto_assign b num h tag rsv in (b', ResAuto ords)
  | BAssign o h tag => let '(b', e) := blk_assign b o h tag in (b', ResErr e)
  | BRelease rs =>
      match blk_release cd t b rs with
      | (b', RROk un cnt) => (b', ResRel (sort_nat un) cnt ENone)
      | (b', RRErr c) => (b', ResRel [] [] (rclass_err c))
      end
  | BRbh h sq => let '(b', n) := blk_release_by_handle cd t b h sq in (b', ResCount n)
  | BGC => let b' := gc cd t b in (b', ResChanged (negb (block_eqb b' b)))
  | BPersist => (persist b, ResNone)
  end.

(* ------------------------------------------------------------------ one client call on one stored block *)
(* what the client does with a block it has just read: blockFromBackend, the operation, and the decision to
   write.  None = nothing is written (the stored block stays as it is). *)
Inductive top :=
| TAuto (h : option N) (tag : N) (num : nat) (rsv : list nat)
| TAssign (o : nat) (h : option N) (tag : N)
| TRelease (rs : list req)
| TRbh (h : N)
| TGC.

Definition txn (cd : Z) (t : N) (b : block) (o : top) : option block * bres :=
  let b1 := gc cd t b in
  match o with
  | TAuto h tag num rsv =>
      if Nat.leb 1 (num_free b1 rsv) then
        let '(b2, ords) := blk_auto_assign b1 num h tag rsv in
        match ords with [] => (None, ResAuto []) | _ => (Some (persist b2), ResAuto ords) end
      else (None, ResAuto [])
  | TAssign o h tag =>
      match blk_assign b1 o h tag with
      | (b2, ENone) => (Some (persist b2), ResErr ENone)
      | (_, e) => (None, ResErr e)
      end
  | TRelease rs =>
      match blk_release cd t b1 rs with
      | (_, RRErr c) => (None, ResRel [] [] (rclass_err c))
      | (b2, RROk un cnt) =>
          if Nat.eqb (length rs) (length un) then (None, ResRel (sort_nat un) [] ENone)
          else (Some (persist b2), ResRel (sort_nat un) cnt ENone)
      end
  | TRbh h =>
      match blk_release_by_handle cd t b1 h None with
      | (_, O) => (None, ResCount O)
      | (b2, n) => (Some (persist b2), ResCount n)
      end
  | TGC =>
      (* GarbageCollectColdIPs works on the stored value, not on a blockFromBackend view *)
      if block_eqb b1 b then (None, ResChanged false) else (Some (persist b1), ResChanged true)
  end.

Definition txn_block (cd : Z) (t : N) (b : block) (o : top) : block :=
  match fst (txn cd t b o) with Some b' => b' | None => b end.

(* ------------------------------------------------------------------ client level (driver stream 2) *)
(* Domain: one IPv4 pool, one host.  Every block of the pool starts claimed by the host (block + affinity).
   ReleaseAffinity can take a block away from the host: an empty block is deleted, a non-empty one stays as a
   NON-AFFINE block that is deleted by the release that empties it.  AssignIP on an address whose block does not exist
   claims the block again (newBlock: SequenceNumber = UnixNano(now) = epoch + t).
   Histories that contain ReleaseAffinity run with StrictAffinity = true and AutoAllocateBlocks = false (AutoAssign then
   only uses the blocks the host still owns and reports an error when they do not suffice); other histories run with
   AutoAllocateBlocks = true and every block owned. *)
Definition hmap := list (nat * N).             (* block index -> count *)
Record cstate := {
  cs_blocks : list (option block);             (* None: the block does not exist *)
  cs_aff : list bool;                          (* the host's affinity for the block exists (and the block names it) *)
  cs_handles : list (N * hmap)
}.

Fixpoint hm_inc (m : hmap) (c : nat) (n : N) : hmap :=
  match m with
  | [] => [(c, n)]
  | (k, v) :: t => if Nat.eqb k c then (k, v + n) :: t
                   else if Nat.ltb c k then (c, n) :: (k, v) :: t
                   else (k, v) :: hm_inc t c n
  end.
Fixpoint hm_dec (m : hmap) (c : nat) (n : N) : option hmap :=
  match m with
  | [] => None
  | (k, v) :: t => if Nat.eqb k c then
                     (if N.ltb v n then None else if N.eqb v n then Some t else Some ((k, v - n) :: t))
                   else match hm_dec t c n with Some t' => Some ((k, v) :: t') | None => None end
  end.
Fixpoint hs_get (hs : list (N * hmap)) (h : N) : option hmap :=
  match hs with [] => None | (k, m) :: t => if N.eqb k h then Some m else hs_get t h end.
Fixpoint hs_set (hs : list (N * hmap)) (h : N) (m : option hmap) : list (N * hmap) :=
  match hs with
  | [] => match m with Some m' => [(h, m')] | None => [] end
  | (k, v) :: t => if N.eqb k h then match m with Some m' => (k, m') :: t | None => t end
                   else if N.ltb h k then match m with Some m' => (h, m') :: (k, v) :: t | None => (k, v) :: t end
                   else (k, v) :: hs_set t h m
  end.
Definition hs_inc (hs : list (N * hmap)) (h : N) (c : nat) (n : N) : list (N * hmap) :=
  hs_set hs h (Some (hm_inc (match hs_get hs h with Some m => m | None => [] end) c n)).
(* decrementHandle: a failed decrement is logged and ignored by the callers modelled here *)
Definition hs_dec (hs : list (N * hmap)) (h : N) (c : nat) (n : N) : list (N * hmap) :=
  match hs_get hs h with
  | None => hs
  | Some m => match hm_dec m c n with
              | None => hs
              | Some [] => hs_set hs h None
              | Some m' => hs_set hs h (Some m')
              end
  end.

Inductive cop :=
| CAuto (h tag : N) (num : nat)
| CAssignIP (h tag : N) (a : nat)
| CRelease (rs : list req)             (* rq_ord = address offset inside the pool *)
| CRbh (h : N)
| CGC (blk : nat)
| CRelAff (blk : nat) (must_be_empty : bool).

Inductive cres :=
| CResIPs (addrs : list nat) (e : err)                   (* AutoAssign *)
| CResErr (e : err)                                      (* AssignIP / ReleaseByHandle / GarbageCollectColdIPs / ReleaseAffinity *)
| CResRel (unalloc : list nat) (released : list nat) (e : err).    (* ReleaseIPs: not allocated; addresses of the
                                                                   options in blocks that did not fail *)

(* allocationBlock.empty (no Windows reservations in the domain): an ordinal in cooldown still counts as in use *)
Definition blk_empty (b : block) : bool :=
  forallb (fun a => match a with None => true | Some _ => false end) (bk_allocs b).

Section Client.
  Variable bs : nat.                 (* addresses per block *)
  Variable rsv : list nat.           (* reserved addresses (pool offsets) *)
  Variable strict : bool.            (* IPAMConfig.StrictAffinity *)
  Variable autoalloc : bool.         (* IPAMConfig.AutoAllocateBlocks *)
  Variable epoch : N.                (* UnixNano of clock reading 0 *)
  Variable cd : Z.
  Variable t : N.

  Definition blk_rsv (i : nat) : list nat :=
    map (fun a => (a - i * bs)%nat) (filter (fun a => Nat.eqb (a / bs) i) rsv).

  Definition get_block (st : cstate) (i : nat) : option block := nth i (cs_blocks st) None.
  Definition get_aff (st : cstate) (i : nat) : bool := nth i (cs_aff st) false.
  Definition put_block (st : cstate) (i : nat) (b : option block) : cstate :=
    {| cs_blocks := set_nth (cs_blocks st) i b; cs_aff := cs_aff st; cs_handles := cs_handles st |}.
  Definition put_aff (st : cstate) (i : nat) (a : bool) : cstate :=
    {| cs_blocks := cs_blocks st; cs_aff := set_nth (cs_aff st) i a; cs_handles := cs_handles st |}.
  Definition put_handles (st : cstate) (hs : list (N * hmap)) : cstate :=
    {| cs_blocks := cs_blocks st; cs_aff := cs_aff st; cs_handles := hs |}.

  (* a block that has lost its affinity is deleted by the write that empties it *)
  Definition store_after (st : cstate) (i : nat) (b' : block) : cstate :=
    if negb (get_aff st i) && blk_empty b' then put_block st i None else put_block st i (Some b').

  (* autoAssign over the host's affine blocks, in List order *)
  Fixpoint auto_loop (idxs : list nat) (st : cstate) (h tag : N) (num : nat) (got : list nat) : cstate * list nat :=
    match idxs with
    | [] => (st, got)
    | i :: rest =>
        if Nat.leb num (length got) then (st, got) else
        match get_aff st i, get_block st i with
        | true, Some b =>
          match txn cd t b (TAuto (Some h) tag (num - length got) (blk_rsv i)) with
          | (Some b', ResAuto ords) =>
              auto_loop rest (put_handles (put_block st i (Some b')) (hs_inc (cs_handles st) h i (N.of_nat (length ords))))
                        h tag num (got ++ map (fun o => (i * bs + o)%nat) ords)
          | _ => auto_loop rest st h tag num got
          end
        | _, _ => auto_loop rest st h tag num got
        end
    end.

  Fixpoint dec_all (hs : list (N * hmap)) (c : nat) (l : list (N * nat)) : list (N * hmap) :=
    match l with [] => hs | (h, n) :: rest => dec_all (hs_dec hs h c (N.of_nat n)) c rest end.

  (* releaseIPsFromBlock for the options that fall into block i *)
  Definition release_block (st : cstate) (i : nat) (rs : list req) : cstate * (list nat * bool) :=
    let local := map (fun r => {| rq_ord := (rq_ord r - i * bs)%nat; rq_handle := rq_handle r; rq_seq := rq_seq r |}) rs in
    match get_block st i with
    | None => (st, (map rq_ord rs, true))        (* the block does not exist: every address is "not allocated" *)
    | Some b =>
      match txn cd t b (TRelease local) with
      | (_, ResRel _ _ EConflict) | (_, ResRel _ _ EOther) => (st, ([], false))
      | (Some b', ResRel un cnt _) =>
          (put_handles (store_after st i b') (dec_all (cs_handles st) i cnt), (map (fun o => (i * bs + o)%nat) un, true))
      | (None, ResRel un _ _) => (st, (map (fun o => (i * bs + o)%nat) un, true))
      | _ => (st, ([], false))
      end
    end.

  Fixpoint release_loop (idxs : list nat) (st : cstate) (rs : list req) (un rel : list nat) (e : err)
    : cstate * cres :=
    match idxs with
    | [] => (st, CResRel (sort_nat un) (sort_nat rel) e)
    | i :: rest =>
        let mine := filter (fun r => Nat.eqb (rq_ord r / bs) i) rs in
        match mine with
        | [] => release_loop rest st rs un rel e
        | _ =>
          let '(st', (u, ok)) := release_block st i mine in
          release_loop rest st' rs (un ++ u) (if ok then rel ++ map rq_ord mine else rel) (if ok then e else EConflict)
        end
    end.

  Fixpoint rbh_loop (blks : list nat) (st : cstate) (h : N) : cstate :=
    match blks with
    | [] => st
    | i :: rest =>
        match get_block st i with
        | None => rbh_loop rest st h
        | Some b =>
          match txn cd t b (TRbh h) with
          | (Some b', ResCount n) =>
              rbh_loop rest (put_handles (store_after st i b') (hs_dec (cs_handles st) h i (N.of_nat n))) h
          | _ => rbh_loop rest st h
          end
        end
    end.

  Definition all_owned (st : cstate) : bool := forallb (fun a => a) (cs_aff st).

  Definition cstep (st : cstate) (o : cop) : cstate * cres :=
    let nb := length (cs_blocks st) in
    match o with
    | CAuto h tag num =>
        let '(st', got) := auto_loop (seq 0 nb) st h tag num [] in
        (st', CResIPs got (if Nat.leb num (length got) || autoalloc then ENone else EOther))
    | CAssignIP h tag a =>
        let i := (a / bs)%nat in
        match get_block st i with
        | Some b =>
            if negb (get_aff st i) && strict then (st, CResErr EOther) else
            match txn cd t b (TAssign (a - i * bs) (Some h) tag) with
            | (Some b', _) => (put_handles (put_block st i (Some b')) (hs_inc (cs_handles st) h i 1), CResErr ENone)
            | (None, ResErr e) => (st, CResErr e)
            | _ => (st, CResErr EOther)
            end
        | None =>
            (* claim the block again, then assign *)
            match txn cd t (new_block bs (epoch + t)) (TAssign (a - i * bs) (Some h) tag) with
            | (Some b', _) =>
                (put_handles (put_aff (put_block st i (Some b')) i true) (hs_inc (cs_handles st) h i 1), CResErr ENone)
            | _ => (st, CResErr EOther)
            end
        end
    | CRelease rs => release_loop (seq 0 nb) st rs [] [] ENone
    | CRbh h =>
        match hs_get (cs_handles st) h with
        | None => (st, CResErr ENotFound)
        | Some m => (rbh_loop (map fst m) st h, CResErr ENone)
        end
    | CGC i =>
        match get_block st i with
        | Some b => match txn cd t b TGC with
                    | (Some b', _) => (put_block st i (Some b'), CResErr ENone)
                    | _ => (st, CResErr ENone)
                    end
        | None => (st, CResErr ENone)
        end
    | CRelAff i must =>
        (* releaseBlockAffinity: no affinity or no block -> nothing to do *)
        match get_aff st i, get_block st i with
        | true, Some b =>
            let b1 := gc cd t b in
            if must && negb (blk_empty b1) then (st, CResErr EOther)
            else if blk_empty b1 then (put_aff (put_block st i None) i false, CResErr ENone)
            else (put_aff (put_block st i (Some (persist b1))) i false, CResErr ENone)
        | _, _ => (st, CResErr ENone)
        end
    end.
End Client.
