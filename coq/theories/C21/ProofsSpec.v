(* C21 — the oracle of Spec.v accepts every run of the model (block stream), and every transaction. *)
From Coq Require Import List NArith ZArith Bool Arith Lia Sorted Permutation.
From Verif.C21 Require Import Model Spec Proofs ProofsRelease ProofsHist ProofsInv ProofsCool.
Import ListNotations.
Open Scope N_scope.

(* ------------------------------------------------------------------ boolean reflection helpers *)
Lemma list_eqb_refl {A} (eq : A -> A -> bool) (l : list A) : (forall x, eq x x = true) -> list_eqb eq l l = true.
Proof. intros R. induction l; simpl; auto. rewrite R, IHl. auto. Qed.
Lemma optN_eqb_refl a : optN_eqb a a = true.
Proof. apply optN_eqb_eq. auto. Qed.
Lemma optnat_eqb_refl a : optnat_eqb a a = true.
Proof. destruct a; simpl; auto. apply Nat.eqb_refl. Qed.
Lemma attr_eqb_refl a : attr_eqb a a = true.
Proof. unfold attr_eqb. rewrite !optN_eqb_refl, N.eqb_refl. auto. Qed.
Lemma block_eqb_refl b : block_eqb b b = true.
Proof.
  unfold block_eqb. rewrite !list_eqb_refl, N.eqb_refl; auto.
  - intros [a s]; unfold seqp_eqb; simpl. rewrite Nat.eqb_refl, N.eqb_refl; auto.
  - apply attr_eqb_refl.
  - apply Nat.eqb_refl.
  - apply optnat_eqb_refl.
Qed.
Lemma nat_list_eqb_refl l : list_eqb Nat.eqb l l = true.
Proof. apply list_eqb_refl, Nat.eqb_refl. Qed.

Lemma attr_eqb_eq a b : attr_eqb a b = true -> a = b.
Proof.
  unfold attr_eqb. destruct a, b; simpl. intros H. apply andb_true_iff in H. destruct H as [H H3].
  apply andb_true_iff in H. destruct H as [H1 H2]. apply optN_eqb_eq in H1, H3. apply N.eqb_eq in H2. subst. auto.
Qed.

Lemma nodupb_NoDup l : NoDup l -> nodupb l = true.
Proof.
  induction 1 as [|a l NI ND IH]; simpl; auto. rewrite IH, andb_true_r.
  destruct (memb a l) eqn:M; auto. apply memb_In in M. contradiction.
Qed.
Lemma memb_false o l : ~ In o l -> memb o l = false.
Proof. intros NI. destruct (memb o l) eqn:M; auto. apply memb_In in M. contradiction. Qed.

Lemma filter_nil {A} (p : A -> bool) l : (forall x, In x l -> p x = false) -> filter p l = [].
Proof. induction l; simpl; intros H; auto. rewrite (H a) by auto. apply IHl. intros; apply H; auto. Qed.
Lemma filter_all {A} (p : A -> bool) l : (forall x, In x l -> p x = true) -> filter p l = l.
Proof. induction l; simpl; intros H; auto. rewrite (H a) by auto. f_equal. apply IHl. intros; apply H; auto. Qed.

Lemma memb_filter_seq n (P : nat -> bool) x : memb x (filter P (seq 0 n)) = P x && Nat.ltb x n.
Proof.
  destruct (memb x (filter P (seq 0 n))) eqn:M.
  - apply memb_In, filter_In in M. destruct M as [IN PX]. apply in_seq in IN. rewrite PX. symmetry.
    apply andb_true_iff; split; auto. apply Nat.ltb_lt; lia.
  - symmetry. apply not_true_is_false. intros H. apply andb_true_iff in H. destruct H as [PX L].
    apply Nat.ltb_lt in L. assert (In x (filter P (seq 0 n))) by (apply filter_In; split; auto; apply in_seq; lia).
    apply memb_In in H. congruence.
Qed.

(* ------------------------------------------------------------------ insertion sort of a duplicate-free list *)
Lemma insert_In a : forall l x, In x (insert_sorted a l) <-> x = a \/ In x l.
Proof.
  induction l as [|b l IH]; simpl; intros x; [intuition|].
  destruct (Nat.leb a b); simpl; [intuition|]. rewrite IH. intuition.
Qed.
Lemma insert_ssorted a : forall l, StronglySorted lt l -> ~ In a l -> StronglySorted lt (insert_sorted a l).
Proof.
  induction l as [|b l IH]; simpl; intros S NI.
  - constructor; auto.
  - inversion S as [|? ? S' F]; subst. destruct (Nat.leb a b) eqn:E.
    + apply Nat.leb_le in E. assert (a < b)%nat by (assert (a <> b) by (intros ->; apply NI; auto); lia).
      constructor; auto. constructor; auto. rewrite Forall_forall in *. intros x IN. specialize (F x IN). lia.
    + apply Nat.leb_gt in E. constructor.
      * apply IH; auto.
      * rewrite Forall_forall in *. intros x IN. apply insert_In in IN. destruct IN as [->|IN]; auto.
Qed.
Lemma sort_In l : forall x, In x (sort_nat l) <-> In x l.
Proof.
  induction l as [|a l IH]; simpl; intros x; [tauto|]. unfold sort_nat in *. simpl. rewrite insert_In, IH. intuition.
Qed.
Lemma sort_ssorted l : NoDup l -> StronglySorted lt (sort_nat l).
Proof.
  induction 1 as [|a l NI ND IH]; unfold sort_nat in *; simpl; [constructor|].
  apply insert_ssorted; auto. intros IN. apply NI. apply (sort_In l a). exact IN.
Qed.
Lemma ssorted_unique : forall l1 l2, StronglySorted lt l1 -> StronglySorted lt l2 ->
  (forall x, In x l1 <-> In x l2) -> l1 = l2.
Proof.
  induction l1 as [|a l1 IH]; intros l2 S1 S2 EQ.
  - destruct l2 as [|b l2]; auto. exfalso. apply (EQ b). simpl; auto.
  - destruct l2 as [|b l2]; [exfalso; apply (EQ a); simpl; auto|].
    inversion S1 as [|? ? S1' F1]; inversion S2 as [|? ? S2' F2]; subst.
    rewrite Forall_forall in F1, F2.
    assert (a = b).
    { assert (In a (b :: l2)) as [E|I1] by (apply EQ; simpl; auto); auto.
      assert (In b (a :: l1)) as [E|I2] by (apply EQ; simpl; auto); auto.
      specialize (F1 _ I2). specialize (F2 _ I1). lia. }
    subst b. f_equal. apply IH; auto. intros x. split; intros IN.
    + assert (In x (a :: l2)) as [E|I1] by (apply EQ; simpl; auto); auto. subst. specialize (F1 _ IN). lia.
    + assert (In x (a :: l1)) as [E|I1] by (apply EQ; simpl; auto); auto. subst. specialize (F2 _ IN). lia.
Qed.
Lemma seq_ssorted : forall n s, StronglySorted lt (seq s n).
Proof.
  induction n; intros s; simpl; constructor; auto. apply Forall_forall. intros x IN. apply in_seq in IN. lia.
Qed.
Lemma filter_ssorted (p : nat -> bool) : forall l, StronglySorted lt l -> StronglySorted lt (filter p l).
Proof.
  induction 1 as [|a l S IH F]; simpl; [constructor|]. destruct (p a); auto. constructor; auto.
  rewrite Forall_forall in *. intros x IN. apply filter_In in IN. apply F; tauto.
Qed.
(* sorting a duplicate-free list of ordinals below n = one ascending pass over 0..n-1 *)
Lemma sort_as_filter l n (P : nat -> bool) : NoDup l -> (forall x, In x l <-> (P x = true /\ (x < n)%nat)) ->
  sort_nat l = filter P (seq 0 n).
Proof.
  intros ND EQ. apply ssorted_unique.
  - apply sort_ssorted; auto.
  - apply filter_ssorted, seq_ssorted.
  - intros x. rewrite sort_In, EQ, filter_In, in_seq. intuition lia.
Qed.

(* ------------------------------------------------------------------ the strong block invariant *)
Record winv (b : block) : Prop := {
  w_inv : inv b;
  w_bound : forall o, In o (bk_unalloc b) -> (o < bsize b)%nat;
  w_queue : forall o, (o < bsize b)%nat -> nth o (bk_allocs b) None = None -> In o (bk_unalloc b);
  w_seq0 : forall o, nth o (bk_allocs b) None = None -> seq_of b o = 0
}.

Lemma state_free_iff b o : valid b -> (state_of b o = Free <-> nth o (bk_allocs b) None = None).
Proof.
  intros V. unfold state_of, owner_of. split.
  - destruct (nth o (bk_allocs b) None) as [i|] eqn:N; auto.
    assert (L := V _ _ N). apply nth_error_Some in L. destruct (nth_error (bk_attrs b) i) as [x|]; [|congruence].
    destruct (at_rel x); discriminate.
  - intros ->. auto.
Qed.

Lemma winv_new size seq0 : winv (new_block size seq0).
Proof.
  split.
  - apply inv_new.
  - intros o IN. unfold new_block, bsize in *; simpl in *. rewrite repeat_length. apply in_seq in IN. lia.
  - intros o L _. unfold new_block, bsize in *; simpl in *. rewrite repeat_length in L. apply in_seq. lia.
  - intros o _. reflexivity.
Qed.

(* --- garbage collection *)
Lemma seqs_get_fold_del cold : forall l o, seqs_get (fold_left seqs_del cold l) o = if memb o cold then 0 else seqs_get l o.
Proof.
  unfold memb. induction cold as [|c cold IH]; simpl; intros l o; auto.
  rewrite IH, seqs_get_del. rewrite (Nat.eqb_sym o c). destruct (existsb (Nat.eqb o) cold); destruct (Nat.eqb c o); auto.
Qed.
Lemma seq_of_gc cd t b o : seq_of (gc cd t b) o = if memb o (cold_ords cd t b) then 0 else seq_of b o.
Proof. unfold seq_of, gc, compact, gc_free; simpl. apply seqs_get_fold_del. Qed.

Lemma cold_ords_iff cd t b o : In o (cold_ords cd t b) <->
  (o < bsize b)%nat /\ exists r, state_of b o = Cooling r /\ cooled cd t r = true.
Proof.
  split.
  - intros IN. split; [|apply cold_ords_spec; auto]. unfold cold_ords in IN. apply filter_In in IN. destruct IN as [IN _].
    apply in_seq in IN. lia.
  - intros (L & r & ST & C). unfold cold_ords. apply filter_In. split; [apply in_seq; lia|].
    unfold state_of, owner_of in ST. unfold is_cold. destruct (nth o (bk_allocs b) None) as [i|]; [|discriminate].
    destruct (nth_error (bk_attrs b) i) as [x|]; [|discriminate]. destruct (at_rel x); inversion ST; subst; auto.
Qed.

Lemma alloc_gc cd t b o : nth o (bk_allocs (gc cd t b)) None = None <->
  nth o (bk_allocs b) None = None \/ In o (cold_ords cd t b).
Proof.
  unfold gc, compact, gc_free; simpl. rewrite nth_map_fix by reflexivity. rewrite nth_map_fix by reflexivity.
  destruct (is_cold cd t (bk_attrs b) (nth o (bk_allocs b) None)) eqn:C.
  - split; auto. intros _. destruct (nth o (bk_allocs b) None) eqn:N; auto. right.
    unfold cold_ords. apply filter_In. split; [|rewrite N; auto]. apply in_seq.
    destruct (Nat.lt_ge_cases o (bsize b)); [lia|]. unfold bsize in *. rewrite nth_overflow in N; [discriminate|auto].
  - destruct (nth o (bk_allocs b) None) eqn:N; [|tauto]. split; [discriminate|]. intros [H|H]; [discriminate|].
    unfold cold_ords in H. apply filter_In in H. destruct H as [_ H]. rewrite N in H. congruence.
Qed.

Lemma winv_gc cd t b : winv b -> winv (gc cd t b).
Proof.
  intros [I B Q Z]. split.
  - apply inv_gc; auto.
  - intros o IN. rewrite bsize_gc. rewrite unalloc_gc in IN. apply in_app_or in IN. destruct IN as [IN|IN]; auto.
    apply cold_ords_iff in IN. tauto.
  - intros o L N. rewrite bsize_gc in L. rewrite unalloc_gc. apply in_or_app. apply alloc_gc in N. destruct N; auto.
  - intros o N. rewrite seq_of_gc. destruct (memb o (cold_ords cd t b)) eqn:M; auto.
    apply alloc_gc in N. destruct N as [N|N]; auto. apply memb_In in N. congruence.
Qed.

(* --- autoAssign *)
Lemma find_attr_hit attrs a : forall i0 i, find_attr attrs a i0 = Some i -> nth_error attrs (i - i0) = Some a.
Proof.
  induction attrs as [|x l IH]; simpl; intros i0 i; [discriminate|].
  destruct (attr_eqb x a) eqn:E.
  - intros X; inversion X; subst. rewrite Nat.sub_diag. simpl. apply attr_eqb_eq in E. congruence.
  - intros X. pose proof (find_attr_bound _ _ _ _ X). apply IH in X. replace (i - i0)%nat with (S (i - S i0)) by lia. auto.
Qed.
Lemma find_or_add_hit attrs a attrs' idx : find_or_add_attr attrs a = (attrs', idx) -> nth_error attrs' idx = Some a.
Proof.
  unfold find_or_add_attr. destruct (find_attr attrs a 0) eqn:E; intros X; inversion X; subst.
  - apply find_attr_hit in E. rewrite Nat.sub_0_r in E. auto.
  - rewrite nth_error_app2 by lia. rewrite Nat.sub_diag. auto.
Qed.

Lemma take_free_complete rsv : forall un num x,
  In x un -> ~ In x (fst (take_free rsv num un)) -> In x (snd (take_free rsv num un)).
Proof.
  induction un as [|o un IH]; intros num x; simpl; [tauto|].
  destruct num as [|n]; simpl; auto.
  destruct (memb o rsv).
  - specialize (IH (S n) x). destruct (take_free rsv (S n) un) as [tk rm]; simpl in *. intros [->|IN] NI; auto.
  - specialize (IH n x). destruct (take_free rsv n un) as [tk rm]; simpl in *. intros [->|IN] NI; [tauto|]. apply IH; auto.
Qed.

Lemma take_free_rest_filter rsv un num : NoDup un ->
  snd (take_free rsv num un) = filter (fun o => negb (memb o (fst (take_free rsv num un)))) un.
Proof.
  revert num. induction un as [|o un IH]; intros num ND; simpl; auto.
  inversion ND as [|? ? NI ND']; subst.
  destruct num as [|n]; simpl.
  - f_equal. symmetry. apply filter_all. auto.
  - destruct (memb o rsv).
    + pose proof (take_free_taken_incl rsv un (S n) o) as TI. specialize (IH (S n) ND').
      destruct (take_free rsv (S n) un) as [tk rm]; simpl in *.
      rewrite (memb_false o tk) by tauto. simpl. f_equal. auto.
    + specialize (IH n ND'). pose proof (take_free_taken_incl rsv un n) as TI.
      destruct (take_free rsv n un) as [tk rm]; simpl in *.
      rewrite Nat.eqb_refl. simpl. rewrite IH. apply filter_ext_in. intros x IN.
      destruct (Nat.eqb x o) eqn:E; auto. apply Nat.eqb_eq in E; subst. contradiction.
Qed.

(* the three possible outcomes spelled out *)
Lemma auto_cases b num h tag rsv :
  let tk := fst (take_free rsv num (bk_unalloc b)) in
  let rm := snd (take_free rsv num (bk_unalloc b)) in
  (tk = [] /\ blk_auto_assign b num h tag rsv = (b, [])) \/
  (tk <> [] /\ exists attrs idx, find_or_add_attr (bk_attrs b) (live_attr h tag) = (attrs, idx) /\
     blk_auto_assign b num h tag rsv =
       ({| bk_allocs := fold_left (fun al o => set_nth al o (Some idx)) tk (bk_allocs b);
           bk_unalloc := rm; bk_attrs := attrs; bk_seq := bk_seq b;
           bk_seqs := fold_left (fun sq o => seqs_set sq o (bk_seq b)) tk (bk_seqs b) |}, tk)).
Proof.
  unfold blk_auto_assign. destruct (take_free rsv num (bk_unalloc b)) as [tk rm]; simpl.
  destruct tk as [|x tk]; [left; auto|]. right. split; [discriminate|].
  destruct (find_or_add_attr (bk_attrs b) (live_attr h tag)) as [attrs idx]. eauto.
Qed.

Lemma auto_effect b num h tag rsv : winv b ->
  let tk := fst (take_free rsv num (bk_unalloc b)) in
  let b' := fst (blk_auto_assign b num h tag rsv) in
  snd (blk_auto_assign b num h tag rsv) = tk /\
  bk_unalloc b' = snd (take_free rsv num (bk_unalloc b)) /\
  bsize b' = bsize b /\ bk_seq b' = bk_seq b /\
  (forall o, state_of b' o = if memb o tk then Live h tag else state_of b o) /\
  (forall o, seq_of b' o = if memb o tk then bk_seq b else seq_of b o) /\
  (forall o, nth o (bk_allocs b') None = None <-> (nth o (bk_allocs b) None = None /\ ~ In o tk)).
Proof.
  intros [I B Q Z]. destruct I as [V U ND C]. intros tk b'. subst tk b'.
  pose proof (take_free_taken_incl rsv (bk_unalloc b) num) as TI.
  destruct (auto_cases b num h tag rsv) as [[E1 E2]|(NE & attrs & idx & FA & E2)]; rewrite E2; simpl.
  - assert (RM : snd (take_free rsv num (bk_unalloc b)) = bk_unalloc b).
    { rewrite (take_free_rest_filter rsv (bk_unalloc b) num ND), E1. apply filter_all. auto. }
    rewrite E1. split; auto. split; auto. split; auto. split; auto. split; auto. split; auto.
    intros o. simpl. tauto.
  - destruct (find_or_add_shape _ _ _ _ FA) as [SH LT]. pose proof (find_or_add_hit _ _ _ _ FA) as HIT.
    split; [reflexivity|]. split; [reflexivity|]. split; [unfold bsize; simpl; apply fold_set_length|].
    split; [reflexivity|]. split; [|split].
    + intros o. unfold state_of, owner_of; simpl. rewrite nth_fold_set.
      destruct (memb o (fst (take_free rsv num (bk_unalloc b)))) eqn:M; simpl.
      * apply memb_In in M. pose proof (B o (TI o M)) as L. apply Nat.ltb_lt in L. unfold bsize in L. rewrite L, HIT. auto.
      * destruct (nth o (bk_allocs b) None) as [j|] eqn:N; auto.
        rewrite (prefix_nth_error _ _ _ _ SH); auto. eapply V; eauto.
    + intros o. unfold seq_of; simpl. apply seqs_get_fold_set.
    + intros o. simpl. rewrite nth_fold_set. destruct (memb o (fst (take_free rsv num (bk_unalloc b)))) eqn:M; simpl.
      * apply memb_In in M. pose proof (B o (TI o M)) as L. apply Nat.ltb_lt in L. unfold bsize in L. rewrite L.
        split; [discriminate|]. intros [_ NI]. contradiction.
      * split; [intros N; split; auto; intros IN; apply memb_In in IN; congruence | tauto].
Qed.

Lemma winv_auto b num h tag rsv : winv b -> winv (fst (blk_auto_assign b num h tag rsv)).
Proof.
  intros W. destruct (auto_effect b num h tag rsv W) as (_ & EU & ES & _ & _ & SQ & AL).
  destruct W as [I B Q Z]. split.
  - apply inv_auto; auto.
  - intros o IN. rewrite ES. rewrite EU in IN. apply B. eapply take_free_rest_incl; eauto.
  - intros o L N. rewrite ES in L. apply AL in N. destruct N as [N NI]. rewrite EU. apply take_free_complete; auto.
  - intros o N. apply AL in N. destruct N as [N NI]. rewrite SQ, (memb_false _ _ NI). auto.
Qed.

(* --- assign *)
Lemma remove_first_filter o : forall l, NoDup l -> remove_first o l = filter (fun x => negb (Nat.eqb x o)) l.
Proof.
  induction l as [|a l IH]; simpl; intros ND; auto. inversion ND as [|? ? NI ND']; subst.
  destruct (Nat.eqb a o) eqn:E; simpl.
  - apply Nat.eqb_eq in E; subst. symmetry. apply filter_all. intros x IN.
    destruct (Nat.eqb x o) eqn:E; auto. apply Nat.eqb_eq in E; subst; contradiction.
  - f_equal; auto.
Qed.

Lemma assign_effect b o h tag : winv b ->
  let b' := fst (blk_assign b o h tag) in
  let e := snd (blk_assign b o h tag) in
  bsize b' = bsize b /\ bk_seq b' = bk_seq b /\
  match e with
  | ENone => (o < bsize b)%nat /\ nth o (bk_allocs b) None = None /\
             bk_unalloc b' = filter (fun x => negb (Nat.eqb x o)) (bk_unalloc b) /\
             (forall x, state_of b' x = if Nat.eqb o x then Live h tag else state_of b x) /\
             (forall x, seq_of b' x = if Nat.eqb o x then bk_seq b else seq_of b x) /\
             (forall x, nth x (bk_allocs b') None = None <-> (nth x (bk_allocs b) None = None /\ x <> o))
  | EExists => (o < bsize b)%nat /\ nth o (bk_allocs b) None <> None /\ bk_unalloc b' = bk_unalloc b /\
               (forall x, state_of b' x = state_of b x) /\
               (forall x, seq_of b' x = if Nat.eqb o x then bk_seq b else seq_of b x) /\
               (forall x, nth x (bk_allocs b') None = nth x (bk_allocs b) None)
  | _ => b' = b
  end.
Proof.
  intros [I B Q Z]. destruct I as [V U ND C]. unfold blk_assign.
  destruct (Nat.leb (bsize b) o) eqn:LE; simpl; [auto|]. apply Nat.leb_gt in LE.
  destruct (nth o (bk_allocs b) None) as [i|] eqn:NO; simpl.
  - repeat split; auto. congruence. intros x. unfold seq_of; simpl. apply seqs_get_set.
  - destruct (find_or_add_attr (bk_attrs b) (live_attr h tag)) as [attrs idx] eqn:FA; simpl.
    destruct (find_or_add_shape _ _ _ _ FA) as [SH LT]. pose proof (find_or_add_hit _ _ _ _ FA) as HIT.
    assert (LB : Nat.ltb o (length (bk_allocs b)) = true) by (apply Nat.ltb_lt; auto).
    split; [unfold bsize; simpl; apply set_nth_length|]. split; [reflexivity|].
    split; auto. split; auto. split; [apply remove_first_filter; auto|]. split; [|split].
    + intros x. unfold state_of, owner_of; simpl. rewrite nth_set_nth, LB, andb_true_r.
      destruct (Nat.eqb o x) eqn:E; [rewrite HIT; auto|].
      destruct (nth x (bk_allocs b) None) as [j|] eqn:N; auto.
      rewrite (prefix_nth_error _ _ _ _ SH); auto. eapply V; eauto.
    + intros x. unfold seq_of; simpl. apply seqs_get_set.
    + intros x. rewrite nth_set_nth, LB, andb_true_r. destruct (Nat.eqb o x) eqn:E.
      * apply Nat.eqb_eq in E; subst. split; [discriminate|]. intros [_ H]; congruence.
      * apply Nat.eqb_neq in E. split; [intros N; split; auto|tauto].
Qed.

Lemma winv_assign b o h tag : winv b -> winv (fst (blk_assign b o h tag)).
Proof.
  intros W. pose proof (assign_effect b o h tag W) as EF. simpl in EF. destruct EF as (ES & _ & EF).
  pose proof W as [I B Q Z]. split.
  - apply inv_assign; auto.
  - intros x IN. rewrite ES. destruct (snd (blk_assign b o h tag)); try (rewrite EF in IN; auto).
    + destruct EF as (_ & _ & EU & _). rewrite EU in IN. apply filter_In in IN. apply B; tauto.
    + destruct EF as (_ & _ & EU & _). rewrite EU in IN. auto.
  - intros x L N. rewrite ES in L. destruct (snd (blk_assign b o h tag)); try (rewrite EF in *; auto).
    + destruct EF as (_ & _ & EU & _ & _ & AL). rewrite EU. apply AL in N. destruct N as [N NE]. apply filter_In. split; auto.
      apply negb_true_iff, Nat.eqb_neq; auto.
    + destruct EF as (_ & _ & EU & _ & _ & AL). rewrite EU. rewrite AL in N. auto.
  - intros x N. destruct (snd (blk_assign b o h tag)); try (rewrite EF in *; auto).
    + destruct EF as (_ & _ & _ & _ & SQ & AL). apply AL in N. destruct N as [N NE]. rewrite SQ.
      destruct (Nat.eqb o x) eqn:E; auto. apply Nat.eqb_eq in E; congruence.
    + destruct EF as (_ & NZ & _ & _ & SQ & AL). rewrite AL in N. rewrite SQ.
      destruct (Nat.eqb o x) eqn:E; auto. apply Nat.eqb_eq in E; subst; contradiction.
Qed.

(* --- marking as released *)
Lemma seq_of_mark b t ords rs o :
  seq_of (mark_released b t ords rs) o = if rs && memb o ords then bk_seq b else seq_of b o.
Proof.
  unfold seq_of, mark_released; simpl. destruct rs; simpl; auto. apply seqs_get_fold_set.
Qed.
Lemma alloc_mark b t ords rs o : (forall x, In x ords -> nth x (bk_allocs b) None <> None) ->
  (nth o (bk_allocs (mark_released b t ords rs)) None = None <-> nth o (bk_allocs b) None = None).
Proof.
  intros LIVE. unfold mark_released; simpl. rewrite nth_fold_set.
  destruct (memb o ords) eqn:M; simpl; [|tauto]. apply memb_In in M.
  destruct (Nat.ltb o (length (bk_allocs b))); [|tauto]. split; [discriminate|]. intros N. exfalso. eapply LIVE; eauto.
Qed.
Lemma winv_mark b t ords rs : winv b -> (forall x, In x ords -> nth x (bk_allocs b) None <> None) ->
  winv (mark_released b t ords rs).
Proof.
  intros [I B Q Z] LIVE. split.
  - apply inv_mark; auto.
  - intros o IN. rewrite bsize_mark. apply B. exact IN.
  - intros o L N. rewrite bsize_mark in L. apply alloc_mark in N; [|exact LIVE]. apply (Q o L N).
  - intros o N. apply alloc_mark in N; [|exact LIVE]. rewrite seq_of_mark. destruct (rs && memb o ords) eqn:M; auto.
    apply andb_true_iff in M. destruct M as [_ M]. apply memb_In in M. exfalso. eapply LIVE; eauto.
Qed.

(* --- persistence *)
Lemma winv_persist b : winv b -> winv (persist b).
Proof. intros [I B Q Z]. split; auto. apply inv_persist; auto. Qed.

(* ------------------------------------------------------------------ pieces of the oracle *)
Lemma wf_of_winv b : winv b -> wf_block_b b = true.
Proof.
  intros [I B Q Z]. destruct I as [V U ND C]. unfold wf_block_b.
  apply andb_true_iff; split; [apply andb_true_iff; split|].
  - apply nodupb_NoDup; auto.
  - apply forallb_forall. intros o IN. apply Nat.ltb_lt. auto.
  - apply forallb_forall. intros o IN. apply in_seq in IN. apply andb_true_iff; split.
    + destruct (memb o (bk_unalloc b)) eqn:M.
      * apply memb_In in M. apply U in M. apply (state_free_iff b o V) in M. rewrite M. auto.
      * destruct (state_of b o) eqn:ST; auto. exfalso. apply (state_free_iff b o V) in ST.
        assert (In o (bk_unalloc b)) by (apply Q; [lia|auto]). apply memb_In in H. congruence.
    + destruct (nth o (bk_allocs b) None) as [i|] eqn:N.
      * apply Nat.ltb_lt. eapply V; eauto.
      * apply N.eqb_eq. auto.
Qed.

Lemma ok_step_intro m cd t pb nb k :
  bsize nb = bsize pb -> wf_block_b nb = true ->
  (forall o, (o < bsize pb)%nat -> ord_ok m cd t pb nb k o = true) ->
  fifo_ok m pb nb k = true -> result_ok m cd t pb nb k = true -> seq_ok m pb nb k = true ->
  ok_step m cd t pb nb k = true.
Proof.
  intros E W O F R S. unfold ok_step. rewrite E, Nat.eqb_refl, W, F, R, S. simpl. rewrite !andb_true_r.
  apply forallb_forall. intros o IN. apply in_seq in IN. apply O. lia.
Qed.

Lemma ord_ok_same m cd t pb nb k o :
  state_of nb o = state_of pb o -> seq_of nb o = seq_of pb o -> ord_ok m cd t pb nb k o = true.
Proof.
  intros ES EQ. unfold ord_ok. rewrite ES, EQ. destruct (state_of pb o); auto.
  - rewrite optN_eqb_refl, !N.eqb_refl. auto.
  - rewrite N.eqb_refl. auto.
Qed.

Definition fc_pred (pb nb : block) (o : nat) : bool :=
  match state_of pb o, state_of nb o with Cooling _, Free | Cooling _, Live _ _ => true | _, _ => false end.
Definition fl_pred (pb nb : block) (o : nat) : bool :=
  match state_of pb o, state_of nb o with Live _ _, Free => true | _, _ => false end.
Definition tk_pred (pb nb : block) (o : nat) : bool :=
  match state_of pb o, state_of nb o with Free, Live _ _ | Cooling _, Live _ _ => true | _, _ => false end.

(* the list of ordinals freed, as the oracle computes it outside transactions = one ascending pass *)
Lemma freed_as_filter pb nb :
  freed false pb nb = filter (fun o => fc_pred pb nb o || fl_pred pb nb o) (seq 0 (bsize pb)).
Proof.
  unfold freed, freed_cool, freed_live, ords. fold (fc_pred pb nb). fold (fl_pred pb nb).
  apply sort_as_filter.
  - apply NoDup_app_intro; try (apply NoDup_filter, seq_NoDup).
    intros x I1 I2. apply filter_In in I1, I2. destruct I1 as [_ P1], I2 as [_ P2].
    unfold fc_pred, fl_pred in *. destruct (state_of pb x); discriminate.
  - intros x. rewrite in_app_iff, !filter_In, in_seq, orb_true_iff. intuition lia.
Qed.

(* first conjunct of (fifo) when the operation hands nothing out and its queue is the old one plus one ascending pass *)
Lemma fifo_no_take pb nb :
  (forall o, (o < bsize pb)%nat -> tk_pred pb nb o = false) ->
  bk_unalloc nb = bk_unalloc pb ++ filter (fun o => fc_pred pb nb o || fl_pred pb nb o) (seq 0 (bsize pb)) ->
  list_eqb Nat.eqb (bk_unalloc nb) (filter (fun o => negb (memb o (taken pb nb))) (elig false pb nb)) = true.
Proof.
  intros NT EU. unfold elig. rewrite freed_as_filter, <- EU.
  assert (T : taken pb nb = []).
  { unfold taken, ords. fold (tk_pred pb nb). apply filter_nil. intros x IN. apply in_seq in IN. apply NT. lia. }
  rewrite T. rewrite filter_all by auto. apply nat_list_eqb_refl.
Qed.

(* ... when nothing is freed and the ordinals in T leave the queue *)
Lemma fifo_no_free pb nb (T : nat -> bool) :
  (forall o, (o < bsize pb)%nat -> fc_pred pb nb o || fl_pred pb nb o = false) ->
  (forall o, In o (bk_unalloc pb) -> (o < bsize pb)%nat /\ tk_pred pb nb o = T o) ->
  bk_unalloc nb = filter (fun o => negb (T o)) (bk_unalloc pb) ->
  list_eqb Nat.eqb (bk_unalloc nb) (filter (fun o => negb (memb o (taken pb nb))) (elig false pb nb)) = true.
Proof.
  intros NF TK EU. unfold elig. rewrite freed_as_filter.
  rewrite (filter_nil (fun o => fc_pred pb nb o || fl_pred pb nb o)) by (intros x IN; apply in_seq in IN; apply NF; lia).
  rewrite app_nil_r, EU.
  rewrite (filter_ext_in (fun o => negb (memb o (taken pb nb))) (fun o => negb (T o))); [apply nat_list_eqb_refl|].
  intros o IN. destruct (TK o IN) as [L E]. unfold taken, ords. fold (tk_pred pb nb).
  rewrite memb_filter_seq, E. apply Nat.ltb_lt in L. rewrite L, andb_true_r. auto.
Qed.

Lemma is_cold_state cd t b o :
  is_cold cd t (bk_attrs b) (nth o (bk_allocs b) None)
  = match state_of b o with Cooling r => cooled cd t r | _ => false end.
Proof.
  unfold is_cold, state_of, owner_of. destruct (nth o (bk_allocs b) None); auto.
  destruct (nth_error (bk_attrs b) n) as [x|]; auto. destruct (at_rel x); auto.
Qed.

Lemma fifo_not_auto m pb nb k :
  match k with KAuto _ _ _ _ => False | _ => True end ->
  list_eqb Nat.eqb (bk_unalloc nb) (filter (fun o => negb (memb o (taken pb nb))) (elig m pb nb)) = true ->
  fifo_ok m pb nb k = true.
Proof. intros NK H. unfold fifo_ok. rewrite H. destruct k; simpl; auto; destruct NK. Qed.

(* nothing changes at all *)
Lemma fifo_unchanged pb k : winv pb -> match k with KAuto _ _ _ _ => False | _ => True end -> fifo_ok false pb pb k = true.
Proof.
  intros W NK. apply fifo_not_auto; auto. apply (fifo_no_free pb pb (fun _ => false)).
  - intros o L. unfold fc_pred, fl_pred. destruct (state_of pb o); auto.
  - intros o IN. split; [apply (w_bound _ W); auto|]. unfold tk_pred. destruct (state_of pb o); auto.
  - symmetry. apply filter_all. auto.
Qed.

(* the common shape of garbageCollect, release and releaseByHandle outside transactions:
   b1 = the block with the ordinals R just marked as released at t (R = [] for plain GC); the result is gc cd t b1 *)
Lemma gc_like_step cd t pb b1 (R : list nat) k :
  winv pb -> winv b1 -> bsize b1 = bsize pb -> bk_unalloc b1 = bk_unalloc pb -> bk_seq b1 = bk_seq pb ->
  (forall o, In o R -> (o < bsize pb)%nat /\ state_of b1 o = Cooling t /\
                       exists h tag, state_of pb o = Live h tag /\ may_free k o h (seq_of pb o) = true) ->
  (forall o, ~ In o R -> state_of b1 o = state_of pb o /\ seq_of b1 o = seq_of pb o) ->
  gc_possible false k = true -> match k with KAuto _ _ _ _ | KPersist => False | _ => True end ->
  let nb := gc cd t b1 in
  bsize nb = bsize pb /\ wf_block_b nb = true /\
  (forall o, (o < bsize pb)%nat -> ord_ok false cd t pb nb k o = true) /\
  fifo_ok false pb nb k = true /\ seq_ok false pb nb k = true /\
  (forall o, state_of nb o = gcst cd t (state_of b1 o)).
Proof.
  intros W W1 ES EU EQ HR HN GP NK nb. subst nb.
  assert (V1 : valid b1) by (apply inv_valid, w_inv; auto).
  assert (ST : forall o, state_of (gc cd t b1) o = gcst cd t (state_of b1 o)) by (intros; apply state_gc; auto).
  split; [rewrite bsize_gc; auto|]. split; [apply wf_of_winv, winv_gc; auto|]. split; [|split; [|split; [|exact ST]]].
  - intros o L. destruct (in_dec Nat.eq_dec o R) as [IN|NI].
    + destruct (HR o IN) as (_ & S1 & h & tag & SP & MF). unfold ord_ok. rewrite SP, ST, S1. simpl.
      destruct (cooled cd t t) eqn:C; rewrite MF; simpl; auto. unfold stamp_ok. apply N.eqb_refl.
    + destruct (HN o NI) as [S1 Q1]. unfold ord_ok. rewrite ST, S1.
      destruct (state_of pb o) eqn:SP; simpl; auto.
      * rewrite optN_eqb_refl, N.eqb_refl. simpl. rewrite seq_of_gc.
        rewrite memb_false; [rewrite Q1, N.eqb_refl; auto|].
        intros IC. apply cold_ords_iff in IC. destruct IC as (_ & r & SC & _). rewrite S1 in SC. try rewrite SP in SC. discriminate.
      * destruct (cooled cd t r); simpl; auto. rewrite N.eqb_refl. auto.
  - apply fifo_not_auto; [destruct k; auto|]. apply fifo_no_take.
    + intros o L. unfold tk_pred. rewrite ST. destruct (in_dec Nat.eq_dec o R) as [IN|NI].
      * destruct (HR o IN) as (_ & S1 & h & tag & SP & _). rewrite SP. reflexivity.
      * destruct (HN o NI) as [S1 _]. rewrite S1. destruct (state_of pb o); simpl; auto. destruct (cooled cd t r); auto.
    + rewrite unalloc_gc, EU. f_equal. unfold cold_ords. rewrite ES. apply filter_ext_in. intros o IN. apply in_seq in IN.
      rewrite is_cold_state. unfold fc_pred, fl_pred. rewrite ST. destruct (in_dec Nat.eq_dec o R) as [INR|NI].
      * destruct (HR o INR) as (_ & S1 & h & tag & SP & _). rewrite SP, S1. simpl. destruct (cooled cd t t); auto.
      * destruct (HN o NI) as [S1 _]. rewrite S1. destruct (state_of pb o); simpl; auto. destruct (cooled cd t r); auto.
  - unfold seq_ok. rewrite seq_gc, EQ. destruct k; try apply N.eqb_refl. destruct NK.
Qed.

(* ------------------------------------------------------------------ the oracle accepts every model step *)
Definition step_ok (cd : Z) (t : N) (pb : block) (op : bop) : Prop :=
  ok_step false cd t pb (fst (bstep cd t pb op)) (bkind op (snd (bstep cd t pb op))) = true
  /\ winv (fst (bstep cd t pb op)).

Lemma step_gc cd t pb : winv pb -> step_ok cd t pb BGC.
Proof.
  intros W. unfold step_ok. simpl.
  destruct (gc_like_step cd t pb pb [] KGC W W eq_refl eq_refl eq_refl
              (fun o (F : In o []) => match F with end) (fun o _ => conj eq_refl eq_refl) eq_refl I)
    as (E & WF & OO & FF & SQ & _).
  split; [|apply winv_gc; auto]. apply ok_step_intro; auto.
Qed.

Lemma step_persist cd t pb : winv pb -> step_ok cd t pb BPersist.
Proof.
  intros W. unfold step_ok. simpl. split; [|apply winv_persist; auto].
  apply ok_step_intro; auto.
  - apply wf_of_winv, winv_persist; auto.
  - intros o L. unfold ord_ok. rewrite state_persist, seq_of_persist. destruct (state_of pb o); auto.
    + rewrite optN_eqb_refl, !N.eqb_refl. auto.
    + rewrite N.eqb_refl, orb_true_r. auto.
  - apply fifo_not_auto; [exact I|]. apply (fifo_no_free pb (persist pb) (fun _ => false)).
    + intros o L. unfold fc_pred, fl_pred. rewrite state_persist. destruct (state_of pb o); auto.
    + intros o IN. split; [apply (w_bound _ W); auto|]. unfold tk_pred. rewrite state_persist. destruct (state_of pb o); auto.
    + symmetry. apply filter_all. auto.
  - unfold seq_ok. apply N.eqb_refl.
Qed.

Lemma firstn_firstn_length {A} n (X : list A) : firstn (length (firstn n X)) X = firstn n X.
Proof.
  rewrite firstn_length. destruct (Nat.le_ge_cases n (length X)).
  - rewrite Nat.min_l; auto.
  - rewrite Nat.min_r by auto. rewrite firstn_all. symmetry. apply firstn_all2. auto.
Qed.
Lemma NoDup_firstn {A} (l : list A) : forall n, NoDup l -> NoDup (firstn n l).
Proof.
  induction l as [|a l IH]; intros [|n] ND; simpl; try constructor.
  - inversion ND; subst. intros IN. apply In_firstn in IN. contradiction.
  - inversion ND; subst. auto.
Qed.

Lemma step_auto cd t pb h tag num rsv : winv pb -> step_ok cd t pb (BAuto h tag num rsv).
Proof.
  intros W. unfold step_ok. simpl.
  destruct (auto_effect pb num h tag rsv W) as (EG & EU & ES & EQ & ST & SQ & AL).
  destruct (blk_auto_assign pb num h tag rsv) as [nb got] eqn:EA. simpl in *. subst got.
  pose proof W as [I B Q Z]. destruct I as [V U ND C].
  set (tk := fst (take_free rsv num (bk_unalloc pb))) in *.
  assert (TKU : forall o, In o tk -> In o (bk_unalloc pb)) by (intros; eapply take_free_taken_incl; eauto).
  assert (TKF : forall o, In o tk -> state_of pb o = Free).
  { intros o IN. apply (state_free_iff pb o V). apply U; auto. }
  assert (WN : winv nb) by (pose proof (winv_auto pb num h tag rsv W) as X; rewrite EA in X; exact X).
  split; auto. apply ok_step_intro; auto.
  - apply wf_of_winv; auto.
  - intros o L. destruct (memb o tk) eqn:M.
    + unfold ord_ok. rewrite ST, SQ, M. apply memb_In in M. rewrite (TKF o M). simpl.
      apply memb_In in M. rewrite M, optN_eqb_refl, !N.eqb_refl. auto.
    + apply ord_ok_same; [rewrite ST, M | rewrite SQ, M]; auto.
  - unfold fifo_ok.
    assert (NF : forall o, (o < bsize pb)%nat -> fc_pred pb nb o || fl_pred pb nb o = false).
    { intros o L. unfold fc_pred, fl_pred. rewrite ST. destruct (memb o tk) eqn:M.
      - apply memb_In in M. rewrite (TKF o M). auto.
      - destruct (state_of pb o); auto. }
    assert (TP : forall o, tk_pred pb nb o = memb o tk).
    { intros o. unfold tk_pred. rewrite ST. destruct (memb o tk) eqn:M.
      - apply memb_In in M. rewrite (TKF o M). auto.
      - destruct (state_of pb o); auto. }
    rewrite (fifo_no_free pb nb (fun o => memb o tk)); auto.
    + unfold elig. rewrite freed_as_filter.
      rewrite (filter_nil (fun o => fc_pred pb nb o || fl_pred pb nb o)) by (intros x IN; apply in_seq in IN; apply NF; lia).
      rewrite app_nil_r. simpl.
      assert (E1 : tk = firstn num (filter (fun o => negb (memb o rsv)) (bk_unalloc pb))) by (apply take_free_spec).
      rewrite E1 at 1 2. rewrite firstn_firstn_length, nat_list_eqb_refl. simpl.
      assert (E2 : sort_nat tk = taken pb nb).
      { unfold taken, ords. fold (tk_pred pb nb). apply sort_as_filter.
        - rewrite E1. apply NoDup_firstn, NoDup_filter; auto.
        - intros x. rewrite TP. split.
          + intros IN. split; [apply memb_In; auto|]. apply B; auto.
          + intros [M _]. apply memb_In; auto. }
      rewrite E2. apply nat_list_eqb_refl.
    + rewrite EU. apply take_free_rest_filter; auto.
  - unfold seq_ok. rewrite EQ. apply N.eqb_refl.
Qed.

Lemma step_unchanged cd t pb k : winv pb ->
  match k with KAuto _ _ _ _ | KPersist => False | _ => True end ->
  result_ok false cd t pb pb k = true -> ok_step false cd t pb pb k = true.
Proof.
  intros W NK R. apply ok_step_intro; auto.
  - apply wf_of_winv; auto.
  - intros o L. apply ord_ok_same; auto.
  - apply fifo_unchanged; auto. destruct k; auto.
  - unfold seq_ok. destruct k; try apply N.eqb_refl. destruct NK.
Qed.

Lemma step_assign cd t pb o h tag : winv pb -> step_ok cd t pb (BAssign o h tag).
Proof.
  intros W. unfold step_ok. simpl.
  pose proof (assign_effect pb o h tag W) as EF. pose proof (winv_assign pb o h tag W) as WN.
  destruct (blk_assign pb o h tag) as [nb e] eqn:EA. simpl in *. destruct EF as (ES & EQ & EF).
  pose proof W as [I B Q Z]. destruct I as [V U ND C].
  split; auto. destruct e; try (subst nb; apply step_unchanged; auto; exact I).
  - (* success *)
    destruct EF as (L & NO & EU & ST & SQ & AL).
    assert (SF : state_of pb o = Free) by (apply (state_free_iff pb o V); auto).
    apply ok_step_intro; auto.
    + apply wf_of_winv; auto.
    + intros x Lx. destruct (Nat.eqb o x) eqn:E.
      * apply Nat.eqb_eq in E; subst x. unfold ord_ok. rewrite ST, SQ, Nat.eqb_refl, SF. simpl.
        rewrite Nat.eqb_refl, optN_eqb_refl, !N.eqb_refl. auto.
      * apply ord_ok_same; [rewrite ST, E | rewrite SQ, E]; auto.
    + apply fifo_not_auto; [exact I|]. apply (fifo_no_free pb nb (fun x => Nat.eqb x o)); auto.
      * intros x Lx. unfold fc_pred, fl_pred. rewrite ST. destruct (Nat.eqb o x) eqn:E.
        -- apply Nat.eqb_eq in E; subst. rewrite SF. auto.
        -- destruct (state_of pb x); auto.
      * intros x IN. split; [apply B; auto|]. unfold tk_pred. rewrite ST. rewrite (Nat.eqb_sym x o).
        destruct (Nat.eqb o x) eqn:E.
        -- apply Nat.eqb_eq in E; subst. rewrite SF. auto.
        -- assert (SX : state_of pb x = Free) by (apply (state_free_iff pb x V); auto). rewrite SX. auto.
    + simpl. rewrite ST, Nat.eqb_refl, optN_eqb_refl, N.eqb_refl. auto.
    + unfold seq_ok. rewrite EQ. apply N.eqb_refl.
  - (* already allocated: only the sequence number of o is restamped *)
    destruct EF as (L & NZ & EU & ST & SQ & AL).
    apply ok_step_intro; auto.
    + apply wf_of_winv; auto.
    + intros x Lx. unfold ord_ok. rewrite ST, SQ. destruct (state_of pb x) eqn:SX; auto.
      * rewrite optN_eqb_refl, N.eqb_refl. simpl. rewrite (Nat.eqb_sym x o). destruct (Nat.eqb o x); [apply orb_true_r|].
        rewrite N.eqb_refl. auto.
      * rewrite N.eqb_refl. auto.
    + apply fifo_not_auto; [exact I|]. apply (fifo_no_free pb nb (fun _ => false)).
      * intros x Lx. unfold fc_pred, fl_pred. rewrite ST. destruct (state_of pb x); auto.
      * intros x IN. split; [apply B; auto|]. unfold tk_pred. rewrite ST. destruct (state_of pb x); auto.
      * rewrite EU. symmetry. apply filter_all. auto.
    + simpl. unfold pre_state, pre_freed. simpl. destruct (state_of pb o) eqn:SO; auto.
      apply (state_free_iff pb o V) in SO. contradiction.
    + unfold seq_ok. rewrite EQ. apply N.eqb_refl.
Qed.

Lemma owned_live b o h : inv b -> owned_by b o h -> exists tag, state_of b o = Live (Some h) tag.
Proof.
  intros I (x & OW & H). unfold state_of. rewrite OW. destruct (at_rel x) eqn:R.
  - assert (IN : In x (bk_attrs b)).
    { unfold owner_of in OW. destruct (nth o (bk_allocs b) None); [|discriminate]. eapply nth_error_In; eauto. }
    rewrite (inv_cool _ I x IN) in H; [discriminate|congruence].
  - rewrite H. eauto.
Qed.
Lemma live_owned b o h tag : state_of b o = Live (Some h) tag -> owned_by b o h.
Proof.
  unfold state_of, owned_by. destruct (owner_of b o) as [x|]; [|discriminate].
  destruct (at_rel x); [discriminate|]. intros X; inversion X. eauto.
Qed.

Lemma filter_ext_iff {A} (p q : A -> bool) l : (forall x, In x l -> (p x = true <-> q x = true)) -> filter p l = filter q l.
Proof.
  intros H. apply filter_ext_in. intros x IN. specialize (H x IN). destruct (p x), (q x); intuition congruence.
Qed.

Lemma mine_eq cd t pb h sq : winv pb ->
  filter (fun o => match pre_state false cd t pb o with
                   | Live oh _ => optN_eqb oh (Some h) && match sq with Some s => N.eqb s (pre_seq false cd t pb o) | None => true end
                   | _ => false end) (ords pb) = rbh_ords pb h sq.
Proof.
  intros W. unfold rbh_ords, ords. apply filter_ext_iff. intros o IN.
  assert (RS := rbh_ords_spec pb h sq o). unfold rbh_ords in RS. rewrite filter_In in RS.
  unfold pre_state, pre_seq, pre_freed. simpl. split.
  - intros H. apply RS. apply in_seq in IN. destruct (state_of pb o) eqn:ST; try discriminate.
    apply andb_true_iff in H. destruct H as [H1 H2]. apply optN_eqb_eq in H1. subst h0.
    split; [lia|]. split; [eapply live_owned; eauto|]. destruct sq; auto. apply N.eqb_eq in H2. auto.
  - intros H. assert (X : In o (seq 0 (bsize pb)) /\
        match nth o (bk_allocs pb) None with Some i => memb i (handle_idxs (bk_attrs pb) h) && match sq with Some s => N.eqb s (seq_of pb o) | None => true end | None => false end = true) by (split; auto).
    apply RS in X. destruct X as (_ & OW & SQ). destruct (owned_live pb o h (w_inv _ W) OW) as [tag ST]. rewrite ST.
    rewrite optN_eqb_refl. destruct sq; auto. subst. simpl. apply N.eqb_refl.
Qed.

Lemma step_rbh cd t pb h sq : winv pb -> step_ok cd t pb (BRbh h sq).
Proof.
  intros W. unfold step_ok. simpl.
  pose proof (rbh_count cd t pb h sq) as CNT.
  pose proof (mine_eq cd t pb h sq W) as ME.
  assert (LIVE : forall x, In x (rbh_ords pb h sq) -> nth x (bk_allocs pb) None <> None).
  { intros x IN. apply rbh_ords_spec in IN. destruct IN as (_ & OW & _). eapply owned_alloc; eauto. }
  assert (V : valid pb) by (apply inv_valid, w_inv; auto).
  unfold blk_release_by_handle in *.
  destruct (handle_idxs (bk_attrs pb) h) as [|i0 il] eqn:HI.
  - cbn [fst snd] in *. rewrite (rbh_ords_nil pb h sq HI) in *. split; auto.
    apply step_unchanged; [auto | exact I | unfold result_ok; rewrite ME; reflexivity].
  - destruct (rbh_ords pb h sq) as [|o0 ol] eqn:RO.
    + cbn [fst snd length] in *.
      destruct (gc_like_step cd t pb pb [] (KRbh h sq (Some 0%nat)) W W eq_refl eq_refl eq_refl
                  (fun o (F : In o []) => match F with end) (fun o _ => conj eq_refl eq_refl) eq_refl I)
        as (E & WF & OO & FF & SQ & _).
      split; [|apply winv_gc; auto]. apply ok_step_intro; auto. unfold result_ok. rewrite ME. reflexivity.
    + rewrite <- RO in *. cbn [fst snd] in *.
      assert (W1 : winv (mark_released pb t (rbh_ords pb h sq) false)) by (apply winv_mark; auto).
      destruct (gc_like_step cd t pb (mark_released pb t (rbh_ords pb h sq) false) (rbh_ords pb h sq)
                  (KRbh h sq (Some (length (rbh_ords pb h sq)))) W W1 (bsize_mark _ _ _ _) eq_refl eq_refl)
        as (E & WF & OO & FF & SQ & ST); auto.
      * intros o IN. pose proof IN as IN'. apply rbh_ords_spec in IN. destruct IN as (L & OW & SC).
        split; auto. split.
        -- rewrite state_mark by auto. apply memb_In in IN'. apply Nat.ltb_lt in L. rewrite IN', L. auto.
        -- destruct (owned_live pb o h (w_inv _ W) OW) as [tag SL]. exists (Some h), tag. split; auto.
           unfold may_free. rewrite optN_eqb_refl. destruct sq; auto. subst. simpl. apply N.eqb_refl.
      * intros o NI. split.
        -- rewrite state_mark by auto. rewrite (memb_false _ _ NI). auto.
        -- rewrite seq_of_mark. auto.
      * split; [|apply winv_gc; auto]. apply ok_step_intro; auto. unfold result_ok. rewrite ME, Nat.eqb_refl, andb_true_r.
        apply forallb_forall. intros o IN. unfold is_live. rewrite ST, state_mark by auto.
        pose proof IN as IN'. apply rbh_ords_spec in IN. destruct IN as (L & _). apply memb_In in IN'. apply Nat.ltb_lt in L.
        rewrite IN', L. simpl. destruct (cooled cd t t); auto.
Qed.
