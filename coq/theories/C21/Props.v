(* C21 — theorems.  Model: Model.v; lemmas: Proofs.v, ProofsRelease.v, ProofsHist.v.
   `valid b` = every allocation points at an existing attribute.  In every theorem about release the list p is the
   de-duplicated request in ANY processing order (Go map iteration order is universally quantified). *)
From Coq Require Import List NArith ZArith Bool Arith.
From Verif.C21 Require Import Model Spec Proofs ProofsRelease ProofsHist ProofsInv ProofsCool ProofsClient ProofsClient2 ProofsSpec.
Import ListNotations.

(* A release naming a stale sequence number never frees the address: the whole request (for that block) fails with
   a conflict class and the block is returned unchanged - nothing else in the request is released either. *)
Theorem c21_stale_seq_rejected : forall cd t b p r s, valid b ->
  In r p -> (rq_ord r < bsize b)%nat -> rq_seq r = Some s -> s <> seq_of b (rq_ord r) ->
  exists c, blk_release_ord cd t b p = (b, RRErr c) /\ bad_class c.
Proof. exact stale_seq_rejected. Qed.
Print Assumptions c21_stale_seq_rejected.

(* ... and so does a release naming a handle that is not the owner's. *)
Theorem c21_wrong_handle_rejected : forall cd t b p r oh tag h, valid b ->
  In r p -> (rq_ord r < bsize b)%nat -> state_of b (rq_ord r) = Live oh tag -> rq_handle r = Some h -> oh <> Some h ->
  exists c, blk_release_ord cd t b p = (b, RRErr c) /\ bad_class c.
Proof. exact wrong_handle_rejected. Qed.
Print Assumptions c21_wrong_handle_rejected.

(* Positive form, for every request and order: a live address keeps its owner through a release unless an entry names
   it whose sequence number (if given) is the stored one and whose handle (if given) is the owner. *)
Theorem c21_release_only_named : forall cd t b p o oh tag, valid b ->
  state_of b o = Live oh tag ->
  state_of (fst (blk_release_ord cd t b p)) o = Live oh tag
  \/ exists r, In r p /\ rq_ord r = o /\ seq_matches b r /\ (rq_handle r = None \/ rq_handle r = oh).
Proof. exact release_only_named. Qed.
Print Assumptions c21_release_only_named.

(* Complete description of a release: either some entry is bad (then: error, block unchanged), or every ordinal named by
   a matching entry for a live address goes into cooldown stamped with the current time (and is freed at once only
   under a negative cooldown), the not-live ones are reported as not allocated, and all other ordinals only see GC. *)
Theorem c21_release_effect : forall cd t b p, valid b ->
  match scan b p [] [] [] with
  | inr c => blk_release_ord cd t b p = (b, RRErr c) /\ bad_class c
  | inl (un, ords, cnt) =>
      snd (blk_release_ord cd t b p) = RROk un cnt /\
      un = map rq_ord (filter (is_un b) p) /\ ords = map rq_ord (filter (is_rel b) p) /\
      (ords = [] -> fst (blk_release_ord cd t b p) = b) /\
      forall o, state_of (fst (blk_release_ord cd t b p)) o =
                match ords with
                | [] => state_of b o
                | _ => gcst cd t (if memb o ords && Nat.ltb o (bsize b) then Cooling t else state_of b o)
                end
  end.
Proof. exact release_effect. Qed.
Print Assumptions c21_release_effect.

(* Releasing addresses that are already released (free or in cooldown), without a sequence number or with the stored
   one: the block is returned unchanged and every address is reported as not allocated. *)
Theorem c21_release_idempotent : forall cd t b p, valid b ->
  (forall r, In r p -> (rq_ord r < bsize b)%nat /\ seq_matches b r /\ is_live b (rq_ord r) = false) ->
  blk_release_ord cd t b p = (b, RROk (map rq_ord p) []).
Proof. exact release_idempotent. Qed.
Print Assumptions c21_release_idempotent.

(* ... and such an entry inside a larger request has no influence on the resulting block. *)
Theorem c21_release_unalloc_irrelevant : forall cd t b p r, valid b ->
  classify b r = CUnalloc -> fst (blk_release_ord cd t b (r :: p)) = fst (blk_release_ord cd t b p).
Proof. exact release_unalloc_irrelevant. Qed.
Print Assumptions c21_release_unalloc_irrelevant.

(* Documented deviation (design/ipam/ipam-core-library.md: "a release call against an IP already in cooldown is not an
   error"): release() restamps the ordinal's sequence number, so repeating the SAME request (same address, handle and
   sequence number) while the address is in cooldown is answered with a conflict, whereas after releaseByHandle it is
   answered "not allocated".  Harmless for the block (unchanged), but the rest of the request fails too. *)
Theorem c21_rerelease_with_seq_conflicts_refuted :
  exists b r, valid b /\ is_live b (rq_ord r) = true /\
    let b1 := persist (fst (blk_release_ord 5 0 b [r])) in
    snd (blk_release_ord 5 0 b [r]) = RROk [] [(1%N, 1%nat)] /\
    blk_release_ord 5 1 b1 [r] = (b1, RRErr CBadSeq).
Proof.
  exists {| bk_allocs := [Some 0%nat]; bk_unalloc := []; bk_attrs := [live_attr (Some 1%N) 1%N]; bk_seq := 8%N;
            bk_seqs := [(0%nat, 7%N)] |},
         {| rq_ord := 0; rq_handle := Some 1%N; rq_seq := Some 7%N |}.
  split; [|vm_compute; auto].
  intros o j. destruct o as [|[|o]]; simpl; intros X; inversion X; auto.
Qed.
Print Assumptions c21_rerelease_with_seq_conflicts_refuted.

(* Cooldown, block level: garbage collection at ANY time t with ANY setting frees exactly the ordinals whose stamp r
   satisfies r + cooldown < t (all of them under a negative cooldown) and changes no other state. *)
Theorem c21_gc_frees_only_cooled : forall cd t b o, valid b ->
  state_of (gc cd t b) o = match state_of b o with
                           | Cooling r => if cooled cd t r then Free else Cooling r
                           | s => s end.
Proof. intros. rewrite state_gc by auto. unfold gcst. destruct (state_of b o); auto. Qed.
Print Assumptions c21_gc_frees_only_cooled.

(* The queue: the ONLY ways into Unallocated, per operation.  After garbage collection / release / release-by-handle at
   time t every member of the queue was already in it, or was in cooldown with a stamp r such that r + cooldown < t,
   or (negative cooldown only) was live and released by this very call; assign and auto-assign add nothing, and
   auto-assign hands out only members of the queue. *)
Theorem c21_queue_origin : forall cd t b x, valid b ->
  (In x (bk_unalloc (gc cd t b)) -> In x (bk_unalloc b) \/ exists r, state_of b x = Cooling r /\ cooled cd t r = true)
  /\ (forall p, In x (bk_unalloc (fst (blk_release_ord cd t b p))) -> origin cd t b x)
  /\ (forall h sq, In x (bk_unalloc (fst (blk_release_by_handle cd t b h sq))) ->
        origin cd t b x \/ (exists r, state_of b x = Cooling r /\ owned_by b x h))
  /\ (forall num h tag rsv, In x (bk_unalloc (fst (blk_auto_assign b num h tag rsv))) -> In x (bk_unalloc b))
  /\ (forall num h tag rsv, In x (snd (blk_auto_assign b num h tag rsv)) -> In x (bk_unalloc b))
  /\ (forall o h tag, In x (bk_unalloc (fst (blk_assign b o h tag))) -> In x (bk_unalloc b)).
Proof.
  intros cd t b x V. repeat split.
  - rewrite unalloc_gc. intros H. apply in_app_or in H. destruct H as [H|H]; auto. right. eapply cold_ords_spec; eauto.
  - intros p. apply unalloc_release; auto.
  - intros h sq. apply unalloc_rbh; auto.
  - intros. eapply unalloc_auto; eauto.
  - intros. eapply auto_from_queue; eauto.
  - intros. eapply unalloc_assign; eauto.
Qed.
Print Assumptions c21_queue_origin.

(* FIFO: auto-assign takes the first num eligible (= not reserved) ordinals of Unallocated, in queue order; what stays
   behind is the queue minus those, order preserved; garbage collection APPENDS the ordinals it frees. *)
Theorem c21_fifo : forall rsv un num cd t b,
  fst (take_free rsv num un) = firstn num (filter (nonres rsv) un)
  /\ snd (take_free rsv num un) = minus_first un (fst (take_free rsv num un))
  /\ bk_unalloc (gc cd t b) = bk_unalloc b ++ cold_ords cd t b.
Proof. intros. split; [apply take_free_spec | split; [apply take_free_rest | reflexivity]]. Qed.
Print Assumptions c21_fifo.

(* Release by handle: exactly the ordinals whose owner attribute carries the handle (and the sequence number, if one is
   given) go into cooldown, their number is returned, every other ordinal only sees garbage collection. *)
Theorem c21_by_handle_exact : forall cd t b h sq o, valid b ->
  (In o (rbh_ords b h sq) <->
     (o < bsize b)%nat /\ owned_by b o h /\ match sq with Some s => s = seq_of b o | None => True end)
  /\ state_of (fst (blk_release_by_handle cd t b h sq)) o =
       (if memb o (rbh_ords b h sq) then gcst cd t (Cooling t)
        else match handle_idxs (bk_attrs b) h with [] => state_of b o | _ => gcst cd t (state_of b o) end)
  /\ snd (blk_release_by_handle cd t b h sq) = length (rbh_ords b h sq).
Proof. intros. split; [apply rbh_ords_spec | split; [apply rbh_effect; auto | apply rbh_count]]. Qed.
Print Assumptions c21_by_handle_exact.

(* Every transaction (client call on a stored block) that writes increases the block SequenceNumber by one, and a
   handed-out ordinal carries the number the block had when it was read. *)
Theorem c21_seq_strictly_monotone : forall cd t b op b',
  fst (txn cd t b op) = Some b' -> bk_seq b' = (bk_seq b + 1)%N.
Proof. exact txn_seq_written. Qed.
Print Assumptions c21_seq_strictly_monotone.

(* ABA: allocate -> any history of transactions by any clients (releases, GC, other allocations; any clock readings and
   cooldown settings) -> reallocate: the address gets a strictly larger sequence number, so a release carrying the
   old number is stale and, by c21_stale_seq_rejected, rejected. *)
Theorem c21_aba : forall cd1 t1 b op1 o b1 hist cd2 t2 op2 b3,
  hands_out cd1 t1 b op1 o b1 ->
  hands_out cd2 t2 (run hist b1) op2 o b3 ->
  (seq_of b1 o < seq_of b3 o)%N.
Proof. exact aba_strict. Qed.
Print Assumptions c21_aba.


(* ------------------------------------------------------------------ history level cooldown *)
(* inv b: attribute indices in range, Unallocated lists only free ordinals and has no duplicates, cooldown attributes
   carry no handle.  It holds of a new block and is preserved by every transaction. *)
Theorem c21_inv_preserved : forall size seq0 cd t b op,
  inv (new_block size seq0) /\ (inv b -> inv (txn_block cd t b op)).
Proof. intros. split; [apply inv_new | apply inv_txn]. Qed.
Print Assumptions c21_inv_preserved.

(* a release stamps the released address with the clock reading of the call (and frees it at once only under a
   negative cooldown); the datastore round trip then truncates the stamp to whole seconds (state_persist) *)
Theorem c21_release_stamps : forall cd t b p o, valid b -> is_live b o = true ->
  is_live (fst (blk_release_ord cd t b p)) o = true \/
  state_of (fst (blk_release_ord cd t b p)) o = gcst cd t (Cooling t).
Proof. exact release_stamps. Qed.
Print Assumptions c21_release_stamps.

(* THE cooldown theorem, for one stored block under ALL histories of transactions (any clients, any interleaving, any
   clock reading and cooldown setting per transaction, garbage collection at arbitrary times): an ordinal in cooldown
   with stamp r stays in cooldown - hence outside the Unallocated queue, hence not handed out - as long as no
   transaction runs at a clock reading t with  trunc_s r + cooldown < t.  What the code guarantees is therefore
   "not before (r rounded DOWN to the second) + cooldown", i.e. up to one second less than the configured cooldown
   after the release; with a negative cooldown there is no protection at all. *)
Theorem c21_cooldown : forall hist b o r, inv b -> state_of b o = Cooling r ->
  (forall x, In x hist -> cooled (tx_cd x) (tx_t x) (trunc_s r) = false) ->
  (exists r', state_of (run hist b) o = Cooling r' /\ trunc_s r' = trunc_s r)
  /\ ~ In o (bk_unalloc (run hist b)).
Proof.
  intros hist b o r I ST NC. destruct (cooldown_history hist b o r I ST NC) as (I2 & r' & ST' & TR).
  split; [eauto|]. eapply cooling_not_queued; eauto.
Qed.
Print Assumptions c21_cooldown.

(* The same through the client, including every path that deletes a block (release of the last address of a non-affine
   block, ReleaseByHandle, ReleaseAffinity with and without mustBeEmpty) and re-creation by AssignIP: after any history
   of client calls none of which runs at a clock reading with trunc_s r + cooldown < t, the block still exists and the
   address is still in cooldown.  (Client-level domain of Model.v: one pool, one host.) *)
Theorem c21_cooldown_client : forall bs rsv strict autoalloc epoch i o r h st,
  cooling_at i o r st ->
  (forall x, In x h -> cooled (cx_cd x) (cx_t x) (trunc_s r) = false) ->
  cooling_at i o r (crun bs rsv strict autoalloc epoch h st).
Proof. intros. apply client_cooldown_history; auto. Qed.
Print Assumptions c21_cooldown_client.

(* Through the client, multi-block ReleaseIPs: a stale or wrong-handle entry in the (de-duplicated) part of the request
   that falls into block j makes releaseIPsFromBlock write nothing - store unchanged, the block's part reported as
   failed, none of its addresses reported released; the other blocks of the request are served independently
   (release_loop).  (rq_ord of q is the ordinal inside block j.) *)
Theorem c21_client_release_rejects : forall bs cd t st j rs b q,
  get_block st j = Some b -> inv b ->
  In q (dedup_last (localise bs j rs)) -> (rq_ord q < bsize b)%nat ->
  bad_class (classify (gc cd t b) q) ->
  release_block bs cd t st j rs = (st, ([], false)).
Proof. exact release_block_rejects. Qed.
Print Assumptions c21_client_release_rejects.

(* Through the client, ReleaseByHandle: for every block listed in the handle record (listed once), after the loop over
   the handle's blocks the block is gone (it was non-affine and became empty) or none of the addresses the handle
   owned in it is live any more.  Blocks NOT listed in the handle record are not visited (rbh_loop_other): exactness in
   every block therefore rests on C19's agreement between handle records and blocks. *)
Theorem c21_client_by_handle_exact : forall cd t blks st h j b,
  NoDup blks -> In j blks -> get_block st j = Some b -> inv b -> (j < length (cs_blocks st))%nat ->
  handle_cleared cd t b h (get_block (rbh_loop cd t blks st h) j).
Proof. exact rbh_client_exact. Qed.
Print Assumptions c21_client_by_handle_exact.

(* Model meets spec, block stream: the strong invariant winv (inv + every free ordinal is queued, queued ordinals are in
   range, free ordinals carry no sequence number) holds of a new block, and for every block satisfying it, every clock
   reading and cooldown setting, the oracle's ok_step (ALL its clauses: wf, auth, cool, fifo, result, seq) accepts the
   model's step and the invariant is preserved - for autoAssign (any reserved set), assign (success, already-allocated,
   out of range), releaseByHandle (with and without sequence number), garbageCollect and the datastore round trip.
   PARTIAL, missing: (1) the same for BRelease: its state / fifo / seq clauses follow from gc_like_step with
   b1 = mark_released (as for releaseByHandle); what is not done is the reflection  existsb req_bad = true <-> scan
   returns inr  and the equality of the "not allocated" lists; (2) folding the per-step statement and hist_ok over a whole
   run (block_oracle (new_block ..) [] (model run) = true; invariant: every entry of hist <= bk_seq); (3) the transaction
   form (ok_step true for txn, slot_ok for cstep).  For transactions the clauses (wf) and (cool) are proved:
   c21_inv_preserved, c21_cooldown, and below. *)
Theorem c21_model_meets_spec_partial : forall cd t pb op, winv pb ->
  (forall size seq0, winv (new_block size seq0)) /\ (match op with BRelease _ => True | _ => step_ok cd t pb op end).
Proof.
  intros cd t pb op W. split; [intros; apply winv_new|].
  destruct op; auto.
  - apply step_auto; auto.
  - apply step_assign; auto.
  - apply step_rbh; auto.
  - apply step_gc; auto.
  - apply step_persist; auto.
Qed.
Print Assumptions c21_model_meets_spec_partial.

(* one transaction keeps the weak invariant and the cooldown clause in the form the oracle checks it *)
Theorem c21_txn_meets_cool_clause : forall cd t b op o r, inv b ->
  inv (txn_block cd t b op) /\
  (state_of b o = Cooling r -> cooled cd t r = false ->
   state_of (txn_block cd t b op) o = Cooling r \/ state_of (txn_block cd t b op) o = Cooling (trunc_s r)).
Proof.
  intros cd t b op o r I. split; [apply inv_txn; auto|]. intros ST NC.
  destruct (txn_block_shape cd t b op) as [E|E]; rewrite E.
  - auto.
  - right. rewrite state_persist, (op_keeps_cooling cd t b op o r I ST NC). auto.
Qed.
Print Assumptions c21_txn_meets_cool_clause.

(* the hypotheses are satisfiable: allocate, release (cooldown 1s), time passes, reallocate the same ordinal *)
Example c21_aba_example :
  let b0 := new_block 1 100 in
  let b1 := txn_block 1 0 b0 (TAuto (Some 1%N) 1%N 1 []) in
  let h := [{| tx_cd := 1; tx_t := 5; tx_op := TRbh 1%N |}] in
  hands_out 1 0 b0 (TAuto (Some 1%N) 1%N 1 []) 0 b1 /\
  hands_out 1 3000000000 (run h b1) (TAuto (Some 2%N) 1%N 1 []) 0
            (txn_block 1 3000000000 (run h b1) (TAuto (Some 2%N) 1%N 1 []))
  /\ seq_of b1 0 = 100%N
  /\ seq_of (txn_block 1 3000000000 (run h b1) (TAuto (Some 2%N) 1%N 1 [])) 0 = 102%N.
Proof. vm_compute. repeat split; eexists; split; eauto; simpl; auto. Qed.

(* ... and the cooldown is honoured in it: one nanosecond too early nothing is handed out *)
Example c21_cooldown_example :
  let b0 := new_block 1 100 in
  let b1 := txn_block 1 0 b0 (TAuto (Some 1%N) 1%N 1 []) in
  let b2 := txn_block 1 5 b1 (TRbh 1%N) in
  txn 1 1000000000 b2 (TAuto (Some 2%N) 1%N 1 []) = (None, ResAuto [])
  /\ snd (txn 1 1000000001 b2 (TAuto (Some 2%N) 1%N 1 [])) = ResAuto [0%nat].
Proof. vm_compute. auto. Qed.

(* the model's runs are accepted by the oracle on a scripted history (sanity of Spec.v against Model.v) *)
Example c21_oracle_accepts_model_run :
  let ops := [ (0%N, BAuto (Some 1%N) 1%N 2 [1%nat]); (1%N, BRelease [{| rq_ord := 0; rq_handle := Some 1%N; rq_seq := None |}]);
               (2%N, BPersist); (3000000000%N, BGC); (3000000001%N, BAuto (Some 2%N) 1%N 3 []) ] in
  let obs := (fix go b l := match l with
                            | [] => []
                            | (t, o) :: rest => let '(b', r) := bstep 2 t b o in
                                                {| bo_t := t; bo_cd := 2; bo_op := o; bo_blk := b'; bo_res := r |} :: go b' rest
                            end) (new_block 4 50) ops in
  check_case (BlockCase 4 50 obs) = (true, true).
Proof. vm_compute. reflexivity. Qed.
