From Coq Require Import List NArith ZArith Bool Arith.
From Verif.C21 Require Import Model Spec.
Import ListNotations.

Theorem c21_new_block_wf : forall size seq0, wf_block_b (new_block size seq0) = true -> bsize (new_block size seq0) = size.
Proof. intros. unfold bsize, new_block. simpl. apply repeat_length. Qed.
Print Assumptions c21_new_block_wf.
