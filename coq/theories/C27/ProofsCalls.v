(* C27 — proofs, part 5: histories of UpdateFrom / UpdateFromConfigUpdate calls: Config.Err is sticky, the
   `changed` result, a ConfigUpdate message decides alone. *)
From Coq Require Import List NArith Bool Lia.
From Verif.C27 Require Import Model Spec Proofs.
Import ListNotations.
Open Scope N_scope.

Section C.
  Variables K R V : Type.
  Variable keqb : K -> K -> bool.
  Variable kleb : K -> K -> bool.
  Variable lower : K -> K.
  Variable is_none : R -> bool.
  Variable is_empty : R -> bool.
  Variable known : K -> option (pmeta K V).
  Variable parse : K -> R -> option V.
  Variable srcs : list N.
  Variable src_local : N -> bool.
  Variable veqb : V -> V -> bool.
  Variable ov_src : N.
  Hypothesis veqb_refl : forall v, veqb v v = true.
  Hypothesis keqb_refl : forall k, keqb k k = true.

  Notation run_calls' := (run_calls keqb kleb lower is_none is_empty known parse srcs src_local veqb ov_src).
  Notation resolve' := (resolve keqb kleb lower is_none known parse srcs src_local).
  Notation apply_upd' := (apply_upd keqb is_empty ov_src).
  Notation hst' := (hst K R).
  Notation call' := (call K R V).

  (* running "or" *)
  Fixpoint scan_or (b : bool) (l : list bool) : list bool :=
    match l with
    | [] => []
    | e :: t => (b || e) :: scan_or (b || e) t
    end.

  (* Config.Err after each call = Config.Err before the history OR some call so far returned an error *)
  Lemma cerr_scan : forall fixed sorted us c prev cerr,
    map (@k_cerr K R V) (run_calls' fixed sorted c prev cerr us)
    = scan_or cerr (map (@k_err K R V) (run_calls' fixed sorted c prev cerr us)).
  Proof.
    intros fixed sorted us. induction us as [|u t IH]; intros; simpl; auto.
    f_equal. apply IH.
  Qed.

  Lemma scan_or_true : forall l, scan_or true l = map (fun _ => true) l.
  Proof. induction l as [|e t IH]; simpl; auto. now rewrite IH. Qed.

  (* once set, Config.Err stays set for the rest of the history *)
  Lemma cerr_sticky : forall fixed sorted us c prev,
    Forall (fun k : call' => k_cerr k = true) (run_calls' fixed sorted c prev true us).
  Proof.
    intros fixed sorted us. induction us as [|u t IH]; intros; simpl; constructor; auto.
  Qed.

  Lemma changed_same : forall st : rst K R V, changed_names keqb kleb lower known veqb st st = [].
  Proof.
    intros st. unfold changed_names.
    generalize (fold_right (add_key keqb) [] (map fst (r_vals st) ++ map fst (r_vals st))) as ns. intros ns.
    assert (E : filter (fun n : K => match known (lower n) with
                                     | Some m => negb (veqb (effective keqb st m) (effective keqb st m))
                                     | None => false
                                     end) ns = []).
    { induction ns as [|a ns IH]; simpl; auto. destruct (known (lower a)); auto. now rewrite veqb_refl. }
    now rewrite E.
  Qed.

  (* a call that leaves the raw configuration as it was (e.g. the calculation graph's ConfigUpdate message carrying what
     Felix already has, or the same UpdateFrom again) changes no field and returns no error, provided the previous
     resolve succeeded *)
  Lemma unchanged_cfg_unchanged_fields : forall fixed sorted (h : hst') st cerr u t,
    resolve' fixed sorted (fst h) = Some st -> fst (apply_upd' h u) = fst h ->
    match run_calls' fixed sorted h (Some st) cerr (u :: t) with
    | k :: _ => k_changed k = Some [] /\ k_err k = false /\ k_res k = Some st
    | [] => False
    end.
  Proof.
    intros fixed sorted h st cerr u t Hr Hu. simpl. rewrite Hu, Hr. simpl. now rewrite changed_same.
  Qed.

  Lemma aset_idem : forall A B (eqb : A -> A -> bool) (s : A) (v : B) l, eqb s s = true ->
    aset eqb s v (aset eqb s v l) = aset eqb s v l.
  Proof.
    intros A B eqb s v l Hr. induction l as [|[s' v'] l IH]; simpl.
    - now rewrite Hr.
    - destruct (eqb s s') eqn:E; simpl.
      + now rewrite Hr.
      + now rewrite E, IH.
  Qed.

  Lemma apply_upd_idem : forall (h : hst') u, apply_upd' (apply_upd' h u) u = apply_upd' h u.
  Proof.
    intros [c ov] [s kvs|c'|k v]; simpl; auto.
    - unfold store. now rewrite aset_idem by apply N.eqb_refl.
    - rewrite (aset_idem _ _ keqb k v ov (keqb_refl k)). unfold store. now rewrite aset_idem by apply N.eqb_refl.
  Qed.

  (* the same call twice in a row: the second one reports no change *)
  Lemma repeat_update_unchanged : forall fixed sorted (h : hst') prev cerr u t st,
    resolve' fixed sorted (fst (apply_upd' h u)) = Some st ->
    match run_calls' fixed sorted h prev cerr (u :: u :: t) with
    | _ :: k2 :: _ => k_changed k2 = Some [] /\ k_err k2 = false
    | _ => False
    end.
  Proof.
    intros fixed sorted h prev cerr u t st Hr. simpl. rewrite apply_upd_idem, Hr. simpl. now rewrite changed_same.
  Qed.

  Lemma res_cerr_indep : forall fixed sorted t (h : hst') p a a',
    map (@k_res K R V) (run_calls' fixed sorted h p a t) = map (@k_res K R V) (run_calls' fixed sorted h p a' t).
  Proof. intros fixed sorted t. induction t as [|u t IH]; intros; simpl; auto. f_equal. apply IH. Qed.

  (* UpdateFromConfigUpdate: the message alone decides, whatever sources were loaded before *)
  Lemma config_update_decides : forall fixed sorted c1 c2 ov p1 p2 e1 e2 msg t,
    match run_calls' fixed sorted (c1, ov) p1 e1 (UAll msg :: t), run_calls' fixed sorted (c2, ov) p2 e2 (UAll msg :: t) with
    | k1 :: r1, k2 :: r2 => k_res k1 = resolve' fixed sorted msg /\ k_res k1 = k_res k2 /\ k_err k1 = k_err k2
                            /\ map (@k_res K R V) r1 = map (@k_res K R V) r2
    | _, _ => False
    end.
  Proof. intros. simpl. repeat split; auto. apply res_cerr_indep. Qed.

  (* ---- the resolved configuration is a function of the CURRENT sources, whatever the history ---- *)
  Notation final_hst' := (final_hst keqb is_empty ov_src).

  (* the last call's result is resolve() of the sources as they are after the whole history: nothing else of the history
     enters (in particular not the fields left behind by an earlier resolve that failed half-way) *)
  Lemma history_last : forall fixed sorted us (h : hst') prev cerr d, us <> [] ->
    k_res (last (run_calls' fixed sorted h prev cerr us) d) = resolve' fixed sorted (fst (final_hst' h us)).
  Proof.
    intros fixed sorted us. induction us as [|u t IH]; intros h prev cerr d Hne; [congruence|].
    destruct t as [|u2 t2]; [reflexivity|].
    change (run_calls' fixed sorted h prev cerr (u :: u2 :: t2)) with
      (mk_call (res_err (resolve' fixed sorted (fst (apply_upd' h u))))
               (cerr || res_err (resolve' fixed sorted (fst (apply_upd' h u))))
               (match prev, resolve' fixed sorted (fst (apply_upd' h u)) with
                | Some p, Some st => Some (changed_names keqb kleb lower known veqb p st) | _, _ => None end)
               (resolve' fixed sorted (fst (apply_upd' h u)))
       :: run_calls' fixed sorted (apply_upd' h u) (resolve' fixed sorted (fst (apply_upd' h u)))
            (cerr || res_err (resolve' fixed sorted (fst (apply_upd' h u)))) (u2 :: t2)).
    remember (u2 :: t2) as t eqn:Et.
    assert (Hl : forall (x : call') l d0, l <> [] -> last (x :: l) d0 = last l d0).
    { intros x l d0 Hl. destruct l; [congruence|reflexivity]. }
    rewrite Hl.
    - rewrite IH by (subst t; discriminate). reflexivity.
    - subst t. simpl. discriminate.
  Qed.

  (* two histories (of any length, with any failed calls in between) that end with the same sources give the same result *)
  Lemma same_final_sources_same_result : forall fixed sorted us1 us2 (h1 h2 : hst') p1 p2 e1 e2 d,
    us1 <> [] -> us2 <> [] -> fst (final_hst' h1 us1) = fst (final_hst' h2 us2) ->
    k_res (last (run_calls' fixed sorted h1 p1 e1 us1) d) = k_res (last (run_calls' fixed sorted h2 p2 e2 us2) d).
  Proof. intros. rewrite !history_last by assumption. congruence. Qed.
End C.
