(* C27 — proofs, part 5: histories of UpdateFrom / UpdateFromConfigUpdate calls: Config.Err is sticky, the
   `changed` result, a ConfigUpdate message decides alone. *)
From Coq Require Import List NArith Bool Lia.
From Verif.C27 Require Import Model Spec Proofs.
Import ListNotations.
Open Scope N_scope.

Section C.
  Variables K R V : Type.
  Variable keqb : K -> K -> bool.
  Variable kleb : K -> K -> bool.
  Variable lower : K -> K.
  Variable is_none : R -> bool.
  Variable is_empty : R -> bool.
  Variable known : K -> option (pmeta K V).
  Variable parse : K -> R -> option V.
  Variable srcs : list N.
  Variable src_local : N -> bool.
  Variable veqb : V -> V -> bool.
  Hypothesis veqb_refl : forall v, veqb v v = true.

  Notation run_calls' := (run_calls keqb kleb lower is_none is_empty known parse srcs src_local veqb).
  Notation resolve' := (resolve keqb kleb lower is_none known parse srcs src_local).
  Notation apply_upd' := (apply_upd (K := K) is_empty).
  Notation call' := (call K R V).

  (* running "or" *)
  Fixpoint scan_or (b : bool) (l : list bool) : list bool :=
    match l with
    | [] => []
    | e :: t => (b || e) :: scan_or (b || e) t
    end.

  (* Config.Err after each call = Config.Err before the history OR some call so far returned an error *)
  Lemma cerr_scan : forall fixed sorted us c prev cerr,
    map (@k_cerr K R V) (run_calls' fixed sorted c prev cerr us)
    = scan_or cerr (map (@k_err K R V) (run_calls' fixed sorted c prev cerr us)).
  Proof.
    intros fixed sorted us. induction us as [|u t IH]; intros; simpl; auto.
    f_equal. apply IH.
  Qed.

  Lemma scan_or_true : forall l, scan_or true l = map (fun _ => true) l.
  Proof. induction l as [|e t IH]; simpl; auto. now rewrite IH. Qed.

  (* once set, Config.Err stays set for the rest of the history *)
  Lemma cerr_sticky : forall fixed sorted us c prev,
    Forall (fun k : call' => k_cerr k = true) (run_calls' fixed sorted c prev true us).
  Proof.
    intros fixed sorted us. induction us as [|u t IH]; intros; simpl; constructor; auto.
  Qed.

  Lemma changed_same : forall st : rst K R V, changed_names keqb kleb lower known veqb st st = [].
  Proof.
    intros st. unfold changed_names.
    generalize (fold_right (add_key keqb) [] (map fst (r_vals st) ++ map fst (r_vals st))) as ns. intros ns.
    assert (E : filter (fun n : K => match known (lower n) with
                                     | Some m => negb (veqb (effective keqb st m) (effective keqb st m))
                                     | None => false
                                     end) ns = []).
    { induction ns as [|a ns IH]; simpl; auto. destruct (known (lower a)); auto. now rewrite veqb_refl. }
    now rewrite E.
  Qed.

  (* a call that leaves the raw configuration as it was (e.g. the calculation graph's ConfigUpdate message carrying what
     Felix already has, or the same UpdateFrom again) changes no field and returns no error, provided the previous
     resolve succeeded *)
  Lemma unchanged_cfg_unchanged_fields : forall fixed sorted c st cerr u t,
    resolve' fixed sorted c = Some st -> apply_upd' c u = c ->
    match run_calls' fixed sorted c (Some st) cerr (u :: t) with
    | k :: _ => k_changed k = Some [] /\ k_err k = false /\ k_res k = Some st
    | [] => False
    end.
  Proof.
    intros fixed sorted c st cerr u t Hr Hu. simpl. rewrite Hu, Hr. simpl. now rewrite changed_same.
  Qed.

  Lemma aset_idem : forall B (s : N) (v : B) l, aset N.eqb s v (aset N.eqb s v l) = aset N.eqb s v l.
  Proof.
    induction l as [|[s' v'] l IH]; simpl.
    - now rewrite N.eqb_refl.
    - destruct (s =? s') eqn:E; simpl.
      + now rewrite N.eqb_refl.
      + now rewrite E, IH.
  Qed.

  Lemma apply_upd_idem : forall c u, apply_upd' (apply_upd' c u) u = apply_upd' c u.
  Proof. intros c [s kvs|c']; simpl; auto. unfold store. apply aset_idem. Qed.

  (* the same call twice in a row: the second one reports no change *)
  Lemma repeat_update_unchanged : forall fixed sorted c prev cerr u t st,
    resolve' fixed sorted (apply_upd' c u) = Some st ->
    match run_calls' fixed sorted c prev cerr (u :: u :: t) with
    | _ :: k2 :: _ => k_changed k2 = Some [] /\ k_err k2 = false
    | _ => False
    end.
  Proof.
    intros fixed sorted c prev cerr u t st Hr. simpl. rewrite apply_upd_idem, Hr. simpl. now rewrite changed_same.
  Qed.

  Lemma res_cerr_indep : forall fixed sorted t c p a a',
    map (@k_res K R V) (run_calls' fixed sorted c p a t) = map (@k_res K R V) (run_calls' fixed sorted c p a' t).
  Proof. intros fixed sorted t. induction t as [|u t IH]; intros; simpl; auto. f_equal. apply IH. Qed.

  (* UpdateFromConfigUpdate: the message alone decides, whatever was loaded before *)
  Lemma config_update_decides : forall fixed sorted c1 c2 p1 p2 e1 e2 msg t,
    match run_calls' fixed sorted c1 p1 e1 (UAll msg :: t), run_calls' fixed sorted c2 p2 e2 (UAll msg :: t) with
    | k1 :: r1, k2 :: r2 => k_res k1 = resolve' fixed sorted msg /\ k_res k1 = k_res k2 /\ k_err k1 = k_err k2
                            /\ map (@k_res K R V) r1 = map (@k_res K R V) r2
    | _, _ => False
    end.
  Proof. intros. simpl. repeat split; auto. apply res_cerr_indep. Qed.
End C.
