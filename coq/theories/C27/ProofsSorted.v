(* C27 — proofs, part 4: the SORTED variant of resolve() (fixes/C27-deterministic-key-order.patch, the code now in
   the tree): the keys of every source are visited in sorted order, so the result is the same for every map
   iteration order, also when a source spells a parameter in several ways; the spelling that is last in the key
   order wins. *)
From Coq Require Import List NArith Bool Lia Permutation Sorted.
From Verif.C27 Require Import Model Spec Proofs.
Import ListNotations.
Open Scope N_scope.

Section S.
  Variables K R V : Type.
  Variable keqb : K -> K -> bool.
  Variable lower : K -> K.
  Variable is_none : R -> bool.
  Variable known : K -> option (pmeta K V).
  Variable parse : K -> R -> option V.
  Variable src_local : N -> bool.
  Variable kleb : K -> K -> bool.
  Variable srcs : list N.

  Hypothesis keqb_eq : forall a b, keqb a b = true <-> a = b.
  Hypothesis known_name : forall lk m, known lk = Some m -> lower (pm_name m) = lk.
  Hypothesis srcs_desc : sdesc srcs.
  Hypothesis srcs_pos : forall s, In s srcs -> 0 < s.
  (* the key order is a total order (Go's < on strings) *)
  Hypothesis kleb_total : forall a b, kleb a b = true \/ kleb b a = true.
  Hypothesis kleb_antisym : forall a b, kleb a b = true -> kleb b a = true -> a = b.
  Hypothesis kleb_trans : forall a b c, kleb a b = true -> kleb b c = true -> kleb a c = true.

  Notation resolve' := (resolve keqb kleb lower is_none known parse srcs src_local).
  Notation sort' := (sort_kvs (R := R) kleb).
  Notation insert' := (insert_kv (R := R) kleb).
  Definition kle (x y : K * R) : Prop := kleb (fst x) (fst y) = true.

  Lemma insert_perm : forall x l, Permutation (x :: l) (insert' x l).
  Proof.
    induction l as [|h t IH]; simpl; auto.
    destruct (kleb (fst x) (fst h)); auto.
    eapply perm_trans; [apply perm_swap|]. now apply perm_skip.
  Qed.

  Lemma sort_perm : forall l, Permutation l (sort' l).
  Proof.
    induction l as [|h t IH]; simpl; auto.
    eapply perm_trans; [apply perm_skip, IH|]. apply insert_perm.
  Qed.

  Lemma insert_sorted : forall x l, StronglySorted kle l -> StronglySorted kle (insert' x l).
  Proof.
    induction l as [|h t IH]; intros Hs; simpl.
    - constructor; constructor.
    - inversion Hs as [|? ? Hst Hall]; subst.
      destruct (kleb (fst x) (fst h)) eqn:E.
      + constructor; auto. constructor; auto.
        apply Forall_forall. intros y Hy. rewrite Forall_forall in Hall. unfold kle in *. eauto.
      + constructor; auto.
        apply Forall_forall. intros y Hy.
        apply (Permutation_in _ (Permutation_sym (insert_perm x t))) in Hy. destruct Hy as [<-|Hy].
        * unfold kle. destruct (kleb_total (fst x) (fst h)); congruence.
        * rewrite Forall_forall in Hall. auto.
  Qed.

  Lemma sort_sorted : forall l, StronglySorted kle (sort' l).
  Proof. induction l as [|h t IH]; simpl; [constructor|now apply insert_sorted]. Qed.

  (* sorted lists with distinct keys that are permutations of each other are equal *)
  Lemma sorted_perm_unique : forall l l' : list (K * R),
    StronglySorted kle l -> StronglySorted kle l' -> NoDup (map fst l) -> Permutation l l' -> l = l'.
  Proof.
    induction l as [|a l IH]; intros l' Hs Hs' Hnd Hp.
    - now apply Permutation_nil in Hp.
    - destruct l' as [|b l']; [apply Permutation_sym, Permutation_nil in Hp; discriminate|].
      inversion Hs as [|? ? Hsl Hal]; subst. inversion Hs' as [|? ? Hsl' Hal']; subst.
      inversion Hnd as [|? ? Hni Hndl]; subst.
      rewrite Forall_forall in Hal, Hal'.
      assert (Hab : a = b).
      { assert (Ha : In a (b :: l')) by (apply (Permutation_in _ Hp); simpl; auto).
        assert (Hb : In b (a :: l)) by (apply (Permutation_in _ (Permutation_sym Hp)); simpl; auto).
        destruct Ha as [->|Ha]; auto. destruct Hb as [->|Hb]; auto.
        exfalso. apply Hni. pose proof (Hal _ Hb) as H1. pose proof (Hal' _ Ha) as H2. unfold kle in *.
        rewrite (kleb_antisym _ _ H1 H2). now apply in_map. }
      subst b. f_equal. apply IH; auto. now apply Permutation_cons_inv in Hp.
  Qed.

  Lemma perm_nodup_keys : forall l l' : list (K * R), Permutation l l' -> NoDup (map fst l) -> NoDup (map fst l').
  Proof. intros l l' Hp Hn. eapply Permutation_NoDup; [|exact Hn]. now apply Permutation_map. Qed.

  Lemma sort_perm_eq : forall l l' : list (K * R), NoDup (map fst l) -> Permutation l l' -> sort' l = sort' l'.
  Proof.
    intros l l' Hnd Hp. apply sorted_perm_unique; try apply sort_sorted.
    - apply (perm_nodup_keys l); auto. apply sort_perm.
    - eapply perm_trans; [apply Permutation_sym, sort_perm|]. eapply perm_trans; [exact Hp|apply sort_perm].
  Qed.

  Lemma run_srcs_order_ext : forall fixed sorted (c c' : cfg K R) ss st,
    (forall s, order kleb sorted (src_kvs c s) = order kleb sorted (src_kvs c' s)) ->
    run_srcs keqb kleb lower is_none known parse src_local fixed sorted c ss st
    = run_srcs keqb kleb lower is_none known parse src_local fixed sorted c' ss st.
  Proof.
    intros fixed sorted c c' ss. induction ss as [|s ss IH]; intros st H; simpl; auto.
    rewrite (H s). destruct (run_kvs _ _ _ _ _ _ _ _ _ _); auto.
  Qed.

  (* a Go map holds each exact key once *)
  Definition map_like (c : cfg K R) : Prop := forall s, NoDup (map fst (src_kvs c s)).

  (* ORDER INDEPENDENCE, sorted variant, all inputs: resolve returns the SAME result (error or the same fields, raw
     values and nameToSource) for every permutation of every source's entries. *)
  Theorem order_independent_sorted : forall fixed (c c' : cfg K R),
    map_like c -> (forall s, Permutation (src_kvs c s) (src_kvs c' s)) ->
    resolve' fixed true c = resolve' fixed true c'.
  Proof.
    intros fixed c c' Hm Hp. unfold resolve. apply run_srcs_order_ext. intros s. simpl.
    apply sort_perm_eq; auto.
  Qed.

  (* ---- which spelling wins ---- *)
  Definition sortcfg (c : cfg K R) : cfg K R := map (fun sl => (fst sl, sort' (snd sl))) c.

  Lemma src_kvs_sortcfg : forall c s, src_kvs (sortcfg c) s = sort' (src_kvs c s).
  Proof.
    intros c s. unfold src_kvs, sortcfg. induction c as [|[s' l] c IH]; simpl; auto.
    destruct (s =? s'); auto.
  Qed.

  Lemma run_srcs_sorted_as_unsorted : forall fixed c ss st,
    run_srcs keqb kleb lower is_none known parse src_local fixed true c ss st
    = run_srcs keqb kleb lower is_none known parse src_local fixed false (sortcfg c) ss st.
  Proof.
    intros fixed c ss. induction ss as [|s ss IH]; intros st; simpl; auto.
    rewrite src_kvs_sortcfg. destruct (run_kvs _ _ _ _ _ _ _ _ _ _); auto.
  Qed.

  Lemma resolve_sorted_as_unsorted : forall fixed c, resolve' fixed true c = resolve' fixed false (sortcfg c).
  Proof. intros. unfold resolve. apply run_srcs_sorted_as_unsorted. Qed.

  Notation setters' := (setters keqb lower src_local).
  Notation deciding' := (deciding keqb lower srcs src_local).

  Lemma perm_filter' : forall (f : K * R -> bool) l l', Permutation l l' -> Permutation (filter f l) (filter f l').
  Proof.
    intros f l l' H. induction H; simpl; auto.
    - destruct (f x); auto.
    - destruct (f x), (f y); auto. apply perm_swap.
    - eapply perm_trans; eauto.
  Qed.

  Lemma setters_sortcfg_perm : forall c (m : pmeta K V) s, Permutation (setters' c m s) (setters' (sortcfg c) m s).
  Proof.
    intros c m s. unfold setters. destruct (eligible src_local m s); auto.
    apply Permutation_map, perm_filter'. rewrite src_kvs_sortcfg. apply sort_perm.
  Qed.

  Lemma deciding_sortcfg : forall c (m : pmeta K V), deciding' (sortcfg c) m = deciding' c m.
  Proof.
    intros c m. unfold deciding. apply find_ext'. intros s.
    pose proof (setters_sortcfg_perm c m s) as Hp.
    destruct (setters' c m s) eqn:E1, (setters' (sortcfg c) m s) eqn:E2; auto.
    - apply Permutation_nil in Hp. discriminate.
    - apply Permutation_sym, Permutation_nil in Hp. discriminate.
  Qed.

  Lemma filter_sorted : forall (f : K * R -> bool) l, StronglySorted kle l -> StronglySorted kle (filter f l).
  Proof.
    induction l as [|a l IH]; intros Hs; simpl; [constructor|].
    inversion Hs as [|? ? Hsl Hal]; subst. destruct (f a); auto.
    constructor; auto. rewrite Forall_forall in *. intros y Hy. apply filter_In in Hy. apply Hal. tauto.
  Qed.

  (* in a sorted list with distinct keys the element with the greatest key is the last one *)
  Lemma sorted_last : forall (l : list (K * R)) x,
    StronglySorted kle l -> NoDup (map fst l) -> In x l -> (forall y, In y l -> kle y x) -> exists l0, l = l0 ++ [x].
  Proof.
    induction l as [|a l IH]; intros x Hs Hnd Hin Hmax; [destruct Hin|].
    inversion Hs as [|? ? Hsl Hal]; subst. inversion Hnd as [|? ? Hni Hndl]; subst. rewrite Forall_forall in Hal.
    destruct l as [|b0 l].
    - destruct Hin as [->|[]]. exists []. reflexivity.
    - assert (Hx : In x (b0 :: l)).
      { destruct Hin as [<-|Hin]; auto. exfalso. apply Hni.
        assert (Hb : In b0 (b0 :: l)) by (simpl; auto).
        pose proof (Hal _ Hb) as H1. pose proof (Hmax b0 (or_intror Hb)) as H2. unfold kle in *.
        rewrite (kleb_antisym _ _ H1 H2). now apply in_map. }
      destruct (IH x Hsl Hndl Hx) as [l0 E]; [intros y Hy; apply Hmax; simpl; auto|].
      exists (a :: l0). simpl. now rewrite E.
  Qed.

  Lemma nodup_filter_keys : forall (f : K * R -> bool) l, NoDup (map fst l) -> NoDup (map fst (filter f l)).
  Proof.
    induction l as [|a l IH]; intros H; simpl; auto. inversion H as [|? ? Hni Hnd]; subst.
    destruct (f a); simpl; auto. constructor; auto. intros Hin. apply Hni.
    apply in_map_iff in Hin. destruct Hin as (y & E & Hy). apply filter_In in Hy. rewrite <- E. apply in_map. tauto.
  Qed.

  (* WHICH SPELLING WINS, sorted variant: on success the parameter has the value of the entry of the deciding source whose
     name is LAST in the key order (byte order of Go strings) among the spellings of that parameter in that source. *)
  Theorem sorted_last_spelling_wins : forall fixed (c : cfg K R) st lk m s k rv,
    map_like c ->
    resolve' fixed true c = Some st ->
    known lk = Some m -> deciding' c m = Some s -> eligible src_local m s = true ->
    In (k, rv) (src_kvs c s) -> sets_param keqb lower m (k, rv) = true ->
    (forall k' rv', In (k', rv') (src_kvs c s) -> sets_param keqb lower m (k', rv') = true -> kleb k' k = true) ->
    Some (effective keqb st m) = value_of is_none parse m rv.
  Proof.
    intros fixed c st lk m s k rv Hm Hr Hk Hd He Hin Hsp Hmax.
    rewrite resolve_sorted_as_unsorted in Hr.
    pose proof (resolve_spec K R V keqb lower is_none known parse src_local kleb srcs keqb_eq known_name srcs_desc srcs_pos
                  fixed (sortcfg c)) as H.
    rewrite Hr in H. destruct H as [_ H]. rewrite (H lk m Hk). unfold spec_outcome.
    rewrite deciding_sortcfg, Hd. unfold setters. rewrite He, src_kvs_sortcfg.
    set (fl := filter (sets_param keqb lower m) (sort' (src_kvs c s))).
    assert (Hfl : exists l0, fl = l0 ++ [(k, rv)]).
    { apply sorted_last.
      - apply filter_sorted, sort_sorted.
      - apply nodup_filter_keys. apply (perm_nodup_keys (src_kvs c s)); [apply sort_perm|apply Hm].
      - apply filter_In. split; auto. apply (Permutation_in _ (sort_perm _)); auto.
      - intros [k' rv'] Hy. apply filter_In in Hy. destruct Hy as [Hy1 Hy2]. unfold kle; simpl.
        apply (Hmax k' rv'); auto. apply (Permutation_in _ (Permutation_sym (sort_perm _))); auto. }
    destruct Hfl as [l0 E]. rewrite E, map_app, rev_app_distr. reflexivity.
  Qed.

  (* ---- the oracle of Spec.v accepts every run of the repaired model, sorted or not ---- *)
  Variable veqb : V -> V -> bool.
  Hypothesis veqb_refl : forall v, veqb v v = true.
  Notation ok_err' := (ok_err keqb lower is_none known parse srcs src_local).
  Notation ok_value' := (ok_value keqb lower is_none known parse srcs src_local veqb).
  Notation allowed' := (allowed keqb lower is_none parse srcs src_local).
  Notation mentioned' := (mentioned lower known).

  Lemma existsb_same_elems : forall A (f : A -> bool) l l', (forall x, In x l <-> In x l') -> existsb f l = existsb f l'.
  Proof.
    intros A f l l' H. apply eq_iff_eq_true. rewrite !existsb_exists.
    split; intros (x & Hx & Hf); exists x; split; auto; now apply H.
  Qed.
  Lemma forallb_same_elems : forall A (f : A -> bool) l l', (forall x, In x l <-> In x l') -> forallb f l = forallb f l'.
  Proof.
    intros A f l l' H. apply eq_iff_eq_true. rewrite !forallb_forall.
    split; intros Hf x Hx; apply Hf; now apply H.
  Qed.

  Lemma mentioned_sortcfg : forall c m, In m (mentioned' (sortcfg c)) <-> In m (mentioned' c).
  Proof.
    intros c m. unfold mentioned, sortcfg. rewrite !in_flat_map. split.
    - intros (sl & Hsl & H). apply in_map_iff in Hsl. destruct Hsl as ([s l] & <- & Hin). exists (s, l). split; auto.
      simpl in *. rewrite in_flat_map in *. destruct H as (kv & Hkv & H). exists kv. split; auto.
      apply (Permutation_in _ (Permutation_sym (sort_perm l))); auto.
    - intros ([s l] & Hin & H). exists (s, sort' l). split; [apply in_map_iff; exists (s, l); auto|].
      simpl in *. rewrite in_flat_map in *. destruct H as (kv & Hkv & H). exists kv. split; auto.
      apply (Permutation_in _ (sort_perm l)); auto.
  Qed.

  Lemma allowed_sortcfg : forall c (m : pmeta K V) o, In o (allowed' (sortcfg c) m) <-> In o (allowed' c m).
  Proof.
    intros c m o. unfold allowed. rewrite deciding_sortcfg. destruct (deciding' c m) as [s|]; [|tauto].
    pose proof (Permutation_map (value_of is_none parse m) (setters_sortcfg_perm c m s)) as Hp.
    split; intros H; [apply (Permutation_in _ (Permutation_sym Hp))|apply (Permutation_in _ Hp)]; auto.
  Qed.

  Lemma existsb_ext' : forall A (f g : A -> bool) l, (forall x, f x = g x) -> existsb f l = existsb g l.
  Proof. induction l as [|a l IH]; intros H; simpl; auto. now rewrite H, IH. Qed.
  Lemma forallb_ext' : forall A (f g : A -> bool) l, (forall x, f x = g x) -> forallb f l = forallb g l.
  Proof. induction l as [|a l IH]; intros H; simpl; auto. now rewrite H, IH. Qed.

  Lemma ok_err_sortcfg : forall c e, ok_err' (sortcfg c) e = ok_err' c e.
  Proof.
    intros c e. unfold ok_err. destruct e.
    - rewrite (existsb_same_elems _ _ _ _ (mentioned_sortcfg c)). apply existsb_ext'.
      intros m. apply existsb_same_elems. apply allowed_sortcfg.
    - rewrite (forallb_same_elems _ _ _ _ (mentioned_sortcfg c)). apply forallb_ext'.
      intros m. apply existsb_same_elems. apply allowed_sortcfg.
  Qed.

  Lemma ok_value_sortcfg : forall c n v, ok_value' (sortcfg c) n v = ok_value' c n v.
  Proof.
    intros c n v. unfold ok_value. destruct (known (lower n)) as [m|]; auto.
    apply existsb_same_elems. apply allowed_sortcfg.
  Qed.

  (* MODEL MEETS SPEC: for every configuration, in both key-order variants, the repaired model's error outcome and every
     parameter value it computes are accepted by the boolean oracle of Spec.v (the one applied to the implementation). *)
  Theorem model_meets_spec : forall sorted (c : cfg K R),
    ok_err' c (res_err (resolve' true sorted c)) = true
    /\ forall st, resolve' true sorted c = Some st ->
         forall lk m, known lk = Some m -> ok_value' c (pm_name m) (effective keqb st m) = true.
  Proof.
    intros [|] c.
    - rewrite resolve_sorted_as_unsorted.
      destruct (model_meets_spec_unsorted K R V keqb lower is_none known parse src_local kleb srcs keqb_eq known_name
                  srcs_desc srcs_pos veqb veqb_refl (sortcfg c)) as [H1 H2].
      split; [now rewrite <- ok_err_sortcfg|]. intros st Hr lk m Hk. rewrite <- ok_value_sortcfg. eauto.
    - exact (model_meets_spec_unsorted K R V keqb lower is_none known parse src_local kleb srcs keqb_eq known_name
               srcs_desc srcs_pos veqb veqb_refl c).
  Qed.
End S.

(* ---- Go's string order on byte strings is a total order ---- *)
Lemma bleb_total : forall a b, bleb a b = true \/ bleb b a = true.
Proof.
  induction a as [|x a IH]; destruct b as [|y b0]; simpl; auto.
  destruct (N.ltb_spec x y), (N.ltb_spec y x); auto; try lia.
Qed.
Lemma bleb_antisym : forall a b, bleb a b = true -> bleb b a = true -> a = b.
Proof.
  induction a as [|x a IH]; destruct b as [|y b0]; simpl; intros H1 H2; auto; try discriminate.
  destruct (N.ltb_spec x y), (N.ltb_spec y x); try discriminate; try lia.
  assert (x = y) by lia. subst. f_equal. auto.
Qed.
Lemma bleb_trans : forall a b c, bleb a b = true -> bleb b c = true -> bleb a c = true.
Proof.
  induction a as [|x a IH]; destruct b as [|y b0]; destruct c as [|z c0]; simpl; intros H1 H2; auto; try discriminate.
  destruct (N.ltb_spec x y), (N.ltb_spec y x), (N.ltb_spec y z), (N.ltb_spec z y), (N.ltb_spec x z), (N.ltb_spec z x);
    auto; try discriminate; try lia. eauto.
Qed.
