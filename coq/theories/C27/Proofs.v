(* C27 — proofs. *)
From Coq Require Import List NArith Bool Lia.
From Verif.C27 Require Import Model Spec.
Import ListNotations.
Open Scope N_scope.

Section P.
  Variables K R V : Type.
  Variable keqb : K -> K -> bool.
  Variable lower : K -> K.
  Variable is_none : R -> bool.
  Variable known : K -> option (pmeta K V).
  Variable parse : K -> R -> option V.
  Variable src_local : N -> bool.

  Lemma step_local_skipped : forall fixed src st k rv m,
    known (lower k) = Some m -> pm_local m = true -> src_local src = false ->
    step keqb lower is_none known parse src_local fixed src st (k, rv) = Some st.
  Proof.
    intros. unfold step. rewrite H, H0, H1. reflexivity.
  Qed.
End P.
