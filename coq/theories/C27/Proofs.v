(* C27 — proofs, part 1: the loop of resolve() characterised over the flattened list of entries. *)
From Coq Require Import List NArith Bool Lia Permutation.
From Verif.C27 Require Import Model Spec.
Import ListNotations.
Open Scope N_scope.

Section P.
  Variables K R V : Type.
  Variable keqb : K -> K -> bool.
  Variable lower : K -> K.
  Variable is_none : R -> bool.
  Variable known : K -> option (pmeta K V).
  Variable parse : K -> R -> option V.
  Variable src_local : N -> bool.
  Variable kleb : K -> K -> bool.
  Variable srcs : list N.

  Hypothesis keqb_eq : forall a b, keqb a b = true <-> a = b.
  (* knownParams is keyed by the lower-cased field name *)
  Hypothesis known_name : forall lk m, known lk = Some m -> lower (pm_name m) = lk.

  Notation step' := (step keqb lower is_none known parse src_local).
  Notation interp' := (interp is_none parse).
  Notation rst' := (rst K R V).

  Lemma step_local_skipped : forall fixed src st k rv m,
    known (lower k) = Some m -> pm_local m = true -> src_local src = false ->
    step' fixed src st (k, rv) = Some st.
  Proof.
    intros. unfold step. rewrite H, H0, H1. reflexivity.
  Qed.

  Lemma keqb_refl : forall a, keqb a a = true.
  Proof. intros; now apply keqb_eq. Qed.
  Lemma keqb_neq : forall a b, a <> b -> keqb a b = false.
  Proof. intros a b H. destruct (keqb a b) eqn:E; auto. apply keqb_eq in E. contradiction. Qed.

  Lemma aget_aset_same : forall B k (v : B) l, aget keqb k (aset keqb k v l) = Some v.
  Proof.
    induction l as [|[k' v'] l IH]; simpl.
    - now rewrite keqb_refl.
    - destruct (keqb k k') eqn:E; simpl.
      + now rewrite keqb_refl.
      + now rewrite E.
  Qed.
  Lemma aget_aset_other : forall B k k' (v : B) l, k <> k' -> aget keqb k' (aset keqb k v l) = aget keqb k' l.
  Proof.
    induction l as [|[k2 v2] l IH]; intros Hn; simpl.
    - rewrite keqb_neq; auto.
    - destruct (keqb k k2) eqn:E; simpl.
      + apply keqb_eq in E. subst k2. assert (Hn' : k' <> k) by congruence.
        rewrite !(keqb_neq k' k) by exact Hn'. reflexivity.
      + destruct (keqb k' k2); auto.
  Qed.

  (* ---- flattened entries: (source, (name, raw)) in processing order ---- *)
  Notation ent := (N * (K * R))%type.
  Definition stepf (fixed : bool) (st : rst') (t : ent) := step' fixed (fst t) st (snd t).
  Fixpoint run_flat (fixed : bool) (L : list ent) (st : rst') : option rst' :=
    match L with
    | [] => Some st
    | t :: L' => match stepf fixed st t with None => None | Some st' => run_flat fixed L' st' end
    end.

  Lemma run_flat_app : forall fixed A B st,
    run_flat fixed (A ++ B) st = match run_flat fixed A st with None => None | Some st' => run_flat fixed B st' end.
  Proof.
    induction A as [|a A IH]; intros; simpl; auto.
    destruct (stepf fixed st a); auto.
  Qed.

  Lemma run_kvs_flat : forall fixed s kvs st,
    run_kvs keqb lower is_none known parse src_local fixed s kvs st = run_flat fixed (map (pair s) kvs) st.
  Proof.
    induction kvs as [|kv kvs IH]; intros; simpl; auto.
    unfold stepf; simpl. destruct (step' fixed s st kv); auto.
  Qed.

  Definition flat (c : cfg K R) (ss : list N) : list ent := flat_map (fun s => map (pair s) (src_kvs c s)) ss.

  Lemma run_srcs_flat : forall fixed c ss st,
    run_srcs keqb kleb lower is_none known parse src_local fixed false c ss st = run_flat fixed (flat c ss) st.
  Proof.
    induction ss as [|s ss IH]; intros; simpl; auto.
    rewrite run_flat_app, run_kvs_flat. destruct (run_flat fixed (map (pair s) (src_kvs c s)) st); auto.
  Qed.

  (* ---- which entries count ---- *)
  Definition lk_of (t : ent) : K := lower (fst (snd t)).
  Definition rv_of (t : ent) : R := snd (snd t).
  (* not a local-only parameter read from a non-local source *)
  Definition elig (t : ent) : bool :=
    match known (lk_of t) with
    | Some m => negb (pm_local m && negb (src_local (fst t)))
    | None => true
    end.
  Definition hits (lk : K) (t : ent) : bool := keqb (lk_of t) lk && elig t.
  (* the source of the first entry for lk: the highest-priority source that sets it (0 if none) *)
  Definition top (P : list ent) (lk : K) : N :=
    match find (hits lk) P with Some t => fst t | None => 0 end.
  Definition wins (P : list ent) (lk : K) (t : ent) : bool := hits lk t && (fst t =? top P lk).
  Definition winners (P : list ent) (lk : K) : list ent := filter (wins P lk) P.
  Definition lastval (P : list ent) (lk : K) (m : pmeta K V) : option V :=
    match rev (winners P lk) with
    | [] => None
    | t :: _ => interp' m (rv_of t)
    end.
  Definition FatalIn (fixed : bool) (P : list ent) : Prop :=
    exists t m, In t P /\ known (lk_of t) = Some m /\ elig t = true
                /\ (fixed = true -> fst t = top P (lk_of t)) /\ interp' m (rv_of t) = None.

  Fixpoint desc (L : list ent) : Prop :=
    match L with
    | [] => True
    | t :: L' => (forall u, In u L' -> fst u <= fst t) /\ desc L'
    end.

  Lemma desc_snoc : forall P t, desc (P ++ [t]) -> desc P /\ forall u, In u P -> fst t <= fst u.
  Proof.
    induction P as [|a P IH]; intros t H; simpl in *.
    - split; auto. intros u [].
    - destruct H as [H1 H2]. destruct (IH _ H2) as [H3 H4]. split.
      + split; auto. intros u Hu. apply H1. apply in_or_app; auto.
      + intros u [->|Hu]; auto. apply H1. apply in_or_app; right; simpl; auto.
  Qed.

  Lemma desc_app : forall A B, desc A -> desc B -> (forall a b, In a A -> In b B -> fst b <= fst a) -> desc (A ++ B).
  Proof.
    induction A as [|a A IH]; intros B HA HB H; simpl in *; auto.
    destruct HA as [H1 H2]. split.
    - intros u Hu. apply in_app_or in Hu. destruct Hu; auto.
    - apply IH; auto.
  Qed.

  Lemma find_snoc : forall (f : ent -> bool) P t,
    find f (P ++ [t]) = match find f P with Some u => Some u | None => if f t then Some t else None end.
  Proof.
    induction P as [|a P IH]; intros; simpl; auto.
    destruct (f a); auto.
  Qed.

  Lemma top_snoc : forall P t lk,
    top (P ++ [t]) lk = match find (hits lk) P with Some u => fst u | None => if hits lk t then fst t else 0 end.
  Proof.
    intros. unfold top. rewrite find_snoc. destruct (find (hits lk) P); auto. destruct (hits lk t); auto.
  Qed.

  Lemma top_snoc_found : forall P t lk u, find (hits lk) P = Some u -> top (P ++ [t]) lk = top P lk.
  Proof. intros. rewrite top_snoc. unfold top. now rewrite H. Qed.

  Lemma find_none_all : forall (f : ent -> bool) P, find f P = None -> forall u, In u P -> f u = false.
  Proof. intros f P H u Hu. apply (find_none f P H u Hu). Qed.

  Lemma filter_ext_in' : forall (f g : ent -> bool) P, (forall u, In u P -> f u = g u) -> filter f P = filter g P.
  Proof.
    induction P as [|a P IH]; intros H; simpl; auto.
    rewrite (H a) by (simpl; auto). rewrite IH; auto. intros; apply H; simpl; auto.
  Qed.

  Lemma winners_snoc : forall P t lk,
    winners (P ++ [t]) lk = winners P lk ++ (if wins (P ++ [t]) lk t then [t] else []).
  Proof.
    intros. unfold winners. rewrite filter_app. simpl. f_equal.
    - apply filter_ext_in'. intros u Hu. unfold wins.
      destruct (find (hits lk) P) eqn:E.
      + now rewrite (top_snoc_found P t lk _ E).
      + rewrite (find_none_all _ _ E u Hu). reflexivity.
  Qed.

  Lemma winners_snoc_miss : forall P t lk, hits lk t = false -> winners (P ++ [t]) lk = winners P lk.
  Proof. intros. rewrite winners_snoc. unfold wins. rewrite H. simpl. now rewrite app_nil_r. Qed.

  Lemma lastval_snoc_miss : forall P t lk m, wins (P ++ [t]) lk t = false -> lastval (P ++ [t]) lk m = lastval P lk m.
  Proof. intros. unfold lastval. rewrite winners_snoc, H, app_nil_r. reflexivity. Qed.

  Lemma lastval_snoc_hit : forall P t lk m, wins (P ++ [t]) lk t = true -> lastval (P ++ [t]) lk m = interp' m (rv_of t).
  Proof. intros. unfold lastval. rewrite winners_snoc, H, rev_app_distr. reflexivity. Qed.

  Lemma top_pos_or : forall P lk, (forall u, In u P -> 0 < fst u) ->
    (find (hits lk) P = None /\ top P lk = 0) \/ (exists u, find (hits lk) P = Some u /\ In u P /\ hits lk u = true /\ top P lk = fst u /\ 0 < fst u).
  Proof.
    intros P lk Hpos. unfold top. destruct (find (hits lk) P) as [e|] eqn:E.
    - right. exists e. destruct (find_some _ _ E) as [Hin Hh]. repeat split; auto.
    - left; auto.
  Qed.

  Lemma hits_self : forall t, elig t = true -> hits (lk_of t) t = true.
  Proof. intros. unfold hits. now rewrite keqb_refl, H. Qed.

  Lemma hits_lk : forall lk t, hits lk t = true -> lk_of t = lk /\ elig t = true.
  Proof. unfold hits; intros. apply andb_true_iff in H. destruct H as [H1 H2]. apply keqb_eq in H1. auto. Qed.

  (* a winner-witness of P stays one in P ++ [t] *)
  Lemma fatal_mono : forall fixed P t, FatalIn fixed P -> FatalIn fixed (P ++ [t]).
  Proof.
    intros fixed P t (u & m & Hin & Hk & He & Ht & Hi).
    exists u, m. repeat split; auto.
    - apply in_or_app; auto.
    - intros Hf. specialize (Ht Hf).
      assert (Hh : hits (lk_of u) u = true) by now apply hits_self.
      destruct (find (hits (lk_of u)) P) eqn:E.
      + now rewrite (top_snoc_found P t (lk_of u) _ E).
      + rewrite (find_none_all _ _ E u Hin) in Hh. discriminate.
  Qed.

  Lemma fatal_snoc_inv : forall fixed P t, FatalIn fixed (P ++ [t]) ->
    FatalIn fixed P \/ (exists m, known (lk_of t) = Some m /\ elig t = true
                        /\ (fixed = true -> fst t = top (P ++ [t]) (lk_of t)) /\ interp' m (rv_of t) = None).
  Proof.
    intros fixed P t (u & m & Hin & Hk & He & Ht & Hi).
    apply in_app_or in Hin. destruct Hin as [Hin|[<-|[]]].
    - left. exists u, m. repeat split; auto. intros Hf. specialize (Ht Hf).
      assert (Hh : hits (lk_of u) u = true) by now apply hits_self.
      destruct (find (hits (lk_of u)) P) eqn:E.
      + now rewrite (top_snoc_found P t (lk_of u) _ E) in Ht.
      + rewrite (find_none_all _ _ E u Hin) in Hh. discriminate.
    - right. exists m. auto.
  Qed.

  Definition Inv (fixed : bool) (P : list ent) (r : option rst') : Prop :=
    match r with
    | None => FatalIn fixed P
    | Some st => ~ FatalIn fixed P
                 /\ (forall lk, cur_source keqb st lk = top P lk)
                 /\ (forall lk m, known lk = Some m -> aget keqb (pm_name m) (r_vals st) = lastval P lk m)
    end.

  Lemma cur_source_aset : forall (st : rst') lk s lk' (vals : list (K * V)) (raws : list (K * R)),
    cur_source keqb (mk_rst vals raws (aset keqb lk s (r_n2s st))) lk' = if keqb lk lk' then s else cur_source keqb st lk'.
  Proof.
    intros. unfold cur_source; simpl. destruct (keqb lk lk') eqn:E.
    - apply keqb_eq in E. subst. now rewrite aget_aset_same.
    - rewrite aget_aset_other; auto. intros ->. now rewrite keqb_refl in E.
  Qed.

  Lemma inv_step : forall fixed P t st,
    desc (P ++ [t]) -> (forall u, In u (P ++ [t]) -> 0 < fst u) ->
    Inv fixed P (Some st) -> Inv fixed (P ++ [t]) (stepf fixed st t).
  Proof.
    intros fixed P t st Hd Hpos (Hnf & Hcur & Hval).
    destruct (desc_snoc _ _ Hd) as [HdP Hle].
    assert (HposP : forall u, In u P -> 0 < fst u) by (intros; apply Hpos, in_or_app; auto).
    assert (Hpt : 0 < fst t) by (apply Hpos, in_or_app; right; simpl; auto).
    destruct t as [s [k rv]]. unfold stepf; simpl fst in *; simpl snd in *.
    set (t := (s, (k, rv))) in *. remember (lower k) as lkt eqn:Hlkt.
    assert (Hlk : lk_of t = lkt) by (rewrite Hlkt; reflexivity).
    unfold step. rewrite <- Hlkt. rewrite (Hcur lkt).
    (* relation between s and the current top *)
    assert (Htop : (top P lkt = 0 /\ find (hits lkt) P = None) \/
                   (exists u, find (hits lkt) P = Some u /\ top P lkt = fst u /\ s <= fst u /\ 0 < fst u)).
    { destruct (top_pos_or P lkt HposP) as [[E1 E2]|(u & E1 & E2 & E3 & E4 & E5)]; [left; auto|right].
      exists u. repeat split; auto. }
    destruct (known lkt) as [m|] eqn:Hk.
    - (* known parameter *)
      assert (Helig : elig t = negb (pm_local m && negb (src_local s))).
      { unfold elig. rewrite Hlk, Hk. reflexivity. }
      destruct (pm_local m && negb (src_local s)) eqn:Hloc.
      + (* local-only from a non-local source: skipped *)
        simpl in Helig.
        assert (Hmiss : forall lk, hits lk t = false) by (intros; unfold hits; rewrite Helig; apply andb_false_r).
        simpl. repeat split.
        * intros HF. destruct (fatal_snoc_inv _ _ _ HF) as [HF'|(m' & _ & He & _)]; auto. congruence.
        * intros lk. rewrite Hcur, top_snoc. unfold top. destruct (find (hits lk) P); auto. now rewrite Hmiss.
        * intros lk m' Hk'. rewrite lastval_snoc_miss; auto. unfold wins. now rewrite Hmiss.
      + simpl in Helig.
        assert (Hhit : hits lkt t = true) by (rewrite <- Hlk; now apply hits_self).
        assert (Hother : forall lk, lk <> lkt -> hits lk t = false).
        { intros lk Hn. unfold hits. rewrite Hlk. rewrite keqb_neq; auto. }
        (* is t shadowed? *)
        destruct (s <? top P lkt) eqn:Hsh.
        * (* shadowed *)
          apply N.ltb_lt in Hsh.
          destruct Htop as [[E1 E2]|(u & E1 & E2 & E3 & E4)]; [lia|].
          assert (HtopP' : forall lk, top (P ++ [t]) lk = top P lk).
          { intros lk. destruct (keqb lk lkt) eqn:E.
            - apply keqb_eq in E. subst lk. now apply (top_snoc_found P t lkt _ E1).
            - rewrite top_snoc. unfold top. destruct (find (hits lk) P); auto. rewrite Hother; auto.
              intros ->. now rewrite keqb_refl in E. }
          assert (Hnw : forall lk, wins (P ++ [t]) lk t = false).
          { intros lk. unfold wins. destruct (keqb lk lkt) eqn:E.
            - apply keqb_eq in E. subst lk. rewrite HtopP'. simpl fst.
              replace (s =? top P lkt) with false; [apply andb_false_r|]. symmetry. apply N.eqb_neq. lia.
            - rewrite Hother; auto. intros ->. now rewrite keqb_refl in E. }
          assert (Hkeep : Inv fixed (P ++ [t]) (Some st) \/ True) by auto.
          assert (Hst : interp' m rv <> None \/ fixed = true ->
                        ~ FatalIn fixed (P ++ [t])
                        /\ (forall lk, cur_source keqb st lk = top (P ++ [t]) lk)
                        /\ (forall lk m0, known lk = Some m0 -> aget keqb (pm_name m0) (r_vals st) = lastval (P ++ [t]) lk m0)).
          { intros Hc. repeat split.
            - intros HF. destruct (fatal_snoc_inv _ _ _ HF) as [HF'|(m' & Hk' & _ & Hf & Hi)]; auto.
              rewrite Hlk, Hk in Hk'. inversion Hk'; subst m'.
              destruct Hc as [Hc|Hc]; [now apply Hc|].
              specialize (Hf Hc). rewrite Hlk, HtopP' in Hf. simpl in Hf. lia.
            - intros lk. now rewrite HtopP'.
            - intros lk m0 Hk0. rewrite lastval_snoc_miss; auto. }
          destruct fixed; simpl.
          -- apply Hst; auto.
          -- destruct (interp' m rv) as [v|] eqn:Hi.
             ++ apply Hst. left; discriminate.
             ++ simpl. exists t, m.
                split; [apply in_or_app; right; simpl; auto|].
                split; [now rewrite Hlk|]. split; [now rewrite Helig|].
                split; [discriminate|exact Hi].
        * (* not shadowed: s = the top source for lkt after this entry *)
          apply N.ltb_ge in Hsh.
          assert (HtopT : top (P ++ [t]) lkt = s).
          { rewrite top_snoc. destruct Htop as [[E1 E2]|(u & E1 & E2 & E3 & E4)].
            - rewrite E2, Hhit. reflexivity.
            - rewrite E1. lia. }
          assert (HtopO : forall lk, lk <> lkt -> top (P ++ [t]) lk = top P lk).
          { intros lk Hn. rewrite top_snoc. unfold top. destruct (find (hits lk) P); auto. rewrite Hother; auto. }
          assert (Hw : wins (P ++ [t]) lkt t = true).
          { unfold wins. rewrite Hhit, HtopT. simpl. apply N.eqb_refl. }
          rewrite andb_false_r.
          destruct (interp' m rv) as [v|] eqn:Hi.
          -- simpl. repeat split.
             ++ intros HF. destruct (fatal_snoc_inv _ _ _ HF) as [HF'|(m' & Hk' & _ & _ & Hi')]; auto.
                rewrite Hlk, Hk in Hk'. inversion Hk'; subst m'. unfold rv_of in Hi'; simpl in Hi'. congruence.
             ++ intros lk. rewrite cur_source_aset. destruct (keqb lkt lk) eqn:E.
                ** apply keqb_eq in E. subst lk. symmetry. exact HtopT.
                ** rewrite HtopO; auto. intros ->. now rewrite keqb_refl in E.
             ++ intros lk m0 Hk0. simpl. destruct (keqb lkt lk) eqn:E.
                ** apply keqb_eq in E. subst lk. rewrite Hk in Hk0. inversion Hk0; subst m0.
                   rewrite aget_aset_same, lastval_snoc_hit; auto.
                ** assert (Hn : lk <> lkt) by (intros ->; now rewrite keqb_refl in E).
                   rewrite aget_aset_other.
                   --- rewrite lastval_snoc_miss; auto. unfold wins. rewrite Hother; auto.
                   --- intros Heq. apply Hn. rewrite <- (known_name _ _ Hk0), <- (known_name _ _ Hk). now rewrite Heq.
          -- simpl. exists t, m.
             split; [apply in_or_app; right; simpl; auto|].
             split; [now rewrite Hlk|]. split; [now rewrite Helig|].
             split; [intros _; now rewrite Hlk, HtopT|exact Hi].
    - (* unknown name: raw value stashed *)
      assert (Helig : elig t = true) by (unfold elig; now rewrite Hlk, Hk).
      assert (Hhit : hits lkt t = true) by (rewrite <- Hlk; now apply hits_self).
      assert (Hother : forall lk, lk <> lkt -> hits lk t = false).
      { intros lk Hn. unfold hits. rewrite Hlk. rewrite keqb_neq; auto. }
      assert (HtopO : forall lk, lk <> lkt -> top (P ++ [t]) lk = top P lk).
      { intros lk Hn. rewrite top_snoc. unfold top. destruct (find (hits lk) P); auto. rewrite Hother; auto. }
      assert (Hnf' : ~ FatalIn fixed (P ++ [t])).
      { intros HF. destruct (fatal_snoc_inv _ _ _ HF) as [HF'|(m' & Hk' & _)]; auto. rewrite Hlk, Hk in Hk'. discriminate. }
      assert (Hvals : forall lk m0, known lk = Some m0 -> lastval (P ++ [t]) lk m0 = lastval P lk m0).
      { intros lk m0 Hk0. apply lastval_snoc_miss. unfold wins. rewrite Hother; auto. intros ->. congruence. }
      destruct (top P lkt <=? s) eqn:Hc; simpl.
      + apply N.leb_le in Hc. repeat split; auto.
        * intros lk. rewrite cur_source_aset. destruct (keqb lkt lk) eqn:E.
          -- apply keqb_eq in E. subst lk. rewrite top_snoc.
             destruct Htop as [[E1 E2]|(u & E1 & E2 & E3 & E4)].
             ++ now rewrite E2, Hhit.
             ++ rewrite E1. lia.
          -- rewrite HtopO; auto. intros ->. now rewrite keqb_refl in E.
        * intros lk m0 Hk0. simpl. rewrite Hvals; auto.
      + apply N.leb_gt in Hc. repeat split; auto.
        * intros lk. destruct (keqb lkt lk) eqn:E.
          -- apply keqb_eq in E. subst lk.
             destruct Htop as [[E1 E2]|(u & E1 & E2 & E3 & E4)]; [lia|].
             now rewrite (top_snoc_found P t lkt _ E1).
          -- rewrite HtopO; auto. intros ->. now rewrite keqb_refl in E.
        * intros lk m0 Hk0. rewrite Hvals; auto.
  Qed.

  Lemma inv_run : forall fixed P, desc P -> (forall u, In u P -> 0 < fst u) ->
    Inv fixed P (run_flat fixed P (rst0 K R V)).
  Proof.
    intros fixed P. induction P as [|t P IH] using rev_ind; intros Hd Hpos.
    - simpl. split; [|split].
      + intros (u & m & [] & _).
      + intros lk. reflexivity.
      + intros lk m _. reflexivity.
    - destruct (desc_snoc _ _ Hd) as [HdP _].
      assert (HposP : forall u, In u P -> 0 < fst u) by (intros; apply Hpos, in_or_app; auto).
      specialize (IH HdP HposP). rewrite run_flat_app.
      destruct (run_flat fixed P (rst0 K R V)) as [st|] eqn:E.
      + simpl. pose proof (inv_step fixed P t st Hd Hpos IH) as H. destruct (stepf fixed st t); auto.
      + simpl in *. now apply fatal_mono.
  Qed.

  (* ================= part 2: from the flattened list to sources and to Spec.v ================= *)
  Notation value_of' := (value_of is_none parse).
  Notation setters' := (setters keqb lower src_local).
  Notation deciding' := (deciding keqb lower srcs src_local).
  Notation resolve' := (resolve keqb kleb lower is_none known parse srcs src_local).

  Fixpoint sdesc (ss : list N) : Prop :=
    match ss with
    | [] => True
    | s :: t => (forall u, In u t -> u < s) /\ sdesc t
    end.
  Hypothesis srcs_desc : sdesc srcs.
  Hypothesis srcs_pos : forall s, In s srcs -> 0 < s.

  Lemma value_of_interp : forall m rv, value_of' m rv = interp' m rv.
  Proof. reflexivity. Qed.

  Lemma resolve_flat : forall fixed c, resolve' fixed false c = run_flat fixed (flat c srcs) (rst0 K R V).
  Proof. intros. unfold resolve. apply run_srcs_flat. Qed.

  Lemma in_flat : forall c ss t, In t (flat c ss) <-> In (fst t) ss /\ In (snd t) (src_kvs c (fst t)).
  Proof.
    intros c ss [s kv]. unfold flat. rewrite in_flat_map. simpl. split.
    - intros (s' & Hs & Hin). apply in_map_iff in Hin. destruct Hin as (kv' & E & Hin). inversion E; subst. auto.
    - intros [Hs Hin]. exists s. split; auto. apply in_map; auto.
  Qed.

  Lemma flat_desc : forall c ss, sdesc ss -> desc (flat c ss).
  Proof.
    induction ss as [|s ss IH]; intros H; simpl; auto.
    destruct H as [H1 H2]. apply desc_app; auto.
    - induction (src_kvs c s) as [|kv l IHl]; simpl; auto. split; auto.
      intros u Hu. apply in_map_iff in Hu. destruct Hu as (x & <- & _). simpl. lia.
    - intros a b' Ha Hb. apply in_map_iff in Ha. destruct Ha as (x & <- & _). simpl.
      apply in_flat in Hb. destruct Hb as [Hb _]. specialize (H1 _ Hb). lia.
  Qed.

  Lemma flat_pos : forall c t, In t (flat c srcs) -> 0 < fst t.
  Proof. intros c t H. apply in_flat in H. apply srcs_pos. tauto. Qed.

  Lemma inv_resolve : forall fixed c, Inv fixed (flat c srcs) (resolve' fixed false c).
  Proof. intros. rewrite resolve_flat. apply inv_run. apply flat_desc, srcs_desc. apply flat_pos. Qed.

  (* the entries of source s that count for lk *)
  Definition hs (c : cfg K R) (lk : K) (s : N) : list ent := filter (hits lk) (map (pair s) (src_kvs c s)).

  Lemma hits_known : forall lk m s kv, known lk = Some m ->
    hits lk (s, kv) = sets_param keqb lower m kv && eligible src_local m s.
  Proof.
    intros lk m s [k rv] Hk. unfold hits, sets_param, elig, eligible, lk_of. simpl.
    rewrite (known_name _ _ Hk). destruct (keqb (lower k) lk) eqn:E; simpl; auto.
    apply keqb_eq in E. rewrite E, Hk. reflexivity.
  Qed.

  Lemma hs_setters : forall c lk m s, known lk = Some m -> map rv_of (hs c lk s) = setters' c m s.
  Proof.
    intros c lk m s Hk. unfold hs, setters.
    induction (src_kvs c s) as [|kv l IH]; simpl.
    - destruct (eligible src_local m s); reflexivity.
    - rewrite (hits_known lk m s kv Hk).
      destruct (eligible src_local m s) eqn:He.
      + rewrite andb_true_r. destruct (sets_param keqb lower m kv); simpl; [f_equal|]; rewrite <- IH; reflexivity.
      + rewrite andb_false_r. exact IH.
  Qed.

  Lemma hs_fst : forall c lk s t, In t (hs c lk s) -> fst t = s /\ hits lk t = true.
  Proof.
    intros c lk s t H. unfold hs in H. apply filter_In in H. destruct H as [H1 H2]. split; auto.
    apply in_map_iff in H1. destruct H1 as (x & <- & _). reflexivity.
  Qed.

  Lemma find_app' : forall (f : ent -> bool) A B, find f (A ++ B) = match find f A with Some x => Some x | None => find f B end.
  Proof. induction A as [|a A IH]; intros; simpl; auto. destruct (f a); auto. Qed.

  Lemma find_filter_hd : forall (f : ent -> bool) A, find f A = hd_error (filter f A).
  Proof. induction A as [|a A IH]; simpl; auto. destruct (f a); auto. Qed.

  Definition nonempty {A} (l : list A) : bool := match l with [] => false | _ => true end.

  Lemma find_flat : forall c lk ss,
    find (hits lk) (flat c ss) = match find (fun s => nonempty (hs c lk s)) ss with
                                 | Some s => hd_error (hs c lk s)
                                 | None => None
                                 end.
  Proof.
    induction ss as [|s ss IH]; simpl; auto.
    rewrite find_app', find_filter_hd. fold (hs c lk s).
    destruct (hs c lk s) eqn:E; simpl; auto. now rewrite E.
  Qed.

  Lemma nonempty_hs : forall c lk m s, known lk = Some m ->
    nonempty (hs c lk s) = match setters' c m s with [] => false | _ => true end.
  Proof.
    intros. rewrite <- (hs_setters c lk m s H). destruct (hs c lk s); reflexivity.
  Qed.

  Lemma find_ext' : forall (f g : N -> bool) l, (forall x, f x = g x) -> find f l = find g l.
  Proof. induction l as [|a l IH]; intros; simpl; auto. rewrite H. destruct (g a); auto. Qed.

  Lemma top_flat : forall c lk m, known lk = Some m ->
    top (flat c srcs) lk = match deciding' c m with Some s => s | None => 0 end.
  Proof.
    intros c lk m Hk. unfold top, deciding. rewrite find_flat.
    rewrite (find_ext' _ (fun s => match setters' c m s with [] => false | _ => true end)).
    2:{ intros; now apply nonempty_hs. }
    destruct (find _ srcs) as [s|] eqn:E; auto.
    apply find_some in E. destruct E as [_ E]. rewrite <- (nonempty_hs c lk m s Hk) in E.
    destruct (hs c lk s) as [|t l] eqn:E2; [discriminate|]. simpl.
    assert (Hin : In t (hs c lk s)) by (rewrite E2; simpl; auto).
    now apply hs_fst in Hin.
  Qed.

  Lemma filter_filter' : forall (f g : ent -> bool) l, filter f (filter g l) = filter (fun x => g x && f x) l.
  Proof.
    induction l as [|a l IH]; simpl; auto. destruct (g a); simpl; [destruct (f a)|]; rewrite IH; auto.
  Qed.

  Lemma filter_all_true : forall (f : ent -> bool) l, (forall x, In x l -> f x = true) -> filter f l = l.
  Proof.
    induction l as [|a l IH]; intros H; simpl; auto. rewrite H by (simpl; auto). f_equal. apply IH. intros; apply H; simpl; auto.
  Qed.
  Lemma filter_all_false : forall (f : ent -> bool) l, (forall x, In x l -> f x = false) -> filter f l = [].
  Proof.
    induction l as [|a l IH]; intros H; simpl; auto. rewrite H by (simpl; auto). apply IH. intros; apply H; simpl; auto.
  Qed.

  Lemma winners_src : forall c lk s0 ss, sdesc ss ->
    filter (fun t => hits lk t && (fst t =? s0)) (flat c ss) = if existsb (N.eqb s0) ss then hs c lk s0 else [].
  Proof.
    induction ss as [|s ss IH]; intros Hd; simpl; auto.
    destruct Hd as [H1 H2]. rewrite filter_app, (IH H2).
    destruct (s0 =? s) eqn:E; simpl.
    - apply N.eqb_eq in E. subst s0.
      assert (Hno : existsb (N.eqb s) ss = false).
      { destruct (existsb (N.eqb s) ss) eqn:Ex; auto. apply existsb_exists in Ex. destruct Ex as (x & Hx & Ex).
        apply N.eqb_eq in Ex. subst x. specialize (H1 _ Hx). lia. }
      rewrite Hno, app_nil_r. unfold hs. rewrite <- filter_filter'.
      rewrite (filter_all_true (fun t => fst t =? s)); auto.
      intros x Hx. apply filter_In in Hx. destruct Hx as [Hx _]. apply in_map_iff in Hx. destruct Hx as (y & <- & _). simpl. apply N.eqb_refl.
    - rewrite filter_all_false; auto.
      intros x Hx. apply in_map_iff in Hx. destruct Hx as (y & <- & _). simpl.
      rewrite N.eqb_sym, E. apply andb_false_r.
  Qed.

  Lemma deciding_in : forall (c : cfg K R) (m : pmeta K V) s, deciding' c m = Some s -> In s srcs /\ setters' c m s <> [].
  Proof.
    intros c m s H. unfold deciding in H. apply find_some in H. destruct H as [H1 H2]. split; auto.
    intros E. rewrite E in H2. discriminate.
  Qed.

  Lemma winners_flat : forall c lk m, known lk = Some m ->
    winners (flat c srcs) lk = match deciding' c m with Some s => hs c lk s | None => [] end.
  Proof.
    intros c lk m Hk. unfold winners, wins. rewrite (top_flat c lk m Hk).
    destruct (deciding' c m) as [s|] eqn:E.
    - rewrite winners_src by exact srcs_desc.
      destruct (deciding_in c m s E) as [Hin _].
      replace (existsb (N.eqb s) srcs) with true; auto.
      symmetry. apply existsb_exists. exists s. split; auto. apply N.eqb_refl.
    - apply filter_all_false. intros x Hx. pose proof (flat_pos c x Hx) as Hp.
      replace (fst x =? 0) with false; [apply andb_false_r|]. symmetry. apply N.eqb_neq. lia.
  Qed.

  (* the property's value of m *)
  Definition spec_outcome (c : cfg K R) (m : pmeta K V) : option V :=
    match deciding' c m with
    | None => Some (pm_init m)
    | Some s => match rev (setters' c m s) with
                | [] => Some (pm_init m)
                | rv :: _ => value_of' m rv
                end
    end.
  (* fatal: fixed code = the deciding source holds a fatal value; pinned code = any eligible source does *)
  Definition SpecFatal (fixed : bool) (c : cfg K R) : Prop :=
    exists lk m s rv, known lk = Some m /\ In s srcs /\ (fixed = true -> deciding' c m = Some s)
                      /\ In rv (setters' c m s) /\ value_of' m rv = None.

  Lemma lastval_flat : forall c lk m, known lk = Some m ->
    lastval (flat c srcs) lk m = match deciding' c m with
                                 | None => None
                                 | Some s => match rev (setters' c m s) with [] => None | rv :: _ => interp' m rv end
                                 end.
  Proof.
    intros c lk m Hk. unfold lastval. rewrite (winners_flat c lk m Hk).
    destruct (deciding' c m) as [s|]; auto.
    rewrite <- (hs_setters c lk m s Hk), <- map_rev. destruct (rev (hs c lk s)); reflexivity.
  Qed.

  Lemma fatal_flat : forall fixed c, FatalIn fixed (flat c srcs) <-> SpecFatal fixed c.
  Proof.
    intros fixed c. split.
    - intros (t & m & Hin & Hk & He & Ht & Hi).
      destruct t as [s kv]. apply in_flat in Hin. simpl in Hin. destruct Hin as [Hs Hkv].
      exists (lk_of (s, kv)), m, s, (rv_of (s, kv)). split; auto. split; auto.
      assert (Hh : In (s, kv) (hs c (lk_of (s, kv)) s)).
      { unfold hs. apply filter_In. split; [apply in_map; auto|now apply hits_self]. }
      split; [|split; auto].
      + intros Hf. specialize (Ht Hf). rewrite (top_flat c _ m Hk) in Ht. simpl in Ht.
        destruct (deciding' c m) as [s'|] eqn:E; [now subst|].
        specialize (srcs_pos _ Hs). lia.
      + rewrite <- (hs_setters c _ m s Hk). apply in_map_iff. exists (s, kv). auto.
    - intros (lk & m & s & rv & Hk & Hs & Hd & Hin & Hv).
      rewrite <- (hs_setters c lk m s Hk) in Hin. apply in_map_iff in Hin. destruct Hin as (t & <- & Ht).
      destruct (hs_fst c lk s t Ht) as [Hf Hh]. destruct (hits_lk _ _ Hh) as [Hl He].
      exists t, m. split.
      { unfold hs in Ht. apply filter_In in Ht. destruct Ht as [Ht _].
        apply in_flat. rewrite Hf. split; auto. apply in_map_iff in Ht. destruct Ht as (x & <- & Hx). exact Hx. }
      rewrite Hl. repeat split; auto.
      intros Hfx. rewrite (top_flat c lk m Hk), (Hd Hfx). exact Hf.
  Qed.

  (* ---- main characterisation: the loop computes what the property says ---- *)
  Theorem resolve_spec : forall fixed c,
    match resolve' fixed false c with
    | None => SpecFatal fixed c
    | Some st => ~ SpecFatal fixed c
                 /\ forall lk m, known lk = Some m -> Some (effective keqb st m) = spec_outcome c m
    end.
  Proof.
    intros fixed c. pose proof (inv_resolve fixed c) as H.
    destruct (resolve' fixed false c) as [st|]; simpl in H.
    - destruct H as (Hnf & _ & Hval). split.
      + intros HF. apply Hnf. now apply fatal_flat.
      + intros lk m Hk. unfold effective, spec_outcome. rewrite (Hval lk m Hk), (lastval_flat c lk m Hk).
        destruct (deciding' c m) as [s|] eqn:Ed; auto.
        destruct (rev (setters' c m s)) as [|rv l] eqn:Er; auto.
        change (value_of' m rv) with (interp' m rv). destruct (interp' m rv) eqn:Ei; auto.
        exfalso. apply Hnf. apply fatal_flat. exists lk, m, s, rv.
        destruct (deciding_in c m s Ed) as [Hs _]. repeat split; auto.
        apply in_rev. rewrite Er. simpl; auto.
    - now apply fatal_flat.
  Qed.

  (* ================= part 3: the property's clauses ================= *)
  (* same error outcome, and on success the same value for every parameter *)
  Definition res_equiv (r r' : option rst') : Prop :=
    (r = None <-> r' = None)
    /\ forall st st', r = Some st -> r' = Some st' ->
                      forall lk m, known lk = Some m -> effective keqb st m = effective keqb st' m.

  Lemma resolve_congr : forall fixed c c',
    (forall lk m, known lk = Some m -> spec_outcome c m = spec_outcome c' m) ->
    (SpecFatal fixed c <-> SpecFatal fixed c') ->
    res_equiv (resolve' fixed false c) (resolve' fixed false c').
  Proof.
    intros fixed c c' Ho Hf. pose proof (resolve_spec fixed c) as H1. pose proof (resolve_spec fixed c') as H2.
    destruct (resolve' fixed false c) as [st|], (resolve' fixed false c') as [st'|]; split.
    - split; discriminate.
    - intros x y Ex Ey lk m Hk. inversion Ex; inversion Ey; subst.
      destruct H1 as [_ H1], H2 as [_ H2]. specialize (H1 lk m Hk). specialize (H2 lk m Hk).
      rewrite (Ho lk m Hk) in H1. congruence.
    - destruct H1 as [H1 _]. exfalso. apply H1. now apply Hf.
    - intros; discriminate.
    - destruct H2 as [H2 _]. exfalso. apply H2. now apply Hf.
    - intros; discriminate.
    - tauto.
    - intros; discriminate.
  Qed.

  Definition same_setters (c c' : cfg K R) : Prop :=
    forall lk m s, known lk = Some m -> setters' c m s = setters' c' m s.

  Lemma same_setters_deciding : forall c c' lk m, same_setters c c' -> known lk = Some m -> deciding' c m = deciding' c' m.
  Proof.
    intros c c' lk m H Hk. unfold deciding. apply find_ext'. intros s. now rewrite (H lk m s Hk).
  Qed.

  Lemma same_setters_equiv : forall fixed c c', same_setters c c' ->
    res_equiv (resolve' fixed false c) (resolve' fixed false c').
  Proof.
    intros fixed c c' H. apply resolve_congr.
    - intros lk m Hk. unfold spec_outcome. rewrite (same_setters_deciding c c' lk m H Hk).
      destruct (deciding' c' m); auto. now rewrite (H lk m n Hk).
    - split; intros (lk & m & s & rv & Hk & Hs & Hd & Hin & Hv); exists lk, m, s, rv; repeat split; auto.
      + intros Hf. rewrite <- (same_setters_deciding c c' lk m H Hk). auto.
      + now rewrite <- (H lk m s Hk).
      + intros Hf. rewrite (same_setters_deciding c c' lk m H Hk). auto.
      + now rewrite (H lk m s Hk).
  Qed.

  (* c' differs from c only in what source s0 says about parameter m0 *)
  Definition differ_only (c c' : cfg K R) (s0 : N) (m0 : pmeta K V) : Prop :=
    (forall s, s <> s0 -> src_kvs c' s = src_kvs c s)
    /\ filter (fun kv => negb (sets_param keqb lower m0 kv)) (src_kvs c' s0)
       = filter (fun kv => negb (sets_param keqb lower m0 kv)) (src_kvs c s0).

  Lemma filter_through : forall (f g : K * R -> bool) l l',
    (forall kv, f kv = true -> g kv = true) -> filter g l = filter g l' -> filter f l = filter f l'.
  Proof.
    intros f g l l' Hfg H.
    assert (E : forall x, filter f x = filter f (filter g x)).
    { induction x as [|a x IH]; simpl; auto. destruct (f a) eqn:Ef.
      - rewrite (Hfg a Ef). simpl. rewrite Ef. now f_equal.
      - destruct (g a); simpl; [rewrite Ef|]; auto. }
    rewrite (E l), (E l'), H. reflexivity.
  Qed.

  Lemma differ_only_other : forall c c' s0 lk0 m0 lk m s, differ_only c c' s0 m0 ->
    known lk0 = Some m0 -> known lk = Some m -> lk <> lk0 -> setters' c m s = setters' c' m s.
  Proof.
    intros c c' s0 lk0 m0 lk m s [H1 H2] Hk0 Hk Hn. unfold setters.
    destruct (N.eq_dec s s0) as [->|Hs]; [|now rewrite (H1 s Hs)].
    destruct (eligible src_local m s0); auto. f_equal.
    apply (filter_through (sets_param keqb lower m) (fun kv => negb (sets_param keqb lower m0 kv))); auto.
    intros kv Hkv. unfold sets_param in *. rewrite (known_name _ _ Hk) in Hkv. rewrite (known_name _ _ Hk0).
    apply keqb_eq in Hkv. rewrite Hkv. rewrite keqb_neq; auto.
  Qed.

  Lemma differ_only_other_src : forall c c' s0 m0 (m : pmeta K V) s, differ_only c c' s0 m0 -> s <> s0 ->
    setters' c m s = setters' c' m s.
  Proof. intros c c' s0 m0 m s [H1 _] Hs. unfold setters. now rewrite (H1 s Hs). Qed.

  Lemma known_inj : forall lk m m', known lk = Some m -> known lk = Some m' -> m = m'.
  Proof. intros. congruence. Qed.

  (* datastore values of a local-only parameter are irrelevant (both code variants) *)
  Theorem local_only_ignored : forall fixed c c' s0 lk0 m0,
    known lk0 = Some m0 -> pm_local m0 = true -> src_local s0 = false ->
    differ_only c c' s0 m0 ->
    res_equiv (resolve' fixed false c) (resolve' fixed false c').
  Proof.
    intros fixed c c' s0 lk0 m0 Hk0 Hl Hs Hd. apply same_setters_equiv.
    intros lk m s Hk. destruct (keqb lk lk0) eqn:E.
    - apply keqb_eq in E. subst lk. rewrite Hk0 in Hk. inversion Hk; subst m.
      destruct (N.eq_dec s s0) as [->|Hn]; [|now apply (differ_only_other_src c c' s0 m0)].
      unfold setters, eligible. now rewrite Hl, Hs.
    - apply (differ_only_other c c' s0 lk0 m0 lk m s); auto. intros ->. now rewrite keqb_refl in E.
  Qed.

  Lemma find_agree : forall (f g : N -> bool) ss s0 s1, sdesc ss ->
    find f ss = Some s1 -> (forall s, s <> s0 -> f s = g s) -> s0 < s1 -> find g ss = Some s1.
  Proof.
    induction ss as [|a ss IH]; intros s0 s1 Hd Hf Hfg Hlt; simpl in *; [discriminate|].
    destruct Hd as [H1 H2]. destruct (f a) eqn:Ef.
    - inversion Hf; subst a. rewrite <- (Hfg s1) by lia. now rewrite Ef.
    - assert (Hin : In s1 ss) by (apply find_some in Hf; tauto).
      specialize (H1 _ Hin). rewrite <- (Hfg a) by lia. rewrite Ef. eapply IH; eauto.
  Qed.

  (* a value shadowed by a higher-priority source is irrelevant: result AND error outcome (repaired code) *)
  Theorem shadowed_irrelevant_fixed : forall c c' s0 s1 lk0 m0,
    known lk0 = Some m0 -> deciding' c m0 = Some s1 -> s0 < s1 ->
    differ_only c c' s0 m0 ->
    res_equiv (resolve' true false c) (resolve' true false c').
  Proof.
    intros c c' s0 s1 lk0 m0 Hk0 Hd Hlt Hdiff.
    assert (Hd' : deciding' c' m0 = Some s1).
    { unfold deciding in *. apply (find_agree _ _ srcs s0 s1 srcs_desc Hd); auto.
      intros s Hs. now rewrite (differ_only_other_src c c' s0 m0 m0 s Hdiff Hs). }
    assert (Hs1 : setters' c m0 s1 = setters' c' m0 s1) by (apply (differ_only_other_src c c' s0 m0); auto; lia).
    assert (Hoth : forall lk m s, known lk = Some m -> lk <> lk0 -> setters' c m s = setters' c' m s).
    { intros. now apply (differ_only_other c c' s0 lk0 m0 lk m s). }
    assert (Hdec : forall lk m, known lk = Some m -> deciding' c m = deciding' c' m).
    { intros lk m Hk. destruct (keqb lk lk0) eqn:E.
      - apply keqb_eq in E. subst lk. rewrite Hk0 in Hk. inversion Hk; subst m. congruence.
      - unfold deciding. apply find_ext'. intros s. rewrite (Hoth lk m s Hk); auto. intros ->. now rewrite keqb_refl in E. }
    assert (Hset : forall lk m s, known lk = Some m -> deciding' c m = Some s -> setters' c m s = setters' c' m s).
    { intros lk m s Hk Hds. destruct (keqb lk lk0) eqn:E.
      - apply keqb_eq in E. subst lk. rewrite Hk0 in Hk. inversion Hk; subst m. rewrite Hd in Hds. inversion Hds; subst s. exact Hs1.
      - apply (Hoth lk m s Hk). intros ->. now rewrite keqb_refl in E. }
    apply resolve_congr.
    - intros lk m Hk. unfold spec_outcome. rewrite <- (Hdec lk m Hk).
      destruct (deciding' c m) as [s|] eqn:E; auto. now rewrite (Hset lk m s Hk E).
    - split; intros (lk & m & s & rv & Hk & Hs & Hdd & Hin & Hv); exists lk, m, s, rv; specialize (Hdd eq_refl);
        repeat split; auto.
      + intros _. now rewrite <- (Hdec lk m Hk).
      + now rewrite <- (Hset lk m s Hk Hdd).
      + intros _. now rewrite (Hdec lk m Hk).
      + rewrite (Hset lk m s Hk); auto. now rewrite (Hdec lk m Hk).
  Qed.

  (* ---- key order ---- *)

  Lemma perm_filter : forall (f : K * R -> bool) l l', Permutation l l' -> Permutation (filter f l) (filter f l').
  Proof.
    intros f l l' H. induction H; simpl; auto.
    - destruct (f x); auto.
    - destruct (f x), (f y); auto. apply perm_swap.
    - eapply perm_trans; eauto.
  Qed.

  Lemma filter_short : forall (f : K * R -> bool) (g : K * R -> K) l,
    NoDup (map g l) -> (forall x y, f x = true -> f y = true -> g x = g y) -> (length (filter f l) <= 1)%nat.
  Proof.
    intros f g l Hnd Hfg. induction l as [|a l IH]; simpl; auto.
    inversion Hnd as [|? ? Hni Hnd']; subst. specialize (IH Hnd').
    destruct (f a) eqn:Ea; auto. simpl.
    destruct (filter f l) as [|b0 r] eqn:E; auto.
    exfalso. assert (Hb : In b0 (filter f l)) by (rewrite E; simpl; auto).
    apply filter_In in Hb. destruct Hb as [Hb1 Hb2]. apply Hni. rewrite (Hfg a b0 Ea Hb2). now apply in_map.
  Qed.

  Lemma perm_short_eq : forall A (l l' : list A), Permutation l l' -> (length l <= 1)%nat -> l = l'.
  Proof.
    intros A l l' H Hl. destruct l as [|a [|b0 r]]; simpl in Hl; try lia.
    - now apply Permutation_nil in H.
    - now apply Permutation_length_1_inv in H.
  Qed.

  (* no source spells a parameter name in two ways *)
  Definition unambiguous (c : cfg K R) : Prop := forall s, NoDup (map (fun kv => lower (fst kv)) (src_kvs c s)).

  Theorem order_independent_unsorted : forall fixed c c',
    unambiguous c -> (forall s, Permutation (src_kvs c s) (src_kvs c' s)) ->
    res_equiv (resolve' fixed false c) (resolve' fixed false c').
  Proof.
    intros fixed c c' Hu Hp. apply same_setters_equiv. intros lk m s Hk. unfold setters.
    destruct (eligible src_local m s); auto. f_equal.
    apply perm_short_eq; [apply perm_filter, Hp|].
    apply (filter_short _ (fun kv => lower (fst kv))); [apply Hu|].
    intros x y Hx Hy. unfold sets_param in *. apply keqb_eq in Hx, Hy. congruence.
  Qed.

  (* ================= part 4: the oracle of Spec.v accepts every run of the (repaired) model ================= *)
  Variable veqb : V -> V -> bool.
  Hypothesis veqb_refl : forall v, veqb v v = true.
  Notation ok_err' := (ok_err keqb lower is_none known parse srcs src_local).
  Notation ok_value' := (ok_value keqb lower is_none known parse srcs src_local veqb).
  Notation allowed' := (allowed keqb lower is_none parse srcs src_local).
  Notation mentioned' := (mentioned lower known).

  Lemma agetN_in : forall B (s : N) (v : B) l, aget N.eqb s l = Some v -> In (s, v) l.
  Proof.
    induction l as [|[s' v'] l IH]; simpl; intros H; [discriminate|].
    destruct (s =? s') eqn:E.
    - apply N.eqb_eq in E. inversion H; subst. auto.
    - right; auto.
  Qed.

  Lemma setter_mentioned : forall (c : cfg K R) lk m s rv, known lk = Some m -> In rv (setters' c m s) -> In m (mentioned' c).
  Proof.
    intros c lk m s rv Hk Hin. unfold setters in Hin. destruct (eligible src_local m s); [|destruct Hin].
    apply in_map_iff in Hin. destruct Hin as (kv & _ & Hkv). apply filter_In in Hkv. destruct Hkv as [Hkv Hsp].
    unfold src_kvs in Hkv. destruct (aget N.eqb s c) as [l|] eqn:E; [|destruct Hkv].
    apply agetN_in in E. unfold mentioned. apply in_flat_map. exists (s, l). split; auto.
    simpl. apply in_flat_map. exists kv. split; auto.
    unfold sets_param in Hsp. apply keqb_eq in Hsp. rewrite Hsp, (known_name _ _ Hk), Hk. simpl; auto.
  Qed.

  Lemma mentioned_known : forall (c : cfg K R) m, In m (mentioned' c) -> exists lk, known lk = Some m.
  Proof.
    intros c m H. unfold mentioned in H. apply in_flat_map in H. destruct H as (sl & _ & H).
    apply in_flat_map in H. destruct H as (kv & _ & H).
    destruct (known (lower (fst kv))) eqn:E; [|destruct H]. destruct H as [<-|[]]. eauto.
  Qed.

  Theorem model_meets_spec_unsorted : forall (c : cfg K R),
    ok_err' c (res_err (resolve' true false c)) = true
    /\ forall st, resolve' true false c = Some st ->
         forall lk m, known lk = Some m -> ok_value' c (pm_name m) (effective keqb st m) = true.
  Proof.
    intros c. pose proof (resolve_spec true c) as H.
    destruct (resolve' true false c) as [st|] eqn:Er; simpl.
    - destruct H as [Hnf Hval]. split.
      + apply forallb_forall. intros m Hm. destruct (mentioned_known c m Hm) as [lk Hk].
        unfold allowed. destruct (deciding' c m) as [s|] eqn:Ed; [|reflexivity].
        destruct (deciding_in c m s Ed) as [Hs Hne].
        destruct (setters' c m s) as [|rv l] eqn:Es; [congruence|]. simpl.
        destruct (value_of' m rv) eqn:Ev; [reflexivity|].
        exfalso. apply Hnf. exists lk, m, s, rv. repeat split; auto. rewrite Es. simpl; auto.
      + intros st' E lk m Hk. inversion E; subst st'. unfold ok_value. rewrite (known_name _ _ Hk), Hk.
        specialize (Hval lk m Hk). unfold spec_outcome in Hval. unfold allowed.
        destruct (deciding' c m) as [s|] eqn:Ed.
        * destruct (rev (setters' c m s)) as [|rv l] eqn:Erv.
          -- destruct (deciding_in c m s Ed) as [_ Hne]. exfalso. apply Hne.
             rewrite <- (rev_involutive (setters' c m s)), Erv. reflexivity.
          -- apply existsb_exists. exists (value_of' m rv). split.
             ++ apply in_map. apply in_rev. rewrite Erv. simpl; auto.
             ++ rewrite <- Hval. apply veqb_refl.
        * simpl. inversion Hval. now rewrite veqb_refl.
    - split; [|intros; discriminate].
      destruct H as (lk & m & s & rv & Hk & Hs & Hd & Hin & Hv). specialize (Hd eq_refl).
      apply existsb_exists. exists m. split; [now apply (setter_mentioned c lk m s rv)|].
      unfold allowed. rewrite Hd. apply existsb_exists. exists (value_of' m rv). split; [now apply in_map|].
      now rewrite Hv.
  Qed.
End P.

(* ---- the byte-string instance ---- *)
Lemma beqb_eq : forall a b, beqb a b = true <-> a = b.
Proof.
  induction a as [|x a IH]; destruct b as [|y b0]; simpl; split; intros H; try discriminate; auto.
  - apply andb_true_iff in H. destruct H as [H1 H2]. apply N.eqb_eq in H1. apply IH in H2. now subst.
  - inversion H; subst. rewrite N.eqb_refl. simpl. now apply IH.
Qed.

Lemma aget_in : forall B (k : bytes) (v : B) l, aget beqb k l = Some v -> In (k, v) l.
Proof.
  induction l as [|[k' v'] l IH]; simpl; intros H; [discriminate|].
  destruct (beqb k k') eqn:E.
  - apply beqb_eq in E. inversion H; subst. auto.
  - right; auto.
Qed.

Lemma known_in_name : forall table,
  forallb (fun e => beqb (lower_b (pm_name (snd e))) (fst e)) table = true ->
  forall lk m, known_in table lk = Some m -> lower_b (pm_name m) = lk.
Proof.
  intros table H lk m Hk. unfold known_in in Hk. apply aget_in in Hk.
  rewrite forallb_forall in H. specialize (H _ Hk). simpl in H. now apply beqb_eq.
Qed.
