(* C27 — specification level: what the property text says, written without the loop of resolve().

   "For every parameter, Felix's effective value is decided by the highest-priority source that sets it: its
    parsed value, the zero value for 'none', or the default if it is invalid and not fatal.  Values from
    lower-priority sources that are shadowed, and datastore values for local-only parameters, never affect the
    result, and the result does not depend on the order in which keys are read."

   Definitions only (lemmas about them are in Proofs.v). *)
From Coq Require Import List NArith Bool.
From Verif.C27 Require Import Model.
Import ListNotations.
Open Scope N_scope.

Set Implicit Arguments.

Section Spec.
  Variables K R V : Type.
  Variable keqb : K -> K -> bool.
  Variable lower : K -> K.
  Variable is_none : R -> bool.
  Variable known : K -> option (pmeta K V).
  Variable parse : K -> R -> option V.
  Variable srcs : list N.                 (* sources, highest priority first *)
  Variable src_local : N -> bool.

  (* what one raw string means for parameter m; None = Felix refuses to start (fatal) *)
  Definition value_of (m : pmeta K V) (rv : R) : option V :=
    if is_none rv then (if pm_nonzero m then None else Some (pm_zero m))
    else match parse (pm_name m) rv with
         | Some v => Some v
         | None => if pm_die m then None else Some (pm_default m)
         end.

  (* an entry of a source sets parameter m when its name is m's name up to case *)
  Definition sets_param (m : pmeta K V) (kv : K * R) : bool := keqb (lower (fst kv)) (lower (pm_name m)).
  (* datastore sources cannot set local-only parameters *)
  Definition eligible (m : pmeta K V) (s : N) : bool := negb (pm_local m && negb (src_local s)).
  (* the raw values source s gives to parameter m (several only if the source spells the name in several ways) *)
  Definition setters (c : cfg K R) (m : pmeta K V) (s : N) : list R :=
    if eligible m s then map snd (filter (sets_param m) (src_kvs c s)) else [].
  (* the highest-priority source that sets m *)
  Definition deciding (c : cfg K R) (m : pmeta K V) : option N :=
    find (fun s => match setters c m s with [] => false | _ => true end) srcs.
  (* the outcomes the property allows for m: that of the deciding source's value; the initial default if no
     source sets m.  (More than one only when the deciding source holds several spellings of the name.) *)
  Definition allowed (c : cfg K R) (m : pmeta K V) : list (option V) :=
    match deciding c m with
    | None => [Some (pm_init m)]
    | Some s => map (value_of m) (setters c m s)
    end.

  Definition is_fatal (o : option V) : bool := match o with None => true | Some _ => false end.

  (* the known parameters some source mentions *)
  Definition mentioned (c : cfg K R) : list (pmeta K V) :=
    flat_map (fun sl => flat_map (fun kv => match known (lower (fst kv)) with Some m => [m] | None => [] end) (snd sl)) c.

  (* error outcome: an error needs a parameter whose deciding value is fatal; success needs every parameter to have
     a non-fatal deciding value *)
  Definition ok_err (c : cfg K R) (err : bool) : bool :=
    if err then existsb (fun m => existsb is_fatal (allowed c m)) (mentioned c)
    else forallb (fun m => existsb (fun o => negb (is_fatal o)) (allowed c m)) (mentioned c).

  Variable veqb : V -> V -> bool.
  Definition ok_value (c : cfg K R) (name : K) (v : V) : bool :=
    match known (lower name) with
    | Some m => existsb (fun o => match o with Some v' => veqb v v' | None => false end) (allowed c m)
    | None => false
    end.
End Spec.

(* ---------------------------------------------------------------------------------------------------------
   Correspondence cases.  `env` is the translated part (Gen.v). *)
Record env := mk_env {
  e_known : list (bytes * bmeta);    (* lower-case name -> metadata *)
  e_srcs : list N;                   (* SourcesInDescendingOrder *)
  e_local : list (N * bool);         (* Source.Local() *)
  e_ovsrc : N                        (* InternalOverride *)
}.
Definition env_local (e : env) (s : N) : bool :=
  match aget N.eqb s (e_local e) with Some x => x | None => false end.

(* what the driver observed: per UpdateFrom call whether it returned an error; after the last call, if it
   succeeded, the rendered Config fields of the watched parameters and RawValues() sorted by name *)
Record obs := mk_obs {
  o_errs : list bool;                        (* per call: it returned an error *)
  o_cerrs : list bool;                       (* per call: Config.Err != nil afterwards *)
  o_changed : list (option (list bytes));    (* per call: UpdateFromConfigUpdate's changedFields sorted; for UpdateFrom
                                                ["*"] / [] for changed = true / false; None when not observed *)
  o_vals : list bytes;
  o_raws : list (bytes * bytes);
  o_fresh : bool    (* after the last call (if it succeeded): a FRESH Config fed this Config's current sources
                       (FromConfigUpdate(ToConfigUpdate())) has the same watched fields and RawValues *)
}.
Record case := mk_case {
  c_fixed : bool;                       (* tree variant, probed by the driver on the real code *)
  c_sorted : bool;
  c_parse : list ((bytes * bytes) * option bytes);   (* the real Parse on every (parameter, raw) pair of the case *)
  c_ups : list (upd bytes bytes);                    (* UpdateFrom / UpdateFromConfigUpdate calls in order *)
  c_watch : list bytes;                 (* field names whose values were observed *)
  c_obs : list obs;                     (* distinct observations over repeated runs (one if deterministic) *)
  c_envs : list (list bytes * list (bytes * bytes))   (* LoadConfigFromEnvironment: environ, the returned map sorted *)
}.

Fixpoint list_eqb {A} (eqb : A -> A -> bool) (a b : list A) : bool :=
  match a, b with
  | [], [] => true
  | x :: a', y :: b' => eqb x y && list_eqb eqb a' b'
  | _, _ => false
  end.
Definition pair_eqb (x y : bytes * bytes) := beqb (fst x) (fst y) && beqb (snd x) (snd y).
Definition ochg_eqb (x y : option (list bytes)) : bool :=
  match x, y with
  | None, None => true
  | Some a, Some b0 => list_eqb beqb a b0
  | _, _ => false
  end.
Definition obs_eqb (x y : obs) : bool :=
  list_eqb Bool.eqb (o_errs x) (o_errs y) && list_eqb Bool.eqb (o_cerrs x) (o_cerrs y)
  && list_eqb ochg_eqb (o_changed x) (o_changed y)
  && list_eqb beqb (o_vals x) (o_vals y)
  && list_eqb pair_eqb (o_raws x) (o_raws y) && Bool.eqb (o_fresh x) (o_fresh y).

Section Run.
  Variable e : env.
  Variable c : case.
  Let known := known_in (e_known e).
  Let parse := parse_in (c_parse c).

  Definition m_history (ups : list (upd bytes bytes)) :=
    run_history beqb bleb lower_b is_none_b is_empty_b known parse (e_srcs e) (env_local e) beqb (e_ovsrc e)
                (c_fixed c) (c_sorted c) ups.

  Definition is_err {A} (r : option A) : bool := match r with None => true | Some _ => false end.

  (* UpdateFrom and OverrideParam only say whether anything changed *)
  Definition show_changed (u : upd bytes bytes) (ch : option (list bytes)) : option (list bytes) :=
    match u, ch with
    | UAll _, _ => ch
    | _, Some [] => Some []
    | _, Some _ => Some [[42]]
    | _, None => None
    end.
  Fixpoint map2 {A B C} (f : A -> B -> C) (a : list A) (b0 : list B) : list C :=
    match a, b0 with
    | x :: a', y :: b' => f x y :: map2 f a' b'
    | _, _ => []
    end.

  Definition model_obs (ups : list (upd bytes bytes)) : obs :=
    let ks := m_history ups in
    let errs := map (@k_err _ _ _) ks in
    let cerrs := map (@k_cerr _ _ _) ks in
    let chs := map2 show_changed ups (map (@k_changed _ _ _) ks) in
    match last (map (@k_res _ _ _) ks) None with
    | None => mk_obs errs cerrs chs [] [] true
    | Some st =>
        mk_obs errs cerrs chs
               (map (fun n => match known (lower_b n) with
                              | Some m => effective beqb st m
                              | None => []
                              end) (c_watch c))
               (sort_kvs bleb (r_raws st))
               true
    end.

  (* map iteration orders: every permutation of an update's entries when two of its names differ only in case
     (and it is small); the given order otherwise (theorem c27_order_independent: it does not matter) *)
  Fixpoint inserts {A} (x : A) (l : list A) : list (list A) :=
    match l with
    | [] => [[x]]
    | h :: t => (x :: l) :: map (cons h) (inserts x t)
    end.
  Fixpoint perms {A} (l : list A) : list (list A) :=
    match l with
    | [] => [[]]
    | h :: t => flat_map (inserts h) (perms t)
    end.
  Fixpoint has_dup (l : list bytes) : bool :=
    match l with
    | [] => false
    | h :: t => existsb (beqb h) t || has_dup t
    end.
  Definition ambiguous (kvs : list (bytes * bytes)) : bool := has_dup (map (fun kv => lower_b (fst kv)) kvs).
  Definition orders_of (kvs : list (bytes * bytes)) : list (list (bytes * bytes)) :=
    if negb (c_sorted c) && ambiguous kvs && Nat.leb (length kvs) 5 then perms kvs else [kvs].
  (* (only UpdateFrom calls are permuted; the sorted tree needs no permutations at all) *)
  Fixpoint all_orders (ups : list (upd bytes bytes)) : list (list (upd bytes bytes)) :=
    match ups with
    | [] => [[]]
    | UFrom s kvs :: t =>
        let rest := all_orders t in
        flat_map (fun o => map (cons (UFrom s o)) rest) (orders_of kvs)
    | u :: t => map (cons u) (all_orders t)
    end.

  Definition model_agrees : bool :=
    let ms := map model_obs (all_orders (c_ups c)) in
    forallb (fun o => existsb (obs_eqb o) ms) (c_obs c).

  (* ---- the oracle: Spec on the implementation's observations ---- *)
  Definition s_store := store (K := bytes) is_empty_b.
  Fixpoint cfgs_after (cf : hst bytes bytes) (ups : list (upd bytes bytes)) : list (cfg bytes bytes) :=
    match ups with
    | [] => []
    | u :: t => let c' := apply_upd beqb is_empty_b 6 cf u in fst c' :: cfgs_after c' t
    end.
  (* the ORACLE takes the priority order and the local sources from the property text, not from the code:
     internal override (6), environment (5), config file (4), per-host (3), per-selector (2), global datastore (1);
     the first three are local.  (Theorem c27_gen_source_order ties the numbers to Source.String().) *)
  Definition spec_srcs : list N := [6; 5; 4; 3; 2; 1].
  Definition spec_local (s : N) : bool := 4 <=? s.
  Definition s_ok_err := ok_err beqb lower_b is_none_b known parse spec_srcs spec_local.
  Definition s_ok_value := ok_value beqb lower_b is_none_b known parse spec_srcs spec_local beqb.

  Fixpoint all2 {A B} (f : A -> B -> bool) (a : list A) (b : list B) : bool :=
    match a, b with
    | [], [] => true
    | x :: a', y :: b' => f x y && all2 f a' b'
    | _, _ => false
    end.

  Definition ok_obs (o : obs) : bool :=
    let cfs := cfgs_after ([], []) (c_ups c) in
    all2 s_ok_err cfs (o_errs o)
    && all2 (fun er ce => implb er ce) (o_errs o) (o_cerrs o)      (* an error return leaves Config.Err set *)
    && o_fresh o       (* the result is a function of the CURRENT sources: a fresh Config fed them agrees *)
    && match last (o_errs o) true with
       | true => true
       | false => all2 (s_ok_value (last cfs [])) (c_watch c) (o_vals o)
       end.

  (* deterministic (one distinct observation over the repeated runs) and every observation allowed *)
  Definition ok_case : bool :=
    Nat.eqb (length (c_obs c)) 1 && forallb ok_obs (c_obs c).

  (* LoadConfigFromEnvironment: every returned name is lower-case and comes from a FELIX_ variable with that value; every
     FELIX_ variable is represented *)
  Definition ok_env (environ : list bytes) (m : list (bytes * bytes)) : bool :=
    forallb (fun kv => beqb (lower_b (fst kv)) (fst kv)
                       && existsb (fun e => match env_entry e with
                                            | Some (k, v) => beqb k (fst kv) && beqb v (snd kv)
                                            | None => false
                                            end) environ) m
    && forallb (fun e => match env_entry e with
                         | Some (k, _) => existsb (fun kv => beqb (fst kv) k) m
                         | None => true
                         end) environ.
  Definition env_agrees : bool :=
    forallb (fun em => list_eqb pair_eqb (sort_kvs bleb (load_env (fst em))) (snd em)) (c_envs c).

  Definition check_case : bool * bool :=
    (model_agrees && env_agrees, ok_case && forallb (fun em => ok_env (fst em) (snd em)) (c_envs c)).
End Run.
