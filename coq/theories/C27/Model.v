(* C27 — executable model of felix/config Config.UpdateFrom / Config.resolve (config_params.go).
   Definitions only, no proofs.

   What is mirrored:
     * UpdateFrom(rawData, source): drop the entries whose value is empty, store the rest as the raw config of
       that source, then resolve() over ALL sources;
     * resolve(): start from the defaults; for every source of SourcesInDescendingOrder, for every (rawName,
       rawValue) of that source's map (Go map iteration order = the order of the association list here, an
       explicit parameter of the model): lower-case the name, look the parameter up, unknown names are stashed
       as raw values, local-only parameters from a non-local source are skipped, "none" gives the zero value
       (fatal for non-zero parameters), otherwise Parse; a parse failure is fatal for die-on-fail parameters and
       gives the default otherwise; the value is stored unless a higher-priority source already set it.
     * `fixed`  = false: the code as pinned: the `source < currentSource` shadow check comes AFTER parsing and
                  after the fatal exits;
                = true : fixes/C27-shadow-check-before-parse.patch: the shadow check comes before parsing.
     * `sorted` = false: the code as pinned: keys are visited in map iteration order;
                = true : fixes/C27-deterministic-key-order.patch: keys are visited in sorted order.

   The parameter table (name, local, die-on-fail, non-zero, zero value, default, initial value), the source
   order and Source.Local() are TRANSLATED from the Go code on every run (Gen.v); parsing is an oracle. *)
From Coq Require Import List NArith Bool.
Import ListNotations.
Open Scope N_scope.

Set Implicit Arguments.

(* Parameter metadata as produced by loadParams() (param_types.go: Metadata). *)
Record pmeta (K V : Type) := mk_pmeta {
  pm_name : K;            (* Metadata.Name: the Config field name *)
  pm_local : bool;        (* Metadata.Local *)
  pm_die : bool;          (* Metadata.DieOnParseFailure *)
  pm_nonzero : bool;      (* Metadata.NonZero *)
  pm_zero : V;            (* Metadata.ZeroValue *)
  pm_default : V;         (* Metadata.Default: replaces an invalid, non-fatal value *)
  pm_init : V             (* the field's value after applyDefaults() (differs from Default only for FelixHostname) *)
}.

Section Model.
  Variables K R V : Type.                 (* names, raw values, parsed values *)
  Variable keqb : K -> K -> bool.
  Variable kleb : K -> K -> bool.         (* Go's string order, used by the `sorted` variant *)
  Variable lower : K -> K.                (* strings.ToLower *)
  Variable is_none : R -> bool.           (* strings.ToLower(rawValue) == "none" *)
  Variable is_empty : R -> bool.          (* rawValue == "" *)
  Variable known : K -> option (pmeta K V).   (* knownParams[lowerCaseName] *)
  Variable parse : K -> R -> option V.    (* param.Parse(rawValue) of the parameter with that field name *)
  Variable srcs : list N.                 (* SourcesInDescendingOrder as uint8 values *)
  Variable src_local : N -> bool.         (* Source.Local() *)

  (* association lists with "last write wins by replacing in place" *)
  Fixpoint aget {A B} (eqb : A -> A -> bool) (k : A) (l : list (A * B)) : option B :=
    match l with
    | [] => None
    | (k', v) :: t => if eqb k k' then Some v else aget eqb k t
    end.
  Fixpoint aset {A B} (eqb : A -> A -> bool) (k : A) (v : B) (l : list (A * B)) : list (A * B) :=
    match l with
    | [] => [(k, v)]
    | (k', v') :: t => if eqb k k' then (k, v) :: t else (k', v') :: aset eqb k v t
    end.

  (* the locals of resolve(): Config fields that were set, newRawValues, nameToSource *)
  Record rst := mk_rst {
    r_vals : list (K * V);
    r_raws : list (K * R);
    r_n2s : list (K * N)
  }.
  Definition rst0 : rst := mk_rst [] [] [].

  (* value of one raw string for a known parameter; None = the fatal exit (config.Err set, resolve returns) *)
  Definition interp (m : pmeta K V) (rv : R) : option V :=
    if is_none rv then
      (if pm_nonzero m then None else Some (pm_zero m))
    else match parse (pm_name m) rv with
         | Some v => Some v
         | None => if pm_die m then None else Some (pm_default m)
         end.

  Definition cur_source (st : rst) (lk : K) : N :=
    match aget keqb lk (r_n2s st) with Some s => s | None => 0 end.

  (* one iteration of the inner loop; None = fatal exit *)
  Definition step (fixed : bool) (src : N) (st : rst) (kv : K * R) : option rst :=
    let '(k, rv) := kv in
    let lk := lower k in
    let cur := cur_source st lk in
    match known lk with
    | None =>
        if cur <=? src
        then Some (mk_rst (r_vals st) (aset keqb k rv (r_raws st)) (aset keqb lk src (r_n2s st)))
        else Some st
    | Some m =>
        if pm_local m && negb (src_local src) then Some st
        else if fixed && (src <? cur) then Some st
        else match interp m rv with
             | None => None
             | Some v =>
                 if src <? cur then Some st
                 else Some (mk_rst (aset keqb (pm_name m) v (r_vals st))
                                   (aset keqb (pm_name m) rv (r_raws st))
                                   (aset keqb lk src (r_n2s st)))
             end
    end.

  Fixpoint run_kvs (fixed : bool) (src : N) (kvs : list (K * R)) (st : rst) : option rst :=
    match kvs with
    | [] => Some st
    | kv :: t => match step fixed src st kv with
                 | None => None
                 | Some st' => run_kvs fixed src t st'
                 end
    end.

  (* insertion sort of one source's entries by key (slices.Sorted(maps.Keys(...))) *)
  Fixpoint insert_kv (kv : K * R) (l : list (K * R)) : list (K * R) :=
    match l with
    | [] => [kv]
    | h :: t => if kleb (fst kv) (fst h) then kv :: h :: t else h :: insert_kv kv t
    end.
  Fixpoint sort_kvs (l : list (K * R)) : list (K * R) :=
    match l with
    | [] => []
    | h :: t => insert_kv h (sort_kvs t)
    end.
  Definition order (sorted : bool) (l : list (K * R)) := if sorted then sort_kvs l else l.

  (* config.sourceToRawConfig : source -> entries, the list order being the map iteration order *)
  Definition cfg := list (N * list (K * R)).
  Definition src_kvs (c : cfg) (s : N) : list (K * R) :=
    match aget N.eqb s c with Some l => l | None => [] end.

  Fixpoint run_srcs (fixed sorted : bool) (c : cfg) (ss : list N) (st : rst) : option rst :=
    match ss with
    | [] => Some st
    | s :: t => match run_kvs fixed s (order sorted (src_kvs c s)) st with
                | None => None
                | Some st' => run_srcs fixed sorted c t st'
                end
    end.

  Definition resolve (fixed sorted : bool) (c : cfg) : option rst := run_srcs fixed sorted c srcs rst0.

  (* the Config field of a known parameter after a successful resolve *)
  Definition effective (st : rst) (m : pmeta K V) : V :=
    match aget keqb (pm_name m) (r_vals st) with Some v => v | None => pm_init m end.

  (* UpdateFrom: the new raw config of `src` replaces the old one *)
  Definition store (c : cfg) (src : N) (kvs : list (K * R)) : cfg :=
    aset N.eqb src (filter (fun kv => negb (is_empty (snd kv))) kvs) c.

  (* a history of UpdateFrom calls on a fresh Config: the stored config and resolve's result after each call *)
  Fixpoint run_updates (fixed sorted : bool) (c : cfg) (ups : list (N * list (K * R))) : list (option rst) :=
    match ups with
    | [] => []
    | (s, kvs) :: t => let c' := store c s kvs in resolve fixed sorted c' :: run_updates fixed sorted c' t
    end.
  Fixpoint final_cfg (c : cfg) (ups : list (N * list (K * R))) : cfg :=
    match ups with
    | [] => c
    | (s, kvs) :: t => final_cfg (store c s kvs) t
    end.

  (* ---- histories of calls: UpdateFrom, UpdateFromConfigUpdate, the `changed` results, Config.Err ---- *)
  Variable veqb : V -> V -> bool.         (* SafeParamsEqual on field values *)

  (* The long-lived part of a Config between calls: sourceToRawConfig and internalOverrides.  (The fields, rawValues and
     nameToSource are recomputed from scratch by every resolve(): applyDefaults() first.)
       UFrom s kvs : UpdateFrom(rawData, source)
       UAll msg    : UpdateFromConfigUpdate(msg): sourceToRawConfig is REPLACED by the message's per-source raw config
                     (empty values are NOT dropped on this path)
       UOver k v   : OverrideParam(name, value): internalOverrides[name] = value, then
                     UpdateFrom(internalOverrides, InternalOverride)
     each followed by resolve(). *)
  Variable ov_src : N.                    (* InternalOverride *)
  Inductive upd := UFrom (s : N) (kvs : list (K * R)) | UAll (c : cfg) | UOver (k : K) (v : R).
  Definition hst := (cfg * list (K * R))%type.
  Definition apply_upd (h : hst) (u : upd) : hst :=
    match u with
    | UFrom s kvs => (store (fst h) s kvs, snd h)
    | UAll c' => (c', snd h)
    | UOver k v => let ov := aset keqb k v (snd h) in (store (fst h) ov_src ov, ov)
    end.
  Definition final_hst (h : hst) (us : list upd) : hst := fold_left apply_upd us h.

  Definition add_key (k : K) (l : list K) : list K := if existsb (keqb k) l then l else k :: l.
  Fixpoint insert_key (k : K) (l : list K) : list K :=
    match l with
    | [] => [k]
    | h :: t => if kleb k h then k :: h :: t else h :: insert_key k t
    end.
  Definition sort_keys (l : list K) : list K := fold_right insert_key [] l.

  (* resolve()'s changedFields: the fields whose value differs (SafeParamsEqual) between the Config before the call
     and after it; only fields some source has set (now or before) can differ.  Sorted by name. *)
  Definition changed_names (prev cur : rst) : list K :=
    let ns := fold_right add_key [] (map fst (r_vals prev) ++ map fst (r_vals cur)) in
    sort_keys (filter (fun n => match known (lower n) with
                                | Some m => negb (veqb (effective prev m) (effective cur m))
                                | None => false
                                end) ns).

  Record call := mk_call {
    k_err : bool;                      (* the call returned an error *)
    k_cerr : bool;                     (* Config.Err != nil after the call: set by a fatal resolve, never cleared *)
    k_changed : option (list K);       (* changedFields; None when this call or the previous one failed (the fields
                                          are then in a partially-updated state the model does not track) *)
    k_res : option rst
  }.
  Definition res_err (r : option rst) : bool := match r with None => true | Some _ => false end.

  Fixpoint run_calls (fixed sorted : bool) (h : hst) (prev : option rst) (cerr : bool) (us : list upd) : list call :=
    match us with
    | [] => []
    | u :: t =>
        let h' := apply_upd h u in
        let r := resolve fixed sorted (fst h') in
        let err := res_err r in
        let ch := match prev, r with Some p, Some st => Some (changed_names p st) | _, _ => None end in
        mk_call err (cerr || err) ch r :: run_calls fixed sorted h' r (cerr || err) t
    end.
  (* a fresh Config (config.New()): no raw config, no overrides, the defaults, Err = nil *)
  Definition hst0 : hst := ([], []).
  Definition run_history (fixed sorted : bool) (us : list upd) : list call :=
    run_calls fixed sorted hst0 (Some rst0) false us.
End Model.

(* ---------------------------------------------------------------------------------------------------------
   The instance the correspondence run uses: names, raw values and rendered values are byte strings. *)
Definition bytes := list N.
Fixpoint beqb (a b : bytes) : bool :=
  match a, b with
  | [], [] => true
  | x :: a', y :: b' => N.eqb x y && beqb a' b'
  | _, _ => false
  end.
(* Go's < on strings is the lexicographic order of the bytes *)
Fixpoint bleb (a b : bytes) : bool :=
  match a, b with
  | [], _ => true
  | _ :: _, [] => false
  | x :: a', y :: b' => if N.ltb x y then true else if N.ltb y x then false else bleb a' b'
  end.
(* strings.ToLower restricted to ASCII (the generator's domain for names) *)
Definition lower_byte (c : N) : N := if (65 <=? c) && (c <=? 90) then c + 32 else c.
Definition lower_b (s : bytes) : bytes := map lower_byte s.
Definition none_lit : bytes := [110; 111; 110; 101].
Definition is_none_b (s : bytes) : bool := beqb (lower_b s) none_lit.
Definition is_empty_b (s : bytes) : bool := match s with [] => true | _ => false end.

Definition bmeta := pmeta bytes bytes.
Definition known_in (table : list (bytes * bmeta)) (lk : bytes) : option bmeta := aget beqb lk table.
Definition parse_in (tbl : list ((bytes * bytes) * option bytes)) (name rv : bytes) : option bytes :=
  match aget (fun a b => beqb (fst a) (fst b) && beqb (snd a) (snd b)) (name, rv) tbl with
  | Some r => r
  | None => None
  end.

(* ---- env_var_loader.go: LoadConfigFromEnvironment(environ) ----
   for each "NAME=value": split at the first '=', lower-case the name; if it starts with "felix_" the rest of the name is
   the parameter name (lower-case!) and the value is stored in the result map (a later entry overwrites). *)
Fixpoint split_eq (s : bytes) : option (bytes * bytes) :=
  match s with
  | [] => None
  | c :: t => if c =? 61 then Some ([], t)
              else match split_eq t with Some (k, v) => Some (c :: k, v) | None => None end
  end.
Fixpoint has_prefix (p s : bytes) : bool :=
  match p, s with
  | [], _ => true
  | x :: p', y :: s' => (x =? y) && has_prefix p' s'
  | _, _ => false
  end.
Definition felix_prefix : bytes := [102; 101; 108; 105; 120; 95].
Definition env_entry (kv : bytes) : option (bytes * bytes) :=
  match split_eq kv with
  | None => None
  | Some (k, v) => let lk := lower_b k in if has_prefix felix_prefix lk then Some (skipn 6 lk, v) else None
  end.
Definition load_env (environ : list bytes) : list (bytes * bytes) :=
  fold_left (fun m kv => match env_entry kv with Some (k, v) => aset beqb k v m | None => m end) environ [].

(* byte strings from Coq string literals (used by Gen.v and by the cases the driver prints) *)
From Coq Require Import String Ascii.
Fixpoint b (s : string) : bytes :=
  match s with
  | EmptyString => []
  | String a t => N_of_ascii a :: b t
  end.
