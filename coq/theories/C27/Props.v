(* C27 — property theorems only. *)
From Coq Require Import List NArith Bool.
From Verif.C27 Require Import Model Spec Proofs.
Import ListNotations.
Open Scope N_scope.

(* One loop iteration on a local-only parameter read from a datastore source changes nothing, whatever the value. *)
Theorem c27_local_only_step_skipped :
  forall (K R V : Type) keqb lower is_none known parse src_local fixed src st (k : K) (rv : R) (m : pmeta K V),
    known (lower k) = Some m -> pm_local m = true -> src_local src = false ->
    step keqb lower is_none known parse src_local fixed src st (k, rv) = Some st.
Proof. exact step_local_skipped. Qed.
Print Assumptions c27_local_only_step_skipped.
