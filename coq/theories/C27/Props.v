(* C27 — property theorems only.  The general theorems are stated inside a Section: they hold for EVERY type of
   names / raw values / parsed values, every case-folding function `lower`, every parameter table `known`, every
   parse function, every set of sources `srcs` listed in strictly descending priority (all > 0, the value of
   "<default>"), every Source.Local predicate, every configuration and every key order.  coq/gen/C27/PropsGen.v
   instantiates them with the table and source order TRANSLATED from the Go code on every run. *)
From Coq Require Import List NArith Bool Permutation.
From Verif.C27 Require Import Model Spec Proofs ProofsSorted ProofsCalls ProofsEnv.
Import ListNotations.
Open Scope N_scope.

Section General.
  Variables K R V : Type.
  Variable keqb : K -> K -> bool.
  Variable lower : K -> K.
  Variable is_none : R -> bool.
  Variable known : K -> option (pmeta K V).
  Variable parse : K -> R -> option V.
  Variable src_local : N -> bool.
  Variable kleb : K -> K -> bool.
  Variable srcs : list N.
  Hypothesis keqb_eq : forall a b, keqb a b = true <-> a = b.
  Hypothesis known_name : forall lk m, known lk = Some m -> lower (pm_name m) = lk.
  Hypothesis srcs_desc : sdesc srcs.
  Hypothesis srcs_pos : forall s, In s srcs -> 0 < s.

  Notation resolve' := (resolve keqb kleb lower is_none known parse srcs src_local).
  Notation spec_outcome' := (spec_outcome K R V keqb lower is_none parse src_local srcs).
  Notation SpecFatal' := (SpecFatal K R V keqb lower is_none known parse src_local srcs).
  Notation res_equiv' := (res_equiv K R V keqb known).
  Notation differ_only' := (differ_only K R V keqb lower).

  (* The loop of resolve() computes exactly what the property says, for BOTH code variants as far as values go:
     on success every parameter has the value of the highest-priority source that sets it (deciding = first source in
     priority order with an eligible entry for the name up to case): its parsed value, the zero value for 'none', the
     default if invalid and not fatal; the initial default if no source sets it.  resolve fails iff
       fixed = true : the DECIDING source of some parameter holds a fatal value (invalid + die-on-fail, 'none' + non-zero);
       fixed = false: ANY eligible source of some parameter holds a fatal value (the pinned code: shadowed values too). *)
  Theorem c27_highest_source_decides : forall fixed (c : cfg K R),
    match resolve' fixed false c with
    | None => SpecFatal' fixed c
    | Some st => ~ SpecFatal' fixed c
                 /\ forall lk m, known lk = Some m -> Some (effective keqb st m) = spec_outcome' c m
    end.
  Proof. exact (resolve_spec K R V keqb lower is_none known parse src_local kleb srcs keqb_eq known_name srcs_desc srcs_pos). Qed.

  (* Repaired code (shadow check before parsing): changing, removing or adding what a lower-priority source s0 says about
     a parameter that a higher-priority source s1 decides changes neither any parameter's value nor the error outcome. *)
  Theorem c27_shadowed_irrelevant : forall (c c' : cfg K R) s0 s1 lk0 m0,
    known lk0 = Some m0 -> deciding keqb lower srcs src_local c m0 = Some s1 -> s0 < s1 ->
    differ_only' c c' s0 m0 ->
    res_equiv' (resolve' true false c) (resolve' true false c').
  Proof. exact (shadowed_irrelevant_fixed K R V keqb lower is_none known parse src_local kleb srcs keqb_eq known_name srcs_desc srcs_pos). Qed.

  (* Both variants: whatever a non-local (datastore) source says about a local-only parameter is irrelevant. *)
  Theorem c27_local_only_ignored_from_datastore : forall fixed (c c' : cfg K R) s0 lk0 m0,
    known lk0 = Some m0 -> pm_local m0 = true -> src_local s0 = false ->
    differ_only' c c' s0 m0 ->
    res_equiv' (resolve' fixed false c) (resolve' fixed false c').
  Proof. exact (local_only_ignored K R V keqb lower is_none known parse src_local kleb srcs keqb_eq known_name srcs_desc srcs_pos). Qed.

  (* Both variants: for every permutation of the keys of every source (= every Go map iteration order) the result is
     the same, PROVIDED no source spells a parameter name in two ways.  (Without the proviso the pinned code depends on
     the order: c27_order_independent_refuted_unsorted.) *)
  Theorem c27_order_independent : forall fixed (c c' : cfg K R),
    unambiguous K R lower c -> (forall s, Permutation (src_kvs c s) (src_kvs c' s)) ->
    res_equiv' (resolve' fixed false c) (resolve' fixed false c').
  Proof. exact (order_independent_unsorted K R V keqb lower is_none known parse src_local kleb srcs keqb_eq known_name srcs_desc srcs_pos). Qed.

  (* One loop iteration on a local-only parameter read from a datastore source changes nothing, whatever the value. *)
  Theorem c27_local_only_step_skipped : forall fixed src st (k : K) (rv : R) (m : pmeta K V),
    known (lower k) = Some m -> pm_local m = true -> src_local src = false ->
    step keqb lower is_none known parse src_local fixed src st (k, rv) = Some st.
  Proof. exact (step_local_skipped K R V keqb lower is_none known parse src_local). Qed.
End General.
Print Assumptions c27_highest_source_decides.
Print Assumptions c27_shadowed_irrelevant.
Print Assumptions c27_local_only_ignored_from_datastore.
Print Assumptions c27_order_independent.
Print Assumptions c27_local_only_step_skipped.

(* ---- the SORTED variant (fixes/C27-deterministic-key-order.patch; the code now in the tree) ---- *)
Section Sorted.
  Variables K R V : Type.
  Variable keqb : K -> K -> bool.
  Variable lower : K -> K.
  Variable is_none : R -> bool.
  Variable known : K -> option (pmeta K V).
  Variable parse : K -> R -> option V.
  Variable src_local : N -> bool.
  Variable kleb : K -> K -> bool.
  Variable srcs : list N.
  Hypothesis keqb_eq : forall a b, keqb a b = true <-> a = b.
  Hypothesis known_name : forall lk m, known lk = Some m -> lower (pm_name m) = lk.
  Hypothesis srcs_desc : sdesc srcs.
  Hypothesis srcs_pos : forall s, In s srcs -> 0 < s.
  (* the key order (Go's < on strings) is a total order *)
  Hypothesis kleb_total : forall a b, kleb a b = true \/ kleb b a = true.
  Hypothesis kleb_antisym : forall a b, kleb a b = true -> kleb b a = true -> a = b.
  Hypothesis kleb_trans : forall a b c, kleb a b = true -> kleb b c = true -> kleb a c = true.
  Notation resolve' := (resolve keqb kleb lower is_none known parse srcs src_local).

  (* ALL inputs, including several case-variant spellings of one parameter in one source: for every permutation of the
     entries of every source (= every Go map iteration order; a map holds each exact key once) resolve returns the SAME
     result: the same error outcome and, on success, identical fields, raw values and nameToSource.  Both settings of
     `fixed`. *)
  Theorem c27_order_independent_sorted : forall fixed (c c' : cfg K R),
    (forall s, NoDup (map fst (src_kvs c s))) -> (forall s, Permutation (src_kvs c s) (src_kvs c' s)) ->
    resolve' fixed true c = resolve' fixed true c'.
  Proof. exact (order_independent_sorted K R V keqb lower is_none known parse src_local kleb srcs kleb_total kleb_antisym kleb_trans). Qed.

  (* Which spelling wins: among the entries of the deciding source that name the parameter (up to case), the one whose
     name is LAST in the key order (byte order) gives the value. *)
  Theorem c27_sorted_last_spelling_wins : forall fixed (c : cfg K R) st lk m s k rv,
    (forall s, NoDup (map fst (src_kvs c s))) ->
    resolve' fixed true c = Some st ->
    known lk = Some m -> deciding keqb lower srcs src_local c m = Some s -> eligible src_local m s = true ->
    In (k, rv) (src_kvs c s) -> sets_param keqb lower m (k, rv) = true ->
    (forall k' rv', In (k', rv') (src_kvs c s) -> sets_param keqb lower m (k', rv') = true -> kleb k' k = true) ->
    Some (effective keqb st m) = value_of is_none parse m rv.
  Proof. exact (sorted_last_spelling_wins K R V keqb lower is_none known parse src_local kleb srcs keqb_eq known_name
                  srcs_desc srcs_pos kleb_total kleb_antisym kleb_trans). Qed.

  (* The sorted variant is the unsorted loop run on the configuration with every source's entries sorted, so
     c27_highest_source_decides, c27_shadowed_irrelevant and c27_local_only_ignored_from_datastore apply to it. *)
  Theorem c27_sorted_is_unsorted_on_sorted_cfg : forall fixed (c : cfg K R),
    resolve' fixed true c = resolve' fixed false (sortcfg K R kleb c)
    /\ forall s, src_kvs (sortcfg K R kleb c) s = sort_kvs kleb (src_kvs c s).
  Proof.
    intros. split.
    - exact (resolve_sorted_as_unsorted K R V keqb lower is_none known parse src_local kleb srcs fixed c).
    - exact (src_kvs_sortcfg K R kleb c).
  Qed.
  (* MODEL MEETS SPEC: the boolean oracle of Spec.v (ok_err / ok_value, the one the correspondence run applies to the
     implementation's observations) accepts the repaired model's error outcome and every parameter value it computes, for
     every configuration and both key-order variants. *)
  Variable veqb : V -> V -> bool.
  Hypothesis veqb_refl : forall v, veqb v v = true.
  Theorem c27_model_meets_spec : forall sorted (c : cfg K R),
    ok_err keqb lower is_none known parse srcs src_local c (res_err (resolve' true sorted c)) = true
    /\ forall st, resolve' true sorted c = Some st ->
         forall lk m, known lk = Some m ->
           ok_value keqb lower is_none known parse srcs src_local veqb c (pm_name m) (effective keqb st m) = true.
  Proof. exact (model_meets_spec K R V keqb lower is_none known parse src_local kleb srcs keqb_eq known_name srcs_desc srcs_pos
                  veqb veqb_refl). Qed.
End Sorted.
Print Assumptions c27_model_meets_spec.
Print Assumptions c27_order_independent_sorted.
Print Assumptions c27_sorted_last_spelling_wins.
Print Assumptions c27_sorted_is_unsorted_on_sorted_cfg.

(* ---- histories of UpdateFrom / UpdateFromConfigUpdate calls on one Config ---- *)
Section Calls.
  Variables K R V : Type.
  Variable keqb : K -> K -> bool.
  Variable kleb : K -> K -> bool.
  Variable lower : K -> K.
  Variable is_none : R -> bool.
  Variable is_empty : R -> bool.
  Variable known : K -> option (pmeta K V).
  Variable parse : K -> R -> option V.
  Variable srcs : list N.
  Variable src_local : N -> bool.
  Variable veqb : V -> V -> bool.
  Variable ov_src : N.
  Hypothesis veqb_refl : forall v, veqb v v = true.
  Hypothesis keqb_refl : forall k, keqb k k = true.
  Notation run_calls' := (run_calls keqb kleb lower is_none is_empty known parse srcs src_local veqb ov_src).
  Notation resolve' := (resolve keqb kleb lower is_none known parse srcs src_local).
  Notation apply_upd' := (apply_upd keqb is_empty ov_src).
  Notation final_hst' := (final_hst keqb is_empty ov_src).

  (* HISTORY-LEVEL DETERMINISM.  One long-lived Config, any history of UpdateFrom / UpdateFromConfigUpdate / OverrideParam
     calls, including calls whose resolve() failed half-way: the resolved configuration after the history is resolve() of
     the sources as they are NOW (so every clause of the property transfers to histories), ... *)
  Theorem c27_history_resolves_final_sources : forall fixed sorted us (h : hst K R) prev cerr d, us <> [] ->
    k_res (last (run_calls' fixed sorted h prev cerr us) d) = resolve' fixed sorted (fst (final_hst' h us)).
  Proof. exact (history_last K R V keqb kleb lower is_none is_empty known parse srcs src_local veqb ov_src). Qed.

  (* ... hence two Configs whose histories end with the same sources (e.g. a long-lived one and a fresh one fed the final
     sources) are resolved identically. *)
  Theorem c27_same_final_sources_same_result : forall fixed sorted us1 us2 (h1 h2 : hst K R) p1 p2 e1 e2 d,
    us1 <> [] -> us2 <> [] -> fst (final_hst' h1 us1) = fst (final_hst' h2 us2) ->
    k_res (last (run_calls' fixed sorted h1 p1 e1 us1) d) = k_res (last (run_calls' fixed sorted h2 p2 e2 us2) d).
  Proof. exact (same_final_sources_same_result K R V keqb kleb lower is_none is_empty known parse srcs src_local veqb ov_src). Qed.

  (* Config.Err after each call = Config.Err before OR an error returned by some call so far; once set it stays set. *)
  Theorem c27_config_err_sticky : forall fixed sorted us (h : hst K R) prev cerr,
    map (@k_cerr K R V) (run_calls' fixed sorted h prev cerr us)
    = scan_or cerr (map (@k_err K R V) (run_calls' fixed sorted h prev cerr us))
    /\ Forall (fun k => k_cerr k = true) (run_calls' fixed sorted h prev true us).
  Proof.
    intros. split.
    - exact (cerr_scan K R V keqb kleb lower is_none is_empty known parse srcs src_local veqb ov_src fixed sorted us h prev cerr).
    - exact (cerr_sticky K R V keqb kleb lower is_none is_empty known parse srcs src_local veqb ov_src fixed sorted us h prev).
  Qed.

  (* `changed`: a call that leaves the raw configuration as it is (the ConfigUpdate message carrying what Felix already
     has; the same datastore config again) reports no changed field and no error, after a successful resolve. *)
  Theorem c27_unchanged_config_reports_no_change : forall fixed sorted (h : hst K R) st cerr u t,
    resolve' fixed sorted (fst h) = Some st -> fst (apply_upd' h u) = fst h ->
    match run_calls' fixed sorted h (Some st) cerr (u :: t) with
    | k :: _ => k_changed k = Some [] /\ k_err k = false /\ k_res k = Some st
    | [] => False
    end.
  Proof. exact (unchanged_cfg_unchanged_fields K R V keqb kleb lower is_none is_empty known parse srcs src_local veqb ov_src veqb_refl). Qed.

  Theorem c27_repeated_update_reports_no_change : forall fixed sorted (h : hst K R) prev cerr u t st,
    resolve' fixed sorted (fst (apply_upd' h u)) = Some st ->
    match run_calls' fixed sorted h prev cerr (u :: u :: t) with
    | _ :: k2 :: _ => k_changed k2 = Some [] /\ k_err k2 = false
    | _ => False
    end.
  Proof. exact (repeat_update_unchanged K R V keqb kleb lower is_none is_empty known parse srcs src_local veqb ov_src veqb_refl keqb_refl). Qed.

  (* UpdateFromConfigUpdate replaces every source: the result of that call and of all later calls is a function of the
     message, the overrides and the later calls alone, whatever sources the Config held before. *)
  Theorem c27_config_update_message_decides : forall fixed sorted (c1 c2 : cfg K R) ov p1 p2 e1 e2 msg t,
    match run_calls' fixed sorted (c1, ov) p1 e1 (UAll msg :: t), run_calls' fixed sorted (c2, ov) p2 e2 (UAll msg :: t) with
    | k1 :: r1, k2 :: r2 => k_res k1 = resolve' fixed sorted msg /\ k_res k1 = k_res k2 /\ k_err k1 = k_err k2
                            /\ map (@k_res K R V) r1 = map (@k_res K R V) r2
    | _, _ => False
    end.
  Proof. exact (config_update_decides K R V keqb kleb lower is_none is_empty known parse srcs src_local veqb ov_src). Qed.
End Calls.
Print Assumptions c27_history_resolves_final_sources.
Print Assumptions c27_same_final_sources_same_result.
Print Assumptions c27_config_err_sticky.
Print Assumptions c27_unchanged_config_reports_no_change.
Print Assumptions c27_repeated_update_reports_no_change.
Print Assumptions c27_config_update_message_decides.

(* env_var_loader.go: the map LoadConfigFromEnvironment returns (model load_env, compared with the real function on every
   run) has pairwise distinct, lower-case names: the environment source never holds two case-variant spellings of one
   parameter, so the proviso of c27_order_independent always holds for it. *)
Theorem c27_env_source_unambiguous : forall environ,
  NoDup (map fst (load_env environ)) /\ NoDup (map (fun kv => lower_b (fst kv)) (load_env environ)).
Proof. exact load_env_unambiguous. Qed.
Print Assumptions c27_env_source_unambiguous.

From Coq Require Import String.
Open Scope string_scope.
(* ---- refutations on the faithful model of the PINNED code (fixed = false / sorted = false), by computation on a
   one-parameter table; the same inputs are in the driver's corpus and are replayed on the real code ---- *)
Definition t_known : bytes -> option bmeta :=
  known_in [(b "chaininsertmode", mk_pmeta (b "ChainInsertMode") false true true (b "zero") (b "insert") (b "insert"));
            (b "healthhost", mk_pmeta (b "HealthHost") false false false (b "zero") (b "localhost") (b "localhost"))].
Definition t_parse (name rv : bytes) : option bytes :=
  if beqb rv (b "append") || beqb rv (b "insert") || beqb rv (b "1.2.3.4") then Some rv else None.
Definition t_local (s : N) : bool := (4 <=? s)%N.
Definition t_resolve fixed sorted := resolve beqb bleb lower_b is_none_b t_known t_parse [6; 5; 4; 3; 2; 1] t_local fixed sorted.
Definition t_value fixed sorted c name :=
  match t_resolve fixed sorted c, t_known (lower_b name) with
  | Some st, Some m => Some (effective beqb st m)
  | _, _ => None
  end.

(* env ChainInsertMode=append shadows the datastore's ChainInsertMode; the shadowed value "garbage" makes the pinned
   code fail although the configurations differ only in that shadowed entry (hypotheses of c27_shadowed_irrelevant). *)
Definition w_c : cfg bytes bytes := [(5, [(b "chaininsertmode", b "append")]); (1, [(b "ChainInsertMode", b "insert")])].
Definition w_c' : cfg bytes bytes := [(5, [(b "chaininsertmode", b "append")]); (1, [(b "ChainInsertMode", b "garbage")])].
Theorem c27_shadowed_irrelevant_refuted_unfixed :
  deciding beqb lower_b [6; 5; 4; 3; 2; 1] t_local w_c (mk_pmeta (b "ChainInsertMode") false true true (b "zero") (b "insert") (b "insert")) = Some 5
  /\ differ_only bytes bytes bytes beqb lower_b w_c w_c' 1 (mk_pmeta (b "ChainInsertMode") false true true (b "zero") (b "insert") (b "insert"))
  /\ t_value false false w_c (b "ChainInsertMode") = Some (b "append")
  /\ t_resolve false false w_c' = None
  /\ t_value true false w_c' (b "ChainInsertMode") = Some (b "append").
Proof. repeat split; vm_compute; try reflexivity. intros s Hs. destruct s as [|[p|p|]]; try reflexivity. exfalso; apply Hs; reflexivity. Qed.
Print Assumptions c27_shadowed_irrelevant_refuted_unfixed.

(* one source spells HealthHost in two ways: the pinned code's result depends on the order of the keys; with sorted keys
   (fixes/C27-deterministic-key-order.patch) it does not *)
Definition w_o1 : cfg bytes bytes := [(4, [(b "HealthHost", b "1.2.3.4"); (b "healthhost", b "!!")])].
Definition w_o2 : cfg bytes bytes := [(4, [(b "healthhost", b "!!"); (b "HealthHost", b "1.2.3.4")])].
Theorem c27_order_independent_refuted_unsorted :
  Permutation (src_kvs w_o1 4) (src_kvs w_o2 4)
  /\ t_value false false w_o1 (b "HealthHost") = Some (b "localhost")
  /\ t_value false false w_o2 (b "HealthHost") = Some (b "1.2.3.4")
  /\ t_value false true w_o1 (b "HealthHost") = t_value false true w_o2 (b "HealthHost").
Proof. repeat split; try (vm_compute; reflexivity). apply perm_swap. Qed.
Print Assumptions c27_order_independent_refuted_unsorted.

(* non-vacuity of the sorted theorems: "healthhost" is after "HealthHost" in byte order, so its (invalid, non-fatal) value
   decides: the default *)
Example c27_sorted_winner_example :
  t_value true true w_o1 (b "HealthHost") = Some (b "localhost") /\ t_value true true w_o2 (b "HealthHost") = Some (b "localhost").
Proof. split; vm_compute; reflexivity. Qed.
