(* C27 — proofs, part 6: LoadConfigFromEnvironment (env_var_loader.go): the map it returns has lower-case, pairwise
   distinct names, so the environment source never spells a parameter in two ways. *)
From Coq Require Import List NArith Bool Lia.
From Verif.C27 Require Import Model Spec Proofs.
Import ListNotations.
Open Scope N_scope.

Lemma lower_byte_idem : forall c, lower_byte (lower_byte c) = lower_byte c.
Proof.
  intros c. unfold lower_byte.
  destruct (65 <=? c) eqn:E1; destruct (c <=? 90) eqn:E2; simpl; try rewrite E1; try rewrite E2; simpl; auto.
  apply N.leb_le in E1, E2.
  destruct (65 <=? c + 32) eqn:E3; destruct (c + 32 <=? 90) eqn:E4; simpl; auto.
  apply N.leb_le in E4. lia.
Qed.

Lemma lower_b_idem : forall s, lower_b (lower_b s) = lower_b s.
Proof. induction s as [|c s IH]; simpl; auto. now rewrite lower_byte_idem, IH. Qed.

Lemma skipn_lower : forall n s, skipn n (lower_b s) = lower_b (skipn n s).
Proof. induction n as [|n IH]; intros [|c s]; simpl; auto. Qed.

Lemma env_entry_key_lower : forall e k v, env_entry e = Some (k, v) -> lower_b k = k.
Proof.
  intros e k v H. unfold env_entry in H. destruct (split_eq e) as [[k0 v0]|]; [|discriminate].
  destruct (has_prefix felix_prefix (lower_b k0)); [|discriminate]. inversion H; subst.
  assert (A : forall n s, lower_b (skipn n (lower_b s)) = skipn n (lower_b s)).
  { intros n s. rewrite skipn_lower. now rewrite lower_b_idem. }
  exact (A 6%nat k0).
Qed.

Lemma aset_keys_in : forall (k : bytes) (v : bytes) m x, In x (map fst (aset beqb k v m)) -> x = k \/ In x (map fst m).
Proof.
  induction m as [|[k' v'] m IH]; simpl; intros x H.
  - destruct H as [<-|[]]; auto.
  - destruct (beqb k k') eqn:E; simpl in H.
    + apply beqb_eq in E. subst k'. destruct H as [<-|H]; auto.
    + destruct H as [<-|H]; auto. destruct (IH _ H); auto.
Qed.

Lemma aset_nodup : forall (k : bytes) (v : bytes) m, NoDup (map fst m) -> NoDup (map fst (aset beqb k v m)).
Proof.
  induction m as [|[k' v'] m IH]; simpl; intros H.
  - constructor; [intros []|constructor].
  - inversion H as [|? ? Hni Hnd]; subst. destruct (beqb k k') eqn:E; simpl.
    + apply beqb_eq in E. subst k'. constructor; auto.
    + constructor; auto. intros Hin. destruct (aset_keys_in _ _ _ _ Hin) as [->|Hin']; auto.
      assert (beqb k k = true) by now apply beqb_eq. congruence.
Qed.

Definition env_inv (m : list (bytes * bytes)) : Prop :=
  NoDup (map fst m) /\ forall k, In k (map fst m) -> lower_b k = k.

Lemma load_env_inv : forall environ m, env_inv m ->
  env_inv (fold_left (fun m kv => match env_entry kv with Some (k, v) => aset beqb k v m | None => m end) environ m).
Proof.
  induction environ as [|e environ IH]; intros m Hm; simpl; auto.
  apply IH. destruct (env_entry e) as [[k v]|] eqn:E; auto.
  destruct Hm as [H1 H2]. split; [now apply aset_nodup|].
  intros x Hx. destruct (aset_keys_in _ _ _ _ Hx) as [->|Hx']; auto. eapply env_entry_key_lower; eauto.
Qed.

(* the environment source is unambiguous: no two names of the returned map are equal up to case *)
Theorem load_env_unambiguous : forall environ,
  NoDup (map fst (load_env environ)) /\ NoDup (map (fun kv => lower_b (fst kv)) (load_env environ)).
Proof.
  intros environ. destruct (load_env_inv environ [] (conj (NoDup_nil _) (fun k (H : In k []) => match H with end))) as [H1 H2].
  fold (load_env environ) in H1, H2. split; auto.
  replace (map (fun kv => lower_b (fst kv)) (load_env environ)) with (map fst (load_env environ)); auto.
  rewrite <- (map_map fst lower_b). symmetry. rewrite <- (map_id (map fst (load_env environ))) at 2.
  apply map_ext_in. intros k Hk. now apply H2.
Qed.
