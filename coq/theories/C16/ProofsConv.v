(* C16 - proofs, part 4: Felix's view of the kernel is accurate for every set not queued for re-listing. *)
From stdpp Require Import gmap.
From Coq Require Import NArith.
From Verif.C16 Require Import Model Spec Proofs ProofsSafe ProofsMain.
Open Scope N_scope.
Local Arguments exec : simpl never.

(* the kernel reports metadata in the form `ipset list` prints *)
Definition knorm (k : kernel) : Prop := ∀ n m ms, k !! n = Some (m, ms) → norm_meta m = m.

Lemma norm_idem m : norm_meta (norm_meta m) = norm_meta m.
Proof. destruct m as [t [mx [a b]]]. unfold norm_meta. destruct (t =? ty_bitmap) eqn:E; rewrite E; done. Qed.

(* the view of set n is accurate *)
Definition acc (s : st) (k : kernel) (n : name) : Prop :=
  if is_temp n then k !! n = None ∨ is_Some (s_dp s !! n)
  else match s_dp s !! n, k !! n with
       | None, None => ∀ d p, s_trk s !! n = Some (d, p) → p = ∅
       | Some (m, _), Some (km, kms) => norm_meta m = km ∧ ∃ d, s_trk s !! n = Some (d, kms)
       | _, _ => False
       end.
(* ... and its dirtiness is recorded *)
Definition dirty_ok (s : st) (n : name) : Prop :=
  ∀ d p, is_Some (s_des s !! n) → needed s n = true → s_trk s !! n = Some (d, p) → d ≠ p → n ∈ s_dirty s.
Definition good1 (s : st) (k : kernel) (n : name) : Prop := acc s k n ∧ dirty_ok s n.
(* X = names exempted for the moment *)
Definition okx (X : gset name) (s : st) (k : kernel) (n : name) : Prop := n ∈ X ∨ n ∈ s_must s ∨ good1 s k n.
Definition V (s : st) (k : kernel) : Prop := ∀ n, owned n = true → okx ∅ s k n.

(* everything good1 looks at *)
Definition lstate (s : st) (n : name) :=
  (s_dp s !! n, s_trk s !! n, s_des s !! n, bool_decide (n ∈ s_dirty s), needed s n).

Lemma good1_local s s' k k' n :
  lstate s' n = lstate s n -> k' !! n = k !! n -> good1 s k n -> good1 s' k' n.
Proof.
  unfold lstate. intros H Hk [Ha Hd]. injection H as E1 E2 E3 E4 E5.
  split.
  - unfold acc in *. rewrite E1, E2, Hk. done.
  - unfold dirty_ok in *. rewrite E2, E3, E5. intros d p H1 Hn H2 H3.
    specialize (Hd d p H1 Hn H2 H3). apply (bool_decide_eq_true_1 (n ∈ s_dirty s')). rewrite E4. by apply bool_decide_eq_true_2.
Qed.

Lemma lstate_upd_dirty n s m : m ≠ n -> lstate (upd_dirty n s) m = lstate s m.
Proof.
  intros H. unfold lstate, needed.
  assert (s_dp (upd_dirty n s) = s_dp s ∧ s_trk (upd_dirty n s) = s_trk s ∧ s_des (upd_dirty n s) = s_des s
          ∧ s_filter (upd_dirty n s) = s_filter s) as (-> & -> & -> & ->)
    by (unfold upd_dirty; destruct (s_trk s !! n) as [[d p]|]; [destruct (_ && _)|]; done).
  f_equal. f_equal. apply bool_decide_ext. unfold upd_dirty. destruct (s_trk s !! n) as [[d p]|]; [destruct (_ && _)|]; simpl; set_solver.
Qed.

Lemma acc_upd_dirty n s k m : acc (upd_dirty n s) k m ↔ acc s k m.
Proof.
  assert (s_dp (upd_dirty n s) = s_dp s ∧ s_trk (upd_dirty n s) = s_trk s) as [E1 E2]
    by (unfold upd_dirty; destruct (s_trk s !! n) as [[d p]|]; [destruct (_ && _)|]; done).
  unfold acc. rewrite E1, E2. done.
Qed.

Lemma good1_upd_dirty n s k : acc s k n -> good1 (upd_dirty n s) k n.
Proof.
  intros H. split; [by apply acc_upd_dirty|].
  unfold dirty_ok. intros d p _ Hn Ht Hne.
  destruct (fields_upd_dirty n s) as (_ & _ & E3 & _ & _ & _ & E7 & _).
  unfold needed in Hn. rewrite E7 in Hn. rewrite E3 in Ht.
  unfold upd_dirty. rewrite Ht. unfold needed. rewrite Hn. rewrite (bool_decide_eq_false_2 (d = p)) by done.
  simpl. set_solver.
Qed.

Lemma must_upd_dirty n s : s_must (upd_dirty n s) = s_must s.
Proof. unfold upd_dirty. repeat case_match; done. Qed.

(* ---------------------------------------------------------------- on_missing / resync_one *)
Lemma lstate_on_missing n s m : m ≠ n -> lstate (on_missing n s) m = lstate s m.
Proof.
  intros H. unfold on_missing.
  set (s1 := set_dp (delete n) s).
  set (s2 := match s_trk s1 !! n with Some (d, _) => if bool_decide (is_Some (s_all s1 !! n)) then set_trk <[n:=(d, ∅)]> s1 else set_trk (delete n) s1 | None => s1 end).
  assert (lstate s2 m = lstate s m) as E.
  { subst s2 s1. unfold lstate. repeat case_match; simpl; rewrite ?lookup_delete_ne, ?lookup_insert_ne by done; done. }
  rewrite <- E. unfold lstate at 1. simpl.
  pose proof (lstate_upd_dirty n s2 m H) as E2. unfold lstate in E2. exact E2.
Qed.

Lemma must_on_missing n s : s_must (on_missing n s) = s_must s ∖ {[n]}.
Proof. unfold on_missing. simpl. rewrite must_upd_dirty. repeat case_match; done. Qed.

Lemma good1_on_missing n s k : k !! n = None -> good1 (on_missing n s) k n.
Proof.
  intros Hk. unfold on_missing.
  set (s1 := set_dp (delete n) s).
  set (s2 := match s_trk s1 !! n with Some (d, _) => if bool_decide (is_Some (s_all s1 !! n)) then set_trk <[n:=(d, ∅)]> s1 else set_trk (delete n) s1 | None => s1 end).
  assert (acc s2 k n) as Ha.
  { unfold acc. rewrite Hk. destruct (is_temp n); [by left|].
    assert (s_dp s2 !! n = None) as ->.
    { subst s2 s1. repeat case_match; simpl; by rewrite lookup_delete. }
    intros d p Ht. subst s2 s1. simpl in *. destruct (s_trk s !! n) as [[d' p']|] eqn:E; [|simpl in Ht; congruence].
    case_bool_decide; simpl in Ht; [rewrite lookup_insert in Ht; by simplify_eq|by rewrite lookup_delete in Ht]. }
  pose proof (good1_upd_dirty n s2 k Ha) as [G1 G2]. split; [exact G1|exact G2].
Qed.

Lemma lstate_resync_one k n s m : m ≠ n -> lstate (resync_one k n s) m = lstate s m.
Proof.
  intros H. unfold resync_one. destruct (k !! n) as [[km ms]|]; [|by apply lstate_on_missing].
  destruct (is_temp n).
  - unfold lstate. simpl. by rewrite lookup_insert_ne.
  - rewrite lstate_upd_dirty by done. unfold lstate. simpl. by rewrite !lookup_insert_ne.
Qed.

Lemma must_resync_one k n s : s_must (resync_one k n s) ⊆ s_must s.
Proof.
  unfold resync_one. destruct (k !! n) as [[km ms]|]; [|rewrite must_on_missing; set_solver].
  destruct (is_temp n); [done|]. by rewrite must_upd_dirty.
Qed.
Lemma must_resync_one_other k n s m : m ≠ n -> m ∈ s_must s -> m ∈ s_must (resync_one k n s).
Proof.
  intros H Hm. unfold resync_one. destruct (k !! n) as [[km ms]|]; [|rewrite must_on_missing; set_solver].
  destruct (is_temp n); [done|]. by rewrite must_upd_dirty.
Qed.

Lemma des_upd_dirty n s : s_des (upd_dirty n s) = s_des s.
Proof. unfold upd_dirty. destruct (s_trk s !! n) as [[d p]|]; [destruct (_ && _)|]; done. Qed.
Lemma des_on_missing n s : s_des (on_missing n s) = s_des s.
Proof. unfold on_missing. simpl. rewrite des_upd_dirty. repeat case_match; done. Qed.
Lemma des_resync_one k n s : s_des (resync_one k n s) = s_des s.
Proof.
  unfold resync_one. destruct (k !! n) as [[km ms]|]; [|apply des_on_missing].
  destruct (is_temp n); [done|]. by rewrite des_upd_dirty.
Qed.

Definition no_temp_des (s : st) : Prop := ∀ n, is_temp n = true → s_des s !! n = None.

Lemma good1_resync_one k n s : knorm k -> no_temp_des s -> good1 (resync_one k n s) k n.
Proof.
  intros Hn Hd. unfold resync_one. destruct (k !! n) as [[km ms]|] eqn:Hk; [|by apply good1_on_missing].
  destruct (is_temp n) eqn:Ht.
  - split.
    + unfold acc. rewrite Ht. right. simpl. rewrite lookup_insert. eauto.
    + unfold dirty_ok. simpl. rewrite (Hd n Ht). intros d p [? ?]. done.
  - apply good1_upd_dirty. unfold acc. rewrite Ht, Hk. simpl. rewrite !lookup_insert. simpl.
    split; [by eapply Hn|eauto].
Qed.

(* one resync step: n becomes good, the others keep their status *)
Lemma okx_resync_one X k n s m :
  knorm k -> no_temp_des s -> okx X s k m -> okx (X ∖ {[n]}) (resync_one k n s) k m.
Proof.
  intros Hn Hd H. destruct (decide (m = n)) as [->|Hne].
  - right; right. by apply good1_resync_one.
  - destruct H as [H|[H|H]].
    + left. set_solver.
    + right; left. by apply must_resync_one_other.
    + right; right. eapply good1_local; [by apply lstate_resync_one|done|done].
Qed.

Lemma okx_foldl_resync k l : ∀ X s m,
  knorm k -> no_temp_des s -> okx X s k m -> okx (X ∖ list_to_set l) (foldl (λ s n, resync_one k n s) s l) k m.
Proof.
  induction l as [|n l IH]; intros X s m Hn Hd H; simpl.
  - destruct H as [H|H]; [left; set_solver|by right].
  - apply (okx_resync_one X k n s m Hn Hd) in H.
    assert (no_temp_des (resync_one k n s)) as Hd' by (intros x Hx; rewrite des_resync_one; by apply Hd).
    apply (IH _ _ _ Hn Hd') in H.
    destruct H as [H|H]; [left; set_solver|by right].
Qed.

Lemma okx_foldr_on_missing k l : ∀ X s m,
  owned m = true ->
  (∀ n, n ∈ l → owned n = true → k !! n = None) -> okx X s k m -> okx (X ∖ list_to_set l) (foldr on_missing s l) k m.
Proof.
  induction l as [|n l IH]; intros X s m Hm Hl H; simpl.
  - destruct H as [H|H]; [left; set_solver|by right].
  - assert (okx (X ∖ list_to_set l) (foldr on_missing s l) k m) as H1 by (apply IH; [done|intros; apply Hl; [set_solver|done]|done]).
    destruct (decide (m = n)) as [->|Hne].
    + right; right. apply good1_on_missing. apply Hl; [set_solver|done].
    + destruct H1 as [H1|[H1|H1]].
      * left. set_solver.
      * right; left. rewrite must_on_missing. set_solver.
      * right; right. eapply good1_local; [by apply lstate_on_missing|done|done].
Qed.

(* ---------------------------------------------------------------- the resync phase *)
Lemma okx_mono X Y s k m : X ⊆ Y -> okx X s k m -> okx Y s k m.
Proof. intros H [?|?]; [left; set_solver|by right]. Qed.

Lemma okx_fields X s s' k m :
  s_must s' = s_must s -> s_dp s' = s_dp s -> s_trk s' = s_trk s -> s_des s' = s_des s -> s_dirty s' = s_dirty s ->
  s_filter s' = s_filter s -> okx X s k m -> okx X s' k m.
Proof.
  intros E1 E2 E3 E4 E5 E6 [H|[H|H]]; [by left|right; left; by rewrite E1|right; right].
  eapply good1_local; [|done|exact H]. unfold lstate, needed. by rewrite E2, E3, E4, E5, E6.
Qed.

Lemma WF_no_temp_des s : WF s -> no_temp_des s.
Proof.
  intros H n Hn. destruct (s_des s !! n) eqn:E; [|done].
  destruct (wf_des _ H n) as [E0 _]; [eauto|]. unfold is_temp in Hn. rewrite E0 in Hn. done.
Qed.

Lemma owned_not_listed k n : owned n = true -> n ∉ owned_names k -> k !! n = None.
Proof.
  intros Ho Hn. unfold owned_names in Hn. rewrite elem_of_filter in Hn.
  apply not_elem_of_dom. intros Hd. apply Hn. done.
Qed.

Lemma V_begin_full k s : WF s -> V (begin_full k s) k.
Proof.
  intros Hs m Hm. unfold begin_full.
  set (listed := owned_names k).
  set (s1 := set_must (λ _, listed) (set_bg (λ _, ∅) (set_dp (λ _, ∅) s))).
  set (cand := dom (s_trk s1) ∪ dom (s_dp s1) ∪ dom (s_des s1)).
  assert (okx (cand ∖ listed) s1 k m) as H0.
  { destruct (decide (m ∈ listed)) as [Hl|Hl]; [right; left; done|].
    destruct (decide (m ∈ cand)) as [Hc|Hc]; [left; set_solver|].
    right; right. pose proof (owned_not_listed k m Hm Hl) as Hk.
    assert (s_trk s !! m = None ∧ s_des s !! m = None) as [Et Ed].
    { split; apply not_elem_of_dom; subst cand s1; simpl in Hc; set_solver. }
    split.
    - unfold acc. rewrite Hk. destruct (is_temp m); [by left|]. simpl. rewrite lookup_empty, Et. done.
    - unfold dirty_ok. simpl. rewrite Ed. intros d p [? ?]. done. }
  assert (∀ n, n ∈ elements (cand ∖ listed) → owned n = true → k !! n = None) as Hl.
  { intros n Hn Ho. apply elem_of_elements in Hn. apply elem_of_difference in Hn as [Hc Hnl].
    by apply owned_not_listed. }
  pose proof (okx_foldr_on_missing k _ _ s1 m Hm Hl H0) as H1.
  eapply okx_fields; [..|eapply okx_mono; [|exact H1]]; try done.
  rewrite list_to_set_elements_L. set_solver.
Qed.

Lemma fields_foldr_rq_add_bg l s :
  let s' := foldr rq_add_bg s l in
  s_must s' = s_must s ∧ s_dp s' = s_dp s ∧ s_trk s' = s_trk s ∧ s_des s' = s_des s ∧ s_dirty s' = s_dirty s
  ∧ s_filter s' = s_filter s.
Proof.
  induction l as [|n l IH]; simpl; [done|]. destruct IH as (E1 & E2 & E3 & E4 & E5 & E6).
  unfold rq_add_bg. destruct (_ || _); simpl; done.
Qed.

Lemma V_begin_bg k s : V s k -> V (begin_bg k s) k.
Proof.
  intros Hv m Hm. unfold begin_bg.
  set (listed := owned_names k).
  assert (∀ n, n ∈ elements ((dom (s_trk s) ∪ dom (s_dp s) ∪ dom (s_des s)) ∖ listed) → owned n = true → k !! n = None) as Hl.
  { intros n Hn Ho. apply elem_of_elements in Hn. apply elem_of_difference in Hn as [Hc Hnl].
    by apply owned_not_listed. }
  pose proof (okx_foldr_on_missing k _ ∅ s m Hm Hl (Hv m Hm)) as H1.
  destruct (fields_foldr_rq_add_bg (elements listed) (sweep listed s)) as (E1 & E2 & E3 & E4 & E5 & E6).
  eapply okx_fields; [..|eapply okx_mono; [|exact H1]]; try done. set_solver.
Qed.

Lemma must_foldl_resync k l : ∀ s, s_must (foldl (λ s n, resync_one k n s) s l) ⊆ s_must s.
Proof.
  induction l as [|n l IH]; intros s; simpl; [done|]. etrans; [apply IH|apply must_resync_one].
Qed.

Lemma V_drain_bg k names : ∀ budget s s' b',
  drain_bg k names budget s = Some (s', b') -> WF s -> knorm k -> V s k -> s_must s = ∅ ->
  V s' k ∧ s_must s' = ∅.
Proof.
  induction names as [|n rest IH]; intros budget s s' b' H Hs Hn Hv Hm; simpl in H.
  - destruct (_ || _); by simplify_eq.
  - case_bool_decide; [done|]. case_bool_decide as Hin; [|done].
    assert (owned n = true) as Ho by (apply (wf_q _ Hs); set_solver).
    set (s1 := set_bg (.∖ {[n]}) s) in *.
    assert (good s s1) as G1.
    { split; [|done]. destruct Hs as [H1 H2 H3 H4]. split; [done|done| |done]. simpl. intros m Hm'. apply H3. set_solver. }
    pose proof (good_resync_one k n s1 Ho (proj1 G1)) as G2.
    eapply IH; [exact H|apply G2|done| |].
    + intros m Hm'. apply (okx_mono (∅ ∖ {[n]})); [set_solver|].
      apply okx_resync_one; [done|apply WF_no_temp_des, G1|].
      eapply okx_fields; [..|exact (Hv m Hm')]; done.
    + apply elem_of_equiv_empty_L. intros x Hx. apply must_resync_one in Hx. simpl in Hx. set_solver.
Qed.

Lemma V_drain k names budget s s' b' :
  drain k names budget s = Some (s', b') -> WF s -> knorm k -> V s k -> V s' k ∧ s_must s' = ∅.
Proof.
  unfold drain. intros H Hs Hn Hv. destruct (_ && _) eqn:Hc; [|done].
  apply andb_true_iff in Hc as [_ Hc]. apply bool_decide_eq_true in Hc.
  set (mustn := take (size (s_must s)) names) in *.
  set (s0 := set_must (λ _, ∅) s) in *.
  assert (good s s0) as G0.
  { split; [|done]. destruct Hs as [H1 H2 H3 H4]. split; [done|done| |done]. simpl. intros m Hm. apply H3. set_solver. }
  assert (Forall (λ n, owned n = true) mustn) as Hown.
  { apply Forall_forall. intros n Hn'. apply (wf_q _ Hs). rewrite <- Hc. set_solver. }
  pose proof (good_foldl_resync k mustn s0 Hown (proj1 G0)) as G1.
  set (s1 := foldl _ s0 mustn) in *.
  assert (V s1 k) as V1.
  { intros m Hm. apply (okx_mono (s_must s ∖ list_to_set mustn)); [rewrite Hc; set_solver|].
    apply okx_foldl_resync; [done|apply WF_no_temp_des, G0|].
    destruct (Hv m Hm) as [?|[?|?]]; [set_solver|left; done|right; right].
    eapply good1_local; [|done|done]. done. }
  assert (s_must s1 = ∅) as M1.
  { apply elem_of_equiv_empty_L. intros x Hx. apply must_foldl_resync in Hx. simpl in Hx. set_solver. }
  destruct (s_full s1).
  - case_bool_decide; [|done]. simplify_eq. done.
  - eapply V_drain_bg; [exact H|apply G1|done|done|done].
Qed.

Lemma V_try_resync k names budget s s' b' :
  try_resync k names budget s = Some (s', b') -> WF s -> knorm k -> (s_full s = true ∨ V s k) ->
  V s' k ∧ s_must s' = ∅.
Proof.
  unfold try_resync. intros H Hs Hn Hv.
  set (s1 := if s_full s then begin_full k s else if s_bgreq s then begin_bg k s else s) in *.
  assert (good s s1) as G1.
  { subst s1. destruct (s_full s); [by apply good_begin_full|]. destruct (s_bgreq s); [by apply good_begin_bg|done]. }
  assert (V s1 k) as V1.
  { subst s1. destruct (s_full s); [by apply V_begin_full|].
    destruct Hv as [?|Hv]; [done|]. destruct (s_bgreq s); [by apply V_begin_bg|done]. }
  eapply V_drain; [exact H|apply G1|done|done].
Qed.

Lemma knorm_exec k c k' :
  knorm k -> exec k c = Some k' -> (∀ n m, c = CCreate n m → norm_meta m = m) -> knorm k'.
Proof.
  intros Hn He Hc. unfold exec in He. intros x mx msx Hx.
  destruct c; repeat case_match; simplify_eq.
  - destruct (decide (x = n)) as [->|]; [rewrite lookup_insert in Hx; simplify_eq; by eapply Hc|].
    rewrite lookup_insert_ne in Hx by done. by eapply Hn.
  - destruct (decide (x = n)) as [->|]; [rewrite lookup_insert in Hx; simplify_eq; by eapply Hn|].
    rewrite lookup_insert_ne in Hx by done. by eapply Hn.
  - destruct (decide (x = n)) as [->|]; [rewrite lookup_insert in Hx; simplify_eq; by eapply Hn|].
    rewrite lookup_insert_ne in Hx by done. by eapply Hn.
  - destruct (decide (x = a)) as [->|]; [rewrite lookup_insert in Hx; simplify_eq; by eapply Hn|].
    rewrite lookup_insert_ne in Hx by done.
    destruct (decide (x = b)) as [->|]; [rewrite lookup_insert in Hx; simplify_eq; by eapply Hn|].
    rewrite lookup_insert_ne in Hx by done. by eapply Hn.
  - destruct (decide (x = n)) as [->|]; [by rewrite lookup_delete in Hx|].
    rewrite lookup_delete_ne in Hx by done. by eapply Hn.
Qed.

(* ---------------------------------------------------------------- destroys *)
Lemma del_pass_V t tries : ∀ dn k s s' k' ev c,
  del_pass t tries dn k s = Some (s', k', ev, c) -> WF s -> knorm k -> V s k ->
  V s' k' ∧ knorm k' ∧ s_must s' ⊆ s_must s.
Proof.
  induction tries as [|[n inj] rest IH]; intros dn k s s' k' ev c H Hs Hn Hv; simpl in H.
  - case_bool_decide; [|done]. simplify_eq. done.
  - destruct (bool_decide (n ∈ _) && _) eqn:Hel; [|done].
    apply andb_true_iff in Hel as [Hel _]. apply bool_decide_eq_true in Hel.
    apply elem_of_filter in Hel as [Hflt Hpd]. unfold pending_del in Hpd.
    apply elem_of_difference in Hpd as [Hdp Hdes].
    apply elem_of_dom in Hdp. apply not_elem_of_dom in Hdes.
    destruct (if inj then None else exec k (CDestroy n)) as [k1|] eqn:Ex.
    + destruct rest; [|done]. simplify_eq. destruct inj; [done|].
      assert (k' = delete n k) as -> by (unfold exec in Ex; destruct (k !! n); by simplify_eq).
      set (sx := if t then rq_remove n s else forget_set n (rq_remove n s)).
      assert (s_dp sx = s_dp s ∧ s_des sx = s_des s ∧ s_must sx = s_must s ∖ {[n]} ∧ s_dirty sx = s_dirty s
              ∧ s_filter sx = s_filter s ∧ (∀ m, m ≠ n → s_trk sx !! m = s_trk s !! m)
              ∧ (t = false → ∀ d p, s_trk sx !! n = Some (d, p) → p = ∅)) as (X1 & X2 & X3 & X4 & X5 & X6 & X7).
      { subst sx. destruct t; [simpl; split_and!; done|].
        destruct (forget_fields n (rq_remove n s)) as (F1 & F2 & F3 & F4 & F5 & F6 & F7 & F8 & F9 & F10 & F11).
        rewrite F1, F2, F3, F5, F8. simpl. split_and!; try done. }
      split; [|split].
      * intros m Hm. destruct (decide (m = n)) as [->|Hne].
        -- right; right. split.
           ++ unfold acc. rewrite lookup_delete. destruct (is_temp n) eqn:Ht; [by left|].
              destruct t; [simpl in Hflt; done|].
              simpl. rewrite X1, lookup_delete. by apply X7.
           ++ unfold dirty_ok. simpl. rewrite X2, Hdes. intros d p [? ?]; done.
        -- destruct (Hv m Hm) as [?|[Hq|Hg]]; [set_solver| |].
           ++ right; left. simpl. rewrite X3. set_solver.
           ++ right; right. eapply good1_local; [|apply lookup_delete_ne; done|exact Hg].
              unfold lstate, needed. simpl. rewrite X1, X2, X4, X5, X6 by done. by rewrite lookup_delete_ne.
      * intros x mx msx Hx. destruct (decide (x = n)) as [->|]; [by rewrite lookup_delete in Hx|].
        rewrite lookup_delete_ne in Hx by done. by eapply Hn.
      * simpl. rewrite X3. set_solver.
    + set (s1 := if t then s else match s_dp s !! n with Some (m, (_, lf)) => set_dp <[n:=(m, (true, lf))]> s | None => s end) in *.
      destruct (del_pass t rest ({[n]} ∪ dn) k s1) as [[[[s2 k2] ev2] c2]|] eqn:Er; [|done]. simplify_eq.
      assert (WF s1) as W1.
      { subst s1. destruct t; [done|]. destruct (s_dp s !! n) as [[m [df lf]]|] eqn:E; [|done].
        destruct Hs as [A B C Z]. split; [done| |done|done]. intros m' Hm'. simpl in Hm'.
        destruct (decide (m' = n)) as [->|]; [apply B; eauto|]. rewrite lookup_insert_ne in Hm' by done. by apply B. }
      assert (V s1 k) as V1.
      { subst s1. destruct t; [done|]. destruct (s_dp s !! n) as [[m0 [df lf]]|] eqn:E; [|done].
        intros m Hm. destruct (Hv m Hm) as [?|[Hq|Hg]]; [set_solver|right; left; done|right; right].
        destruct (decide (m = n)) as [->|Hne].
        - destruct Hg as [Ha Hd]. split.
          + unfold acc in *. simpl. rewrite lookup_insert. rewrite E in Ha.
            destruct (is_temp n); [right; eauto|]. simpl in *. done.
          + unfold dirty_ok in *. simpl. done.
        - eapply good1_local; [|done|exact Hg]. unfold lstate. simpl. by rewrite lookup_insert_ne. }
      assert (s_must s1 = s_must s) as M1 by (subst s1; repeat case_match; done).
      destruct (IH _ _ _ _ _ _ _ Er W1 Hn V1) as (A1 & A2 & A3). rewrite M1 in A3. done.
Qed.

(* ---------------------------------------------------------------- generic facts about running a script *)
Lemma run_script_other cs : ∀ k i inj n,
  (∀ c, c ∈ cs → n ∉ cmd_names c) -> (run_script k cs i inj).1.2 !! n = k !! n.
Proof.
  induction cs as [|c cs IH]; intros k i inj n H; simpl; [done|].
  case_bool_decide; [done|]. destruct (exec k c) as [k'|] eqn:E; [|done].
  specialize (IH k' (S i) inj n). destruct (run_script k' cs (S i) inj) as [[ev kf] fl]. simpl in *.
  rewrite IH by (intros; apply H; by right). eapply exec_other; [done|]. apply H. by left.
Qed.

Lemma run_script_knorm cs : ∀ k i inj,
  knorm k -> (∀ n m, CCreate n m ∈ cs → norm_meta m = m) -> knorm (run_script k cs i inj).1.2.
Proof.
  induction cs as [|c cs IH]; intros k i inj Hn H; simpl; [done|].
  case_bool_decide; [done|]. destruct (exec k c) as [k'|] eqn:E; [|done].
  assert (knorm k') as Hn'.
  { eapply knorm_exec; [done|done|]. intros n m ->. apply (H n m). by left. }
  specialize (IH k' (S i) inj Hn'). destruct (run_script k' cs (S i) inj) as [[ev kf] fl]. simpl in *.
  apply IH. intros; eapply H; by right.
Qed.

Lemma run_dels_val M km dl : ∀ k A i inj, k !! M = Some (km, A) ->
  (run_script k (map (CDel M) dl) i inj).2 = false ->
  (run_script k (map (CDel M) dl) i inj).1.2 !! M = Some (km, A ∖ list_to_set dl).
Proof.
  induction dl as [|x dl IH]; intros k A i inj HM; simpl.
  - intros _. rewrite HM. f_equal. f_equal. set_solver.
  - case_bool_decide; [done|].
    assert (exec k (CDel M x) = Some (<[M:=(km, A ∖ {[x]})]> k)) as -> by (unfold exec; rewrite HM; done).
    specialize (IH (<[M:=(km, A ∖ {[x]})]> k) (A ∖ {[x]}) (S i) inj).
    rewrite lookup_insert in IH. specialize (IH eq_refl).
    destruct (run_script (<[M:=(km, A ∖ {[x]})]> k) (map (CDel M) dl) (S i) inj) as [[ev kf] fl]. simpl in *.
    intros Hf. rewrite IH by done. f_equal. f_equal. set_solver.
Qed.

Lemma run_adds_val M km al : ∀ k A i inj, k !! M = Some (km, A) ->
  (run_script k (map (CAdd M) al) i inj).2 = false ->
  (run_script k (map (CAdd M) al) i inj).1.2 !! M = Some (km, list_to_set al ∪ A).
Proof.
  induction al as [|x al IH]; intros k A i inj HM; simpl.
  - intros _. rewrite HM. f_equal. f_equal. set_solver.
  - case_bool_decide; [done|].
    destruct (decide (x ∈ A)) as [Hx|Hx].
    { assert (exec k (CAdd M x) = None) as -> by (unfold exec; rewrite HM; by rewrite bool_decide_eq_true_2). done. }
    assert (exec k (CAdd M x) = Some (<[M:=(km, {[x]} ∪ A)]> k)) as -> by (unfold exec; rewrite HM; by rewrite bool_decide_eq_false_2).
    specialize (IH (<[M:=(km, {[x]} ∪ A)]> k) ({[x]} ∪ A) (S i) inj).
    rewrite lookup_insert in IH. specialize (IH eq_refl).
    destruct (run_script (<[M:=(km, {[x]} ∪ A)]> k) (map (CAdd M) al) (S i) inj) as [[ev kf] fl]. simpl in *.
    intros Hf. rewrite IH by done. f_equal. f_equal. set_solver.
Qed.

(* result of a script that is a concatenation, when nothing fails *)
Lemma run_script_app_ok k l1 l2 i inj :
  (run_script k (l1 ++ l2) i inj).2 = false ->
  (run_script k l1 i inj).2 = false
  ∧ (run_script (run_script k l1 i inj).1.2 l2 (i + length l1)%nat inj).2 = false
  ∧ (run_script k (l1 ++ l2) i inj).1.2 = (run_script (run_script k l1 i inj).1.2 l2 (i + length l1)%nat inj).1.2.
Proof.
  rewrite run_script_app. destruct (run_script k l1 i inj) as [[ev1 k1] f1]. simpl.
  destruct f1; [done|]. destruct (run_script k1 l2 _ inj) as [[ev2 k2] f2]. simpl. done.
Qed.

(* ---------------------------------------------------------------- the shape of a block, with completeness *)
Lemma check_block_shape2 target main cm nc nt dels adds lines ds ads cpl :
  check_block target main cm nc nt dels adds lines = Some (ds, ads, cpl) ->
  ∃ cr dl al sw, lines = cr ++ map (CDel target) dl ++ map (CAdd target) al ++ sw
    ∧ ((cr = [] ∧ nc = false) ∨ (cr = [CCreate target cm] ∧ nc = true))
    ∧ list_to_set dl ⊆ dels ∧ list_to_set al ⊆ adds
    ∧ (sw = [] ∨ (sw = [CSwap main target] ∧ nt = true))
    ∧ (cpl = true → list_to_set dl = dels ∧ list_to_set al = adds ∧ (nt = true → sw = [CSwap main target])).
Proof.
  unfold check_block.
  set (crl := match lines with CCreate n m :: r => (Some (n, m), r) | _ => (None, lines) end).
  assert (lines = match crl.1 with Some (n, m) => [CCreate n m] | None => [] end ++ crl.2) as Hl.
  { subst crl. destruct lines as [|[] ?]; done. }
  destruct crl as [cr l1]. simpl in Hl.
  set (dl := take_dels l1). set (l2 := drop (length dl) l1).
  set (al := take_adds l2). set (l3 := drop (length al) l2).
  set (swl := match l3 with CSwap a b :: r => (Some (a, b), r) | _ => (None, l3) end).
  assert (l3 = match swl.1 with Some (a, b) => [CSwap a b] | None => [] end ++ swl.2) as Hl3.
  { subst swl. clearbody l3. destruct l3 as [|[] ?]; done. }
  destruct swl as [sw l4]. simpl in Hl3.
  pose proof (take_dels_split l1) as Hd. fold dl in Hd. fold l2 in Hd.
  pose proof (take_adds_split l2) as Ha. fold al in Ha. fold l3 in Ha.
  clearbody l3 l2 dl al.
  intros H. case_match eqn:Hc; [|done]. injection H as _ _ Hcpl.
  repeat match goal with H : _ && _ = true |- _ => apply andb_true_iff in H as [? ?] end.
  repeat match goal with H : bool_decide _ = true |- _ => apply bool_decide_eq_true in H end.
  subst l4. rewrite app_nil_r in Hl3.
  rewrite (map_target CDel target) in Hd by done.
  rewrite (map_target CAdd target) in Ha by done.
  exists (match cr with Some (n, m) => [CCreate n m] | None => [] end), (dl.*2), (al.*2),
         (match sw with Some (a, b) => [CSwap a b] | None => [] end).
  split; [rewrite Hl; rewrite Hd at 1; rewrite Ha at 1; rewrite Hl3 at 1; done|].
  split.
  { destruct cr as [[n m]|].
    - right. repeat match goal with H : _ && _ = true |- _ => apply andb_true_iff in H as [? ?] end.
      repeat match goal with H : bool_decide _ = true |- _ => apply bool_decide_eq_true in H end. subst. done.
    - left. split; [done|]. by apply negb_true_iff. }
  split; [done|]. split; [done|].
  assert (match sw with Some (a, b) => [CSwap a b] | None => [] end = [] ∨
          (match sw with Some (a, b) => [CSwap a b] | None => [] end = [CSwap main target] ∧ nt = true)) as Hsw.
  { destruct sw as [[a b]|]; [right|by left].
    repeat match goal with H : _ && _ = true |- _ => apply andb_true_iff in H as [? ?] end.
    repeat match goal with H : bool_decide _ = true |- _ => apply bool_decide_eq_true in H end. subst. done. }
  split; [exact Hsw|].
  intros ->.
  repeat match goal with H : _ && _ = true |- _ => apply andb_true_iff in H as [? ?] end.
  repeat match goal with H : bool_decide _ = true |- _ => apply bool_decide_eq_true in H end.
  split; [done|]. split; [done|]. intros ->. simpl in *.
  destruct sw as [[a b]|]; [|done]. destruct Hsw as [?|[? _]]; done.
Qed.

(* ---------------------------------------------------------------- one writeUpdates *)
Lemma elem_rq_add_must T s : T ∈ s_must (rq_add_must T s).
Proof. unfold rq_add_must. case_bool_decide; simpl; set_solver. Qed.
Lemma must_rq_add_must T s : s_must s ⊆ s_must (rq_add_must T s).
Proof. unfold rq_add_must. case_bool_decide; simpl; set_solver. Qed.
Lemma fields_rq_add_must T s :
  s_dp (rq_add_must T s) = s_dp s ∧ s_trk (rq_add_must T s) = s_trk s ∧ s_des (rq_add_must T s) = s_des s
  ∧ s_dirty (rq_add_must T s) = s_dirty s.
Proof. unfold rq_add_must. case_bool_decide; done. Qed.

(* what one writeUpdates call touches, whatever its outcome (repaired code) *)
Lemma wu_foot M ls wf s s1 e :
  write_updates true M ls wf s = Some (s1, e) -> WF s ->
  s_des s1 = s_des s ∧ s_dirty s1 = s_dirty s ∧
  (∀ n, n ≠ M → is_temp n = false → s_dp s1 !! n = s_dp s !! n) ∧
  (∀ n, n ≠ M → s_trk s1 !! n = s_trk s !! n) ∧
  (∀ n, is_Some (s_dp s !! n) → is_Some (s_dp s1 !! n)) ∧
  s_must s ⊆ s_must s1 ∧
  (∀ c x, c ∈ ls → x ∈ cmd_names c → x = M ∨ (is_temp x = true ∧ (is_Some (s_dp s1 !! x) ∨ x ∈ s_must s1))) ∧
  (∀ n m, CCreate n m ∈ ls → norm_meta m = m) ∧
  (e = false → s_must s1 = s_must s).
Proof.
  intros H Hs. unfold write_updates in H.
  destruct (s_des s !! M) as [dm|] eqn:Edes; [|done].
  destruct (s_trk s !! M) as [[md mp]|] eqn:Etrk; [|done].
  set (nt := match s_dp s !! M with Some d => negb (bool_decide (d = clean dm)) | None => false end) in *.
  set (nc := match s_dp s !! M with Some _ => false | None => true end) in *.
  set (T := temp_name (next_free s)) in *.
  destruct (check_block _ _ _ _ _ _ _ ls) as [[[ds ads] cpl]|] eqn:Ecb; [|done].
  apply check_block_shape2 in Ecb as (cr & dl & al & sw & Hls & Hcr & _ & _ & Hsw & _).
  assert (M ≠ T) as HMT.
  { intros E. destruct (wf_des _ Hs M) as [E0 _]; [eauto|]. rewrite E in E0. done. }
  (* the commands *)
  assert (∀ c x, c ∈ ls → x ∈ cmd_names c → x = M ∨ (nt = true ∧ x = T)) as Hnames.
  { intros c x Hc Hx. rewrite Hls in Hc. rewrite !elem_of_app in Hc.
    assert (x = (if nt then T else M) ∨ x = M) as Hx'.
    { destruct Hc as [Hc|[Hc|[Hc|Hc]]].
      - destruct Hcr as [[-> _]|[-> _]]; [set_solver|]. apply elem_of_list_singleton in Hc as ->. simpl in Hx. set_solver.
      - apply elem_of_list_fmap in Hc as (y & -> & _). simpl in Hx. set_solver.
      - apply elem_of_list_fmap in Hc as (y & -> & _). simpl in Hx. set_solver.
      - destruct Hsw as [->|[-> _]]; [set_solver|]. apply elem_of_list_singleton in Hc as ->. simpl in Hx. set_solver. }
    destruct Hx' as [-> | ->]; [destruct nt; auto|auto]. }
  assert (∀ n m, CCreate n m ∈ ls → norm_meta m = m) as Hcreates.
  { intros n m Hc. rewrite Hls in Hc. rewrite !elem_of_app in Hc. destruct Hc as [Hc|[Hc|[Hc|Hc]]].
    - destruct Hcr as [[-> _]|[-> _]]; [set_solver|]. apply elem_of_list_singleton in Hc. simplify_eq. apply norm_idem.
    - apply elem_of_list_fmap in Hc as (y & ? & _). done.
    - apply elem_of_list_fmap in Hc as (y & ? & _). done.
    - destruct Hsw as [->|[-> _]]; [set_solver|]. apply elem_of_list_singleton in Hc. done. }
  clear Hls Hcr Hsw.
  destruct (s_dp s !! M) as [d|] eqn:Edp.
  - destruct nt eqn:Ent.
    + (* temporary set *)
      destruct wf.
      * destruct ls; [done|]. simplify_eq. cbn [andb].
        match goal with |- context [rq_add_must ?t ?x] =>
          destruct (fields_rq_add_must t x) as (F1 & F2 & F3 & F4);
          pose proof (must_rq_add_must t x) as F5; pose proof (elem_rq_add_must t x) as F6;
          set (Y := rq_add_must t x) in * end.
        rewrite F1, F2, F3, F4. simpl in F5. simpl.
        split_and!; try done.
        -- intros n Hn. by rewrite !lookup_insert_ne.
        -- intros c0 x Hc Hx. destruct (Hnames c0 x Hc Hx) as [->|[_ ->]]; [by left|right].
           split; [done|]. by right.
      * destruct cpl; [|done]. simplify_eq. simpl.
        split_and!; try done.
        -- intros n Hn Ht. rewrite lookup_insert_ne by done. rewrite lookup_insert_ne; [done|]. intros <-. done.
        -- intros n Hn. by rewrite !lookup_insert_ne.
        -- intros n Hn. destruct (decide (n = M)) as [->|]; [rewrite lookup_insert; eauto|].
           rewrite lookup_insert_ne by done. destruct (decide (n = T)) as [->|]; [rewrite lookup_insert; eauto|].
           by rewrite lookup_insert_ne.
        -- intros c0 x Hc Hx. destruct (Hnames c0 x Hc Hx) as [->|[_ ->]]; [by left|right].
           split; [done|]. left. rewrite lookup_insert_ne by done. rewrite lookup_insert. eauto.
    + (* in place, set exists *)
      destruct wf.
      * destruct ls; [done|]. simplify_eq. simpl.
        split_and!; try done.
        -- intros n Hn. by rewrite !lookup_insert_ne.
        -- intros c0 x Hc Hx. destruct (Hnames c0 x Hc Hx) as [->|[? _]]; [by left|done].
      * destruct cpl; [|done]. simplify_eq. simpl.
        split_and!; try done.
        -- intros n Hn. by rewrite !lookup_insert_ne.
        -- intros c0 x Hc Hx. destruct (Hnames c0 x Hc Hx) as [->|[? _]]; [by left|done].
  - (* in place, set to be created *)
    destruct wf.
    + destruct ls; [done|]. simplify_eq. simpl.
      split_and!; try done.
      * intros n Hn. by rewrite !lookup_insert_ne.
      * intros c0 x Hc Hx. destruct (Hnames c0 x Hc Hx) as [->|[? _]]; [by left|done].
    + destruct cpl; [|done]. simplify_eq. simpl.
      split_and!; try done.
      * intros n Hn Ht. by rewrite lookup_insert_ne.
      * intros n Hn. by rewrite !lookup_insert_ne.
      * intros n Hn. destruct (decide (n = M)) as [->|]; [rewrite lookup_insert; eauto|]. by rewrite lookup_insert_ne.
      * intros c0 x Hc Hx. destruct (Hnames c0 x Hc Hx) as [->|[? _]]; [by left|done].
Qed.

(* In-place add/del block and temp-set-and-swap block: if Felix's view of the set was accurate and every command
   of the block succeeds, the kernel set is exactly the desired set and the new view is accurate. *)
Lemma wu_exact M ls s s1 k i inj :
  write_updates true M ls false s = Some (s1, false) -> WF s -> acc s k M ->
  (run_script k ls i inj).2 = false ->
  ∃ dm md, s_des s !! M = Some dm ∧ s_dp s1 !! M = Some (clean dm) ∧ s_trk s1 !! M = Some (md, md)
           ∧ (run_script k ls i inj).1.2 !! M = Some (norm_meta dm, md).
Proof.
  intros H Hs Ha Hrun. pose proof H as H0. unfold write_updates in H.
  destruct (s_des s !! M) as [dm|] eqn:Edes; [|done].
  destruct (s_trk s !! M) as [[md mp]|] eqn:Etrk; [|done].
  assert (is_temp M = false) as HtM.
  { destruct (wf_des _ Hs M) as [E0 _]; [eauto|]. unfold is_temp. by rewrite E0. }
  exists dm, md. split; [done|].
  unfold acc in Ha. rewrite HtM in Ha.
  destruct (s_dp s !! M) as [d|] eqn:Edp.
  - destruct (decide (d = clean dm)) as [->|Hne].
    + (* in place *)
      rewrite bool_decide_eq_true_2 in H by done. simpl in H.
      destruct (check_block _ _ _ _ _ _ _ ls) as [[[ds ads] cpl]|] eqn:Ecb; [|done].
      destruct cpl; [|done]. simplify_eq. simpl. rewrite lookup_insert.
      split; [done|]. split; [done|].
      apply check_block_shape2 in Ecb as (cr & dl & al & sw & -> & Hcr & _ & _ & Hsw & Hcpl).
      destruct (Hcpl eq_refl) as (Hdl & Hal & _).
      destruct Hcr as [[-> _]|[_ ?]]; [|done]. destruct Hsw as [->|[_ ?]]; [|done].
      rewrite app_nil_r in *. simpl in *.
      destruct (k !! M) as [[km kms]|] eqn:EkM; [|done]. destruct Ha as [Hkm [d' Hd']]. simplify_eq.
      apply run_script_app_ok in Hrun as (R1 & R2 & ->).
      pose proof (run_dels_val M (norm_meta dm) dl k mp i inj EkM R1) as E1.
      rewrite (run_adds_val M (norm_meta dm) al _ _ _ inj E1 R2).
      f_equal. f_equal. rewrite Hdl, Hal. apply set_eq. intros x.
      rewrite !elem_of_union, !elem_of_difference. destruct (decide (x ∈ mp)), (decide (x ∈ md)); tauto.
    + (* temporary set and swap *)
      pose proof (swap_block_exact true M ls s s1 k i inj dm md mp d Edes Etrk Edp Hne H0 Hrun) as Hk.
      rewrite (bool_decide_eq_false_2 (d = clean dm)) in H by done. simpl in H.
      destruct (check_block _ _ _ _ _ _ _ ls) as [[[ds ads] cpl]|]; [|done].
      destruct cpl; [|done]. simplify_eq. simpl. rewrite lookup_insert.
      split; [done|]. split; [|done].
      rewrite lookup_insert. done.
  - (* create in place *)
    simpl in H.
    destruct (check_block _ _ _ _ _ _ _ ls) as [[[ds ads] cpl]|] eqn:Ecb; [|done].
    destruct cpl; [|done]. simplify_eq. simpl. rewrite !lookup_insert.
    split; [done|]. split; [done|].
    apply check_block_shape2 in Ecb as (cr & dl & al & sw & -> & Hcr & _ & _ & Hsw & Hcpl).
    destruct (Hcpl eq_refl) as (Hdl & Hal & _).
    destruct Hcr as [[_ ?]|[-> _]]; [done|]. destruct Hsw as [->|[_ ?]]; [|done].
    rewrite app_nil_r in *.
    destruct (k !! M) as [[km kms]|] eqn:EkM; [done|].
    assert (mp = ∅) as -> by (by eapply Ha).
    assert (dl = []) as ->. { destruct dl as [|x dl]; [done|]. exfalso. set_solver. }
    simpl in *. case_bool_decide; [done|].
    assert (exec k (CCreate M (norm_meta dm)) = Some (<[M:=(norm_meta dm, ∅)]> k)) as Ecr
      by (unfold exec; by rewrite EkM).
    rewrite Ecr in *.
    assert (<[M:=(norm_meta dm, ∅)]> k !! M = Some (norm_meta dm, ∅)) as E1 by apply lookup_insert.
    pose proof (run_adds_val M (norm_meta dm) al _ ∅ (S i) inj E1) as E2.
    destruct (run_script (<[M:=(norm_meta dm, ∅)]> k) (map (CAdd M) al) (S i) inj) as [[ev kf] fl]. simpl in *.
    rewrite E2 by done. f_equal. f_equal. set_solver.
Qed.

(* ---------------------------------------------------------------- all writeUpdates calls of one restore session *)
Lemma wb_foot bs : ∀ wf s s' e,
  write_blocks true bs wf s = Some (s', e) -> WF s ->
  s_des s' = s_des s ∧ s_dirty s' = s_dirty s ∧
  (∀ n, n ∉ bs.*1 → is_temp n = false → s_dp s' !! n = s_dp s !! n ∧ s_trk s' !! n = s_trk s !! n) ∧
  (∀ n, is_Some (s_dp s !! n) → is_Some (s_dp s' !! n)) ∧
  s_must s ⊆ s_must s' ∧
  (∀ c x, c ∈ concat (bs.*2) → x ∈ cmd_names c →
          x ∈ bs.*1 ∨ (is_temp x = true ∧ (is_Some (s_dp s' !! x) ∨ x ∈ s_must s'))) ∧
  (∀ n m, CCreate n m ∈ concat (bs.*2) → norm_meta m = m) ∧
  (e = false → s_must s' = s_must s).
Proof.
  induction bs as [|[M ls] bs IH]; intros wf s s' e H Hs.
  - simpl in *. simplify_eq. split_and!; try done; set_solver.
  - rewrite !fmap_cons. cbn [concat fst snd]. cbn [write_blocks] in H.
    destruct (write_updates true M ls _ s) as [[s1 e1]|] eqn:Ew; [|done].
    destruct (wu_foot _ _ _ _ _ _ Ew Hs) as (A1 & A2 & A3 & A4 & A5 & A6 & A7 & A8 & A9).
    destruct (write_updates_good _ _ _ _ _ _ _ Ew Hs) as [W1 _].
    assert (∃ sx ex, write_blocks true bs wf s1 = Some (sx, ex) ∧ sx = s' ∧ (e1 = true → bs = []) ∧ (e = false → e1 = false ∧ ex = false)) as (sx & ex & Hb & -> & Hnil & Hee).
    { destruct e1.
      - destruct bs; [|done]. simplify_eq. exists s', false. simpl. done.
      - exists s', e. done. }
    destruct (IH _ _ _ _ Hb W1) as (B1 & B2 & B3 & B4 & B5 & B6 & B7 & B8).
    split_and!.
    + congruence.
    + congruence.
    + intros n Hn Ht. apply not_elem_of_cons in Hn as [Hn1 Hn2].
      destruct (B3 n Hn2 Ht) as [-> ->]. split; [by apply A3|by apply A4].
    + intros n Hn. by apply B4, A5.
    + set_solver.
    + intros c x Hc Hx. apply elem_of_app in Hc as [Hc|Hc].
      * destruct (A7 c x Hc Hx) as [->|[Ht [Hk|Hk]]]; [left; by left|right..].
        -- split; [done|]. left. by apply B4.
        -- split; [done|]. right. set_solver.
      * destruct (B6 c x Hc Hx) as [?|?]; [left; by right|by right].
    + intros n m Hc. apply elem_of_app in Hc as [Hc|Hc]; [by eapply A8|by eapply B7].
    + intros He. destruct (Hee He) as [-> ->]. rewrite B8 by done. by apply A9.
Qed.

Lemma wb_exact bs : ∀ s s' k i inj,
  write_blocks true bs false s = Some (s', false) -> WF s -> NoDup (bs.*1) ->
  (∀ M, M ∈ bs.*1 → acc s k M) ->
  (run_script k (concat (bs.*2)) i inj).2 = false ->
  ∀ M, M ∈ bs.*1 →
    ∃ dm md, s_des s !! M = Some dm ∧ s_dp s' !! M = Some (clean dm) ∧ s_trk s' !! M = Some (md, md)
             ∧ (run_script k (concat (bs.*2)) i inj).1.2 !! M = Some (norm_meta dm, md).
Proof.
  induction bs as [|[M0 ls] bs IH]; intros s s' k i inj H Hs Hnd Hacc Hrun M HM.
  - simpl in HM. set_solver.
  - rewrite !fmap_cons in *. cbn [concat fst snd] in *. cbn [write_blocks] in H.
    replace (false && match bs with [] => true | _ => false end) with false in H by done.
    destruct (write_updates true M0 ls false s) as [[s1 e1]|] eqn:Ew; [|done].
    destruct e1; [destruct bs; done|].
    destruct (wu_foot _ _ _ _ _ _ Ew Hs) as (A1 & A2 & A3 & A4 & A5 & A6 & A7 & A8 & A9).
    destruct (write_updates_good _ _ _ _ _ _ _ Ew Hs) as [W1 HdM0].
    destruct (wb_foot _ _ _ _ _ H W1) as (B1 & B2 & B3 & B4 & B5 & B6 & B7 & B8).
    destruct (write_blocks_good _ _ _ _ _ _ H W1) as [_ Hdes].
    apply NoDup_cons in Hnd as [Hnin Hnd].
    apply run_script_app_ok in Hrun as (R1 & R2 & ->).
    set (k1 := (run_script k ls i inj).1.2) in *.
    assert (∀ x, is_Some (s_des s !! x) → is_temp x = false) as Hmain.
    { intros x Hx. destruct (wf_des _ Hs x Hx) as [E0 _]. unfold is_temp. by rewrite E0. }
    apply elem_of_cons in HM as [->|HM].
    + destruct (wu_exact _ _ _ _ _ _ _ Ew Hs (Hacc M0 ltac:(by left)) R1) as (dm & md & E1 & E2 & E3 & E4).
      exists dm, md. split; [done|].
      destruct (B3 M0 Hnin (Hmain _ HdM0)) as [-> ->]. split; [done|]. split; [done|].
      rewrite run_script_other; [done|].
      intros c Hc Hx. destruct (B6 c M0 Hc Hx) as [?|[Ht _]]; [done|]. rewrite (Hmain _ HdM0) in Ht. done.
    + assert (is_Some (s_des s !! M)) as HdM.
      { rewrite <- A1. rewrite Forall_forall in Hdes. by apply Hdes. }
      assert (M ≠ M0) as Hne by (intros ->; done).
      assert (acc s1 k1 M) as Hacc1.
      { pose proof (Hacc M ltac:(by right)) as Ha. unfold acc in *.
        rewrite (A3 M Hne (Hmain _ HdM)), (A4 M Hne).
        assert (k1 !! M = k !! M) as ->; [|done].
        subst k1. apply run_script_other. intros c Hc Hx.
        destruct (A7 c M Hc Hx) as [?|[Ht _]]; [done|]. rewrite (Hmain _ HdM) in Ht. done. }
      assert (∀ M', M' ∈ bs.*1 → acc s1 k1 M') as Hacc'.
      { intros M' HM'. assert (is_Some (s_des s !! M')) as HdM'.
        { rewrite <- A1. rewrite Forall_forall in Hdes. by apply Hdes. }
        assert (M' ≠ M0) as Hne' by (intros ->; done).
        pose proof (Hacc M' ltac:(by right)) as Ha. unfold acc in *.
        rewrite (A3 M' Hne' (Hmain _ HdM')), (A4 M' Hne').
        assert (k1 !! M' = k !! M') as ->; [|done].
        subst k1. apply run_script_other. intros c Hc Hx.
        destruct (A7 c M' Hc Hx) as [?|[Ht _]]; [done|]. rewrite (Hmain _ HdM') in Ht. done. }
      destruct (IH s1 s' k1 _ inj H W1 Hnd Hacc' R2 M HM) as (dm & md & E1 & E2 & E3 & E4).
      exists dm, md. rewrite <- A1. done.
Qed.
