(* C16 - proofs, part 2: every single command Felix issues is safe (foreign sets untouched, desired sets
   never destroyed, a desired set holds its old value, its exact desired value, or same parameters with
   members moved toward the desired ones). *)
From stdpp Require Import gmap.
From Coq Require Import NArith.
From Verif.C16 Require Import Model Spec Proofs.
Open Scope N_scope.

(* what IPSets wants a set to be *)
Definition wants (s : st) (n : name) : option kset :=
  match s_des s !! n, s_trk s !! n with
  | Some m, Some (d, _) => Some (norm_meta m, d)
  | _, _ => None
  end.

Definition set_safe (w o v : option kset) : Prop :=
  match w with
  | None => True
  | Some w =>
      match o, v with
      | Some o, Some v => v = o ∨ v = w ∨ (v.1 = o.1 ∧ v.2 ∖ o.2 ⊆ w.2 ∧ (o.2 ∖ v.2) ## w.2)
      | Some _, None => False
      | None, Some v => v = (w.1, ∅)
      | None, None => True
      end
  end.

Definition step_safe (W : name → option kset) (kp kn : kernel) : Prop :=
  ∀ n, (owned n = false → kn !! n = kp !! n) ∧ (owned n = true → set_safe (W n) (kp !! n) (kn !! n)).

Fixpoint events_safe (W : name → option kset) (k : kernel) (evs : list event) : Prop :=
  match evs with
  | [] => True
  | (_, _, k') :: r => step_safe W k k' ∧ events_safe W k' r
  end.

Fixpoint last_kernel (k : kernel) (evs : list event) : kernel :=
  match evs with [] => k | (_, _, k') :: r => last_kernel k' r end.

Lemma set_safe_refl w o : set_safe w o o.
Proof. destruct w as [w|], o as [o|]; simpl; auto. Qed.

Lemma step_safe_refl W k : step_safe W k k.
Proof. intros n; split; intros; [done | apply set_safe_refl]. Qed.

Lemma events_safe_app W k e1 e2 :
  events_safe W k e1 -> events_safe W (last_kernel k e1) e2 -> events_safe W k (e1 ++ e2).
Proof.
  revert k. induction e1 as [|[[c ok] k'] e1 IH]; intros k; simpl; [done|].
  intros [H1 H2] H3. split; [done|]. by apply IH.
Qed.

Lemma last_kernel_app k e1 e2 : last_kernel k (e1 ++ e2) = last_kernel (last_kernel k e1) e2.
Proof. revert k. induction e1 as [|[[c ok] k'] e1 IH]; intros k; simpl; [done|]. apply IH. Qed.

Lemma last_kernel_cons k c ok k' e : last_kernel k ((c, ok, k') :: e) = last_kernel k' e.
Proof. done. Qed.

(* a command that names only owned sets and is safe for them is safe *)
Lemma step_safe_local W k c k' :
  exec k c = Some k' ->
  (∀ n, n ∈ cmd_names c → owned n = true ∧ set_safe (W n) (k !! n) (k' !! n)) ->
  step_safe W k k'.
Proof.
  intros He H n. destruct (decide (n ∈ cmd_names c)) as [Hin|Hnin].
  - destruct (H n Hin) as [Ho Hs]. split; [congruence | done].
  - rewrite (exec_other _ _ _ _ He Hnin). split; [done | intros; apply set_safe_refl].
Qed.

(* ---------------------------------------------------------------- run_script *)
Lemma run_script_last k cs i inj :
  (run_script k cs i inj).1.2 = last_kernel k (run_script k cs i inj).1.1.
Proof.
  revert k i. induction cs as [|c cs IH]; intros k i; simpl; [done|].
  case_bool_decide; [done|].
  destruct (exec k c) as [k'|] eqn:E; [|done].
  specialize (IH k' (S i)). destruct (run_script k' cs (S i) inj) as [[ev kf] fl]. simpl in *.
  done.
Qed.

Lemma run_script_app k l1 l2 i inj :
  run_script k (l1 ++ l2) i inj =
  let '(ev1, k1, f1) := run_script k l1 i inj in
  if f1 then (ev1, k1, true)
  else let '(ev2, k2, f2) := run_script k1 l2 (i + length l1)%nat inj in (ev1 ++ ev2, k2, f2).
Proof.
  revert k i. induction l1 as [|c l1 IH]; intros k i; simpl.
  - rewrite Nat.add_0_r. destruct (run_script k l2 i inj) as [[? ?] ?]. done.
  - case_bool_decide; [done|]. destruct (exec k c) as [k'|]; [|done].
    rewrite IH. destruct (run_script k' l1 (S i) inj) as [[ev1 k1] f1].
    destruct f1; [done|]. replace (S i + length l1)%nat with (i + S (length l1))%nat by lia.
    destruct (run_script k1 l2 _ inj) as [[ev2 k2] f2]. done.
Qed.

(* every line safe from every kernel => the run is safe *)
Lemma run_script_all_safe W cs : 
  (∀ c k k', c ∈ cs → exec k c = Some k' → step_safe W k k') ->
  ∀ k i inj, events_safe W k (run_script k cs i inj).1.1.
Proof.
  induction cs as [|c cs IH]; intros H k i inj; simpl; [done|].
  case_bool_decide; [simpl; split; [apply step_safe_refl|done]|].
  destruct (exec k c) as [k'|] eqn:E; [|simpl; split; [apply step_safe_refl|done]].
  assert (events_safe W k' (run_script k' cs (S i) inj).1.1) as H2.
  { apply IH. intros; eapply H; [by right|done]. }
  destruct (run_script k' cs (S i) inj) as [[ev kf] fl]. simpl in *.
  split; [|done]. eapply H; [by left|done].
Qed.

Lemma events_safe_ext W W' k e : (∀ n, W n = W' n) -> events_safe W k e -> events_safe W' k e.
Proof.
  intros HW. revert k. induction e as [|[[c ok] k'] e IH]; intros k; simpl; [done|].
  intros [H1 H2]. split; [|by apply IH]. intros n. destruct (H1 n) as [Ha Hb]. split; [done|].
  rewrite <- HW. done.
Qed.

(* ---------------------------------------------------------------- single commands *)
Section cmds.
Context (W : name → option kset).

Lemma safe_unwanted k c k' :
  exec k c = Some k' -> (∀ n, n ∈ cmd_names c → owned n = true ∧ W n = None) -> step_safe W k k'.
Proof.
  intros He H. eapply step_safe_local; [done|]. intros n Hn. destruct (H n Hn) as [? ->]. done.
Qed.

Lemma safe_create_main k S cm md k' :
  owned S = true -> W S = Some (cm, md) -> exec k (CCreate S cm) = Some k' -> step_safe W k k'.
Proof.
  intros Ho Hw He. eapply step_safe_local; [done|]. intros n Hn. apply elem_of_list_singleton in Hn as ->.
  split; [done|]. rewrite Hw. simpl in He. destruct (k !! S) eqn:E; [done|]. simplify_eq.
  rewrite lookup_insert. done.
Qed.

Lemma safe_del_main k S cm md x k' :
  owned S = true -> W S = Some (cm, md) -> x ∉ md -> exec k (CDel S x) = Some k' -> step_safe W k k'.
Proof.
  intros Ho Hw Hx He. eapply step_safe_local; [done|]. intros n Hn. apply elem_of_list_singleton in Hn as ->.
  split; [done|]. rewrite Hw. simpl in He. destruct (k !! S) as [[m s]|] eqn:E; [|done]. simplify_eq.
  rewrite lookup_insert. simpl. right; right. simpl. split; [done|]. split; set_solver.
Qed.

Lemma safe_add_main k S cm md x k' :
  owned S = true -> W S = Some (cm, md) -> x ∈ md -> exec k (CAdd S x) = Some k' -> step_safe W k k'.
Proof.
  intros Ho Hw Hx He. eapply step_safe_local; [done|]. intros n Hn. apply elem_of_list_singleton in Hn as ->.
  split; [done|]. rewrite Hw. simpl in He. destruct (k !! S) as [[m s]|] eqn:E; [|done].
  case_bool_decide; [done|]. simplify_eq.
  rewrite lookup_insert. simpl. right; right. simpl. split; [done|]. split; set_solver.
Qed.

Lemma safe_swap k S T w k' :
  owned S = true -> owned T = true -> W T = None -> W S = Some w -> k !! T = Some w ->
  exec k (CSwap S T) = Some k' -> step_safe W k k'.
Proof.
  intros Ho Ho' HwT HwS HT He. eapply step_safe_local; [done|]. intros n Hn.
  simpl in He. destruct (k !! S) as [vS|] eqn:ES; [|done]. rewrite HT in He. simplify_eq.
  simpl in Hn. apply elem_of_cons in Hn as [->|Hn].
  - split; [done|]. rewrite HwS, ES, lookup_insert. simpl. auto.
  - apply elem_of_list_singleton in Hn as ->. split; [done|]. rewrite HwT. done.
Qed.

(* adds into a set nobody wants, tracking its contents *)
Lemma run_adds_temp T cm al : W T = None -> owned T = true ->
  ∀ k A i inj, k !! T = Some (cm, A) ->
  events_safe W k (run_script k (map (CAdd T) al) i inj).1.1 ∧
  ((run_script k (map (CAdd T) al) i inj).2 = false →
   (run_script k (map (CAdd T) al) i inj).1.2 !! T = Some (cm, list_to_set al ∪ A)).
Proof.
  intros HW Ho. induction al as [|x al IH]; intros k A i inj HT; simpl.
  - split; [done|]. intros _. rewrite HT. f_equal. f_equal. set_solver.
  - case_bool_decide; [simpl; split; [split; [apply step_safe_refl|done]|done]|].
    rewrite HT. case_bool_decide; [simpl; split; [split; [apply step_safe_refl|done]|done]|].
    specialize (IH (<[T:=(cm, {[x]} ∪ A)]> k) ({[x]} ∪ A) (S i) inj).
    rewrite lookup_insert in IH. specialize (IH eq_refl).
    destruct (run_script (<[T:=(cm, {[x]} ∪ A)]> k) (map (CAdd T) al) (S i) inj) as [[ev kf] fl]. simpl in *.
    destruct IH as [IH1 IH2]. split.
    + split; [|done]. eapply (safe_unwanted k (CAdd T x)).
      * simpl. rewrite HT. rewrite bool_decide_eq_false_2 by done. done.
      * intros n Hn. apply elem_of_list_singleton in Hn as ->. done.
    + intros Hf. rewrite IH2 by done. f_equal. f_equal. set_solver.
Qed.
End cmds.

(* ---------------------------------------------------------------- the restore script of one attempt *)
Lemma take_dels_split l :
  l = map (λ p, CDel p.1 p.2) (take_dels l) ++ drop (length (take_dels l)) l.
Proof. induction l as [|c l IH]; [done|]. destruct c; simpl; try done. by rewrite <- IH. Qed.
Lemma take_adds_split l :
  l = map (λ p, CAdd p.1 p.2) (take_adds l) ++ drop (length (take_adds l)) l.
Proof. induction l as [|c l IH]; [done|]. destruct c; simpl; try done. by rewrite <- IH. Qed.

Lemma map_target {A} (f : name → member → A) target (l : list (name * member)) :
  forallb (λ p, bool_decide (p.1 = target)) l = true ->
  map (λ p, f p.1 p.2) l = map (f target) (l.*2).
Proof.
  induction l as [|[n x] l IH]; simpl; [done|]. intros H. apply andb_true_iff in H as [H1 H2].
  apply bool_decide_eq_true in H1. simpl in H1. subst. by rewrite IH.
Qed.

Lemma check_block_shape target main cm nc nt dels adds lines ds ads cpl :
  check_block target main cm nc nt dels adds lines = Some (ds, ads, cpl) ->
  ∃ cr dl al sw, lines = cr ++ map (CDel target) dl ++ map (CAdd target) al ++ sw
    ∧ ((cr = [] ∧ nc = false) ∨ (cr = [CCreate target cm] ∧ nc = true))
    ∧ list_to_set dl ⊆ dels ∧ list_to_set al ⊆ adds
    ∧ (sw = [] ∨ (sw = [CSwap main target] ∧ nt = true ∧ list_to_set al = adds ∧ list_to_set dl = dels)).
Proof.
  unfold check_block.
  set (crl := match lines with CCreate n m :: r => (Some (n, m), r) | _ => (None, lines) end).
  assert (lines = match crl.1 with Some (n, m) => [CCreate n m] | None => [] end ++ crl.2) as Hl.
  { subst crl. destruct lines as [|[] ?]; done. }
  destruct crl as [cr l1]. simpl in Hl.
  set (dl := take_dels l1). set (l2 := drop (length dl) l1).
  set (al := take_adds l2). set (l3 := drop (length al) l2).
  set (swl := match l3 with CSwap a b :: r => (Some (a, b), r) | _ => (None, l3) end).
  assert (l3 = match swl.1 with Some (a, b) => [CSwap a b] | None => [] end ++ swl.2) as Hl3.
  { subst swl. clearbody l3. destruct l3 as [|[] ?]; done. }
  destruct swl as [sw l4]. simpl in Hl3.
  pose proof (take_dels_split l1) as Hd. fold dl in Hd. fold l2 in Hd.
  pose proof (take_adds_split l2) as Ha. fold al in Ha. fold l3 in Ha.
  clearbody l3 l2 dl al.
  intros H. case_match; [|done]. clear H.
  repeat match goal with H : _ && _ = true |- _ => apply andb_true_iff in H as [? ?] end.
  repeat match goal with H : bool_decide _ = true |- _ => apply bool_decide_eq_true in H end.
  subst l4. rewrite app_nil_r in Hl3.
  rewrite (map_target CDel target) in Hd by done.
  rewrite (map_target CAdd target) in Ha by done.
  exists (match cr with Some (n, m) => [CCreate n m] | None => [] end), (dl.*2), (al.*2),
         (match sw with Some (a, b) => [CSwap a b] | None => [] end).
  split; [rewrite Hl; rewrite Hd at 1; rewrite Ha at 1; rewrite Hl3 at 1; done|].
  split.
  { destruct cr as [[n m]|].
    - right. repeat match goal with H : _ && _ = true |- _ => apply andb_true_iff in H as [? ?] end.
      repeat match goal with H : bool_decide _ = true |- _ => apply bool_decide_eq_true in H end. subst. done.
    - left. split; [done|]. by apply negb_true_iff. }
  split; [done|]. split; [done|].
  destruct sw as [[a b]|]; [right|by left].
  repeat match goal with H : _ && _ = true |- _ => apply andb_true_iff in H as [? ?] end.
  repeat match goal with H : bool_decide _ = true |- _ => apply bool_decide_eq_true in H end. subst. done.
Qed.

Definition WFd (s : st) : Prop := ∀ n, is_Some (s_des s !! n) → n.1 = 0.

Lemma wants_temp s i : WFd s -> wants s (temp_name i) = None.
Proof.
  intros H. unfold wants. destruct (s_des s !! temp_name i) eqn:E; [|done].
  assert ((temp_name i).1 = 0) by (apply H; eauto). done.
Qed.

Lemma wants_owned s n w : WFd s -> wants s n = Some w -> owned n = true.
Proof.
  intros H. unfold wants. destruct (s_des s !! n) eqn:E; [|done]. intros _.
  assert (n.1 = 0) as Hn by (apply H; eauto). unfold owned. rewrite Hn. done.
Qed.

Local Arguments exec : simpl never.

Lemma block_safe fx M lines wfail s s' e :
  write_updates fx M lines wfail s = Some (s', e) -> WFd s ->
  ∀ k i inj, events_safe (wants s) k (run_script k lines i inj).1.1.
Proof.
  unfold write_updates. intros H HW.
  destruct (s_des s !! M) as [dm|] eqn:Edes; [|done].
  destruct (s_trk s !! M) as [[md mp]|] eqn:Etrk; [|done].
  assert (wants s M = Some (norm_meta dm, md)) as HwM by (unfold wants; rewrite Edes, Etrk; done).
  assert (owned M = true) as HoM by (eapply wants_owned; done).
  set (need_t := match s_dp s !! M with Some d => negb (bool_decide (d = clean dm)) | None => false end) in *.
  set (need_c := match s_dp s !! M with Some _ => false | None => true end) in *.
  destruct (check_block _ _ _ _ _ _ _ lines) as [[[ds ads] cpl]|] eqn:Ecb; [|done].
  clear H. apply check_block_shape in Ecb as (cr & dl & al & sw & -> & Hcr & Hdl & Hal & Hsw).
  destruct need_t eqn:Ent.
  - (* temporary set + swap *)
    set (T := temp_name (next_free s)) in *.
    assert (wants s T = None) as HwT by (apply wants_temp; done).
    assert (owned T = true) as HoT by done.
    assert (dl = []) as ->.
    { destruct dl as [|x dl]; [done|]. exfalso. set_solver. }
    destruct Hcr as [[_ Hc]|[-> _]]; [by rewrite orb_true_r in Hc|].
    intros k i inj. simpl. case_bool_decide; [simpl; split; [apply step_safe_refl|done]|].
    destruct (exec k (CCreate T (norm_meta dm))) as [k0|] eqn:Ecr; [|simpl; split; [apply step_safe_refl|done]].
    assert (k0 = <[T:=(norm_meta dm, ∅)]> k) as ->.
    { unfold exec in Ecr. destruct (k !! T); by simplify_eq. }
    rewrite run_script_app.
    pose proof (run_adds_temp (wants s) T (norm_meta dm) al HwT HoT (<[T:=(norm_meta dm, ∅)]> k) ∅ (S i) inj) as Hadds.
    rewrite lookup_insert in Hadds. specialize (Hadds eq_refl).
    pose proof (run_script_last (<[T:=(norm_meta dm, ∅)]> k) (map (CAdd T) al) (S i) inj) as Hlast.
    destruct (run_script (<[T:=(norm_meta dm, ∅)]> k) (map (CAdd T) al) (S i) inj) as [[ev1 k1] f1]. simpl in Hadds, Hlast.
    destruct Hadds as [Hs1 Hk1]. subst k1. set (k1 := last_kernel (<[T:=(norm_meta dm, ∅)]> k) ev1) in *.
    assert (step_safe (wants s) k (<[T:=(norm_meta dm, ∅)]> k)) as Hcreate.
    { eapply (safe_unwanted _ k (CCreate T (norm_meta dm))); [done|].
      intros n Hn. apply elem_of_list_singleton in Hn as ->. done. }
    destruct f1; [simpl; done|].
    destruct Hsw as [->|(-> & _ & Hall & _)]; simpl.
    + rewrite app_nil_r. done.
    + case_bool_decide; [simpl; split; [done|]; apply events_safe_app; [done|]; simpl; split; [apply step_safe_refl|done]|].
      destruct (exec k1 (CSwap M T)) as [k2|] eqn:Esw; simpl.
      * split; [done|]. apply events_safe_app; [done|]. simpl. split; [|done].
        eapply (safe_swap _ k1 M T); try done.
        rewrite Hk1 by done. f_equal. f_equal. set_solver.
      * split; [done|]. apply events_safe_app; [done|]. simpl. split; [apply step_safe_refl|done].
  - (* in place: every line is safe by itself *)
    assert (dl_ok : ∀ x, x ∈ dl → x ∉ md) by set_solver.
    assert (al_ok : ∀ x, x ∈ al → x ∈ md) by set_solver.
    destruct Hsw as [->|(_ & ? & _)]; [|done]. rewrite app_nil_r.
    apply run_script_all_safe. intros c k k' Hc He.
    rewrite !elem_of_app in Hc. destruct Hc as [Hc|[Hc|Hc]].
    + destruct Hcr as [[-> _]|[-> _]]; [set_solver|]. apply elem_of_list_singleton in Hc as ->.
      eapply safe_create_main; done.
    + apply elem_of_list_fmap in Hc as (x & -> & Hx). eapply safe_del_main; try done. by apply dl_ok.
    + apply elem_of_list_fmap in Hc as (x & -> & Hx). eapply safe_add_main; try done. by apply al_ok.
Qed.

(* ---------------------------------------------------------------- what is wanted does not change during an apply *)
Definition same_wants (s s' : st) : Prop := s_des s' = s_des s ∧ ∀ n, wants s' n = wants s n.

Lemma same_wants_refl s : same_wants s s.
Proof. done. Qed.
Lemma same_wants_trans s1 s2 s3 : same_wants s1 s2 -> same_wants s2 s3 -> same_wants s1 s3.
Proof. intros [H1 H2] [H3 H4]. split; [congruence|]. intros n. rewrite H4. apply H2. Qed.

Lemma sw_rq_add_must n s : same_wants s (rq_add_must n s).
Proof. unfold rq_add_must. case_bool_decide; done. Qed.
Lemma sw_rq_add_bg n s : same_wants s (rq_add_bg n s).
Proof. unfold rq_add_bg. destruct (_ || _); done. Qed.
Lemma sw_rq_remove n s : same_wants s (rq_remove n s).
Proof. done. Qed.
Lemma sw_upd_dirty n s : same_wants s (upd_dirty n s).
Proof. unfold upd_dirty. repeat case_match; done. Qed.

Lemma sw_set_trk_keep M md X s mp :
  s_trk s !! M = Some (md, mp) -> same_wants s (set_trk <[M := (md, X)]> s).
Proof.
  intros H. split; [done|]. intros n. unfold wants. simpl.
  destruct (decide (n = M)) as [->|]; [rewrite lookup_insert, H; done|]. rewrite lookup_insert_ne by done. done.
Qed.

Lemma sw_foldr {A} (f : A → st → st) l s : (∀ a s, same_wants s (f a s)) -> same_wants s (foldr f s l).
Proof. intros H. induction l; simpl; [done|]. eapply same_wants_trans; [done|apply H]. Qed.

Lemma sw_by_fields s s' M md mp :
  s_trk s !! M = Some (md, mp) -> s_des s' = s_des s ->
  (∀ n, n ≠ M → s_trk s' !! n = s_trk s !! n) -> (∃ Y, s_trk s' !! M = Some (md, Y)) -> same_wants s s'.
Proof.
  intros H Hd Ho [Y HM]. split; [done|]. intros n. unfold wants. rewrite Hd.
  destruct (decide (n = M)) as [->|]; [rewrite H, HM; done|]. rewrite Ho by done. done.
Qed.

Lemma write_updates_wants fx M lines wf s s' e :
  write_updates fx M lines wf s = Some (s', e) -> same_wants s s'.
Proof.
  unfold write_updates. intros H.
  destruct (s_des s !! M) as [dm|] eqn:Edes; [|done].
  destruct (s_trk s !! M) as [[md mp]|] eqn:Etrk; [|done].
  destruct (check_block _ _ _ _ _ _ _ lines) as [[[ds ads] cpl]|]; [|done].
  set (nt := match s_dp s !! M with Some d => negb (bool_decide (d = clean dm)) | None => false end) in *.
  clearbody nt.
  assert (∀ t x, same_wants s x → same_wants s (rq_add_must t x)) as Hrq.
  { intros t x Hx. eapply same_wants_trans; [done|apply sw_rq_add_must]. }
  destruct wf.
  - destruct lines; [done|]. simplify_eq.
    destruct nt; simpl; [destruct fx; simpl; [apply Hrq|] |rewrite andb_false_r];
      (eapply sw_by_fields; [done|done| |]; simpl;
       [intros n Hn; rewrite ?lookup_insert_ne by done; done | eexists; apply lookup_insert]).
  - destruct cpl; [|done]. simplify_eq.
    destruct nt; simpl; repeat case_match; simpl;
      (eapply sw_by_fields; [done|done| |]; simpl;
       [intros n Hn; rewrite ?lookup_insert_ne by done; done | eexists; apply lookup_insert]).
Qed.

Lemma WFd_same s s' : s_des s' = s_des s -> WFd s -> WFd s'.
Proof. unfold WFd. intros ->. done. Qed.

Lemma blocks_safe fx bs wf s s' e :
  write_blocks fx bs wf s = Some (s', e) -> WFd s ->
  same_wants s s' ∧ ∀ k i inj, events_safe (wants s) k (run_script k (concat (bs.*2)) i inj).1.1.
Proof.
  revert s. induction bs as [|[M ls] bs IH]; intros s H HW.
  - simpl in *. simplify_eq. split; [done|]. intros; simpl; done.
  - rewrite fmap_cons. cbn [concat snd]. cbn [write_blocks] in H.
    destruct (write_updates fx M ls _ s) as [[s1 e1]|] eqn:Ew; [|done].
    pose proof (write_updates_wants _ _ _ _ _ _ _ Ew) as Hsw.
    pose proof (block_safe _ _ _ _ _ _ _ Ew HW) as Hb.
    assert (same_wants s s' ∧ ∀ k i inj, events_safe (wants s) k (run_script k (concat (bs.*2)) i inj).1.1) as [Hs Hr].
    { destruct e1.
      - destruct bs; [|done]. simplify_eq. split; [done|]. intros; simpl; done.
      - destruct (IH s1 H) as [Ha Hb']; [eapply WFd_same; [apply Hsw|done]|].
        split; [eapply same_wants_trans; done|].
        intros k i inj. eapply events_safe_ext; [|apply Hb']. apply Hsw. }
    split; [done|]. intros k i inj. rewrite run_script_app.
    specialize (Hb k i inj). pose proof (run_script_last k ls i inj) as Hl.
    destruct (run_script k ls i inj) as [[ev1 k1] f1]. cbn [fst snd] in *.
    destruct f1; [done|].
    specialize (Hr k1 (i + length ls)%nat inj).
    destruct (run_script k1 (concat bs.*2) _ inj) as [[ev2 k2] f2]. cbn [fst snd] in *.
    apply events_safe_app; [done|]. rewrite <- Hl. done.
Qed.

Lemma foldr_rq_add_must_sw l s : same_wants s (foldr rq_add_must s l).
Proof. apply sw_foldr. intros; apply sw_rq_add_must. Qed.

Lemma try_updates_safe fx a k s s' k' ev f :
  try_updates fx a k s = Some (s', k', ev, f) -> WFd s ->
  same_wants s s' ∧ events_safe (wants s) k ev ∧ k' = last_kernel k ev.
Proof.
  unfold try_updates. intros H HW. case_bool_decide.
  - repeat case_match; simplify_eq. done.
  - case_match; [|done].
    destruct (write_blocks fx (a_blocks a) (a_wfail a) s) as [[s1 werr]|] eqn:Ewb; [|done].
    case_bool_decide; [|done].
    destruct (blocks_safe _ _ _ _ _ _ Ewb HW) as [Hs Hr].
    specialize (Hr k O (a_inj a)). pose proof (run_script_last k (concat (a_blocks a).*2) O (a_inj a)) as Hl.
    destruct (run_script k (concat (a_blocks a).*2) 0 (a_inj a)) as [[ev1 k1] pf]. cbn [fst snd] in *.
    destruct (werr && negb pf); [done|].
    destruct (werr || pf); simplify_eq.
    + split; [|done]. eapply same_wants_trans; [done|apply foldr_rq_add_must_sw].
    + split; [|done]. eapply same_wants_trans; [done|done].
Qed.

(* ---------------------------------------------------------------- destroys *)
Definition WFp (s : st) : Prop := ∀ n, is_Some (s_dp s !! n) → owned n = true.

Lemma sw_del_trk n s : s_des s !! n = None -> same_wants s (set_trk (delete n) s).
Proof.
  intros H. split; [done|]. intros m. unfold wants. simpl.
  destruct (decide (m = n)) as [->|]; [rewrite H; done|]. rewrite lookup_delete_ne by done. done.
Qed.

Lemma del_pass_safe t tries : ∀ done k s s' k' ev c,
  del_pass t tries done k s = Some (s', k', ev, c) -> WFp s ->
  same_wants s s' ∧ events_safe (wants s) k ev ∧ k' = last_kernel k ev ∧ WFp s'.
Proof.
  induction tries as [|[n inj] rest IH]; intros dn k s s' k' ev c H HW; simpl in H.
  - case_bool_decide; [|done]. simplify_eq. done.
  - destruct (bool_decide (n ∈ _) && _) eqn:Hel; [|done].
    apply andb_true_iff in Hel as [Hel _]. apply bool_decide_eq_true in Hel.
    apply elem_of_filter in Hel as [_ Hpd]. unfold pending_del in Hpd.
    apply elem_of_difference in Hpd as [Hdp Hdes].
    apply elem_of_dom in Hdp. apply not_elem_of_dom in Hdes.
    assert (owned n = true) as Ho by (by apply HW).
    assert (wants s n = None) as Hw by (unfold wants; rewrite Hdes; done).
    destruct (if inj then None else exec k (CDestroy n)) as [k1|] eqn:Ex.
    + destruct rest; [|done]. simplify_eq. destruct inj; [done|].
      split; [|split; [|split]].
      * destruct t; [done|]. eapply same_wants_trans; [apply sw_del_trk; done|done].
      * simpl. split; [|done]. eapply safe_unwanted; [done|].
        intros m Hm. apply elem_of_list_singleton in Hm as ->. done.
      * done.
      * intros m Hm. apply HW. destruct t; simpl in Hm.
        -- destruct (decide (m = n)) as [->|]; [rewrite lookup_delete in Hm; by destruct Hm|].
           rewrite lookup_delete_ne in Hm by done. done.
        -- destruct (decide (m = n)) as [->|]; [rewrite lookup_delete in Hm; by destruct Hm|].
           rewrite lookup_delete_ne in Hm by done. done.
    + set (s1 := if t then s else match s_dp s !! n with Some (m, (_, lf)) => set_dp <[n:=(m, (true, lf))]> s | None => s end) in *.
      destruct (del_pass t rest ({[n]} ∪ dn) k s1) as [[[[s2 k2] ev2] c2]|] eqn:Er; [|done]. simplify_eq.
      assert (same_wants s s1) as Hs1 by (subst s1; repeat case_match; done).
      assert (WFp s1) as HW1.
      { subst s1. destruct t; [done|]. destruct (s_dp s !! n) as [[m [df lf]]|] eqn:E; [|done].
        intros m' Hm'. simpl in Hm'. destruct (decide (m' = n)) as [->|]; [done|].
        rewrite lookup_insert_ne in Hm' by done. by apply HW. }
      destruct (IH _ _ _ _ _ _ _ Er HW1) as (Ha & Hb & Hc & Hd).
      split; [eapply same_wants_trans; done|]. split; [|done].
      simpl. split; [apply step_safe_refl|]. eapply events_safe_ext; [|done]. apply Hs1.
Qed.

(* ---------------------------------------------------------------- well-formed IPSets states *)
Record WF (s : st) : Prop := mkWF {
  wf_des : ∀ n, is_Some (s_des s !! n) → n.1 = 0 ∧ is_Some (s_trk s !! n);
  wf_dp : ∀ n, is_Some (s_dp s !! n) → owned n = true;
  wf_q : ∀ n, n ∈ s_must s ∪ s_bg s → owned n = true
}.

Lemma WF_WFd s : WF s -> WFd s.
Proof. intros H n Hn. by apply H. Qed.
Lemma WF_WFp s : WF s -> WFp s.
Proof. intros H n Hn. by apply H. Qed.

Definition good (s s' : st) : Prop := WF s' ∧ same_wants s s'.
Lemma good_trans s1 s2 s3 : good s1 s2 -> good s2 s3 -> good s1 s3.
Proof. intros [_ H1] [H2 H3]. split; [done|]. eapply same_wants_trans; done. Qed.
Lemma good_refl s : WF s -> good s s.
Proof. done. Qed.

Lemma good_upd_dirty n s : WF s -> good s (upd_dirty n s).
Proof. intros [H1 H2 H3]. split; [|apply sw_upd_dirty]. unfold upd_dirty. repeat case_match; done. Qed.

Lemma good_rq_remove n s : WF s -> good s (rq_remove n s).
Proof. intros [H1 H2 H3]. split; [|done]. split; [done|done|]. simpl. intros m Hm. apply H3. set_solver. Qed.

Lemma good_rq_add_must n s : owned n = true -> WF s -> good s (rq_add_must n s).
Proof.
  intros Ho [H1 H2 H3]. split; [|apply sw_rq_add_must]. unfold rq_add_must. case_bool_decide; [done|].
  split; [done|done|]. simpl. intros m Hm.
  destruct (decide (m = n)) as [->|]; [done|]. apply H3. set_solver.
Qed.

Lemma good_rq_add_bg n s : owned n = true -> WF s -> good s (rq_add_bg n s).
Proof.
  intros Ho [H1 H2 H3]. split; [|apply sw_rq_add_bg]. unfold rq_add_bg. destruct (_ || _); [done|].
  split; [done|done|]. simpl. intros m Hm.
  destruct (decide (m = n)) as [->|]; [done|]. apply H3. set_solver.
Qed.

Lemma good_foldr {A} (f : A → st → st) (P : A → Prop) l s :
  (∀ a s, P a → WF s → good s (f a s)) -> Forall P l -> WF s -> good s (foldr f s l).
Proof.
  intros H Hl Hs. induction Hl as [|a l Ha Hl IH]; simpl; [done|].
  eapply good_trans; [apply IH|]. apply H; [done|]. apply IH.
Qed.

Lemma good_on_missing n s : WF s -> good s (on_missing n s).
Proof.
  intros Hs. unfold on_missing.
  set (s1 := set_dp (delete n) s).
  assert (good s s1) as G1.
  { split; [|done]. destruct Hs as [H1 H2 H3]. split; [done| |done]. simpl. intros m Hm.
    apply H2. destruct (decide (m = n)) as [->|]; [rewrite lookup_delete in Hm; by destruct Hm|].
    by rewrite lookup_delete_ne in Hm. }
  set (s2 := match s_trk s1 !! n with Some (d, _) => if bool_decide (is_Some (s_des s1 !! n)) then set_trk <[n:=(d, ∅)]> s1 else set_trk (delete n) s1 | None => s1 end).
  assert (good s1 s2) as G2.
  { subst s2. destruct G1 as [[H1 H2 H3] _]. destruct (s_trk s1 !! n) as [[d p]|] eqn:E; [|done].
    case_bool_decide as Hd.
    - split; [|eapply sw_set_trk_keep; done]. split; [|done|done]. simpl. intros m Hm.
      destruct (H1 m Hm) as [? ?]. split; [done|].
      destruct (decide (m = n)) as [->|]; [rewrite lookup_insert; eauto|]. by rewrite lookup_insert_ne.
    - assert (s_des s1 !! n = None) as Hn by (by apply eq_None_not_Some).
      split; [|by apply sw_del_trk]. split; [|done|done]. simpl. intros m Hm.
      destruct (H1 m Hm) as [? ?]. split; [done|].
      destruct (decide (m = n)) as [->|]; [by destruct (Hd Hm)|]. by rewrite lookup_delete_ne. }
  eapply good_trans; [exact G1|]. eapply good_trans; [exact G2|].
  eapply good_trans; [apply good_upd_dirty; apply G2|]. apply good_rq_remove. apply good_upd_dirty. apply G2.
Qed.

Lemma good_resync_one k n s : owned n = true -> WF s -> good s (resync_one k n s).
Proof.
  intros Ho Hs. unfold resync_one. destruct (k !! n) as [[m ms]|]; [|by apply good_on_missing].
  set (s1 := set_dp <[n:=clean m]> s).
  assert (good s s1) as G1.
  { split; [|done]. destruct Hs as [H1 H2 H3]. split; [done| |done]. simpl. intros x Hx.
    destruct (decide (x = n)) as [->|]; [done|]. rewrite lookup_insert_ne in Hx by done. by apply H2. }
  destruct (is_temp n); [done|].
  eapply good_trans; [exact G1|].
  set (d := match s_trk s1 !! n with Some (d, _) => d | None => ∅ end).
  assert (good s1 (set_trk <[n:=(d, ms)]> s1)) as G2.
  { destruct G1 as [[H1 H2 H3] _]. split.
    - split; [|done|done]. simpl. intros x Hx. destruct (H1 x Hx) as [? ?]. split; [done|].
      destruct (decide (x = n)) as [->|]; [rewrite lookup_insert; eauto|]. by rewrite lookup_insert_ne.
    - subst d. destruct (s_trk s1 !! n) as [[d p]|] eqn:E; [eapply sw_set_trk_keep; done|].
      split; [done|]. intros x. unfold wants. simpl. simpl in E.
      destruct (decide (x = n)) as [->|]; [|by rewrite lookup_insert_ne].
      rewrite E. destruct (s_des s !! n) eqn:Ed; [|done].
      destruct (H1 n) as [_ [? Hq]]; [simpl; eauto|]. simpl in Hq. congruence. }
  eapply good_trans; [exact G2|]. apply good_upd_dirty. apply G2.
Qed.

Lemma good_sweep listed s : WF s -> good s (sweep listed s).
Proof.
  intros Hs. unfold sweep. eapply (good_foldr _ (λ _, True)); [|by apply Forall_true|done].
  intros; by apply good_on_missing.
Qed.

Lemma owned_names_owned k n : n ∈ owned_names k -> owned n = true.
Proof. unfold owned_names. intros H. apply elem_of_filter in H as [? _]. done. Qed.

Lemma good_begin_full k s : WF s -> good s (begin_full k s).
Proof.
  intros Hs. unfold begin_full.
  set (s1 := set_must _ _).
  assert (good s s1) as G1.
  { split; [|done]. destruct Hs as [H1 H2 H3]. split; [done| |]; simpl.
    - intros n Hn. rewrite lookup_empty in Hn. by destruct Hn.
    - intros n Hn. apply (owned_names_owned k). set_solver. }
  eapply good_trans; [exact G1|]. destruct (good_sweep (owned_names k) s1) as [[H1 H2 H3] H4]; [apply G1|].
  split; [|done]. split; done.
Qed.

Lemma good_begin_bg k s : WF s -> good s (begin_bg k s).
Proof.
  intros Hs. unfold begin_bg.
  pose proof (good_sweep (owned_names k) s Hs) as G1.
  assert (good (sweep (owned_names k) s) (foldr rq_add_bg (sweep (owned_names k) s) (elements (owned_names k)))) as G2.
  { eapply (good_foldr _ (λ n, owned n = true)); [| |apply G1].
    - intros; by apply good_rq_add_bg.
    - apply Forall_forall. intros n Hn. apply (owned_names_owned k). by apply elem_of_elements. }
  destruct (good_trans _ _ _ G1 G2) as [[H1 H2 H3] H4]. split; [|done]. split; done.
Qed.

Lemma good_drain_bg k names : ∀ budget s s' b',
  drain_bg k names budget s = Some (s', b') -> WF s -> good s s'.
Proof.
  induction names as [|n rest IH]; intros budget s s' b' H Hs; simpl in H.
  - destruct (_ || _); by simplify_eq.
  - case_bool_decide; [done|]. case_bool_decide as Hin; [|done].
    assert (owned n = true) as Ho by (apply (wf_q _ Hs); set_solver).
    set (s1 := set_bg (.∖ {[n]}) s) in *.
    assert (good s s1) as G1.
    { split; [|done]. destruct Hs as [H1 H2 H3]. split; [done|done|]. simpl. intros m Hm. apply H3. set_solver. }
    eapply good_trans; [exact G1|].
    eapply good_trans; [apply good_resync_one; [done|apply G1]|].
    eapply IH; [done|]. apply good_resync_one; [done|apply G1].
Qed.

Lemma good_foldl_resync k l : ∀ s, Forall (λ n, owned n = true) l -> WF s ->
  good s (foldl (λ s n, resync_one k n s) s l).
Proof.
  induction l as [|n l IH]; intros s Hl Hs; simpl; [done|].
  inversion Hl; subst. eapply good_trans; [apply good_resync_one; done|].
  apply IH; [done|]. by apply good_resync_one.
Qed.

Lemma good_drain k names budget s s' b' :
  drain k names budget s = Some (s', b') -> WF s -> good s s'.
Proof.
  unfold drain. intros H Hs. destruct (_ && _) eqn:Hc; [|done].
  apply andb_true_iff in Hc as [_ Hc]. apply bool_decide_eq_true in Hc.
  set (mustn := take (size (s_must s)) names) in *.
  set (s0 := set_must (λ _, ∅) s) in *.
  assert (good s s0) as G0.
  { split; [|done]. destruct Hs as [H1 H2 H3]. split; [done|done|]. simpl. intros m Hm. apply H3. set_solver. }
  assert (Forall (λ n, owned n = true) mustn) as Hown.
  { apply Forall_forall. intros n Hn. apply (wf_q _ Hs). rewrite <- Hc. set_solver. }
  pose proof (good_foldl_resync k mustn s0 Hown (proj1 G0)) as G1.
  set (s1 := foldl _ s0 mustn) in *.
  eapply good_trans; [exact G0|]. eapply good_trans; [exact G1|].
  destruct (s_full s1).
  - case_bool_decide; [|done]. simplify_eq. apply good_refl, G1.
  - eapply good_drain_bg; [done|apply G1].
Qed.

Lemma good_try_resync k names budget s s' b' :
  try_resync k names budget s = Some (s', b') -> WF s -> good s s'.
Proof.
  unfold try_resync. intros H Hs.
  set (s1 := if s_full s then begin_full k s else if s_bgreq s then begin_bg k s else s) in *.
  assert (good s s1) as G1.
  { subst s1. destruct (s_full s); [by apply good_begin_full|]. destruct (s_bgreq s); [by apply good_begin_bg|done]. }
  eapply good_trans; [exact G1|]. eapply good_drain; [done|apply G1].
Qed.

Lemma WF_intro s s' :
  WF s -> s_des s' = s_des s ->
  (∀ n, is_Some (s_trk s !! n) → is_Some (s_des s !! n) → is_Some (s_trk s' !! n)) ->
  (∀ n, is_Some (s_dp s' !! n) → owned n = true) ->
  (∀ n, n ∈ s_must s' ∪ s_bg s' → owned n = true) -> WF s'.
Proof.
  intros [H1 H2 H3] Hd Ht Hp Hq. split; [|done|done]. intros n Hn. rewrite Hd in Hn.
  destruct (H1 n Hn). split; [done|]. by apply Ht.
Qed.

Lemma del_pass_aux t tries : ∀ done k s s' k' ev c,
  del_pass t tries done k s = Some (s', k', ev, c) ->
  (∀ n, is_Some (s_trk s !! n) → is_Some (s_des s !! n) → is_Some (s_trk s' !! n))
  ∧ s_must s' ∪ s_bg s' ⊆ s_must s ∪ s_bg s.
Proof.
  induction tries as [|[n inj] rest IH]; intros dn k s s' k' ev c H; simpl in H.
  - case_bool_decide; [|done]. simplify_eq. done.
  - destruct (bool_decide (n ∈ _) && _) eqn:Hel; [|done].
    apply andb_true_iff in Hel as [Hel _]. apply bool_decide_eq_true in Hel.
    apply elem_of_filter in Hel as [_ Hpd]. unfold pending_del in Hpd.
    apply elem_of_difference in Hpd as [_ Hdes]. apply not_elem_of_dom in Hdes.
    destruct (if inj then None else exec k (CDestroy n)) as [k1|] eqn:Ex.
    + destruct rest; [|done]. simplify_eq. split.
      * intros m Hm Hd. destruct t; simpl; [done|].
        destruct (decide (m = n)) as [->|]; [rewrite Hdes in Hd; by destruct Hd|]. by rewrite lookup_delete_ne.
      * destruct t; simpl; set_solver.
    + set (s1 := if t then s else match s_dp s !! n with Some (m, (_, lf)) => set_dp <[n:=(m, (true, lf))]> s | None => s end) in *.
      destruct (del_pass t rest ({[n]} ∪ dn) k s1) as [[[[s2 k2] ev2] c2]|] eqn:Er; [|done]. simplify_eq.
      destruct (IH _ _ _ _ _ _ _ Er) as [Ha Hb].
      assert (s_trk s1 = s_trk s ∧ s_des s1 = s_des s ∧ s_must s1 = s_must s ∧ s_bg s1 = s_bg s) as (E1 & E2 & E3 & E4)
        by (subst s1; repeat case_match; done).
      rewrite E1, E2, E3, E4 in *. done.
Qed.

Lemma del_pass_good t tries dn k s s' k' ev c :
  del_pass t tries dn k s = Some (s', k', ev, c) -> WF s ->
  good s s' ∧ events_safe (wants s) k ev ∧ k' = last_kernel k ev.
Proof.
  intros H Hs. destruct (del_pass_safe _ _ _ _ _ _ _ _ _ H (WF_WFp _ Hs)) as (Ha & Hb & Hc & Hd).
  destruct (del_pass_aux _ _ _ _ _ _ _ _ _ H) as [He Hf].
  split; [|done]. split; [|done]. eapply WF_intro; [done|apply Ha|done|done|].
  intros n Hn. apply (wf_q _ Hs). set_solver.
Qed.

Lemma write_updates_good fx M lines wf s s' e :
  write_updates fx M lines wf s = Some (s', e) -> WF s -> WF s' ∧ is_Some (s_des s !! M).
Proof.
  intros H Hs. pose proof (write_updates_wants _ _ _ _ _ _ _ H) as [Hd _].
  unfold write_updates in H.
  destruct (s_des s !! M) as [dm|] eqn:Edes; [|done].
  destruct (s_trk s !! M) as [[md mp]|] eqn:Etrk; [|done].
  destruct (check_block _ _ _ _ _ _ _ lines) as [[[ds ads] cpl]|]; [|done].
  assert (owned M = true) as HoM.
  { destruct (wf_des _ Hs M) as [E _]; [eauto|]. unfold owned. by rewrite E. }
  split; [|eauto].
  set (nt := match s_dp s !! M with Some d => negb (bool_decide (d = clean dm)) | None => false end) in *.
  clearbody nt.
  assert (∀ T X, owned T = true → WF X → WF (rq_add_must T X)) as Hrq.
  { intros T X HT HX. by apply good_rq_add_must. }
  assert (∀ X, s_des X = s_des s → (∀ n, n ≠ M → s_trk X !! n = s_trk s !! n) → is_Some (s_trk X !! M) →
          (∀ n, is_Some (s_dp X !! n) → n = M ∨ n = temp_name (next_free s) ∨ is_Some (s_dp s !! n)) →
          s_must X = s_must s → s_bg X = s_bg s → WF X) as Hmk.
  { intros X E1 E2 E3 E4 E5 E6. eapply WF_intro; [done|done| | |].
    - intros n Hn _. destruct (decide (n = M)) as [->|]; [done|]. by rewrite E2.
    - intros n Hn. destruct (E4 n Hn) as [->|[->|?]]; [done|done|]. by apply (wf_dp _ Hs).
    - rewrite E5, E6. apply (wf_q _ Hs). }
  destruct wf.
  - destruct lines; [done|]. simplify_eq.
    destruct nt; simpl; [destruct fx; simpl; [apply Hrq; [done|]|] | rewrite andb_false_r];
      (apply Hmk; simpl; [done| intros n Hn; rewrite ?lookup_insert_ne by done; done | rewrite lookup_insert; eauto | eauto | done | done]).
  - destruct cpl; [|done]. simplify_eq.
    destruct nt; simpl; repeat case_match; simpl;
      (apply Hmk; simpl; [done| intros n Hn; rewrite ?lookup_insert_ne by done; done | rewrite lookup_insert; eauto | | done | done]);
      intros n Hn; 
      repeat (match type of Hn with is_Some (<[?a:=_]> _ !! n) => destruct (decide (n = a)) as [->|]; [eauto|rewrite lookup_insert_ne in Hn by done] end); eauto.
Qed.

Lemma write_blocks_good fx bs wf : ∀ s s' e,
  write_blocks fx bs wf s = Some (s', e) -> WF s -> WF s' ∧ Forall (λ M, is_Some (s_des s !! M)) (bs.*1).
Proof.
  induction bs as [|[M ls] bs IH]; intros s s' e H Hs.
  - simpl in *. simplify_eq. done.
  - rewrite fmap_cons. cbn [write_blocks] in H.
    destruct (write_updates fx M ls _ s) as [[s1 e1]|] eqn:Ew; [|done].
    destruct (write_updates_good _ _ _ _ _ _ _ Ew Hs) as [H1 H2].
    pose proof (write_updates_wants _ _ _ _ _ _ _ Ew) as [Hd _].
    destruct e1.
    + destruct bs; [|done]. simplify_eq. split; [done|]. constructor; [done|constructor].
    + destruct (IH _ _ _ H H1) as [H3 H4]. split; [done|]. constructor; [done|].
      rewrite Hd in H4. done.
Qed.

Lemma try_updates_good fx a k s s' k' ev f :
  try_updates fx a k s = Some (s', k', ev, f) -> WF s ->
  good s s' ∧ events_safe (wants s) k ev ∧ k' = last_kernel k ev.
Proof.
  intros H Hs. destruct (try_updates_safe _ _ _ _ _ _ _ _ H (WF_WFd _ Hs)) as (Ha & Hb & Hc).
  split; [|done]. split; [|done].
  unfold try_updates in H. case_bool_decide.
  - repeat case_match; simplify_eq. done.
  - case_match; [|done].
    destruct (write_blocks fx (a_blocks a) (a_wfail a) s) as [[s1 werr]|] eqn:Ewb; [|done].
    case_bool_decide; [|done].
    destruct (write_blocks_good _ _ _ _ _ _ Ewb Hs) as [Hw1 Hw2].
    destruct (run_script k (concat (a_blocks a).*2) 0 (a_inj a)) as [[ev1 k1] pf].
    destruct (werr && negb pf); [done|].
    destruct (werr || pf); simplify_eq.
    + eapply (good_foldr _ (λ n, owned n = true)); [| |exact Hw1].
      * intros; by apply good_rq_add_must.
      * eapply Forall_impl; [exact Hw2|]. intros M HM. simpl in HM.
        destruct (wf_des _ Hs M HM) as [E _]. unfold owned. by rewrite E.
    + destruct Hw1 as [X1 X2 X3]. split; done.
Qed.

(* ---------------------------------------------------------------- the whole ApplyUpdates / ApplyDeletions *)
Lemma good_set_full b s : WF s -> good s (set_full b s).
Proof. intros [H1 H2 H3]. split; [|done]. split; done. Qed.
Lemma good_set_panic b s : WF s -> good s (set_panic b s).
Proof. intros [H1 H2 H3]. split; [|done]. split; done. Qed.

Lemma events_safe_good s s' k e : good s s' -> events_safe (wants s') k e -> events_safe (wants s) k e.
Proof. intros [_ [_ H]]. apply events_safe_ext. done. Qed.

Lemma apply_updates_loop_safe fx obs : ∀ att budget k s s' k' ev,
  apply_updates_loop fx obs att budget k s = Some (s', k', ev) -> WF s ->
  good s s' ∧ events_safe (wants s) k ev ∧ k' = last_kernel k ev.
Proof.
  induction obs as [|a rest IH]; intros att budget k s s' k' ev H Hs; [done|].
  cbn [apply_updates_loop] in H.
  destruct (if s_full s || s_bgreq s || negb (rq_empty s) then try_resync k (a_resync a) budget s
             else match a_resync a with [] => Some (s, budget) | _ => None end) as [[s1 b1]|] eqn:E1; [|done].
  assert (good s s1) as G1.
  { revert E1. destruct (_ || _); intros E1; [eapply good_try_resync; [exact E1|exact Hs]|]. destruct (a_resync a); by simplify_eq. }
  destruct (del_pass true (a_tmpdel a) ∅ k s1) as [[[[s2 k2] ev2] c2]|] eqn:E2; [|done].
  destruct (del_pass_good _ _ _ _ _ _ _ _ _ E2 (proj1 G1)) as (G2 & S2 & K2).
  destruct (try_updates fx a k2 s2) as [[[[s3 k3] ev3] f3]|] eqn:E3; [|done].
  destruct (try_updates_good _ _ _ _ _ _ _ _ E3 (proj1 G2)) as (G3 & S3 & K3).
  assert (good s s3) as G03 by (eapply good_trans; [exact G1|]; eapply good_trans; [exact G2|exact G3]).
  assert (events_safe (wants s) k (ev2 ++ ev3)) as S23.
  { apply events_safe_app; [eapply events_safe_good; [exact G1|exact S2]|]. rewrite <- K2.
    eapply events_safe_good; [eapply good_trans; [exact G1|exact G2]|exact S3]. }
  assert (k3 = last_kernel k (ev2 ++ ev3)) as K23 by (rewrite last_kernel_app, <- K2; done).
  destruct f3.
  - set (s4 := if Nat.leb (MaxRetryAttempt / 2) att then set_full true s3 else s3) in *.
    assert (good s s4) as G4.
    { subst s4. destruct (Nat.leb _ _); [|done]. eapply good_trans; [exact G03|]. apply good_set_full, G03. }
    destruct (Nat.eqb (S att) MaxRetryAttempt).
    + destruct rest; [|done]. simplify_eq. split; [|done].
      eapply good_trans; [exact G4|]. apply good_set_panic, G4.
    + destruct (apply_updates_loop fx rest (S att) b1 k3 s4) as [[[s5 k5] ev5]|] eqn:E5; [|done]. simplify_eq.
      destruct (IH _ _ _ _ _ _ _ E5 (proj1 G4)) as (G5 & S5 & K5).
      split; [eapply good_trans; [exact G4|exact G5]|].
      rewrite app_assoc. split.
      * apply events_safe_app; [done|]. rewrite <- K23. eapply events_safe_good; [exact G4|exact S5].
      * rewrite last_kernel_app, <- K23. done.
  - destruct rest; [|done]. simplify_eq. split; [|done].
    eapply good_trans; [exact G03|]. apply good_set_full, G03.
Qed.

Lemma apply_deletions_safe tries k s s' k' ev rs :
  apply_deletions tries k s = Some (s', k', ev, rs) -> WF s ->
  good s s' ∧ events_safe (wants s) k ev ∧ k' = last_kernel k ev.
Proof.
  unfold apply_deletions. intros H Hs.
  destruct (del_pass false tries ∅ k s) as [[[[s2 k2] ev2] c2]|] eqn:E2; [|done]. simplify_eq.
  by eapply del_pass_good.
Qed.

(* ---------------------------------------------------------------- link to the boolean oracle of Spec.v *)
Lemma set_safe_bool D kp kn n :
  owned n = true -> set_safe (want_of D n) (kp !! n) (kn !! n) -> set_step_ok D kp kn n = true.
Proof.
  intros Ho H. unfold set_step_ok. rewrite Ho. simpl.
  destruct (want_of D n) as [w|]; [|done]. simpl in H.
  destruct (kp !! n) as [o|], (kn !! n) as [v|]; try done.
  - destruct H as [->|[->|(H1 & H2 & H3)]].
    + rewrite bool_decide_eq_true_2 by done. done.
    + rewrite (bool_decide_eq_true_2 (w = w)) by done. by rewrite orb_true_r.
    + unfold toward. rewrite (bool_decide_eq_true_2 (v.1 = o.1)) by done.
      rewrite (bool_decide_eq_true_2 (v.2 ∖ o.2 ⊆ w.2)) by done.
      rewrite (bool_decide_eq_true_2 (o.2 ∖ v.2 ## w.2)) by done. by rewrite !orb_true_r.
  - subst. by rewrite bool_decide_eq_true_2.
Qed.

Lemma step_safe_bool D kp kn : step_safe (want_of D) kp kn -> step_ok D kp kn = true.
Proof.
  intros H. unfold step_ok. apply forallb_forall. intros n _.
  destruct (H n) as [H1 H2]. destruct (owned n) eqn:Ho.
  - apply set_safe_bool; [done|]. by apply H2.
  - unfold set_step_ok. rewrite Ho. simpl. apply bool_decide_eq_true_2. by apply H1.
Qed.

(* the model's commands pass the oracle's per-command check *)
Fixpoint cmds_ok (D : gmap N (meta * gset member)) (k : kernel) (ev : list event) : bool :=
  match ev with
  | [] => true
  | (_, _, k') :: r => step_ok D k k' && cmds_ok D k' r
  end.

Lemma events_safe_bool D k ev : events_safe (want_of D) k ev -> cmds_ok D k ev = true.
Proof.
  revert k. induction ev as [|[[c ok] k'] ev IH]; intros k; simpl; [done|].
  intros [H1 H2]. rewrite step_safe_bool by done. by apply IH.
Qed.

(* ---------------------------------------------------------------- API calls *)
Definition rel (D : gmap N (meta * gset member)) (s : st) : Prop := ∀ n, wants s n = want_of D n.

Lemma wants_non_main s n : WF s -> n.1 ≠ 0 -> wants s n = None.
Proof.
  intros Hs Hn. unfold wants. destruct (s_des s !! n) eqn:E; [|done].
  destruct (wf_des _ Hs n); [eauto|]. done.
Qed.

Lemma want_of_main D id : want_of D (main_name id) = (λ v, (norm_meta v.1, v.2)) <$> D !! id.
Proof. done. Qed.
Lemma want_of_non_main D n : n.1 ≠ 0 -> want_of D n = None.
Proof. intros H. unfold want_of. destruct (n.1 =? 0) eqn:E; [|done]. apply N.eqb_eq in E. done. Qed.

Lemma name_cases (n : name) : (∃ id, n = main_name id) ∨ n.1 ≠ 0.
Proof. destruct n as [c q]. destruct (decide (c = 0)) as [->|]; [left; by exists q|right; done]. Qed.

Lemma WF_upd_dirty n s : WF s -> WF (upd_dirty n s).
Proof. intros H. apply good_upd_dirty, H. Qed.
Lemma wants_upd_dirty n s m : wants (upd_dirty n s) m = wants s m.
Proof. apply sw_upd_dirty. Qed.

Lemma api_add_or_replace D s id m ms :
  WF s -> rel D s -> WF (add_or_replace id m ms s) ∧ rel (<[id := (m, ms)]> D) (add_or_replace id m ms s).
Proof.
  intros Hs Hr. unfold add_or_replace.
  set (p := match s_trk s !! main_name id with Some (_, p) => p | None => ∅ end).
  set (s1 := set_trk _ (set_des _ s)).
  assert (WF s1) as H1.
  { destruct Hs as [A B C]. split; [|done|done]. simpl. intros n Hn.
    destruct (decide (n = main_name id)) as [->|]; [rewrite lookup_insert; split; [done|eauto]|].
    rewrite lookup_insert_ne in Hn by done. rewrite lookup_insert_ne by done. by apply A. }
  split; [by apply WF_upd_dirty|]. intros n. rewrite wants_upd_dirty.
  destruct (name_cases n) as [[i ->]|Hn].
  - rewrite want_of_main. unfold wants. simpl. destruct (decide (i = id)) as [->|Hne].
    + rewrite !lookup_insert. done.
    + assert (main_name i ≠ main_name id) by (unfold main_name; congruence).
      rewrite !lookup_insert_ne by done. specialize (Hr (main_name i)). by rewrite want_of_main in Hr.
  - rewrite want_of_non_main by done. by apply wants_non_main.
Qed.

Lemma api_remove D s id : WF s -> rel D s -> WF (remove_ipset id s) ∧ rel (delete id D) (remove_ipset id s).
Proof.
  intros Hs Hr. unfold remove_ipset.
  set (s1 := set_des (delete (main_name id)) s).
  assert (∀ X, s_des X = s_des s1 → (∀ n, n ≠ main_name id → s_trk X !! n = s_trk s !! n) →
          s_dp X = s_dp s → s_must X = s_must s → s_bg X = s_bg s → WF X ∧ rel (delete id D) X) as Hmk.
  { intros X E1 E2 E3 E4 E5. split.
    - destruct Hs as [A B C]. split; [|by rewrite E3|by rewrite E4, E5]. intros n Hn. rewrite E1 in Hn. simpl in Hn.
      destruct (decide (n = main_name id)) as [->|]; [rewrite lookup_delete in Hn; by destruct Hn|].
      rewrite lookup_delete_ne in Hn by done. rewrite E2 by done. by apply A.
    - intros n. destruct (name_cases n) as [[i ->]|Hn].
      + rewrite want_of_main. unfold wants. rewrite E1. simpl. destruct (decide (i = id)) as [->|Hne].
        * rewrite !lookup_delete. done.
        * assert (main_name i ≠ main_name id) by (unfold main_name; congruence).
          rewrite !lookup_delete_ne by done. rewrite E2 by done.
          specialize (Hr (main_name i)). by rewrite want_of_main in Hr.
      + rewrite want_of_non_main by done. unfold wants. rewrite E1. simpl.
        destruct (decide (n = main_name id)) as [->|]; [done|]. rewrite lookup_delete_ne by done.
        destruct (s_des s !! n) eqn:E; [|done]. destruct (wf_des _ Hs n); [eauto|]. done. }
  destruct (s_dp s !! main_name id).
  - destruct (s_trk s !! main_name id) as [[d p0]|] eqn:Et.
    + assert (WF (set_trk <[main_name id:=(∅, p0)]> s1) ∧ rel (delete id D) (set_trk <[main_name id:=(∅, p0)]> s1)) as [A B].
      { apply Hmk; simpl; try done. intros n Hn. by rewrite lookup_insert_ne. }
      split; [by apply WF_upd_dirty|]. intros n. rewrite wants_upd_dirty. apply B.
    + apply Hmk; simpl; done.
  - assert (WF (set_trk (delete (main_name id)) s1) ∧ rel (delete id D) (set_trk (delete (main_name id)) s1)) as [A B].
    { apply Hmk; simpl; try done. intros n Hn. by rewrite lookup_delete_ne. }
    split; [by apply WF_upd_dirty|]. intros n. rewrite wants_upd_dirty. apply B.
Qed.

Lemma api_change D s add id ms :
  WF s -> rel D s ->
  WF (change_members add id ms s) ∧
  rel (alter (λ v, (v.1, if add then v.2 ∪ ms else v.2 ∖ ms)) id D) (change_members add id ms s).
Proof.
  intros Hs Hr. unfold change_members.
  assert (∀ X, s_des X = s_des s → s_trk X = s_trk s → rel D X) as Hsame.
  { intros X E1 E2 n. unfold wants. rewrite E1, E2. apply Hr. }
  assert (D !! id = None → alter (λ v, (v.1, if add then v.2 ∪ ms else v.2 ∖ ms)) id D = D) as Hnone.
  { intros E. apply map_eq. intros i. destruct (decide (i = id)) as [->|]; [by rewrite lookup_alter, E|by rewrite lookup_alter_ne]. }
  pose proof (Hr (main_name id)) as Hid. rewrite want_of_main in Hid. unfold wants in Hid.
  destruct (s_des s !! main_name id) as [dm|] eqn:Ed.
  - case_bool_decide as Hms.
    + split; [done|]. subst ms.
      replace (alter _ id D) with D; [done|]. apply map_eq. intros i.
      destruct (decide (i = id)) as [->|]; [|by rewrite lookup_alter_ne].
      rewrite lookup_alter. destruct (D !! id) as [[a b]|]; [|done]. simpl. f_equal. f_equal.
      destruct add; set_solver.
    + destruct (s_trk s !! main_name id) as [[d p0]|] eqn:Et.
      * set (d' := if add then d ∪ ms else d ∖ ms).
        set (s1 := set_trk <[main_name id:=(d', p0)]> s).
        assert (WF s1) as W1.
        { destruct Hs as [A B C]. split; [|done|done]. simpl. intros n Hn. destruct (A n Hn). split; [done|].
          destruct (decide (n = main_name id)) as [->|]; [rewrite lookup_insert; eauto|by rewrite lookup_insert_ne]. }
        split; [by apply WF_upd_dirty|]. intros n. rewrite wants_upd_dirty.
        destruct (name_cases n) as [[i ->]|Hn].
        -- rewrite want_of_main. unfold wants. simpl. destruct (decide (i = id)) as [->|Hne].
           ++ rewrite Ed, lookup_insert, lookup_alter. destruct (D !! id) as [[a b]|]; [|done].
              simpl in *. subst d'. injection Hid as E1 E2. subst. by rewrite E1.
           ++ assert (main_name i ≠ main_name id) by (unfold main_name; congruence).
              rewrite lookup_insert_ne, lookup_alter_ne by done.
              specialize (Hr (main_name i)). by rewrite want_of_main in Hr.
        -- rewrite want_of_non_main by done. by apply wants_non_main.
      * destruct (D !! id) eqn:ED; [done|]. rewrite Hnone by done.
        split; [destruct Hs; split; done|]. by apply Hsame.
  - destruct (D !! id) eqn:ED; [done|]. rewrite Hnone by done.
    split; [destruct Hs; split; done|]. by apply Hsame.
Qed.
