(* C16 - proofs, part 2: every single command Felix issues is safe (foreign sets untouched, desired sets
   never destroyed, a desired set holds its old value, its exact desired value, or same parameters with
   members moved toward the desired ones). *)
From stdpp Require Import gmap.
From Coq Require Import NArith.
From Verif.C16 Require Import Model Spec Proofs.
Open Scope N_scope.

(* what IPSets wants a set to be *)
Definition wants (s : st) (n : name) : option kset :=
  match s_des s !! n, s_trk s !! n with
  | Some m, Some (d, _) => Some (norm_meta m, d)
  | _, _ => None
  end.

Definition set_safe (w o v : option kset) : Prop :=
  match w with
  | None => True
  | Some w =>
      match o, v with
      | Some o, Some v => v = o ∨ v = w ∨ (v.1 = o.1 ∧ v.2 ∖ o.2 ⊆ w.2 ∧ (o.2 ∖ v.2) ## w.2)
      | Some _, None => False
      | None, Some v => v = (w.1, ∅)
      | None, None => True
      end
  end.

Definition step_safe (W : name → option kset) (kp kn : kernel) : Prop :=
  ∀ n, (owned n = false → kn !! n = kp !! n) ∧ (owned n = true → set_safe (W n) (kp !! n) (kn !! n)).

Fixpoint events_safe (W : name → option kset) (k : kernel) (evs : list event) : Prop :=
  match evs with
  | [] => True
  | (_, _, k') :: r => step_safe W k k' ∧ events_safe W k' r
  end.

Fixpoint last_kernel (k : kernel) (evs : list event) : kernel :=
  match evs with [] => k | (_, _, k') :: r => last_kernel k' r end.

Lemma set_safe_refl w o : set_safe w o o.
Proof. destruct w as [w|], o as [o|]; simpl; auto. Qed.

Lemma step_safe_refl W k : step_safe W k k.
Proof. intros n; split; intros; [done | apply set_safe_refl]. Qed.

Lemma events_safe_app W k e1 e2 :
  events_safe W k e1 -> events_safe W (last_kernel k e1) e2 -> events_safe W k (e1 ++ e2).
Proof.
  revert k. induction e1 as [|[[c ok] k'] e1 IH]; intros k; simpl; [done|].
  intros [H1 H2] H3. split; [done|]. by apply IH.
Qed.

Lemma last_kernel_app k e1 e2 : last_kernel k (e1 ++ e2) = last_kernel (last_kernel k e1) e2.
Proof. revert k. induction e1 as [|[[c ok] k'] e1 IH]; intros k; simpl; [done|]. apply IH. Qed.

Lemma last_kernel_cons k c ok k' e : last_kernel k ((c, ok, k') :: e) = last_kernel k' e.
Proof. done. Qed.

(* a command that names only owned sets and is safe for them is safe *)
Lemma step_safe_local W k c k' :
  exec k c = Some k' ->
  (∀ n, n ∈ cmd_names c → owned n = true ∧ set_safe (W n) (k !! n) (k' !! n)) ->
  step_safe W k k'.
Proof.
  intros He H n. destruct (decide (n ∈ cmd_names c)) as [Hin|Hnin].
  - destruct (H n Hin) as [Ho Hs]. split; [congruence | done].
  - rewrite (exec_other _ _ _ _ He Hnin). split; [done | intros; apply set_safe_refl].
Qed.

(* ---------------------------------------------------------------- run_script *)
Lemma run_script_last k cs i inj :
  (run_script k cs i inj).1.2 = last_kernel k (run_script k cs i inj).1.1.
Proof.
  revert k i. induction cs as [|c cs IH]; intros k i; simpl; [done|].
  case_bool_decide; [done|].
  destruct (exec k c) as [k'|] eqn:E; [|done].
  specialize (IH k' (S i)). destruct (run_script k' cs (S i) inj) as [[ev kf] fl]. simpl in *.
  done.
Qed.

Lemma run_script_app k l1 l2 i inj :
  run_script k (l1 ++ l2) i inj =
  let '(ev1, k1, f1) := run_script k l1 i inj in
  if f1 then (ev1, k1, true)
  else let '(ev2, k2, f2) := run_script k1 l2 (i + length l1)%nat inj in (ev1 ++ ev2, k2, f2).
Proof.
  revert k i. induction l1 as [|c l1 IH]; intros k i; simpl.
  - rewrite Nat.add_0_r. destruct (run_script k l2 i inj) as [[? ?] ?]. done.
  - case_bool_decide; [done|]. destruct (exec k c) as [k'|]; [|done].
    rewrite IH. destruct (run_script k' l1 (S i) inj) as [[ev1 k1] f1].
    destruct f1; [done|]. replace (S i + length l1)%nat with (i + S (length l1))%nat by lia.
    destruct (run_script k1 l2 _ inj) as [[ev2 k2] f2]. done.
Qed.

(* every line safe from every kernel => the run is safe *)
Lemma run_script_all_safe W cs : 
  (∀ c k k', c ∈ cs → exec k c = Some k' → step_safe W k k') ->
  ∀ k i inj, events_safe W k (run_script k cs i inj).1.1.
Proof.
  induction cs as [|c cs IH]; intros H k i inj; simpl; [done|].
  case_bool_decide; [simpl; split; [apply step_safe_refl|done]|].
  destruct (exec k c) as [k'|] eqn:E; [|simpl; split; [apply step_safe_refl|done]].
  assert (events_safe W k' (run_script k' cs (S i) inj).1.1) as H2.
  { apply IH. intros; eapply H; [by right|done]. }
  destruct (run_script k' cs (S i) inj) as [[ev kf] fl]. simpl in *.
  split; [|done]. eapply H; [by left|done].
Qed.

Lemma events_safe_ext W W' k e : (∀ n, W n = W' n) -> events_safe W k e -> events_safe W' k e.
Proof.
  intros HW. revert k. induction e as [|[[c ok] k'] e IH]; intros k; simpl; [done|].
  intros [H1 H2]. split; [|by apply IH]. intros n. destruct (H1 n) as [Ha Hb]. split; [done|].
  rewrite <- HW. done.
Qed.

(* ---------------------------------------------------------------- single commands *)
Section cmds.
Context (W : name → option kset).

Lemma safe_unwanted k c k' :
  exec k c = Some k' -> (∀ n, n ∈ cmd_names c → owned n = true ∧ W n = None) -> step_safe W k k'.
Proof.
  intros He H. eapply step_safe_local; [done|]. intros n Hn. destruct (H n Hn) as [? ->]. done.
Qed.

Lemma safe_create_main k S cm md k' :
  owned S = true -> W S = Some (cm, md) -> exec k (CCreate S cm) = Some k' -> step_safe W k k'.
Proof.
  intros Ho Hw He. eapply step_safe_local; [done|]. intros n Hn. apply elem_of_list_singleton in Hn as ->.
  split; [done|]. rewrite Hw. simpl in He. destruct (k !! S) eqn:E; [done|]. simplify_eq.
  rewrite lookup_insert. done.
Qed.

Lemma safe_del_main k S cm md x k' :
  owned S = true -> W S = Some (cm, md) -> x ∉ md -> exec k (CDel S x) = Some k' -> step_safe W k k'.
Proof.
  intros Ho Hw Hx He. eapply step_safe_local; [done|]. intros n Hn. apply elem_of_list_singleton in Hn as ->.
  split; [done|]. rewrite Hw. simpl in He. destruct (k !! S) as [[m s]|] eqn:E; [|done]. simplify_eq.
  rewrite lookup_insert. simpl. right; right. simpl. split; [done|]. split; set_solver.
Qed.

Lemma safe_add_main k S cm md x k' :
  owned S = true -> W S = Some (cm, md) -> x ∈ md -> exec k (CAdd S x) = Some k' -> step_safe W k k'.
Proof.
  intros Ho Hw Hx He. eapply step_safe_local; [done|]. intros n Hn. apply elem_of_list_singleton in Hn as ->.
  split; [done|]. rewrite Hw. simpl in He. destruct (k !! S) as [[m s]|] eqn:E; [|done].
  case_bool_decide; [done|]. simplify_eq.
  rewrite lookup_insert. simpl. right; right. simpl. split; [done|]. split; set_solver.
Qed.

Lemma safe_swap k S T w k' :
  owned S = true -> owned T = true -> W T = None -> W S = Some w -> k !! T = Some w ->
  exec k (CSwap S T) = Some k' -> step_safe W k k'.
Proof.
  intros Ho Ho' HwT HwS HT He. eapply step_safe_local; [done|]. intros n Hn.
  simpl in He. destruct (k !! S) as [vS|] eqn:ES; [|done]. rewrite HT in He. simplify_eq.
  simpl in Hn. apply elem_of_cons in Hn as [->|Hn].
  - split; [done|]. rewrite HwS, ES, lookup_insert. simpl. auto.
  - apply elem_of_list_singleton in Hn as ->. split; [done|]. rewrite HwT. done.
Qed.

(* adds into a set nobody wants, tracking its contents *)
Lemma run_adds_temp T cm al : W T = None -> owned T = true ->
  ∀ k A i inj, k !! T = Some (cm, A) ->
  events_safe W k (run_script k (map (CAdd T) al) i inj).1.1 ∧
  ((run_script k (map (CAdd T) al) i inj).2 = false →
   (run_script k (map (CAdd T) al) i inj).1.2 !! T = Some (cm, list_to_set al ∪ A)).
Proof.
  intros HW Ho. induction al as [|x al IH]; intros k A i inj HT; simpl.
  - split; [done|]. intros _. rewrite HT. f_equal. f_equal. set_solver.
  - case_bool_decide; [simpl; split; [split; [apply step_safe_refl|done]|done]|].
    rewrite HT. case_bool_decide; [simpl; split; [split; [apply step_safe_refl|done]|done]|].
    specialize (IH (<[T:=(cm, {[x]} ∪ A)]> k) ({[x]} ∪ A) (S i) inj).
    rewrite lookup_insert in IH. specialize (IH eq_refl).
    destruct (run_script (<[T:=(cm, {[x]} ∪ A)]> k) (map (CAdd T) al) (S i) inj) as [[ev kf] fl]. simpl in *.
    destruct IH as [IH1 IH2]. split.
    + split; [|done]. eapply (safe_unwanted k (CAdd T x)).
      * simpl. rewrite HT. rewrite bool_decide_eq_false_2 by done. done.
      * intros n Hn. apply elem_of_list_singleton in Hn as ->. done.
    + intros Hf. rewrite IH2 by done. f_equal. f_equal. set_solver.
Qed.
End cmds.

(* ---------------------------------------------------------------- the restore script of one attempt *)
Lemma take_dels_split l :
  l = map (λ p, CDel p.1 p.2) (take_dels l) ++ drop (length (take_dels l)) l.
Proof. induction l as [|c l IH]; [done|]. destruct c; simpl; try done. by rewrite <- IH. Qed.
Lemma take_adds_split l :
  l = map (λ p, CAdd p.1 p.2) (take_adds l) ++ drop (length (take_adds l)) l.
Proof. induction l as [|c l IH]; [done|]. destruct c; simpl; try done. by rewrite <- IH. Qed.

Lemma map_target {A} (f : name → member → A) target (l : list (name * member)) :
  forallb (λ p, bool_decide (p.1 = target)) l = true ->
  map (λ p, f p.1 p.2) l = map (f target) (l.*2).
Proof.
  induction l as [|[n x] l IH]; simpl; [done|]. intros H. apply andb_true_iff in H as [H1 H2].
  apply bool_decide_eq_true in H1. simpl in H1. subst. by rewrite IH.
Qed.

Lemma check_block_shape target main cm nc nt dels adds lines ds ads cpl :
  check_block target main cm nc nt dels adds lines = Some (ds, ads, cpl) ->
  ∃ cr dl al sw, lines = cr ++ map (CDel target) dl ++ map (CAdd target) al ++ sw
    ∧ ((cr = [] ∧ nc = false) ∨ (cr = [CCreate target cm] ∧ nc = true))
    ∧ list_to_set dl ⊆ dels ∧ list_to_set al ⊆ adds
    ∧ (sw = [] ∨ (sw = [CSwap main target] ∧ nt = true ∧ list_to_set al = adds ∧ list_to_set dl = dels)).
Proof.
  unfold check_block.
  set (crl := match lines with CCreate n m :: r => (Some (n, m), r) | _ => (None, lines) end).
  assert (lines = match crl.1 with Some (n, m) => [CCreate n m] | None => [] end ++ crl.2) as Hl.
  { subst crl. destruct lines as [|[] ?]; done. }
  destruct crl as [cr l1]. simpl in Hl.
  set (dl := take_dels l1). set (l2 := drop (length dl) l1).
  set (al := take_adds l2). set (l3 := drop (length al) l2).
  set (swl := match l3 with CSwap a b :: r => (Some (a, b), r) | _ => (None, l3) end).
  assert (l3 = match swl.1 with Some (a, b) => [CSwap a b] | None => [] end ++ swl.2) as Hl3.
  { subst swl. clearbody l3. destruct l3 as [|[] ?]; done. }
  destruct swl as [sw l4]. simpl in Hl3.
  pose proof (take_dels_split l1) as Hd. fold dl in Hd. fold l2 in Hd.
  pose proof (take_adds_split l2) as Ha. fold al in Ha. fold l3 in Ha.
  clearbody l3 l2 dl al.
  intros H. case_match; [|done]. clear H.
  repeat match goal with H : _ && _ = true |- _ => apply andb_true_iff in H as [? ?] end.
  repeat match goal with H : bool_decide _ = true |- _ => apply bool_decide_eq_true in H end.
  subst l4. rewrite app_nil_r in Hl3.
  rewrite (map_target CDel target) in Hd by done.
  rewrite (map_target CAdd target) in Ha by done.
  exists (match cr with Some (n, m) => [CCreate n m] | None => [] end), (dl.*2), (al.*2),
         (match sw with Some (a, b) => [CSwap a b] | None => [] end).
  split; [rewrite Hl; rewrite Hd at 1; rewrite Ha at 1; rewrite Hl3 at 1; done|].
  split.
  { destruct cr as [[n m]|].
    - right. repeat match goal with H : _ && _ = true |- _ => apply andb_true_iff in H as [? ?] end.
      repeat match goal with H : bool_decide _ = true |- _ => apply bool_decide_eq_true in H end. subst. done.
    - left. split; [done|]. by apply negb_true_iff. }
  split; [done|]. split; [done|].
  destruct sw as [[a b]|]; [right|by left].
  repeat match goal with H : _ && _ = true |- _ => apply andb_true_iff in H as [? ?] end.
  repeat match goal with H : bool_decide _ = true |- _ => apply bool_decide_eq_true in H end. subst. done.
Qed.

Definition WFd (s : st) : Prop := ∀ n, is_Some (s_des s !! n) → n.1 = 0.

Lemma wants_temp s i : WFd s -> wants s (temp_name i) = None.
Proof.
  intros H. unfold wants. destruct (s_des s !! temp_name i) eqn:E; [|done].
  assert ((temp_name i).1 = 0) by (apply H; eauto). done.
Qed.

Lemma wants_owned s n w : WFd s -> wants s n = Some w -> owned n = true.
Proof.
  intros H. unfold wants. destruct (s_des s !! n) eqn:E; [|done]. intros _.
  assert (n.1 = 0) as Hn by (apply H; eauto). unfold owned. rewrite Hn. done.
Qed.

Local Arguments exec : simpl never.

Lemma block_safe fx M lines wfail s s' e :
  write_updates fx M lines wfail s = Some (s', e) -> WFd s ->
  ∀ k i inj, events_safe (wants s) k (run_script k lines i inj).1.1.
Proof.
  unfold write_updates. intros H HW.
  destruct (s_des s !! M) as [dm|] eqn:Edes; [|done].
  destruct (s_trk s !! M) as [[md mp]|] eqn:Etrk; [|done].
  assert (wants s M = Some (norm_meta dm, md)) as HwM by (unfold wants; rewrite Edes, Etrk; done).
  assert (owned M = true) as HoM by (eapply wants_owned; done).
  set (need_t := match s_dp s !! M with Some d => negb (bool_decide (d = clean dm)) | None => false end) in *.
  set (need_c := match s_dp s !! M with Some _ => false | None => true end) in *.
  destruct (check_block _ _ _ _ _ _ _ lines) as [[[ds ads] cpl]|] eqn:Ecb; [|done].
  clear H. apply check_block_shape in Ecb as (cr & dl & al & sw & -> & Hcr & Hdl & Hal & Hsw).
  destruct need_t eqn:Ent.
  - (* temporary set + swap *)
    set (T := temp_name (next_free s)) in *.
    assert (wants s T = None) as HwT by (apply wants_temp; done).
    assert (owned T = true) as HoT by done.
    assert (dl = []) as ->.
    { destruct dl as [|x dl]; [done|]. exfalso. set_solver. }
    destruct Hcr as [[_ Hc]|[-> _]]; [by rewrite orb_true_r in Hc|].
    intros k i inj. simpl. case_bool_decide; [simpl; split; [apply step_safe_refl|done]|].
    destruct (exec k (CCreate T (norm_meta dm))) as [k0|] eqn:Ecr; [|simpl; split; [apply step_safe_refl|done]].
    assert (k0 = <[T:=(norm_meta dm, ∅)]> k) as ->.
    { unfold exec in Ecr. destruct (k !! T); by simplify_eq. }
    rewrite run_script_app.
    pose proof (run_adds_temp (wants s) T (norm_meta dm) al HwT HoT (<[T:=(norm_meta dm, ∅)]> k) ∅ (S i) inj) as Hadds.
    rewrite lookup_insert in Hadds. specialize (Hadds eq_refl).
    pose proof (run_script_last (<[T:=(norm_meta dm, ∅)]> k) (map (CAdd T) al) (S i) inj) as Hlast.
    destruct (run_script (<[T:=(norm_meta dm, ∅)]> k) (map (CAdd T) al) (S i) inj) as [[ev1 k1] f1]. simpl in Hadds, Hlast.
    destruct Hadds as [Hs1 Hk1]. subst k1. set (k1 := last_kernel (<[T:=(norm_meta dm, ∅)]> k) ev1) in *.
    assert (step_safe (wants s) k (<[T:=(norm_meta dm, ∅)]> k)) as Hcreate.
    { eapply (safe_unwanted _ k (CCreate T (norm_meta dm))); [done|].
      intros n Hn. apply elem_of_list_singleton in Hn as ->. done. }
    destruct f1; [simpl; done|].
    destruct Hsw as [->|(-> & _ & Hall & _)]; simpl.
    + rewrite app_nil_r. done.
    + case_bool_decide; [simpl; split; [done|]; apply events_safe_app; [done|]; simpl; split; [apply step_safe_refl|done]|].
      destruct (exec k1 (CSwap M T)) as [k2|] eqn:Esw; simpl.
      * split; [done|]. apply events_safe_app; [done|]. simpl. split; [|done].
        eapply (safe_swap _ k1 M T); try done.
        rewrite Hk1 by done. f_equal. f_equal. set_solver.
      * split; [done|]. apply events_safe_app; [done|]. simpl. split; [apply step_safe_refl|done].
  - (* in place: every line is safe by itself *)
    assert (dl_ok : ∀ x, x ∈ dl → x ∉ md) by set_solver.
    assert (al_ok : ∀ x, x ∈ al → x ∈ md) by set_solver.
    destruct Hsw as [->|(_ & ? & _)]; [|done]. rewrite app_nil_r.
    apply run_script_all_safe. intros c k k' Hc He.
    rewrite !elem_of_app in Hc. destruct Hc as [Hc|[Hc|Hc]].
    + destruct Hcr as [[-> _]|[-> _]]; [set_solver|]. apply elem_of_list_singleton in Hc as ->.
      eapply safe_create_main; done.
    + apply elem_of_list_fmap in Hc as (x & -> & Hx). eapply safe_del_main; try done. by apply dl_ok.
    + apply elem_of_list_fmap in Hc as (x & -> & Hx). eapply safe_add_main; try done. by apply al_ok.
Qed.

(* ---------------------------------------------------------------- what is wanted does not change during an apply *)
Definition same_wants (s s' : st) : Prop :=
  s_des s' = s_des s ∧ (∀ n, wants s' n = wants s n) ∧ s_all s' = s_all s ∧ s_filter s' = s_filter s
  ∧ (∀ n, is_Some (s_all s !! n) → fst <$> (s_trk s' !! n) = fst <$> (s_trk s !! n)).

Lemma same_wants_refl s : same_wants s s.
Proof. done. Qed.
Lemma same_wants_trans s1 s2 s3 : same_wants s1 s2 -> same_wants s2 s3 -> same_wants s1 s3.
Proof.
  intros (A1 & A2 & A3 & A4 & A5) (B1 & B2 & B3 & B4 & B5). split_and!; [congruence| |congruence|congruence|].
  - intros n. rewrite B2. apply A2.
  - intros n Hn. rewrite B5 by (by rewrite A3). by apply A5.
Qed.
Lemma sw_wants s s' : same_wants s s' -> ∀ n, wants s' n = wants s n.
Proof. intros H. apply H. Qed.

Lemma sw_rq_add_must n s : same_wants s (rq_add_must n s).
Proof. unfold rq_add_must. case_bool_decide; done. Qed.
Lemma sw_rq_add_bg n s : same_wants s (rq_add_bg n s).
Proof. unfold rq_add_bg. destruct (_ || _); done. Qed.
Lemma sw_rq_remove n s : same_wants s (rq_remove n s).
Proof. done. Qed.
Lemma sw_upd_dirty n s : same_wants s (upd_dirty n s).
Proof. unfold upd_dirty. repeat case_match; done. Qed.

Lemma sw_set_trk_keep M md X s mp :
  s_trk s !! M = Some (md, mp) -> same_wants s (set_trk <[M := (md, X)]> s).
Proof.
  intros H. split_and!; try done.
  - intros n. unfold wants. simpl.
    destruct (decide (n = M)) as [->|]; [rewrite lookup_insert, H; done|]. rewrite lookup_insert_ne by done. done.
  - intros n _. simpl. destruct (decide (n = M)) as [->|]; [by rewrite lookup_insert, H|by rewrite lookup_insert_ne].
Qed.

Lemma sw_foldr {A} (f : A → st → st) l s : (∀ a s, same_wants s (f a s)) -> same_wants s (foldr f s l).
Proof. intros H. induction l; simpl; [done|]. eapply same_wants_trans; [done|apply H]. Qed.

Lemma sw_by_fields s s' M md mp :
  s_trk s !! M = Some (md, mp) -> s_des s' = s_des s -> s_all s' = s_all s -> s_filter s' = s_filter s ->
  (∀ n, n ≠ M → s_trk s' !! n = s_trk s !! n) -> (∃ Y, s_trk s' !! M = Some (md, Y)) -> same_wants s s'.
Proof.
  intros H Hd Ha Hf Ho [Y HM]. split_and!; try done.
  - intros n. unfold wants. rewrite Hd.
    destruct (decide (n = M)) as [->|]; [rewrite H, HM; done|]. rewrite Ho by done. done.
  - intros n _. destruct (decide (n = M)) as [->|]; [by rewrite H, HM|by rewrite Ho].
Qed.

Lemma write_updates_wants fx M lines wf s s' e :
  write_updates fx M lines wf s = Some (s', e) -> same_wants s s'.
Proof.
  unfold write_updates. intros H.
  destruct (s_des s !! M) as [dm|] eqn:Edes; [|done].
  destruct (s_trk s !! M) as [[md mp]|] eqn:Etrk; [|done].
  destruct (check_block _ _ _ _ _ _ _ lines) as [[[ds ads] cpl]|]; [|done].
  set (nt := match s_dp s !! M with Some d => negb (bool_decide (d = clean dm)) | None => false end) in *.
  clearbody nt.
  assert (∀ t x, same_wants s x → same_wants s (rq_add_must t x)) as Hrq.
  { intros t x Hx. eapply same_wants_trans; [done|apply sw_rq_add_must]. }
  destruct wf.
  - destruct lines; [done|]. simplify_eq.
    destruct nt; simpl; [destruct fx; simpl; [apply Hrq|] |rewrite andb_false_r];
      (eapply sw_by_fields; [done|done|done|done| |]; simpl;
       [intros n Hn; rewrite ?lookup_insert_ne by done; done | eexists; apply lookup_insert]).
  - destruct cpl; [|done]. simplify_eq.
    destruct nt; simpl; repeat case_match; simpl;
      (eapply sw_by_fields; [done|done|done|done| |]; simpl;
       [intros n Hn; rewrite ?lookup_insert_ne by done; done | eexists; apply lookup_insert]).
Qed.

Lemma WFd_same s s' : s_des s' = s_des s -> WFd s -> WFd s'.
Proof. unfold WFd. intros ->. done. Qed.

Lemma blocks_safe fx bs wf s s' e :
  write_blocks fx bs wf s = Some (s', e) -> WFd s ->
  same_wants s s' ∧ ∀ k i inj, events_safe (wants s) k (run_script k (concat (bs.*2)) i inj).1.1.
Proof.
  revert s. induction bs as [|[M ls] bs IH]; intros s H HW.
  - simpl in *. simplify_eq. split; [done|]. intros; simpl; done.
  - rewrite fmap_cons. cbn [concat snd]. cbn [write_blocks] in H.
    destruct (write_updates fx M ls _ s) as [[s1 e1]|] eqn:Ew; [|done].
    pose proof (write_updates_wants _ _ _ _ _ _ _ Ew) as Hsw.
    pose proof (block_safe _ _ _ _ _ _ _ Ew HW) as Hb.
    assert (same_wants s s' ∧ ∀ k i inj, events_safe (wants s) k (run_script k (concat (bs.*2)) i inj).1.1) as [Hs Hr].
    { destruct e1.
      - destruct bs; [|done]. simplify_eq. split; [done|]. intros; simpl; done.
      - destruct (IH s1 H) as [Ha Hb']; [eapply WFd_same; [apply Hsw|done]|].
        split; [eapply same_wants_trans; done|].
        intros k i inj. eapply events_safe_ext; [|apply Hb']. by apply sw_wants. }
    split; [done|]. intros k i inj. rewrite run_script_app.
    specialize (Hb k i inj). pose proof (run_script_last k ls i inj) as Hl.
    destruct (run_script k ls i inj) as [[ev1 k1] f1]. cbn [fst snd] in *.
    destruct f1; [done|].
    specialize (Hr k1 (i + length ls)%nat inj).
    destruct (run_script k1 (concat bs.*2) _ inj) as [[ev2 k2] f2]. cbn [fst snd] in *.
    apply events_safe_app; [done|]. rewrite <- Hl. done.
Qed.

Lemma foldr_rq_add_must_sw l s : same_wants s (foldr rq_add_must s l).
Proof. apply sw_foldr. intros; apply sw_rq_add_must. Qed.

Lemma try_updates_safe fx a k s s' k' ev f :
  try_updates fx a k s = Some (s', k', ev, f) -> WFd s ->
  same_wants s s' ∧ events_safe (wants s) k ev ∧ k' = last_kernel k ev.
Proof.
  unfold try_updates. intros H HW. case_bool_decide.
  - repeat case_match; simplify_eq. done.
  - case_match; [|done].
    destruct (write_blocks fx (a_blocks a) (a_wfail a) s) as [[s1 werr]|] eqn:Ewb; [|done].
    case_bool_decide; [|done].
    destruct (blocks_safe _ _ _ _ _ _ Ewb HW) as [Hs Hr].
    specialize (Hr k O (a_inj a)). pose proof (run_script_last k (concat (a_blocks a).*2) O (a_inj a)) as Hl.
    destruct (run_script k (concat (a_blocks a).*2) 0 (a_inj a)) as [[ev1 k1] pf]. cbn [fst snd] in *.
    destruct (werr && negb pf); [done|].
    destruct (werr || pf); simplify_eq.
    + split; [|done]. eapply same_wants_trans; [done|apply foldr_rq_add_must_sw].
    + split; [|done]. eapply same_wants_trans; [done|done].
Qed.

(* ---------------------------------------------------------------- destroys *)
Definition WFp (s : st) : Prop := ∀ n, is_Some (s_dp s !! n) → owned n = true.

Lemma sw_del_trk n s : s_des s !! n = None -> s_all s !! n = None -> same_wants s (set_trk (delete n) s).
Proof.
  intros H Ha. split_and!; try done.
  - intros m. unfold wants. simpl.
    destruct (decide (m = n)) as [->|]; [rewrite H; done|]. rewrite lookup_delete_ne by done. done.
  - intros m Hm. simpl. destruct (decide (m = n)) as [->|]; [rewrite Ha in Hm; by destruct Hm|by rewrite lookup_delete_ne].
Qed.
Lemma sw_forget n s : s_des s !! n = None -> same_wants s (forget_set n s).
Proof.
  intros H. unfold forget_set. destruct (s_all s !! n) eqn:Ea; [|by apply sw_del_trk].
  destruct (s_trk s !! n) as [[d0 p0]|] eqn:E; [|done]. eapply sw_set_trk_keep; done.
Qed.
Lemma forget_fields n s :
  s_dp (forget_set n s) = s_dp s ∧ s_des (forget_set n s) = s_des s ∧ s_must (forget_set n s) = s_must s
  ∧ s_bg (forget_set n s) = s_bg s ∧ s_dirty (forget_set n s) = s_dirty s ∧ s_full (forget_set n s) = s_full s
  ∧ s_all (forget_set n s) = s_all s ∧ s_filter (forget_set n s) = s_filter s
  ∧ (∀ m, m ≠ n → s_trk (forget_set n s) !! m = s_trk s !! m)
  ∧ (∀ d p, s_trk (forget_set n s) !! n = Some (d, p) → p = ∅)
  ∧ (is_Some (s_all s !! n) → is_Some (s_trk s !! n) → is_Some (s_trk (forget_set n s) !! n)).
Proof.
  unfold forget_set. destruct (s_all s !! n) as [a|] eqn:Ea; [destruct (s_trk s !! n) as [[d0 p0]|] eqn:Et|]; simpl;
    split_and!; try done.
  - intros m Hm. by rewrite lookup_insert_ne.
  - intros d p. rewrite lookup_insert. by intros [= _ <-].
  - rewrite lookup_insert. eauto.
  - intros d p. by rewrite Et.
  - intros ? [? ?]. done.
  - intros m Hm. by rewrite lookup_delete_ne.
  - intros d p. by rewrite lookup_delete.
  - intros [? ?]. done.
Qed.

Lemma del_pass_safe t tries : ∀ done k s s' k' ev c,
  del_pass t tries done k s = Some (s', k', ev, c) -> WFp s ->
  same_wants s s' ∧ events_safe (wants s) k ev ∧ k' = last_kernel k ev ∧ WFp s'.
Proof.
  induction tries as [|[n inj] rest IH]; intros dn k s s' k' ev c H HW; simpl in H.
  - case_bool_decide; [|done]. simplify_eq. done.
  - destruct (bool_decide (n ∈ _) && _) eqn:Hel; [|done].
    apply andb_true_iff in Hel as [Hel _]. apply bool_decide_eq_true in Hel.
    apply elem_of_filter in Hel as [_ Hpd]. unfold pending_del in Hpd.
    apply elem_of_difference in Hpd as [Hdp Hdes].
    apply elem_of_dom in Hdp. apply not_elem_of_dom in Hdes.
    assert (owned n = true) as Ho by (by apply HW).
    assert (wants s n = None) as Hw by (unfold wants; rewrite Hdes; done).
    destruct (if inj then None else exec k (CDestroy n)) as [k1|] eqn:Ex.
    + destruct rest; [|done]. simplify_eq. destruct inj; [done|].
      split; [|split; [|split]].
      * destruct t; [done|]. eapply same_wants_trans; [|apply (sw_forget n (rq_remove n s)); done]. done.
      * simpl. split; [|done]. eapply safe_unwanted; [done|].
        intros m Hm. apply elem_of_list_singleton in Hm as ->. done.
      * done.
      * intros m Hm. apply HW. destruct t; simpl in Hm.
        -- destruct (decide (m = n)) as [->|]; [rewrite lookup_delete in Hm; by destruct Hm|].
           rewrite lookup_delete_ne in Hm by done. done.
        -- destruct (forget_fields n (rq_remove n s)) as (F1 & _). rewrite F1 in Hm. simpl in Hm.
           destruct (decide (m = n)) as [->|]; [rewrite lookup_delete in Hm; by destruct Hm|].
           rewrite lookup_delete_ne in Hm by done. done.
    + set (s1 := if t then s else match s_dp s !! n with Some (m, (_, lf)) => set_dp <[n:=(m, (true, lf))]> s | None => s end) in *.
      destruct (del_pass t rest ({[n]} ∪ dn) k s1) as [[[[s2 k2] ev2] c2]|] eqn:Er; [|done]. simplify_eq.
      assert (same_wants s s1) as Hs1 by (subst s1; repeat case_match; done).
      assert (WFp s1) as HW1.
      { subst s1. destruct t; [done|]. destruct (s_dp s !! n) as [[m [df lf]]|] eqn:E; [|done].
        intros m' Hm'. simpl in Hm'. destruct (decide (m' = n)) as [->|]; [done|].
        rewrite lookup_insert_ne in Hm' by done. by apply HW. }
      destruct (IH _ _ _ _ _ _ _ Er HW1) as (Ha & Hb & Hc & Hd).
      split; [eapply same_wants_trans; done|]. split; [|done].
      simpl. split; [apply step_safe_refl|]. eapply events_safe_ext; [|done]. by apply sw_wants.
Qed.

(* ---------------------------------------------------------------- well-formed IPSets states *)
(* the desired view is the needed part of everything that was added; every added set has a member tracker *)
Definition wfa (s : st) : Prop :=
  (∀ n m, s_des s !! n = Some m → s_all s !! n = Some m ∧ needed s n = true) ∧
  (∀ n m, s_all s !! n = Some m → needed s n = true → s_des s !! n = Some m) ∧
  (∀ n, is_Some (s_all s !! n) → n.1 = 0 ∧ is_Some (s_trk s !! n)).

Record WF (s : st) : Prop := mkWF {
  wf_des : ∀ n, is_Some (s_des s !! n) → n.1 = 0 ∧ is_Some (s_trk s !! n);
  wf_dp : ∀ n, is_Some (s_dp s !! n) → owned n = true;
  wf_q : ∀ n, n ∈ s_must s ∪ s_bg s → owned n = true;
  wf_all : wfa s
}.

(* wfa only looks at the desired view, the added sets, the filter and which trackers exist *)
Lemma wfa_keep s s' :
  s_des s' = s_des s -> s_all s' = s_all s -> s_filter s' = s_filter s ->
  (∀ n, is_Some (s_all s !! n) → is_Some (s_trk s !! n) → is_Some (s_trk s' !! n)) -> wfa s -> wfa s'.
Proof.
  intros E1 E2 E3 Ht (A & B & C). unfold wfa, needed. rewrite E1, E2, E3. split; [done|]. split; [done|].
  intros n Hn. destruct (C n Hn) as [? ?]. split; [done|]. by apply Ht.
Qed.

Ltac wfa_ins n H4 :=
  eapply wfa_keep; [..|exact H4]; try done; simpl;
  let x := fresh "x" in let Hx := fresh "Hx" in
  intros x _ Hx; destruct (decide (x = n)) as [->|]; [rewrite lookup_insert; eauto|by rewrite lookup_insert_ne].

Lemma WF_WFd s : WF s -> WFd s.
Proof. intros H n Hn. by apply H. Qed.
Lemma WF_WFp s : WF s -> WFp s.
Proof. intros H n Hn. by apply H. Qed.

Definition good (s s' : st) : Prop := WF s' ∧ same_wants s s'.
Lemma good_trans s1 s2 s3 : good s1 s2 -> good s2 s3 -> good s1 s3.
Proof. intros [_ H1] [H2 H3]. split; [done|]. eapply same_wants_trans; done. Qed.
Lemma good_refl s : WF s -> good s s.
Proof. done. Qed.

Lemma good_upd_dirty n s : WF s -> good s (upd_dirty n s).
Proof. intros [H1 H2 H3 H4]. split; [|apply sw_upd_dirty]. unfold upd_dirty. repeat case_match; split; done. Qed.

Lemma good_rq_remove n s : WF s -> good s (rq_remove n s).
Proof. intros [H1 H2 H3 H4]. split; [|done]. split; [done|done| |done]. simpl. intros m Hm. apply H3. set_solver. Qed.

Lemma good_rq_add_must n s : owned n = true -> WF s -> good s (rq_add_must n s).
Proof.
  intros Ho [H1 H2 H3 H4]. split; [|apply sw_rq_add_must]. unfold rq_add_must. case_bool_decide; [done|].
  split; [done|done| |done]. simpl. intros m Hm.
  destruct (decide (m = n)) as [->|]; [done|]. apply H3. set_solver.
Qed.

Lemma good_rq_add_bg n s : owned n = true -> WF s -> good s (rq_add_bg n s).
Proof.
  intros Ho [H1 H2 H3 H4]. split; [|apply sw_rq_add_bg]. unfold rq_add_bg. destruct (_ || _); [done|].
  split; [done|done| |done]. simpl. intros m Hm.
  destruct (decide (m = n)) as [->|]; [done|]. apply H3. set_solver.
Qed.

Lemma good_foldr {A} (f : A → st → st) (P : A → Prop) l s :
  (∀ a s, P a → WF s → good s (f a s)) -> Forall P l -> WF s -> good s (foldr f s l).
Proof.
  intros H Hl Hs. induction Hl as [|a l Ha Hl IH]; simpl; [done|].
  eapply good_trans; [apply IH|]. apply H; [done|]. apply IH.
Qed.

Lemma good_on_missing n s : WF s -> good s (on_missing n s).
Proof.
  intros Hs. unfold on_missing.
  set (s1 := set_dp (delete n) s).
  assert (good s s1) as G1.
  { split; [|done]. destruct Hs as [H1 H2 H3 H4]. split; [done| |done|done]. simpl. intros m Hm.
    apply H2. destruct (decide (m = n)) as [->|]; [rewrite lookup_delete in Hm; by destruct Hm|].
    by rewrite lookup_delete_ne in Hm. }
  set (s2 := match s_trk s1 !! n with Some (d, _) => if bool_decide (is_Some (s_all s1 !! n)) then set_trk <[n:=(d, ∅)]> s1 else set_trk (delete n) s1 | None => s1 end).
  assert (good s1 s2) as G2.
  { subst s2. destruct G1 as [[H1 H2 H3 H4] _]. destruct (s_trk s1 !! n) as [[d p0]|] eqn:E; [|done].
    case_bool_decide as Hd.
    - split; [|eapply sw_set_trk_keep; done]. split; [|done|done|].
      + simpl. intros m Hm. destruct (H1 m Hm) as [? ?]. split; [done|].
        destruct (decide (m = n)) as [->|]; [rewrite lookup_insert; eauto|]. by rewrite lookup_insert_ne.
      + eapply wfa_keep; [..|exact H4]; try done. simpl. intros m _ Hm.
        destruct (decide (m = n)) as [->|]; [rewrite lookup_insert; eauto|]. by rewrite lookup_insert_ne.
    - assert (s_all s1 !! n = None) as Ha by (by apply eq_None_not_Some).
      assert (s_des s1 !! n = None) as Hn.
      { destruct (s_des s1 !! n) eqn:Ed; [|done]. destruct H4 as (Q & _). destruct (Q n _ Ed). congruence. }
      split; [|by apply sw_del_trk]. split; [|done|done|].
      + simpl. intros m Hm. destruct (H1 m Hm) as [? ?]. split; [done|].
        destruct (decide (m = n)) as [->|]; [simpl in Hm, Hn; rewrite Hn in Hm; by destruct Hm|]. by rewrite lookup_delete_ne.
      + eapply wfa_keep; [..|exact H4]; try done. simpl. intros m Hm Ht.
        destruct (decide (m = n)) as [->|]; [simpl in Ha; rewrite Ha in Hm; by destruct Hm|]. by rewrite lookup_delete_ne. }
  eapply good_trans; [exact G1|]. eapply good_trans; [exact G2|].
  eapply good_trans; [apply good_upd_dirty; apply G2|]. apply good_rq_remove. apply good_upd_dirty. apply G2.
Qed.

Lemma good_resync_one k n s : owned n = true -> WF s -> good s (resync_one k n s).
Proof.
  intros Ho Hs. unfold resync_one. destruct (k !! n) as [[m ms]|]; [|by apply good_on_missing].
  set (s1 := set_dp <[n:=clean m]> s).
  assert (good s s1) as G1.
  { split; [|done]. destruct Hs as [H1 H2 H3 H4]. split; [done| |done|done]. simpl. intros x Hx.
    destruct (decide (x = n)) as [->|]; [done|]. rewrite lookup_insert_ne in Hx by done. by apply H2. }
  destruct (is_temp n); [done|].
  eapply good_trans; [exact G1|].
  set (d := match s_trk s1 !! n with Some (d, _) => d | None => ∅ end).
  assert (good s1 (set_trk <[n:=(d, ms)]> s1)) as G2.
  { destruct G1 as [[H1 H2 H3 H4] _]. split.
    - split; [|done|done|wfa_ins n H4]. simpl. intros x Hx. destruct (H1 x Hx) as [? ?]. split; [done|].
      destruct (decide (x = n)) as [->|]; [rewrite lookup_insert; eauto|]. by rewrite lookup_insert_ne.
    - subst d. destruct (s_trk s1 !! n) as [[d p]|] eqn:E; [eapply sw_set_trk_keep; done|].
      split_and!; try done.
      + intros x. unfold wants. simpl. simpl in E.
        destruct (decide (x = n)) as [->|]; [|by rewrite lookup_insert_ne].
        rewrite E. destruct (s_des s !! n) eqn:Ed; [|done].
        destruct (H1 n) as [_ [? Hq]]; [simpl; eauto|]. simpl in Hq. congruence.
      + intros x Hx. simpl. destruct (decide (x = n)) as [->|]; [|by rewrite lookup_insert_ne].
        destruct H4 as (_ & _ & W3). destruct (W3 n Hx) as [_ [? Hq]]. simpl in E, Hq. congruence. }
  eapply good_trans; [exact G2|]. apply good_upd_dirty. apply G2.
Qed.

Lemma good_sweep listed s : WF s -> good s (sweep listed s).
Proof.
  intros Hs. unfold sweep. eapply (good_foldr _ (λ _, True)); [|by apply Forall_true|done].
  intros; by apply good_on_missing.
Qed.

Lemma owned_names_owned k n : n ∈ owned_names k -> owned n = true.
Proof. unfold owned_names. intros H. apply elem_of_filter in H as [? _]. done. Qed.

Lemma good_begin_full k s : WF s -> good s (begin_full k s).
Proof.
  intros Hs. unfold begin_full.
  set (s1 := set_must _ _).
  assert (good s s1) as G1.
  { split; [|done]. destruct Hs as [H1 H2 H3 H4]. split; [done| | |done]; simpl.
    - intros n Hn. rewrite lookup_empty in Hn. by destruct Hn.
    - intros n Hn. apply (owned_names_owned k). set_solver. }
  eapply good_trans; [exact G1|]. destruct (good_sweep (owned_names k) s1) as [[H1 H2 H3 H5] H4]; [apply G1|].
  split; [|done]. split; done.
Qed.

Lemma good_begin_bg k s : WF s -> good s (begin_bg k s).
Proof.
  intros Hs. unfold begin_bg.
  pose proof (good_sweep (owned_names k) s Hs) as G1.
  assert (good (sweep (owned_names k) s) (foldr rq_add_bg (sweep (owned_names k) s) (elements (owned_names k)))) as G2.
  { eapply (good_foldr _ (λ n, owned n = true)); [| |apply G1].
    - intros; by apply good_rq_add_bg.
    - apply Forall_forall. intros n Hn. apply (owned_names_owned k). by apply elem_of_elements. }
  destruct (good_trans _ _ _ G1 G2) as [[H1 H2 H3] H4]. split; [|done]. split; done.
Qed.

Lemma good_drain_bg k names : ∀ budget s s' b',
  drain_bg k names budget s = Some (s', b') -> WF s -> good s s'.
Proof.
  induction names as [|n rest IH]; intros budget s s' b' H Hs; simpl in H.
  - destruct (_ || _); by simplify_eq.
  - case_bool_decide; [done|]. case_bool_decide as Hin; [|done].
    assert (owned n = true) as Ho by (apply (wf_q _ Hs); set_solver).
    set (s1 := set_bg (.∖ {[n]}) s) in *.
    assert (good s s1) as G1.
    { split; [|done]. destruct Hs as [H1 H2 H3 H4]. split; [done|done| |done]. simpl. intros m Hm. apply H3. set_solver. }
    eapply good_trans; [exact G1|].
    eapply good_trans; [apply good_resync_one; [done|apply G1]|].
    eapply IH; [done|]. apply good_resync_one; [done|apply G1].
Qed.

Lemma good_foldl_resync k l : ∀ s, Forall (λ n, owned n = true) l -> WF s ->
  good s (foldl (λ s n, resync_one k n s) s l).
Proof.
  induction l as [|n l IH]; intros s Hl Hs; simpl; [done|].
  inversion Hl; subst. eapply good_trans; [apply good_resync_one; done|].
  apply IH; [done|]. by apply good_resync_one.
Qed.

Lemma good_drain k names budget s s' b' :
  drain k names budget s = Some (s', b') -> WF s -> good s s'.
Proof.
  unfold drain. intros H Hs. destruct (_ && _) eqn:Hc; [|done].
  apply andb_true_iff in Hc as [_ Hc]. apply bool_decide_eq_true in Hc.
  set (mustn := take (size (s_must s)) names) in *.
  set (s0 := set_must (λ _, ∅) s) in *.
  assert (good s s0) as G0.
  { split; [|done]. destruct Hs as [H1 H2 H3 H4]. split; [done|done| |done]. simpl. intros m Hm. apply H3. set_solver. }
  assert (Forall (λ n, owned n = true) mustn) as Hown.
  { apply Forall_forall. intros n Hn. apply (wf_q _ Hs). rewrite <- Hc. set_solver. }
  pose proof (good_foldl_resync k mustn s0 Hown (proj1 G0)) as G1.
  set (s1 := foldl _ s0 mustn) in *.
  eapply good_trans; [exact G0|]. eapply good_trans; [exact G1|].
  destruct (s_full s1).
  - case_bool_decide; [|done]. simplify_eq. apply good_refl, G1.
  - eapply good_drain_bg; [done|apply G1].
Qed.

Lemma good_try_resync k names budget s s' b' :
  try_resync k names budget s = Some (s', b') -> WF s -> good s s'.
Proof.
  unfold try_resync. intros H Hs.
  set (s1 := if s_full s then begin_full k s else if s_bgreq s then begin_bg k s else s) in *.
  assert (good s s1) as G1.
  { subst s1. destruct (s_full s); [by apply good_begin_full|]. destruct (s_bgreq s); [by apply good_begin_bg|done]. }
  eapply good_trans; [exact G1|]. eapply good_drain; [done|apply G1].
Qed.

Lemma WF_intro s s' :
  WF s -> s_des s' = s_des s -> s_all s' = s_all s -> s_filter s' = s_filter s ->
  (∀ n, is_Some (s_trk s !! n) → is_Some (s_des s !! n) ∨ is_Some (s_all s !! n) → is_Some (s_trk s' !! n)) ->
  (∀ n, is_Some (s_dp s' !! n) → owned n = true) ->
  (∀ n, n ∈ s_must s' ∪ s_bg s' → owned n = true) -> WF s'.
Proof.
  intros [H1 H2 H3 H4] Hd Ha Hf Ht Hp Hq. split; [|done|done|].
  - intros n Hn. rewrite Hd in Hn. destruct (H1 n Hn). split; [done|]. apply Ht; auto.
  - eapply wfa_keep; [done|done|done| |exact H4]. intros n Hn Hn'. apply Ht; auto.
Qed.

Lemma del_pass_aux t tries : ∀ done k s s' k' ev c,
  del_pass t tries done k s = Some (s', k', ev, c) ->
  (∀ n, is_Some (s_trk s !! n) → is_Some (s_des s !! n) ∨ is_Some (s_all s !! n) → is_Some (s_trk s' !! n))
  ∧ s_must s' ∪ s_bg s' ⊆ s_must s ∪ s_bg s ∧ s_all s' = s_all s ∧ s_filter s' = s_filter s.
Proof.
  induction tries as [|[n inj] rest IH]; intros dn k s s' k' ev c H; simpl in H.
  - case_bool_decide; [|done]. simplify_eq. done.
  - destruct (bool_decide (n ∈ _) && _) eqn:Hel; [|done].
    apply andb_true_iff in Hel as [Hel _]. apply bool_decide_eq_true in Hel.
    apply elem_of_filter in Hel as [_ Hpd]. unfold pending_del in Hpd.
    apply elem_of_difference in Hpd as [_ Hdes]. apply not_elem_of_dom in Hdes.
    destruct (if inj then None else exec k (CDestroy n)) as [k1|] eqn:Ex.
    + destruct rest; [|done]. simplify_eq. destruct t; simpl; [split_and!; try done; set_solver|].
      destruct (forget_fields n (rq_remove n s)) as (F1 & F2 & F3 & F4 & F5 & F6 & F7 & F8 & F9 & F10 & F11).
      rewrite F3, F4, F7, F8. simpl. split_and!; try done; [|set_solver].
      intros m Hm Hd. destruct (decide (m = n)) as [->|]; [|by rewrite F9].
      destruct Hd as [Hd|Hd]; [rewrite Hdes in Hd; by destruct Hd|]. by apply F11.
    + set (s1 := if t then s else match s_dp s !! n with Some (m, (_, lf)) => set_dp <[n:=(m, (true, lf))]> s | None => s end) in *.
      destruct (del_pass t rest ({[n]} ∪ dn) k s1) as [[[[s2 k2] ev2] c2]|] eqn:Er; [|done]. simplify_eq.
      destruct (IH _ _ _ _ _ _ _ Er) as (Ha & Hb & Hc & Hd).
      assert (s_trk s1 = s_trk s ∧ s_des s1 = s_des s ∧ s_must s1 = s_must s ∧ s_bg s1 = s_bg s
              ∧ s_all s1 = s_all s ∧ s_filter s1 = s_filter s) as (E1 & E2 & E3 & E4 & E5 & E6)
        by (subst s1; repeat case_match; done).
      rewrite E1, E2, E3, E4, E5, E6 in *. done.
Qed.

Lemma del_pass_good t tries dn k s s' k' ev c :
  del_pass t tries dn k s = Some (s', k', ev, c) -> WF s ->
  good s s' ∧ events_safe (wants s) k ev ∧ k' = last_kernel k ev.
Proof.
  intros H Hs. destruct (del_pass_safe _ _ _ _ _ _ _ _ _ H (WF_WFp _ Hs)) as (Ha & Hb & Hc & Hd).
  destruct (del_pass_aux _ _ _ _ _ _ _ _ _ H) as (He & Hf & Hg & Hh).
  split; [|done]. split; [|done]. eapply WF_intro; [done|apply Ha|done|done|done|done|].
  intros n Hn. apply (wf_q _ Hs). set_solver.
Qed.

Lemma write_updates_good fx M lines wf s s' e :
  write_updates fx M lines wf s = Some (s', e) -> WF s -> WF s' ∧ is_Some (s_des s !! M).
Proof.
  intros H Hs. pose proof (write_updates_wants _ _ _ _ _ _ _ H) as [Hd _].
  unfold write_updates in H.
  destruct (s_des s !! M) as [dm|] eqn:Edes; [|done].
  destruct (s_trk s !! M) as [[md mp]|] eqn:Etrk; [|done].
  destruct (check_block _ _ _ _ _ _ _ lines) as [[[ds ads] cpl]|]; [|done].
  assert (owned M = true) as HoM.
  { destruct (wf_des _ Hs M) as [E _]; [eauto|]. unfold owned. by rewrite E. }
  split; [|eauto].
  set (nt := match s_dp s !! M with Some d => negb (bool_decide (d = clean dm)) | None => false end) in *.
  clearbody nt.
  assert (∀ T X, owned T = true → WF X → WF (rq_add_must T X)) as Hrq.
  { intros T X HT HX. by apply good_rq_add_must. }
  assert (∀ X, s_des X = s_des s → (∀ n, n ≠ M → s_trk X !! n = s_trk s !! n) → is_Some (s_trk X !! M) →
          (∀ n, is_Some (s_dp X !! n) → n = M ∨ n = temp_name (next_free s) ∨ is_Some (s_dp s !! n)) →
          s_must X = s_must s → s_bg X = s_bg s → s_all X = s_all s → s_filter X = s_filter s → WF X) as Hmk.
  { intros X E1 E2 E3 E4 E5 E6 E7 E8. eapply WF_intro; [done|done|done|done| | |].
    - intros n Hn _. destruct (decide (n = M)) as [->|]; [done|]. by rewrite E2.
    - intros n Hn. destruct (E4 n Hn) as [->|[->|?]]; [done|done|]. by apply (wf_dp _ Hs).
    - rewrite E5, E6. apply (wf_q _ Hs). }
  destruct wf.
  - destruct lines; [done|]. simplify_eq.
    destruct nt; simpl; [destruct fx; simpl; [apply Hrq; [done|]|] | rewrite andb_false_r];
      (apply Hmk; simpl; [done| intros n Hn; rewrite ?lookup_insert_ne by done; done | rewrite lookup_insert; eauto | eauto | done | done | done | done]).
  - destruct cpl; [|done]. simplify_eq.
    destruct nt; simpl; repeat case_match; simpl;
      (apply Hmk; simpl; [done| intros n Hn; rewrite ?lookup_insert_ne by done; done | rewrite lookup_insert; eauto | | done | done | done | done]);
      intros n Hn; 
      repeat (match type of Hn with is_Some (<[?a:=_]> _ !! n) => destruct (decide (n = a)) as [->|]; [eauto|rewrite lookup_insert_ne in Hn by done] end); eauto.
Qed.

Lemma write_blocks_good fx bs wf : ∀ s s' e,
  write_blocks fx bs wf s = Some (s', e) -> WF s -> WF s' ∧ Forall (λ M, is_Some (s_des s !! M)) (bs.*1).
Proof.
  induction bs as [|[M ls] bs IH]; intros s s' e H Hs.
  - simpl in *. simplify_eq. done.
  - rewrite fmap_cons. cbn [write_blocks] in H.
    destruct (write_updates fx M ls _ s) as [[s1 e1]|] eqn:Ew; [|done].
    destruct (write_updates_good _ _ _ _ _ _ _ Ew Hs) as [H1 H2].
    pose proof (write_updates_wants _ _ _ _ _ _ _ Ew) as [Hd _].
    destruct e1.
    + destruct bs; [|done]. simplify_eq. split; [done|]. constructor; [done|constructor].
    + destruct (IH _ _ _ H H1) as [H3 H4]. split; [done|]. constructor; [done|].
      rewrite Hd in H4. done.
Qed.

Lemma try_updates_good fx a k s s' k' ev f :
  try_updates fx a k s = Some (s', k', ev, f) -> WF s ->
  good s s' ∧ events_safe (wants s) k ev ∧ k' = last_kernel k ev.
Proof.
  intros H Hs. destruct (try_updates_safe _ _ _ _ _ _ _ _ H (WF_WFd _ Hs)) as (Ha & Hb & Hc).
  split; [|done]. split; [|done].
  unfold try_updates in H. case_bool_decide.
  - repeat case_match; simplify_eq. done.
  - case_match; [|done].
    destruct (write_blocks fx (a_blocks a) (a_wfail a) s) as [[s1 werr]|] eqn:Ewb; [|done].
    case_bool_decide; [|done].
    destruct (write_blocks_good _ _ _ _ _ _ Ewb Hs) as [Hw1 Hw2].
    destruct (run_script k (concat (a_blocks a).*2) 0 (a_inj a)) as [[ev1 k1] pf].
    destruct (werr && negb pf); [done|].
    destruct (werr || pf); simplify_eq.
    + eapply (good_foldr _ (λ n, owned n = true)); [| |exact Hw1].
      * intros; by apply good_rq_add_must.
      * eapply Forall_impl; [exact Hw2|]. intros M HM. simpl in HM.
        destruct (wf_des _ Hs M HM) as [E _]. unfold owned. by rewrite E.
    + destruct Hw1 as [X1 X2 X3 X4]. split; done.
Qed.

(* ---------------------------------------------------------------- the whole ApplyUpdates / ApplyDeletions *)
Lemma good_set_full b s : WF s -> good s (set_full b s).
Proof. intros [H1 H2 H3 H4]. split; [|done]. split; done. Qed.
Lemma good_set_panic b s : WF s -> good s (set_panic b s).
Proof. intros [H1 H2 H3 H4]. split; [|done]. split; done. Qed.

Lemma events_safe_good s s' k e : good s s' -> events_safe (wants s') k e -> events_safe (wants s) k e.
Proof. intros [_ H]. apply events_safe_ext. by apply sw_wants. Qed.

Lemma apply_updates_loop_safe fx obs : ∀ att budget k s s' k' ev,
  apply_updates_loop fx obs att budget k s = Some (s', k', ev) -> WF s ->
  good s s' ∧ events_safe (wants s) k ev ∧ k' = last_kernel k ev.
Proof.
  induction obs as [|a rest IH]; intros att budget k s s' k' ev H Hs; [done|].
  cbn [apply_updates_loop] in H.
  destruct (if s_full s || s_bgreq s || negb (rq_empty s) then try_resync k (a_resync a) budget s
             else match a_resync a with [] => Some (s, budget) | _ => None end) as [[s1 b1]|] eqn:E1; [|done].
  assert (good s s1) as G1.
  { revert E1. destruct (_ || _); intros E1; [eapply good_try_resync; [exact E1|exact Hs]|]. destruct (a_resync a); by simplify_eq. }
  destruct (del_pass true (a_tmpdel a) ∅ k s1) as [[[[s2 k2] ev2] c2]|] eqn:E2; [|done].
  destruct (del_pass_good _ _ _ _ _ _ _ _ _ E2 (proj1 G1)) as (G2 & S2 & K2).
  destruct (try_updates fx a k2 s2) as [[[[s3 k3] ev3] f3]|] eqn:E3; [|done].
  destruct (try_updates_good _ _ _ _ _ _ _ _ E3 (proj1 G2)) as (G3 & S3 & K3).
  assert (good s s3) as G03 by (eapply good_trans; [exact G1|]; eapply good_trans; [exact G2|exact G3]).
  assert (events_safe (wants s) k (ev2 ++ ev3)) as S23.
  { apply events_safe_app; [eapply events_safe_good; [exact G1|exact S2]|]. rewrite <- K2.
    eapply events_safe_good; [eapply good_trans; [exact G1|exact G2]|exact S3]. }
  assert (k3 = last_kernel k (ev2 ++ ev3)) as K23 by (rewrite last_kernel_app, <- K2; done).
  destruct f3.
  - set (s4 := if Nat.leb (MaxRetryAttempt / 2) att then set_full true s3 else s3) in *.
    assert (good s s4) as G4.
    { subst s4. destruct (Nat.leb _ _); [|done]. eapply good_trans; [exact G03|]. apply good_set_full, G03. }
    destruct (Nat.eqb (S att) MaxRetryAttempt).
    + destruct rest; [|done]. simplify_eq. split; [|done].
      eapply good_trans; [exact G4|]. apply good_set_panic, G4.
    + destruct (apply_updates_loop fx rest (S att) b1 k3 s4) as [[[s5 k5] ev5]|] eqn:E5; [|done]. simplify_eq.
      destruct (IH _ _ _ _ _ _ _ E5 (proj1 G4)) as (G5 & S5 & K5).
      split; [eapply good_trans; [exact G4|exact G5]|].
      rewrite app_assoc. split.
      * apply events_safe_app; [done|]. rewrite <- K23. eapply events_safe_good; [exact G4|exact S5].
      * rewrite last_kernel_app, <- K23. done.
  - destruct rest; [|done]. simplify_eq. split; [|done].
    eapply good_trans; [exact G03|]. apply good_set_full, G03.
Qed.

Lemma apply_deletions_safe tries k s s' k' ev rs :
  apply_deletions tries k s = Some (s', k', ev, rs) -> WF s ->
  good s s' ∧ events_safe (wants s) k ev ∧ k' = last_kernel k ev.
Proof.
  unfold apply_deletions. intros H Hs.
  destruct (del_pass false tries ∅ k s) as [[[[s2 k2] ev2] c2]|] eqn:E2; [|done]. simplify_eq.
  by eapply del_pass_good.
Qed.

(* ---------------------------------------------------------------- link to the boolean oracle of Spec.v *)
Lemma set_safe_bool D kp kn n :
  owned n = true -> set_safe (want_of D n) (kp !! n) (kn !! n) -> set_step_ok D kp kn n = true.
Proof.
  intros Ho H. unfold set_step_ok. rewrite Ho. simpl.
  destruct (want_of D n) as [w|]; [|done]. simpl in H.
  destruct (kp !! n) as [o|], (kn !! n) as [v|]; try done.
  - destruct H as [->|[->|(H1 & H2 & H3)]].
    + rewrite bool_decide_eq_true_2 by done. done.
    + rewrite (bool_decide_eq_true_2 (w = w)) by done. by rewrite orb_true_r.
    + unfold toward. rewrite (bool_decide_eq_true_2 (v.1 = o.1)) by done.
      rewrite (bool_decide_eq_true_2 (v.2 ∖ o.2 ⊆ w.2)) by done.
      rewrite (bool_decide_eq_true_2 (o.2 ∖ v.2 ## w.2)) by done. by rewrite !orb_true_r.
  - subst. by rewrite bool_decide_eq_true_2.
Qed.

Lemma step_safe_bool D kp kn : step_safe (want_of D) kp kn -> step_ok D kp kn = true.
Proof.
  intros H. unfold step_ok. apply forallb_forall. intros n _.
  destruct (H n) as [H1 H2]. destruct (owned n) eqn:Ho.
  - apply set_safe_bool; [done|]. by apply H2.
  - unfold set_step_ok. rewrite Ho. simpl. apply bool_decide_eq_true_2. by apply H1.
Qed.

(* the model's commands pass the oracle's per-command check *)
Fixpoint cmds_ok (D : gmap N (meta * gset member)) (k : kernel) (ev : list event) : bool :=
  match ev with
  | [] => true
  | (_, _, k') :: r => step_ok D k k' && cmds_ok D k' r
  end.

Lemma events_safe_bool D k ev : events_safe (want_of D) k ev -> cmds_ok D k ev = true.
Proof.
  revert k. induction ev as [|[[c ok] k'] ev IH]; intros k; simpl; [done|].
  intros [H1 H2]. rewrite step_safe_bool by done. by apply IH.
Qed.

(* ---------------------------------------------------------------- API calls *)
(* A = every set asked for (id -> metadata, members), F = the filter *)
Definition relA (A : gmap N (meta * gset member)) (F : option (gset name)) (s : st) : Prop :=
  s_filter s = F ∧ (∀ id, s_all s !! main_name id = fst <$> A !! id)
  ∧ (∀ id v, A !! id = Some v → ∃ p, s_trk s !! main_name id = Some (v.2, p)).

Lemma wants_non_main s n : WF s -> n.1 ≠ 0 -> wants s n = None.
Proof.
  intros Hs Hn. unfold wants. destruct (s_des s !! n) eqn:E; [|done].
  destruct (wf_des _ Hs n); [eauto|]. done.
Qed.

Lemma want_of_main D id : want_of D (main_name id) = (λ v, (norm_meta v.1, v.2)) <$> D !! id.
Proof. done. Qed.
Lemma want_of_non_main D n : n.1 ≠ 0 -> want_of D n = None.
Proof. intros H. unfold want_of. destruct (n.1 =? 0) eqn:E; [|done]. apply N.eqb_eq in E. done. Qed.

Lemma name_cases (n : name) : (∃ id, n = main_name id) ∨ n.1 ≠ 0.
Proof. destruct n as [c q]. destruct (decide (c = 0)) as [->|]; [left; by exists q|right; done]. Qed.

Lemma WF_upd_dirty n s : WF s -> WF (upd_dirty n s).
Proof. intros H. apply good_upd_dirty, H. Qed.
Lemma wants_upd_dirty n s m : wants (upd_dirty n s) m = wants s m.
Proof. apply sw_upd_dirty. Qed.
Lemma fields_upd_dirty n s :
  s_des (upd_dirty n s) = s_des s ∧ s_dp (upd_dirty n s) = s_dp s ∧ s_trk (upd_dirty n s) = s_trk s
  ∧ s_must (upd_dirty n s) = s_must s ∧ s_bg (upd_dirty n s) = s_bg s ∧ s_all (upd_dirty n s) = s_all s
  ∧ s_filter (upd_dirty n s) = s_filter s ∧ s_full (upd_dirty n s) = s_full s.
Proof. unfold upd_dirty. destruct (s_trk s !! n) as [[d p0]|]; [destruct (_ && _)|]; done. Qed.
Lemma relA_upd_dirty A F n s : relA A F s -> relA A F (upd_dirty n s).
Proof.
  destruct (fields_upd_dirty n s) as (_ & _ & E3 & _ & _ & E6 & E7 & _). unfold relA. by rewrite E3, E6, E7.
Qed.

(* what IPSets wants = the needed part of what was asked for *)
Lemma relA_wants A F s : WF s -> relA A F s -> ∀ n, wants s n = want_of (eff A F) n.
Proof.
  intros Hs (Hf & Ha & Ht) n. destruct (wf_all _ Hs) as (W1 & W2 & W3).
  destruct (name_cases n) as [[i ->]|Hn]; [|rewrite want_of_non_main by done; by apply wants_non_main].
  rewrite want_of_main. unfold wants, eff.
  destruct (A !! i) as [v|] eqn:EA.
  - specialize (Ha i). rewrite EA in Ha. simpl in Ha. destruct (Ht i v EA) as [p0 Hp].
    destruct (needed s (main_name i)) eqn:En.
    + rewrite (W2 _ _ Ha En), Hp.
      rewrite (map_filter_lookup_Some_2 _ A i v); [done|done|]. simpl. unfold needed in En. by rewrite <- Hf.
    + destruct (s_des s !! main_name i) eqn:Ed; [destruct (W1 _ _ Ed); congruence|].
      assert (filter (λ kv, needed_f F (main_name kv.1) = true) A !! i = None) as ->; [|done].
      apply map_filter_lookup_None. right. intros x Hx. simpl. rewrite EA in Hx. injection Hx as <-.
      unfold needed in En. rewrite Hf in En. by rewrite En.
  - specialize (Ha i). rewrite EA in Ha. simpl in Ha.
    destruct (s_des s !! main_name i) eqn:Ed; [destruct (W1 _ _ Ed); congruence|].
    assert (filter (λ kv, needed_f F (main_name kv.1) = true) A !! i = None) as ->; [|done].
    apply map_filter_lookup_None. by left.
Qed.

Lemma main_name_inj i j : main_name i = main_name j -> i = j.
Proof. unfold main_name. congruence. Qed.

Lemma api_add_or_replace A F s id m ms :
  WF s -> relA A F s -> WF (add_or_replace id m ms s) ∧ relA (<[id := (m, ms)]> A) F (add_or_replace id m ms s).
Proof.
  intros Hs (Hf & Ha & Ht). unfold add_or_replace. set (n := main_name id).
  set (p := match s_trk s !! n with Some (_, p) => p | None => ∅ end).
  set (s2 := if needed s n then set_des <[n:=m]> (set_all <[n:=m]> s) else set_all <[n:=m]> s).
  assert (s_all s2 = <[n:=m]> (s_all s) ∧ s_filter s2 = s_filter s ∧ s_trk s2 = s_trk s ∧ s_dp s2 = s_dp s
          ∧ s_must s2 = s_must s ∧ s_bg s2 = s_bg s
          ∧ s_des s2 = if needed s n then <[n:=m]> (s_des s) else s_des s) as (E1 & E2 & E3 & E4 & E5 & E6 & E7)
    by (subst s2; destruct (needed s n); done).
  set (s3 := set_trk <[n:=(ms, p)]> s2).
  destruct Hs as [H1 H2 H3 (W1 & W2 & W3)].
  assert (WF s3) as W.
  { split.
    - simpl. rewrite E7, E3. intros x Hx.
      destruct (decide (x = n)) as [->|]; [rewrite lookup_insert; split; [done|eauto]|].
      rewrite lookup_insert_ne by done. apply H1. destruct (needed s n); [by rewrite lookup_insert_ne in Hx|done].
    - simpl. by rewrite E4.
    - simpl. by rewrite E5, E6.
    - unfold wfa, needed in *. simpl. rewrite E1, E2, E3, E7. split_and!.
      + intros x mx Hx. destruct (decide (x = n)) as [->|].
        * rewrite lookup_insert. destruct (needed_f (s_filter s) n) eqn:En; [rewrite lookup_insert in Hx; by simplify_eq|].
          destruct (W1 _ _ Hx). congruence.
        * rewrite lookup_insert_ne by done. apply W1. destruct (needed_f (s_filter s) n); [by rewrite lookup_insert_ne in Hx|done].
      + intros x mx Hx Hn. destruct (decide (x = n)) as [->|].
        * rewrite lookup_insert in Hx. simplify_eq. rewrite Hn. by rewrite lookup_insert.
        * rewrite lookup_insert_ne in Hx by done. specialize (W2 _ _ Hx Hn).
          destruct (needed_f (s_filter s) n); [by rewrite lookup_insert_ne|done].
      + intros x Hx. destruct (decide (x = n)) as [->|]; [rewrite lookup_insert; split; [done|eauto]|].
        rewrite lookup_insert_ne in Hx by done. rewrite lookup_insert_ne by done. by apply W3. }
  split; [by apply WF_upd_dirty|]. apply relA_upd_dirty. split_and!.
  - simpl. by rewrite E2.
  - intros i. simpl. rewrite E1. destruct (decide (i = id)) as [->|Hne].
    + by rewrite !lookup_insert.
    + assert (main_name i ≠ n) by (intros E; by apply main_name_inj in E). by rewrite !lookup_insert_ne.
  - intros i v Hv. simpl. rewrite E3. destruct (decide (i = id)) as [->|Hne].
    + rewrite lookup_insert in Hv. simplify_eq. rewrite lookup_insert. eauto.
    + assert (main_name i ≠ n) by (intros E; by apply main_name_inj in E).
      rewrite lookup_insert_ne in Hv by done. rewrite lookup_insert_ne by done. by apply Ht.
Qed.

Lemma api_remove A F s id :
  WF s -> relA A F s -> WF (remove_ipset id s) ∧ relA (delete id A) F (remove_ipset id s).
Proof.
  intros Hs (Hf & Ha & Ht). unfold remove_ipset. set (n := main_name id).
  set (s1 := set_all (delete n) (set_des (delete n) s)).
  destruct Hs as [H1 H2 H3 (W1 & W2 & W3)].
  assert (∀ X, s_des X = delete n (s_des s) → s_all X = delete n (s_all s) → s_filter X = s_filter s →
          (∀ x, x ≠ n → s_trk X !! x = s_trk s !! x) →
          s_dp X = s_dp s → s_must X = s_must s → s_bg X = s_bg s → WF X ∧ relA (delete id A) F X) as Hmk.
  { intros X E1 E2 E3 E4 E5 E6 E7. split; [split|].
    - rewrite E1. intros x Hx. destruct (decide (x = n)) as [->|]; [rewrite lookup_delete in Hx; by destruct Hx|].
      rewrite lookup_delete_ne in Hx by done. rewrite E4 by done. by apply H1.
    - by rewrite E5.
    - by rewrite E6, E7.
    - unfold wfa, needed in *. rewrite E1, E2, E3. split_and!.
      + intros x mx Hx. destruct (decide (x = n)) as [->|]; [by rewrite lookup_delete in Hx|].
        rewrite lookup_delete_ne in Hx by done. rewrite lookup_delete_ne by done. by apply W1.
      + intros x mx Hx Hn. destruct (decide (x = n)) as [->|]; [by rewrite lookup_delete in Hx|].
        rewrite lookup_delete_ne in Hx by done. rewrite lookup_delete_ne by done. by apply W2.
      + intros x Hx. destruct (decide (x = n)) as [->|]; [rewrite lookup_delete in Hx; by destruct Hx|].
        rewrite lookup_delete_ne in Hx by done. rewrite E4 by done. by apply W3.
    - split_and!.
      + by rewrite E3.
      + intros i. rewrite E2. destruct (decide (i = id)) as [->|Hne]; [by rewrite !lookup_delete|].
        assert (main_name i ≠ n) by (intros E; by apply main_name_inj in E). by rewrite !lookup_delete_ne.
      + intros i v Hv. destruct (decide (i = id)) as [->|Hne]; [by rewrite lookup_delete in Hv|].
        assert (main_name i ≠ n) by (intros E; by apply main_name_inj in E).
        rewrite lookup_delete_ne in Hv by done. rewrite E4 by done. by apply Ht. }
  destruct (s_dp s !! n).
  - destruct (s_trk s !! n) as [[d p0]|] eqn:Et.
    + destruct (Hmk (set_trk <[n:=(∅, p0)]> s1)) as [A1 A2]; simpl; try done.
      { intros x Hx. by rewrite lookup_insert_ne. }
      split; [by apply WF_upd_dirty|by apply relA_upd_dirty].
    + apply Hmk; simpl; done.
  - destruct (Hmk (set_trk (delete n) s1)) as [A1 A2]; simpl; try done.
    { intros x Hx. by rewrite lookup_delete_ne. }
    split; [by apply WF_upd_dirty|by apply relA_upd_dirty].
Qed.

Lemma api_change A F s add id ms :
  WF s -> relA A F s ->
  WF (change_members add id ms s) ∧
  relA (alter (λ v, (v.1, if add then v.2 ∪ ms else v.2 ∖ ms)) id A) F (change_members add id ms s).
Proof.
  intros Hs (Hf & Ha & Ht). unfold change_members. set (n := main_name id).
  assert (A !! id = None → alter (λ v, (v.1, if add then v.2 ∪ ms else v.2 ∖ ms)) id A = A) as Hnone.
  { intros E. apply map_eq. intros i. destruct (decide (i = id)) as [->|]; [by rewrite lookup_alter, E|by rewrite lookup_alter_ne]. }
  assert (∀ X, WF X → s_filter X = s_filter s → s_all X = s_all s → s_trk X = s_trk s → A !! id = None →
          WF X ∧ relA (alter (λ v, (v.1, if add then v.2 ∪ ms else v.2 ∖ ms)) id A) F X) as Hsame.
  { intros X WX E1 E2 E3 EA. split; [done|]. rewrite Hnone by done. unfold relA. by rewrite E1, E2, E3. }
  pose proof (Ha id) as Hid. change (main_name id) with n in Hid.
  destruct (s_all s !! n) as [am|] eqn:Eall.
  - destruct (A !! id) as [v|] eqn:EA; [|simpl in Hid; done]. simpl in Hid.
    case_bool_decide as Hms.
    + split; [done|]. subst ms.
      replace (alter _ id A) with A; [done|]. apply map_eq. intros i.
      destruct (decide (i = id)) as [->|]; [|by rewrite lookup_alter_ne].
      rewrite lookup_alter, EA. destruct v as [a b]. simpl. f_equal. f_equal. destruct add; set_solver.
    + destruct (Ht id v EA) as [p0 Hp]. fold n in Hp. rewrite Hp.
      set (d' := if add then v.2 ∪ ms else v.2 ∖ ms).
      set (s1 := set_trk <[n:=(d', p0)]> s).
      assert (WF s1) as W1.
      { destruct Hs as [H1 H2 H3 H4]. split; [|done|done|wfa_ins n H4]. simpl. intros x Hx. destruct (H1 x Hx). split; [done|].
        destruct (decide (x = n)) as [->|]; [rewrite lookup_insert; eauto|by rewrite lookup_insert_ne]. }
      split; [by apply WF_upd_dirty|]. apply relA_upd_dirty. split_and!; [done|..].
      * intros i. simpl. rewrite Ha. destruct (decide (i = id)) as [->|]; [|by rewrite lookup_alter_ne].
        rewrite lookup_alter, EA. done.
      * intros i w Hw. simpl. destruct (decide (i = id)) as [->|Hne].
        -- rewrite lookup_alter, EA in Hw. injection Hw as <-. simpl. rewrite lookup_insert. eauto.
        -- assert (main_name i ≠ n) by (intros E; by apply main_name_inj in E).
           rewrite lookup_alter_ne in Hw by done. rewrite lookup_insert_ne by done. by apply Ht.
  - destruct (A !! id) eqn:EA; [simpl in Hid; done|].
    apply Hsame; [|done|done|done|done]. destruct Hs as [H1 H2 H3 H4]. split; done.
Qed.

Lemma api_resync A F s : WF s -> relA A F s -> WF (queue_resync s) ∧ relA A F (queue_resync s).
Proof. intros [H1 H2 H3 H4] Hr. split; [split; done|done]. Qed.

(* ---------------------------------------------------------------- SetFilter *)
Lemma filter_fold l : ∀ s0, NoDup (l.*1) ->
  let s' := foldr (λ nm s, filter_step nm.1 nm.2 s) s0 l in
  s_filter s' = s_filter s0 ∧ s_all s' = s_all s0 ∧ s_trk s' = s_trk s0 ∧ s_dp s' = s_dp s0
  ∧ s_must s' = s_must s0 ∧ s_bg s' = s_bg s0 ∧ s_full s' = s_full s0
  ∧ ∀ n, s_des s' !! n = match (list_to_map l : gmap name meta) !! n with
                         | Some m => if needed s0 n then Some m else None
                         | None => s_des s0 !! n end.
Proof.
  induction l as [|[a m] l IH]; intros s0 Hnd; simpl.
  - split_and!; try done.
  - apply NoDup_cons in Hnd as [Hnin Hnd]. destruct (IH s0 Hnd) as (E1 & E2 & E3 & E4 & E5 & E6 & E7 & E8).
    set (s2 := foldr (λ nm s, filter_step nm.1 nm.2 s) s0 l) in *.
    unfold filter_step.
    set (s3 := if needed s2 a then set_des <[a:=m]> s2 else set_des (delete a) s2).
    destruct (fields_upd_dirty a s3) as (F1 & F2 & F3 & F4 & F5 & F6 & F7 & F8).
    rewrite F1, F2, F3, F4, F5, F6, F7, F8.
    assert (needed s2 a = needed s0 a) as Hn by (unfold needed; by rewrite E1).
    assert (s_filter s3 = s_filter s2 ∧ s_all s3 = s_all s2 ∧ s_trk s3 = s_trk s2 ∧ s_dp s3 = s_dp s2
            ∧ s_must s3 = s_must s2 ∧ s_bg s3 = s_bg s2 ∧ s_full s3 = s_full s2) as (G1 & G2 & G3 & G4 & G5 & G6 & G7)
      by (subst s3; destruct (needed s2 a); done).
    rewrite G1, G2, G3, G4, G5, G6, G7. split_and!; try done.
    intros n. subst s3. rewrite Hn. destruct (decide (n = a)) as [->|Hne].
    + rewrite lookup_insert. destruct (needed s0 a); simpl; [by rewrite lookup_insert|by rewrite lookup_delete].
    + rewrite lookup_insert_ne by done. rewrite <- E8.
      destruct (needed s0 a); simpl; [by rewrite lookup_insert_ne|by rewrite lookup_delete_ne].
Qed.

Lemma set_filter_body A F s fnew :
  WF s -> relA A F s ->
  WF (foldr (λ nm s, filter_step nm.1 nm.2 s) (set_flt fnew s) (map_to_list (s_all s)))
  ∧ relA A fnew (foldr (λ nm s, filter_step nm.1 nm.2 s) (set_flt fnew s) (map_to_list (s_all s))).
Proof.
  intros Hs (Hf & Ha & Ht).
  destruct (filter_fold (map_to_list (s_all s)) (set_flt fnew s) (NoDup_fst_map_to_list _))
    as (E1 & E2 & E3 & E4 & E5 & E6 & E7 & E8).
  set (s' := foldr _ (set_flt fnew s) _) in *. simpl in E1, E2, E3, E4, E5, E6, E7.
  rewrite list_to_map_to_list in E8.
  destruct Hs as [H1 H2 H3 (W1 & W2 & W3)].
  assert (∀ n, s_des s' !! n = match s_all s !! n with Some m => if needed_f fnew n then Some m else None | None => None end) as Hdes.
  { intros n. rewrite E8. unfold needed. simpl. destruct (s_all s !! n) eqn:Ean; [done|].
    destruct (s_des s !! n) eqn:Edn; [destruct (W1 _ _ Edn); congruence|done]. }
  split; [split|split_and!].
  - intros n Hn. rewrite Hdes in Hn. destruct (s_all s !! n) eqn:Ean; [|by destruct Hn].
    rewrite E3. apply W3. eauto.
  - by rewrite E4.
  - by rewrite E5, E6.
  - unfold wfa, needed. rewrite E1, E2, E3. split_and!.
    + intros n m Hn. rewrite Hdes in Hn. destruct (s_all s !! n) eqn:Ean; [|done].
      destruct (needed_f fnew n) eqn:En; [|done]. by simplify_eq.
    + intros n m Hn Hnd. rewrite Hdes, Hn. by rewrite Hnd.
    + done.
  - done.
  - intros i. rewrite E2. apply Ha.
  - intros i v Hv. rewrite E3. by apply Ht.
Qed.

Lemma api_set_filter A F s f :
  WF s -> relA A F s -> WF (set_filter f s) ∧ relA A f (set_filter f s).
Proof.
  intros Hs Hr. unfold set_filter.
  destruct (s_filter s) as [g|] eqn:Eg; [by eapply set_filter_body|].
  destruct f as [f|]; [by eapply set_filter_body|].
  split; [done|]. destruct Hr as (Hf & Ha & Ht). split_and!; [congruence|done|done].
Qed.
