(* C16 - proofs, part 3: every history; convergence of one writeUpdates; the leak. *)
From stdpp Require Import gmap.
From Coq Require Import NArith.
From Verif.C16 Require Import Model Spec Proofs ProofsSafe.
Open Scope N_scope.
Local Arguments exec : simpl never.

(* Everything that can happen: API calls including SetFilter, anybody changing the kernel between two of Felix's
   operations (this also makes the starting kernel arbitrary), ApplyUpdates with any accepted choices (any failing
   command, any retries, any resync), ApplyDeletions likewise.  A = every set asked for, F = the filter. *)
Inductive reachA (fx : bool) : st → kernel → gmap N (meta * gset member) → option (gset name) → Prop :=
| ra_init k0 b : reachA fx (set_fix2 b init_st) k0 ∅ None
| ra_add s k A F id m ms : reachA fx s k A F → reachA fx (add_or_replace id m ms s) k (<[id := (m, ms)]> A) F
| ra_remove s k A F id : reachA fx s k A F → reachA fx (remove_ipset id s) k (delete id A) F
| ra_change s k A F add id ms :
    reachA fx s k A F →
    reachA fx (change_members add id ms s) k (alter (λ v, (v.1, if add then v.2 ∪ ms else v.2 ∖ ms)) id A) F
| ra_resync s k A F : reachA fx s k A F → reachA fx (queue_resync s) k A F
| ra_filter s k A F f : reachA fx s k A F → reachA fx (set_filter f s) k A f
| ra_external s k k' A F : reachA fx s k A F → reachA fx s k' A F
| ra_updates s k A F obs budget s' k' ev :
    reachA fx s k A F → apply_updates fx obs budget k s = Some (s', k', ev) → reachA fx s' k' A F
| ra_deletions s k A F tries s' k' ev rs :
    reachA fx s k A F → apply_deletions tries k s = Some (s', k', ev, rs) → reachA fx s' k' A F.

(* D = what is desired at that point: the needed part of what was asked for *)
Definition reach (fx : bool) (s : st) (k : kernel) (D : gmap N (meta * gset member)) : Prop :=
  ∃ A F, reachA fx s k A F ∧ D = eff A F.

Lemma relA_good A F s s' : relA A F s -> good s s' -> relA A F s'.
Proof.
  intros (Hf & Ha & Ht) [_ (_ & _ & Ea & Ef & Et)]. split_and!.
  - congruence.
  - intros i. rewrite Ea. apply Ha.
  - intros i v Hv. destruct (Ht i v Hv) as [p0 Hp].
    assert (is_Some (s_all s !! main_name i)) as Hi.
    { rewrite (Ha i), Hv. simpl. by eexists. }
    specialize (Et _ Hi). rewrite Hp in Et. simpl in Et.
    destruct (s_trk s' !! main_name i) as [[d q]|]; [|done]. simpl in Et. injection Et as ->. eauto.
Qed.

Lemma reachA_inv fx s k A F : reachA fx s k A F -> WF s ∧ relA A F s.
Proof.
  induction 1 as [k0 b|s k A F id m ms _ [IH1 IH2]|s k A F id _ [IH1 IH2]|s k A F add id ms _ [IH1 IH2]|s k A F _ [IH1 IH2]
                 |s k A F f _ [IH1 IH2]|s k k' A F _ IH|s k A F obs budget s' k' ev _ [IH1 IH2] Hu
                 |s k A F tries s' k' ev rs _ [IH1 IH2] Hd].
  - split.
    + split.
      * intros n Hn. simpl in Hn. rewrite lookup_empty in Hn. by destruct Hn.
      * intros n Hn. simpl in Hn. rewrite lookup_empty in Hn. by destruct Hn.
      * intros n Hn. simpl in Hn. set_solver.
      * split_and!; simpl.
        -- intros n m Hn. by rewrite lookup_empty in Hn.
        -- intros n m Hn. by rewrite lookup_empty in Hn.
        -- intros n Hn. rewrite lookup_empty in Hn. by destruct Hn.
    + split_and!; simpl; [done|intros; by rewrite !lookup_empty|intros i v Hv; by rewrite lookup_empty in Hv].
  - by apply api_add_or_replace.
  - by apply api_remove.
  - by apply api_change.
  - by apply api_resync.
  - by eapply api_set_filter.
  - done.
  - destruct (apply_updates_loop_safe _ _ _ _ _ _ _ _ _ Hu IH1) as (G & _ & _).
    split; [apply G|by eapply relA_good].
  - destruct (apply_deletions_safe _ _ _ _ _ _ _ Hd IH1) as (G & _ & _).
    split; [apply G|by eapply relA_good].
Qed.

Lemma reach_inv fx s k D : reach fx s k D -> WF s ∧ ∀ n, wants s n = want_of D n.
Proof.
  intros (A & F & Hr & ->). destruct (reachA_inv _ _ _ _ _ Hr) as [W R]. split; [done|]. by apply relA_wants.
Qed.

Lemma events_safe_rel D s k ev :
  (∀ n, wants s n = want_of D n) -> events_safe (wants s) k ev -> events_safe (want_of D) k ev.
Proof. intros H. apply events_safe_ext. done. Qed.

Lemma updates_safe fx s k D obs budget s' k' ev :
  reach fx s k D -> apply_updates fx obs budget k s = Some (s', k', ev) ->
  events_safe (want_of D) k ev ∧ k' = last_kernel k ev.
Proof.
  intros Hr Hu. destruct (reach_inv _ _ _ _ Hr) as [W R].
  destruct (apply_updates_loop_safe _ _ _ _ _ _ _ _ _ Hu W) as (_ & S & K).
  split; [by eapply events_safe_rel|done].
Qed.

Lemma deletions_safe fx s k D tries s' k' ev rs :
  reach fx s k D -> apply_deletions tries k s = Some (s', k', ev, rs) ->
  events_safe (want_of D) k ev ∧ k' = last_kernel k ev.
Proof.
  intros Hr Hu. destruct (reach_inv _ _ _ _ Hr) as [W R].
  destruct (apply_deletions_safe _ _ _ _ _ _ _ Hu W) as (_ & S & K).
  split; [by eapply events_safe_rel|done].
Qed.

(* consequences of events_safe in the words of the property *)
Lemma safe_foreign W k ev n :
  events_safe W k ev -> owned n = false -> Forall (λ e : event, e.2 !! n = k !! n) ev ∧ last_kernel k ev !! n = k !! n.
Proof.
  revert k. induction ev as [|[[c ok] k'] ev IH]; intros k H Ho; simpl in *; [done|].
  destruct H as [H1 H2]. destruct (H1 n) as [E _]. specialize (E Ho).
  destruct (IH k' H2 Ho) as [F L]. split; [|congruence]. constructor; [done|].
  eapply Forall_impl; [exact F|]. intros e He. simpl in *. congruence.
Qed.

Lemma safe_not_destroyed W k ev n w :
  events_safe W k ev -> owned n = true -> W n = Some w -> is_Some (k !! n) ->
  Forall (λ e : event, is_Some (e.2 !! n)) ev.
Proof.
  revert k. induction ev as [|[[c ok] k'] ev IH]; intros k H Ho Hw Hk; simpl in *; [done|].
  destruct H as [H1 H2]. destruct (H1 n) as [_ E]. specialize (E Ho). rewrite Hw in E.
  destruct Hk as [o Hk]. rewrite Hk in E. simpl in E.
  destruct (k' !! n) as [v|] eqn:Ev; [|done].
  constructor; [simpl; eauto|]. apply (IH k'); eauto.
Qed.

(* ---------------------------------------------------------------- one writeUpdates that runs to the end *)
Lemma check_block_complete target main cm nc nt dels adds lines ds ads :
  check_block target main cm nc nt dels adds lines = Some (ds, ads, true) -> nt = true ->
  ∃ l, lines = l ++ [CSwap main target].
Proof.
  unfold check_block.
  set (crl := match lines with CCreate n m :: r => (Some (n, m), r) | _ => (None, lines) end).
  assert (lines = match crl.1 with Some (n, m) => [CCreate n m] | None => [] end ++ crl.2) as Hl.
  { subst crl. destruct lines as [|[] ?]; done. }
  destruct crl as [cr l1]. simpl in Hl.
  set (dl := take_dels l1). set (l2 := drop (length dl) l1).
  set (al := take_adds l2). set (l3 := drop (length al) l2).
  set (swl := match l3 with CSwap a b :: r => (Some (a, b), r) | _ => (None, l3) end).
  assert (l3 = match swl.1 with Some (a, b) => [CSwap a b] | None => [] end ++ swl.2) as Hl3.
  { subst swl. clearbody l3. destruct l3 as [|[] ?]; done. }
  destruct swl as [sw l4]. simpl in Hl3.
  pose proof (take_dels_split l1) as Hd. fold dl in Hd. fold l2 in Hd.
  pose proof (take_adds_split l2) as Ha. fold al in Ha. fold l3 in Ha.
  clearbody l3 l2 dl al.
  intros H Hnt. case_match eqn:Hc; [|done]. injection H as _ _ Hcpl.
  repeat match goal with H : _ && _ = true |- _ => apply andb_true_iff in H as [? ?] end.
  repeat match goal with H : bool_decide _ = true |- _ => apply bool_decide_eq_true in H end.
  subst l4 nt. rewrite app_nil_r in Hl3. simpl in *.
  destruct sw as [[a b]|]; [|done].
  repeat match goal with H : _ && _ = true |- _ => apply andb_true_iff in H as [? ?] end.
  repeat match goal with H : bool_decide _ = true |- _ => apply bool_decide_eq_true in H end.
  subst a b.
  exists (match cr with Some (n, m) => [CCreate n m] | None => [] end ++ map (λ p, CDel p.1 p.2) dl ++ map (λ p, CAdd p.1 p.2) al).
  rewrite Hl. rewrite Hd at 1. rewrite Ha at 1. rewrite Hl3 at 1. by rewrite <- !app_assoc.
Qed.

(* temp-set-and-swap: whatever the kernel and whatever Felix believed, if the block's commands all succeed
   the main set is exactly the desired set *)
Lemma swap_block_exact fx M lines s s' k i inj dm md mp d :
  s_des s !! M = Some dm -> s_trk s !! M = Some (md, mp) ->
  s_dp s !! M = Some d -> d ≠ clean dm ->
  write_updates fx M lines false s = Some (s', false) ->
  (run_script k lines i inj).2 = false ->
  (run_script k lines i inj).1.2 !! M = Some (norm_meta dm, md).
Proof.
  intros Edes Etrk Edp Hne H. unfold write_updates in H. rewrite Edes, Etrk, Edp in H.
  rewrite (bool_decide_eq_false_2 (d = clean dm)) in H by done. simpl in H.
  destruct (check_block _ _ _ _ _ _ _ lines) as [[[ds ads] cpl]|] eqn:Ecb; [|done].
  destruct cpl; [|done]. clear H.
  pose proof Ecb as Ecb'. apply check_block_shape in Ecb as (cr & dl & al & sw & -> & Hcr & Hdl & Hal & Hsw).
  set (T := temp_name (next_free s)) in *.
  assert (dl = []) as ->. { destruct dl as [|x dl]; [done|]. exfalso. set_solver. }
  destruct Hcr as [[_ Hc]|[-> _]]; [done|].
  (* completeness forces the swap line *)
  assert (sw = [CSwap M T] ∧ list_to_set al = md) as [-> Hall].
  { destruct Hsw as [->|(-> & _ & Hall & _)]; [|split; [done|set_solver]].
    exfalso. destruct (check_block_complete _ _ _ _ _ _ _ _ _ _ Ecb' eq_refl) as [l Hl].
    rewrite app_nil_r in Hl. simpl in Hl.
    assert (last (CCreate T (norm_meta dm) :: map (CAdd T) al) = Some (CSwap M T)) as Hlast
      by (rewrite Hl; apply last_snoc).
    apply last_Some_elem_of in Hlast. apply elem_of_cons in Hlast as [?|Hin]; [done|].
    apply elem_of_list_fmap in Hin as (x & ? & _). done. }
  simpl. case_bool_decide; [done|].
  destruct (exec k (CCreate T (norm_meta dm))) as [k0|] eqn:Ecr; [|done].
  assert (k0 = <[T:=(norm_meta dm, ∅)]> k) as ->.
  { unfold exec in Ecr. destruct (k !! T); by simplify_eq. }
  rewrite run_script_app.
  pose proof (run_adds_temp (λ _, None) T (norm_meta dm) al eq_refl eq_refl (<[T:=(norm_meta dm, ∅)]> k) ∅ (S i) inj) as Hadds.
  rewrite lookup_insert in Hadds. specialize (Hadds eq_refl).
  destruct (run_script (<[T:=(norm_meta dm, ∅)]> k) (map (CAdd T) al) (S i) inj) as [[ev1 k1] f1]. simpl in Hadds.
  destruct Hadds as [_ Hk1]. destruct f1; [done|]. specialize (Hk1 eq_refl).
  simpl. case_bool_decide; [done|].
  destruct (exec k1 (CSwap M T)) as [k2|] eqn:Esw; [|done]. simpl. intros _.
  unfold exec in Esw. destruct (k1 !! M) as [vM|]; [|done]. rewrite Hk1 in Esw. simplify_eq.
  rewrite lookup_insert. f_equal. f_equal. set_solver.
Qed.

(* ---------------------------------------------------------------- the leak (unrepaired code) *)
(* results of a run, read back through projections so that only booleans are ever normalised *)
Definition isS {A} (r : option A) : bool := match r with Some _ => true | None => false end.
Definition u_s (r : option (st * kernel * list event)) : st := match r with Some (s, _, _) => s | None => init_st end.
Definition u_k (r : option (st * kernel * list event)) : kernel := match r with Some (_, k, _) => k | None => ∅ end.
Definition d_s (r : option (st * kernel * list event * bool)) : st := match r with Some (s, _, _, _) => s | None => init_st end.
Definition d_k (r : option (st * kernel * list event * bool)) : kernel := match r with Some (_, k, _, _) => k | None => ∅ end.

Definition lk_m1 : meta := (0, (100, (0, 0))).
Definition lk_m2 : meta := (0, (200, (0, 0))).
Definition lk_k0 : kernel := {[ main_name 0 := (lk_m1, {[ (0, 1) ]}) ]}.
Definition lk_block (t : N) : name * list cmd :=
  (main_name 0, [CCreate (temp_name t) lk_m2; CAdd (temp_name t) (0, 1); CAdd (temp_name t) (0, 2);
                 CSwap (main_name 0) (temp_name t)]).
Definition lk_D1 : gmap N (meta * gset member) := <[0 := (lk_m1, {[ (0, 1) ]})]> ∅.
Definition lk_D : gmap N (meta * gset member) := <[0 := (lk_m2, {[ (0, 1); (0, 2) ]})]> lk_D1.

(* first apply (start-of-day resync), nothing to do *)
Definition lk_s1 := add_or_replace 0 lk_m1 {[ (0, 1) ]} init_st.
Definition lk_r1 := apply_updates false [mkAtt [main_name 0] [] [] None false] None lk_k0 lk_s1.
Definition lk_r2 := apply_deletions [] (u_k lk_r1) (u_s lk_r1).
(* metadata change; the write of the swap line fails; the retry succeeds with the next temporary name *)
Definition lk_s3 := add_or_replace 0 lk_m2 {[ (0, 1); (0, 2) ]} (d_s lk_r2).
Definition lk_r3 := apply_updates false [mkAtt [] [] [lk_block 0] (Some 3%nat) true;
                                         mkAtt [main_name 0] [] [lk_block 1] None false] None (d_k lk_r2) lk_s3.
Definition lk_r4 := apply_deletions [(temp_name 1, false)] (u_k lk_r3) (u_s lk_r3).
(* a further apply finds nothing to do *)
Definition lk_r5 := apply_updates false [mkAtt [] [] [] None false] None (d_k lk_r4) (d_s lk_r4).
Definition lk_r6 := apply_deletions [] (u_k lk_r5) (u_s lk_r5).

Definition lk_s := d_s lk_r6.
Definition lk_k := d_k lk_r6.

Definition lk_checks : bool :=
  isS lk_r1 && isS lk_r2 && isS lk_r3 && isS lk_r4 && isS lk_r5 && isS lk_r6
  && negb (s_panic lk_s) && bool_decide (pending_del lk_s = ∅) && rq_empty lk_s && negb (s_full lk_s) && negb (s_bgreq lk_s)
  && bool_decide (dirty1 lk_s ∪ dirty2 lk_s = ∅)
  && match lk_r5 with Some (_, _, []) => true | _ => false end
  && match lk_r6 with Some (_, _, [], false) => true | _ => false end
  && isS (lk_k !! temp_name 0) && negb (isS (s_dp lk_s !! temp_name 0))
  && negb (converged lk_D ∅ lk_k).

Lemma lk_checks_true : lk_checks = true.
Proof. vm_compute. reflexivity. Qed.

(* the same history on the repaired code: the failed attempt queues cali4t0 for re-listing, the retry re-lists it,
   tryTempIPSetDeletions destroys it; the end state is converged *)
Definition fk_r3 := apply_updates true [mkAtt [] [] [lk_block 0] (Some 3%nat) true;
                                        mkAtt [main_name 0; temp_name 0] [(temp_name 0, false)] [lk_block 1] None false]
                                  None (d_k lk_r2) lk_s3.
Definition fk_r4 := apply_deletions [(temp_name 1, false)] (u_k fk_r3) (u_s fk_r3).
Definition fk_r5 := apply_updates true [mkAtt [] [] [] None false] None (d_k fk_r4) (d_s fk_r4).
Definition fk_r6 := apply_deletions [] (u_k fk_r5) (u_s fk_r5).
Definition fk_checks : bool :=
  isS fk_r3 && isS fk_r4 && isS fk_r5 && isS fk_r6
  && match fk_r6 with Some (_, _, [], false) => true | _ => false end
  && converged lk_D ∅ (d_k fk_r6).
Lemma fk_checks_true : fk_checks = true.
Proof. vm_compute. reflexivity. Qed.

(* ---------------------------------------------------------------- the inherited DeleteFailed flag (second finding) *)
(* kernel {cali40s0: maxelem 100 {10.0.0.1}}, nothing desired: start-of-day apply, the destroy of cali40s0 is refused;
   AddOrReplaceIPSet(s0, maxelem 200, {10.0.0.1}); apply: temp set + swap; ApplyDeletions attempts nothing. *)
Definition fl_run (fix2 : bool) :=
  let r1 := apply_updates true [mkAtt [main_name 0] [] [] None false] None lk_k0 (set_fix2 fix2 init_st) in
  let r2 := apply_deletions [(main_name 0, true)] (u_k r1) (u_s r1) in
  let s3 := add_or_replace 0 lk_m2 {[ (0, 1) ]} (d_s r2) in
  let r3 := apply_updates true [mkAtt [] [] [(main_name 0, [CCreate (temp_name 0) lk_m2; CAdd (temp_name 0) (0, 1);
                                                            CSwap (main_name 0) (temp_name 0)])] None false]
                          None (d_k r2) s3 in
  (r1, r2, r3).
Definition fl_D : gmap N (meta * gset member) := <[0 := (lk_m2, {[ (0, 1) ]})]> ∅.
(* unrepaired: no destroy is attempted, the temporary set stays and the oracle's `converged` is false *)
Definition fl_checks : bool :=
  let '(r1, r2, r3) := fl_run false in
  let r4 := apply_deletions [] (u_k r3) (u_s r3) in
  isS r1 && isS r2 && isS r3 && isS r4
  && match r4 with Some (_, _, [], false) => true | _ => false end
  && isS (d_k r4 !! temp_name 0) && negb (converged fl_D ∅ (d_k r4)).
Lemma fl_checks_true : fl_checks = true.
Proof. vm_compute. reflexivity. Qed.
(* repaired: the temporary set is destroyed and the end state is converged *)
Definition fl_fixed_checks : bool :=
  let '(r1, r2, r3) := fl_run true in
  let r4 := apply_deletions [(temp_name 0, false)] (u_k r3) (u_s r3) in
  isS r1 && isS r2 && isS r3 && isS r4 && converged fl_D ∅ (d_k r4).
Lemma fl_fixed_checks_true : fl_fixed_checks = true.
Proof. vm_compute. reflexivity. Qed.
