(* C16 - specification: what the property text says about the KERNEL, independent of how IPSets
   works, as a boolean oracle over an observed history; plus the `case` record written by the Go
   driver and `check_case`. *)
From stdpp Require Import gmap.
From Coq Require Import NArith.
From Verif.C16 Require Import Model.
Open Scope N_scope.

(* ---------------------------------------------------------------- what Felix has been asked for *)
(* set id -> (metadata, members): the fold of the API calls *)
Notation desired := (gmap N (meta * gset member)) (only parsing).

(* kernel differences as printed by the driver: name -> new value (None = set gone) *)
Notation kdiff := (list (name * option (meta * list member))) (only parsing).
Definition apply_diff (k : kernel) (d : kdiff) : kernel :=
  foldl (λ k e, match e.2 with
                | Some (m, ms) => <[e.1 := (m, list_to_set ms)]> k
                | None => delete e.1 k end) k d.

Inductive op :=
| OAddOrReplace (id : N) (m : meta) (ms : list member)
| OAddMembers (id : N) (ms : list member)
| ORemoveMembers (id : N) (ms : list member)
| ORemoveIPSet (id : N)
| OQueueResync
| OSetFilter (f : option (list name))       (* SetFilter: None = no filter, Some l = only these set names are needed *)
| OExternal (d : kdiff)                      (* somebody else changed the kernel between two applies *)
| OApply (budget : option nat)               (* background re-lists allowed per ApplyUpdates (None = unlimited) *)
         (atts : list attempt_obs)           (* the choices made by ApplyUpdates, one per retry attempt *)
         (dels : list (name * bool))         (* destroys attempted by ApplyDeletions (name, fault injected) *)
         (evs : list (cmd * bool * kdiff))   (* every kernel-changing command in order, its outcome, the kernel change seen *)
         (resched panicked : bool).

Definition spec_api (D : desired) (o : op) : desired :=
  match o with
  | OAddOrReplace id m ms => <[id := (m, list_to_set ms)]> D
  | OAddMembers id ms => alter (λ v, (v.1, v.2 ∪ list_to_set ms)) id D
  | ORemoveMembers id ms => alter (λ v, (v.1, v.2 ∖ list_to_set ms)) id D
  | ORemoveIPSet id => delete id D
  | _ => D
  end.

(* the sets that are asked for AND needed under the filter *)
Definition eff (A : desired) (F : option (gset name)) : desired :=
  filter (λ kv, needed_f F (main_name kv.1) = true) A.

(* the kernel set Felix's main set name should be: desired type/parameters as `create` uses them, desired members *)
Definition want_of (D : desired) (n : name) : option kset :=
  if n.1 =? 0 then (λ v, (norm_meta v.1, v.2)) <$> D !! n.2 else None.

(* ---------------------------------------------------------------- one command *)
(* What one single command may do to set `n` (o = before, v = after), `w` = what is desired for it:
   - a set that is not Felix's: nothing;
   - a desired set that exists: stays as it is, or becomes exactly the desired set (swap), or keeps its
     parameters and its members move toward the desired members;
   - a desired set that does not exist: may be created empty with the desired parameters;
   - never destroyed while desired. *)
Definition toward (o v w : gset member) : bool :=
  bool_decide (v ∖ o ⊆ w) && bool_decide ((o ∖ v) ## w).
Definition set_step_ok (D : desired) (kp kn : kernel) (n : name) : bool :=
  if negb (owned n) then bool_decide (kn !! n = kp !! n)
  else match want_of D n with
       | None => true
       | Some w =>
           match kp !! n, kn !! n with
           | Some o, Some v => bool_decide (v = o) || bool_decide (v = w)
                               || (bool_decide (v.1 = o.1) && toward o.2 v.2 w.2)
           | Some _, None => false
           | None, Some v => bool_decide (v = (w.1, ∅))
           | None, None => true
           end
       end.
Definition step_ok (D : desired) (kp kn : kernel) : bool :=
  forallb (set_step_ok D kp kn) (elements (dom kp ∪ dom kn)).

(* ---------------------------------------------------------------- after an apply *)
(* every desired set is exactly as desired *)
Definition desired_exact (D : desired) (k : kernel) : bool :=
  forallb (λ id, bool_decide (k !! main_name id = want_of D (main_name id))) (elements (dom D)).
(* ... and no other set of Felix's remains, except sets the kernel refused to destroy *)
Definition converged (D : desired) (excused : gset name) (k : kernel) : bool :=
  desired_exact D k
  && forallb (λ n, negb (owned n) || bool_decide (n ∈ excused) || bool_decide (is_Some (want_of D n)))
             (elements (dom k)).

(* ---------------------------------------------------------------- oracle over a history *)
Record ost := mkO {
  o_D : desired;            (* every set asked for *)
  o_F : option (gset name); (* the filter *)
  o_k : kernel;
  o_excused : gset name;    (* sets whose latest destroy was refused *)
  o_stale : nat             (* 2 = the kernel was changed behind Felix's back, 1 = ... and a resync has been requested since, 0 = no *)
}.

Fixpoint ok_events (D : desired) (k : kernel) (ex : gset name) (evs : list (cmd * bool * kdiff)) : bool * kernel * gset name :=
  match evs with
  | [] => (true, k, ex)
  | (c, ok, d) :: rest =>
      let k' := apply_diff k d in
      let ex' := match c with CDestroy n => if ok then ex ∖ {[n]} else {[n]} ∪ ex | _ => ex end in
      let '(b, kf, exf) := ok_events D k' ex' rest in
      (step_ok D k k' && b, kf, exf)
  end.

Definition ok_op (o : ost) (x : op) : bool * ost :=
  match x with
  | OQueueResync => (true, mkO (o_D o) (o_F o) (o_k o) (o_excused o) (if Nat.eqb (o_stale o) 2 then 1%nat else o_stale o))
  | OSetFilter f => (true, mkO (o_D o) (list_to_set <$> f) (o_k o) (o_excused o) (o_stale o))
  | OExternal d => (true, mkO (o_D o) (o_F o) (apply_diff (o_k o) d) (o_excused o) 2%nat)
  | OApply _ _ _ evs resched panicked =>
      let D := eff (o_D o) (o_F o) in
      let '(b, k', ex') := ok_events D (o_k o) (o_excused o) evs in
      let quiet := negb resched && negb panicked in
      let b1 := if negb panicked && Nat.eqb (o_stale o) 0 then desired_exact D k' else true in
      let b2 := if quiet && Nat.leb (o_stale o) 1 then converged D ex' k' else true in
      (b && b1 && b2, mkO (o_D o) (o_F o) k' ex' (if quiet && Nat.eqb (o_stale o) 1 then 0%nat else o_stale o))
  | _ => (true, mkO (spec_api (o_D o) x) (o_F o) (o_k o) (o_excused o) (o_stale o))
  end.

Fixpoint ok_ops (o : ost) (xs : list op) : bool :=
  match xs with
  | [] => true
  | x :: r => let '(b, o') := ok_op o x in b && ok_ops o' r
  end.

Definition mk_kernel (l : list (name * (meta * list member))) : kernel :=
  list_to_map (map (λ e, (e.1, (e.2.1, list_to_set e.2.2))) l).

Definition ok_history (k0 : kernel) (xs : list op) : bool := ok_ops (mkO ∅ None k0 ∅ 0) xs.

(* ---------------------------------------------------------------- model run against the observations *)
(* compare the model's events with the implementation's, rebuilding the implementation's kernels from the diffs *)
Fixpoint events_agree (ki : kernel) (mev : list event) (iev : list (cmd * bool * kdiff)) : bool * kernel :=
  match mev, iev with
  | [], [] => (true, ki)
  | (c, ok, km) :: mr, (c', ok', d) :: ir =>
      let ki' := apply_diff ki d in
      let '(b, kf) := events_agree ki' mr ir in
      (bool_decide (c = c') && Bool.eqb ok ok' && bool_decide (km = ki') && b, kf)
  | _, _ => (false, ki)
  end.

(* model state, model kernel, implementation kernel *)
Definition run_op (fx : bool) (x : op) (z : st * kernel * kernel) : option (st * kernel * kernel) :=
  let '(s, km, ki) := z in
  if s_panic s then None else
  match x with
  | OAddOrReplace id m ms => Some (add_or_replace id m (list_to_set ms) s, km, ki)
  | OAddMembers id ms => Some (change_members true id (list_to_set ms) s, km, ki)
  | ORemoveMembers id ms => Some (change_members false id (list_to_set ms) s, km, ki)
  | ORemoveIPSet id => Some (remove_ipset id s, km, ki)
  | OQueueResync => Some (queue_resync s, km, ki)
  | OSetFilter f => Some (set_filter (list_to_set <$> f) s, km, ki)
  | OExternal d => Some (s, apply_diff km d, apply_diff ki d)
  | OApply budget atts dels evs resched panicked =>
      match apply_updates fx atts budget km s with
      | None => None
      | Some (s1, k1, ev1) =>
          if s_panic s1 then
            let '(b, ki') := events_agree ki ev1 evs in
            if b && panicked && match dels with [] => true | _ => false end then Some (s1, k1, ki') else None
          else
            match apply_deletions dels k1 s1 with
            | None => None
            | Some (s2, k2, ev2, rs) =>
                let '(b, ki') := events_agree ki (ev1 ++ ev2) evs in
                if b && negb panicked && Bool.eqb rs resched then Some (s2, k2, ki') else None
            end
      end
  end.

Fixpoint run_ops (fx : bool) (xs : list op) (z : st * kernel * kernel) : bool :=
  match xs with
  | [] => true
  | x :: r => match run_op fx x z with Some z' => run_ops fx r z' | None => false end
  end.

Record case := mkCase {
  c_fx : bool;                                     (* the tree has fixes/C16-requeue-temp-set-on-write-failure.patch (probed by the driver) *)
  c_fx2 : bool;                                    (* the tree has fixes/C16-temp-set-flags.patch (probed by the driver) *)
  c_k0 : list (name * (meta * list member));       (* starting kernel: anything *)
  c_ops : list op
}.

Definition check_case (c : case) : bool * bool :=
  let k0 := mk_kernel (c_k0 c) in
  (run_ops (c_fx c) (c_ops c) (set_fix2 (c_fx2 c) init_st, k0, k0), ok_history k0 (c_ops c)).
