(* C16 - executable model of felix/ipsets/ipsets.go (IPSets) against a kernel of IP sets.

   Shape of the model.  The Go code iterates Go maps in several places (dirty sets, pending member
   updates/deletions, pending set deletions, the resync queue is filled from a set iteration).  The
   order is not determined by the program, so the model is an ACCEPTOR: every operation takes the
   nondeterministic choices as an argument (`attempt_obs`: which names were re-listed in which
   order, which destroys were attempted, the restore script grouped by writeUpdates call), checks
   that they are choices the code could have made (`None` = the code cannot do this) and computes
   the next IPSets state, the next kernel and the list of kernel-changing commands with the kernel
   state after each one.  Theorems quantify over ALL accepted choices; the correspondence run feeds
   the choices the real code made.

   Kernel semantics (`exec`) = one `ipset` command; a failing command has no effect; a restore
   script stops at the first failing line with the earlier lines' effects in place.

   Definitions only; no proofs here. *)
From stdpp Require Import gmap.
From Coq Require Import NArith.
Open Scope N_scope.

(* ---------------------------------------------------------------- names, members, metadata *)
(* name = (class, payload): class 0 = main set of this IP version ("cali40"+id), 1 = temporary set
   ("cali4t"+n), 2 = other name matching Felix's ownership pattern (historic prefixes), >=3 = foreign. *)
Notation name := ((N * N)%type) (only parsing).
Definition owned (n : name) : bool := fst n <? 3.
Definition is_temp (n : name) : bool := fst n =? 1.
Definition main_name (id : N) : name := (0, id).
Definition temp_name (i : N) : name := (1, i).

(* member = (type tag under which it was canonicalised, value) *)
Notation member := ((N * N)%type) (only parsing).
(* (type, maxelem, range min, range max); types 0 hash:ip, 1 hash:net, 2 bitmap:port *)
Notation meta := ((N * (N * (N * N)))%type) (only parsing).
Definition ty_bitmap : N := 2.
(* what `create` uses of the metadata and what `ipset list` reports back *)
Definition norm_meta (m : meta) : meta :=
  let '(t, (mx, (a, b))) := m in if t =? ty_bitmap then (t, (0, (a, b))) else (t, (mx, (0, 0))).
(* dataplaneMetadata: metadata + DeleteFailed + ListFailed *)
Notation dmeta := ((meta * (bool * bool))%type) (only parsing).
Definition clean (m : meta) : dmeta := (m, (false, false)).

(* ---------------------------------------------------------------- kernel *)
Notation kset := ((meta * gset member)%type) (only parsing).
Notation kernel := (gmap name kset) (only parsing).

Inductive cmd :=
| CCreate (n : name) (m : meta)
| CAdd (n : name) (x : member)
| CDel (n : name) (x : member)
| CSwap (a b : name)
| CDestroy (n : name).
Global Instance cmd_eq_dec : EqDecision cmd.
Proof. solve_decision. Defined.

Definition exec (k : kernel) (c : cmd) : option kernel :=
  match c with
  | CCreate n m => match k !! n with Some _ => None | None => Some (<[n := (m, ∅)]> k) end
  | CAdd n x => match k !! n with
                | Some (m, s) => if bool_decide (x ∈ s) then None else Some (<[n := (m, {[x]} ∪ s)]> k)
                | None => None end
  | CDel n x => match k !! n with
                | Some (m, s) => Some (<[n := (m, s ∖ {[x]})]> k)
                | None => None end
  | CSwap a b => match k !! a, k !! b with
                 | Some va, Some vb => Some (<[a := vb]> (<[b := va]> k))
                 | _, _ => None end
  | CDestroy n => match k !! n with Some _ => Some (delete n k) | None => None end
  end.

(* one executed (or failed) kernel-changing command and the kernel after it *)
Notation event := ((cmd * bool * kernel)%type) (only parsing).

(* run a restore script; `inj` = index of a line that is made to fail (injected fault).
   Result: events, final kernel, whether a line failed. *)
Fixpoint run_script (k : kernel) (cs : list cmd) (i : nat) (inj : option nat) : list event * kernel * bool :=
  match cs with
  | [] => ([], k, false)
  | c :: cs' =>
      if bool_decide (inj = Some i) then ([(c, false, k)], k, true)
      else match exec k c with
           | None => ([(c, false, k)], k, true)
           | Some k' => let '(ev, kf, failed) := run_script k' cs' (S i) inj in ((c, true, k') :: ev, kf, failed)
           end
  end.

(* ---------------------------------------------------------------- IPSets state *)
Record st := mkSt {
  s_des : gmap name meta;                          (* setNameToProgrammedMetadata.Desired() (= setNameToAllMetadata: no filter) *)
  s_dp : gmap name dmeta;                          (* setNameToProgrammedMetadata.Dataplane() *)
  s_trk : gmap name (gset member * gset member);   (* mainSetNameToMembers: (Desired(), Dataplane()) *)
  s_dirty : gset name;                             (* ipSetsWithDirtyMembers *)
  s_next : N;                                      (* nextTempIPSetIdx *)
  s_must : gset name;                              (* resyncQueue, "must" tier (order abstracted: any order accepted) *)
  s_bg : gset name;                                (* resyncQueue, "background" tier *)
  s_bgreq : bool;                                  (* bgResyncRequested *)
  s_full : bool;                                   (* fullResyncRequired *)
  s_panic : bool;                                  (* the Go code panicked *)
  s_fix2 : bool;                                   (* configuration, never changes: the tree has fixes/C16-temp-set-flags.patch *)
  s_all : gmap name meta;                          (* setNameToAllMetadata: every set added and not removed, needed or not *)
  s_filter : option (gset name)                    (* neededIPSetNames (None = no filter: every set is needed) *)
}.
Definition init_st : st := mkSt ∅ ∅ ∅ ∅ 0 ∅ ∅ false true false false ∅ None.

Definition set_des f s := mkSt (f (s_des s)) (s_dp s) (s_trk s) (s_dirty s) (s_next s) (s_must s) (s_bg s) (s_bgreq s) (s_full s) (s_panic s) (s_fix2 s) (s_all s) (s_filter s).
Definition set_dp f s := mkSt (s_des s) (f (s_dp s)) (s_trk s) (s_dirty s) (s_next s) (s_must s) (s_bg s) (s_bgreq s) (s_full s) (s_panic s) (s_fix2 s) (s_all s) (s_filter s).
Definition set_trk f s := mkSt (s_des s) (s_dp s) (f (s_trk s)) (s_dirty s) (s_next s) (s_must s) (s_bg s) (s_bgreq s) (s_full s) (s_panic s) (s_fix2 s) (s_all s) (s_filter s).
Definition set_dirty f s := mkSt (s_des s) (s_dp s) (s_trk s) (f (s_dirty s)) (s_next s) (s_must s) (s_bg s) (s_bgreq s) (s_full s) (s_panic s) (s_fix2 s) (s_all s) (s_filter s).
Definition set_next v s := mkSt (s_des s) (s_dp s) (s_trk s) (s_dirty s) v (s_must s) (s_bg s) (s_bgreq s) (s_full s) (s_panic s) (s_fix2 s) (s_all s) (s_filter s).
Definition set_must f s := mkSt (s_des s) (s_dp s) (s_trk s) (s_dirty s) (s_next s) (f (s_must s)) (s_bg s) (s_bgreq s) (s_full s) (s_panic s) (s_fix2 s) (s_all s) (s_filter s).
Definition set_bg f s := mkSt (s_des s) (s_dp s) (s_trk s) (s_dirty s) (s_next s) (s_must s) (f (s_bg s)) (s_bgreq s) (s_full s) (s_panic s) (s_fix2 s) (s_all s) (s_filter s).
Definition set_bgreq v s := mkSt (s_des s) (s_dp s) (s_trk s) (s_dirty s) (s_next s) (s_must s) (s_bg s) v (s_full s) (s_panic s) (s_fix2 s) (s_all s) (s_filter s).
Definition set_full v s := mkSt (s_des s) (s_dp s) (s_trk s) (s_dirty s) (s_next s) (s_must s) (s_bg s) (s_bgreq s) v (s_panic s) (s_fix2 s) (s_all s) (s_filter s).
Definition set_fix2 v s := mkSt (s_des s) (s_dp s) (s_trk s) (s_dirty s) (s_next s) (s_must s) (s_bg s) (s_bgreq s) (s_full s) (s_panic s) v (s_all s) (s_filter s).
Definition set_all f s := mkSt (s_des s) (s_dp s) (s_trk s) (s_dirty s) (s_next s) (s_must s) (s_bg s) (s_bgreq s) (s_full s) (s_panic s) (s_fix2 s) (f (s_all s)) (s_filter s).
Definition set_flt v s := mkSt (s_des s) (s_dp s) (s_trk s) (s_dirty s) (s_next s) (s_must s) (s_bg s) (s_bgreq s) (s_full s) (s_panic s) (s_fix2 s) (s_all s) v.
Definition set_panic v s := mkSt (s_des s) (s_dp s) (s_trk s) (s_dirty s) (s_next s) (s_must s) (s_bg s) (s_bgreq s) (s_full s) v (s_fix2 s) (s_all s) (s_filter s).

(* resyncQueue.Add / Remove *)
Definition rq_add_must (n : name) (s : st) : st :=
  if bool_decide (n ∈ s_must s) then s else set_must ({[n]} ∪.) (set_bg (.∖ {[n]}) s).
Definition rq_add_bg (n : name) (s : st) : st :=
  if bool_decide (n ∈ s_must s) || bool_decide (n ∈ s_bg s) then s else set_bg ({[n]} ∪.) s.
Definition rq_remove (n : name) (s : st) : st := set_must (.∖ {[n]}) (set_bg (.∖ {[n]}) s).
Definition rq_empty (s : st) : bool := bool_decide (s_must s = ∅) && bool_decide (s_bg s = ∅).

(* ipSetNeeded *)
Definition needed_f (f : option (gset name)) (n : name) : bool :=
  match f with None => true | Some g => bool_decide (n ∈ g) end.
Definition needed (s : st) (n : name) : bool := needed_f (s_filter s) n.

(* updateDirtiness *)
Definition upd_dirty (n : name) (s : st) : st :=
  match s_trk s !! n with
  | None => set_dirty (.∖ {[n]}) s
  | Some (d, p) => if needed s n && negb (bool_decide (d = p)) then set_dirty ({[n]} ∪.) s else set_dirty (.∖ {[n]}) s
  end.

(* ---------------------------------------------------------------- API calls *)
Definition add_or_replace (id : N) (m : meta) (ms : gset member) (s : st) : st :=
  let n := main_name id in
  let p := match s_trk s !! n with Some (_, p) => p | None => ∅ end in
  let s1 := set_all <[n := m]> s in
  let s2 := if needed s n then set_des <[n := m]> s1 else s1 in
  upd_dirty n (set_trk <[n := (ms, p)]> s2).

Definition remove_ipset (id : N) (s : st) : st :=
  let n := main_name id in
  let s1 := set_all (delete n) (set_des (delete n) s) in
  match s_dp s !! n with
  | Some _ => match s_trk s !! n with
              | Some (_, p) => upd_dirty n (set_trk <[n := (∅, p)]> s1)
              | None => set_panic true s1          (* nil map entry dereferenced *)
              end
  | None => upd_dirty n (set_trk (delete n) s1)
  end.

Definition change_members (add : bool) (id : N) (ms : gset member) (s : st) : st :=
  let n := main_name id in
  match s_all s !! n with
  | None => set_panic true s                       (* "called for nonexistent IP set" *)
  | Some _ =>
      if bool_decide (ms = ∅) then s else
      match s_trk s !! n with
      | Some (d, p) => upd_dirty n (set_trk <[n := (if add then d ∪ ms else d ∖ ms, p)]> s)
      | None => set_panic true s
      end
  end.

(* SetFilter: the new filter is stored first, then every set ever added is put into / taken out of the desired view
   and its dirtiness recomputed (under the NEW filter).  The loop ranges over a Go map; the steps for different names
   commute, so any order gives the same state. *)
Definition filter_step (n : name) (m : meta) (s : st) : st :=
  upd_dirty n (if needed s n then set_des <[n := m]> s else set_des (delete n) s).
Definition set_filter (f : option (gset name)) (s : st) : st :=
  match s_filter s, f with
  | None, None => s
  | _, _ => foldr (λ nm s, filter_step nm.1 nm.2 s) (set_flt f s) (map_to_list (s_all s))
  end.

Definition queue_resync (s : st) : st := set_bgreq true s.

(* ---------------------------------------------------------------- resync *)
(* onIPSetMissingFromDataplane *)
Definition on_missing (n : name) (s : st) : st :=
  let s1 := set_dp (delete n) s in
  let s2 := match s_trk s1 !! n with
            | Some (d, _) => if bool_decide (is_Some (s_all s1 !! n)) then set_trk <[n := (d, ∅)]> s1
                             else set_trk (delete n) s1
            | None => s1
            end in
  rq_remove n (upd_dirty n s2).

(* resyncIPSet (no list failures modelled) *)
Definition resync_one (k : kernel) (n : name) (s : st) : st :=
  match k !! n with
  | None => on_missing n s
  | Some (m, ms) =>
      let s1 := set_dp <[n := clean m]> s in
      if is_temp n then s1
      else let d := match s_trk s1 !! n with Some (d, _) => d | None => ∅ end in
           upd_dirty n (set_trk <[n := (d, ms)]> s1)
  end.

Definition owned_names (k : kernel) : gset name := filter (λ n, owned n = true) (dom k).

(* sweepIPSetsMissingFromDataplane *)
Definition sweep (listed : gset name) (s : st) : st :=
  let cand := dom (s_trk s) ∪ dom (s_dp s) ∪ dom (s_des s) in
  foldr on_missing s (elements (cand ∖ listed)).

Definition begin_full (k : kernel) (s : st) : st :=
  let listed := owned_names k in
  let s1 := set_must (λ _, listed) (set_bg (λ _, ∅) (set_dp (λ _, ∅) s)) in
  set_bgreq false (sweep listed s1).

Definition begin_bg (k : kernel) (s : st) : st :=
  let listed := owned_names k in
  set_bgreq false (foldr rq_add_bg (sweep listed s) (elements listed)).

(* background tier: re-list the observed names while the budget lasts *)
Fixpoint drain_bg (k : kernel) (names : list name) (budget : option nat) (s : st) : option (st * option nat) :=
  match names with
  | [] =>
      (* the loop stopped: budget spent or nothing left *)
      if bool_decide (budget = Some O) || bool_decide (s_bg s = ∅) then Some (s, budget) else None
  | n :: rest =>
      if bool_decide (budget = Some O) then None else
      if bool_decide (n ∈ s_bg s) then
        drain_bg k rest (match budget with Some (S b) => Some b | _ => budget end)
                 (resync_one k n (set_bg (.∖ {[n]}) s))
      else None
  end.

(* drainResyncQueue: `names` = the names passed to `ipset list <name>` in order *)
Definition drain (k : kernel) (names : list name) (budget : option nat) (s : st) : option (st * option nat) :=
  let nm := size (s_must s) in
  let mustn := take nm names in
  let bgn := drop nm names in
  if bool_decide (NoDup mustn) && bool_decide (list_to_set mustn = s_must s) then
    let s1 := foldl (λ s n, resync_one k n s) (set_must (λ _, ∅) s) mustn in
    if s_full s1 then (if bool_decide (bgn = []) then Some (s1, budget) else None)
    else drain_bg k bgn budget s1
  else None.

Definition try_resync (k : kernel) (names : list name) (budget : option nat) (s : st) : option (st * option nat) :=
  let s1 := if s_full s then begin_full k s else if s_bgreq s then begin_bg k s else s in
  drain k names budget s1.

(* ---------------------------------------------------------------- deletions *)
Definition pending_del (s : st) : gset name := dom (s_dp s) ∖ dom (s_des s).
Definition delete_failed (s : st) (n : name) : bool :=
  match s_dp s !! n with Some (_, (df, _)) => df | None => false end.

(* after a successful destroy: a set that is only filtered out keeps its member tracker, with an empty dataplane
   side; otherwise the tracker goes *)
Definition forget_set (n : name) (s : st) : st :=
  match s_all s !! n, s_trk s !! n with
  | Some _, Some (d, _) => set_trk <[n := (d, ∅)]> s
  | Some _, None => s
  | None, _ => set_trk (delete n) s
  end.

(* One pass of PendingDeletions().Iter in tryTempIPSetDeletions (temp_only) or ApplyDeletions.
   `tries` = destroy attempts in order, with whether a fault was injected into that destroy.
   Returns state, kernel, events, number of successful deletions (0 or 1). *)
Fixpoint del_pass (temp_only : bool) (tries : list (name * bool)) (done : gset name) (k : kernel) (s : st)
  : option (st * kernel * list event * nat) :=
  let eligible := filter (λ n, (negb temp_only || is_temp n) && negb (delete_failed s n) = true) (pending_del s) in
  match tries with
  | [] => if bool_decide (eligible ⊆ done) then Some (s, k, [], O) else None
  | (n, inj) :: rest =>
      if bool_decide (n ∈ eligible) && negb (bool_decide (n ∈ done)) then
        match (if inj then None else exec k (CDestroy n)) with
        | None =>
            let s1 := if temp_only then s
                      else match s_dp s !! n with
                           | Some (m, (_, lf)) => set_dp <[n := (m, (true, lf))]> s
                           | None => s end in
            match del_pass temp_only rest ({[n]} ∪ done) k s1 with
            | Some (s2, k2, ev, c) => Some (s2, k2, (CDestroy n, false, k) :: ev, c)
            | None => None
            end
        | Some k' =>
            match rest with
            | [] =>
                let s1 := rq_remove n s in
                let s2 := if temp_only then s1 else forget_set n s1 in
                Some (set_dp (delete n) s2, k', [(CDestroy n, true, k')], 1%nat)
            | _ => None      (* MaxIPSetDeletionsPerIteration = 1 *)
            end
        end
      else None
  end.

(* ApplyDeletions; result also carries the reschedule flag *)
Definition apply_deletions (tries : list (name * bool)) (k : kernel) (s : st)
  : option (st * kernel * list event * bool) :=
  match del_pass false tries ∅ k s with
  | Some (s', k', ev, c) =>
      let resched := negb (rq_empty s') || (negb (Nat.eqb c 0) && negb (bool_decide (pending_del s' = ∅))) in
      Some (s', k', ev, resched)
  | None => None
  end.

(* ---------------------------------------------------------------- updates *)
Definition needs_meta (s : st) (n : name) : bool :=
  match s_des s !! n with
  | Some m => negb (bool_decide (s_dp s !! n = Some (clean m)))
  | None => false end.
Definition pending_meta (s : st) : gset name := filter (λ n, needs_meta s n = true) (dom (s_des s)).
Definition dirty1 (s : st) : gset name := s_dirty s ∩ dom (s_des s).
Definition dirty2 (s : st) : gset name := pending_meta s ∖ s_dirty s.

(* nextFreeTempIPSetName: first index from s_next whose name is not in the dataplane view *)
Fixpoint next_free_from (fuel : nat) (dp : gmap name dmeta) (i : N) : N :=
  match fuel with
  | O => i
  | S f => if bool_decide (is_Some (dp !! temp_name i)) then next_free_from f dp (i + 1) else i
  end.
Definition next_free (s : st) : N := next_free_from (S (size (s_dp s))) (s_dp s) (s_next s).

(* Check the lines one writeUpdates call wrote against what it has to write:
   [create]; del* (any order, each pending deletion once); add* (any order); [swap]. *)
Fixpoint take_dels (l : list cmd) : list (name * member) :=
  match l with CDel n x :: r => (n, x) :: take_dels r | _ => [] end.
Fixpoint take_adds (l : list cmd) : list (name * member) :=
  match l with CAdd n x :: r => (n, x) :: take_adds r | _ => [] end.

(* Returns (members deleted, members added, block complete) or None if the code cannot write this. *)
Definition check_block (target main : name) (cm : meta) (need_c need_t : bool)
           (dels adds : gset member) (lines : list cmd) : option (gset member * gset member * bool) :=
  let '(cr, l1) := match lines with CCreate n m :: r => (Some (n, m), r) | _ => (None, lines) end in
  let dl := take_dels l1 in
  let l2 := drop (length dl) l1 in
  let al := take_adds l2 in
  let l3 := drop (length al) l2 in
  let '(sw, l4) := match l3 with CSwap a b :: r => (Some (a, b), r) | _ => (None, l3) end in
  let dset : gset member := list_to_set (dl.*2) in
  let aset : gset member := list_to_set (al.*2) in
  let ok_cr := match cr with
               | Some (n, m) => need_c && bool_decide (n = target) && bool_decide (m = cm)
               | None => negb need_c end in
  let ok_dl := forallb (λ p, bool_decide (p.1 = target)) dl && bool_decide (NoDup (dl.*2)) && bool_decide (dset ⊆ dels) in
  let ok_al := forallb (λ p, bool_decide (p.1 = target)) al && bool_decide (NoDup (al.*2)) && bool_decide (aset ⊆ adds)
               && (match al with [] => true | _ => bool_decide (dset = dels) end) in
  let ok_sw := match sw with
               | Some (a, b) => need_t && bool_decide (a = main) && bool_decide (b = target)
                                && bool_decide (dset = dels) && bool_decide (aset = adds)
               | None => true end in
  if ok_cr && ok_dl && ok_al && ok_sw && bool_decide (l4 = []) then
    Some (dset, aset, bool_decide (dset = dels) && bool_decide (aset = adds)
                      && (negb need_t || match sw with Some _ => true | None => false end))
  else None.

(* writeUpdates for main set `n`; `lines` = what it wrote; `wfail` = the write of the last line
   returned an error (so that line did not count as written).  `fx` = the repair of fixes/C16-*.patch
   (a temporary set whose block failed is queued for re-listing).
   Returns the new state and whether writeUpdates returned an error. *)
Definition write_updates (fx : bool) (n : name) (lines : list cmd) (wfail : bool) (s : st) : option (st * bool) :=
  match s_des s !! n, s_trk s !! n with
  | Some dm, Some (md, mp) =>
      let dpm := s_dp s !! n in
      let need_t := match dpm with Some d => negb (bool_decide (d = clean dm)) | None => false end in
      let need_c := match dpm with Some _ => false | None => true end in
      let i := next_free s in
      let target := if need_t then temp_name i else n in
      let s1 := if need_t then set_next (i + 1) (set_trk <[n := (md, ∅)]> s) else s in
      let mp1 : gset member := if need_t then ∅ else mp in
      let dels := mp1 ∖ md in
      let adds := md ∖ mp1 in
      match check_block target n (norm_meta dm) (need_c || need_t) need_t dels adds lines with
      | None => None
      | Some (dset, aset, complete) =>
          if wfail then
            match lines with
            | [] => None
            | _ =>
                let wr := removelast lines in
                let dset' : gset member := list_to_set (omap (λ c, match c with CDel _ x => Some x | _ => None end) wr) in
                let aset' : gset member := list_to_set (omap (λ c, match c with CAdd _ x => Some x | _ => None end) wr) in
                let s2 := set_trk <[n := (md, (mp1 ∖ dset') ∪ aset')]> s1 in
                Some (if fx && need_t then rq_add_must target s2 else s2, true)
            end
          else if complete then
            let s2 := set_trk <[n := (md, md)]> s1 in
            (* the temporary name now holds the old set; the code copies the old view metadata INCLUDING the
               DeleteFailed / ListFailed flags unless repaired (s_fix2) *)
            let s3 := if need_t then match dpm with Some d => set_dp <[target := if s_fix2 s then clean d.1 else d]> s2 | None => s2 end else s2 in
            let s4 := if need_c || need_t then set_dp <[n := clean dm]> s3 else s3 in
            Some (s4, false)
          else None
      end
  | _, _ => None     (* the Go code panics; unreachable from the API *)
  end.

(* what the driver observed of one attempt of the retry loop in ApplyUpdates *)
Record attempt_obs := mkAtt {
  a_resync : list name;                 (* names passed to `ipset list <name>`, in order *)
  a_tmpdel : list (name * bool);        (* destroys attempted by tryTempIPSetDeletions (name, fault injected) *)
  a_blocks : list (name * list cmd);    (* restore input grouped by writeUpdates call *)
  a_inj : option nat;                   (* index of the restore line that was made to fail *)
  a_wfail : bool                        (* Felix's write of the LAST line of a_blocks failed (the process had died at that line or earlier) *)
}.

Fixpoint write_blocks (fx : bool) (bs : list (name * list cmd)) (wfail : bool) (s : st) : option (st * bool) :=
  match bs with
  | [] => Some (s, false)
  | (n, ls) :: rest =>
      let last := match rest with [] => true | _ => false end in
      match write_updates fx n ls (wfail && last) s with
      | Some (s', false) => write_blocks fx rest wfail s'
      | Some (s', true) => match rest with [] => Some (s', true) | _ => None end
      | None => None
      end
  end.

(* the order of dirtyIPSetsForUpdate: dirty desired sets (any order) then sets with pending metadata *)
Definition check_order (complete : bool) (d1 d2 : gset name) (ns : list name) : bool :=
  let l1 := filter (λ n, n ∈ d1) ns in
  let l2 := filter (λ n, n ∉ d1) ns in
  bool_decide (NoDup ns) && bool_decide (ns = l1 ++ l2) && bool_decide (list_to_set l2 ⊆ d2)
  && (match l2 with [] => true | _ => bool_decide (list_to_set l1 = d1) end)
  && (negb complete || (bool_decide (list_to_set l1 = d1) && bool_decide (list_to_set l2 = d2))).

(* tryUpdates.  Returns state, kernel, events, failed?
   A fault: the restore process dies at line `a_inj` (or at a line the kernel refuses); Felix either never sees a
   write error (all later lines are written into the void and only the exit status is bad) or its write of some
   LATER-OR-SAME line fails (`a_wfail`: the last line of the observed script is that line). *)
Definition try_updates (fx : bool) (a : attempt_obs) (k : kernel) (s : st) : option (st * kernel * list event * bool) :=
  let d1 := dirty1 s in
  let d2 := dirty2 s in
  if bool_decide (d1 ∪ d2 = ∅) then
    match a_blocks a, a_inj a with [], None => Some (s, k, [], false) | _, _ => None end
  else
    let ns := (a_blocks a).*1 in
    let script := concat ((a_blocks a).*2) in
    if check_order (negb (a_wfail a)) d1 d2 ns then
      match write_blocks fx (a_blocks a) (a_wfail a) s with
      | Some (s1, werr) =>
          if bool_decide (werr = a_wfail a) then
            let '(ev, k', pfail) := run_script k script O (a_inj a) in
            if werr && negb pfail then None      (* a write only fails once the process is gone *)
            else if werr || pfail then
              Some (foldr rq_add_must s1 ns, k', ev, true)
            else Some (set_dirty (λ _, ∅) s1, k', ev, false)
          else None
      | None => None
      end
    else None.

Definition MaxRetryAttempt : nat := 10.

(* the retry loop of ApplyUpdates *)
Fixpoint apply_updates_loop (fx : bool) (obs : list attempt_obs) (att : nat) (budget : option nat) (k : kernel) (s : st)
  : option (st * kernel * list event) :=
  match obs with
  | [] => None
  | a :: rest =>
      let r1 := if s_full s || s_bgreq s || negb (rq_empty s) then try_resync k (a_resync a) budget s
                else match a_resync a with [] => Some (s, budget) | _ => None end in
      match r1 with
      | None => None
      | Some (s1, budget1) =>
          match del_pass true (a_tmpdel a) ∅ k s1 with
          | None => None
          | Some (s2, k2, ev2, _) =>
              match try_updates fx a k2 s2 with
              | None => None
              | Some (s3, k3, ev3, false) =>
                  match rest with [] => Some (set_full false s3, k3, ev2 ++ ev3) | _ => None end
              | Some (s3, k3, ev3, true) =>
                  let s4 := if Nat.leb (MaxRetryAttempt / 2) att then set_full true s3 else s3 in
                  if Nat.eqb (S att) MaxRetryAttempt then
                    match rest with [] => Some (set_panic true s4, k3, ev2 ++ ev3) | _ => None end
                  else
                    match apply_updates_loop fx rest (S att) budget1 k3 s4 with
                    | Some (s5, k5, ev5) => Some (s5, k5, ev2 ++ ev3 ++ ev5)
                    | None => None
                    end
              end
          end
      end
  end.

Definition apply_updates (fx : bool) (obs : list attempt_obs) (budget : option nat) (k : kernel) (s : st) :=
  apply_updates_loop fx obs O budget k s.
