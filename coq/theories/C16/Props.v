(* C16 - property theorems only.  Each is closed by `exact <lemma>` and followed by Print Assumptions.

   Vocabulary (Model.v / ProofsSafe.v / ProofsMain.v):
   - `reach fx s k D`: IPSets state s, kernel k and desired sets D (set id -> metadata, members; D = the sets asked
     for that are NEEDED under the current SetFilter filter, `eff A F`) are reachable from
     the initial state by ANY sequence of API calls (AddOrReplaceIPSet, AddMembers, RemoveMembers, RemoveIPSet,
     QueueResync, SetFilter), ApplyUpdates / ApplyDeletions runs with ANY choices the code can
     make (map iteration orders, which command fails and how, how many retries, full/background/partial resyncs) and
     ANY change to the kernel by somebody else between two of Felix's operations (so the starting kernel, with stale
     temporary sets and foreign sets, is arbitrary).  fx = with/without the repair of fixes/C16-*.patch.
   - `ev`: the kernel-changing commands one ApplyUpdates / ApplyDeletions issued, each with its outcome and the kernel
     state after it.
   - `events_safe (want_of D) k ev`: for every command in ev, with kp/kn the kernel before/after it and every set n:
       not Felix's name          -> kn !! n = kp !! n
       desired, existed          -> still exists and is (a) unchanged, or (b) EXACTLY the desired parameters and
                                    members, or (c) same parameters, members added are desired ones, members removed
                                    are undesired ones
       desired, did not exist    -> absent, or created empty with the desired parameters. *)
From stdpp Require Import gmap.
From Coq Require Import NArith.
From Verif.C16 Require Import Model Spec Proofs ProofsSafe ProofsMain ProofsConv ProofsConv2.
Open Scope N_scope.

(* Kernel: one command changes only the sets it names. *)
Theorem c16_command_is_local : forall k c k' n,
  exec k c = Some k' -> n ∉ cmd_names c -> k' !! n = k !! n.
Proof. exact exec_other. Qed.
Print Assumptions c16_command_is_local.

(* Failures at any command + resyncs + any starting kernel: the model's bookkeeping invariant (names tracked are
   Felix's, desired names are main-set names with a member tracker) and the agreement "what IPSets wants = what the
   API calls asked for" hold in EVERY reachable state. *)
Theorem c16_any_history : forall fx s k D,
  reach fx s k D -> WF s /\ (forall n, wants s n = want_of D n).
Proof. exact reach_inv. Qed.
Print Assumptions c16_any_history.

(* At every intermediate kernel state of every ApplyUpdates of every history: foreign sets untouched, desired sets
   never destroyed, a desired set holds its old value or exactly its new value (swap) or moves member by member
   toward the desired members with unchanged parameters. *)
Theorem c16_swap_atomic : forall fx s k D obs budget s' k' ev,
  reach fx s k D -> apply_updates fx obs budget k s = Some (s', k', ev) ->
  events_safe (want_of D) k ev /\ k' = last_kernel k ev.
Proof. exact updates_safe. Qed.
Print Assumptions c16_swap_atomic.

(* ... and of every ApplyDeletions. *)
Theorem c16_deletions_safe : forall fx s k D tries s' k' ev rs,
  reach fx s k D -> apply_deletions tries k s = Some (s', k', ev, rs) ->
  events_safe (want_of D) k ev /\ k' = last_kernel k ev.
Proof. exact deletions_safe. Qed.
Print Assumptions c16_deletions_safe.

(* The same in the oracle's terms: the per-command check of Spec.v (`step_ok`, the one applied to the
   implementation's observed kernels) accepts every command of every model run. *)
Theorem c16_model_meets_spec : forall D k ev, events_safe (want_of D) k ev -> cmds_ok D k ev = true.
Proof. exact events_safe_bool. Qed.
Print Assumptions c16_model_meets_spec.

(* Sets that are not Felix's are identical after every single command and at the end. *)
Theorem c16_foreign_untouched : forall W k ev n,
  events_safe W k ev -> owned n = false ->
  Forall (fun e : event => e.2 !! n = k !! n) ev /\ last_kernel k ev !! n = k !! n.
Proof. exact safe_foreign. Qed.
Print Assumptions c16_foreign_untouched.

(* A desired set that exists is there after every single command: never destroyed while desired. *)
Theorem c16_never_destroy_desired : forall W k ev n w,
  events_safe W k ev -> owned n = true -> W n = Some w -> is_Some (k !! n) ->
  Forall (fun e : event => is_Some (e.2 !! n)) ev.
Proof. exact safe_not_destroyed. Qed.
Print Assumptions c16_never_destroy_desired.

(* Convergence of the temp-set-and-swap path, independent of what Felix believed about the kernel and of the
   kernel's state: if the commands writeUpdates wrote for a metadata change all succeed, the main set is exactly
   the desired set. *)
Theorem c16_converges_swap_block : forall fx M lines s s' k i inj dm md mp d,
  s_des s !! M = Some dm -> s_trk s !! M = Some (md, mp) ->
  s_dp s !! M = Some d -> d <> clean dm ->
  write_updates fx M lines false s = Some (s', false) ->
  (run_script k lines i inj).2 = false ->
  (run_script k lines i inj).1.2 !! M = Some (norm_meta dm, md).
Proof. exact swap_block_exact. Qed.
Print Assumptions c16_converges_swap_block.

(* c16_converges is FALSE of the faithful model of the code as it is (finding, replayed on the real code by the
   correspondence run, key temp-set-leaked-after-failed-write).  `lk_checks` runs the model's own functions on:
   kernel {cali40s0: hash:ip maxelem 100 {10.0.0.1}}; AddOrReplaceIPSet(s0, same); ApplyUpdates (start-of-day resync);
   ApplyDeletions; AddOrReplaceIPSet(s0, maxelem 200, {10.0.0.1, 10.0.0.2}); ApplyUpdates in which the write of
   `swap cali40s0 cali4t0` fails and the retry (cali4t1) succeeds; ApplyDeletions (destroys cali4t1); one more
   ApplyUpdates + ApplyDeletions.  It states: every step is accepted by the model; the last apply issues no command
   and asks for no reschedule; no pending deletion, empty resync queue, no resync requested, nothing dirty; cali4t0
   is in the kernel and unknown to IPSets; the oracle's `converged` is false. *)
Theorem c16_converges_refuted : lk_checks = true.
Proof. exact lk_checks_true. Qed.
Print Assumptions c16_converges_refuted.

(* The same history on the model of the repaired code (fixes/C16-requeue-temp-set-on-write-failure.patch) ends
   converged: non-vacuity of the repair flag and of `converged`. *)
Theorem c16_converges_repaired_example : fk_checks = true.
Proof. exact fk_checks_true. Qed.
Print Assumptions c16_converges_repaired_example.

(* Non-vacuity of the safety theorems: the reachable history above contains a failing command, a retry, a partial
   resync, two swaps and two destroys (lk_r3, lk_r4 are `Some`), so `reach`, `apply_updates = Some ...` and
   `apply_deletions = Some ...` are satisfiable by non-trivial states. *)


(* ------------------------------------------------------------------------------------------------------------
   Convergence of the repaired code (fixes/C16-requeue-temp-set-on-write-failure.patch, in /repo as fc39ea1).

   `reachF s k D`: like `reach true`, but the kernel is changed by Felix's commands only (any starting kernel that
   reports metadata the way `ipset list` prints it - `knorm` -, stale temporary sets and foreign sets included; any
   API calls; ApplyUpdates / ApplyDeletions with any accepted choices: any command failing, seen as a bad exit
   status or as a failed write at that line or lines later, retries, full / background / partial resyncs).

   `J s k` = WF s /\ knorm k /\ (a full resync is pending \/ V s k), where `V s k` says: for every name n of
   Felix's that is NOT queued for a must-resync, Felix's view of n is accurate -
     temporary name: if it is in the kernel it is in the dataplane view;
     other name: either absent from both the view and the kernel (and its member tracker's dataplane side is
       empty), or present in both with the kernel's metadata = the normalised view metadata and the kernel's members
       = the tracker's dataplane side -
   and, if n is desired and its tracker's desired and dataplane sides differ, n is in the dirty set. *)
Theorem c16_view_accurate : forall s k D, reachF s k D -> J s k.
Proof. exact reachF_J. Qed.
Print Assumptions c16_view_accurate.

(* One writeUpdates call of the repaired code, in-place add/del path or temp-set-and-swap path alike: if Felix's
   view of the set was accurate and every command of the block succeeds, the kernel set is exactly the desired set
   (desired parameters as `create` uses them, desired members) and the new view (clean desired metadata, tracker
   in sync) is accurate again. *)
Theorem c16_block_exact : forall M ls s s1 k i inj,
  write_updates true M ls false s = Some (s1, false) -> WF s -> acc s k M ->
  (run_script k ls i inj).2 = false ->
  exists dm md, s_des s !! M = Some dm /\ s_dp s1 !! M = Some (clean dm) /\ s_trk s1 !! M = Some (md, md)
             /\ (run_script k ls i inj).1.2 !! M = Some (norm_meta dm, md).
Proof. exact wu_exact. Qed.
Print Assumptions c16_block_exact.

(* c16_converges.  In every state reachable across failed commands and resyncs from any starting kernel, once Felix
   has nothing left to do - `quiet s`: no full resync pending, must-queue empty, no dirty or metadata-pending desired
   set, no pending deletion (which is the state a successful ApplyUpdates followed by ApplyDeletions runs leave when
   every destroy succeeded) - EVERY name owned by Felix is in the kernel exactly as desired: a desired set has
   exactly the desired type/parameters and members, and no other owned set (stale main set, temporary set, set with
   a historic prefix) remains. *)
Theorem c16_converges : forall s k D n,
  reachF s k D -> quiet s -> owned n = true -> k !! n = want_of D n.
Proof. exact converges. Qed.
Print Assumptions c16_converges.

(* Non-vacuity of `quiet`: the repaired example history (a failed write, a retry, a swap, two destroys) ends quiet. *)
Theorem c16_quiet_example : quietb (d_s fk_r6) = true.
Proof. exact fk_quiet. Qed.
Print Assumptions c16_quiet_example.

(* c16_converges in the words of the property statement: from ANY starting kernel (knorm), across ANY history of API
   calls, failed commands, retries and resyncs (reachF), after an ApplyUpdates that returns (does not panic after 10
   failed attempts) followed by an ApplyDeletions that leave no pending deletion (every destroy it needed succeeded;
   with MaxIPSetDeletionsPerIteration = 1 that is the last of the rescheduled runs), every Felix-owned name is in the
   kernel exactly as desired: desired sets have exactly the desired type/parameters and members, no other owned set
   remains. *)
Theorem c16_converges_after_apply : forall s k D obs budget s1 k1 ev1 tries s2 k2 ev2 rs n,
  reachF s k D ->
  apply_updates true obs budget k s = Some (s1, k1, ev1) -> s_panic s1 = false ->
  apply_deletions tries k1 s1 = Some (s2, k2, ev2, rs) -> pending_del s2 = ∅ ->
  owned n = true -> k2 !! n = want_of D n.
Proof. exact converges_after_apply. Qed.
Print Assumptions c16_converges_after_apply.

(* Second finding (key temp-set-inherits-delete-failed, replayed on the real code by the correspondence run): on the
   code as it is (s_fix2 = false) a set whose destroy was refused and that becomes desired again with other parameters
   leaves its old incarnation behind under a temporary name that inherits the DeleteFailed flag: `fl_checks` runs the
   model on that history and states that the final ApplyDeletions attempts nothing, the temporary set is in the kernel
   and the oracle's `converged` is false.  (c16_converges does not apply: the flagged set is a pending deletion.) *)
Theorem c16_flags_refuted : fl_checks = true.
Proof. exact fl_checks_true. Qed.
Print Assumptions c16_flags_refuted.

(* With fixes/C16-temp-set-flags.patch (s_fix2 = true) the same history ends converged. *)
Theorem c16_flags_repaired_example : fl_fixed_checks = true.
Proof. exact fl_fixed_checks_true. Qed.
Print Assumptions c16_flags_repaired_example.

(* Histories with SetFilter, with the bookkeeping spelled out: A = every set asked for and not removed, F = the
   filter.  In every reachable state the model is well-formed (in particular: the desired view is exactly the needed
   part of the added sets, every added set keeps its member tracker while filtered out) and agrees with (A, F):
   same filter, same added sets, and the tracker of every added set - needed or not - holds the members asked for.
   `reach`/`reachF` used above are `exists A F, reachA/reachFA ... /\ D = eff A F`, so c16_any_history,
   c16_swap_atomic, c16_view_accurate, c16_converges and c16_converges_after_apply all range over histories
   containing SetFilter; a set that is not needed is not desired (it may be, and is, deleted), and after a
   successful apply every NEEDED set is exact. *)
Theorem c16_any_history_filter : forall fx s k A F,
  reachA fx s k A F -> WF s /\ relA A F s.
Proof. exact reachA_inv. Qed.
Print Assumptions c16_any_history_filter.
