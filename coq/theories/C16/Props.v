(* C16 - property theorems only.  Each is closed by `exact <lemma>` and followed by Print Assumptions. *)
From stdpp Require Import gmap.
From Coq Require Import NArith.
From Verif.C16 Require Import Model Spec Proofs.
Open Scope N_scope.

(* Kernel: one command changes only the sets it names. *)
Theorem c16_command_is_local : forall k c k' n,
  exec k c = Some k' -> n ∉ cmd_names c -> k' !! n = k !! n.
Proof. exact exec_other. Qed.
Print Assumptions c16_command_is_local.
