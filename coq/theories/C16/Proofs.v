(* C16 - proofs, part 1: kernel command semantics. *)
From stdpp Require Import gmap.
From Coq Require Import NArith.
From Verif.C16 Require Import Model Spec.
Open Scope N_scope.

Definition cmd_names (c : cmd) : list name :=
  match c with
  | CCreate n _ | CAdd n _ | CDel n _ | CDestroy n => [n]
  | CSwap a b => [a; b]
  end.

(* a command changes only the sets it names *)
Lemma exec_other k c k' n :
  exec k c = Some k' -> n ∉ cmd_names c -> k' !! n = k !! n.
Proof.
  destruct c; simpl; intros He Hn; repeat case_match; simplify_eq;
    repeat (apply not_elem_of_cons in Hn as [? Hn]);
    rewrite ?lookup_insert_ne, ?lookup_delete_ne by congruence; done.
Qed.

(* only `destroy` removes a set *)
Lemma exec_keeps k c k' n :
  exec k c = Some k' -> is_Some (k !! n) -> c ≠ CDestroy n -> is_Some (k' !! n).
Proof.
  destruct c; simpl; intros He Hn Hc; repeat case_match; simplify_eq;
    try (destruct (decide (n = n0)) as [->|]; [rewrite lookup_insert; eauto | rewrite lookup_insert_ne by done; done]).
  - destruct (decide (n = a)) as [->|]; [rewrite lookup_insert; eauto|].
    rewrite lookup_insert_ne by done.
    destruct (decide (n = b)) as [->|]; [rewrite lookup_insert; eauto|].
    rewrite lookup_insert_ne by done; done.
  - destruct (decide (n = n0)) as [->|]; [congruence|]. rewrite lookup_delete_ne by done; done.
Qed.
