(* C16 - proofs, part 5: the view invariant through tryUpdates, the retry loop and every history; convergence. *)
From stdpp Require Import gmap.
From Coq Require Import NArith.
From Verif.C16 Require Import Model Spec Proofs ProofsSafe ProofsMain ProofsConv.
Open Scope N_scope.
Local Arguments exec : simpl never.

Lemma foldr_rq_add_must_fields l s :
  s_must (foldr rq_add_must s l) = s_must s ∪ list_to_set l
  ∧ s_dp (foldr rq_add_must s l) = s_dp s ∧ s_trk (foldr rq_add_must s l) = s_trk s
  ∧ s_des (foldr rq_add_must s l) = s_des s ∧ s_dirty (foldr rq_add_must s l) = s_dirty s
  ∧ s_filter (foldr rq_add_must s l) = s_filter s.
Proof.
  induction l as [|n l (E1 & E2 & E3 & E4 & E5 & E6)]; simpl; [split_and!; try done; set_solver|].
  unfold rq_add_must. case_bool_decide; simpl; rewrite ?E1, ?E2, ?E3, ?E4, ?E5, ?E6; split_and!; try done; set_solver.
Qed.

Lemma check_order_NoDup c d1 d2 ns : check_order c d1 d2 ns = true -> NoDup ns.
Proof.
  unfold check_order. intros H.
  repeat match goal with H : _ && _ = true |- _ => apply andb_true_iff in H as [H ?] end.
  by apply bool_decide_eq_true in H.
Qed.

Lemma check_order_complete d1 d2 ns : check_order true d1 d2 ns = true -> d1 ∪ d2 ⊆ list_to_set ns.
Proof.
  unfold check_order. intros H.
  repeat match goal with H : _ && _ = true |- _ => apply andb_true_iff in H as [H ?] end.
  simpl in *.
  repeat match goal with H : _ && _ = true |- _ => apply andb_true_iff in H as [H ?] end.
  repeat match goal with H : bool_decide _ = true |- _ => apply bool_decide_eq_true in H end.
  intros x Hx. apply elem_of_union in Hx as [Hx|Hx].
  - match goal with H : list_to_set (filter _ ns) = d1 |- _ => rewrite <- H in Hx end.
    apply elem_of_list_to_set in Hx. apply elem_of_list_filter in Hx as [_ Hx]. by apply elem_of_list_to_set.
  - match goal with H : list_to_set (filter _ ns) = d2 |- _ => rewrite <- H in Hx end.
    apply elem_of_list_to_set in Hx. apply elem_of_list_filter in Hx as [_ Hx]. by apply elem_of_list_to_set.
Qed.

Lemma acc_local s s' k k' m :
  s_dp s' !! m = s_dp s !! m -> s_trk s' !! m = s_trk s !! m -> k' !! m = k !! m -> acc s k m -> acc s' k' m.
Proof. intros E1 E2 E3. unfold acc. by rewrite E1, E2, E3. Qed.

Lemma good1_temp_known s k m :
  is_temp m = true -> s_des s !! m = None -> is_Some (s_dp s !! m) -> good1 s k m.
Proof.
  intros Ht Hd Hk. split.
  - unfold acc. rewrite Ht. by right.
  - unfold dirty_ok. rewrite Hd. intros d p [? ?]. done.
Qed.

Lemma try_updates_V a k s s' k' ev f :
  try_updates true a k s = Some (s', k', ev, f) -> WF s -> knorm k -> V s k -> s_must s = ∅ ->
  V s' k' ∧ knorm k' ∧ (f = false → s_must s' = ∅ ∧ dirty1 s' ∪ dirty2 s' = ∅).
Proof.
  intros H Hs Hn Hv Hm. unfold try_updates in H. case_bool_decide as Hdirty.
  { repeat case_match; simplify_eq. done. }
  destruct (check_order _ _ _ _) eqn:Hco; [|done].
  destruct (write_blocks true (a_blocks a) (a_wfail a) s) as [[s1 werr]|] eqn:Ewb; [|done].
  case_bool_decide as Hwe; [|done]. subst werr.
  set (ns := (a_blocks a).*1) in *. set (script := concat (a_blocks a).*2) in *.
  destruct (wb_foot _ _ _ _ _ Ewb Hs) as (B1 & B2 & B3 & B4 & B5 & B6 & B7 & B8).
  destruct (write_blocks_good _ _ _ _ _ _ Ewb Hs) as [W1 Hdes].
  destruct (blocks_safe _ _ _ _ _ _ Ewb (WF_WFd _ Hs)) as [(_ & _ & _ & Bf & _) _].
  pose proof (run_script_knorm script k O (a_inj a) Hn B7) as Hn1.
  pose proof (WF_no_temp_des _ Hs) as Hntd.
  assert (∀ m, owned m = true → good1 s k m) as Hg.
  { intros m Ho. destruct (Hv m Ho) as [?|[?|?]]; [set_solver|set_solver|done]. }
  assert (∀ x, x ∈ ns → is_Some (s_des s !! x) ∧ is_temp x = false ∧ owned x = true) as Hns.
  { intros x Hx. rewrite Forall_forall in Hdes. specialize (Hdes x Hx).
    destruct (wf_des _ Hs x Hdes) as [E0 _]. unfold is_temp, owned. rewrite E0. done. }
  (* names not mentioned by the script are not touched in the kernel *)
  assert (∀ m, m ∉ ns → is_temp m = false → (run_script k script 0 (a_inj a)).1.2 !! m = k !! m) as Hk_nontemp.
  { intros m Hm1 Hm2. apply run_script_other. intros c Hc Hx.
    destruct (B6 c m Hc Hx) as [?|[Ht _]]; [done|congruence]. }
  assert (∀ m, is_temp m = true →
          (run_script k script 0 (a_inj a)).1.2 !! m = k !! m ∨ is_Some (s_dp s1 !! m) ∨ m ∈ s_must s1) as Hk_temp.
  { intros m Ht. destruct (decide (Exists (λ c, m ∈ cmd_names c) script)) as [He|He].
    - apply Exists_exists in He as (c & Hc & Hx). right.
      destruct (B6 c m Hc Hx) as [Hin|[_ ?]]; [|done]. destruct (Hns m Hin) as (_ & ? & _). congruence.
    - left. apply run_script_other. intros c Hc Hx. apply He. apply Exists_exists. eauto. }
  destruct (run_script k script 0 (a_inj a)) as [[ev1 k1] pf] eqn:Erun. cbn [fst snd] in *.
  destruct (a_wfail a && negb pf) eqn:Hbad; [done|].
  (* what holds for names outside the blocks, in both outcomes, up to dirtiness *)
  assert (∀ sx m, owned m = true → m ∉ ns → s_dp sx = s_dp s1 → s_trk sx = s_trk s1 → s_des sx = s_des s1 →
          s_must s1 ⊆ s_must sx → m ∈ s_must sx ∨ acc sx k1 m) as Hrest.
  { intros sx m Ho Hnin E1 E2 E3 E4. destruct (is_temp m) eqn:Ht.
    - destruct (Hk_temp m Ht) as [Hk|[Hk|Hk]].
      + right. destruct (Hg m Ho) as [Ha _]. unfold acc in *. rewrite Ht in *. rewrite Hk, E1.
        destruct Ha as [?|?]; [by left|right; by apply B4].
      + right. unfold acc. rewrite Ht, E1. by right.
      + left. set_solver.
    - right. destruct (Hg m Ho) as [Ha _]. destruct (B3 m Hnin Ht) as [F1 F2].
      eapply acc_local; [..|exact Ha]; [by rewrite E1|by rewrite E2|by apply Hk_nontemp]. }
  destruct (a_wfail a || pf) eqn:Hf; simplify_eq.
  - (* the session failed: every set written in it is queued for re-listing *)
    destruct (foldr_rq_add_must_fields ns s1) as (F1 & F2 & F3 & F4 & F5 & F6).
    split; [|split; [done|done]].
    intros m Ho. destruct (decide (m ∈ ns)) as [Hin|Hnin].
    { right; left. rewrite F1. set_solver. }
    destruct (Hrest (foldr rq_add_must s1 ns) m Ho Hnin F2 F3 F4) as [?|Ha]; [rewrite F1; set_solver|by (right; left)|].
    right; right. split; [done|].
    destruct (Hg m Ho) as [_ Hd]. unfold dirty_ok in *.
    assert (needed (foldr rq_add_must s1 ns) m = needed s m) as -> by (unfold needed; by rewrite F6, Bf).
    rewrite F4, F5, B1, B2, F3.
    destruct (is_temp m) eqn:Ht.
    + rewrite (Hntd m Ht). intros d p [? ?]. done.
    + destruct (B3 m Hnin Ht) as [_ ->]. done.
  - (* the session succeeded *)
    apply orb_false_iff in Hf as [Hwf Hpf]. subst pf. rewrite Hwf in *. simpl in Hco.
    pose proof (check_order_NoDup _ _ _ _ Hco) as Hnd.
    pose proof (check_order_complete _ _ _ Hco) as Hd1.
    assert (s_must s1 = ∅) as M1 by (rewrite B8; done).
    assert (∀ M, M ∈ ns → acc s k M) as Hacc.
    { intros M HM. destruct (Hns M HM) as (_ & _ & Ho). by destruct (Hg M Ho). }
    assert ((run_script k script 0 (a_inj a)).2 = false) as Hrun by (by rewrite Erun).
    pose proof (wb_exact _ _ _ _ _ _ Ewb Hs Hnd Hacc Hrun) as Hex. fold script in Hex. rewrite Erun in Hex. cbn [fst snd] in Hex.
    split; [|split; [done|]]; cycle 1.
    { intros _. split; [done|].
      assert (dirty1 (set_dirty (λ _, ∅) s1) = ∅) as -> by (unfold dirty1; simpl; set_solver).
      assert (pending_meta (set_dirty (λ _, ∅) s1) = ∅) as Hpm; [|unfold dirty2; rewrite Hpm; set_solver].
      apply elem_of_equiv_empty_L. intros x Hx. unfold pending_meta in Hx. apply elem_of_filter in Hx as [Hnm Hdom].
      simpl in Hdom. rewrite B1 in Hdom. apply elem_of_dom in Hdom as [mx Hmx].
      unfold needs_meta in Hnm. simpl in Hnm. rewrite B1, Hmx in Hnm.
      apply negb_true_iff, bool_decide_eq_false in Hnm. apply Hnm. clear Hnm.
      destruct (decide (x ∈ ns)) as [Hin|Hnin].
      - destruct (Hex x Hin) as (dm & md & E1 & E2 & _). congruence.
      - assert (is_temp x = false) as Ht.
        { destruct (wf_des _ Hs x) as [E0 _]; [eauto|]. unfold is_temp. by rewrite E0. }
        destruct (B3 x Hnin Ht) as [-> _].
        destruct (decide (needs_meta s x = true)) as [Hnm|Hnm].
        + exfalso. apply Hnin.
          assert (x ∈ pending_meta s) as Hpm by (unfold pending_meta; apply elem_of_filter; split; [done|apply elem_of_dom; eauto]).
          assert (x ∈ dirty1 s ∪ dirty2 s) as Hz.
          { destruct (decide (x ∈ s_dirty s)); [apply elem_of_union_l|apply elem_of_union_r].
            - unfold dirty1. apply elem_of_intersection. split; [done|]. apply elem_of_dom; eauto.
            - unfold dirty2. set_solver. }
          apply Hd1 in Hz. by apply elem_of_list_to_set in Hz.
        + apply not_true_is_false in Hnm. unfold needs_meta in Hnm. rewrite Hmx in Hnm.
          by apply negb_false_iff, bool_decide_eq_true in Hnm. }
    intros m Ho. right; right. destruct (decide (m ∈ ns)) as [Hin|Hnin].
    + destruct (Hex m Hin) as (dm & md & E1 & E2 & E3 & E4). destruct (Hns m Hin) as (_ & Ht & _).
      split.
      * unfold acc. rewrite Ht. simpl. rewrite E2, E4. split; [done|eauto].
      * unfold dirty_ok. simpl. rewrite E3. intros d p _ _ Heq Hne. by simplify_eq.
    + destruct (Hrest (set_dirty (λ _, ∅) s1) m Ho Hnin eq_refl eq_refl eq_refl) as [?|Ha]; [done|simpl in *; set_solver|].
      split; [done|].
      destruct (Hg m Ho) as [_ Hd]. unfold dirty_ok in *. simpl. rewrite B1.
      destruct (is_temp m) eqn:Ht.
      * rewrite (Hntd m Ht). intros d p [? ?]. done.
      * destruct (B3 m Hnin Ht) as [_ ->]. intros d p Hdes' Hnd' Htrk Hne. exfalso.
        assert (needed s m = true) as Hnd'' by (unfold needed in *; simpl in Hnd'; by rewrite <- Bf).
        specialize (Hd d p Hdes' Hnd'' Htrk Hne). apply Hnin.
        assert (m ∈ dirty1 s) as Hd1' by (unfold dirty1; apply elem_of_intersection; split; [done|by apply elem_of_dom]).
        assert (m ∈ dirty1 s ∪ dirty2 s) as Hd1'' by set_solver.
        apply Hd1 in Hd1''. by apply elem_of_list_to_set in Hd1''.
Qed.

(* ---------------------------------------------------------------- the retry loop, ApplyDeletions *)
Lemma V_fields s s' k :
  s_must s' = s_must s -> s_dp s' = s_dp s -> s_trk s' = s_trk s -> s_des s' = s_des s -> s_dirty s' = s_dirty s ->
  s_filter s' = s_filter s -> V s k -> V s' k.
Proof. intros E1 E2 E3 E4 E5 E6 H m Hm. eapply okx_fields; [..|exact (H m Hm)]; done. Qed.

(* Felix's view of the kernel: accurate for every set not queued for re-listing, unless a full resync is pending *)
Definition J (s : st) (k : kernel) : Prop := WF s ∧ knorm k ∧ (s_full s = true ∨ V s k).

Lemma apply_updates_loop_J obs : ∀ att budget k s s' k' ev,
  apply_updates_loop true obs att budget k s = Some (s', k', ev) -> J s k -> J s' k'.
Proof.
  induction obs as [|a rest IH]; intros att budget k s s' k' ev H (Hs & Hn & Hv); [done|].
  cbn [apply_updates_loop] in H.
  destruct (if s_full s || s_bgreq s || negb (rq_empty s) then try_resync k (a_resync a) budget s
             else match a_resync a with [] => Some (s, budget) | _ => None end) as [[s1 b1]|] eqn:E1; [|done].
  assert (good s s1 ∧ V s1 k ∧ s_must s1 = ∅) as (G1 & V1 & M1).
  { revert E1. destruct (s_full s || s_bgreq s || negb (rq_empty s)) eqn:Ec; intros E1.
    - split; [eapply good_try_resync; [exact E1|exact Hs]|]. eapply V_try_resync; [exact E1|done|done|done].
    - destruct (a_resync a); [|done]. simplify_eq.
      apply orb_false_iff in Ec as [Ec Ee]. apply orb_false_iff in Ec as [Ef _].
      apply negb_false_iff in Ee. unfold rq_empty in Ee. apply andb_true_iff in Ee as [Ee _].
      apply bool_decide_eq_true in Ee.
      split; [done|]. split; [|done]. destruct Hv as [?|?]; [congruence|done]. }
  destruct (del_pass true (a_tmpdel a) ∅ k s1) as [[[[s2 k2] ev2] c2]|] eqn:E2; [|done].
  destruct (del_pass_good _ _ _ _ _ _ _ _ _ E2 (proj1 G1)) as (G2 & _ & _).
  destruct (del_pass_V _ _ _ _ _ _ _ _ _ E2 (proj1 G1) Hn V1) as (V2 & N2 & M2).
  assert (s_must s2 = ∅) as M2' by (rewrite M1 in M2; set_solver).
  destruct (try_updates true a k2 s2) as [[[[s3 k3] ev3] f3]|] eqn:E3; [|done].
  destruct (try_updates_good _ _ _ _ _ _ _ _ E3 (proj1 G2)) as (G3 & _ & _).
  destruct (try_updates_V _ _ _ _ _ _ _ E3 (proj1 G2) N2 V2 M2') as (V3 & N3 & D3).
  destruct f3.
  - set (s4 := if Nat.leb (MaxRetryAttempt / 2) att then set_full true s3 else s3) in *.
    assert (J s4 k3) as J4.
    { subst s4. destruct (Nat.leb _ _).
      - split; [apply good_set_full, G3|]. split; [done|]. right. eapply V_fields; [..|exact V3]; done.
      - split; [apply G3|]. split; [done|]. by right. }
    destruct (Nat.eqb (S att) MaxRetryAttempt).
    + destruct rest; [|done]. simplify_eq. destruct J4 as (W4 & _ & Hv4).
      split; [apply good_set_panic, W4|]. split; [done|].
      destruct Hv4 as [?|Hv4']; [by left|right]. eapply V_fields; [..|exact Hv4']; done.
    + destruct (apply_updates_loop true rest (S att) b1 k3 s4) as [[[s5 k5] ev5]|] eqn:E5; [|done]. simplify_eq.
      eapply IH; done.
  - destruct rest; [|done]. simplify_eq.
    split; [apply good_set_full, G3|]. split; [done|]. right. eapply V_fields; [..|exact V3]; done.
Qed.

Lemma del_pass_full t tries : ∀ dn k s s' k' ev c,
  del_pass t tries dn k s = Some (s', k', ev, c) -> s_full s' = s_full s.
Proof.
  induction tries as [|[n inj] rest IH]; intros dn k s s' k' ev c H; simpl in H.
  - case_bool_decide; [|done]. by simplify_eq.
  - destruct (bool_decide (n ∈ _) && _); [|done].
    destruct (if inj then None else exec k (CDestroy n)) as [k1|].
    + destruct rest; [|done]. simplify_eq. destruct t; [done|]. simpl.
      destruct (forget_fields n (rq_remove n s)) as (_ & _ & _ & _ & _ & F6 & _). by rewrite F6.
    + set (s1 := if t then s else match s_dp s !! n with Some (m, (_, lf)) => set_dp <[n:=(m, (true, lf))]> s | None => s end) in *.
      destruct (del_pass t rest ({[n]} ∪ dn) k s1) as [[[[s2 k2] ev2] c2]|] eqn:Er; [|done]. simplify_eq.
      rewrite (IH _ _ _ _ _ _ _ Er). subst s1. repeat case_match; done.
Qed.

Lemma del_pass_knorm t tries : ∀ dn k s s' k' ev c,
  del_pass t tries dn k s = Some (s', k', ev, c) -> knorm k -> knorm k'.
Proof.
  induction tries as [|[n inj] rest IH]; intros dn k s s' k' ev c H Hn; simpl in H.
  - case_bool_decide; [|done]. by simplify_eq.
  - destruct (bool_decide (n ∈ _) && _); [|done].
    destruct (if inj then None else exec k (CDestroy n)) as [k1|] eqn:Ex.
    + destruct rest; [|done]. simplify_eq. destruct inj; [done|].
      eapply knorm_exec; [done|done|]. intros ? ? ?. done.
    + match type of H with context [del_pass t rest ?d k ?sx] =>
        destruct (del_pass t rest d k sx) as [[[[s2 k2] ev2] c2]|] eqn:Er; [|done] end.
      simplify_eq. eapply IH; done.
Qed.

Lemma apply_deletions_J tries k s s' k' ev rs :
  apply_deletions tries k s = Some (s', k', ev, rs) -> J s k -> J s' k'.
Proof.
  unfold apply_deletions. intros H (Hs & Hn & Hv).
  destruct (del_pass false tries ∅ k s) as [[[[s2 k2] ev2] c2]|] eqn:E2; [|done]. simplify_eq.
  destruct (del_pass_good _ _ _ _ _ _ _ _ _ E2 Hs) as (G2 & _ & _).
  pose proof (del_pass_full _ _ _ _ _ _ _ _ _ E2) as Ef.
  split; [apply G2|]. split; [by eapply del_pass_knorm|].
  destruct Hv as [Hf|Hv]; [left; congruence|].
  destruct (del_pass_V _ _ _ _ _ _ _ _ _ E2 Hs Hn Hv) as (V2 & N2 & _). by right.
Qed.

(* ---------------------------------------------------------------- API calls keep the view accurate *)
Lemma V_upd n s2 s k :
  V s k -> s_must s2 = s_must s -> (∀ m, m ≠ n → lstate s2 m = lstate s m) -> (acc s k n → acc s2 k n) ->
  V (upd_dirty n s2) k.
Proof.
  intros Hv Em Hl Ha m Ho. destruct (decide (m = n)) as [->|Hne].
  - destruct (Hv n Ho) as [?|[?|[Hg _]]]; [set_solver|right; left; by rewrite must_upd_dirty, Em|].
    right; right. apply good1_upd_dirty. by apply Ha.
  - destruct (Hv m Ho) as [?|[?|Hg]]; [set_solver|right; left; by rewrite must_upd_dirty, Em|].
    right; right. eapply good1_local; [|done|exact Hg]. rewrite lstate_upd_dirty by done. by apply Hl.
Qed.

Lemma V_add_or_replace id m ms s k : V s k -> V (add_or_replace id m ms s) k.
Proof.
  intros Hv. unfold add_or_replace. set (n := main_name id).
  apply (V_upd n _ s k Hv).
  - destruct (needed s n); done.
  - intros x Hx. unfold lstate, needed. destruct (needed_f (s_filter s) n); simpl; by rewrite !lookup_insert_ne.
  - assert (∀ X, s_dp X = s_dp s → s_trk X = s_trk s →
            acc s k n → acc (set_trk <[n:=(ms, match s_trk s !! n with Some (_, p) => p | None => ∅ end)]> X) k n) as Hx.
    { intros X E1 E2. unfold acc. simpl. rewrite E1, E2, lookup_insert. change (is_temp n) with false. cbv iota.
      destruct (s_dp s !! n) as [[dm fl]|], (k !! n) as [[km kms]|]; try done.
      + intros [E [d Hd]]. rewrite Hd. split; [done|eauto].
      + intros Hz d q Hq. simplify_eq. destruct (s_trk s !! n) as [[d0 p0]|] eqn:E; [by eapply Hz|done]. }
    destruct (needed s n); by apply Hx.
Qed.

Lemma V_remove id s k : V s k -> V (remove_ipset id s) k.
Proof.
  intros Hv. unfold remove_ipset. set (n := main_name id).
  assert (∀ x, x ≠ n → lstate (set_all (delete n) (set_des (delete n) s)) x = lstate s x) as Hl0.
  { intros x Hx. unfold lstate. simpl. by rewrite lookup_delete_ne. }
  destruct (s_dp s !! n) as [dmeta|] eqn:Edp.
  - destruct (s_trk s !! n) as [[d p0]|] eqn:Et.
    + apply (V_upd n _ s k Hv); [done| |].
      * intros x Hx. rewrite <- (Hl0 x Hx). unfold lstate. simpl. by rewrite !lookup_insert_ne.
      * unfold acc. simpl. rewrite lookup_insert, Edp, Et. change (is_temp n) with false. cbv iota.
        destruct dmeta as [dm fl]. destruct (k !! n) as [[km kms]|]; [|done].
        intros [E [d' Hd]]. simplify_eq. split; [done|eauto].
    + intros x Ho. destruct (decide (x = n)) as [->|Hne].
      * destruct (Hv n Ho) as [?|[?|[Ha _]]]; [set_solver|by (right; left)|]. right; right. split.
        -- unfold acc in *. simpl. done.
        -- unfold dirty_ok. simpl. rewrite lookup_delete. intros ? ? [? ?]. done.
      * destruct (Hv x Ho) as [?|[?|Hg]]; [set_solver|by (right; left)|]. right; right.
        eapply good1_local; [|done|exact Hg]. rewrite <- (Hl0 x Hne). done.
  - apply (V_upd n _ s k Hv); [done| |].
    + intros x Hx. rewrite <- (Hl0 x Hx). unfold lstate. simpl. by rewrite !lookup_delete_ne.
    + unfold acc. simpl. rewrite lookup_delete, Edp. change (is_temp n) with false. cbv iota.
      destruct (k !! n) as [[km kms]|]; [done|]. intros _ ? ? ?. done.
Qed.

Lemma V_change add id ms s k : V s k -> V (change_members add id ms s) k.
Proof.
  intros Hv. unfold change_members. set (n := main_name id).
  assert (∀ sx, s_must sx = s_must s → s_dp sx = s_dp s → s_trk sx = s_trk s → s_des sx = s_des s →
          s_dirty sx = s_dirty s → s_filter sx = s_filter s → V sx k) as Hsame by (intros; by eapply V_fields).
  destruct (s_all s !! n); [|by apply Hsame].
  case_bool_decide; [done|].
  destruct (s_trk s !! n) as [[d p0]|] eqn:Et; [|by apply Hsame].
  apply (V_upd n _ s k Hv); [done| |].
  - intros x Hx. unfold lstate. simpl. by rewrite !lookup_insert_ne.
  - unfold acc. simpl. rewrite lookup_insert, Et. change (is_temp n) with false. cbv iota.
    destruct (s_dp s !! n) as [[dm fl]|], (k !! n) as [[km kms]|]; try done.
    + intros [E [d' Hd]]. simplify_eq. split; [done|eauto].
    + intros Hz d' q' Hq. simplify_eq. by eapply Hz.
Qed.

(* SetFilter: the dirtiness of every added set is recomputed under the new filter *)
Lemma filter_fold_dirty l : ∀ s0 m d p,
  m ∈ l.*1 -> needed s0 m = true -> s_trk s0 !! m = Some (d, p) -> d ≠ p ->
  m ∈ s_dirty (foldr (λ nm s, filter_step nm.1 nm.2 s) s0 l).
Proof.
  induction l as [|[a ma] l IH]; intros s0 m d p Hin Hn Ht Hne; simpl in *; [set_solver|].
  set (s2 := foldr (λ nm s, filter_step nm.1 nm.2 s) s0 l) in *.
  unfold filter_step.
  set (s3 := if needed s2 a then set_des <[a:=ma]> s2 else set_des (delete a) s2).
  assert (s_trk s3 = s_trk s0 ∧ s_filter s3 = s_filter s0 ∧ s_dirty s3 = s_dirty s2) as (E1 & E2 & E3).
  { subst s3. assert (s_trk s2 = s_trk s0 ∧ s_filter s2 = s_filter s0) as [G1 G2].
    { subst s2. clear. induction l as [|[b mb] l [I1 I2]]; simpl; [done|]. unfold filter_step.
      match goal with |- context [upd_dirty ?x ?y] => destruct (fields_upd_dirty x y) as (_ & _ & F3 & _ & _ & _ & F7 & _) end.
      rewrite F3, F7. destruct (needed _ b); simpl; done. }
    destruct (needed s2 a); simpl; done. }
  destruct (decide (m = a)) as [->|Hma].
  - unfold upd_dirty. rewrite E1, Ht. unfold needed in *. rewrite E2, Hn.
    rewrite (bool_decide_eq_false_2 (d = p)) by done. simpl. set_solver.
  - assert (m ∈ s_dirty s2) as Hm2 by (eapply IH; [set_solver|done|done|done]).
    unfold upd_dirty. destruct (s_trk s3 !! a) as [[d' p']|]; [destruct (_ && _)|]; simpl; rewrite E3; set_solver.
Qed.

Lemma V_set_filter f s k : WF s -> V s k -> V (set_filter f s) k.
Proof.
  intros Hs Hv. unfold set_filter.
  assert (∀ fnew, V (foldr (λ nm s, filter_step nm.1 nm.2 s) (set_flt fnew s) (map_to_list (s_all s))) k) as Hbody.
  { intros fnew m Ho.
    destruct (filter_fold (map_to_list (s_all s)) (set_flt fnew s) (NoDup_fst_map_to_list _))
      as (E1 & E2 & E3 & E4 & E5 & E6 & E7 & E8).
    pose proof (filter_fold_dirty (map_to_list (s_all s)) (set_flt fnew s) m) as Hd.
    set (s' := foldr _ (set_flt fnew s) _) in *. simpl in E1, E2, E3, E4, E5, E6, E7.
    rewrite list_to_map_to_list in E8.
    destruct (Hv m Ho) as [?|[Hq|[Ha _]]]; [set_solver|right; left; by rewrite E5|].
    right; right. split.
    - unfold acc in *. by rewrite E4, E3.
    - unfold dirty_ok. intros d p Hdes Hn Ht Hne. rewrite E3 in Ht.
      unfold needed in Hn. rewrite E1 in Hn. simpl in Hn.
      rewrite E8 in Hdes. destruct (s_all s !! m) as [mm|] eqn:Ea.
      + eapply Hd; [|done|done|done]. apply elem_of_list_fmap. exists (m, mm). split; [done|].
        by apply elem_of_map_to_list.
      + simpl in Hdes. destruct (s_des s !! m) eqn:Ed; [|by destruct Hdes].
        destruct (wf_all _ Hs) as (W1 & _). destruct (W1 _ _ Ed). congruence. }
  destruct (s_filter s); [apply Hbody|]. destruct f; [apply Hbody|done].
Qed.

Lemma full_set_filter f s : s_full (set_filter f s) = s_full s.
Proof.
  unfold set_filter.
  assert (∀ x, s_full (foldr (λ nm s, filter_step nm.1 nm.2 s) (set_flt x s) (map_to_list (s_all s))) = s_full s) as Hb.
  { intros x. destruct (filter_fold (map_to_list (s_all s)) (set_flt x s) (NoDup_fst_map_to_list _)) as (_&_&_&_&_&_&E7&_).
    by rewrite E7. }
  destruct (s_filter s); [apply Hb|]. destruct f; [apply Hb|done].
Qed.

(* ---------------------------------------------------------------- every history (kernel changed by Felix only) *)
Inductive reachFA : st → kernel → gmap N (meta * gset member) → option (gset name) → Prop :=
| fa_init k0 b : knorm k0 → reachFA (set_fix2 b init_st) k0 ∅ None
| fa_add s k A F id m ms : reachFA s k A F → reachFA (add_or_replace id m ms s) k (<[id := (m, ms)]> A) F
| fa_remove s k A F id : reachFA s k A F → reachFA (remove_ipset id s) k (delete id A) F
| fa_change s k A F add id ms :
    reachFA s k A F →
    reachFA (change_members add id ms s) k (alter (λ v, (v.1, if add then v.2 ∪ ms else v.2 ∖ ms)) id A) F
| fa_resync s k A F : reachFA s k A F → reachFA (queue_resync s) k A F
| fa_filter s k A F f : reachFA s k A F → reachFA (set_filter f s) k A f
| fa_updates s k A F obs budget s' k' ev :
    reachFA s k A F → apply_updates true obs budget k s = Some (s', k', ev) → reachFA s' k' A F
| fa_deletions s k A F tries s' k' ev rs :
    reachFA s k A F → apply_deletions tries k s = Some (s', k', ev, rs) → reachFA s' k' A F.

Definition reachF (s : st) (k : kernel) (D : gmap N (meta * gset member)) : Prop :=
  ∃ A F, reachFA s k A F ∧ D = eff A F.

Lemma reachFA_reachA s k A F : reachFA s k A F -> reachA true s k A F.
Proof.
  induction 1; [apply ra_init|by apply ra_add|by apply ra_remove|by apply ra_change|by apply ra_resync|by eapply ra_filter
               |eapply ra_updates; [eassumption|eassumption]|eapply ra_deletions; [eassumption|eassumption]].
Qed.
Lemma reachF_reach s k D : reachF s k D -> reach true s k D.
Proof. intros (A & F & H & ->). exists A, F. split; [by apply reachFA_reachA|done]. Qed.

Lemma reachFA_J s k A F : reachFA s k A F -> J s k.
Proof.
  intros H. destruct (reachA_inv _ _ _ _ _ (reachFA_reachA _ _ _ _ H)) as [W _].
  split; [done|]. clear W.
  induction H as [k0 b Hk|s k A F id m ms H IH|s k A F id H IH|s k A F add id ms H IH|s k A F H IH|s k A F f H IH
                 |s k A F obs budget s' k' ev H IH Hu|s k A F tries s' k' ev rs H IH Hd].
  - split; [done|by left].
  - destruct IH as [Hn Hv]. split; [done|]. destruct Hv as [Hf|Hv]; [left|right; by apply V_add_or_replace].
    unfold add_or_replace. match goal with |- context [upd_dirty ?x ?y] => destruct (fields_upd_dirty x y) as (_&_&_&_&_&_&_&->) end.
    destruct (needed s _); done.
  - destruct IH as [Hn Hv]. split; [done|]. destruct Hv as [Hf|Hv]; [left|right; by apply V_remove].
    unfold remove_ipset. repeat case_match; try done;
      match goal with |- context [upd_dirty ?x ?y] => destruct (fields_upd_dirty x y) as (_&_&_&_&_&_&_&->) end; done.
  - destruct IH as [Hn Hv]. split; [done|]. destruct Hv as [Hf|Hv]; [left|right; by apply V_change].
    unfold change_members. repeat case_match; try done;
      match goal with |- context [upd_dirty ?x ?y] => destruct (fields_upd_dirty x y) as (_&_&_&_&_&_&_&->) end; done.
  - destruct IH as [Hn Hv]. split; [done|]. destruct Hv as [Hf|Hv]; [by left|right]. eapply V_fields; [..|exact Hv]; done.
  - destruct (reachA_inv _ _ _ _ _ (reachFA_reachA _ _ _ _ H)) as [W _].
    destruct IH as [Hn Hv]. split; [done|]. destruct Hv as [Hf|Hv]; [left|right; by apply V_set_filter].
    by rewrite full_set_filter.
  - destruct (reachA_inv _ _ _ _ _ (reachFA_reachA _ _ _ _ H)) as [W _].
    destruct (apply_updates_loop_J _ _ _ _ _ _ _ _ Hu (conj W IH)) as (_ & ? & ?). done.
  - destruct (reachA_inv _ _ _ _ _ (reachFA_reachA _ _ _ _ H)) as [W _].
    destruct (apply_deletions_J _ _ _ _ _ _ _ Hd (conj W IH)) as (_ & ? & ?). done.
Qed.
Lemma reachF_J s k D : reachF s k D -> J s k.
Proof. intros (A & F & H & _). by eapply reachFA_J. Qed.

(* ---------------------------------------------------------------- convergence *)
(* Felix has nothing left to do: no resync pending or queued, nothing dirty, no metadata to fix, nothing to delete *)
Definition quiet (s : st) : Prop :=
  s_full s = false ∧ s_must s = ∅ ∧ dirty1 s ∪ dirty2 s = ∅ ∧ pending_del s = ∅.

Lemma converges s k D n :
  reachF s k D -> quiet s -> owned n = true -> k !! n = want_of D n.
Proof.
  intros Hr (Hf & Hm & Hd & Hp) Ho.
  destruct (reachF_J _ _ _ Hr) as (W & Hn & Hv). destruct Hv as [?|Hv]; [congruence|].
  destruct (reach_inv _ _ _ _ (reachF_reach _ _ _ Hr)) as [_ Hrel]. rewrite <- Hrel.
  destruct (Hv n Ho) as [?|[?|[Ha Hdy]]]; [set_solver|set_solver|].
  assert (∀ x, is_Some (s_dp s !! x) → is_Some (s_des s !! x)) as Hsub.
  { intros x Hx. apply elem_of_dom. apply elem_of_dom in Hx.
    destruct (decide (x ∈ dom (s_des s))); [done|]. exfalso.
    assert (x ∈ pending_del s) by (unfold pending_del; set_solver). set_solver. }
  unfold wants. unfold acc in Ha. destruct (is_temp n) eqn:Ht.
  - (* a temporary name: not desired, so not known, so not in the kernel *)
    rewrite (WF_no_temp_des _ W n Ht).
    destruct Ha as [?|Hk]; [done|]. apply Hsub in Hk. rewrite (WF_no_temp_des _ W n Ht) in Hk. by destruct Hk.
  - destruct (s_dp s !! n) as [[dm fl]|] eqn:Edp.
    + destruct (k !! n) as [[km kms]|] eqn:Ek; [|done]. destruct Ha as [Hkm [d Ht']].
      destruct (Hsub n) as [m Hdes]; [eauto|]. rewrite Hdes, Ht'.
      (* no pending metadata: the view's metadata is the desired one *)
      assert (n ∉ pending_meta s) as Hpm.
      { intros Hin. assert (n ∈ dirty1 s ∪ dirty2 s); [|set_solver].
        destruct (decide (n ∈ s_dirty s)); [apply elem_of_union_l|apply elem_of_union_r].
        - unfold dirty1. apply elem_of_intersection. split; [done|]. apply elem_of_dom; eauto.
        - unfold dirty2. set_solver. }
      unfold pending_meta in Hpm. rewrite elem_of_filter in Hpm.
      assert (needs_meta s n = false) as Hnm.
      { destruct (needs_meta s n) eqn:E; [|done]. exfalso. apply Hpm. split; [done|]. apply elem_of_dom; eauto. }
      unfold needs_meta in Hnm. rewrite Hdes, Edp in Hnm. apply negb_false_iff, bool_decide_eq_true in Hnm.
      injection Hnm as -> ->.
      (* not dirty: the view's members are the desired ones *)
      assert (d = kms) as ->.
      { destruct (decide (d = kms)) as [|Hne]; [done|]. exfalso.
        assert (needed s n = true) as Hnd by (destruct (wf_all _ W) as (W1 & _); by destruct (W1 _ _ Hdes)).
        assert (n ∈ s_dirty s) as Hin by (eapply Hdy; eauto).
        assert (n ∈ dirty1 s ∪ dirty2 s); [|set_solver].
        apply elem_of_union_l. unfold dirty1. apply elem_of_intersection. split; [done|]. apply elem_of_dom; eauto. }
      by rewrite Hkm.
    + destruct (k !! n) as [[km kms]|] eqn:Ek; [done|].
      destruct (s_des s !! n) as [m|] eqn:Hdes; [|done].
      (* desired but not in the dataplane view: that is pending metadata *)
      exfalso. assert (n ∈ dirty1 s ∪ dirty2 s); [|set_solver].
      assert (n ∈ pending_meta s) as Hin.
      { unfold pending_meta. apply elem_of_filter. split; [|apply elem_of_dom; eauto].
        unfold needs_meta. rewrite Hdes, Edp. done. }
      destruct (decide (n ∈ s_dirty s)); [apply elem_of_union_l|apply elem_of_union_r].
      * unfold dirty1. apply elem_of_intersection. split; [done|]. apply elem_of_dom; eauto.
      * unfold dirty2. set_solver.
Qed.

(* non-vacuity: the repaired example history of ProofsMain.v ends in a quiet state *)
Definition quietb (s : st) : bool :=
  negb (s_full s) && bool_decide (s_must s = ∅) && bool_decide (dirty1 s ∪ dirty2 s = ∅) && bool_decide (pending_del s = ∅).
Lemma quietb_quiet s : quietb s = true -> quiet s.
Proof.
  unfold quietb, quiet. intros H.
  repeat match goal with H : _ && _ = true |- _ => apply andb_true_iff in H as [H ?] end.
  repeat match goal with H : bool_decide _ = true |- _ => apply bool_decide_eq_true in H end.
  apply negb_true_iff in H. done.
Qed.
Lemma fk_quiet : quietb (d_s fk_r6) = true.
Proof. vm_compute. reflexivity. Qed.

(* ---------------------------------------------------------------- what a successful ApplyUpdates leaves *)
Lemma apply_updates_loop_done obs : ∀ att budget k s s' k' ev,
  apply_updates_loop true obs att budget k s = Some (s', k', ev) -> J s k ->
  s_panic s' = true ∨ (s_full s' = false ∧ s_must s' = ∅ ∧ dirty1 s' ∪ dirty2 s' = ∅).
Proof.
  induction obs as [|a rest IH]; intros att budget k s s' k' ev H (Hs & Hn & Hv); [done|].
  cbn [apply_updates_loop] in H.
  destruct (if s_full s || s_bgreq s || negb (rq_empty s) then try_resync k (a_resync a) budget s
             else match a_resync a with [] => Some (s, budget) | _ => None end) as [[s1 b1]|] eqn:E1; [|done].
  assert (good s s1 ∧ V s1 k ∧ s_must s1 = ∅) as (G1 & V1 & M1).
  { revert E1. destruct (s_full s || s_bgreq s || negb (rq_empty s)) eqn:Ec; intros E1.
    - split; [eapply good_try_resync; [exact E1|exact Hs]|]. eapply V_try_resync; [exact E1|done|done|done].
    - destruct (a_resync a); [|done]. simplify_eq.
      apply orb_false_iff in Ec as [Ec Ee]. apply orb_false_iff in Ec as [Ef _].
      apply negb_false_iff in Ee. unfold rq_empty in Ee. apply andb_true_iff in Ee as [Ee _].
      apply bool_decide_eq_true in Ee.
      split; [done|]. split; [|done]. destruct Hv as [?|?]; [congruence|done]. }
  destruct (del_pass true (a_tmpdel a) ∅ k s1) as [[[[s2 k2] ev2] c2]|] eqn:E2; [|done].
  destruct (del_pass_good _ _ _ _ _ _ _ _ _ E2 (proj1 G1)) as (G2 & _ & _).
  destruct (del_pass_V _ _ _ _ _ _ _ _ _ E2 (proj1 G1) Hn V1) as (V2 & N2 & M2).
  assert (s_must s2 = ∅) as M2' by (rewrite M1 in M2; set_solver).
  destruct (try_updates true a k2 s2) as [[[[s3 k3] ev3] f3]|] eqn:E3; [|done].
  destruct (try_updates_good _ _ _ _ _ _ _ _ E3 (proj1 G2)) as (G3 & _ & _).
  destruct (try_updates_V _ _ _ _ _ _ _ E3 (proj1 G2) N2 V2 M2') as (V3 & N3 & D3).
  destruct f3.
  - set (s4 := if Nat.leb (MaxRetryAttempt / 2) att then set_full true s3 else s3) in *.
    assert (J s4 k3) as J4.
    { subst s4. destruct (Nat.leb _ _).
      - split; [apply good_set_full, G3|]. split; [done|]. right. eapply V_fields; [..|exact V3]; done.
      - split; [apply G3|]. split; [done|]. by right. }
    destruct (Nat.eqb (S att) MaxRetryAttempt).
    + destruct rest; [|done]. simplify_eq. by left.
    + destruct (apply_updates_loop true rest (S att) b1 k3 s4) as [[[s5 k5] ev5]|] eqn:E5; [|done]. simplify_eq.
      eapply IH; done.
  - destruct rest; [|done]. simplify_eq. right. destruct (D3 eq_refl) as [Dm Dd]. done.
Qed.

Lemma del_pass_desired t tries : ∀ dn k s s' k' ev c,
  del_pass t tries dn k s = Some (s', k', ev, c) ->
  s_dirty s' = s_dirty s ∧ s_des s' = s_des s ∧ ∀ n, is_Some (s_des s !! n) → s_dp s' !! n = s_dp s !! n.
Proof.
  induction tries as [|[n inj] rest IH]; intros dn k s s' k' ev c H; simpl in H.
  - case_bool_decide; [|done]. by simplify_eq.
  - destruct (bool_decide (n ∈ _) && _) eqn:Hel; [|done].
    apply andb_true_iff in Hel as [Hel _]. apply bool_decide_eq_true in Hel.
    apply elem_of_filter in Hel as [_ Hpd]. unfold pending_del in Hpd.
    apply elem_of_difference in Hpd as [_ Hdes]. apply not_elem_of_dom in Hdes.
    destruct (if inj then None else exec k (CDestroy n)) as [k1|].
    + destruct rest; [|done]. simplify_eq.
      assert (∀ x, is_Some (s_des s !! x) → x ≠ n) as Hne by (intros x [? Hx] ->; congruence).
      destruct t; simpl; [split; [done|]; split; [done|]; intros x Hx; by rewrite lookup_delete_ne by (by apply not_eq_sym, Hne)|].
      destruct (forget_fields n (rq_remove n s)) as (F1 & F2 & _ & _ & F5 & _).
      rewrite F1, F2, F5. simpl. split; [done|]. split; [done|].
      intros x Hx. by rewrite lookup_delete_ne by (by apply not_eq_sym, Hne).
    + set (s1 := if t then s else match s_dp s !! n with Some (m, (_, lf)) => set_dp <[n:=(m, (true, lf))]> s | None => s end) in *.
      destruct (del_pass t rest ({[n]} ∪ dn) k s1) as [[[[s2 k2] ev2] c2]|] eqn:Er; [|done]. simplify_eq.
      destruct (IH _ _ _ _ _ _ _ Er) as (A1 & A2 & A3).
      assert (s_dirty s1 = s_dirty s ∧ s_des s1 = s_des s ∧ ∀ x, x ≠ n → s_dp s1 !! x = s_dp s !! x) as (B1 & B2 & B3).
      { subst s1. destruct t; [done|]. destruct (s_dp s !! n) as [[m [df lf]]|]; [|done]. simpl.
        split; [done|]. split; [done|]. intros x Hx. by rewrite lookup_insert_ne. }
      split; [congruence|]. split; [congruence|]. intros x Hx.
      rewrite A3 by (by rewrite B2). apply B3. intros ->. destruct Hx as [? Hx]. congruence.
Qed.

Lemma dirty_same s s' :
  s_dirty s' = s_dirty s -> s_des s' = s_des s -> (∀ n, is_Some (s_des s !! n) → s_dp s' !! n = s_dp s !! n) ->
  dirty1 s' ∪ dirty2 s' = dirty1 s ∪ dirty2 s.
Proof.
  intros E1 E2 E3. unfold dirty1, dirty2. rewrite E1, E2.
  assert (pending_meta s' = pending_meta s) as ->; [|done].
  unfold pending_meta. rewrite E2. apply set_eq. intros x. rewrite !elem_of_filter.
  assert (x ∈ dom (s_des s) → needs_meta s' x = needs_meta s x) as Hx.
  { intros Hd. apply elem_of_dom in Hd. unfold needs_meta. rewrite E2, (E3 x Hd). done. }
  split; intros [H1 H2]; (split; [|done]); [rewrite <- Hx|rewrite Hx]; done.
Qed.

(* c16_converges in the words of the property: after a successful ApplyUpdates and an ApplyDeletions that leave no
   pending deletion, every owned set is exactly as desired and no other owned set remains. *)
Lemma converges_after_apply s k D obs budget s1 k1 ev1 tries s2 k2 ev2 rs n :
  reachF s k D ->
  apply_updates true obs budget k s = Some (s1, k1, ev1) -> s_panic s1 = false ->
  apply_deletions tries k1 s1 = Some (s2, k2, ev2, rs) -> pending_del s2 = ∅ ->
  owned n = true -> k2 !! n = want_of D n.
Proof.
  intros Hr Hu Hp Hd Hpd Ho.
  pose proof (reachF_J _ _ _ Hr) as J0.
  destruct (apply_updates_loop_done _ _ _ _ _ _ _ _ Hu J0) as [?|(Hf & Hm & Hdy)]; [congruence|].
  pose proof (apply_updates_loop_J _ _ _ _ _ _ _ _ Hu J0) as (W1 & N1 & V1).
  destruct V1 as [?|V1]; [congruence|].
  eapply (converges s2 k2 D n); [|  |done].
  { destruct Hr as (A & F & Hr & ->). exists A, F. split; [|done].
    eapply fa_deletions; [eapply fa_updates; [exact Hr|exact Hu]|exact Hd]. }
  unfold apply_deletions in Hd.
  destruct (del_pass false tries ∅ k1 s1) as [[[[sx kx] evx] cx]|] eqn:E2; [|done]. simplify_eq.
  destruct (del_pass_V _ _ _ _ _ _ _ _ _ E2 W1 N1 V1) as (_ & _ & Msub).
  destruct (del_pass_desired _ _ _ _ _ _ _ _ _ E2) as (A1 & A2 & A3).
  split; [by rewrite (del_pass_full _ _ _ _ _ _ _ _ _ E2)|].
  split; [set_solver|]. split; [|done].
  rewrite (dirty_same s1 s2 A1 A2 A3). done.
Qed.
