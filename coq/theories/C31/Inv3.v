(* C31 — the invariant, part 3: frame lemmas and the operations that only change tables or broadcast. *)
From Coq Require Import List Arith Bool Permutation Lia.
From Verif.C31 Require Import Model Spec Lemmas Views Groups GroupAdv Sync Inv Inv2.
Import ListNotations.

Lemma live_ok_frame : forall st st' w ei,
  live_ok st w ei -> veq (ep_target st w ei) (ep_target st' w ei) -> (sync_ok st ei -> sync_ok st' ei) -> live_ok st' w ei.
Proof.
  intros st st' w ei L E S. unfold live_ok in *. destruct (e_out ei) as [[j s]|]; [|exact L].
  destruct L as (L1 & L2 & L3). split; [exact L1|]. split; [eapply advR_conseq; eassumption|apply S; exact L3].
Qed.

Lemma veq_target_tables : forall st st' w ei,
  (forall k, mem k (e_spol ei) = true -> lookup k (pols st') = lookup k (pols st)) ->
  (forall k, mem k (e_sprof ei) = true -> lookup k (profs st') = lookup k (profs st)) ->
  (forall k, mem k (e_sips ei) = true -> lookup k (ipsets st') = lookup k (ipsets st)) ->
  sas st' = sas st -> nss st' = nss st -> insync st' = insync st ->
  veq (ep_target st w ei) (ep_target st' w ei).
Proof.
  intros st st' w ei H1 H2 H3 H4 H5 H6. unfold ep_target, tgt, stv, veq; simpl. rewrite H4, H5, H6.
  repeat split; intro k.
  - destruct (mem k (e_spol ei)) eqn:E; [rewrite H1 by exact E|]; reflexivity.
  - destruct (mem k (e_sprof ei)) eqn:E; [rewrite H2 by exact E|]; reflexivity.
  - destruct (mem k (e_sips ei)) eqn:E; [rewrite H3 by exact E|]; reflexivity.
Qed.

Lemma refs_of_all_ext : forall tbl tbl' ids, (forall i, In i ids -> lookup i tbl' = lookup i tbl) ->
  refs_of_all tbl' ids = refs_of_all tbl ids.
Proof.
  intros tbl tbl' ids. induction ids as [|i ids IH]; intro H; simpl; [reflexivity|].
  rewrite (H i) by (left; reflexivity). rewrite IH by (intros; apply H; right; assumption). reflexivity.
Qed.

Lemma refs_of_all_in : forall tbl ids x s, refs_of_all tbl ids = Some x -> In s x ->
  exists i r, In i ids /\ lookup i tbl = Some r /\ In s (refs r).
Proof.
  intros tbl ids. induction ids as [|i ids IH]; simpl; intros x s H Hs.
  - inversion H; subst. destruct Hs.
  - destruct (lookup i tbl) as [pl|] eqn:L; [|discriminate]. destruct (refs_of_all tbl ids) as [y|] eqn:R; [|discriminate].
    inversion H; subst. apply in_app_or in Hs. destruct Hs as [Hs|Hs].
    + exists i, pl. auto.
    + destruct (IH _ _ eq_refl Hs) as (i0 & r & A & B & C). exists i0, r. auto.
Qed.

Lemma needed_in : forall st ei l s, needed_ips st ei = Some l -> In s l ->
  (exists i r, In i (e_profs ei) /\ lookup i (profs st) = Some r /\ In s (refs r)) \/
  (exists i r, In i (e_pols ei) /\ lookup i (pols st) = Some r /\ In s (refs r)).
Proof.
  intros st ei l s H Hs. unfold needed_ips in H.
  destruct (refs_of_all (profs st) (e_profs ei)) as [a|] eqn:A; [|discriminate].
  destruct (refs_of_all (pols st) (e_pols ei)) as [b|] eqn:B; [|discriminate].
  inversion H; subst. apply In_dedup, in_app_or in Hs. destruct Hs as [Hs|Hs]; [left|right]; eapply refs_of_all_in; eassumption.
Qed.

(* a live, synced endpoint holds only policies/profiles it lists and IP sets those mention *)
Lemma sips_referenced : forall st w ei s, live_ok st w ei -> e_out ei <> None -> mem s (e_sips ei) = true ->
  (exists k r, lookup k (profs st) = Some r /\ In s (refs r)) \/ (exists k r, lookup k (pols st) = Some r /\ In s (refs r)).
Proof.
  intros st w ei s L O M. unfold live_ok in L. destruct (e_out ei) as [[j t]|]; [|congruence].
  destruct L as (_ & _ & S). unfold sync_ok in S. destruct (e_upd ei) eqn:U.
  - destruct S as (_ & _ & S). apply mem_In in M. destruct (needed_in _ _ _ _ S M) as [(i & r & _ & A & B)|(i & r & _ & A & B)]; [left|right]; exists i, r; auto.
  - destruct S as (_ & _ & S). rewrite S in M. discriminate.
Qed.

Lemma spol_listed : forall st w ei p, live_ok st w ei -> e_out ei <> None -> mem p (e_spol ei) = true ->
  exists e, e_upd ei = Some e /\ In p (ep_policies e).
Proof.
  intros st w ei p L O M. unfold live_ok in L. destruct (e_out ei) as [[j t]|]; [|congruence].
  destruct L as (_ & _ & S). unfold sync_ok in S. destruct (e_upd ei) as [e|] eqn:U.
  - destruct S as (S & _). rewrite S in M. exists e. split; [reflexivity|apply ep_pols_spec, mem_In, M].
  - destruct S as (S & _). rewrite S in M. discriminate.
Qed.
Lemma sprof_listed : forall st w ei p, live_ok st w ei -> e_out ei <> None -> mem p (e_sprof ei) = true ->
  exists e, e_upd ei = Some e /\ In p (ep_profiles e).
Proof.
  intros st w ei p L O M. unfold live_ok in L. destruct (e_out ei) as [[j t]|]; [|congruence].
  destruct L as (_ & _ & S). unfold sync_ok in S. destruct (e_upd ei) as [e|] eqn:U.
  - destruct S as (_ & S & _). rewrite S in M. exists e. split; [reflexivity|apply mem_In, M].
  - destruct S as (_ & S & _). rewrite S in M. discriminate.
Qed.

Lemma sync_ok_ext : forall st st' ei,
  (forall i, In i (e_pols ei) -> lookup i (pols st') = lookup i (pols st)) ->
  (forall i, In i (e_profs ei) -> lookup i (profs st') = lookup i (profs st)) ->
  sync_ok st ei -> sync_ok st' ei.
Proof.
  intros st st' ei H1 H2 S. unfold sync_ok in *. destruct (e_upd ei) eqn:U; [|exact S].
  destruct S as (A & B & C). split; [exact A|]. split; [exact B|]. rewrite <- C. unfold needed_ips.
  rewrite (refs_of_all_ext _ _ _ H1), (refs_of_all_ext _ _ _ H2). reflexivity.
Qed.

(* the truth side of an entry *)
Lemma entry_truth : forall T st w ei, Inv T st -> In (w, ei) (eps st) -> lookup w (t_eps T) = e_upd ei.
Proof.
  intros T st w ei I H. assert (L := i_fal _ _ I _ _ H). assert (A := i_abs _ _ I w). unfold absw in A. rewrite L in A. congruence.
Qed.

(* an operation that changes only tables, leaving every live endpoint's needs untouched *)
Lemma tables_inv : forall T T' st st',
  Inv T st -> eps st' = eps st -> closed st' = closed st ->
  sas st' = sas st -> nss st' = nss st -> insync st' = insync st ->
  (forall w ei, In (w, ei) (eps st) -> e_out ei <> None ->
     (forall k, mem k (e_spol ei) = true -> lookup k (pols st') = lookup k (pols st)) /\
     (forall k, mem k (e_sprof ei) = true -> lookup k (profs st') = lookup k (profs st)) /\
     (forall k, mem k (e_sips ei) = true -> lookup k (ipsets st') = lookup k (ipsets st))) ->
  pols st' = t_pols T' -> profs st' = t_profs T' -> ipsets st' = t_ips T' -> sas st' = t_sas T' -> nss st' = t_nss T' ->
  insync st' = t_insync T' -> njoins st' = t_njoins T' -> t_eps T' = t_eps T -> t_conn T' = t_conn T -> t_njoins T' = t_njoins T ->
  WFT T' -> Inv T' st'.
Proof.
  intros T T' st st' I HE HC HA HN HS HL E1 E2 E3 E4 E5 E6 E7 E8 E9 E10 W.
  constructor; try assumption.
  - intro w. rewrite E8, E9, <- (i_abs _ _ I w). unfold absw. rewrite HE. reflexivity.
  - rewrite HE. apply (i_fal _ _ I).
  - rewrite HA. apply (i_fsa _ _ I).
  - rewrite HN. apply (i_fns _ _ I).
  - intros w ei H. rewrite HE in H. assert (L := i_live _ _ I _ _ H).
    destruct (e_out ei) as [[j s]|] eqn:O; [|unfold live_ok in *; rewrite O in *; exact L].
    assert (O' : e_out ei <> None) by congruence. destruct (HL w ei H O') as (H1 & H2 & H3).
    apply (live_ok_frame st st' w ei L); [apply veq_target_tables; assumption|].
    apply sync_ok_ext.
    + intros i Hi. apply H1. unfold live_ok in L. rewrite O in L. destruct L as (_ & _ & S). unfold sync_ok in S.
      unfold e_pols in Hi. destruct (e_upd ei); [|destruct Hi]. destruct S as (S & _). rewrite S. apply mem_In, Hi.
    + intros i Hi. apply H2. unfold live_ok in L. rewrite O in L. destruct L as (_ & _ & S). unfold sync_ok in S.
      unfold e_profs in Hi. destruct (e_upd ei); [|destruct Hi]. destruct S as (_ & S & _). rewrite S. apply mem_In, Hi.
  - intros j w c s H. rewrite HC in H. apply (i_closed _ _ I j w c s H).
  - unfold WFC. rewrite E9, E10. apply (i_wfc _ _ I).
  - intros j w c s H. rewrite HC in H. unfold cfree. rewrite E9, E10. apply (i_cidx _ _ I j w c s H).
Qed.
