(* C31 — the boolean oracle accepts every observation of a model run on a valid history: part 1, the boolean
   comparisons of Spec.agrees are sound, and ok_chan_from unfolded one operation at a time. *)
From Coq Require Import List Arith Bool Permutation Lia.
From Verif.C31 Require Import Model Spec Lemmas Views.
Import ListNotations.

Lemma list_eqb_sound : forall A (eqb : A -> A -> bool), (forall x y, eqb x y = true -> x = y) ->
  forall a b, list_eqb eqb a b = true -> a = b.
Proof.
  intros A eqb H. induction a as [|x a IH]; destruct b as [|y b]; simpl; intro E; try discriminate; [reflexivity|].
  apply andb_true_iff in E. destruct E as [E1 E2]. f_equal; [apply H, E1|apply IH, E2].
Qed.
Lemma ids_eqb_sound : forall a b, ids_eqb a b = true -> a = b.
Proof. apply list_eqb_sound. intros x y H. apply Nat.eqb_eq, H. Qed.
Lemma rule_eqb_sound : forall a b, rule_eqb a b = true -> a = b.
Proof. apply list_eqb_sound. apply ids_eqb_sound. Qed.
Lemma rules_eqb_sound : forall a b, rules_eqb a b = true -> a = b.
Proof.
  intros [v i o] [v' i' o'] H. unfold rules_eqb in H. simpl in H.
  apply andb_true_iff in H. destruct H as [H H3]. apply andb_true_iff in H. destruct H as [H1 H2].
  apply Nat.eqb_eq in H1. apply (list_eqb_sound _ _ rule_eqb_sound) in H2. apply (list_eqb_sound _ _ rule_eqb_sound) in H3. congruence.
Qed.
Lemma tier_eqb_sound : forall a b, tier_eqb a b = true -> a = b.
Proof.
  intros [i o] [i' o'] H. unfold tier_eqb in H. simpl in H. apply andb_true_iff in H. destruct H as [H1 H2].
  apply ids_eqb_sound in H1. apply ids_eqb_sound in H2. congruence.
Qed.
Lemma endpoint_eqb_sound : forall a b, endpoint_eqb a b = true -> a = b.
Proof.
  intros [v t p] [v' t' p'] H. unfold endpoint_eqb in H. simpl in H.
  apply andb_true_iff in H. destruct H as [H H3]. apply andb_true_iff in H. destruct H as [H1 H2].
  apply Nat.eqb_eq in H1. apply (list_eqb_sound _ _ tier_eqb_sound) in H2. apply ids_eqb_sound in H3. congruence.
Qed.
Lemma msg_eqb_sound : forall a b, msg_eqb a b = true -> a = b.
Proof.
  intros a b H. destruct a, b; simpl in H; try discriminate; try reflexivity;
    repeat match goal with
    | H : _ && _ = true |- _ => apply andb_true_iff in H; destruct H
    | H : Nat.eqb _ _ = true |- _ => apply Nat.eqb_eq in H
    | H : endpoint_eqb _ _ = true |- _ => apply endpoint_eqb_sound in H
    | H : rules_eqb _ _ = true |- _ => apply rules_eqb_sound in H
    | H : ids_eqb _ _ = true |- _ => apply ids_eqb_sound in H
    end; congruence.
Qed.

Lemma remove_first_spec : forall m l l', remove_first m l = Some l' -> Permutation l (m :: l').
Proof.
  intros m l. induction l as [|x l IH]; simpl; intros l' H; [discriminate|].
  destruct (msg_eqb m x) eqn:E.
  - inversion H; subst. apply msg_eqb_sound in E. subst. apply Permutation_refl.
  - destruct (remove_first m l) as [r|]; [|discriminate]. inversion H; subst.
    eapply Permutation_trans; [apply perm_skip, IH; reflexivity|apply perm_swap].
Qed.
Lemma is_perm_sound : forall a b, is_perm a b = true -> Permutation a b.
Proof.
  induction a as [|m a IH]; simpl; intros b H.
  - destruct b; [constructor|discriminate].
  - destruct (remove_first m b) as [b'|] eqn:R; [|discriminate]. apply remove_first_spec in R.
    eapply Permutation_trans; [apply perm_skip, IH, H|apply Permutation_sym, R].
Qed.
Lemma match_groups_sound : forall gs ms, match_groups gs ms = true -> lin gs ms.
Proof.
  induction gs as [|g gs IH]; simpl; intros ms H.
  - destruct ms; [constructor|discriminate].
  - apply andb_true_iff in H. destruct H as [H1 H2]. rewrite <- (firstn_skipn (length g) ms).
    constructor; [apply is_perm_sound, H1|apply IH, H2].
Qed.

(* ---- ok_chan_from, one operation at a time ---- *)

Definition step_ok1 (j : nat) (ch : chan_obs) (t : truth) (k : nat) (cs : cstate) : bool :=
  let ms := msgs_at k (ch_msgs ch) in
  let connected := match lookup (ch_w ch) (t_conn t) with Some (j', _) => Nat.eqb j j' | None => false end in
  let closed_by := match ch_closed ch with Some c => c <=? k | None => false end in
  let after_close := match ch_closed ch with Some c => c <? k | None => false end in
  snd (apply_checked (ch_w ch) cs ms)
  && Bool.eqb closed_by (negb connected)
  && (if after_close then match ms with [] => true | _ => false end else true)
  && (if connected then expected t (ch_w ch) (fold_left apply ms cs) else true).

Definition cs_step (ch : chan_obs) (k : nat) (cs : cstate) : cstate := fold_left apply (msgs_at k (ch_msgs ch)) cs.

Lemma ok_chan_cons : forall j ch t rest k cs,
  ok_chan_from j ch (t :: rest) k cs = step_ok1 j ch t k cs && ok_chan_from j ch rest (S k) (cs_step ch k cs).
Proof.
  intros. unfold step_ok1, cs_step. cbn [ok_chan_from].
  rewrite <- (apply_checked_fst (ch_w ch) (msgs_at k (ch_msgs ch)) cs).
  destruct (apply_checked (ch_w ch) cs (msgs_at k (ch_msgs ch))) as [cs' okm]. reflexivity.
Qed.

(* messages of the operations k .. k+n-1 *)
Fixpoint prev (ch : chan_obs) (k n : nat) : list msg :=
  match n with 0 => [] | S n' => msgs_at k (ch_msgs ch) ++ prev ch (S k) n' end.

Lemma prev_snoc : forall ch n k, prev ch k (S n) = prev ch k n ++ msgs_at (k + n) (ch_msgs ch).
Proof.
  intros ch n. induction n as [|n IH]; intro k.
  - simpl. rewrite app_nil_r, Nat.add_0_r. reflexivity.
  - change (prev ch k (S (S n))) with (msgs_at k (ch_msgs ch) ++ prev ch (S k) (S n)). rewrite IH.
    simpl. rewrite app_assoc. replace (S (k + n)) with (k + S n) by lia. reflexivity.
Qed.

Lemma ok_chan_snoc : forall j ch tr t k cs,
  ok_chan_from j ch (tr ++ [t]) k cs =
  ok_chan_from j ch tr k cs && step_ok1 j ch t (k + length tr) (fold_left apply (prev ch k (length tr)) cs).
Proof.
  intros j ch tr t. induction tr as [|t0 tr IH]; intros k cs.
  - simpl app. rewrite ok_chan_cons. simpl. rewrite Nat.add_0_r, andb_true_r. reflexivity.
  - simpl app. rewrite !ok_chan_cons, IH. unfold cs_step. simpl length. simpl prev. rewrite fold_left_app.
    replace (S k + length tr) with (k + S (length tr)) by lia. rewrite andb_assoc. reflexivity.
Qed.
