(* C31 — the invariant, part 8: endpoint remove, endpoint update, join. *)
From Coq Require Import List Arith Bool Permutation Lia.
From Verif.C31 Require Import Model Spec Lemmas Views Groups GroupAdv Sync ListedOnce Inv Inv2 Inv3 Inv4 Inv5 Inv7.
Import ListNotations.

Lemma step_wep_remove : forall T st w, Inv T st -> valid_op T (OWepRemove w) = true -> step_ok T st (OWepRemove w).
Proof.
  intros T st w I V. unfold step_ok. assert (W := wft_step T _ (i_wft _ _ I) V).
  assert (WC := wfc_step T (OWepRemove w) (i_wfc _ _ I)).
  cbn [valid_op] in V. apply present_true in V.
  assert (A := abs_lookup T st w I). cbn [step]. unfold handle_wep_remove. cbn [tstep] in *.
  destruct (lookup w (eps st)) as [ei|] eqn:LW; cbn [entry_abs] in A; [|inversion A; congruence].
  assert (H := lookup_in _ _ _ _ LW). assert (L := i_live _ _ I _ _ H).
  eexists. split; [reflexivity|].
  eapply (single_inv T _ st _ w None I); try reflexivity; try (tbl I); try exact W.
  - intros; discriminate.
  - intros w0 N. cbn [t_eps t_conn]. rewrite !lookup_remove. destruct (Nat.eqb_spec w0 w); [congruence|split; reflexivity].
  - cbn [t_eps t_conn entry_abs]. rewrite !lookup_remove, Nat.eqb_refl. reflexivity.
  - intros j0 w0 c s0 Hc. cbn [closed] in Hc. apply archive_in in Hc. destruct Hc as [Hc|[-> Hc]]; [left; exact Hc|right].
    destruct (e_out ei) as [[j s]|] eqn:O; [|unfold emit in Hc; rewrite O in Hc; congruence].
    unfold emit in Hc. rewrite O in Hc. cbn [e_out set_out] in Hc. inversion Hc; subst.
    unfold live_ok in L. rewrite O in L. destruct L as (_ & A0 & _).
    split; [|inversion A as [[A1' A2']]; unfold conn_of in A2'; rewrite O in A2';
             eapply (cfree_archived T w j0 _ (t_njoins T) (remove w (t_conn T)) None (i_wfc _ _ I)); [symmetry; exact A2'|apply le_n| |left; reflexivity];
             intro w'; rewrite lookup_remove; reflexivity].
    assert (A1 : advR w (ep_target st w ei) [[MWepRemove w]] (vapply (ep_target st w ei) (MWepRemove w))).
    { apply adv_one; [apply A0|simpl; apply Nat.eqb_refl|apply RIv_rm_ep; apply A0|apply veq_refl]. }
    intros ms Hl. rewrite groups_app in Hl. change (groups [(clk st, [MWepRemove w])]) with [[MWepRemove w]] in Hl.
    destruct (advR_seq _ _ _ _ _ _ A0 A1) as [AD _]. apply (AD cinit wfc_init holds_init ms Hl).
  - exact WC.
  - right. left. cbn [t_conn]. rewrite lookup_remove, Nat.eqb_refl. reflexivity.
Qed.

Lemma RIv_empty_tgt : forall st, RIv (tgt vinit st None [] [] []).
Proof. intro st. split; [|split]; simpl; intros; discriminate. Qed.

Lemma step_wep_update : forall T st w e, Inv T st -> valid_op T (OWepUpdate w e) = true -> step_ok T st (OWepUpdate w e).
Proof.
  intros T st w e I V. unfold step_ok. assert (W := wft_step T _ (i_wft _ _ I) V).
  assert (WC := wfc_step T (OWepUpdate w e) (i_wfc _ _ I)).
  cbn [valid_op] in V.
  apply andb_true_iff in V. destruct V as [V D2]. apply andb_true_iff in V. destruct V as [V D1].
  apply andb_true_iff in V. destruct V as [V1 V2]. rewrite forallb_forall in V1, V2. apply listed_once_nodup in D1. apply negb_true_iff in D2.
  assert (HP : forall p, In p (ep_policies e) -> lookup p (pols st) <> None) by (intros p Hp; rewrite (i_pols _ _ I); apply present_true, V1, Hp).
  assert (HF : forall p, In p (ep_profiles e) -> lookup p (profs st) <> None) by (intros p Hp; rewrite (i_profs _ _ I); apply present_true, V2, Hp).
  assert (A := abs_lookup T st w I). cbn [step]. unfold handle_wep_update. cbn [tstep] in *.
  assert (HT : forall w0 : id, w0 <> w -> lookup w0 (insert w e (t_eps T)) = lookup w0 (t_eps T) /\ lookup w0 (t_conn T) = lookup w0 (t_conn T)).
  { intros w0 N. rewrite lookup_insert. destruct (Nat.eqb_spec w0 w); [congruence|split; reflexivity]. }
  destruct (lookup w (eps st)) as [ei|] eqn:LW; cbn [entry_abs] in A; inversion A as [[A1 A2]]; clear A.
  - assert (H := lookup_in _ _ _ _ LW). assert (L := i_live _ _ I _ _ H).
    destruct ei as [o u up sp sf si]. cbn [e_out e_uid e_spol e_sprof e_sips]. unfold conn_of in A2. cbn [e_out e_uid] in A2.
    destruct o as [[j s0]|].
    + unfold live_ok in L. cbn [e_out e_uid] in L. destruct L as (U & AD & S).
      destruct (maybe_sync_adv (stv st) st w u e j s0 sp sf si (epo_of w (mkE (Some (j, s0)) u up sp sf si)) (inv_wfb _ _ I) HP HF D1 D2)
        as (newS & t & N & MS & AD2); [apply AD|].
      rewrite MS. eexists. split; [reflexivity|].
      eapply (single_inv T _ st _ w (Some _) I); try reflexivity; try (tbl I); try exact W; try exact HT; try exact WC; try (left; reflexivity).
      * intros ei' E. inversion E; subst ei'. unfold live_ok. cbn [e_out e_uid]. split; [exact U|]. split.
        -- rewrite groups_app. eapply advR_seq; [exact AD|exact AD2].
        -- unfold sync_ok. cbn [e_upd e_spol e_sprof e_sips]. split; [reflexivity|]. split; [reflexivity|exact N].
      * cbn [entry_abs e_upd t_eps t_conn]. unfold conn_of. cbn [e_out e_uid]. rewrite lookup_insert, Nat.eqb_refl, <- A2. reflexivity.
      * intros j0 w0 c s1 Hc. left. exact Hc.
    + unfold maybe_sync. cbn [e_upd e_out]. eexists. split; [reflexivity|].
      eapply (single_inv T _ st _ w (Some _) I); try reflexivity; try (tbl I); try exact W; try exact HT; try exact WC; try (left; reflexivity).
      * intros ei' E. inversion E; subst ei'. exact L.
      * cbn [entry_abs e_upd t_eps t_conn]. unfold conn_of. cbn [e_out e_uid]. rewrite lookup_insert, Nat.eqb_refl, <- A2. reflexivity.
      * intros j0 w0 c s1 Hc. left. exact Hc.
  - unfold maybe_sync. cbn [e_upd e_out]. eexists. split; [reflexivity|].
    eapply (single_inv T _ st _ w (Some _) I); try reflexivity; try (tbl I); try exact W; try exact HT; try exact WC; try (left; reflexivity).
    + intros ei' E. inversion E; subst ei'. reflexivity.
    + cbn [entry_abs e_upd t_eps t_conn]. unfold conn_of. cbn [e_out e_uid]. rewrite lookup_insert, Nat.eqb_refl, <- A2. reflexivity.
    + intros j0 w0 c s1 Hc. left. exact Hc.
Qed.
